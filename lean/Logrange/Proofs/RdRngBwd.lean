import Logrange.Proofs.RdRngFwd
/-!
Backward-direction proofs for the RANGED journal iterator model (`partition.JIterator` + `chkSelector`, C03/C16):
`rGet`/`rNext` against the admitted-records abstraction (`rGetBwd : RGetBwdSpec`, `rNextBwd : RNextBwdSpec`): going
backward the iterator stands after `wbCount j s` admitted records; `Get` = admitted record `wbCount - 1` (EOF at 0) and
keeps the count, `Next` = `wbCount - 1`. Hypotheses as for the library iterator: no chunk id 0 (`PosIds`), at most 2^32
records per chunk (`bw_ChunkBound`; `count - 1` and `MaxUint32` are uint32 arithmetic).
-/
set_option linter.unusedVariables false
namespace Logrange.Rd

theorem wflatIdx_append (a b : Journal) (p : Pos) : wflatIdx (a ++ b) p = wflatIdx a p + wflatIdx b p := by
  induction a with
  | nil => simp [wflatIdx]
  | cons c r ih => rw [List.cons_append, wflatIdx_cons, wflatIdx_cons, ih]; omega

theorem wflatIdx_reverse (l : Journal) (p : Pos) : wflatIdx l.reverse p = wflatIdx l p := by
  induction l with
  | nil => rfl
  | cons c r ih =>
    rw [List.reverse_cons, wflatIdx_append, ih, wflatIdx_cons]
    simp only [wflatIdx, wfiTerm]; omega

/-- chunks behind `cid` contribute nothing to positions at or before `cid` -/
theorem wflatIdx_filter_le (j : Journal) (cid : Nat) (q : Pos) (h : q.cid ≤ cid) :
    wflatIdx (j.filter (fun c => decide (c.id ≤ cid))) q = wflatIdx j q := by
  induction j with
  | nil => rfl
  | cons c r ih =>
    rw [List.filter_cons]
    by_cases hc : c.id ≤ cid
    · simp only [hc, decide_true, if_true, wflatIdx_cons, ih]
    · simp only [hc, decide_false, Bool.false_eq_true, if_false, wflatIdx_cons, ih]
      simp only [wfiTerm]
      rw [if_neg (by omega), if_neg (by omega)]; omega

theorem rb_checkReduce (c : Chunk) (p : Nat) (hb : c.cnt ≤ maxU32 + 1) :
    (checkReduce (stOf c) p).2 = decide (0 < c.cnt ∧ c.minPos ≤ min p (c.hi - 1)) ∧
    (0 < c.cnt → (checkReduce (stOf c) p).1 = min p (c.hi - 1)) := by
  unfold checkReduce stOf Chunk.hi
  unfold maxU32 at hb
  simp only
  have e1 : (if p > c.maxPos then c.maxPos else p) = min p c.maxPos := by split <;> omega
  rw [e1]
  by_cases h0 : 0 < c.cnt
  · have e2 : (if min p c.maxPos ≥ c.cnt then (c.cnt + 4294967296 - 1) % 4294967296 else min p c.maxPos)
        = min p (min c.cnt (c.maxPos + 1) - 1) := by
      split
      · have : (c.cnt + 4294967296 - 1) % 4294967296 = c.cnt - 1 := by omega
        rw [this]; omega
      · omega
    rw [e2]
    refine ⟨?_, fun _ => rfl⟩
    by_cases hm : c.minPos ≤ min p (min c.cnt (c.maxPos + 1) - 1)
    · simp [h0, hm]
    · simp [h0, hm]
  · have hz : c.cnt = 0 := by omega
    refine ⟨?_, fun h => absurd h h0⟩
    simp [hz]

def startB : List Chunk → Nat → Nat
  | [], _ => 0
  | c :: rest, p => wflatIdx (c :: rest) ⟨c.id, p + 1⟩

def Desc (cs : List Chunk) : Prop := cs.Pairwise (fun a b => b.id < a.id)

/-- the loop of `getPosBackward` over a descending list `cs` of chunks of the journal -/
theorem rb_bwdLoop {j : Journal} (hs : Sorted j) (hcb : bw_ChunkBound j) : ∀ (cs : List Chunk)
    (stats : List (Nat × ChkSt)) (pIdx : Nat) (lastC : Chunk) (st' : List (Nat × ChkSt)) (ck : Option Chunk) (pos : Pos),
    (∀ c ∈ cs, c ∈ j) → Desc cs → RStats j stats →
    bwdLoop j cs stats pIdx lastC = (st', ck, pos) →
    (∀ c, ck = some c → c ∈ cs ∧ pos.cid = c.id ∧ c.minPos ≤ pos.idx ∧ pos.idx < c.hi ∧
        wflatIdx cs ⟨pos.cid, pos.idx + 1⟩ = startB cs pIdx ∧ st' = rebuild j []) ∧
    (ck = none → startB cs pIdx = 0 ∧ RStats j st') := by
  intro cs
  induction cs with
  | nil =>
    intro stats pIdx lastC st' ck pos _ _ hst h
    simp only [bwdLoop, Prod.mk.injEq] at h
    obtain ⟨rfl, rfl, rfl⟩ := h
    exact ⟨(by intro c hc; cases hc), fun _ => ⟨rfl, hst⟩⟩
  | cons c rest ih =>
    intro stats pIdx lastC st' ck pos hsub hd hst h
    have hcj : c ∈ j := hsub c (List.mem_cons_self ..)
    have hbound := hcb c hcj
    have hlt : ∀ x ∈ rest, x.id < c.id := (List.pairwise_cons.mp hd).1
    have hdr : Desc rest := (List.pairwise_cons.mp hd).2
    have hrest : ∀ k, wflatIdx rest ⟨c.id, k⟩ = (wflat rest).length := fun k => wflatIdx_eq_len (fun x hx => by
      have := hlt x hx; simp only [wfiTerm]; rw [if_pos this])
    obtain ⟨cr1, cr2⟩ := rb_checkReduce c pIdx hbound
    rw [bwdLoop, rf_getStatus hs hst hcj] at h
    simp only at h
    generalize hres : checkReduce (stOf c) pIdx = res at h cr1 cr2
    obtain ⟨pp, ok⟩ := res
    simp only at h cr1 cr2
    by_cases hok : 0 < c.cnt ∧ c.minPos ≤ min pIdx (c.hi - 1)
    · have : ok = true := by rw [cr1]; simp [hok]
      subst this
      have hpp := cr2 hok.1
      subst hpp
      simp only [if_true, Prod.mk.injEq] at h
      obtain ⟨rfl, rfl, rfl⟩ := h
      have hhi : 0 < c.hi := by unfold Chunk.hi; omega
      refine ⟨?_, by intro h; cases h⟩
      intro c' hc'; cases hc'
      refine ⟨List.mem_cons_self .., rfl, hok.2, by simp only; omega, ?_, rfl⟩
      simp only [startB, wflatIdx_cons, hrest, wfiTerm, Nat.lt_irrefl, if_false, if_true, Chunk.wBefore]
      omega
    · have : ok = false := by rw [cr1]; simp [hok]
      subst this
      simp only [Bool.false_eq_true, if_false] at h
      have hzero : c.wBefore (pIdx + 1) = 0 := by
        unfold Chunk.wBefore
        by_cases h0 : 0 < c.cnt
        · have : ¬ c.minPos ≤ min pIdx (c.hi - 1) := fun h => hok ⟨h0, h⟩
          omega
        · have : c.hi = 0 := by unfold Chunk.hi; omega
          omega
      have hstart : startB (c :: rest) pIdx = (wflat rest).length := by
        simp only [startB, wflatIdx_cons, hrest, wfiTerm, Nat.lt_irrefl, if_false, if_true, hzero]; omega
      obtain ⟨iA, iB⟩ := ih (rebuild j []) maxU32 c st' ck pos
        (fun x hx => hsub x (List.mem_cons_of_mem _ hx)) hdr (Or.inr rfl) h
      have hrestB : startB rest maxU32 = (wflat rest).length := by
        cases hr : rest with
        | nil => simp [startB, wflat]
        | cons c1 r' =>
          subst hr
          simp only [startB]
          apply wflatIdx_eq_len
          intro y hy
          have hb1 := hcb y (hsub y (List.mem_cons_of_mem _ hy))
          simp only [wfiTerm]
          rcases List.mem_cons.mp hy with rfl | hy'
          · rw [if_neg (Nat.lt_irrefl _), if_pos rfl]
            apply wBefore_full; unfold Chunk.hi; omega
          · have := (List.pairwise_cons.mp hdr).1 y hy'
            rw [if_pos this]
      constructor
      · intro c' hc'
        obtain ⟨m1, m2, m3, m4, m5, m6⟩ := iA c' hc'
        refine ⟨List.mem_cons_of_mem _ m1, m2, m3, m4, ?_, m6⟩
        have hidlt : pos.cid < c.id := by rw [m2]; exact hlt c' m1
        rw [wflatIdx_cons, m5, hstart, hrestB]
        simp only [wfiTerm]
        rw [if_neg (by omega), if_neg (by omega)]; omega
      · intro hn
        obtain ⟨n1, n2⟩ := iB hn
        exact ⟨by rw [hstart, ← hrestB, n1], n2⟩

/-- `getPosBackward` -/
theorem rb_getPosBackward {j : Journal} (hs : Sorted j) (hcb : bw_ChunkBound j) {stats : List (Nat × ChkSt)}
    (hst : RStats j stats) (p : Pos) (st' : List (Nat × ChkSt)) (ck : Option Chunk) (pos : Pos)
    (h : getPosBackward j stats p = (st', ck, pos)) :
    (∀ c, ck = some c → c ∈ j ∧ pos.cid = c.id ∧ c.minPos ≤ pos.idx ∧ pos.idx < c.hi ∧
        wflatIdx j ⟨pos.cid, pos.idx + 1⟩ = wflatIdx j ⟨p.cid, p.idx + 1⟩ ∧ st' = rebuild j []) ∧
    (ck = none → wflatIdx j ⟨p.cid, p.idx + 1⟩ = 0 ∧ RStats j st') := by
  unfold getPosBackward at h
  cases j with
  | nil =>
    simp only [Prod.mk.injEq] at h
    obtain ⟨rfl, rfl, rfl⟩ := h
    exact ⟨(by intro c hc; cases hc), fun _ => ⟨rfl, hst⟩⟩
  | cons f jr =>
    simp only at h
    generalize hj : f :: jr = j at *
    have hfl : ∀ q : Pos, q.cid ≤ p.cid →
        wflatIdx (j.filter (fun c => decide (c.id ≤ p.cid))).reverse q = wflatIdx j q := fun q hq => by
      rw [wflatIdx_reverse, wflatIdx_filter_le j p.cid q hq]
    cases hd : (j.filter (fun c => decide (c.id ≤ p.cid))).reverse with
    | nil =>
      rw [hd] at h
      simp only [Prod.mk.injEq] at h
      obtain ⟨rfl, rfl, rfl⟩ := h
      refine ⟨(by intro c hc; cases hc), fun _ => ⟨?_, hst⟩⟩
      have := hfl ⟨p.cid, p.idx + 1⟩ (Nat.le_refl _)
      rw [hd] at this
      rw [← this]; rfl
    | cons c0 rest =>
      rw [hd] at h
      simp only at h
      have hmemf : ∀ c ∈ c0 :: rest, c ∈ j ∧ c.id ≤ p.cid := by
        intro c hc
        rw [← hd, List.mem_reverse, List.mem_filter] at hc
        exact ⟨hc.1, by simpa using hc.2⟩
      have hsub : ∀ c ∈ c0 :: rest, c ∈ j := fun c hc => (hmemf c hc).1
      have hdesc : Desc (c0 :: rest) := by
        rw [← hd]; unfold Desc
        rw [List.pairwise_reverse]
        exact List.Pairwise.sublist List.filter_sublist hs
      have hlt : ∀ x ∈ rest, x.id < c0.id := (List.pairwise_cons.mp hdesc).1
      have hc0 := hmemf c0 (List.mem_cons_self ..)
      obtain ⟨A, B⟩ := rb_bwdLoop hs hcb (c0 :: rest) stats _ c0 st' ck pos hsub hdesc hst h
      have hstart : startB (c0 :: rest) (if c0.id ≠ p.cid then (c0.cnt + 4294967296 - 1) % 4294967296 else p.idx)
          = wflatIdx j ⟨p.cid, p.idx + 1⟩ := by
        rw [← hfl ⟨p.cid, p.idx + 1⟩ (Nat.le_refl _), hd]
        simp only [startB]
        by_cases he : c0.id = p.cid
        · simp only [he, ne_eq, not_true_eq_false, if_false]
        · simp only [ne_eq, he, not_false_eq_true, if_true]
          have hb0 := hcb c0 hc0.1
          unfold maxU32 at hb0
          apply wflatIdx_congr
          intro y hy
          simp only [wfiTerm]
          rcases List.mem_cons.mp hy with rfl | hy'
          · rw [if_neg (Nat.lt_irrefl _), if_pos rfl, if_pos (by omega)]
            apply wBefore_full
            unfold Chunk.hi
            by_cases hz : y.cnt = 0
            · omega
            · have : (y.cnt + 4294967296 - 1) % 4294967296 = y.cnt - 1 := by omega
              omega
          · have := hlt y hy'
            rw [if_pos this, if_pos (by omega)]
      constructor
      · intro c hc
        obtain ⟨m1, m2, m3, m4, m5, m6⟩ := A c hc
        refine ⟨hsub c m1, m2, m3, m4, ?_, m6⟩
        have hpc : pos.cid ≤ p.cid := by rw [m2]; exact (hmemf c m1).2
        rw [← hfl ⟨pos.cid, pos.idx + 1⟩ hpc, hd, m5, hstart]
      · intro hn
        obtain ⟨n1, n2⟩ := B hn
        exact ⟨by rw [← hstart, n1], n2⟩

/-- what a backward `ensureChkIt`/`advanceChunk` answers -/
def EnsOutB (j : Journal) (b : Nat) (r : RIt × Bool) : Prop :=
  r.1.bkwd = true ∧ wbCount j r.1 = b ∧ RWF j r.1 ∧
  (r.2 = false → ∃ c ch, r.1.ci = some c ∧ ch ∈ j ∧ ch.id = c.chunk ∧ c.cached = false ∧ 0 ≤ c.pos ∧
      c.pos < (ch.cnt : Int)) ∧
  (r.2 = true → r.1.ci = none ∧ b = 0)

theorem rb_ensure {j : Journal} (hs : Sorted j) (hcb : bw_ChunkBound j) {s : RIt} (hci : s.ci = none)
    (hb : s.bkwd = true) (hst : RStats j s.stats) : EnsOutB j (wbCount j s) (rEnsure j s) := by
  have hw : wbCount j s = wflatIdx j ⟨s.cid, s.idx + 1⟩ := by simp [wbCount, hci]
  rw [hw]
  rcases hg : getPosBackward j s.stats ⟨s.cid, s.idx⟩ with ⟨st', ck, pos⟩
  obtain ⟨A, B⟩ := rb_getPosBackward hs hcb hst _ st' ck pos hg
  unfold rEnsure EnsOutB
  simp only [hci, hb, if_true, hg]
  cases ck with
  | none =>
    obtain ⟨b1, b2⟩ := B rfl
    simp only
    refine ⟨trivial, ?_, ?_, (by intro h; cases h), fun _ => ⟨trivial, b1⟩⟩
    · simp only [wbCount]
    · simp only [RWF]; exact b2
  | some c =>
    obtain ⟨a1, a2, a3, a4, a5, a6⟩ := A c rfl
    simp only
    have hcnt : cntOf j c.id = c.cnt := cntOf_mem hs a1
    have hh : pos.idx < c.cnt ∧ pos.idx < c.maxPos + 1 := by unfold Chunk.hi at a4; omega
    have hci' : ciSetPos j { chunk := c.id } (pos.idx : Int) = { chunk := c.id, pos := (pos.idx : Int), cached := false } := by
      rw [ciSetPos_fresh, hcnt, Nat.min_eq_left (by omega)]
    rw [hci']
    refine ⟨trivial, ?_, ?_, fun _ => ⟨_, c, rfl, a1, rfl, rfl, by simp, by simp; omega⟩, (by intro h; cases h)⟩
    · simp only [wbCount]
      have : ((pos.idx : Int) + 1).toNat = pos.idx + 1 := by omega
      rw [this, ← a5, ← a2]
    · simp only [RWF]
      exact ⟨a6, a2.symm, c, a1, rfl, by omega, by simp; omega, by simp; omega, by simp; omega, by intro h; cases h⟩

/-- stepping back out of chunk `ch` below its window = standing at the end of the chunk id before -/
theorem rb_wflatIdx_prev {j : Journal} (hs : Sorted j) (hp : PosIds j) (hcb : bw_ChunkBound j) {ch : Chunk}
    (hm : ch ∈ j) {q : Nat} (hq : q ≤ ch.minPos) :
    wflatIdx j ⟨ch.id - 1, maxU32 + 1⟩ = wflatIdx j ⟨ch.id, q⟩ := by
  have hpos := hp ch hm
  apply wflatIdx_congr
  intro y hy
  have hby := hcb y hy
  simp only [wfiTerm]
  by_cases h1 : y.id < ch.id - 1
  · rw [if_pos h1, if_pos (by omega)]
  · by_cases h2 : y.id = ch.id - 1
    · rw [if_neg h1, if_pos h2, if_pos (by omega)]
      apply wBefore_full; unfold Chunk.hi; omega
    · rw [if_neg h1, if_neg h2]
      by_cases h3 : y.id = ch.id
      · have e : y = ch := sorted_id_inj hs hy hm h3
        subst e
        rw [if_neg (Nat.lt_irrefl _), if_pos rfl]
        unfold Chunk.wBefore; omega
      · rw [if_neg (by omega), if_neg h3]

theorem rb_advance {j : Journal} (hs : Sorted j) (hp : PosIds j) (hcb : bw_ChunkBound j) {s : RIt} {c : CIt}
    {ch : Chunk} (hci : s.ci = some c) (hb : s.bkwd = true) (hstats : s.stats = rebuild j []) (hm : ch ∈ j)
    (hid : ch.id = c.chunk) (hcid : s.cid = ch.id) (hlow : c.pos < (ch.minPos : Int)) :
    EnsOutB j (wbCount j s) (rAdvance j s) := by
  obtain ⟨cid, idx, ci, bkwd, stats⟩ := s
  simp only at hci hb hstats hcid
  subst hci hb hstats hcid
  have hw : wbCount j ⟨ch.id, idx, some c, true, rebuild j []⟩ = wflatIdx j ⟨ch.id, (c.pos + 1).toNat⟩ := by
    simp [wbCount, hid]
  have hens := rb_ensure hs hcb (s := ⟨ch.id - 1, maxU32, none, true, rebuild j []⟩) rfl rfl (Or.inr rfl)
  have hw1 : wbCount j ⟨ch.id - 1, maxU32, none, true, rebuild j []⟩
      = wbCount j ⟨ch.id, idx, some c, true, rebuild j []⟩ := by
    rw [hw]
    simp only [wbCount]
    exact rb_wflatIdx_prev hs hp hcb hm (by omega)
  rw [hw1] at hens
  unfold rAdvance
  simp only [if_true, Bool.not_true, Bool.and_false, Bool.false_and, Bool.false_eq_true, if_false]
  exact hens

/-- what backward `rGet`/`rGetLoop` answers from a state standing after `b` admitted records -/
def GetOutB (j : Journal) (b : Nat) (r : RIt × Option Rec) : Prop :=
  r.2 = (if b = 0 then none else (wflat j)[b - 1]?) ∧ RWF j r.1 ∧ r.1.bkwd = true ∧ wbCount j r.1 = b ∧
  (r.2.isSome → ROnRecord j r.1) ∧ (r.2 = none → r.1.ci = none)

/-- backward, an open chunk iterator of a well-formed state always delivers a record at once -/
theorem rb_getLoop {j : Journal} (hs : Sorted j) (f : Nat) {s : RIt} {c : CIt} (hci : s.ci = some c)
    (hwf : RWF j s) (hb : s.bkwd = true) : GetOutB j (wbCount j s) (rGetLoop j (f + 1) s) := by
  obtain ⟨cid, idx, ci, bkwd, stats⟩ := s
  simp only at hci hb
  subst hci hb
  simp only [RWF] at hwf
  obtain ⟨w1, w2, ch, hm, hid, w3, w4, w5, w6, w7⟩ := hwf
  have hcnt : cntOf j c.chunk = ch.cnt := by rw [← hid]; exact cntOf_mem hs hm
  have g := bw_ciGet j hs c ch hm hid.symm (by omega) w6 (fun h => ⟨by omega, w7 h⟩)
  rw [rGetLoop]
  simp only
  generalize ciGet j true c = res at g
  obtain ⟨c', r⟩ := res
  obtain ⟨g1, g2, g3, g4⟩ := g
  simp only at g1 g2 g3 g4 ⊢
  have hp : c'.pos = min c.pos ((ch.cnt : Int) - 1) := by rw [g2]; split <;> omega
  have hp0 : 0 ≤ c'.pos := by omega
  obtain ⟨g4a, g4b⟩ := g4 hp0
  have hk : c'.pos.toNat < ch.cnt := by omega
  have hrec : recAt j ch.id c'.pos.toNat = ch.recs[c'.pos.toNat]? := recAt_mem hs hm _
  have hsome : ∃ l, r = some l := by
    have hk' : c'.pos.toNat < ch.recs.length := hk
    rw [g4a, hrec, List.getElem?_eq_getElem hk']
    exact ⟨_, rfl⟩
  obtain ⟨l, rfl⟩ := hsome
  simp only
  have hk1 : ch.minPos ≤ c'.pos.toNat := by omega
  have hk2 : c'.pos.toNat < ch.hi := by unfold Chunk.hi; omega
  have hwb : ∀ i', wbCount j ⟨cid, i', some c, true, stats⟩ = wflatIdx j ⟨ch.id, c'.pos.toNat⟩ + 1 := by
    intro i'
    simp only [wbCount, ← hid]
    rw [rw_wflatIdx_in hs hm, rw_wflatIdx_in hs hm c'.pos.toNat]
    have : ch.wBefore (c.pos + 1).toNat = ch.wBefore c'.pos.toNat + 1 := by
      unfold Chunk.wBefore Chunk.hi at *; omega
    omega
  have hwb' : wbCount j ⟨cid, idx, some c', true, stats⟩ = wflatIdx j ⟨ch.id, c'.pos.toNat⟩ + 1 := by
    simp only [wbCount, g1]
    rw [rw_wflatIdx_in hs hm, rw_wflatIdx_in hs hm c'.pos.toNat]
    have : ch.wBefore (c'.pos + 1).toNat = ch.wBefore c'.pos.toNat + 1 := by
      unfold Chunk.wBefore Chunk.hi at *; omega
    omega
  unfold GetOutB
  rw [hwb idx]
  refine ⟨?_, ?_, rfl, hwb', ?_, (by intro h; cases h)⟩
  · simp only [Nat.add_sub_cancel, Nat.succ_ne_zero, if_false]
    rw [rf_wflat_get hs hm hk1 hk2, g4a, hrec]
  · simp only [RWF]
    exact ⟨w1, by rw [g1, hid]; exact w2, ch, hm, by rw [g1], w3, by omega, by omega, by omega, fun _ => by omega⟩
  · intro _; exact ⟨c', rfl, hp0, by rw [g1, cntOf_mem hs hm]; omega⟩

theorem rb_get_out {j : Journal} (hs : Sorted j) (hp : PosIds j) (hcb : bw_ChunkBound j) {s : RIt} (hwf : RWF j s)
    (hb : s.bkwd = true) : GetOutB j (wbCount j s) (rGet j s) := by
  unfold rGet
  cases hci : s.ci with
  | some c =>
    have he : rEnsure j s = (s, false) := by simp [rEnsure, hci]
    rw [he]
    simp only [Bool.false_eq_true, if_false]
    exact rb_getLoop hs (j.length + 1) hci hwf hb
  | none =>
    have hst : RStats j s.stats := by simpa [RWF, hci] using hwf
    have hens := rb_ensure hs hcb hci hb hst
    generalize rEnsure j s = res at hens
    obtain ⟨s', eof⟩ := res
    unfold EnsOutB at hens
    obtain ⟨e1, e2, e3, e5, e6⟩ := hens
    simp only at e1 e2 e3 e5 e6 ⊢
    cases eof with
    | true =>
      simp only [if_true]
      obtain ⟨f1, f2⟩ := e6 rfl
      unfold GetOutB
      refine ⟨by rw [f2]; simp, e3, e1, e2, (by intro h; cases h), fun _ => f1⟩
    | false =>
      simp only [Bool.false_eq_true, if_false]
      obtain ⟨c2, ch2, h1, h2, h3, h4, h5, h6⟩ := e5 rfl
      have := rb_getLoop hs (j.length + 1) h1 e3 e1
      rw [e2] at this
      exact this

/-- backward `Get` of the ranged iterator -/
theorem rGetBwd : RGetBwdSpec := by
  intro j s hs hp hcb hwf hb
  exact rb_get_out hs hp hcb hwf hb

theorem rb_next_out {j : Journal} (hs : Sorted j) (hp : PosIds j) (hcb : bw_ChunkBound j) {s : RIt} (hwf : RWF j s)
    (hb : s.bkwd = true) :
    RWF j (rNext j s) ∧ (rNext j s).bkwd = true ∧ wbCount j (rNext j s) = wbCount j s - 1 := by
  have g := rb_get_out hs hp hcb hwf hb
  unfold rNext
  generalize wbCount j s = b at g ⊢
  generalize rGet j s = res at g
  obtain ⟨s1, r⟩ := res
  unfold GetOutB at g
  obtain ⟨g1, g2, g3, g4, g6, g7⟩ := g
  simp only at g1 g2 g3 g4 g6 g7 ⊢
  cases r with
  | none =>
    have hci := g7 rfl
    simp only [hci]
    have hb0 : b = 0 := by
      by_cases h0 : b = 0
      · exact h0
      · rw [if_neg h0] at g1
        have hle : b ≤ (wflat j).length := by rw [← g4]; exact rw_wbCount_le j s1
        have : b - 1 < (wflat j).length := by omega
        rw [List.getElem?_eq_getElem this] at g1; cases g1
    refine ⟨g2, g3, ?_⟩
    rw [g4, hb0]
  | some l =>
    obtain ⟨c, hci, h0, hlt⟩ := g6 rfl
    obtain ⟨cid, idx, ci, bkwd, stats⟩ := s1
    simp only at hci g3
    subst hci g3
    simp only [RWF] at g2
    obtain ⟨w1, w2, ch, hm, hid, w3, w4, w5, w6, w7⟩ := g2
    subst w1
    have hcnt : cntOf j c.chunk = ch.cnt := by rw [← hid]; exact cntOf_mem hs hm
    rw [hcnt] at hlt
    have hnx := bw_ciNext j hs c ch hm hid.symm h0 hlt
    have hstat : statOf (rebuild j []) c.chunk = some (stOf ch) := by rw [← hid]; exact rf_statOf_rebuild hs hm
    simp only [hnx, hstat, Option.getD_some, stOf]
    have hwb : b = wflatIdx j ⟨ch.id, (c.pos + 1).toNat⟩ := by
      rw [← g4]; simp [wbCount, hid]
    have hstep : wflatIdx j ⟨ch.id, c.pos.toNat⟩ = b - 1 := by
      rw [hwb, rw_wflatIdx_in hs hm c.pos.toNat, rw_wflatIdx_in hs hm (c.pos + 1).toNat]
      have : ch.wBefore (c.pos + 1).toNat = ch.wBefore c.pos.toNat + 1 := by
        unfold Chunk.wBefore Chunk.hi; omega
      omega
    by_cases hout : c.pos - 1 < 0 ∨ (c.pos - 1).toNat < ch.minPos ∨ (c.pos - 1).toNat > ch.maxPos
    · rw [if_pos hout]
      have hlow : c.pos - 1 < (ch.minPos : Int) := by omega
      have hadv := rb_advance hs hp hcb (s := ⟨cid, idx, some ⟨ch.id, c.pos - 1, false⟩, true, rebuild j []⟩)
        (c := ⟨ch.id, c.pos - 1, false⟩) (ch := ch) rfl rfl rfl hm rfl (by rw [← w2, ← hid]) hlow
      have hw : wbCount j ⟨cid, idx, some ⟨ch.id, c.pos - 1, false⟩, true, rebuild j []⟩ = b - 1 := by
        rw [← hstep]; simp only [wbCount]
        have : (c.pos - 1 + 1).toNat = c.pos.toNat := by omega
        rw [this]
      rw [hw] at hadv
      unfold EnsOutB at hadv
      obtain ⟨e1, e2, e3, _, _⟩ := hadv
      exact ⟨e3, e1, e2⟩
    · rw [if_neg hout]
      refine ⟨?_, rfl, ?_⟩
      · simp only [RWF]
        exact ⟨trivial, by rw [hid]; exact w2, ch, hm, rfl, w3, by omega, by omega, by omega, by intro h; cases h⟩
      · rw [← hstep]; simp only [wbCount]
        have : (c.pos - 1 + 1).toNat = c.pos.toNat := by omega
        rw [this]

/-- backward `Next` of the ranged iterator -/
theorem rNextBwd : RNextBwdSpec := by
  intro j s hs hp hcb hwf hb
  exact rb_next_out hs hp hcb hwf hb

/-- draining the ranged iterator backward delivers the admitted records at or before its position, in reverse -/
theorem rb_drain_eq (j : Journal) (s : RIt) (n : Nat) (hs : Sorted j) (hp : PosIds j) (hcb : bw_ChunkBound j)
    (hwf : RWF j s) (hb : s.bkwd = true) :
    rDrain j n s = (((wflat j).take (wbCount j s)).reverse).take n := by
  induction n generalizing s with
  | zero => simp [rDrain]
  | succ n ih =>
    have g := rb_get_out hs hp hcb hwf hb
    have hle := rw_wbCount_le j s
    rw [rDrain]
    generalize wbCount j s = b at g hle ⊢
    generalize rGet j s = res at g ⊢
    obtain ⟨s', r⟩ := res
    unfold GetOutB at g
    obtain ⟨g1, g2, g3, g4, _, _⟩ := g
    simp only at g1 g2 g3 g4
    cases r with
    | none =>
      simp only
      have hb0 : b = 0 := by
        by_cases h0 : b = 0
        · exact h0
        · rw [if_neg h0] at g1
          have : b - 1 < (wflat j).length := by omega
          rw [List.getElem?_eq_getElem this] at g1; cases g1
      subst hb0; simp
    | some l =>
      simp only
      have hpos : 0 < b := by
        by_cases h0 : b = 0
        · rw [if_pos h0] at g1; cases g1
        · omega
      rw [if_neg (by omega)] at g1
      obtain ⟨n1, n2, n3⟩ := rb_next_out hs hp hcb g2 g3
      rw [ih (rNext j s') n1 n2, n3, g4]
      obtain ⟨b', rfl⟩ : ∃ b', b = b' + 1 := ⟨b - 1, by omega⟩
      simp only [Nat.add_sub_cancel] at g1 ⊢
      have ht : (wflat j).take (b' + 1) = (wflat j).take b' ++ [l] := by
        rw [List.take_succ (l := wflat j), ← g1]; rfl
      rw [ht]; simp

theorem rb_spec_drain_bwd (j : Journal) (s : RIt) (n : Nat) (hs : Sorted j) (hp : PosIds j) (hcb : bw_ChunkBound j)
    (h : rwfB j s = true) (hb : s.bkwd = true) (hn : (wflat j).length ≤ n) : rDrain j n s = rSpecDrain j s := by
  rw [rb_drain_eq j s n hs hp hcb (rf_rwfB_sound h) hb]
  have e : rSpecDrain j s = ((wflat j).take (wbCount j s)).reverse := by
    unfold rSpecDrain wbCount
    rw [hb]; simp only [if_true]
    cases s.ci <;> rfl
  rw [e]
  apply List.take_of_length_le
  simp only [List.length_reverse, List.length_take]; omega

end Logrange.Rd
