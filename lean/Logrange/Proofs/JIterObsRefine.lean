import Logrange.Proofs.JIterObs
/-! # The general observation model of the journal iterator, run on the probe journal, refines to the tail model
(`Model/JIterObs.lean`: `probe` vs `Tail.probe`), and the tail probe never skips when no end-of-data step saw the count grow -/
namespace Logrange.JIterObs

/-- the probe journal: old chunk 10 (`k` reads so far), new chunk 20 (`r` reads so far) -/
def PJ (old : Nat) (script : List Nat) (k r : Nat) : Journal :=
  [{ id := 10, script := [old], reads := k }, { id := 20, script := script, reads := r }]

/-- the general iterator that corresponds to a tail state -/
def itOf (s : Tail.St) : It :=
  { cid := 20, idx := s.pos, ci := if s.opened then some { chunk := 20, pos := (s.pos : Int) } else none }

theorem count_20 (old : Nat) (script : List Nat) (k r : Nat) :
    count (PJ old script k r) 20 = (Tail.scriptObs script r, PJ old script k (r + 1)) := by
  simp [count, PJ, Tail.scriptObs]

theorem count_10 (old : Nat) (script : List Nat) (k r : Nat) :
    count (PJ old script k r) 10 = (old, PJ old script (k + 1) r) := by
  simp [count, PJ]

theorem ciGet_20 (old : Nat) (script : List Nat) (k r p : Nat) :
    ciGet (PJ old script k r) { chunk := 20, pos := (p : Int) } =
      ({ chunk := 20, pos := (p : Int) }, if p < Tail.scriptObs script r then some p else none,
        Tail.scriptObs script r, PJ old script k (r + 1)) := by
  have h0 : ¬ ((p : Int) < 0) := by omega
  simp only [ciGet, count_20, h0, ↓reduceIte]
  by_cases h : p < Tail.scriptObs script r
  · have h' : ¬ ((p : Int) ≥ (Tail.scriptObs script r : Int)) := by omega
    simp only [h, h', ↓reduceIte, Int.toNat_natCast]
  · have h' : ((p : Int) ≥ (Tail.scriptObs script r : Int)) := by omega
    simp only [h, h', ↓reduceIte]

/-- positioning a fresh chunk iterator of chunk 20 -/
theorem ciSetPos_20 (old : Nat) (script : List Nat) (k r p : Nat) :
    ciSetPos (PJ old script k r) { chunk := 20, pos := 0 } (p : Int) =
      if p = 0 then ({ chunk := 20, pos := ((0 : Nat) : Int) }, PJ old script k r)
      else ({ chunk := 20, pos := ((min p (Tail.scriptObs script r) : Nat) : Int) }, PJ old script k (r + 1)) := by
  by_cases h : p = 0
  · subst h; simp [ciSetPos]
  · have h1 : ¬ (((p : Int) == (0 : Int)) = true) := by simp; omega
    simp only [ciSetPos, h1, h, count_20, ↓reduceIte, Bool.false_eq_true]
    by_cases h2 : (p : Int) > (Tail.scriptObs script r : Int)
    · have h3 : ¬ ((Tail.scriptObs script r : Int) < 0) := by omega
      have h4 : min p (Tail.scriptObs script r) = Tail.scriptObs script r := by omega
      simp only [h2, h3, h4, ↓reduceIte]
    · have h3 : ¬ ((p : Int) < 0) := by omega
      have h4 : min p (Tail.scriptObs script r) = p := by omega
      simp only [h2, h3, h4, ↓reduceIte]

/-- `ensureChkIt` after `advanceChunk` from chunk 20: the last-chunk branch -/
theorem ensure_21 (old : Nat) (script : List Nat) (k r : Nat) :
    ensure (PJ old script k r) { cid := 21, idx := 0, ci := none } =
      ({ cid := 20, idx := Tail.scriptObs script r, ci := none }, true, some (Tail.scriptObs script r),
        PJ old script k (r + 1)) := by
  have hf : (PJ old script k r).find? (fun c => decide (c.id ≥ 21)) = none := by simp [PJ]
  have hl : (PJ old script k r).getLast? = some { id := 20, script := script, reads := r } := by simp [PJ]
  simp only [ensure, hf, hl, count_20]
  simp

/-- `ensureChkIt` of a reader in chunk 20 without a chunk iterator -/
theorem ensure_20 (old : Nat) (script : List Nat) (k r p : Nat) :
    ensure (PJ old script k r) { cid := 20, idx := p, ci := none } =
      (itOf { pos := Tail.ensPos (Tail.scriptObs script) { pos := p, opened := false, reads := r }, opened := true,
              reads := Tail.ensReads { pos := p, opened := false, reads := r } }, false, none,
        PJ old script k (Tail.ensReads { pos := p, opened := false, reads := r })) := by
  have hf : (PJ old script k r).find? (fun c => decide (c.id ≥ 20)) = some { id := 20, script := script, reads := r } := by
    simp [PJ]
  simp only [ensure, hf, ciSetPos_20, itOf, Tail.ensPos, Tail.ensReads]
  by_cases h : p = 0
  · subst h; simp
  · simp [h]

/-- the `Get` loop of a reader with an open chunk iterator on chunk 20 is `Tail.get` -/
theorem getLoop_20 (old : Nat) (script : List Nat) (n k r p : Nat) :
    getLoop (n + 1) (PJ old script k r) (itOf { pos := p, opened := true, reads := r }) =
      ⟨itOf (Tail.get (Tail.scriptObs script) { pos := p, opened := true, reads := r }).1,
       (Tail.get (Tail.scriptObs script) { pos := p, opened := true, reads := r }).2.1.map (fun x => (20, x)),
       (Tail.get (Tail.scriptObs script) { pos := p, opened := true, reads := r }).2.2,
       PJ old script k (Tail.get (Tail.scriptObs script) { pos := p, opened := true, reads := r }).1.reads⟩ := by
  by_cases h : p < Tail.scriptObs script r
  · simp [getLoop, itOf, ciGet_20, Tail.get, Tail.ensPos, Tail.ensReads, h]
  · simp [getLoop, itOf, ciGet_20, advance, ensure_21, Tail.get, Tail.ensPos, Tail.ensReads, h]

theorem tail_get_ens (obs : Nat → Nat) (s : Tail.St) :
    Tail.get obs s = Tail.get obs { pos := Tail.ensPos obs s, opened := true, reads := Tail.ensReads s } := by
  obtain ⟨p, o, r⟩ := s
  cases o <;> simp [Tail.get, Tail.ensPos, Tail.ensReads]

/-- `JIterator.Get` of the general model on the probe journal is `Tail.get` -/
theorem get_sim (old : Nat) (script : List Nat) (k : Nat) (s : Tail.St) :
    get (PJ old script k s.reads) (itOf s) =
      ⟨itOf (Tail.get (Tail.scriptObs script) s).1,
       (Tail.get (Tail.scriptObs script) s).2.1.map (fun x => (20, x)),
       (Tail.get (Tail.scriptObs script) s).2.2,
       PJ old script k (Tail.get (Tail.scriptObs script) s).1.reads⟩ := by
  obtain ⟨p, o, r⟩ := s
  cases o with
  | true =>
    have e : ensure (PJ old script k r) (itOf { pos := p, opened := true, reads := r }) =
        (itOf { pos := p, opened := true, reads := r }, false, none, PJ old script k r) := by
      simp [ensure, itOf]
    have hl : (PJ old script k r).length + 2 = 3 + 1 := rfl
    simp only [get, e, hl, getLoop_20]
    simp
  | false =>
    have e : itOf { pos := p, opened := false, reads := r } = { cid := 20, idx := p, ci := none } := by
      simp [itOf]
    have hl : ∀ r', (PJ old script k r').length + 2 = 3 + 1 := fun _ => rfl
    rw [tail_get_ens (Tail.scriptObs script) { pos := p, opened := false, reads := r }]
    simp only [get, e, ensure_20, hl, getLoop_20]
    simp

/-- `JIterator.Next` of the general model on the probe journal is `Tail.next` -/
theorem next_sim (old : Nat) (script : List Nat) (k : Nat) (s : Tail.St) :
    next (PJ old script k s.reads) (itOf s) =
      (itOf (Tail.next (Tail.scriptObs script) s), PJ old script k (Tail.next (Tail.scriptObs script) s).reads) := by
  simp only [next, get_sim, Tail.next]
  generalize Tail.get (Tail.scriptObs script) s = g
  obtain ⟨⟨p1, o1, r1⟩, rec, eo⟩ := g
  cases o1 with
  | false => simp [itOf]
  | true =>
    by_cases h : p1 < Tail.scriptObs script r1
    · simp [itOf, ciNext, ciGet_20, h]
    · simp [itOf, ciNext, ciGet_20, h]

/-- the polling loop of the general model on the probe journal is `Tail.pollLoop` -/
theorem pollLoop_sim (old : Nat) (script : List Nat) (k : Nat) :
    ∀ (fuel polls : Nat) (s : Tail.St) (acc : List Nat) (g : Bool),
      pollLoop fuel polls (PJ old script k s.reads) (itOf s) acc g =
        Tail.pollLoop (Tail.scriptObs script) fuel polls s acc g := by
  intro fuel
  induction fuel with
  | zero => intro polls s acc g; cases polls <;> rfl
  | succ fuel ih =>
    intro polls s acc g
    cases polls with
    | zero => rfl
    | succ polls =>
      rw [pollLoop, Tail.pollLoop]
      simp only [get_sim]
      generalize Tail.get (Tail.scriptObs script) s = gr
      obtain ⟨s1, rec, eo⟩ := gr
      cases rec with
      | none => simp only [Option.map_none]; exact ih polls s1 acc _
      | some p =>
        simp only [Option.map_some, next_sim]
        exact ih (polls + 1) _ (p :: acc) _

/-- `ensureChkIt` of the reader at `(10, old)`: the chunk iterator of the old chunk, positioned at its end -/
theorem ensure_10 (old : Nat) (script : List Nat) (k r : Nat) :
    ensure (PJ old script k r) { cid := 10, idx := old, ci := none } =
      ({ cid := 10, idx := old, ci := some { chunk := 10, pos := (old : Int) } }, false, none,
        PJ old script (if old = 0 then k else k + 1) r) := by
  have hf : (PJ old script k r).find? (fun c => decide (c.id ≥ 10)) = some { id := 10, script := [old], reads := k } := by
    simp [PJ]
  by_cases h : old = 0
  · subst h; simp [ensure, hf, ciSetPos]
  · have h1 : ¬ (((old : Int) == (0 : Int)) = true) := by simp; omega
    have h2 : ¬ ((old : Int) < 0) := by omega
    simp [ensure, hf, ciSetPos, h1, h2, h, count_10]

/-- `advanceChunk` from the old chunk opens the new one at 0 without reading its count -/
theorem ensure_11 (old : Nat) (script : List Nat) (k r : Nat) :
    ensure (PJ old script k r) { cid := 11, idx := 0, ci := none } =
      (itOf { pos := 0, opened := true, reads := r }, false, none, PJ old script k r) := by
  have hf : (PJ old script k r).find? (fun c => decide (c.id ≥ 11)) = some { id := 20, script := script, reads := r } := by
    simp [PJ]
  simp [ensure, hf, ciSetPos, itOf]

theorem advance_10 (old : Nat) (script : List Nat) (k r i : Nat) (c : Option CIt) :
    advance (PJ old script k r) { cid := 10, idx := i, ci := c } =
      (itOf { pos := 0, opened := true, reads := r }, false, none, PJ old script k r) :=
  ensure_11 old script k r

theorem ciGet_10 (old : Nat) (script : List Nat) (k r : Nat) :
    ciGet (PJ old script k r) { chunk := 10, pos := (old : Int) } =
      ({ chunk := 10, pos := (old : Int) }, none, old, PJ old script (k + 1) r) := by
  have h0 : ((old : Int) ≥ (old : Int)) := by omega
  have h1 : ¬ ((old : Int) < 0) := by omega
  simp only [ciGet, count_10, h0, h1, ↓reduceIte]

/-- the first `Get` of the probe: end of the old chunk, `advanceChunk`, then `Tail.get` from the initial tail state -/
theorem first_get (old : Nat) (script : List Nat) :
    get (PJ old script 0 0) { cid := 10, idx := old, ci := none } =
      ⟨itOf (Tail.get (Tail.scriptObs script) {}).1,
       (Tail.get (Tail.scriptObs script) {}).2.1.map (fun x => (20, x)),
       (Tail.get (Tail.scriptObs script) {}).2.2,
       PJ old script ((if old = 0 then 0 else 0 + 1) + 1) (Tail.get (Tail.scriptObs script) {}).1.reads⟩ := by
  have hl : ∀ k' r', (PJ old script k' r').length + 2 = 2 + 1 + 1 := fun _ _ => rfl
  have ht : Tail.get (Tail.scriptObs script) {} =
      Tail.get (Tail.scriptObs script) { pos := 0, opened := true, reads := 0 } := by
    rw [tail_get_ens]; simp [Tail.ensPos, Tail.ensReads]
  rw [ht]
  simp only [get, ensure_10, hl]
  rw [getLoop]
  simp only [ciGet_10, advance_10, getLoop_20]
  simp

/-- **Refinement**: the general observation model on the probe journal gives exactly the probe of the tail model. -/
theorem probe_refines (old : Nat) (script : List Nat) (fuel polls : Nat) :
    probe old script fuel polls = Tail.probe script fuel polls := by
  have hs : setPos [{ id := 10, script := [old] }, { id := 20, script := script }] {} 10 old =
      ({ cid := 10, idx := old, ci := none }, PJ old script 0 0) := by
    simp [setPos, PJ]
  simp only [probe, Tail.probe, hs, first_get]
  generalize Tail.get (Tail.scriptObs script) {} = gr
  obtain ⟨s1, rec, eo⟩ := gr
  simp only [pollLoop_sim]
  cases rec <;> simp [itOf]

/-! ## the tail probe never skips when no end-of-data step saw the count grow -/

namespace Tail

/-- the two observations of an end-of-data step are successive reads -/
theorem get_eo_le (obs : Nat → Nat) (hm : Mono obs) (s s1 : St) (rec : Option Nat) (a b : Nat)
    (h : get obs s = (s1, rec, some (a, b))) : a ≤ b := by
  simp only [get] at h
  split at h
  · simp at h
  · simp only [Prod.mk.injEq, Option.some.injEq] at h
    obtain ⟨_, _, ha, hb⟩ := h
    subst ha; subst hb
    exact hm _ _ (by omega)

theorem pollLoop_grew (obs : Nat → Nat) :
    ∀ (fuel polls : Nat) (s : St) (acc : List Nat), (pollLoop obs fuel polls s acc true).2 = true := by
  intro fuel
  induction fuel with
  | zero => intro polls s acc; cases polls <;> rfl
  | succ fuel ih =>
    intro polls s acc
    cases polls with
    | zero => rfl
    | succ polls =>
      rw [pollLoop]
      generalize get obs s = gr
      obtain ⟨s1, rec, eo⟩ := gr
      cases rec with
      | none => simp only [Bool.true_or]; exact ih _ _ _
      | some p => simp only [Bool.true_or]; exact ih _ _ _

/-- the polling loop keeps `RInv` (with the accumulator, reversed, as the delivered records) as long as no end-of-data
step sees the count grow -/
theorem pollLoop_no_skip (obs : Nat → Nat) (hm : Mono obs) :
    ∀ (fuel polls : Nat) (s : St) (acc : List Nat) (g : Bool),
      RInv obs { s := s, delivered := acc.reverse, stable := true } →
      (pollLoop obs fuel polls s acc g).2 = false →
      (pollLoop obs fuel polls s acc g).1 = List.range (pollLoop obs fuel polls s acc g).1.length := by
  intro fuel
  induction fuel with
  | zero => intro polls s acc g hi _; cases polls <;> exact hi.pre
  | succ fuel ih =>
    intro polls s acc g hi
    cases polls with
    | zero => intro _; exact hi.pre
    | succ polls =>
      cases g with
      | true => intro hg; rw [pollLoop_grew] at hg; exact absurd hg (by simp)
      | false =>
        have hstep := step_inv obs hm _ hi
        rw [pollLoop]
        simp only [step] at hstep
        generalize hgr : get obs s = gr at hstep
        obtain ⟨s1, rec, eo⟩ := gr
        have hle : ∀ a b, eo = some (a, b) → a ≤ b := fun a b he => get_eo_le obs hm s s1 rec a b (he ▸ hgr)
        simp only [Bool.false_or]
        cases eo with
        | none =>
          simp only [Bool.true_and] at hstep
          cases rec with
          | none =>
            have hi' := hstep rfl
            exact ih polls s1 acc false ⟨hi'.pos, hi'.pre, hi'.bound⟩
          | some p =>
            have hi' := hstep rfl
            refine ih (polls + 1) (next obs s1) (p :: acc) false ?_
            rw [List.reverse_cons]
            exact ⟨hi'.pos, hi'.pre, hi'.bound⟩
        | some ab =>
          obtain ⟨a, b⟩ := ab
          have hab := hle a b rfl
          by_cases hlt : a < b
          · intro hg
            simp only [hlt, decide_true] at hg
            cases rec <;> (simp only [] at hg; rw [pollLoop_grew] at hg; exact absurd hg (by simp))
          · have heq : a = b := by omega
            subst heq
            simp only [Bool.true_and, beq_self_eq_true] at hstep
            simp only [hlt, decide_false]
            cases rec with
            | none =>
              have hi' := hstep rfl
              exact ih polls s1 acc false ⟨hi'.pos, hi'.pre, hi'.bound⟩
            | some p =>
              have hi' := hstep rfl
              refine ih (polls + 1) (next obs s1) (p :: acc) false ?_
              rw [List.reverse_cons]
              exact ⟨hi'.pos, hi'.pre, hi'.bound⟩

end Tail

/-- **No skip on the tail model**: for monotone observations, if no end-of-data step of the probe saw the count grow,
the delivered indices are exactly `0, 1, 2, …` in order. -/
theorem tail_probe_no_skip (script : List Nat) (hm : Tail.Mono (Tail.scriptObs script)) (fuel polls : Nat) :
    (Tail.probe script fuel polls).grew = false →
    (Tail.probe script fuel polls).delivered = List.range (Tail.probe script fuel polls).delivered.length := by
  simp only [Tail.probe]
  by_cases h : 0 < Tail.scriptObs script 0
  · have hget : Tail.get (Tail.scriptObs script) {} = ({ pos := 0, opened := true, reads := 1 }, some 0, none) := by
      simp [Tail.get, Tail.ensPos, Tail.ensReads, h]
    simp only [hget]
    exact Tail.pollLoop_no_skip _ hm fuel polls _ [] false ⟨rfl, rfl, Or.inl rfl⟩
  · have hget : Tail.get (Tail.scriptObs script) {} =
        ({ pos := Tail.scriptObs script 1, opened := false, reads := 2 }, none,
          some (Tail.scriptObs script 0, Tail.scriptObs script 1)) := by
      simp [Tail.get, Tail.ensPos, Tail.ensReads, h]
    simp only [hget]
    by_cases hlt : Tail.scriptObs script 0 < Tail.scriptObs script 1
    · intro hg
      simp only [hlt, decide_true] at hg
      rw [Tail.pollLoop_grew] at hg
      exact absurd hg (by simp)
    · simp only [hlt, decide_false]
      have h0 : Tail.scriptObs script 1 = 0 := by omega
      exact Tail.pollLoop_no_skip _ hm fuel polls _ [] false ⟨h0, rfl, Or.inl h0⟩

/-- **No skip on the general observation model** (corollary of the refinement). -/
theorem obs_probe_no_skip (old : Nat) (script : List Nat) (hm : Tail.Mono (Tail.scriptObs script)) (fuel polls : Nat) :
    (probe old script fuel polls).grew = false →
    (probe old script fuel polls).delivered = List.range (probe old script fuel polls).delivered.length := by
  rw [probe_refines]
  exact tail_probe_no_skip script hm fuel polls

/-- a sorted script gives monotone observations -/
theorem mono_of_sorted (script : List Nat) (h : script.Pairwise (· ≤ ·)) : Tail.Mono (Tail.scriptObs script) := by
  intro a b hab
  unfold Tail.scriptObs
  by_cases hl : script.length = 0
  · have : script = [] := List.eq_nil_of_length_eq_zero hl
    subst this; simp
  · have hi : min a (script.length - 1) < script.length := by omega
    have hj : min b (script.length - 1) < script.length := by omega
    simp only [List.getD_eq_getElem?_getD, List.getElem?_eq_getElem hi, List.getElem?_eq_getElem hj, Option.getD_some]
    by_cases he : min a (script.length - 1) = min b (script.length - 1)
    · simp only [he]; exact Nat.le_refl _
    · exact (List.pairwise_iff_getElem.mp h) _ _ hi hj (by omega)

example : Tail.Mono (Tail.scriptObs [0, 0, 2]) := mono_of_sorted _ (by decide)

/-- non-vacuity: a monotone script whose probe never sees the count grow and delivers three records -/
example : Tail.Mono (Tail.scriptObs [0, 0, 1, 1, 1, 1, 1, 3]) ∧
    (probe 3 [0, 0, 1, 1, 1, 1, 1, 3] 60 10).grew = false ∧
    (probe 3 [0, 0, 1, 1, 1, 1, 1, 3] 60 10).delivered = [0, 1, 2] :=
  ⟨mono_of_sorted _ (by decide), by decide, by decide⟩

/-- … and a monotone script where an end-of-data step does see the count grow (`grew = true`): record 0 is skipped, so the hypothesis
`grew = false` of the no-skip theorems cannot be dropped -/
example : Tail.Mono (Tail.scriptObs [0, 1, 1, 3]) ∧
    (probe 3 [0, 1, 1, 3] 60 10).grew = true ∧ (probe 3 [0, 1, 1, 3] 60 10).delivered = [1, 2] :=
  ⟨mono_of_sorted _ (by decide), by decide, by decide⟩

end Logrange.JIterObs
