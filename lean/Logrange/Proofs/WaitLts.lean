import Logrange.Model.WaitLts
/-! Lemmas behind the C11 property theorems: the no-lost-wake-up invariant of the listener LTS; the Query loop. -/
namespace Logrange.WaitLts

/-- a waiter that relies on being woken: subscribed and asleep, or about to subscribe (holding the listener lock) -/
def Relies (x : WSt) : Prop := (x.pc = .asleep ∧ x.sub = true) ∨ x.pc = .holding

/-- the invariant: (A) a relying waiter with confirmed data beyond its position has a pending `OnNewData`;
(B) a waiter between its locked check and its subscription holds the listener lock -/
def WInv (st : State) : Prop :=
  (∀ (w : Nat) (x : WSt), st.ws[w]? = some x → Relies x → x.pos < st.cfrmd → 0 < st.pendNotif + st.pendClose) ∧
  (∀ (w : Nat) (x : WSt), st.ws[w]? = some x → x.pc = .holding → st.lock = some w)

theorem winv_init (n k : Nat) : WInv (init n k) := by
  constructor
  · intro w x hx hr _
    simp only [init, List.getElem?_replicate] at hx
    split at hx
    · simp only [Option.some.injEq] at hx; subst hx
      rcases hr with ⟨h, _⟩ | h <;> simp at h
    · cases hx
  · intro w x hx hp
    simp only [init, List.getElem?_replicate] at hx
    split at hx
    · simp only [Option.some.injEq] at hx; subst hx; simp at hp
    · cases hx

/-- a step that rewrites waiter `w` into a state that does not rely on a wake-up and touches nothing else -/
theorem winv_set_norely (st : State) (w : Nat) (x' : WSt) (h : WInv st)
    (hnr : ¬ Relies x') (hnh : x'.pc ≠ .holding) :
    WInv { st with ws := st.ws.set w x' } := by
  obtain ⟨hA, hB⟩ := h
  constructor
  · intro v y hy hr hlt
    by_cases e : v = w
    · subst e
      by_cases hl : v < st.ws.length
      · rw [List.getElem?_set_self hl] at hy
        simp only [Option.some.injEq] at hy; subst hy; exact absurd hr hnr
      · rw [List.getElem?_eq_none (by simp; omega)] at hy; cases hy
    · rw [List.getElem?_set_ne (Ne.symm e)] at hy
      exact hA v y hy hr hlt
  · intro v y hy hp
    by_cases e : v = w
    · subst e
      by_cases hl : v < st.ws.length
      · rw [List.getElem?_set_self hl] at hy
        simp only [Option.some.injEq] at hy; subst hy; exact absurd hp hnh
      · rw [List.getElem?_eq_none (by simp; omega)] at hy; cases hy
    · rw [List.getElem?_set_ne (Ne.symm e)] at hy
      exact hB v y hy hp

theorem lt_of_getElem?_some {α : Type} {l : List α} {i : Nat} {x : α} (h : l[i]? = some x) : i < l.length := by
  rcases Nat.lt_or_ge i l.length with h' | h'
  · exact h'
  · rw [List.getElem?_eq_none h'] at h; cases h

theorem waitersPositive_of (st : State) (w : Nat) (x : WSt) (hx : st.ws[w]? = some x) (hr : Relies x) :
    waitersPositive st = true := by
  unfold waitersPositive
  rw [List.any_eq_true]
  refine ⟨x, List.mem_of_getElem? hx, ?_⟩
  rcases hr with ⟨h, _⟩ | h <;> simp [countedPc, h]

theorem step_winv (st st' : State) (l : Label) (h : WInv st) (hs : step st l = some st') : WInv st' := by
  cases l with
  | append k =>
    simp only [step] at hs
    split at hs
    · cases hs
    · simp only [Option.some.injEq] at hs; subst hs; exact h
  | confirm =>
    simp only [step] at hs
    split at hs
    · cases hs
    · simp only [Option.some.injEq] at hs; subst hs
      exact ⟨fun _ _ _ _ _ => by simp only []; omega, h.2⟩
  | loadWaiters =>
    simp only [step] at hs
    split at hs
    · cases hs
    · rename_i hp
      split at hs
      · simp only [Option.some.injEq] at hs; subst hs
        refine ⟨?_, h.2⟩
        intro w x hx hr hlt
        have := h.1 w x hx hr hlt
        simp only []; omega
      · rename_i hwp
        simp only [Option.some.injEq] at hs; subst hs
        refine ⟨?_, h.2⟩
        intro w x hx hr _
        exact absurd (waitersPositive_of st w x hx hr) hwp
  | closeAll =>
    simp only [step] at hs
    split at hs
    · cases hs
    · rename_i hg
      simp only [Bool.or_eq_true, decide_eq_true_eq, not_or, Bool.not_eq_true, Option.isSome_eq_false_iff,
        Option.isNone_iff_eq_none] at hg
      simp only [Option.some.injEq] at hs; subst hs
      have nohold : ∀ (w : Nat) (x : WSt), st.ws[w]? = some x → x.pc ≠ .holding := by
        intro w x hx hp
        have := h.2 w x hx hp
        rw [hg.2] at this; cases this
      constructor
      · intro w y hy hr _
        simp only [List.getElem?_map] at hy
        cases hx : st.ws[w]? with
        | none => simp [hx] at hy
        | some x =>
          simp only [hx, Option.map_some, Option.some.injEq] at hy; subst hy
          rcases hr with ⟨_, h2⟩ | h2
          · simp at h2
          · exact absurd h2 (nohold w x hx)
      · intro w y hy hp
        simp only [List.getElem?_map] at hy
        cases hx : st.ws[w]? with
        | none => simp [hx] at hy
        | some x =>
          simp only [hx, Option.map_some, Option.some.injEq] at hy; subst hy
          exact absurd hp (nohold w x hx)
  | start w pos =>
    simp only [step] at hs
    split at hs
    · split at hs
      · simp only [Option.some.injEq] at hs; subst hs
        exact winv_set_norely st w _ h (by intro hr; rcases hr with ⟨h1, _⟩ | h1 <;> simp at h1) (by simp)
      · cases hs
    · cases hs
  | inc w =>
    simp only [step] at hs
    split at hs
    · split at hs
      · simp only [Option.some.injEq] at hs; subst hs
        exact winv_set_norely st w _ h (by intro hr; rcases hr with ⟨h1, _⟩ | h1 <;> simp at h1) (by simp)
      · cases hs
    · cases hs
  | wake w =>
    simp only [step] at hs
    split at hs
    · split at hs
      · simp only [Option.some.injEq] at hs; subst hs
        exact winv_set_norely st w _ h (by intro hr; rcases hr with ⟨h1, _⟩ | h1 <;> simp at h1) (by simp)
      · cases hs
    · cases hs
  | cancel w =>
    simp only [step] at hs
    split at hs
    · split at hs
      · simp only [Option.some.injEq] at hs; subst hs
        exact winv_set_norely st w _ h (by intro hr; rcases hr with ⟨h1, _⟩ | h1 <;> simp at h1) (by simp)
      · cases hs
    · cases hs
  | ret w =>
    simp only [step] at hs
    split at hs
    · split at hs
      · simp only [Option.some.injEq] at hs; subst hs
        exact winv_set_norely st w _ h (by intro hr; rcases hr with ⟨h1, _⟩ | h1 <;> simp at h1) (by simp)
      · cases hs
    · cases hs
  | lockCheck w =>
    simp only [step] at hs
    split at hs
    · rename_i x hx
      split at hs
      · rename_i hg
        simp only [Bool.and_eq_true, decide_eq_true_eq, Option.isNone_iff_eq_none] at hg
        split at hs
        · simp only [Option.some.injEq] at hs; subst hs
          exact winv_set_norely st w _ h (by intro hr; rcases hr with ⟨h1, _⟩ | h1 <;> simp at h1) (by simp)
        · simp only [Option.some.injEq] at hs; subst hs
          have hl := lt_of_getElem?_some hx
          have nohold : ∀ (v : Nat) (y : WSt), st.ws[v]? = some y → y.pc ≠ .holding := by
            intro v y hy hp
            have := h.2 v y hy hp
            rw [hg.2] at this; cases this
          constructor
          · intro v y hy hr hlt
            by_cases e : v = w
            · subst e
              rw [List.getElem?_set_self hl] at hy
              simp only [Option.some.injEq] at hy; subst hy
              simp at hlt
            · rw [List.getElem?_set_ne (Ne.symm e)] at hy
              exact h.1 v y hy hr hlt
          · intro v y hy hp
            by_cases e : v = w
            · subst e; rfl
            · rw [List.getElem?_set_ne (Ne.symm e)] at hy
              exact absurd hp (nohold v y hy)
      · cases hs
    · cases hs
  | subscribe w =>
    simp only [step] at hs
    split at hs
    · rename_i x hx
      split at hs
      · rename_i hpc
        simp only [Option.some.injEq] at hs; subst hs
        have hl := lt_of_getElem?_some hx
        have hlock : st.lock = some w := h.2 w x hx hpc
        constructor
        · intro v y hy hr hlt
          by_cases e : v = w
          · subst e
            rw [List.getElem?_set_self hl] at hy
            simp only [Option.some.injEq] at hy; subst hy
            exact h.1 v x hx (Or.inr hpc) hlt
          · rw [List.getElem?_set_ne (Ne.symm e)] at hy
            exact h.1 v y hy hr hlt
        · intro v y hy hp
          by_cases e : v = w
          · subst e
            rw [List.getElem?_set_self hl] at hy
            simp only [Option.some.injEq] at hy; subst hy
            simp at hp
          · rw [List.getElem?_set_ne (Ne.symm e)] at hy
            have := h.2 v y hy hp
            rw [hlock] at this
            simp only [Option.some.injEq] at this
            exact absurd this.symm e
      · cases hs
    · cases hs

theorem run_winv (st : State) (ls : List Label) (h : WInv st) : WInv (run st ls) := by
  induction ls generalizing st with
  | nil => simpa [run] using h
  | cons l ls ih =>
    simp only [run]
    cases hs : step st l with
    | none => exact ih st h
    | some st' => exact ih st' (step_winv st st' l h hs)

/-! ### the Query loop -/

theorem queryLoop_empty_spins (lim wt : Nat) (hl : 0 < lim) (hw : 0 < wt) :
    ∀ fuel, queryLoop (emptyCur true) wt lim fuel lim () [] = .outOfFuel := by
  intro fuel
  induction fuel with
  | zero => rfl
  | succ f ih =>
    unfold queryLoop
    have : ¬ lim = 0 := by omega
    have hg : (emptyCur true).get () = (none, ()) := rfl
    have hwt : (emptyCur true).wait () = (.data, ()) := rfl
    simp only [this, if_false, hg, hwt, hw, and_self, if_true]
    exact ih

theorem queryLoop_script_terminates (wt lim : Nat) :
    ∀ fuel limit (s : Script) acc, scriptMeasure s < fuel → queryLoop scriptCur wt lim fuel limit s acc ≠ .outOfFuel := by
  intro fuel
  induction fuel with
  | zero => intro _ _ _ h; omega
  | succ f ih =>
    intro limit s acc hm
    unfold queryLoop
    by_cases hl : limit = 0
    · simp [hl]
    · simp only [hl, if_false]
      obtain ⟨vis, fut⟩ := s
      cases vis with
      | cons e es =>
        simp only [scriptCur]
        apply ih
        simp only [scriptMeasure, List.length_cons] at hm ⊢; omega
      | nil =>
        simp only [scriptCur]
        split
        · cases fut with
          | nil => simp
          | cons o fs =>
            cases o with
            | none => simp
            | some b =>
              simp only []
              apply ih
              simp only [scriptMeasure, List.length_nil, List.map_cons, List.sum_cons, Option.getD_some, List.nil_append] at hm ⊢
              omega
        · simp

end Logrange.WaitLts
