import Logrange.Proofs.MixerPos
/-!
# The position contract with a `sync` predicate (`LawfulSourcePosS`) — an ADDED variant of `LawfulSourcePos`

`LawfulSourcePos.pos_get` demands "after `Get` the source reports the position of the event it shows" in EVERY well-formed state. For
the journal iterators that is false in the states of finding F48 (walking backward, a chunk entered from the following one or a walk
that starts at a chunk's end: `pos.Idx` says `count` while the event shown is `count − 1`). `LawfulSourcePosS` restricts the law to the
states a predicate `sync` admits (kept by `Get`, `Next`, `Release`; NOT claimed for `SetBackward`), and adds a law for the direction
switch of a source that stands on its head event (`head_setBackward`: same event, same position) — what `Offset(−k)` relies on when it
switches there and back. Everything of `Proofs/MixerPos.lean` is re-proved for it (suffix `S`), with `It.Synced` (every source is in
a `sync` state) where `pos_get` is used; an instance of `LawfulSourcePos` gives one of `LawfulSourcePosS` with `sync := True` is NOT
derived automatically (the switch law is extra) — the in-memory leaf has its own instance below.
-/
namespace Logrange.Mixer
open LawfulSource

/-- the added part of the leaf contract. `pview s` = the positions `CurrentPos` reports for the events of `view s`, in order. -/
class LawfulSourcePosS (σ : Type) [Source σ] [LawfulSource σ] [SourcePos σ] where
  pview : σ → List (Int × Int)
  pview_length : ∀ s : σ, wf s → (pview s).length = (view s).length
  /-- the states in which the source reports the position of the event it shows -/
  sync : σ → Prop
  sync_get : ∀ s : σ, wf s → sync s → sync (Source.get s).1
  sync_next : ∀ s : σ, wf s → settled s → sync s → sync (Source.next s)
  sync_release : ∀ s : σ, wf s → sync s → sync (Source.release s)
  /-- after a `Get` in a `sync` state the source stands on the head event -/
  pos_get : ∀ s : σ, wf s → sync s → ∀ p, (pview s).head? = some p → SourcePos.pos (Source.get s).1 = p
  /-- a direction switch of a source that stands on its head event: the same event is the head of the other direction, at the
  same position -/
  head_setBackward : ∀ (bk : Bool) (s : σ), wf s → sync s → ∀ p, (pview s).head? = some p → SourcePos.pos s = p →
    (pview (Source.setBackward bk s)).head? = some p ∧ (view (Source.setBackward bk s)).head? = (view s).head? ∧
    SourcePos.pos (Source.setBackward bk s) = p
  pview_get : ∀ s : σ, wf s → pview (Source.get s).1 = pview s
  pview_next : ∀ s : σ, wf s → settled s → pview (Source.next s) = (pview s).tail
  /-- `Release` gives resources back; it moves nothing and the reported position stays -/
  pview_release : ∀ s : σ, wf s → pview (Source.release s) = pview s ∧ SourcePos.pos (Source.release s) = SourcePos.pos s

namespace It
variable {σ : Type} [Source σ] [LawfulSource σ] [SourcePos σ]

variable [LawfulSourcePosS σ]

/-- SPEC: the position of the head event of the tree's stream -/
def headPosS : It σ → Option (Int × Int)
  | .leaf s => (LawfulSourcePosS.pview s).head?
  | .mix m a b => if sel m.bkwd a.view b.view = 1 then a.headPosS else if sel m.bkwd a.view b.view = 2 then b.headPosS else none

/-- the tree reports the position of the event it shows -/
def PlacedS (t : It σ) : Prop := ∀ p, t.headPosS = some p → t.curPosS = some p

/-- every source is in a `sync` state -/
def Synced : It σ → Prop
  | .leaf s => LawfulSourcePosS.sync s
  | .mix _ a b => a.Synced ∧ b.Synced

/-- every selected child is placed -/
def WFPS : It σ → Prop
  | .leaf _ => True
  | .mix m a b => a.WFPS ∧ b.WFPS ∧ (m.st = 1 → a.PlacedS) ∧ (m.st = 2 → b.PlacedS)

theorem headPosS_none_of_empty (t : It σ) (h : t.WF) (he : t.view = []) : t.headPosS = none := by
  cases t with
  | leaf s =>
    have := LawfulSourcePosS.pview_length s h
    have hv : LawfulSource.view s = [] := he
    rw [hv] at this
    simp only [headPosS]
    rw [List.eq_nil_of_length_eq_zero this]; rfl
  | mix m a b =>
    simp only [view] at he
    have hl : (mergeSpec m.bkwd a.view b.view).length = 0 := by rw [he]; rfl
    rw [(mergeSpec_perm _ _ _).length_eq, List.length_append] at hl
    have ea : a.view = [] := List.eq_nil_of_length_eq_zero (by omega)
    have eb : b.view = [] := List.eq_nil_of_length_eq_zero (by omega)
    simp [headPosS, ea, eb, sel]

/-- `Get` does not change the position of the head -/
theorem headPosS_get (t : It σ) (h : t.WF) : t.get.1.headPosS = t.headPosS := by
  induction t with
  | leaf s => simp only [get, headPosS]; rw [LawfulSourcePosS.pview_get s h]
  | mix m a b iha ihb =>
    have G := get_spec (It.mix m a b) h
    obtain ⟨wa, wb, _, _, _, _, _⟩ := h
    have hc := selectState_cases m a b a.get b.get
    simp only [get] at G ⊢
    generalize m.selectState a b a.get b.get = r at *
    obtain ⟨m', a', b'⟩ := r
    simp only at hc G ⊢
    have va : a'.view = a.view := by rcases hc.1 with r | r <;> rw [r]; exact (get_spec a wa).2.1
    have vb : b'.view = b.view := by rcases hc.2 with r | r <;> rw [r]; exact (get_spec b wb).2.1
    have ha : a'.headPosS = a.headPosS := by rcases hc.1 with r | r <;> rw [r]; exact iha wa
    have hb : b'.headPosS = b.headPosS := by rcases hc.2 with r | r <;> rw [r]; exact ihb wb
    have hbk : m'.bkwd = m.bkwd := G.2.2.2.1
    simp only [headPosS, va, vb, ha, hb, hbk]

/-- **after a `Get` the merged cursor reports the position of the event it shows**, in every reachable state; and the invariant
is kept -/
theorem get_placedS (t : It σ) (h : t.WF) (hy : t.Synced) (hp : t.WFPS) : t.get.1.WFPS ∧ t.get.1.PlacedS := by
  induction t with
  | leaf s =>
    refine ⟨trivial, ?_⟩
    intro p hp'
    simp only [get, headPosS, curPosS] at hp' ⊢
    rw [LawfulSourcePosS.pview_get s h] at hp'
    rw [LawfulSourcePosS.pos_get s h hy p hp']
  | mix m a b iha ihb =>
    obtain ⟨ya, yb⟩ := hy
    have iha := fun w p => iha w ya p
    have ihb := fun w p => ihb w yb p
    have G := get_spec (It.mix m a b) h
    obtain ⟨wa, wb, da, db, e1, e2, hst⟩ := h
    obtain ⟨pa, pb, p1, p2⟩ := hp
    have ga := get_spec a wa
    have gb := get_spec b wb
    have hc := selectState_cases m a b a.get b.get
    by_cases h0 : m.st = 0
    · have S := selectState_sound m a b a.get b.get a.view b.view h0 e1 e2 ga.1 gb.1 _ rfl
      simp only [get] at G ⊢
      generalize m.selectState a b a.get b.get = r at *
      obtain ⟨m', a', b'⟩ := r
      simp only at hc G S ⊢
      obtain ⟨s1, s2, _, _, s5, s6, _, _⟩ := S
      have va : a'.view = a.view := by rcases hc.1 with r | r <;> rw [r]; exact ga.2.1
      have vb : b'.view = b.view := by rcases hc.2 with r | r <;> rw [r]; exact gb.2.1
      have wpa : a'.WFPS := by rcases hc.1 with r | r <;> rw [r]; exact pa; exact (iha wa pa).1
      have wpb : b'.WFPS := by rcases hc.2 with r | r <;> rw [r]; exact pb; exact (ihb wb pb).1
      have pl1 : m'.st = 1 → a'.PlacedS := by intro h1; rw [(s5 h1).2]; exact (iha wa pa).2
      have pl2 : m'.st = 2 → b'.PlacedS := by intro h2; rw [(s6 h2).2]; exact (ihb wb pb).2
      refine ⟨⟨wpa, wpb, pl1, pl2⟩, ?_⟩
      intro p hp'
      simp only [headPosS, curPosS, va, vb, s2] at hp' ⊢
      rw [← s1] at hp'
      by_cases c1 : m'.st = 1
      · simp only [c1, if_true] at hp' ⊢; exact pl1 c1 p hp'
      · by_cases c2 : m'.st = 2
        · simp only [c2, if_true, show ¬ (2 = 1) by decide, if_false] at hp' ⊢; exact pl2 c2 p hp'
        · simp [c1, c2] at hp'
    · have hs : m.selectState a b a.get b.get = (m, a, b) := by simp [MixSt.selectState, h0]
      simp only [get, hs]
      refine ⟨⟨pa, pb, p1, p2⟩, ?_⟩
      intro p hp'
      rcases hst with hst | ⟨hs1, _, _⟩
      · exact absurd hst h0
      · simp only [headPosS, curPosS] at hp' ⊢
        rw [← hs1] at hp'
        by_cases c1 : m.st = 1
        · simp only [c1, if_true] at hp' ⊢; exact p1 c1 p hp'
        · by_cases c2 : m.st = 2
          · simp only [c2, if_true, show ¬ (2 = 1) by decide, if_false] at hp' ⊢; exact p2 c2 p hp'
          · simp [c1, c2] at hp'

theorem get_Synced (t : It σ) (h : t.WF) (hy : t.Synced) : t.get.1.Synced := by
  induction t with
  | leaf s => exact LawfulSourcePosS.sync_get s h hy
  | mix m a b iha ihb =>
    obtain ⟨wa, wb, _⟩ := h
    obtain ⟨ya, yb⟩ := hy
    have hc := selectState_cases m a b a.get b.get
    simp only [get, Synced]
    constructor
    · rcases hc.1 with r | r <;> rw [r]
      · exact ya
      · exact iha wa ya
    · rcases hc.2 with r | r <;> rw [r]
      · exact yb
      · exact ihb wb yb

theorem release_Synced (t : It σ) (h : t.WF) (hy : t.Synced) : t.release.Synced := by
  induction t with
  | leaf s => exact LawfulSourcePosS.sync_release s h hy
  | mix m a b iha ihb =>
    exact ⟨iha h.1 hy.1, ihb h.2.1 hy.2⟩

/-- a fresh mixer satisfies the invariant -/
theorem init_WFPS (a b : It σ) (ha : a.WFPS) (hb : b.WFPS) : (init a b).WFPS := by
  simp [init, WFPS, ha, hb]

theorem release_curPosS_S (t : It σ) (h : t.WF) : t.release.curPosS = t.curPosS := by
  induction t with
  | leaf s => simp only [release, curPosS]; rw [(LawfulSourcePosS.pview_release s h).2]
  | mix m a b iha ihb =>
    obtain ⟨wa, wb, _⟩ := h
    simp only [release, curPosS]
    by_cases c1 : m.st = 1
    · simp [c1, iha wa]
    · by_cases c2 : m.st = 2
      · simp [c2, ihb wb]
      · by_cases c3 : m.st = 3 <;> simp [c1, c2, c3]

theorem release_headPosS (t : It σ) (h : t.WF) : t.release.headPosS = t.headPosS := by
  induction t with
  | leaf s => simp only [release, headPosS]; rw [(LawfulSourcePosS.pview_release s h).1]
  | mix m a b iha ihb =>
    obtain ⟨wa, wb, _⟩ := h
    simp only [release, headPosS, (release_spec a wa).1, (release_spec b wb).1, iha wa, ihb wb]

/-- `Release` keeps the invariant and the reported position -/
theorem release_WFPS (t : It σ) (h : t.WF) (hp : t.WFPS) : t.release.WFPS := by
  induction t with
  | leaf s => trivial
  | mix m a b iha ihb =>
    obtain ⟨pa, pb, p1, p2⟩ := hp
    have wa := h.1
    have wb := h.2.1
    simp only [release, WFPS]
    refine ⟨iha wa pa, ihb wb pb, ?_, ?_⟩
    · intro h1
      have : m.st = 1 := by by_cases c3 : m.st = 3 <;> simp [c3] at h1 <;> exact h1
      intro p hp'
      rw [release_headPosS a wa] at hp'
      rw [release_curPosS_S a wa]; exact p1 this p hp'
    · intro h2
      have : m.st = 2 := by by_cases c3 : m.st = 3 <;> simp [c3] at h2 <;> exact h2
      intro p hp'
      rw [release_headPosS b wb] at hp'
      rw [release_curPosS_S b wb]; exact p2 this p hp'

/-- `SetBackward` leaves every mixer it switches unselected: the invariant holds trivially there -/
theorem setBackward_WFPS (bk : Bool) (t : It σ) (h : t.WF) (hp : t.WFPS) : (t.setBackward bk).WFPS := by
  induction t with
  | leaf s => trivial
  | mix m a b iha ihb =>
    obtain ⟨pa, pb, p1, p2⟩ := hp
    have wa := h.1
    have wb := h.2.1
    simp only [setBackward]
    split
    · exact ⟨pa, pb, p1, p2⟩
    · simp only [release, WFPS]
      refine ⟨release_WFPS _ (setBackward_spec bk a wa).1 (iha wa pa), release_WFPS _ (setBackward_spec bk b wb).1 (ihb wb pb), ?_, ?_⟩ <;>
        (intro hc; simp at hc)

theorem next_WFPS_aux (n : Nat) : ∀ t : It σ, t.size ≤ n → t.WF → t.Synced → t.WFPS → t.next.WFPS := by
  induction n with
  | zero => intro t hn; cases t <;> simp [size] at hn
  | succ n ih =>
    intro t hn h hy hp
    cases t with
    | leaf s => simp [next, WFPS]
    | mix m a b =>
      have G := get_spec (It.mix m a b) h
      have P := (get_placedS (It.mix m a b) h hy hp).1
      have Y := get_Synced (It.mix m a b) h hy
      have hc := selectState_cases m a b a.get b.get
      rw [next]
      simp only [get] at G P Y
      split
      rename_i m' a' b' heq
      rw [heq] at G hc P Y
      simp only at G hc P Y
      have sza : a'.size ≤ n := by
        have := get_size a; simp only [size] at hn
        rcases hc.1 with r | r <;> rw [r] <;> omega
      have szb : b'.size ≤ n := by
        have := get_size b; simp only [size] at hn
        rcases hc.2 with r | r <;> rw [r] <;> omega
      obtain ⟨_, _, gw, _, _⟩ := G
      obtain ⟨wa, wb, _⟩ := gw
      obtain ⟨pa, pb, _, _⟩ := P
      obtain ⟨ya, yb⟩ := Y
      split
      · exact ⟨ih a' sza wa ya pa, pb, by simp, by simp⟩
      · exact ⟨pa, ih b' szb wb yb pb, by simp, by simp⟩
      · exact ⟨pa, pb, by simp, by simp⟩

/-- `Next` keeps the invariant (the mixer it passes is left unselected) -/
theorem next_WFPS (t : It σ) (h : t.WF) (hy : t.Synced) (hp : t.WFPS) : t.next.WFPS :=
  next_WFPS_aux t.size t (Nat.le_refl _) h hy hp

theorem next_Synced_aux (n : Nat) : ∀ t : It σ, t.size ≤ n → t.WF → t.settled → t.Synced → t.next.Synced := by
  induction n with
  | zero => intro t hn; cases t <;> simp [size] at hn
  | succ n ih =>
    intro t hn h hs hy
    cases t with
    | leaf s => simp only [next, Synced]; exact LawfulSourcePosS.sync_next s h hs hy
    | mix m a b =>
      have G := get_spec (It.mix m a b) h
      have Y := get_Synced (It.mix m a b) h hy
      have hc := selectState_cases m a b a.get b.get
      rw [next]
      simp only [get] at G Y
      split
      rename_i m' a' b' heq
      rw [heq] at G hc Y
      simp only at G hc Y
      have sza : a'.size ≤ n := by
        have := get_size a; simp only [size] at hn
        rcases hc.1 with r | r <;> rw [r] <;> omega
      have szb : b'.size ≤ n := by
        have := get_size b; simp only [size] at hn
        rcases hc.2 with r | r <;> rw [r] <;> omega
      obtain ⟨_, _, gw, _, _⟩ := G
      obtain ⟨wa, wb, _, _, _, _, hst⟩ := gw
      obtain ⟨ya, yb⟩ := Y
      split
      · rename_i h1
        rcases hst with h0 | ⟨_, hs2, _⟩
        · rw [h1] at h0; exact absurd h0 (by decide)
        · exact ⟨ih a' sza wa (hs2 h1).2 ya, yb⟩
      · rename_i h2
        rcases hst with h0 | ⟨_, _, hs3⟩
        · rw [h2] at h0; exact absurd h0 (by decide)
        · exact ⟨ya, ih b' szb wb (hs3 h2).2 yb⟩
      · exact ⟨ya, yb⟩

/-- `Next` (after a `Get`) keeps every source in a `sync` state -/
theorem next_Synced (t : It σ) (h : t.WF) (hs : t.settled) (hy : t.Synced) : t.next.Synced :=
  next_Synced_aux t.size t (Nat.le_refl _) h hs hy

/-- the position of the head event is the position of the head of one of the sources -/
theorem headPosS_mem_leaves (t : It σ) (p : Int × Int) (h : t.headPosS = some p) :
    ∃ s ∈ t.leaves, (LawfulSourcePosS.pview s).head? = some p := by
  induction t with
  | leaf s => exact ⟨s, by simp [leaves], h⟩
  | mix m a b iha ihb =>
    simp only [headPosS] at h
    split at h
    · obtain ⟨s, hs, e⟩ := iha h
      exact ⟨s, by simp only [leaves, List.mem_append]; exact Or.inl hs, e⟩
    · split at h
      · obtain ⟨s, hs, e⟩ := ihb h
        exact ⟨s, by simp only [leaves, List.mem_append]; exact Or.inr hs, e⟩
      · simp at h

end It
end Logrange.Mixer
