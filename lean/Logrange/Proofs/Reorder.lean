import Logrange.Model.Reorder
import Logrange.Proofs.RebuildHist
/-!
# C02 — the chunk index stays sound for EVERY delivery order of the write notifications (Points level)

`Inv tsOf n ds c`: the entry `c` after the notifications `ds` (a set: only membership is used) of pairwise disjoint batches
of a chunk holding `n` monotone records: every index point lies on the timestamp curve (`OnCurve`) at or before the last
indexed record, which is the last record of a delivered batch; the hull covers every delivered batch; `Recs` is at least
every delivered batch's end. `notify_inv`: one `notify` — whatever the batch's place in the stored order — preserves it
(late → skipped; otherwise the batch lies behind every indexed point and `addInterval` appends). `OnCurve` points are
`LookupSound` for the whole chunk, so both look-ups are sound at every moment, and once every record has been announced
every window is complete.
-/
namespace Logrange.Reorder
open Logrange Logrange.Points Logrange.ChunkHist Logrange.RebuildHist

/-- a point lies on the chunk's timestamp curve (or is the over-wide first point of a rolled-over call) -/
def OnCurve (tsOf : Nat → Int) (p : Pt) : Prop := p.ts = tsOf p.idx ∨ (p.idx = 0 ∧ p.ts ≤ tsOf 0)

/-- a notification of stored records: positions inside the chunk, maximum = last record, minimum = first record (or, for
the chunk's first batch, the over-wide minimum of a call that rolled over), int64 -/
def NoteOk (tsOf : Nat → Int) (n : Nat) (b : Note) : Prop :=
  b.f ≤ b.l ∧ b.l < n ∧ b.mx = tsOf b.l ∧ (b.mn = tsOf b.f ∨ (b.f = 0 ∧ b.mn ≤ tsOf 0)) ∧ minI64 ≤ b.mn

/-- two batches of one chunk occupy disjoint position ranges -/
def Disj (a b : Note) : Prop := a.l < b.f ∨ b.l < a.f

structure Inv (tsOf : Nat → Int) (n : Nat) (ds : List Note) (c : ChunkIdx) : Prop where
  curve : c.corrupted = false → ∀ p ∈ c.pts, OnCurve tsOf p ∧ p.idx ≤ c.lastRec ∧ p.idx < n
  lastIn : c.corrupted = false → c.lastRec > 0 → ∃ b ∈ ds, b.l = c.lastRec
  ptsNe : c.corrupted = false → c.hull ≠ none → c.pts ≠ []
  ptsZero : c.corrupted = false → c.pts ≠ [] → ∃ b ∈ ds, b.f = 0
  hullNone : c.hull = none → ds = []
  hullCov : ∀ b ∈ ds, ∃ h, c.hull = some h ∧ h.minTs ≤ b.mn ∧ b.mx ≤ h.maxTs
  hullLow : ∀ h, c.hull = some h → minI64 ≤ h.minTs
  recsGe : ∀ b ∈ ds, b.l + 1 ≤ c.n
  recsLe : c.n ≤ n
  okAll : ∀ b ∈ ds, b.f ≤ b.l
  nZero : c.hull = none → c.n = 0

theorem inv_init (tsOf : Nat → Int) (n : Nat) : Inv tsOf n [] {} := by
  refine ⟨?_, ?_, ?_, ?_, ?_, ?_, ?_, ?_, ?_, fun b hb => by simp at hb, fun _ => rfl⟩
  · intro _ p hp; simp at hp
  · intro _ h; exact absurd h (by decide)
  · intro _ h; exact absurd rfl h
  · intro _ h; exact absurd rfl h
  · intro _; rfl
  · intro b hb; simp at hb
  · intro h hh; simp at hh
  · intro b hb; simp at hb
  · exact Nat.zero_le _

theorem add_ne_nil (pts : List Pt) (it : Iv) : add pts it ≠ [] := by
  cases pts with
  | nil => simp [add]
  | cons a r =>
    simp only [add]
    split
    · simp
    · split <;> simp

theorem onCurve_le {tsOf : Nat → Int} {p : Pt} (h : OnCurve tsOf p) : p.ts ≤ tsOf p.idx := by
  rcases h with h | ⟨h1, h2⟩
  · omega
  · rw [h1]; exact h2

theorem newHull_cov (old : Option Hull) (mn mx : Int) :
    (newHull old mn mx).minTs ≤ mn ∧ mx ≤ (newHull old mn mx).maxTs ∧
      ∀ h, old = some h → (newHull old mn mx).minTs ≤ h.minTs ∧ h.maxTs ≤ (newHull old mn mx).maxTs := by
  cases old with
  | none => simp [newHull]
  | some h =>
    simp only [newHull]
    refine ⟨by omega, by omega, ?_⟩
    intro h' e
    simp only [Option.some.injEq] at e
    subst e
    constructor <;> omega

/-- the hull / Recs part of the invariant after any notification -/
theorem inv_hull_step {tsOf : Nat → Int} {n : Nat} {ds : List Note} {c : ChunkIdx} (hi : Inv tsOf n ds c) (b : Note)
    (hb : NoteOk tsOf n b) :
    (∀ a ∈ b :: ds, ∃ h, some (newHull c.hull b.mn b.mx) = some h ∧ h.minTs ≤ a.mn ∧ a.mx ≤ h.maxTs) ∧
    (∀ h, some (newHull c.hull b.mn b.mx) = some h → minI64 ≤ h.minTs) ∧
    (∀ a ∈ b :: ds, a.l + 1 ≤ max c.n (b.l + 1)) ∧ max c.n (b.l + 1) ≤ n := by
  obtain ⟨c1, c2, c3⟩ := newHull_cov c.hull b.mn b.mx
  refine ⟨?_, ?_, ?_, ?_⟩
  · intro a ha
    refine ⟨_, rfl, ?_⟩
    cases ha with
    | head => exact ⟨c1, c2⟩
    | tail _ ha' =>
      obtain ⟨h, e, h1, h2⟩ := hi.hullCov a ha'
      obtain ⟨d1, d2⟩ := c3 h e
      constructor <;> omega
  · intro h e
    simp only [Option.some.injEq] at e
    rw [← e]
    cases hh : c.hull with
    | none => simp only [newHull]; exact hb.2.2.2.2
    | some h0 =>
      have := hi.hullLow h0 hh
      have := hb.2.2.2.2
      simp only [newHull]; omega
  · intro a ha
    cases ha with
    | head => omega
    | tail _ ha' => have := hi.recsGe a ha'; omega
  · have := hi.recsLe; have := hb.2.1; omega

/-- **one notification, whatever its place in the stored order, preserves the invariant** -/
theorem notify_inv {tsOf : Nat → Int} {n : Nat} (sparse bigGap : Nat) {ds : List Note} {c : ChunkIdx}
    (hm : Monotone tsOf n) (hi : Inv tsOf n ds c) (b : Note) (hb : NoteOk tsOf n b) (hd : ∀ a ∈ ds, Disj a b) :
    Inv tsOf n (b :: ds) (notify sparse bigGap c b) := by
  obtain ⟨g1, g2, g3, g4⟩ := inv_hull_step hi b hb
  obtain ⟨hfl, hln, hmx, hmn, _⟩ := hb
  have g5 : ∀ a ∈ b :: ds, a.f ≤ a.l := by
    intro a ha
    cases ha with
    | head => exact hfl
    | tail _ ha' => exact hi.okAll a ha'
  have g6 : ∀ (x : Option Hull), x = some (newHull c.hull b.mn b.mx) → x = none → max c.n (b.l + 1) = 0 := by
    intro x e1 e2; rw [e1] at e2; simp at e2
  unfold notify
  simp only []
  by_cases hc : c.corrupted = true
  · -- corrupted already
    rw [if_pos hc]
    refine ⟨?_, ?_, ?_, ?_, ?_, g1, g2, g3, g4, g5, g6 _ rfl⟩ <;> (try (intro h; simp [hc] at h)) <;> (try simp)
  · rw [if_neg hc]
    have hc' : c.corrupted = false := by simpa using hc
    by_cases hnew : c.hull = none ∧ b.f > 0
    · -- first notification of the chunk names firstRec > 0
      rw [if_pos hnew]
      refine ⟨?_, ?_, ?_, ?_, ?_, g1, g2, g3, g4, g5, g6 _ rfl⟩ <;> (try (intro h; simp at h)) <;> (try simp)
    · rw [if_neg hnew]
      by_cases hskip : lateByRecs c b ∨ (c.lastRec > 0 ∧ (b.l ≤ c.lastRec ∨ b.l - c.lastRec < sparse))
      · -- late or sparse: skipped
        rw [if_pos hskip]
        refine ⟨hi.curve, ?_, ?_, ?_, by simp, g1, g2, g3, g4, g5, g6 _ rfl⟩
        · intro h1 h2
          obtain ⟨a, ha, e⟩ := hi.lastIn h1 h2
          exact ⟨a, List.mem_cons_of_mem _ ha, e⟩
        · intro h1 _
          have : c.hull ≠ none := by
            intro e
            rcases hskip with hl | hl
            · have := hi.nZero e
              have := hl.2
              omega
            · have := hi.hullNone e
              subst this
              obtain ⟨a, ha, _⟩ := hi.lastIn hc' hl.1
              simp at ha
          exact hi.ptsNe h1 this
        · intro h1 h2
          obtain ⟨a, ha, e⟩ := hi.ptsZero h1 h2
          exact ⟨a, List.mem_cons_of_mem _ ha, e⟩
      · rw [if_neg hskip]
        by_cases hbig : c.pts = [] ∧ b.l - c.lastRec > bigGap
        · -- big gap
          rw [if_pos hbig]
          refine ⟨?_, ?_, ?_, ?_, ?_, g1, g2, g3, g4, g5, g6 _ rfl⟩ <;> (try (intro h; simp at h)) <;> (try simp)
        · -- addInterval
          rw [if_neg hbig]
          -- every indexed point lies in front of the batch
          have hfront : ∀ p ∈ c.pts, p.idx < b.f := by
            intro p hp
            obtain ⟨_, hle, _⟩ := hi.curve hc' p hp
            by_cases h0 : c.lastRec > 0
            · obtain ⟨a, ha, e⟩ := hi.lastIn hc' h0
              have hnl : ¬ (b.l ≤ c.lastRec) := fun h => hskip (Or.inr ⟨h0, Or.inl h⟩)
              have := hi.okAll a ha
              rcases hd a ha with h | h
              · omega
              · omega
            · obtain ⟨a, ha, e⟩ := hi.ptsZero hc' (List.ne_nil_of_mem hp)
              have := hi.okAll a ha
              rcases hd a ha with h | h
              · omega
              · omega
          have hall : ∀ p ∈ c.pts, p.ts ≤ b.mn := by
            intro p hp
            have h1 := onCurve_le (hi.curve hc' p hp).1
            have h2 := hfront p hp
            have h3 := hm p.idx b.f (by omega) (by omega)
            rcases hmn with e | ⟨e, _⟩
            · omega
            · omega
          have hadd : add c.pts ⟨⟨b.mn, b.f⟩, ⟨b.mx, b.l⟩⟩ = if c.pts = [] then [⟨b.mn, b.f⟩, ⟨b.mx, b.l⟩] else c.pts ++ [⟨b.mx, b.l⟩] := by
            cases hp : c.pts with
            | nil => simp [add]
            | cons a r =>
              simp only [add]
              rw [if_pos (cntLE_eq_length_of_all_le b.mn (a :: r) (by rw [← hp]; exact hall))]
              simp
          have hp0 : OnCurve tsOf ⟨b.mn, b.f⟩ := by
            rcases hmn with e | ⟨e1, e2⟩
            · left; exact e
            · right; exact ⟨e1, e2⟩
          have hp1 : OnCurve tsOf ⟨b.mx, b.l⟩ := Or.inl hmx
          refine ⟨?_, ?_, ?_, ?_, by simp, g1, g2, g3, g4, g5, g6 _ rfl⟩
          · intro _ p hp
            rw [hadd] at hp
            split at hp
            · simp at hp
              rcases hp with e | e <;> subst e
              · exact ⟨hp0, hfl, by simp; omega⟩
              · exact ⟨hp1, Nat.le_refl _, hln⟩
            · rw [List.mem_append] at hp
              rcases hp with hp | hp
              · obtain ⟨q1, _, q3⟩ := hi.curve hc' p hp
                have := hfront p hp
                exact ⟨q1, by simp; omega, q3⟩
              · simp at hp; subst hp
                exact ⟨hp1, Nat.le_refl _, hln⟩
          · intro _ _
            exact ⟨b, List.mem_cons_self, rfl⟩
          · intro _ _
            exact add_ne_nil _ _
          · intro _ _
            by_cases hp : c.pts = []
            · -- the chunk's first indexed interval: its first notification named position 0
              have : ¬ (c.hull = none ∧ b.f > 0) := hnew
              by_cases hh : c.hull = none
              · have : ¬ b.f > 0 := fun h => hnew ⟨hh, h⟩
                exact ⟨b, List.mem_cons_self, by omega⟩
              · exact absurd hp (hi.ptsNe hc' hh)
            · obtain ⟨a, ha, e⟩ := hi.ptsZero hc' hp
              exact ⟨a, List.mem_cons_of_mem _ ha, e⟩

/-- every delivery order: the invariant after the notifications `ds` delivered one by one -/
theorem deliver_inv {tsOf : Nat → Int} {n : Nat} (sparse bigGap : Nat) (hm : Monotone tsOf n) :
    ∀ (ds done : List Note) (c : ChunkIdx), Inv tsOf n done c → (∀ b ∈ ds, NoteOk tsOf n b) → ds.Pairwise Disj →
      (∀ a ∈ done, ∀ b ∈ ds, Disj a b) →
      ∃ done', (∀ x, x ∈ done' ↔ x ∈ done ∨ x ∈ ds) ∧ Inv tsOf n done' (ds.foldl (notify sparse bigGap) c) := by
  intro ds
  induction ds with
  | nil => intro done c hi _ _ _; exact ⟨done, by simp, hi⟩
  | cons b r ih =>
    intro done c hi hok hp hd
    have hp' := List.pairwise_cons.mp hp
    have h1 := notify_inv sparse bigGap hm hi b (hok b List.mem_cons_self) (fun a ha => hd a ha b List.mem_cons_self)
    obtain ⟨done', e, hi'⟩ := ih (b :: done) _ h1 (fun x hx => hok x (List.mem_cons_of_mem _ hx)) hp'.2 (by
      intro a ha x hx
      cases ha with
      | head => exact hp'.1 x hx
      | tail _ ha' => exact hd a ha' x (List.mem_cons_of_mem _ hx))
    refine ⟨done', ?_, hi'⟩
    intro x
    rw [e x]
    simp only [List.mem_cons]
    constructor
    · rintro ((h | h) | h)
      · right; left; exact h
      · left; exact h
      · right; right; exact h
    · rintro (h | h | h)
      · left; right; exact h
      · left; left; exact h
      · right; exact h

/-- points on the curve of monotone data separate the chunk's positions by their timestamp -/
theorem lookupSound_of_curve {tsOf : Nat → Int} {n : Nat} {pts : List Pt} (hm : Monotone tsOf n)
    (h : ∀ p ∈ pts, OnCurve tsOf p ∧ p.idx < n) : LookupSound tsOf n pts := by
  constructor
  · intro p hp q h1 _
    obtain ⟨hc, hlt⟩ := h p hp
    rcases hc with e | ⟨e, _⟩
    · rw [e]; exact hm q p.idx (by omega) hlt
    · omega
  · intro p hp q h1 h2
    obtain ⟨hc, hlt⟩ := h p hp
    have := onCurve_le hc
    have := hm p.idx q (by omega) h2
    omega


/-- when `notify` reaches `addInterval`, every indexed point's timestamp is at or below the batch's minimum: the interval
is appended (this is what lets the block tree follow: `tree_append_refines`) -/
theorem inv_append_only {tsOf : Nat → Int} {n : Nat} (sparse : Nat) {ds : List Note} {c : ChunkIdx}
    (hm : Monotone tsOf n) (hi : Inv tsOf n ds c) (b : Note) (hb : NoteOk tsOf n b) (hd : ∀ a ∈ ds, Disj a b)
    (hc' : c.corrupted = false)
    (hskip : ¬ (lateByRecs c b ∨ (c.lastRec > 0 ∧ (b.l ≤ c.lastRec ∨ b.l - c.lastRec < sparse)))) :
    (∀ p ∈ c.pts, p.ts ≤ b.mn) ∧ b.mn ≤ b.mx := by
  obtain ⟨hfl, hln, hmx, hmn, _⟩ := hb
  have hfront : ∀ p ∈ c.pts, p.idx < b.f := by
    intro p hp
    obtain ⟨_, hle, _⟩ := hi.curve hc' p hp
    by_cases h0 : c.lastRec > 0
    · obtain ⟨a, ha, e⟩ := hi.lastIn hc' h0
      have hnl : ¬ (b.l ≤ c.lastRec) := fun h => hskip (Or.inr ⟨h0, Or.inl h⟩)
      have := hi.okAll a ha
      rcases hd a ha with h | h
      · omega
      · omega
    · obtain ⟨a, ha, e⟩ := hi.ptsZero hc' (List.ne_nil_of_mem hp)
      have := hi.okAll a ha
      rcases hd a ha with h | h
      · omega
      · omega
  constructor
  · intro p hp
    have h1 := onCurve_le (hi.curve hc' p hp).1
    have h2 := hfront p hp
    have h3 := hm p.idx b.f (by omega) (by omega)
    rcases hmn with e | ⟨e, _⟩
    · omega
    · omega
  · have h3 := hm b.f b.l hfl hln
    rcases hmn with e | ⟨e1, e2⟩
    · omega
    · have := hm 0 b.l (Nat.zero_le _) hln
      omega

end Logrange.Reorder
