import Logrange.Proofs.RdIterDefs
/-!
Forward-direction proofs for the journal iterator model (C03/C16): `get`/`next` against the flat-index
abstraction (`getFwd`, `nextFwd`), enumeration (`drain_eq`, `pos_after`) and stability under appends (`grows`).
-/
namespace Logrange.Rd

/-- per-chunk contribution to `flatIdx` -/
def fiTerm (c : Chunk) (p : Pos) : Nat :=
  if c.id < p.cid then c.cnt else if c.id = p.cid then min p.idx c.cnt else 0

theorem flatIdx_cons (c : Chunk) (r : Journal) (p : Pos) :
    flatIdx (c :: r) p = fiTerm c p + flatIdx r p := rfl

theorem flat_cons (c : Chunk) (r : Journal) : flat (c :: r) = c.recs ++ flat r := by
  simp [flat]

theorem flat_length_cons (c : Chunk) (r : Journal) :
    (flat (c :: r)).length = c.cnt + (flat r).length := by
  simp [flat_cons, Chunk.cnt]

theorem fiTerm_le (c : Chunk) (p : Pos) : fiTerm c p ≤ c.cnt := by
  unfold fiTerm; split
  · omega
  · split <;> omega

theorem flatIdx_congr {j : Journal} {p q : Pos} (h : ∀ c ∈ j, fiTerm c p = fiTerm c q) :
    flatIdx j p = flatIdx j q := by
  induction j with
  | nil => rfl
  | cons c r ih =>
    rw [flatIdx_cons, flatIdx_cons, h c (by simp), ih (fun x hx => h x (by simp [hx]))]

theorem flatIdx_le (j : Journal) (p : Pos) : flatIdx j p ≤ (flat j).length := by
  induction j with
  | nil => simp [flatIdx]
  | cons c r ih =>
    rw [flatIdx_cons, flat_length_cons]
    have := fiTerm_le c p
    omega

theorem flatIdx_eq_len {j : Journal} {p : Pos} (h : ∀ c ∈ j, fiTerm c p = c.cnt) :
    flatIdx j p = (flat j).length := by
  induction j with
  | nil => simp [flatIdx, flat]
  | cons c r ih =>
    rw [flatIdx_cons, flat_length_cons, h c (by simp), ih (fun x hx => h x (by simp [hx]))]

theorem flatIdx_eq_zero {j : Journal} {p : Pos} (h : ∀ c ∈ j, fiTerm c p = 0) :
    flatIdx j p = 0 := by
  induction j with
  | nil => simp [flatIdx]
  | cons c r ih =>
    rw [flatIdx_cons, h c (by simp), ih (fun x hx => h x (by simp [hx]))]

theorem Sorted.tail {c : Chunk} {r : Journal} (h : Sorted (c :: r)) : Sorted r :=
  (List.pairwise_cons.mp h).2

theorem Sorted.head_lt {c : Chunk} {r : Journal} (h : Sorted (c :: r)) : ∀ x ∈ r, c.id < x.id :=
  (List.pairwise_cons.mp h).1

theorem sorted_id_inj {j : Journal} (hs : Sorted j) {a b : Chunk} (ha : a ∈ j) (hb : b ∈ j)
    (h : a.id = b.id) : a = b := by
  induction j with
  | nil => simp at ha
  | cons c r ih =>
    have hl := hs.head_lt
    rcases List.mem_cons.mp ha with rfl | ha' <;> rcases List.mem_cons.mp hb with rfl | hb'
    · rfl
    · have := hl b hb'; omega
    · have := hl a ha'; omega
    · exact ih hs.tail ha' hb'

theorem findChunk_mem {j : Journal} (hs : Sorted j) {ch : Chunk} (hm : ch ∈ j) :
    findChunk j ch.id = some ch := by
  induction j with
  | nil => simp at hm
  | cons c r ih =>
    unfold findChunk
    rw [List.find?_cons]
    rcases List.mem_cons.mp hm with rfl | hm'
    · simp
    · have := hs.head_lt ch hm'
      have hne : (c.id == ch.id) = false := by simp; omega
      rw [hne]
      exact ih hs.tail hm'

theorem cntOf_mem {j : Journal} (hs : Sorted j) {ch : Chunk} (hm : ch ∈ j) :
    cntOf j ch.id = ch.cnt := by
  simp [cntOf, findChunk_mem hs hm]

theorem recAt_mem {j : Journal} (hs : Sorted j) {ch : Chunk} (hm : ch ∈ j) (k : Nat) :
    recAt j ch.id k = ch.recs[k]? := by
  simp [recAt, findChunk_mem hs hm]

/-- inside an existing chunk the flat index is the chunk's start plus the (clipped) index -/
theorem flatIdx_in {j : Journal} (hs : Sorted j) {ch : Chunk} (hm : ch ∈ j) (k : Nat) :
    flatIdx j ⟨ch.id, k⟩ = flatIdx j ⟨ch.id, 0⟩ + min k ch.cnt := by
  induction j with
  | nil => simp at hm
  | cons c r ih =>
    rw [flatIdx_cons, flatIdx_cons]
    rcases List.mem_cons.mp hm with rfl | hm'
    · have hl := hs.head_lt
      have z : ∀ k, flatIdx r ⟨ch.id, k⟩ = 0 := fun k => flatIdx_eq_zero (fun x hx => by
        have := hl x hx; simp only [fiTerm]; rw [if_neg (by omega), if_neg (by omega)])
      rw [z, z]; simp [fiTerm]
    · have := hs.head_lt ch hm'
      rw [ih hs.tail hm']
      simp only [fiTerm, if_pos this]; omega

theorem flat_get {j : Journal} (hs : Sorted j) {ch : Chunk} (hm : ch ∈ j) {k : Nat} (hk : k < ch.cnt) :
    (flat j)[flatIdx j ⟨ch.id, 0⟩ + k]? = ch.recs[k]? := by
  induction j with
  | nil => simp at hm
  | cons c r ih =>
    rw [flatIdx_cons, flat_cons]
    rcases List.mem_cons.mp hm with rfl | hm'
    · have hl := hs.head_lt
      have z : flatIdx r ⟨ch.id, 0⟩ = 0 := flatIdx_eq_zero (fun x hx => by
        have := hl x hx; simp only [fiTerm]; rw [if_neg (by omega), if_neg (by omega)])
      rw [z]
      have : fiTerm ch ⟨ch.id, 0⟩ = 0 := by simp [fiTerm]
      rw [this]
      simp only [Nat.zero_add]
      exact List.getElem?_append_left (by simpa [Chunk.cnt] using hk)
    · have := hs.head_lt ch hm'
      have t : fiTerm c ⟨ch.id, 0⟩ = c.recs.length := by simp only [fiTerm]; rw [if_pos this]; rfl
      rw [t, List.getElem?_append_right (by omega)]
      rw [← ih hs.tail hm']
      congr 1; omega

theorem ciSetPos_fresh (j : Journal) (id k : Nat) :
    ciSetPos j { chunk := id } (k : Int) =
      { chunk := id, pos := ((min k (cntOf j id) : Nat) : Int), cached := false } := by
  unfold ciSetPos
  simp only
  split
  · rename_i h
    have : k = 0 := by omega
    subst this; simp
  · rename_i h
    congr 1
    split <;> split <;> omega

theorem find_ge_some {j : Journal} (hs : Sorted j) {cid : Nat} {chk : Chunk}
    (h : j.find? (fun c => decide (cid ≤ c.id)) = some chk) :
    chk ∈ j ∧ cid ≤ chk.id ∧ ∀ c ∈ j, c.id < cid ∨ chk.id ≤ c.id := by
  induction j with
  | nil => simp at h
  | cons c r ih =>
    rw [List.find?_cons] at h
    by_cases hc : cid ≤ c.id
    · simp [hc] at h; subst h
      refine ⟨by simp, hc, ?_⟩
      intro x hx
      rcases List.mem_cons.mp hx with rfl | hx'
      · omega
      · have := hs.head_lt x hx'; omega
    · simp [hc] at h
      obtain ⟨h1, h2, h3⟩ := ih hs.tail h
      refine ⟨by simp [h1], h2, ?_⟩
      intro x hx
      rcases List.mem_cons.mp hx with rfl | hx'
      · omega
      · exact h3 x hx'

theorem find_ge_none {j : Journal} {cid : Nat}
    (h : j.find? (fun c => decide (cid ≤ c.id)) = none) : ∀ c ∈ j, c.id < cid := by
  intro c hc
  have := List.find?_eq_none.mp h c hc
  simpa using this

theorem getLast_max {j : Journal} (hs : Sorted j) {chk : Chunk} (h : j.getLast? = some chk) :
    chk ∈ j ∧ ∀ c ∈ j, c.id ≤ chk.id := by
  induction j with
  | nil => simp at h
  | cons c r ih =>
    cases r with
    | nil => simp at h; subst h; simp
    | cons c2 r2 =>
      rw [List.getLast?_cons_cons] at h
      obtain ⟨h1, h2⟩ := ih hs.tail h
      have := hs.head_lt chk h1
      refine ⟨by simp [h1], ?_⟩
      intro x hx
      rcases List.mem_cons.mp hx with rfl | hx'
      · omega
      · exact h2 x hx'

/-- what `getChunkByIdOrGreater` answers on a sorted journal -/
theorem orGreater_spec {j : Journal} (hs : Sorted j) (cid : Nat) :
    match orGreater j cid with
    | none => j = []
    | some chk => chk ∈ j ∧
        ((cid ≤ chk.id ∧ ∀ c ∈ j, c.id < cid ∨ chk.id ≤ c.id) ∨
         (chk.id < cid ∧ ∀ c ∈ j, c.id ≤ chk.id)) := by
  unfold orGreater
  cases hf : j.find? (fun c => decide (cid ≤ c.id)) with
  | some chk =>
    simp only
    obtain ⟨h1, h2, h3⟩ := find_ge_some hs hf
    exact ⟨h1, Or.inl ⟨h2, h3⟩⟩
  | none =>
    simp only
    have hn := find_ge_none hf
    cases hl : j.getLast? with
    | none => simpa using hl
    | some chk =>
      simp only
      obtain ⟨h1, h2⟩ := getLast_max hs hl
      exact ⟨h1, Or.inr ⟨hn chk h1, h2⟩⟩

/-- outcome of forward `ensure`/`advance` from a state whose position has flat index `i` and chunk id ≥ `lo` -/
def FwdOpen (j : Journal) (i lo : Nat) (r : It × Bool) : Prop :=
  r.1.bkwd = false ∧ fIdx j r.1 = i ∧
  ((r.2 = true ∧ r.1.ci = none ∧ i = (flat j).length ∧ (j ≠ [] → Settled j r.1.pos)) ∨
   (r.2 = false ∧ r.1.ci.isSome = true ∧ WF j r.1 ∧ Synced r.1 ∧ lo ≤ r.1.cid))

macro "fiTerm_tac" : tactic => `(tactic| (simp only [fiTerm, Nat.lt_irrefl, ↓reduceIte] <;> (repeat' split) <;> omega))

theorem ensure_fwd {j : Journal} (hs : Sorted j) {it : It} (hci : it.ci = none) (hb : it.bkwd = false) :
    FwdOpen j (fIdx j it) it.cid (ensure j it) := by
  obtain ⟨cid, idx, ci, bkwd⟩ := it
  simp only at hci hb
  subst hci hb
  have hsp := orGreater_spec hs cid
  simp only [ensure, Bool.false_eq_true, ↓reduceIte]
  cases hog : orGreater j cid with
  | none =>
    rw [hog] at hsp; simp only at hsp ⊢
    subst hsp
    simp [FwdOpen, fIdx, It.pos, flatIdx, flat]
  | some chk =>
    rw [hog] at hsp; simp only at hsp ⊢
    obtain ⟨hm, hcase⟩ := hsp
    have hcnt := cntOf_mem hs hm
    rcases hcase with ⟨hge, hfirst⟩ | ⟨hlt, hmax⟩
    · have h1 : ¬ chk.id < cid := by omega
      simp only [h1, false_and, ↓reduceIte, ciSetPos_fresh, hcnt, Int.toNat_natCast]
      by_cases h2 : chk.id > cid
      · simp only [h2, ↓reduceIte]
        refine ⟨rfl, ?_, Or.inr ⟨rfl, rfl, ?_, ?_, ?_⟩⟩
        · simp only [fIdx, effPos, Int.toNat_natCast, It.pos]
          apply flatIdx_congr
          intro c hc
          have := hfirst c hc
          fiTerm_tac
        · simp only [WF, hcnt]
          refine ⟨trivial, ⟨chk, hm, rfl⟩, by omega, by omega, by simp⟩
        · simp [Synced]
        · simp only; omega
      · have : chk.id = cid := by omega
        subst this
        simp only [h2, ↓reduceIte]
        refine ⟨rfl, ?_, Or.inr ⟨rfl, rfl, ?_, ?_, ?_⟩⟩
        · simp only [fIdx, effPos, Int.toNat_natCast, It.pos]
          rw [flatIdx_in hs hm, flatIdx_in hs hm idx]; omega
        · simp only [WF, hcnt]
          refine ⟨trivial, ⟨chk, hm, rfl⟩, by omega, by omega, by simp⟩
        · simp [Synced]
        · simp only; omega
    · simp only [hlt, not_false_eq_true, and_self, ↓reduceIte]
      have hlen : flatIdx j ⟨chk.id, chk.cnt⟩ = (flat j).length := by
        apply flatIdx_eq_len
        intro c hc
        have := hmax c hc
        by_cases e : c.id = chk.id
        · have := sorted_id_inj hs hc hm e; subst this; fiTerm_tac
        · fiTerm_tac
      refine ⟨rfl, ?_, Or.inl ⟨rfl, rfl, ?_, ?_⟩⟩
      · simp only [fIdx, effPos, It.pos, hlen]
        symm
        apply flatIdx_eq_len
        intro c hc
        have := hmax c hc
        fiTerm_tac
      · simp only [fIdx, effPos, It.pos]
        apply flatIdx_eq_len
        intro c hc
        have := hmax c hc
        fiTerm_tac
      · intro _
        exact ⟨chk, hm, rfl, Nat.le_refl _⟩

theorem flatIdx_end {j : Journal} (hs : Sorted j) {ch : Chunk} (hm : ch ∈ j) {k : Nat} (hk : ch.cnt ≤ k) :
    flatIdx j ⟨ch.id, k⟩ = flatIdx j ⟨ch.id + 1, 0⟩ := by
  apply flatIdx_congr
  intro c hc
  by_cases e : c.id = ch.id
  · have := sorted_id_inj hs hc hm e; subst this; fiTerm_tac
  · fiTerm_tac

theorem advance_fwd {j : Journal} (hs : Sorted j) {it : It} {c : CIt} (hci : it.ci = some c)
    (hb : it.bkwd = false) (hch : c.chunk = it.cid) {ch : Chunk} (hm : ch ∈ j) (hid : ch.id = it.cid)
    (hend : ch.cnt ≤ c.pos.toNat) : FwdOpen j (fIdx j it) (it.cid + 1) (advance j it) := by
  obtain ⟨cid, idx, ci, bkwd⟩ := it
  simp only at hci hb hch hid
  subst hci hb hid
  have h := ensure_fwd hs (it := { cid := ch.id + 1, idx := 0, ci := none, bkwd := false }) rfl rfl
  have e : fIdx j { cid := ch.id, idx := idx, ci := some c, bkwd := false } =
      fIdx j { cid := ch.id + 1, idx := 0, ci := none, bkwd := false } := by
    simp only [fIdx, effPos, It.pos, hch]
    exact flatIdx_end hs hm hend
  rw [e]
  simpa [advance] using h

/-- forward `cIterator.Get` on a well-formed chunk iterator -/
theorem ciGet_fwd {j : Journal} (hs : Sorted j) {c : CIt} {ch : Chunk} (hm : ch ∈ j) (hid : ch.id = c.chunk)
    (hlo : -1 ≤ c.pos) (hhi : c.pos ≤ (ch.cnt : Int))
    (hca : c.cached = true → 0 ≤ c.pos ∧ c.pos < (ch.cnt : Int)) :
    (ciGet j false c).1.chunk = c.chunk ∧ (ciGet j false c).1.pos = max c.pos 0 ∧
    ((ciGet j false c).1.pos < (ch.cnt : Int) →
        (ciGet j false c).2 = ch.recs[(ciGet j false c).1.pos.toNat]? ∧ (ciGet j false c).2.isSome = true) ∧
    ((ch.cnt : Int) ≤ (ciGet j false c).1.pos →
        (ciGet j false c).2 = none ∧ (ciGet j false c).1.cached = false) := by
  obtain ⟨chunk, pos, cached⟩ := c
  simp only at hid hlo hhi hca
  subst hid
  have hcnt := cntOf_mem hs hm
  unfold ciGet
  by_cases hc : cached = true
  · subst hc
    obtain ⟨h0, h1⟩ := hca rfl
    simp only [↓reduceIte, recAt_mem hs hm]
    refine ⟨trivial, by omega, ?_, by omega⟩
    intro _
    refine ⟨trivial, ?_⟩
    have : pos.toNat < ch.recs.length := by simp only [Chunk.cnt] at h1; omega
    simp [this]
  · have hc' : cached = false := by simpa using hc
    subst hc'
    simp only [Bool.false_eq_true, ↓reduceIte, hcnt]
    have e : (if pos < 0 then ciSetPos j { chunk := ch.id, pos := pos } 0 else { chunk := ch.id, pos := pos })
        = { chunk := ch.id, pos := max pos 0, cached := false } := by
      split
      · have : pos = -1 := by omega
        subst this
        have : ¬ ((0:Int) > (ch.cnt : Int)) := by omega
        simp [ciSetPos, hcnt, this]
        omega
      · congr 1; omega
    rw [e]
    simp only
    by_cases hge : max pos 0 ≥ (ch.cnt : Int)
    · have : max pos 0 < 0 ∨ max pos 0 ≥ (ch.cnt : Int) := Or.inr hge
      simp only [this, ↓reduceIte]
      refine ⟨trivial, trivial, by omega, fun _ => ⟨trivial, trivial⟩⟩
    · have : ¬ (max pos 0 < 0 ∨ max pos 0 ≥ (ch.cnt : Int)) := by omega
      simp only [this, ↓reduceIte, recAt_mem hs hm]
      refine ⟨trivial, trivial, ?_, by omega⟩
      intro _
      refine ⟨trivial, ?_⟩
      have : (max pos 0).toNat < ch.recs.length := by simp only [Chunk.cnt] at hge; omega
      simp [this]

theorem countP_lt_of {α : Type} {l : List α} {p q : α → Bool} (h : ∀ x ∈ l, p x = true → q x = true)
    {a : α} (ha : a ∈ l) (hp : p a = false) (hq : q a = true) : l.countP p < l.countP q := by
  induction l with
  | nil => simp at ha
  | cons b r ih =>
    have hmono : r.countP p ≤ r.countP q :=
      List.countP_mono_left (fun x hx => h x (by simp [hx]))
    rcases List.mem_cons.mp ha with rfl | ha'
    · rw [List.countP_cons_of_neg (by simp [hp]), List.countP_cons_of_pos hq]; omega
    · have := ih (fun x hx => h x (by simp [hx])) ha'
      rw [List.countP_cons, List.countP_cons]
      have := h b (by simp)
      split <;> split <;> simp_all <;> omega

/-- what forward `get`/`getLoop` answers from a state with flat index `i` -/
def GetOut (j : Journal) (i : Nat) (synced : Prop) (r : It × Option Rec) : Prop :=
  r.2 = (flat j)[i]? ∧ WF j r.1 ∧ r.1.bkwd = false ∧ fIdx j r.1 = i ∧ (synced → Synced r.1) ∧
  (r.2.isSome = true → OnRecord j r.1) ∧
  (r.2 = none → r.1.ci = none ∧ (j ≠ [] → Settled j r.1.pos))


theorem getLoop_fwd {j : Journal} (hs : Sorted j) : ∀ (fuel : Nat) (it : It), WF j it → it.ci.isSome = true →
    it.bkwd = false → j.countP (fun c => decide (it.cid ≤ c.id)) < fuel →
    GetOut j (fIdx j it) (Synced it) (getLoop j fuel it) := by
  intro fuel
  induction fuel with
  | zero => intro it _ _ _ h; omega
  | succ fuel ih =>
    intro it hwf hsome hb hfuel
    obtain ⟨cid, idx, ci, bkwd⟩ := it
    simp only at hsome hb hfuel
    subst hb
    cases ci with
    | none => simp at hsome
    | some c =>
      simp only [WF] at hwf
      obtain ⟨hch, ⟨ch, hm, hid⟩, hlo, hhi, hca⟩ := hwf
      have hcnt : cntOf j c.chunk = ch.cnt := by rw [← hid]; exact cntOf_mem hs hm
      rw [hcnt] at hhi hca
      have g := ciGet_fwd hs hm hid hlo hhi hca
      rw [getLoop]
      simp only
      generalize ciGet j false c = res at g ⊢
      obtain ⟨c', r⟩ := res
      simp only at g ⊢
      obtain ⟨g1, g2, g3, g4⟩ := g
      cases r with
      | some l =>
        simp only
        have hlt : c'.pos < (ch.cnt : Int) := by
          by_cases h : c'.pos < (ch.cnt : Int)
          · exact h
          · have := (g4 (by omega)).1; simp at this
        obtain ⟨g3a, _⟩ := g3 hlt
        have hfi : fIdx j { cid := cid, idx := idx, ci := some c } = flatIdx j ⟨ch.id, 0⟩ + c'.pos.toNat := by
          simp only [fIdx, effPos]; rw [← hid, flatIdx_in hs hm]; omega
        have hpe : c'.pos.toNat = c.pos.toNat := by omega
        refine ⟨?_, ?_, rfl, ?_, ?_, ?_, ?_⟩
        · simp only
          rw [hfi, flat_get hs hm (by omega)]; exact g3a
        · simp only [WF, g1, hcnt]
          exact ⟨hch, ⟨ch, hm, hid⟩, by omega, by omega, fun _ => ⟨by omega, hlt⟩⟩
        · simp only [fIdx, effPos, g1, hpe]
        · simp only [Synced]
          intro ⟨h0, h1⟩
          exact ⟨by omega, by omega⟩
        · intro _
          exact ⟨c', rfl, by omega, by rw [g1, hcnt]; exact hlt⟩
        · intro h; simp at h
      | none =>
        simp only
        have hge : (ch.cnt : Int) ≤ c'.pos := by
          by_cases h : c'.pos < (ch.cnt : Int)
          · have := (g3 h).2; simp at this
          · omega
        have adv := advance_fwd hs (it := { cid := cid, idx := idx, ci := some c' }) rfl rfl
          (g1.trans hch) hm (hid.trans hch) (by omega)
        have efi : fIdx j { cid := cid, idx := idx, ci := some c' } =
            fIdx j { cid := cid, idx := idx, ci := some c } := by
          have hpe : c'.pos.toNat = c.pos.toNat := by omega
          simp only [fIdx, effPos, g1, hpe]
        rw [efi] at adv
        generalize advance j { cid := cid, idx := idx, ci := some c' } = a at adv ⊢
        obtain ⟨it2, eof⟩ := a
        simp only [FwdOpen] at adv
        obtain ⟨ab, afi, acase⟩ := adv
        rcases acase with ⟨e1, e2, e3, e4⟩ | ⟨e1, e2, e3, e4, e5⟩
        · subst e1
          simp only [↓reduceIte]
          refine ⟨?_, ?_, ab, afi, ?_, ?_, ?_⟩
          · simp only; rw [e3]; simp
          · simp only [WF, e2]
          · intro _; simp only [Synced, e2]
          · intro h; simp at h
          · intro _; exact ⟨e2, e4⟩
        · subst e1
          simp only [Bool.false_eq_true, ↓reduceIte]
          have hc : j.countP (fun x => decide (it2.cid ≤ x.id)) < j.countP (fun x => decide (cid ≤ x.id)) := by
            apply countP_lt_of (a := ch)
            · intro x _ hx; simp only [decide_eq_true_eq] at hx ⊢; omega
            · exact hm
            · simp only [decide_eq_false_iff_not]; omega
            · simp only [decide_eq_true_eq]; omega
          have r := ih it2 e3 e2 ab (by omega)
          rw [afi] at r
          obtain ⟨r1, r2, r3, r4, r5, r6, r7⟩ := r
          exact ⟨r1, r2, r3, r4, fun _ => r5 e4, r6, r7⟩

theorem get_out {j : Journal} (hs : Sorted j) {it : It} (hwf : WF j it) (hb : it.bkwd = false) :
    GetOut j (fIdx j it) (Synced it) (get j it) := by
  have hfuel : ∀ it' : It, j.countP (fun c => decide (it'.cid ≤ c.id)) < j.length + 2 := by
    intro it'
    have := List.countP_le_length (p := fun c : Chunk => decide (it'.cid ≤ c.id)) (l := j)
    omega
  unfold get
  cases hci : it.ci with
  | some c =>
    have e : ensure j it = (it, false) := by unfold ensure; rw [hci]
    rw [e]
    simp only [Bool.false_eq_true, ↓reduceIte]
    exact getLoop_fwd hs _ it hwf (by rw [hci]; rfl) hb (hfuel it)
  | none =>
    have en := ensure_fwd hs hci hb
    generalize ensure j it = a at en ⊢
    obtain ⟨it2, eof⟩ := a
    simp only [FwdOpen] at en
    obtain ⟨ab, afi, acase⟩ := en
    rcases acase with ⟨e1, e2, e3, e4⟩ | ⟨e1, e2, e3, e4, e5⟩
    · subst e1
      simp only [↓reduceIte]
      refine ⟨?_, ?_, ab, afi, ?_, ?_, ?_⟩
      · simp only; rw [e3]; simp
      · simp only [WF, e2]
      · intro _; simp only [Synced, e2]
      · intro h; simp at h
      · intro _; exact ⟨e2, e4⟩
    · subst e1
      simp only [Bool.false_eq_true, ↓reduceIte]
      have r := getLoop_fwd hs _ it2 e3 e2 ab (hfuel it2)
      rw [afi] at r
      obtain ⟨r1, r2, r3, r4, r5, r6, r7⟩ := r
      exact ⟨r1, r2, r3, r4, fun _ => r5 e4, r6, r7⟩

/-- (A1) forward `Get` against the flat-index abstraction -/
theorem getFwd : GetFwdSpec := by
  intro j it hs hwf hb
  exact get_out hs hwf hb

theorem ciNext_fwd {j : Journal} (hs : Sorted j) {c : CIt} {ch : Chunk} (hm : ch ∈ j) (hid : ch.id = c.chunk)
    (h0 : 0 ≤ c.pos) (h1 : c.pos < (ch.cnt : Int)) :
    ciNext j false c = { chunk := c.chunk, pos := c.pos + 1, cached := false } := by
  have g := ciGet_fwd hs hm hid (by omega) (by omega) (fun _ => ⟨h0, h1⟩)
  unfold ciNext
  generalize ciGet j false c = res at g ⊢
  obtain ⟨c', r⟩ := res
  simp only at g ⊢
  obtain ⟨g1, g2, g3, g4⟩ := g
  have hp : c'.pos = c.pos := by omega
  obtain ⟨_, g3b⟩ := g3 (by omega)
  cases r with
  | none => simp at g3b
  | some l => simp [g1, hp]

theorem next_out {j : Journal} (hs : Sorted j) {it : It} (hwf : WF j it) (hb : it.bkwd = false) :
    WF j (next j it) ∧ (next j it).bkwd = false ∧ Synced (next j it) ∧
    fIdx j (next j it) = min (fIdx j it + 1) (flat j).length := by
  have g := get_out hs hwf hb
  have hle : fIdx j it ≤ (flat j).length := flatIdx_le j (effPos it)
  unfold next
  generalize fIdx j it = i at g hle ⊢
  generalize get j it = res at g ⊢
  obtain ⟨it', r⟩ := res
  obtain ⟨g1, g2, g3, g4, _, g6, g7⟩ := g
  simp only at g1 g2 g3 g4 g6 g7 ⊢
  obtain ⟨cid, idx, ci, bkwd⟩ := it'
  simp only at g3; subst g3
  cases ci with
  | none =>
    simp only
    refine ⟨g2, trivial, by simp [Synced], ?_⟩
    cases r with
    | some l => 
      obtain ⟨c, hc, _⟩ := g6 rfl
      simp at hc
    | none =>
      have : (flat j).length ≤ i := by
        have := g1.symm; simpa using this
      omega
  | some c =>
    simp only
    cases r with
    | none => have := (g7 rfl).1; simp at this
    | some l =>
      obtain ⟨c0, hc, p0, p1⟩ := g6 rfl
      simp only [Option.some.injEq] at hc; subst hc
      simp only [WF] at g2
      obtain ⟨hch, ⟨ch, hm, hid⟩, _, _, _⟩ := g2
      have hcnt : cntOf j c.chunk = ch.cnt := by rw [← hid]; exact cntOf_mem hs hm
      rw [hcnt] at p1
      rw [ciNext_fwd hs hm hid p0 p1]
      have hn : ¬ (c.pos + 1 < 0) := by omega
      simp only [hn, ↓reduceIte]
      have hlt : i < (flat j).length := by
        have := g1.symm
        rcases Nat.lt_or_ge i (flat j).length with h | h
        · exact h
        · rw [List.getElem?_eq_none h] at this; simp at this
      refine ⟨?_, trivial, ?_, ?_⟩
      · simp only [WF, hcnt]
        exact ⟨hch, ⟨ch, hm, hid⟩, by omega, by omega, by simp⟩
      · simp only [Synced]; exact ⟨by omega, trivial⟩
      · have g4' : flatIdx j ⟨ch.id, 0⟩ + min c.pos.toNat ch.cnt = i := by
          rw [← g4]; simp only [fIdx, effPos]; rw [← hid, flatIdx_in hs hm c.pos.toNat]
        simp only [fIdx, effPos]
        rw [← hid, flatIdx_in hs hm (c.pos + 1).toNat]
        omega

/-- (A2) -/
theorem nextFwd : NextFwdSpec := by
  intro j it hs hwf hb
  exact next_out hs hwf hb

/-- (A3) -/
theorem release_keeps {j : Journal} (it : It) :
    effPos (release it) = effPos it ∧ (release it).pos = it.pos ∧ (release it).bkwd = it.bkwd ∧
    (WF j it → WF j (release it)) ∧ (Synced it → Synced (release it)) := by
  obtain ⟨cid, idx, ci, bkwd⟩ := it
  cases ci with
  | none => simp [release]
  | some c =>
    simp only [release, effPos, It.pos, WF, Synced]
    refine ⟨trivial, trivial, trivial, ?_, fun h => h⟩
    intro ⟨h1, h2, h3, h4, _⟩
    exact ⟨h1, h2, h3, h4, by simp⟩

theorem setPos_fresh (j : Journal) (p : Pos) :
    (setPos j {} p).ci = none ∧ (setPos j {} p).pos = p ∧ (setPos j {} p).bkwd = false := by
  obtain ⟨pc, pi⟩ := p
  unfold setPos
  by_cases h : pc = 0 ∧ pi = 0
  · obtain ⟨rfl, rfl⟩ := h
    simp [It.pos]
  · simp only [h, ↓reduceIte]
    by_cases h2 : pc = 0
    · simp [It.pos, h2]
    · simp [It.pos, h2]

theorem effPos_eq_pos {j : Journal} {it : It} (hwf : WF j it) (hsy : Synced it) : effPos it = it.pos := by
  obtain ⟨cid, idx, ci, bkwd⟩ := it
  cases ci with
  | none => rfl
  | some c =>
    simp only [WF] at hwf
    simp only [Synced] at hsy
    simp only [effPos, It.pos, hwf.1, hsy.2]

/-- (A4) -/
theorem drain_eq (j : Journal) (it : It) (n : Nat) (hs : Sorted j) (hwf : WF j it) (hb : it.bkwd = false) :
    drain j n it = (recordsFrom j (effPos it)).take n := by
  induction n generalizing it with
  | zero => simp [drain]
  | succ n ih =>
    have g := get_out hs hwf hb
    have hle : fIdx j it ≤ (flat j).length := flatIdx_le j (effPos it)
    rw [drain]
    unfold recordsFrom
    change _ = ((flat j).drop (fIdx j it)).take (n + 1)
    generalize fIdx j it = i at g hle ⊢
    generalize get j it = res at g ⊢
    obtain ⟨it', r⟩ := res
    obtain ⟨g1, g2, g3, g4, _, _, _⟩ := g
    simp only at g1 g2 g3 g4
    cases r with
    | none =>
      simp only
      have : (flat j).length ≤ i := by have := g1.symm; simpa using this
      rw [List.drop_eq_nil_of_le this]; rfl
    | some l =>
      simp only
      have nx := next_out hs g2 g3
      obtain ⟨n1, n2, _, n4⟩ := nx
      rw [ih (next j it') n1 n2]
      unfold recordsFrom
      change _ = _
      have hlt : i < (flat j).length := by
        rcases Nat.lt_or_ge i (flat j).length with h | h
        · exact h
        · rw [List.getElem?_eq_none h] at g1; simp at g1
      have e : flatIdx j (effPos (next j it')) = i + 1 := by
        have : fIdx j (next j it') = i + 1 := by rw [n4, g4]; omega
        exact this
      rw [e]
      have hd : (flat j).drop i = l :: (flat j).drop (i + 1) := by
        rw [List.drop_eq_getElem_cons hlt]
        congr 1
        have := List.getElem?_eq_getElem hlt
        rw [this] at g1
        exact (Option.some.inj g1).symm
      rw [hd, List.take_succ_cons]

theorem iter_enumerates (j : Journal) (it : It) (n : Nat) (hs : Sorted j) (hwf : WF j it)
    (hb : it.bkwd = false) (hn : (flat j).length ≤ n) : drain j n it = recordsFrom j (effPos it) := by
  rw [drain_eq j it n hs hwf hb]
  apply List.take_of_length_le
  simp only [recordsFrom, List.length_drop]
  omega

theorem pos_after (j : Journal) (it : It) (k : Nat) (hs : Sorted j) (hwf : WF j it) (hb : it.bkwd = false) :
    fIdx j (stepK j k it) = min (fIdx j it + k) (flat j).length ∧ WF j (stepK j k it) ∧
    (stepK j k it).bkwd = false := by
  induction k generalizing it with
  | zero =>
    have hle : fIdx j it ≤ (flat j).length := flatIdx_le j (effPos it)
    simp only [stepK]
    exact ⟨by omega, hwf, hb⟩
  | succ k ih =>
    have g := get_out hs hwf hb
    obtain ⟨_, g2, g3, g4, _, _, _⟩ := g
    obtain ⟨n1, n2, _, n4⟩ := next_out hs g2 g3
    rw [stepK]
    obtain ⟨i1, i2, i3⟩ := ih (next j (get j it).1) n1 n2
    refine ⟨?_, i2, i3⟩
    rw [i1, n4, g4]
    omega

theorem grows_ids {j j' : Journal} (h : Grows j j') : ∀ x ∈ j, ∃ x' ∈ j', x'.id = x.id := by
  induction h with
  | nil j' => intro x hx; simp at hx
  | cons c c' r r' hid _ _ _ ih =>
    intro x hx
    rcases List.mem_cons.mp hx with rfl | hx'
    · exact ⟨c', by simp, hid.symm⟩
    · obtain ⟨x', hx1, hx2⟩ := ih x hx'
      exact ⟨x', by simp [hx1], hx2⟩

theorem grows_cntOf {j j' : Journal} (h : Grows j j') (id : Nat) : cntOf j id ≤ cntOf j' id := by
  induction h with
  | nil j' => simp [cntOf, findChunk]
  | cons c c' r r' hid hpre _ _ ih =>
    simp only [cntOf, findChunk, List.find?_cons] at ih ⊢
    rw [← hid]
    by_cases e : c.id = id
    · simp only [e, beq_self_eq_true]
      exact hpre.length_le
    · have : (c.id == id) = false := by simpa using e
      simp only [this]
      exact ih

theorem grows_flat {j j' : Journal} (h : Grows j j') : flat j <+: flat j' := by
  induction h with
  | nil j' => simp [flat]
  | cons c c' r r' hid hpre hfull _ ih =>
    rw [flat_cons, flat_cons]
    by_cases hr : r = []
    · subst hr
      simp only [flat, List.flatMap_nil, List.append_nil]
      exact hpre.trans (List.prefix_append _ _)
    · rw [hfull hr]
      exact (List.prefix_append_right_inj _).mpr ih

theorem grows_settled {j j' : Journal} (h : Grows j j') (hs : Sorted j') (p : Pos) (hp : Settled j p) :
    flatIdx j' p = flatIdx j p ∧ Settled j' p := by
  induction h with
  | nil j' => obtain ⟨c, hc, _⟩ := hp; simp at hc
  | cons c c' r r' hid hpre hfull hg ih =>
    obtain ⟨ch, hm, hcid, hidx⟩ := hp
    have hl := hs.head_lt
    have hids := grows_ids hg
    rw [flatIdx_cons, flatIdx_cons]
    rcases List.mem_cons.mp hm with rfl | hm'
    · have hle : ch.cnt ≤ c'.cnt := hpre.length_le
      have z' : flatIdx r' p = 0 := flatIdx_eq_zero (fun x hx => by
        have := hl x hx; fiTerm_tac)
      have z : flatIdx r p = 0 := flatIdx_eq_zero (fun x hx => by
        obtain ⟨x', hx1, hx2⟩ := hids x hx
        have := hl x' hx1; fiTerm_tac)
      rw [z, z']
      refine ⟨by fiTerm_tac, c', by simp, by omega, by omega⟩
    · obtain ⟨i1, c2, i2, i3, i4⟩ := ih hs.tail ⟨ch, hm', hcid, hidx⟩
      have hne : r ≠ [] := by intro e; subst e; simp at hm'
      have hcc : c.recs = c'.recs := hfull hne
      have hcnt : c.cnt = c'.cnt := by simp only [Chunk.cnt, hcc]
      obtain ⟨x', hx1, hx2⟩ := hids ch hm'
      have := hl x' hx1
      rw [i1]
      refine ⟨?_, c2, by simp [i2], i3, i4⟩
      congr 1
      fiTerm_tac

theorem grows_wf {j j' : Journal} (h : Grows j j') (it : It) (hwf : WF j it) : WF j' it := by
  obtain ⟨cid, idx, ci, bkwd⟩ := it
  cases ci with
  | none => trivial
  | some c =>
    simp only [WF] at hwf ⊢
    obtain ⟨h1, ⟨ch, hm, hid⟩, h3, h4, h5⟩ := hwf
    have hc := grows_cntOf h c.chunk
    obtain ⟨x', hx1, hx2⟩ := grows_ids h ch hm
    refine ⟨h1, ⟨x', hx1, hx2.trans hid⟩, h3, by omega, ?_⟩
    intro hca
    have := h5 hca
    omega

/-- (A5) -/
theorem grows : GrowsSpec := by
  intro j j' hg hs
  exact ⟨grows_flat hg, fun p hp => grows_settled hg hs p hp, fun it hwf => grows_wf hg it hwf⟩

end Logrange.Rd
