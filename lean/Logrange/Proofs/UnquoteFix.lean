import Logrange.Proofs.Quote
import Logrange.Model.KV
/-! `strconv.Unquote` never returns its own argument (no fixed point), by counting backslashes and double quotes -/
namespace Logrange.Proofs.UnquoteFix
open Go Logrange.Quote Logrange.KV Logrange.Proofs.Quote

/-- the number of backslash and double-quote bytes -/
def special (x : Bytes) : Nat := (x.filter (fun c => c == BS || c == DQ)).length

theorem special_nil : special [] = 0 := rfl

theorem special_cons (c : UInt8) (r : Bytes) :
    special (c :: r) = (if (c == BS || c == DQ) = true then 1 else 0) + special r := by
  unfold special
  by_cases h : (c == BS || c == DQ) = true
  · simp [h]; omega
  · simp [h]

theorem special_append (a b : Bytes) : special (a ++ b) = special a + special b := by
  unfold special; simp [List.filter_append]

theorem special_drop_le (n : Nat) (s : Bytes) : special (s.drop n) ≤ special s := by
  have := special_append (s.take n) (s.drop n)
  rw [List.take_append_drop] at this
  omega

theorem special_take_le (n : Nat) (s : Bytes) : special (s.take n) ≤ special s := by
  have := special_append (s.take n) (s.drop n)
  rw [List.take_append_drop] at this
  omega

theorem special_eq_zero (l : Bytes) (h : ∀ x ∈ l, x ≠ DQ ∧ x ≠ BS) : special l = 0 := by
  unfold special
  rw [List.length_eq_zero_iff, List.filter_eq_nil_iff]
  intro x hx
  obtain ⟨h1, h2⟩ := h x hx
  simp [h1, h2]

theorem special_single_le (c : UInt8) : special [c] ≤ 1 := by
  rw [special_cons]; split <;> simp [special_nil]

theorem special_outBytes_le (r : Nat) (mb : Bool) : special (outBytes r mb) ≤ 1 := by
  unfold outBytes
  split
  · exact special_single_le _
  · rename_i h
    have hr : ¬ r < 0x80 := by
      intro hlt; apply h; simp [hlt]
    rw [special_eq_zero _ (encodeRune_ne r (by omega) (by omega))]
    omega

/-- after a backslash the tail is a suffix of what follows the escape letter -/
theorem unquoteChar_BS_tail (c1 : UInt8) (s2 : Bytes) (r : Nat) (mb : Bool) (t : Bytes)
    (hu : unquoteChar (BS :: c1 :: s2) DQ = some (r, mb, t)) : ∃ n, t = s2.drop n := by
  unfold unquoteChar at hu
  simp only [] at hu
  rw [if_neg (by decide), if_neg (by decide), if_neg (by decide)] at hu
  by_cases h97 : (c1 == 97) = true
  · rw [if_pos h97] at hu; cases hu; exact ⟨0, rfl⟩
  rw [if_neg h97] at hu
  by_cases h98 : (c1 == 98) = true
  · rw [if_pos h98] at hu; cases hu; exact ⟨0, rfl⟩
  rw [if_neg h98] at hu
  by_cases h102 : (c1 == 102) = true
  · rw [if_pos h102] at hu; cases hu; exact ⟨0, rfl⟩
  rw [if_neg h102] at hu
  by_cases h110 : (c1 == 110) = true
  · rw [if_pos h110] at hu; cases hu; exact ⟨0, rfl⟩
  rw [if_neg h110] at hu
  by_cases h114 : (c1 == 114) = true
  · rw [if_pos h114] at hu; cases hu; exact ⟨0, rfl⟩
  rw [if_neg h114] at hu
  by_cases h116 : (c1 == 116) = true
  · rw [if_pos h116] at hu; cases hu; exact ⟨0, rfl⟩
  rw [if_neg h116] at hu
  by_cases h118 : (c1 == 118) = true
  · rw [if_pos h118] at hu; cases hu; exact ⟨0, rfl⟩
  rw [if_neg h118] at hu
  by_cases h120 : (c1 == 120) = true
  · rw [if_pos h120] at hu
    simp only [Option.map_eq_some_iff, Prod.mk.injEq] at hu
    obtain ⟨_, _, _, _, rfl⟩ := hu; exact ⟨2, rfl⟩
  rw [if_neg h120] at hu
  by_cases h117 : (c1 == 117) = true
  · rw [if_pos h117] at hu
    simp only [Option.bind_eq_some_iff] at hu
    obtain ⟨v, _, hu⟩ := hu
    split at hu
    · cases hu; exact ⟨4, rfl⟩
    · cases hu
  rw [if_neg h117] at hu
  by_cases h85 : (c1 == 85) = true
  · rw [if_pos h85] at hu
    simp only [Option.bind_eq_some_iff] at hu
    obtain ⟨v, _, hu⟩ := hu
    split at hu
    · cases hu; exact ⟨8, rfl⟩
    · cases hu
  rw [if_neg h85] at hu
  by_cases hoct : (decide (48 ≤ c1.toNat) && decide (c1.toNat ≤ 55)) = true
  · rw [if_pos hoct] at hu
    match s2, hu with
    | d1 :: d2 :: s3, hu =>
      simp only [] at hu
      split at hu
      · split at hu
        · cases hu
        · cases hu; exact ⟨2, rfl⟩
      · cases hu
    | [], hu => cases hu
    | [_], hu => cases hu
  rw [if_neg hoct] at hu
  by_cases hbs : (c1 == BS) = true
  · rw [if_pos hbs] at hu; cases hu; exact ⟨0, rfl⟩
  rw [if_neg hbs] at hu
  by_cases hq : (c1 == 39 || c1 == 34) = true
  · rw [if_pos hq] at hu
    split at hu
    · cases hu
    · cases hu; exact ⟨0, rfl⟩
  rw [if_neg hq] at hu
  cases hu

theorem special_BS_cons (r : Bytes) : special (BS :: r) = 1 + special r := by
  rw [special_cons]; simp

theorem special_DQ_cons (r : Bytes) : special (DQ :: r) = 1 + special r := by
  rw [special_cons]; simp

/-- one step of `UnquoteChar` (inside double quotes): the bytes it appends hold at most as many backslashes and
double quotes as the bytes it consumes -/
theorem step_special (c : UInt8) (rest : Bytes) (r : Nat) (mb : Bool) (t : Bytes) (hc : c ≠ DQ)
    (hu : unquoteChar (c :: rest) DQ = some (r, mb, t)) :
    special (outBytes r mb) + special t ≤ special (c :: rest) := by
  by_cases hbs : c = BS
  · subst hbs
    cases rest with
    | nil =>
      unfold unquoteChar at hu
      simp only [] at hu
      rw [if_neg (by decide), if_neg (by decide), if_neg (by decide)] at hu
      cases hu
    | cons c1 s2 =>
      obtain ⟨n, rfl⟩ := unquoteChar_BS_tail c1 s2 r mb t hu
      have h1 := special_outBytes_le r mb
      have h2 := special_drop_le n s2
      rw [special_BS_cons, special_cons]
      omega
  · by_cases hge : c.toNat ≥ 0x80
    · unfold unquoteChar at hu
      simp only [] at hu
      rw [if_neg (by simp [hc]), if_pos hge] at hu
      cases hd : decodeRune (c :: rest) with
      | mk r' w =>
        rw [hd] at hu
        simp only [Option.some.injEq, Prod.mk.injEq] at hu
        obtain ⟨rfl, rfl, rfl⟩ := hu
        have hr : 0x80 ≤ r' := by
          by_cases hne : (w = 1 ∧ r' = runeError)
          · rw [hne.2]; decide
          · exact (decode_valid c rest hge r' w hd hne).1
        have ho : special (outBytes r' true) = 0 := by
          unfold outBytes
          rw [if_neg (by simp; omega)]
          exact special_eq_zero _ (encodeRune_ne r' (by omega) (by omega))
        have := special_drop_le w (c :: rest)
        omega
    · unfold unquoteChar at hu
      simp only [] at hu
      rw [if_neg (by simp [hc]), if_neg hge, if_pos (by simpa using hbs)] at hu
      simp only [Option.some.injEq, Prod.mk.injEq] at hu
      obtain ⟨rfl, rfl, rfl⟩ := hu
      have : outBytes c.toNat false = [c] := by simp [outBytes, b_toNat]
      rw [this, special_cons c rest, special_cons c [], special_nil]
      omega

/-- the slow path of `Unquote` for a double-quoted text: what comes out (plus what is left) holds fewer backslashes and
double quotes than what went in — the closing quote alone accounts for one -/
theorem loop_special : ∀ (fuel : Nat) (s acc out rem : Bytes),
    unquote.loop DQ fuel s acc = some (out, rem) → special out + special rem + 1 ≤ special acc + special s := by
  intro fuel
  induction fuel with
  | zero => intro s acc out rem h; simp [unquote.loop] at h
  | succ k ih =>
    intro s acc out rem h
    cases s with
    | nil => simp [unquote.loop] at h
    | cons c tl =>
      by_cases hc : c = DQ
      · subst hc
        rw [unquote.loop.eq_3, if_pos (by simp)] at h
        simp only [Option.some.injEq, Prod.mk.injEq, List.drop_succ_cons, List.drop_zero] at h
        obtain ⟨rfl, rfl⟩ := h
        rw [special_DQ_cons]; omega
      · cases hu : unquoteChar (c :: tl) DQ with
        | none => rw [unquote.loop.eq_3, if_neg (by simpa using hc), hu] at h; cases h
        | some x =>
          obtain ⟨r, mb, t⟩ := x
          by_cases h10 : c = 10
          · rw [unquote.loop.eq_3, if_neg (by simpa using hc), hu] at h
            simp only [] at h
            rw [if_pos (by simpa using h10)] at h; cases h
          · rw [loop_step k c tl t acc r mb hc h10 hu] at h
            have := ih t (acc ++ outBytes r mb) out rem h
            have hs := step_special c tl r mb t hc hu
            rw [special_append] at this
            omega

theorem indexOf_drop (s : Bytes) (c : UInt8) (e : Nat) (h : indexOf s c = some e) : ∃ tl, s.drop e = c :: tl := by
  unfold indexOf at h
  simp only [] at h
  split at h
  · rename_i hlt
    cases h
    have hp := List.findIdx_getElem (p := (· == c)) (xs := s) (w := hlt)
    have hc : s[List.findIdx (· == c) s] = c := by simpa using hp
    refine ⟨s.drop (List.findIdx (· == c) s + 1), ?_⟩
    rw [List.drop_eq_getElem_cons hlt, hc]
  · cases h

theorem ite_some {α : Type} (c : Prop) [Decidable c] (a b : Option α) (x : α) (h : (if c then a else b) = some x) :
    a = some x ∨ b = some x := by
  split at h
  · exact Or.inl h
  · exact Or.inr h

/-- **`Unquote` of a double-quoted text loses at least the two quotes**, counted in backslashes and double quotes -/
theorem unquote_DQ_special (rest1 out : Bytes) (h : unquote (DQ :: rest1) = some out) :
    special out + 2 ≤ special (DQ :: rest1) := by
  unfold unquote at h
  simp only [] at h
  rcases ite_some _ _ _ _ h with h | h
  · cases h
  · cases hi : indexOf rest1 DQ with
    | none => rw [hi] at h; cases h
    | some e =>
      rw [hi] at h
      simp only [] at h
      rw [if_neg (by decide), if_pos (by decide)] at h
      obtain ⟨tl, htl⟩ := indexOf_drop rest1 DQ e hi
      rcases ite_some _ _ _ _ h with h | h
      · -- fast path
        rcases ite_some _ _ _ _ h with h | h
        · cases h
          simp only [List.drop_succ_cons, List.drop_zero, Nat.add_sub_cancel]
          have := special_append (rest1.take e) (rest1.drop e)
          rw [List.take_append_drop, htl, special_DQ_cons] at this
          rw [special_DQ_cons]; omega
        · cases h
      · -- slow path
        simp only [List.drop_succ_cons, List.drop_zero] at h
        cases hl : unquote.loop DQ ((DQ :: rest1).length + 1) rest1 [] with
        | none => rw [hl] at h; cases h
        | some x =>
          obtain ⟨o, rem⟩ := x
          rw [hl] at h
          simp only [] at h
          rcases ite_some _ _ _ _ h with h | h
          · cases h
            have := loop_special _ _ _ _ _ hl
            rw [special_DQ_cons, special_nil] at *
            omega
          · cases h

/-- `Unquote` of a back-quoted text is at least two bytes shorter -/
theorem unquote_BQ_length (rest1 out : Bytes) (h : unquote (BQ :: rest1) = some out) :
    out.length + 2 ≤ (BQ :: rest1).length := by
  unfold unquote at h
  simp only [] at h
  rcases ite_some _ _ _ _ h with h | h
  · cases h
  · cases hi : indexOf rest1 BQ with
    | none => rw [hi] at h; cases h
    | some e =>
      rw [hi] at h
      simp only [] at h
      rw [if_pos (by decide)] at h
      rcases ite_some _ _ _ _ h with h | h
      · cases h
      · cases h
        have h1 := List.length_filter_le (fun x : UInt8 => x != 13) (List.take (e + 2 - 2) (List.drop 1 (BQ :: rest1)))
        have h2 : (List.take (e + 2 - 2) (List.drop 1 (BQ :: rest1))).length ≤ e := by
          rw [List.length_take]; omega
        have h3 : e < rest1.length := by
          unfold indexOf at hi
          simp only [] at hi
          split at hi
          · rename_i hlt; cases hi; exact hlt
          · cases hi
        simp only [List.length_cons]
        omega

theorem special_reverse (l : Bytes) : special l.reverse = special l := by
  unfold special; rw [List.filter_reverse, List.length_reverse]

theorem special_dropWhile_le (p : UInt8 → Bool) (l : Bytes) : special (l.dropWhile p) ≤ special l := by
  obtain ⟨t, ht⟩ := List.dropWhile_suffix (l := l) p
  have := special_append t (l.dropWhile p)
  rw [ht] at this; omega

theorem special_trimSpaces_le (v : Bytes) : special (trimSpaces v) ≤ special v := by
  unfold trimSpaces
  rw [special_reverse]
  have h1 := special_dropWhile_le (· == SP) (List.dropWhile (· == SP) v).reverse
  rw [special_reverse] at h1
  have h2 := special_dropWhile_le (· == SP) v
  omega

theorem length_trimSpaces_le (v : Bytes) : (trimSpaces v).length ≤ v.length := by
  unfold trimSpaces
  rw [List.length_reverse]
  have h1 := (List.dropWhile_suffix (l := (List.dropWhile (· == SP) v).reverse) (· == SP)).length_le
  have h2 := (List.dropWhile_suffix (l := v) (· == SP)).length_le
  rw [List.length_reverse] at h1
  omega

/-- **`strconv.Unquote` has no fixed point**, not even up to surrounding blanks: if the trimmed text `w` of `v` starts with
a double quote or a backquote, `Unquote w` is never `v` (what `kvstring.ToMap` would need to read an unquoted `v` back) -/
theorem unquote_trim_ne (v : Bytes) (h : (trimSpaces v).head? = some DQ ∨ (trimSpaces v).head? = some BQ) :
    unquote (trimSpaces v) ≠ some v := by
  intro hu
  rcases h with h | h
  · cases hw : trimSpaces v with
    | nil => rw [hw] at h; cases h
    | cons c r =>
      rw [hw] at h hu
      simp only [List.head?_cons, Option.some.injEq] at h
      subst h
      have h1 := unquote_DQ_special r v hu
      have h2 := special_trimSpaces_le v
      rw [hw] at h2
      omega
  · cases hw : trimSpaces v with
    | nil => rw [hw] at h; cases h
    | cons c r =>
      rw [hw] at h hu
      simp only [List.head?_cons, Option.some.injEq] at h
      subst h
      have h1 := unquote_BQ_length r v hu
      have h2 := length_trimSpaces_le v
      rw [hw] at h2
      omega

theorem unquote_ne_self (v : Bytes) (h : v.head? = some DQ ∨ v.head? = some BQ) : unquote v ≠ some v := by
  intro hu
  rcases h with h | h
  · cases v with
    | nil => cases h
    | cons c r =>
      simp only [List.head?_cons, Option.some.injEq] at h
      subst h
      have := unquote_DQ_special r _ hu
      omega
  · cases v with
    | nil => cases h
    | cons c r =>
      simp only [List.head?_cons, Option.some.injEq] at h
      subst h
      have := unquote_BQ_length r _ hu
      omega

end Logrange.Proofs.UnquoteFix
