import Logrange.Model.DateLineParser
/-!
# The collector's line parser never skips a time-stamped line while undated runs stay below the threshold

Invariant of `lpStepA` over a file: not skipping, the failure counter is at most the length of the current run of
undated lines, and it is 0 whenever a format is remembered. Needs the counter reset in the detection branch
(`cfg.resetOnDetect`, a fact read from the source).
-/
namespace Logrange.Date

def LRec.isDated : LRec → Bool
  | .dated _ _ => true
  | .carried _ => false

/-- a line some format of the list dates -/
def LineAns.findable (a : LineAns) : Bool := (a.full ()).isSome

/-- every run of consecutive unfindable lines (the current one has length `r` so far) stays below `maxFail` -/
def okRuns (maxFail : Nat) : Nat → List LineAns → Bool
  | _, [] => true
  | r, a :: rest => if a.findable then okRuns maxFail 0 rest else decide (r + 1 < maxFail) && okRuns maxFail (r + 1) rest

/-- if the remembered format dates a line then the full parser finds a format for it too (it contains that format) -/
def consistent (as : List LineAns) : Prop := ∀ a ∈ as, ∀ i c, a.fast i = some c → a.findable = true

/-- every findable line got a record with its own date -/
def headersDated : List LineAns → List LRec → Bool
  | [], [] => true
  | a :: as, r :: rs => (!a.findable || r.isDated) && headersDated as rs
  | _, _ => false

structure LPInv (r : Nat) (lp : LP) : Prop where
  parsing : lp.skipping = false
  cnt : lp.cnt ≤ r
  cur : lp.cur.isSome = true → lp.cnt = 0

theorem lp_headers_dated (cfg : LPCfg) (hreset : cfg.resetOnDetect = true) :
    ∀ (as : List LineAns) (r : Nat) (lp : LP), LPInv r lp → okRuns cfg.maxFail r as = true → consistent as →
      headersDated as (lpRun cfg lp as) = true
  | [], _, _, _, _, _ => rfl
  | a :: rest, r, lp, hinv, hruns, hcons => by
    obtain ⟨hpar, hcnt, hcur⟩ := hinv
    have hcons' : consistent rest := fun x hx => hcons x (List.mem_cons_of_mem _ hx)
    simp only [lpRun, headersDated, Bool.and_eq_true]
    simp only [okRuns] at hruns
    cases hfast : lp.cur.bind (fun i => (a.fast i).map (fun c => (i, c))) with
    | some ic =>
      obtain ⟨i, c⟩ := ic
      -- fast path: the line is findable (consistency); counter stays 0
      have hcs : lp.cur.isSome = true := by
        cases hc : lp.cur with
        | none => rw [hc] at hfast; simp at hfast
        | some _ => rfl
      have hfind : a.findable = true := by
        cases hc : lp.cur with
        | none => rw [hc] at hfast; simp at hfast
        | some j =>
          rw [hc] at hfast
          simp only [Option.bind_some, Option.map_eq_some_iff] at hfast
          obtain ⟨c', hc', _⟩ := hfast
          exact hcons a (List.mem_cons_self ..) j c' hc'
      simp only [hfind, if_true] at hruns
      have hstep : lpStepA cfg lp a = (lpFast cfg lp c, .dated i c) := by simp [lpStepA, hfast]
      rw [hstep]
      refine ⟨by simp [LRec.isDated], ?_⟩
      have hc0 := hcur hcs
      refine lp_headers_dated cfg hreset rest 0 _ ⟨?_, ?_, ?_⟩ hruns hcons'
      · simp [lpFast, hpar]
      · simp only [lpFast]; split <;> omega
      · intro _; simp only [lpFast]; split <;> omega
    | none =>
      have hstep : lpStepA cfg lp a = lpSlow cfg lp (a.full ()) := by simp [lpStepA, hfast, hpar]
      rw [hstep]
      cases hfull : a.full () with
      | some ic =>
        obtain ⟨i, c⟩ := ic
        have hfind : a.findable = true := by simp [LineAns.findable, hfull]
        simp only [hfind, if_true] at hruns
        have hs : lpSlow cfg lp (some (i, c)) =
            ({ lp with cur := some i, last := if cfg.lastOnDetect then some c else lp.last,
                       maxSkip := if cfg.maxSkipOnDetect == 0 then lp.maxSkip else cfg.maxSkipOnDetect, cnt := 0 }, .dated i c) := by
          simp [lpSlow, hpar, hreset]
        rw [hs]
        refine ⟨by simp [LRec.isDated], ?_⟩
        exact lp_headers_dated cfg hreset rest 0 _ ⟨hpar, Nat.le_refl 0, fun _ => rfl⟩ hruns hcons'
      | none =>
        have hfind : a.findable = false := by simp [LineAns.findable, hfull]
        simp only [hfind, Bool.false_eq_true, if_false, Bool.and_eq_true, decide_eq_true_eq] at hruns
        obtain ⟨hlt, hruns⟩ := hruns
        have hnot : ¬ (lp.cnt + 1 ≥ cfg.maxFail) := by omega
        have hs : lpSlow cfg lp none = ({ lp with cur := none, cnt := lp.cnt + 1 }, .carried lp.last) := by
          simp [lpSlow, hpar, hnot]
        rw [hs]
        refine ⟨by simp [hfind], ?_⟩
        exact lp_headers_dated cfg hreset rest (r + 1) _ ⟨hpar, by simp; omega, fun h => by simp at h⟩ hruns hcons'

theorem lpInv_init (cfg : LPCfg) : LPInv 0 (LP.init cfg) := ⟨rfl, Nat.le_refl 0, fun h => by simp [LP.init] at h⟩

end Logrange.Date
