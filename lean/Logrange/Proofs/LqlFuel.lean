import Logrange.Proofs.LqlEngineTop
/-!
# C12: the fuel of the direct LQL parsers always suffices, and the AST they return is small

* Part B (first, because the remainder lemmas follow from it): every direct parser returns an AST whose conversion
  measure (`cvIdent`/`cvExpr`/…, the fuel of the Val→AST conversion in `Proofs/LqlEngineTop.lean`) is bounded by the
  number of tokens it consumed: 2 units per token for identifiers, 3 per token for expressions
  (`dExpr_cv3 : cvExpr e + 3·|r| ≤ 3·|toks|`), hence `directExpr_cv : cvExpr e ≤ 8·|toks| + 50`.
* Part A.1: remainders are shorter than the input (strictly for the non-list parsers).
* Part A.2: fuel independence: with rank constants `4·|toks| + k` (k = 1 for `dIdent`, `dIdentTail`, `dCond`,
  `dAndTail`, `dOrTail`; 2 `dXBody`; 3 `dX`; 4 `dOr`; 5 `dExpr`) every recursive call goes to a strictly smaller
  bound, so two fuels above the bound give the same result (simultaneous induction on one of the fuels). As
  `directFuel toks = 4·|toks| + 16` dominates every rank and statement parsers hand their fuel only to suffixes of their
  input, `directLqlFuel dp f toks` does not depend on `f` once `directFuel toks ≤ f`.
* Corollaries: `directLql dp (toksLql rd l) = some l` and `directExpr (toksExpr e) = some e` at the *fixed* fuel the
  models use.
-/
namespace Logrange.Lql

/-! ## Part B: conversion measure vs consumed tokens -/

theorem ident_cv_all : ∀ f : Nat,
    (∀ toks i r, dIdent f toks = some (i, r) → cvIdent i + 2 * r.length ≤ 2 * toks.length) ∧
    (∀ toks is r, dIdentTail f toks = some (is, r) → cvIdents is + 2 * r.length ≤ 2 * toks.length + 1) := by
  intro f
  induction f with
  | zero => constructor <;> intro toks _ _ h <;> simp [dIdent, dIdentTail] at h
  | succ f ih =>
    obtain ⟨ihI, ihT⟩ := ih
    constructor
    · intro toks i r h
      cases toks with
      | nil => simp [dIdent] at h
      | cons tk rest =>
        by_cases hop : isOperandTok tk = true
        · cases rest with
          | nil =>
            simp [dIdent, hop] at h
            obtain ⟨rfl, rfl⟩ := h
            simp [cvIdent, cvIdents]
          | cons p rest' =>
            by_cases hp : litMatch p LP = true
            · cases h1 : dIdent f rest' with
              | none => simp [dIdent, hop, hp, h1] at h
              | some pr =>
                obtain ⟨i1, r1⟩ := pr
                cases h2 : dIdentTail f r1 with
                | none => simp [dIdent, hop, hp, h1, h2] at h
                | some pr2 =>
                  obtain ⟨is, r2⟩ := pr2
                  cases r2 with
                  | nil => simp [dIdent, hop, hp, h1, h2] at h
                  | cons q r3 =>
                    by_cases hq : litMatch q RP = true
                    · simp [dIdent, hop, hp, h1, h2, hq] at h
                      obtain ⟨rfl, rfl⟩ := h
                      have a := ihI _ _ _ h1
                      have b := ihT _ _ _ h2
                      simp only [cvIdent, cvIdents, List.length_cons] at *
                      omega
                    · simp [dIdent, hop, hp, h1, h2, hq] at h
            · simp [dIdent, hop, hp] at h
              obtain ⟨rfl, rfl⟩ := h
              simp only [cvIdent, cvIdents, List.length_cons]
              omega
        · simp [dIdent, hop] at h
    · intro toks is r h
      cases toks with
      | nil =>
        simp [dIdentTail] at h
        obtain ⟨rfl, rfl⟩ := h
        simp [cvIdents]
      | cons c rest =>
        by_cases hc : litMatch c COMMA = true
        · cases h1 : dIdent f rest with
          | none => simp [dIdentTail, hc, h1] at h
          | some pr =>
            obtain ⟨i1, r1⟩ := pr
            cases h2 : dIdentTail f r1 with
            | none => simp [dIdentTail, hc, h1, h2] at h
            | some pr2 =>
              obtain ⟨is2, r2⟩ := pr2
              simp [dIdentTail, hc, h1, h2] at h
              obtain ⟨rfl, rfl⟩ := h
              have a := ihI _ _ _ h1
              have b := ihT _ _ _ h2
              simp only [cvIdents, List.length_cons] at *
              omega
        · simp [dIdentTail, hc] at h
          obtain ⟨rfl, rfl⟩ := h
          simp only [cvIdents, List.length_cons]
          omega


theorem dIdent_cv {f : Nat} {toks : List Tok} {i : Ident} {r : List Tok} (h : dIdent f toks = some (i, r)) :
    cvIdent i + 2 * r.length ≤ 2 * toks.length := (ident_cv_all f).1 toks i r h
theorem dIdentTail_cv {f : Nat} {toks : List Tok} {is : IdentList} {r : List Tok} (h : dIdentTail f toks = some (is, r)) :
    cvIdents is + 2 * r.length ≤ 2 * toks.length + 1 := (ident_cv_all f).2 toks is r h

theorem cvIdent_pos (i : Ident) : 1 ≤ cvIdent i := by
  cases i with
  | mk op ps => simp only [cvIdent]; omega
theorem cvExpr_pos (e : Expr) : 1 ≤ cvExpr e := by
  cases e with
  | mk ors => simp only [cvExpr]; omega

theorem dCond_cv {f : Nat} {toks : List Tok} {c : Cond} {r : List Tok} (h : dCond f toks = some (c, r)) :
    cvIdent c.ident + 2 * r.length + 4 ≤ 2 * toks.length := by
  cases h1 : dIdent f toks with
  | none => simp [dCond, h1] at h
  | some pr =>
    obtain ⟨i, r1⟩ := pr
    have a := dIdent_cv h1
    cases r1 with
    | nil => simp [dCond, h1] at h
    | cons o r2 =>
      cases r2 with
      | nil => simp [dCond, h1] at h
      | cons v r3 =>
        by_cases hc : (isOpTok o && isValueTok v) = true
        · simp only [dCond, h1, hc, if_true] at h
          simp only [Option.some.injEq, Prod.mk.injEq] at h
          obtain ⟨rfl, rfl⟩ := h
          simp only [List.length_cons] at a ⊢
          omega
        · simp only [dCond, h1, hc] at h
          simp at h

theorem expr_cv_all : ∀ f : Nat,
    (∀ toks e r, dExpr f toks = some (e, r) → cvExpr e + 3 * r.length ≤ 3 * toks.length) ∧
    (∀ toks os r, dOrTail f toks = some (os, r) → cvOrs os + 3 * r.length ≤ 3 * toks.length + 1) ∧
    (∀ toks o r, dOr f toks = some (o, r) → cvOr o + 3 * r.length + 3 ≤ 3 * toks.length) ∧
    (∀ toks xs r, dAndTail f toks = some (xs, r) → cvXs xs + 3 * r.length ≤ 3 * toks.length + 1) ∧
    (∀ toks x r, dX f toks = some (x, r) → cvX x + 3 * r.length + 5 ≤ 3 * toks.length) ∧
    (∀ neg toks x r, dXBody f neg toks = some (x, r) → cvX x + 3 * r.length + 5 ≤ 3 * toks.length) := by
  intro f
  induction f with
  | zero =>
    refine ⟨?_, ?_, ?_, ?_, ?_, ?_⟩ <;> intros <;> rename_i h <;>
      simp [dExpr, dOrTail, dOr, dAndTail, dX, dXBody] at h
  | succ f ih =>
    obtain ⟨ihE, ihOT, ihO, ihAT, ihX, ihXB⟩ := ih
    refine ⟨?_, ?_, ?_, ?_, ?_, ?_⟩
    · intro toks e r h
      cases h1 : dOr f toks with
      | none => simp [dExpr, h1] at h
      | some pr =>
        obtain ⟨o, r1⟩ := pr
        cases h2 : dOrTail f r1 with
        | none => simp [dExpr, h1, h2] at h
        | some pr2 =>
          obtain ⟨os, r2⟩ := pr2
          simp [dExpr, h1, h2] at h
          obtain ⟨rfl, rfl⟩ := h
          have a := ihO _ _ _ h1
          have b := ihOT _ _ _ h2
          simp only [cvExpr, cvOrs] at *
          omega
    · intro toks os r h
      cases toks with
      | nil =>
        simp [dOrTail] at h
        obtain ⟨rfl, rfl⟩ := h
        simp [cvOrs]
      | cons t rr =>
        by_cases hc : litMatch t kwOR = true
        · cases h1 : dOr f rr with
          | none => simp [dOrTail, hc, h1] at h
          | some pr =>
            obtain ⟨o, r1⟩ := pr
            cases h2 : dOrTail f r1 with
            | none => simp [dOrTail, hc, h1, h2] at h
            | some pr2 =>
              obtain ⟨os2, r2⟩ := pr2
              simp [dOrTail, hc, h1, h2] at h
              obtain ⟨rfl, rfl⟩ := h
              have a := ihO _ _ _ h1
              have b := ihOT _ _ _ h2
              simp only [cvOrs, List.length_cons] at *
              omega
        · simp [dOrTail, hc] at h
          obtain ⟨rfl, rfl⟩ := h
          simp only [cvOrs, List.length_cons]
          omega
    · intro toks o r h
      cases h1 : dX f toks with
      | none => simp [dOr, h1] at h
      | some pr =>
        obtain ⟨x, r1⟩ := pr
        cases h2 : dAndTail f r1 with
        | none => simp [dOr, h1, h2] at h
        | some pr2 =>
          obtain ⟨xs, r2⟩ := pr2
          simp [dOr, h1, h2] at h
          obtain ⟨rfl, rfl⟩ := h
          have a := ihX _ _ _ h1
          have b := ihAT _ _ _ h2
          simp only [cvOr, cvXs] at *
          omega
    · intro toks xs r h
      cases toks with
      | nil =>
        simp [dAndTail] at h
        obtain ⟨rfl, rfl⟩ := h
        simp [cvXs]
      | cons t rr =>
        by_cases hc : litMatch t kwAND = true
        · cases h1 : dX f rr with
          | none => simp [dAndTail, hc, h1] at h
          | some pr =>
            obtain ⟨x, r1⟩ := pr
            cases h2 : dAndTail f r1 with
            | none => simp [dAndTail, hc, h1, h2] at h
            | some pr2 =>
              obtain ⟨xs2, r2⟩ := pr2
              simp [dAndTail, hc, h1, h2] at h
              obtain ⟨rfl, rfl⟩ := h
              have a := ihX _ _ _ h1
              have b := ihAT _ _ _ h2
              simp only [cvXs, List.length_cons] at *
              omega
        · simp [dAndTail, hc] at h
          obtain ⟨rfl, rfl⟩ := h
          simp only [cvXs, List.length_cons]
          omega
    · intro toks x r h
      cases toks with
      | nil => simp [dX] at h
      | cons t rr =>
        by_cases hc : litMatch t kwNOT = true
        · simp only [dX, hc, if_true] at h
          have a := ihXB _ _ _ _ h
          simp only [List.length_cons]
          omega
        · simp only [dX, hc] at h
          exact ihXB _ _ _ _ h
    · intro neg toks x r h
      cases toks with
      | nil => simp [dXBody] at h
      | cons t rr =>
        by_cases hop : isOperandTok t = true
        · cases h1 : dCond f (t :: rr) with
          | none => simp [dXBody, hop, h1] at h
          | some pr =>
            obtain ⟨c, r1⟩ := pr
            simp [dXBody, hop, h1] at h
            obtain ⟨rfl, rfl⟩ := h
            have a := dCond_cv h1
            simp only [cvX, List.length_cons] at *
            omega
        · by_cases hl : litMatch t LP = true
          · cases h1 : dExpr f rr with
            | none => simp [dXBody, hop, hl, h1] at h
            | some pr =>
              obtain ⟨e, r1⟩ := pr
              cases r1 with
              | nil => simp [dXBody, hop, hl, h1] at h
              | cons q r2 =>
                by_cases hq : litMatch q RP = true
                · simp [dXBody, hop, hl, h1, hq] at h
                  obtain ⟨rfl, rfl⟩ := h
                  have a := ihE _ _ _ h1
                  simp only [cvX, List.length_cons] at *
                  omega
                · simp [dXBody, hop, hl, h1, hq] at h
          · simp [dXBody, hop, hl] at h


/-- the tight form: three units per consumed token -/
theorem dExpr_cv3 {f : Nat} {toks : List Tok} {e : Expr} {r : List Tok} (h : dExpr f toks = some (e, r)) :
    cvExpr e + 3 * r.length ≤ 3 * toks.length := (expr_cv_all f).1 toks e r h
theorem dOrTail_cv {f : Nat} {toks : List Tok} {os : OrList} {r : List Tok} (h : dOrTail f toks = some (os, r)) :
    cvOrs os + 3 * r.length ≤ 3 * toks.length + 1 := (expr_cv_all f).2.1 toks os r h
theorem dOr_cv {f : Nat} {toks : List Tok} {o : OrCond} {r : List Tok} (h : dOr f toks = some (o, r)) :
    cvOr o + 3 * r.length + 3 ≤ 3 * toks.length := (expr_cv_all f).2.2.1 toks o r h
theorem dAndTail_cv {f : Nat} {toks : List Tok} {xs : XList} {r : List Tok} (h : dAndTail f toks = some (xs, r)) :
    cvXs xs + 3 * r.length ≤ 3 * toks.length + 1 := (expr_cv_all f).2.2.2.1 toks xs r h
theorem dX_cv {f : Nat} {toks : List Tok} {x : XCond} {r : List Tok} (h : dX f toks = some (x, r)) :
    cvX x + 3 * r.length + 5 ≤ 3 * toks.length := (expr_cv_all f).2.2.2.2.1 toks x r h
theorem dXBody_cv {f : Nat} {neg : Bool} {toks : List Tok} {x : XCond} {r : List Tok} (h : dXBody f neg toks = some (x, r)) :
    cvX x + 3 * r.length + 5 ≤ 3 * toks.length := (expr_cv_all f).2.2.2.2.2 neg toks x r h

theorem dExpr_cv {f : Nat} {toks : List Tok} {e : Expr} {r : List Tok} (h : dExpr f toks = some (e, r)) :
    cvExpr e + 8 * r.length ≤ 8 * toks.length + 8 := by
  have a := dExpr_cv3 h
  omega

/-! ## remainders -/

theorem dIdent_rest_lt {f : Nat} {toks : List Tok} {i : Ident} {r : List Tok} (h : dIdent f toks = some (i, r)) :
    r.length < toks.length := by
  have a := dIdent_cv h
  have b := cvIdent_pos i
  omega
theorem dIdentTail_rest_le {f : Nat} {toks : List Tok} {is : IdentList} {r : List Tok} (h : dIdentTail f toks = some (is, r)) :
    r.length ≤ toks.length := by
  have a := dIdentTail_cv h
  omega
theorem dCond_rest_lt {f : Nat} {toks : List Tok} {c : Cond} {r : List Tok} (h : dCond f toks = some (c, r)) :
    r.length < toks.length := by
  have a := dCond_cv h
  omega
theorem dExpr_rest_lt {f : Nat} {toks : List Tok} {e : Expr} {r : List Tok} (h : dExpr f toks = some (e, r)) :
    r.length < toks.length := by
  have a := dExpr_cv3 h
  have b := cvExpr_pos e
  omega
theorem dOrTail_rest_le {f : Nat} {toks : List Tok} {os : OrList} {r : List Tok} (h : dOrTail f toks = some (os, r)) :
    r.length ≤ toks.length := by
  have a := dOrTail_cv h
  omega
theorem dOr_rest_lt {f : Nat} {toks : List Tok} {o : OrCond} {r : List Tok} (h : dOr f toks = some (o, r)) :
    r.length < toks.length := by
  have a := dOr_cv h
  omega
theorem dAndTail_rest_le {f : Nat} {toks : List Tok} {xs : XList} {r : List Tok} (h : dAndTail f toks = some (xs, r)) :
    r.length ≤ toks.length := by
  have a := dAndTail_cv h
  omega
theorem dX_rest_lt {f : Nat} {toks : List Tok} {x : XCond} {r : List Tok} (h : dX f toks = some (x, r)) :
    r.length < toks.length := by
  have a := dX_cv h
  omega
theorem dXBody_rest_lt {f : Nat} {neg : Bool} {toks : List Tok} {x : XCond} {r : List Tok}
    (h : dXBody f neg toks = some (x, r)) : r.length < toks.length := by
  have a := dXBody_cv h
  omega
theorem dSource_rest_lt {f : Nat} {toks : List Tok} {s : Source} {r : List Tok} (h : dSource f toks = some (s, r)) :
    r.length < toks.length := by
  cases toks with
  | nil => simp [dSource] at h
  | cons t rr =>
    by_cases ht : (t.t == TT.tags) = true
    · simp only [dSource, ht, if_true] at h
      cases hm : KV.tagParse t.v with
      | none => simp [hm] at h
      | some m =>
        simp [hm] at h
        obtain ⟨_, rfl⟩ := h
        simp
    · simp only [dSource, ht] at h
      cases h1 : dExpr f (t :: rr) with
      | none => simp [h1] at h
      | some pr =>
        obtain ⟨e, r1⟩ := pr
        simp [h1] at h
        obtain ⟨_, rfl⟩ := h
        exact dExpr_rest_lt h1

/-! ## fuel independence (expression level) -/

theorem ident_indep_all : ∀ f : Nat,
    (∀ f' toks, 4 * toks.length + 1 ≤ f → 4 * toks.length + 1 ≤ f' → dIdent f toks = dIdent f' toks) ∧
    (∀ f' toks, 4 * toks.length + 1 ≤ f → 4 * toks.length + 1 ≤ f' → dIdentTail f toks = dIdentTail f' toks) := by
  intro f
  induction f with
  | zero => constructor <;> intro f' toks h _ <;> omega
  | succ f ih =>
    obtain ⟨ihI, ihT⟩ := ih
    constructor
    · intro f' toks hf hf'
      obtain ⟨g, rfl⟩ : ∃ g, f' = g + 1 := ⟨f' - 1, by omega⟩
      cases toks with
      | nil => simp [dIdent]
      | cons tk rest =>
        cases rest with
        | nil => simp [dIdent]
        | cons p rest' =>
          simp only [List.length_cons] at hf hf'
          simp only [dIdent]
          rw [ihI g rest' (by omega) (by omega)]
          cases h1 : dIdent g rest' with
          | none => rfl
          | some pr =>
            obtain ⟨i1, r1⟩ := pr
            have l1 := dIdent_rest_lt h1
            simp only []
            rw [ihT g r1 (by omega) (by omega)]
    · intro f' toks hf hf'
      obtain ⟨g, rfl⟩ : ∃ g, f' = g + 1 := ⟨f' - 1, by omega⟩
      cases toks with
      | nil => simp [dIdentTail]
      | cons c rest =>
        simp only [List.length_cons] at hf hf'
        simp only [dIdentTail]
        rw [ihI g rest (by omega) (by omega)]
        cases h1 : dIdent g rest with
        | none => rfl
        | some pr =>
          obtain ⟨i1, r1⟩ := pr
          have l1 := dIdent_rest_lt h1
          simp only []
          rw [ihT g r1 (by omega) (by omega)]


theorem dCond_indep {f f' : Nat} {toks : List Tok} (h : 4 * toks.length + 1 ≤ f) (h' : 4 * toks.length + 1 ≤ f') :
    dCond f toks = dCond f' toks := by
  simp only [dCond]
  rw [(ident_indep_all f).1 f' toks h h']

theorem expr_indep_all : ∀ f : Nat,
    (∀ f' toks, 4 * toks.length + 5 ≤ f → 4 * toks.length + 5 ≤ f' → dExpr f toks = dExpr f' toks) ∧
    (∀ f' toks, 4 * toks.length + 1 ≤ f → 4 * toks.length + 1 ≤ f' → dOrTail f toks = dOrTail f' toks) ∧
    (∀ f' toks, 4 * toks.length + 4 ≤ f → 4 * toks.length + 4 ≤ f' → dOr f toks = dOr f' toks) ∧
    (∀ f' toks, 4 * toks.length + 1 ≤ f → 4 * toks.length + 1 ≤ f' → dAndTail f toks = dAndTail f' toks) ∧
    (∀ f' toks, 4 * toks.length + 3 ≤ f → 4 * toks.length + 3 ≤ f' → dX f toks = dX f' toks) ∧
    (∀ f' neg toks, 4 * toks.length + 2 ≤ f → 4 * toks.length + 2 ≤ f' → dXBody f neg toks = dXBody f' neg toks) := by
  intro f
  induction f with
  | zero => refine ⟨?_, ?_, ?_, ?_, ?_, ?_⟩ <;> intros <;> omega
  | succ f ih =>
    obtain ⟨ihE, ihOT, ihO, ihAT, ihX, ihXB⟩ := ih
    refine ⟨?_, ?_, ?_, ?_, ?_, ?_⟩
    · intro f' toks hf hf'
      obtain ⟨g, rfl⟩ : ∃ g, f' = g + 1 := ⟨f' - 1, by omega⟩
      simp only [dExpr]
      rw [ihO g toks (by omega) (by omega)]
      cases h1 : dOr g toks with
      | none => rfl
      | some pr =>
        obtain ⟨o, r1⟩ := pr
        have l1 := dOr_rest_lt h1
        simp only []
        rw [ihOT g r1 (by omega) (by omega)]
    · intro f' toks hf hf'
      obtain ⟨g, rfl⟩ : ∃ g, f' = g + 1 := ⟨f' - 1, by omega⟩
      cases toks with
      | nil => simp [dOrTail]
      | cons t rr =>
        simp only [List.length_cons] at hf hf'
        simp only [dOrTail]
        rw [ihO g rr (by omega) (by omega)]
        cases h1 : dOr g rr with
        | none => rfl
        | some pr =>
          obtain ⟨o, r1⟩ := pr
          have l1 := dOr_rest_lt h1
          simp only []
          rw [ihOT g r1 (by omega) (by omega)]
    · intro f' toks hf hf'
      obtain ⟨g, rfl⟩ : ∃ g, f' = g + 1 := ⟨f' - 1, by omega⟩
      simp only [dOr]
      rw [ihX g toks (by omega) (by omega)]
      cases h1 : dX g toks with
      | none => rfl
      | some pr =>
        obtain ⟨x, r1⟩ := pr
        have l1 := dX_rest_lt h1
        simp only []
        rw [ihAT g r1 (by omega) (by omega)]
    · intro f' toks hf hf'
      obtain ⟨g, rfl⟩ : ∃ g, f' = g + 1 := ⟨f' - 1, by omega⟩
      cases toks with
      | nil => simp [dAndTail]
      | cons t rr =>
        simp only [List.length_cons] at hf hf'
        simp only [dAndTail]
        rw [ihX g rr (by omega) (by omega)]
        cases h1 : dX g rr with
        | none => rfl
        | some pr =>
          obtain ⟨x, r1⟩ := pr
          have l1 := dX_rest_lt h1
          simp only []
          rw [ihAT g r1 (by omega) (by omega)]
    · intro f' toks hf hf'
      obtain ⟨g, rfl⟩ : ∃ g, f' = g + 1 := ⟨f' - 1, by omega⟩
      cases toks with
      | nil => simp [dX]
      | cons t rr =>
        simp only [List.length_cons] at hf hf'
        simp only [dX]
        rw [ihXB g true rr (by omega) (by omega), ihXB g false (t :: rr) (by simp only [List.length_cons]; omega)
          (by simp only [List.length_cons]; omega)]
    · intro f' neg toks hf hf'
      obtain ⟨g, rfl⟩ : ∃ g, f' = g + 1 := ⟨f' - 1, by omega⟩
      cases toks with
      | nil => simp [dXBody]
      | cons t rr =>
        simp only [List.length_cons] at hf hf'
        simp only [dXBody]
        rw [ihE g rr (by omega) (by omega),
          dCond_indep (f := f) (f' := g) (toks := t :: rr) (by simp only [List.length_cons]; omega)
            (by simp only [List.length_cons]; omega)]


theorem dIdent_fuel_indep (toks : List Tok) (f f' : Nat) (h : directFuel toks ≤ f) (h' : directFuel toks ≤ f') :
    dIdent f toks = dIdent f' toks := by
  simp only [directFuel] at h h'
  exact (ident_indep_all f).1 f' toks (by omega) (by omega)

theorem dCond_fuel_indep (toks : List Tok) (f f' : Nat) (h : directFuel toks ≤ f) (h' : directFuel toks ≤ f') :
    dCond f toks = dCond f' toks := by
  simp only [directFuel] at h h'
  exact dCond_indep (by omega) (by omega)

theorem dExpr_fuel_indep (toks : List Tok) (f f' : Nat) (h : directFuel toks ≤ f) (h' : directFuel toks ≤ f') :
    dExpr f toks = dExpr f' toks := by
  simp only [directFuel] at h h'
  exact (expr_indep_all f).1 f' toks (by omega) (by omega)

theorem dSource_fuel_indep (toks : List Tok) (f f' : Nat) (h : directFuel toks ≤ f) (h' : directFuel toks ≤ f') :
    dSource f toks = dSource f' toks := by
  cases toks with
  | nil => simp [dSource]
  | cons t r =>
    simp only [dSource]
    rw [dExpr_fuel_indep (t :: r) f f' h h']

theorem dOptSource_fuel_indep (toks : List Tok) (f f' : Nat) (h : directFuel toks ≤ f) (h' : directFuel toks ≤ f') :
    dOptSource f toks = dOptSource f' toks := by
  cases toks with
  | nil => simp [dOptSource]
  | cons t r =>
    simp only [dOptSource]
    rw [dExpr_fuel_indep (t :: r) f f' h h']

/-! ## statement level -/

theorem directFuel_mono {r toks : List Tok} (h : r.length ≤ toks.length) : directFuel r ≤ directFuel toks := by
  simp only [directFuel]; omega

theorem dKwClause_congr {α : Type} (kw : Bytes) (b b' : List Tok → Option (α × List Tok)) (n : Nat)
    (hb : ∀ r, r.length ≤ n → b r = b' r) (toks : List Tok) (hn : toks.length ≤ n) :
    dKwClause kw b toks = dKwClause kw b' toks := by
  cases toks with
  | nil => simp [dKwClause]
  | cons t r =>
    simp only [List.length_cons] at hn
    simp only [dKwClause]
    rw [hb r (by omega)]

theorem dKwClause_rest_le {α : Type} (kw : Bytes) (b : List Tok → Option (α × List Tok))
    (hb : ∀ r a r', b r = some (a, r') → r'.length ≤ r.length) {toks : List Tok} {a : Option α} {r' : List Tok}
    (h : dKwClause kw b toks = some (a, r')) : r'.length ≤ toks.length := by
  cases toks with
  | nil =>
    simp [dKwClause] at h
    obtain ⟨_, rfl⟩ := h
    simp
  | cons t r =>
    by_cases hk : litMatch t kw = true
    · cases h1 : b r with
      | none => simp [dKwClause, hk, h1] at h
      | some pr =>
        obtain ⟨x, r1⟩ := pr
        simp [dKwClause, hk, h1] at h
        obtain ⟨_, rfl⟩ := h
        have := hb _ _ _ h1
        simp only [List.length_cons]
        omega
    · simp [dKwClause, hk] at h
      obtain ⟨_, rfl⟩ := h
      simp

theorem dOptFormat_rest_le (toks : List Tok) : (dOptFormat toks).2.length ≤ toks.length := by
  cases toks with
  | nil => simp [dOptFormat]
  | cons t r =>
    simp only [dOptFormat]
    split <;> simp

theorem dOptLit_rest_le (kw : Bytes) (toks : List Tok) : (dOptLit kw toks).2.length ≤ toks.length := by
  cases toks with
  | nil => simp [dOptLit]
  | cons t r =>
    simp only [dOptLit]
    split <;> simp

theorem dDryRun_rest_le (toks : List Tok) : (dDryRun toks).2.length ≤ toks.length := by
  cases toks with
  | nil => simp [dDryRun]
  | cons t r =>
    simp only [dDryRun]
    split <;> simp

theorem dOptDate_rest_le (dp : Bytes → Option Int) {toks : List Tok} {a : Option Int} {r' : List Tok}
    (h : dOptDate dp toks = some (a, r')) : r'.length ≤ toks.length := by
  cases toks with
  | nil =>
    simp [dOptDate] at h
    obtain ⟨_, rfl⟩ := h
    simp
  | cons s r =>
    by_cases hs : (s.t == TT.string) = true
    · cases hd : dp s.v with
      | none => simp [dOptDate, hs, hd] at h
      | some v =>
        simp [dOptDate, hs, hd] at h
        obtain ⟨_, rfl⟩ := h
        simp
    · simp [dOptDate, hs] at h
      obtain ⟨_, rfl⟩ := h
      simp

theorem dRangeTail_rest_le (dp : Bytes → Option Int) {toks : List Tok} {a : Option Int} {r' : List Tok}
    (h : dRangeTail dp toks = some (a, r')) : r'.length ≤ toks.length := by
  cases toks with
  | nil =>
    simp [dRangeTail] at h
    obtain ⟨_, rfl⟩ := h
    simp
  | cons c r =>
    by_cases hc : litMatch c kwCOLON = true
    · cases r with
      | nil => simp [dRangeTail, hc] at h
      | cons s r2 =>
        cases r2 with
        | nil => simp [dRangeTail, hc] at h
        | cons q r3 =>
          by_cases hq : (s.t == TT.string && litMatch q kwRBR) = true
          · cases hd : dp s.v with
            | none => simp only [dRangeTail, hc, hq, hd, if_true] at h; simp at h
            | some v =>
              simp only [dRangeTail, hc, hq, hd, if_true] at h
              simp at h
              obtain ⟨_, rfl⟩ := h
              simp only [List.length_cons]
              omega
          · simp only [dRangeTail, hc, hq, if_true] at h
            simp at h
    · simp [dRangeTail, hc] at h
      obtain ⟨_, rfl⟩ := h
      simp

theorem dRangeBody_rest_le (dp : Bytes → Option Int) (toks : List Tok) (a : Range) (r' : List Tok)
    (h : dRangeBody dp toks = some (a, r')) : r'.length ≤ toks.length := by
  have l0 := dOptLit_rest_le kwLBR toks
  cases h1 : dOptDate dp (dOptLit kwLBR toks).2 with
  | none => simp [dRangeBody, h1] at h
  | some pr =>
    obtain ⟨p1, t2⟩ := pr
    have l1 := dOptDate_rest_le dp h1
    cases h2 : dRangeTail dp t2 with
    | none => simp [dRangeBody, h1, h2] at h
    | some pr2 =>
      obtain ⟨p2, t3⟩ := pr2
      have l2 := dRangeTail_rest_le dp h2
      simp only [dRangeBody, h1, h2] at h
      split at h
      · simp at h
      · split at h
        · simp at h
        · simp only [Option.some.injEq, Prod.mk.injEq] at h
          obtain ⟨_, rfl⟩ := h
          omega


theorem dSelectBody_congr (dp : Bytes → Option Int) (f f' n : Nat)
    (hS : ∀ r : List Tok, r.length ≤ n → dSource f r = dSource f' r)
    (hE : ∀ r : List Tok, r.length ≤ n → dExpr f r = dExpr f' r)
    (toks : List Tok) (hn : toks.length ≤ n) : dSelectBody dp f toks = dSelectBody dp f' toks := by
  have l0 := dOptFormat_rest_le toks
  simp only [dSelectBody]
  rw [dKwClause_congr kwFROM (dSource f) (dSource f') n hS _ (by omega)]
  cases h1 : dKwClause kwFROM (dSource f') (dOptFormat toks).2 with
  | none => rfl
  | some pr =>
    obtain ⟨src, t1⟩ := pr
    have l1 := dKwClause_rest_le kwFROM (dSource f') (fun r a r' h => Nat.le_of_lt (dSource_rest_lt h)) h1
    simp only []
    cases h2 : dKwClause kwRANGE (dRangeBody dp) t1 with
    | none => rfl
    | some pr2 =>
      obtain ⟨rng, t2⟩ := pr2
      have l2 := dKwClause_rest_le kwRANGE (dRangeBody dp) (dRangeBody_rest_le dp) h2
      simp only []
      rw [dKwClause_congr kwWHERE (dExpr f) (dExpr f') n hE t2 (by omega)]

theorem dPipeBody_congr (f f' n : Nat)
    (hS : ∀ r : List Tok, r.length ≤ n → dSource f r = dSource f' r)
    (hE : ∀ r : List Tok, r.length ≤ n → dExpr f r = dExpr f' r)
    (toks : List Tok) (hn : toks.length ≤ n) : dPipeBody f toks = dPipeBody f' toks := by
  cases toks with
  | nil => simp [dPipeBody]
  | cons p r1 =>
    cases r1 with
    | nil => simp [dPipeBody]
    | cons nm r =>
      simp only [List.length_cons] at hn
      simp only [dPipeBody]
      rw [dKwClause_congr kwFROM (dSource f) (dSource f') n hS r (by omega)]
      cases h1 : dKwClause kwFROM (dSource f') r with
      | none => rfl
      | some pr =>
        obtain ⟨src, t1⟩ := pr
        have l1 := dKwClause_rest_le kwFROM (dSource f') (fun r a r' h => Nat.le_of_lt (dSource_rest_lt h)) h1
        simp only []
        rw [dKwClause_congr kwWHERE (dExpr f) (dExpr f') n hE t1 (by omega)]

theorem dTruncBody_congr (dp : Bytes → Option Int) (f f' n : Nat)
    (hO : ∀ r : List Tok, r.length ≤ n → dOptSource f r = dOptSource f' r)
    (toks : List Tok) (hn : toks.length ≤ n) : dTruncBody dp f toks = dTruncBody dp f' toks := by
  have l0 := dDryRun_rest_le toks
  simp only [dTruncBody]
  rw [hO _ (by omega)]

theorem dSrcOffLim_congr (f f' n : Nat)
    (hO : ∀ r : List Tok, r.length ≤ n → dOptSource f r = dOptSource f' r)
    (toks : List Tok) (hn : toks.length ≤ n) : dSrcOffLim f toks = dSrcOffLim f' toks := by
  simp only [dSrcOffLim]
  rw [hO _ hn]

theorem directTruncateFuel_indep (dp : Bytes → Option Int) (toks : List Tok) (f f' : Nat)
    (h : directFuel toks ≤ f) (h' : directFuel toks ≤ f') :
    directTruncateFuel dp f toks = directTruncateFuel dp f' toks := by
  cases toks with
  | nil => simp [directTruncateFuel]
  | cons t r =>
    simp only [directTruncateFuel]
    rw [dTruncBody_congr dp f f' r.length
      (fun q hq => dOptSource_fuel_indep q f f'
        (Nat.le_trans (directFuel_mono (by simp only [List.length_cons]; omega)) h)
        (Nat.le_trans (directFuel_mono (by simp only [List.length_cons]; omega)) h'))
      r (Nat.le_refl _)]

theorem directLqlFuel_indep (dp : Bytes → Option Int) (toks : List Tok) (f f' : Nat)
    (h : directFuel toks ≤ f) (h' : directFuel toks ≤ f') :
    directLqlFuel dp f toks = directLqlFuel dp f' toks := by
  cases toks with
  | nil => simp [directLqlFuel]
  | cons t r =>
    have hS : ∀ q : List Tok, q.length ≤ r.length → dSource f q = dSource f' q := fun q hq =>
      dSource_fuel_indep q f f'
        (Nat.le_trans (directFuel_mono (by simp only [List.length_cons]; omega)) h)
        (Nat.le_trans (directFuel_mono (by simp only [List.length_cons]; omega)) h')
    have hE : ∀ q : List Tok, q.length ≤ r.length → dExpr f q = dExpr f' q := fun q hq =>
      dExpr_fuel_indep q f f'
        (Nat.le_trans (directFuel_mono (by simp only [List.length_cons]; omega)) h)
        (Nat.le_trans (directFuel_mono (by simp only [List.length_cons]; omega)) h')
    have hO : ∀ q : List Tok, q.length ≤ r.length → dOptSource f q = dOptSource f' q := fun q hq =>
      dOptSource_fuel_indep q f f'
        (Nat.le_trans (directFuel_mono (by simp only [List.length_cons]; omega)) h)
        (Nat.le_trans (directFuel_mono (by simp only [List.length_cons]; omega)) h')
    have e1 : dSelectRest dp f r = dSelectRest dp f' r := by
      simp only [dSelectRest]
      rw [dSelectBody_congr dp f f' r.length hS hE r (Nat.le_refl _)]
    have e2 : dTruncateRest dp f r = dTruncateRest dp f' r := by
      simp only [dTruncateRest]
      rw [dTruncBody_congr dp f f' r.length hO r (Nat.le_refl _)]
    have e3 : dShowRest f r = dShowRest f' r := by
      cases r with
      | nil => simp [dShowRest]
      | cons k r' =>
        simp only [dShowRest]
        rw [dSrcOffLim_congr f f' (k :: r').length hO r' (by simp only [List.length_cons]; omega)]
    have e4 : dCreateRest f r = dCreateRest f' r := by
      cases r with
      | nil => simp [dCreateRest]
      | cons k r' =>
        simp only [dCreateRest]
        rw [dPipeBody_congr f f' (k :: r').length hS hE (k :: r') (Nat.le_refl _)]
    simp only [directLqlFuel]
    rw [e1, e2, e3, e4]

/-! ## corollaries -/

theorem directLql_of_fuel (dp : Bytes → Option Int) (toks : List Tok) (f : Nat) (l : Lql)
    (h : directLqlFuel dp f toks = some l) (hf : directFuel toks ≤ f) : directLql dp toks = some l := by
  rw [directLql, directLqlFuel_indep dp toks (directFuel toks) f (Nat.le_refl _) hf]
  exact h

theorem directLql_toksLql (dp : Bytes → Option Int) (rd : Int → Bytes) (l : Lql) (hw : wfLql rd l = true)
    (hc : LqlContract dp rd l) : directLql dp (toksLql rd l) = some l :=
  directLql_of_fuel dp (toksLql rd l) (max (lqlSz l) (directFuel (toksLql rd l))) l
    (directLql_toks dp rd l _ (Nat.le_max_left _ _) hw hc) (Nat.le_max_right _ _)

theorem directExpr_toksExpr (e : Expr) (hw : wfExpr e = true) : directExpr (toksExpr e) = some e := by
  have h1 := dExpr_toks e (max (szExpr e) (directFuel (toksExpr e))) [] (Nat.le_max_left _ _) hw
    (by simp [headNot]) (by simp [headNot])
  rw [List.append_nil] at h1
  rw [directExpr, dExpr_fuel_indep (toksExpr e) (directFuel (toksExpr e)) (max (szExpr e) (directFuel (toksExpr e)))
    (Nat.le_refl _) (Nat.le_max_right _ _), h1]

theorem directExpr_cv (toks : List Tok) (e : Expr) (h : directExpr toks = some e) : cvExpr e ≤ 8 * toks.length + 50 := by
  simp only [directExpr] at h
  split at h
  · rename_i e' h1
    simp only [Option.some.injEq] at h
    subst h
    have a := dExpr_cv3 h1
    simp only [List.length_nil] at a
    omega
  · simp at h

theorem directSource_cv (toks : List Tok) (s : Source) (h : directSource toks = some s) :
    cvSource s ≤ 8 * toks.length + 50 := by
  simp only [directSource] at h
  split at h
  · rename_i s' h1
    simp only [Option.some.injEq] at h
    subst h
    cases toks with
    | nil => simp [dSource] at h1
    | cons t rr =>
      by_cases ht : (t.t == TT.tags) = true
      · simp only [dSource, ht, if_true] at h1
        cases hm : KV.tagParse t.v with
        | none => simp [hm] at h1
        | some m =>
          simp [hm] at h1
          obtain ⟨rfl, _⟩ := h1
          simp [cvSource]
      · simp only [dSource, ht] at h1
        cases h2 : dExpr (directFuel (t :: rr)) (t :: rr) with
        | none => simp [h2] at h1
        | some pr =>
          obtain ⟨e, r1⟩ := pr
          simp [h2] at h1
          obtain ⟨rfl, rfl⟩ := h1
          have a := dExpr_cv3 h2
          simp only [cvSource, List.length_nil] at a ⊢
          omega
  · simp at h


/-! ## further remainder lemmas of the clause parsers (not needed above, kept for users) -/

theorem dOptSource_rest_le {f : Nat} {toks : List Tok} {a : Option Source} {r' : List Tok}
    (h : dOptSource f toks = some (a, r')) : r'.length ≤ toks.length := by
  cases toks with
  | nil =>
    simp [dOptSource] at h
    obtain ⟨_, rfl⟩ := h
    simp
  | cons t rr =>
    by_cases ht : (t.t == TT.tags) = true
    · simp only [dOptSource, ht, if_true] at h
      cases hm : KV.tagParse t.v with
      | none => simp [hm] at h
      | some m =>
        simp [hm] at h
        obtain ⟨_, rfl⟩ := h
        simp
    · simp only [dOptSource, ht] at h
      cases h1 : dExpr f (t :: rr) with
      | none =>
        simp [h1] at h
        obtain ⟨_, rfl⟩ := h
        simp
      | some pr =>
        obtain ⟨e, r1⟩ := pr
        simp [h1] at h
        obtain ⟨_, rfl⟩ := h
        exact Nat.le_of_lt (dExpr_rest_lt h1)

theorem dIntTok_rest_lt {toks : List Tok} {a : Int} {r' : List Tok} (h : dIntTok toks = some (a, r')) :
    r'.length < toks.length := by
  cases toks with
  | nil => simp [dIntTok] at h
  | cons n r =>
    by_cases hn : (n.t == TT.number) = true
    · cases hp : parseInt0 n.v with
      | none => simp [dIntTok, hn, hp] at h
      | some v =>
        simp [dIntTok, hn, hp] at h
        obtain ⟨_, rfl⟩ := h
        simp
    · simp [dIntTok, hn] at h

theorem dPosTok_rest_lt {toks : List Tok} {a : Bytes} {r' : List Tok} (h : dPosTok toks = some (a, r')) :
    r'.length < toks.length := by
  cases toks with
  | nil => simp [dPosTok] at h
  | cons t r =>
    simp only [dPosTok] at h
    split at h
    · simp only [Option.some.injEq, Prod.mk.injEq] at h
      obtain ⟨_, rfl⟩ := h
      simp
    · simp at h

theorem dSizeClause_rest_le (kw : Bytes) {toks : List Tok} {a : Option Nat} {r' : List Tok}
    (h : dSizeClause kw toks = some (a, r')) : r'.length ≤ toks.length := by
  cases toks with
  | nil =>
    simp [dSizeClause] at h
    obtain ⟨_, rfl⟩ := h
    simp
  | cons t r =>
    by_cases hk : litMatch t kw = true
    · cases r with
      | nil => simp [dSizeClause, hk] at h
      | cons n r2 =>
        by_cases hn : (n.t == TT.number) = true
        · cases hp : parseBytes n.v with
          | none => simp [dSizeClause, hk, hn, hp] at h
          | some v =>
            simp [dSizeClause, hk, hn, hp] at h
            obtain ⟨_, rfl⟩ := h
            simp only [List.length_cons]
            omega
        · simp [dSizeClause, hk, hn] at h
    · simp [dSizeClause, hk] at h
      obtain ⟨_, rfl⟩ := h
      simp

theorem dDateClause_rest_le (dp : Bytes → Option Int) (kw : Bytes) {toks : List Tok} {a : Option Int} {r' : List Tok}
    (h : dDateClause dp kw toks = some (a, r')) : r'.length ≤ toks.length := by
  cases toks with
  | nil =>
    simp [dDateClause] at h
    obtain ⟨_, rfl⟩ := h
    simp
  | cons t r =>
    by_cases hk : litMatch t kw = true
    · cases r with
      | nil => simp [dDateClause, hk] at h
      | cons n r2 =>
        by_cases hn : (n.t == TT.string) = true
        · cases hp : dp n.v with
          | none => simp [dDateClause, hk, hn, hp] at h
          | some v =>
            simp [dDateClause, hk, hn, hp] at h
            obtain ⟨_, rfl⟩ := h
            simp only [List.length_cons]
            omega
        · simp [dDateClause, hk, hn] at h
    · simp [dDateClause, hk] at h
      obtain ⟨_, rfl⟩ := h
      simp

end Logrange.Lql
