import Logrange.Proofs.TruncateDry
/-! TRUNCATE leaves the partitions its source condition does not select alone — the whole command. -/
namespace Logrange.Truncate
variable {acct : Bool}

/-! ### the visitor body and the selection flag -/

theorem p1_part_sel (strict : Bool) (p : Params) (q q' : Part)
    (h : (phase1Part strict p q).part = some q') : q'.sel = q.sel := by
  unfold phase1Part at h
  by_cases hsel : q.sel = false
  · simp [hsel] at h; rw [← h]
  · by_cases hz : psize q.chunks = 0
    · by_cases hd : p.dryRun = true
      · simp [hsel, hz, hd] at h; rw [← h]
      · by_cases hc : canDelete q.users q.chunks = true
        · simp [hsel, hz, hd, hc] at h
        · simp [hsel, hz, hd, hc] at h; rw [← h]
    · simp only [if_neg hsel, if_neg hz] at h
      generalize (if (truncate strict p q.chunks).removed = psize q.chunks then
        (p.dryRun || canDelete q.users (truncate strict p q.chunks).chunks) else false) = Dd at h
      by_cases hD : Dd = true ∧ p.dryRun = false
      · simp [hD] at h
      · simp [hD] at h; rw [← h]

/-- the visitor returns at once for a partition the source condition does not select -/
theorem p1_unsel (strict : Bool) (p : Params) (q : Part) (hs : q.sel = false) :
    (phase1Part strict p q).part = some q ∧ (phase1Part strict p q).info = none ∧
      (phase1Part strict p q).report = none := by
  unfold phase1Part
  simp [hs]

theorem p1_info_sel (strict : Bool) (p : Params) (q : Part) (ti : Info)
    (h : (phase1Part strict p q).info = some ti) : q.sel = true := by
  cases hs : q.sel with
  | true => rfl
  | false => rw [(p1_unsel strict p q hs).2.1] at h; cases h

theorem p1_report_sel (strict : Bool) (p : Params) (q : Part) (r : Info)
    (h : (phase1Part strict p q).report = some r) : q.sel = true ∧ r.src = q.src := by
  cases hs : q.sel with
  | false => rw [(p1_unsel strict p q hs).2.2] at h; cases h
  | true =>
    refine ⟨rfl, ?_⟩
    unfold phase1Part at h
    have hsel : ¬ q.sel = false := by simp [hs]
    by_cases hz : psize q.chunks = 0
    · by_cases hd : p.dryRun = true
      · simp [hsel, hz, hd] at h; rw [← h]
      · by_cases hc : canDelete q.users q.chunks = true
        · simp [hsel, hz, hd, hc] at h; rw [← h]
        · simp [hsel, hz, hd, hc] at h
    · simp only [if_neg hsel, if_neg hz] at h
      cases h

/-! ### phase I keeps the unselected partitions, in order -/

theorem phase1_db_unsel (strict : Bool) (p : Params) : ∀ (order : List Part),
    (order.filterMap (fun q => (phase1Part strict p q).part)).filter (fun q => !q.sel) =
      order.filter (fun q => !q.sel) := by
  intro order
  induction order with
  | nil => rfl
  | cons x xs ih =>
    cases hs : x.sel with
    | false =>
      have hx := (p1_unsel strict p x hs).1
      simp only [List.filterMap_cons, hx, List.filter_cons, hs, Bool.not_false, if_true]
      rw [ih]
    | true =>
      cases hx : (phase1Part strict p x).part with
      | none =>
        simp only [List.filterMap_cons, hx, List.filter_cons, hs, Bool.not_true, Bool.false_eq_true, if_false]
        exact ih
      | some y =>
        have hy : y.sel = true := by rw [p1_part_sel strict p x y hx]; exact hs
        simp only [List.filterMap_cons, hx, List.filter_cons, hs, hy, Bool.not_true, Bool.false_eq_true, if_false]
        exact ih

/-! ### the two writes of the MAXDBSIZE pass -/

theorem filter_unsel_dbRemove : ∀ (db : List Part) (s : Nat), (∀ q ∈ db, q.src = s → q.sel = true) →
    (dbRemove db s).filter (fun q => !q.sel) = db.filter (fun q => !q.sel) := by
  intro db s
  unfold dbRemove
  induction db with
  | nil => intro _; rfl
  | cons x xs ih =>
    intro h
    have ih' := ih (fun q hq => h q (List.mem_cons_of_mem _ hq))
    by_cases hx : x.src = s
    · have hsel := h x (by simp) hx
      simp only [List.filter_cons, hx, beq_self_eq_true, Bool.not_true, Bool.false_eq_true, if_false, hsel]
      simpa [hx] using ih'
    · have hb : (x.src == s) = false := by simp [hx]
      simp only [List.filter_cons, hb, Bool.not_false, if_true]
      rw [ih']

theorem filter_unsel_dbSet : ∀ (db : List Part) (s : Nat) (cks : List Chunk), (∀ q ∈ db, q.src = s → q.sel = true) →
    (dbSet db s cks).filter (fun q => !q.sel) = db.filter (fun q => !q.sel) := by
  intro db s cks
  unfold dbSet
  induction db with
  | nil => intro _; rfl
  | cons x xs ih =>
    intro h
    have ih' := ih (fun q hq => h q (List.mem_cons_of_mem _ hq))
    by_cases hx : x.src = s
    · have hsel := h x (by simp) hx
      simp only [List.map_cons, hx, if_true, List.filter_cons, hsel, Bool.not_true, Bool.false_eq_true, if_false]
      simpa [hx] using ih'
    · simp only [List.map_cons, hx, if_false, List.filter_cons]
      rw [ih']

theorem mem_dbRemove (db : List Part) (s : Nat) (q : Part) (h : q ∈ dbRemove db s) : q ∈ db := by
  unfold dbRemove at h
  exact (List.mem_filter.mp h).1

theorem mem_dbSet (db : List Part) (s : Nat) (cks : List Chunk) (q : Part) (h : q ∈ dbSet db s cks) :
    ∃ q0 ∈ db, q.src = q0.src ∧ q.sel = q0.sel := by
  unfold dbSet at h
  obtain ⟨q0, hq0, e⟩ := List.mem_map.mp h
  refine ⟨q0, hq0, ?_⟩
  by_cases hx : q0.src = s
  · simp only [hx, if_true] at e; rw [← e]; exact ⟨hx.symm ▸ rfl, rfl⟩
  · simp only [hx, if_false] at e; rw [← e]; exact ⟨rfl, rfl⟩

/-- what one iteration of the pass may do to the partition list -/
def PassWrite (s : Nat) (db db1 : List Part) : Prop :=
  db1 = db ∨ db1 = dbRemove db s ∨ ∃ cks, db1 = dbSet db s cks

theorem passWrite_filter (s : Nat) (db db1 : List Part) (hw : PassWrite s db db1)
    (h : ∀ q ∈ db, q.src = s → q.sel = true) :
    db1.filter (fun q => !q.sel) = db.filter (fun q => !q.sel) := by
  rcases hw with rfl | rfl | ⟨cks, rfl⟩
  · rfl
  · exact filter_unsel_dbRemove db s h
  · exact filter_unsel_dbSet db s cks h

theorem passWrite_mem (s : Nat) (db db1 : List Part) (hw : PassWrite s db db1) (q : Part) (hq : q ∈ db1) :
    ∃ q0 ∈ db, q.src = q0.src ∧ q.sel = q0.sel := by
  rcases hw with rfl | rfl | ⟨cks, rfl⟩
  · exact ⟨q, hq, rfl, rfl⟩
  · exact ⟨q, mem_dbRemove db s q hq, rfl, rfl⟩
  · exact mem_dbSet db s cks q hq

/-! ### the MAXDBSIZE pass writes only partitions named by `sortedInfos` -/

theorem globalLoop_unsel (strict : Bool) (gMin gMax : Nat) (p : Params) :
    ∀ (infos : List Info) (ts : Nat) (db : List Part),
      (∀ ti ∈ infos, ∀ q ∈ db, q.src = ti.src → q.sel = true) →
      (globalLoop acct strict gMin gMax p infos ts db).2.filter (fun q => !q.sel) = db.filter (fun q => !q.sel) := by
  intro infos
  induction infos with
  | nil => intro ts db _; simp [globalLoop]
  | cons ti rest ih =>
    intro ts db hinv
    have hinv' : ∀ tj ∈ rest, ∀ q ∈ db, q.src = tj.src → q.sel = true :=
      fun tj h => hinv tj (List.mem_cons_of_mem _ h)
    have hti : ∀ q ∈ db, q.src = ti.src → q.sel = true := hinv ti (by simp)
    have key : ∀ db1, PassWrite ti.src db db1 → ∀ ts',
        (globalLoop acct strict gMin gMax p rest ts' db1).2.filter (fun q => !q.sel) = db.filter (fun q => !q.sel) := by
      intro db1 hw ts'
      rw [ih ts' db1 ?_]
      · exact passWrite_filter ti.src db db1 hw hti
      · intro tj htj q hq e
        obtain ⟨q0, hq0, e1, e2⟩ := passWrite_mem ti.src db db1 hw q hq
        rw [e2]
        exact hinv' tj htj q0 hq0 (by rw [← e1]; exact e)
    unfold globalLoop
    by_cases h1 : p.maxDB < ts
    · simp only [h1, if_true]
      by_cases h2 : 0 < ti.after
      · simp only [h2, if_true]
        cases hf : dbFind db ti.src with
        | none => simp only []; exact key db (Or.inl rfl) ts
        | some part =>
          simp only []
          generalize (p.dryRun || canDelete part.users
            (truncate strict { dryRun := p.dryRun, minSrc := gMin, maxSrc := gMax } part.chunks).chunks) = Dd
          generalize (truncate strict { dryRun := p.dryRun, minSrc := gMin, maxSrc := gMax } part.chunks).chunks = cks
          have hw : PassWrite ti.src db
              (if p.dryRun = true then db else if Dd = true then dbRemove db ti.src else dbSet db ti.src cks) := by
            by_cases hd : p.dryRun = true
            · simp only [hd, if_true]; exact Or.inl rfl
            · simp only [hd]
              by_cases hD : Dd = true
              · simp only [hD, if_true]; exact Or.inr (Or.inl rfl)
              · simp only [hD]; exact Or.inr (Or.inr ⟨cks, rfl⟩)
          by_cases hD : Dd = true
          · simp only [hD, if_true] at hw ⊢
            exact key _ hw _
          · simp only [hD] at hw ⊢
            simp only [Bool.false_eq_true, if_false] at hw ⊢
            by_cases ha : acct = true
            · rw [if_pos ha]; exact key _ hw _
            · rw [if_neg ha]; exact key _ hw _
      · simp only [h2, if_false]; exact key db (Or.inl rfl) ts
    · simp [h1]

/-! ### assembling the command -/

theorem forall2_taken_src : ∀ (l l' : List Info), Forall2 Taken l l' → ∀ r ∈ l', ∃ ti ∈ l, r.src = ti.src := by
  intro l l' h
  induction h with
  | nil => intro r hr; cases hr
  | @cons a b l₁ l₂ hab _ ih =>
    intro r hr
    rcases List.mem_cons.mp hr with rfl | hr
    · rcases hab with e | e
      · exact ⟨a, by simp, by rw [e]⟩
      · exact ⟨a, by simp, e.2.1⟩
    · obtain ⟨ti, hti, e⟩ := ih r hr
      exact ⟨ti, List.mem_cons_of_mem _ hti, e⟩

theorem eq_of_src_eq (order : List Part) (hnd : (order.map (·.src)).Nodup) (a b : Part) (ha : a ∈ order)
    (hb : b ∈ order) (e : a.src = b.src) : a = b := by
  have h1 := dbFind_of_mem order hnd a ha
  have h2 := dbFind_of_mem order hnd b hb
  rw [e, h2] at h1
  exact (Option.some.inj h1).symm

/-- every entry of `sortedInfos` names a selected partition of the visiting order -/
theorem sortedInfos_sel (strict : Bool) (p : Params) (order : List Part) (hnd : (order.map (·.src)).Nodup)
    (ti : Info) (hti : ti ∈ sortInfos (order.filterMap (fun q => (phase1Part strict p q).info))) :
    ∃ q0 ∈ order, q0.sel = true ∧ ti.src = q0.src := by
  have hndI : ((order.filterMap (fun q => (phase1Part strict p q).info)).map (·.src)).Nodup :=
    nodup_filterMap_map _ _ (·.src) (fun x y h => p1_info_src strict p x y h) order hnd
  obtain ⟨_, _, hperm⟩ := insert_perm_invariant _ _ (List.Perm.refl _) hndI
  obtain ⟨q0, hq0, hi⟩ := List.mem_filterMap.mp (hperm.mem_iff.mp hti)
  exact ⟨q0, hq0, p1_info_sel strict p q0 ti hi, p1_info_src strict p q0 ti hi⟩

/-- the whole command leaves every partition the source condition does not select exactly as it was (same record, same
relative order), and no report line names such a partition -/
theorem run_unselected_untouched (strict : Bool) (gMin gMax : Nat) (p : Params) (order : List Part)
    (hnd : (order.map (·.src)).Nodup) :
    (run acct strict gMin gMax p order).db.filter (fun q => !q.sel) = order.filter (fun q => !q.sel) ∧
    ∀ r ∈ (run acct strict gMin gMax p order).reports, ∀ q ∈ order, q.sel = false → r.src ≠ q.src := by
  unfold run phase2
  simp only []
  rw [phase1_eq]
  simp only []
  refine ⟨?_, ?_⟩
  · rw [globalLoop_unsel, phase1_db_unsel]
    intro ti hti q hq e
    obtain ⟨q0, hq0, hsel0, e0⟩ := sortedInfos_sel strict p order hnd ti hti
    obtain ⟨q1, hq1, hp1⟩ := List.mem_filterMap.mp hq
    have e1 := p1_part_src strict p q1 q hp1
    have := eq_of_src_eq order hnd q1 q0 hq1 hq0 (by rw [← e1, e, e0])
    rw [p1_part_sel strict p q1 q hp1, this]
    exact hsel0
  · intro r hr q hq hsel e
    have hcontra : ∀ q0 ∈ order, q0.sel = true → r.src = q0.src → False := by
      intro q0 hq0 hsel0 e0
      have := eq_of_src_eq order hnd q0 q hq0 hq (by rw [← e0, e])
      rw [this, hsel] at hsel0
      cases hsel0
    rcases List.mem_append.mp hr with hr | hr
    · obtain ⟨q0, hq0, hrep⟩ := List.mem_filterMap.mp hr
      obtain ⟨hsel0, e0⟩ := p1_report_sel strict p q0 r hrep
      exact hcontra q0 hq0 hsel0 e0
    · have hr' := (List.mem_filter.mp hr).1
      obtain ⟨ti, hti, eti⟩ := forall2_taken_src _ _ (globalLoop_shape strict gMin gMax p _ _ _) r hr'
      obtain ⟨q0, hq0, hsel0, e0⟩ := sortedInfos_sel strict p order hnd ti hti
      exact hcontra q0 hq0 hsel0 (by rw [eti, e0])

/-! ### non-vacuity: one selected and one unselected partition; the selected one is cut and reported, the other stays -/

example :
    let order : List Part :=
      [⟨1, true, 0, [⟨1, 10, 5⟩, ⟨2, 10, 6⟩]⟩, ⟨2, false, 0, [⟨1, 10, 5⟩, ⟨2, 10, 6⟩]⟩]
    let out := run false true 0 1 { maxSrc := 10 } order
    (order.map (·.src)).Nodup ∧
    out.db ≠ order ∧
    out.reports.map (·.src) = [1] ∧
    out.db.filter (fun q => !q.sel) = order.filter (fun q => !q.sel) ∧
    ∀ r ∈ out.reports, ∀ q ∈ order, q.sel = false → r.src ≠ q.src := by
  decide

end Logrange.Truncate
