import Logrange.Proofs.WaitLts
/-! Lemmas behind the bounded-liveness theorems of C11 (`Logrange/Props/C11Live.lean`): the strengthened invariant
`WInv2` (the listener lock is held only by a waiter between its locked check and its subscription), deadlock-freedom
of a pending notification, and the explicit delivery schedule `deliver` with one lemma per phase. -/
namespace Logrange.WaitLts

/-- (C) the listener lock is held only by a waiter between its locked check and its subscription -/
def LockHeld (st : State) : Prop :=
  ∀ v, st.lock = some v → ∃ x, st.ws[v]? = some x ∧ x.pc = .holding

/-- `WInv` (A), (B) plus (C) -/
def WInv2 (st : State) : Prop := WInv st ∧ LockHeld st

theorem winv2_init (n k : Nat) : WInv2 (init n k) := by
  refine ⟨winv_init n k, ?_⟩
  intro v hv
  have hv' : (none : Option Nat) = some v := hv
  cases hv'

/-- rewriting a waiter that is not the lock holder keeps (C) -/
theorem lockHeld_set (st : State) (w : Nat) (x x' : WSt) (h : LockHeld st) (hx : st.ws[w]? = some x)
    (hne : x.pc ≠ .holding) : LockHeld { st with ws := st.ws.set w x' } := by
  intro v hv
  obtain ⟨y, hy, hp⟩ := h v hv
  have e : v ≠ w := by
    intro e; subst e; rw [hx] at hy; simp only [Option.some.injEq] at hy; subst hy; exact hne hp
  refine ⟨y, ?_, hp⟩
  show (st.ws.set w x')[v]? = some y
  rw [List.getElem?_set_ne (Ne.symm e)]; exact hy

theorem step_lockHeld (st st' : State) (l : Label) (h : WInv2 st) (hs : step st l = some st') : LockHeld st' := by
  obtain ⟨_, hC⟩ := h
  cases l with
  | append k =>
    simp only [step] at hs
    split at hs
    · cases hs
    · simp only [Option.some.injEq] at hs; subst hs; exact hC
  | confirm =>
    simp only [step] at hs
    split at hs
    · cases hs
    · simp only [Option.some.injEq] at hs; subst hs; exact hC
  | loadWaiters =>
    simp only [step] at hs
    split at hs
    · cases hs
    · split at hs
      · simp only [Option.some.injEq] at hs; subst hs; exact hC
      · simp only [Option.some.injEq] at hs; subst hs; exact hC
  | closeAll =>
    simp only [step] at hs
    split at hs
    · cases hs
    · rename_i hg
      simp only [Bool.or_eq_true, decide_eq_true_eq, not_or, Bool.not_eq_true, Option.isSome_eq_false_iff,
        Option.isNone_iff_eq_none] at hg
      simp only [Option.some.injEq] at hs; subst hs
      intro v hv
      have hv' : st.lock = some v := hv
      rw [hg.2] at hv'; cases hv'
  | start w pos =>
    simp only [step] at hs
    split at hs
    · rename_i x hx
      split at hs
      · rename_i hpc
        simp only [Option.some.injEq] at hs; subst hs
        exact lockHeld_set st w x _ hC hx (by intro hh; simp [hh] at hpc)
      · cases hs
    · cases hs
  | inc w =>
    simp only [step] at hs
    split at hs
    · rename_i x hx
      split at hs
      · rename_i hpc
        simp only [Option.some.injEq] at hs; subst hs
        exact lockHeld_set st w x _ hC hx (by intro hh; simp [hh] at hpc)
      · cases hs
    · cases hs
  | wake w =>
    simp only [step] at hs
    split at hs
    · rename_i x hx
      split at hs
      · rename_i hpc
        simp only [Option.some.injEq] at hs; subst hs
        exact lockHeld_set st w x _ hC hx (by intro hh; simp [hh] at hpc)
      · cases hs
    · cases hs
  | cancel w =>
    simp only [step] at hs
    split at hs
    · rename_i x hx
      split at hs
      · rename_i hpc
        simp only [Option.some.injEq] at hs; subst hs
        exact lockHeld_set st w x _ hC hx (by intro hh; simp [hh] at hpc)
      · cases hs
    · cases hs
  | ret w =>
    simp only [step] at hs
    split at hs
    · rename_i x hx
      split at hs
      · rename_i hpc
        simp only [Option.some.injEq] at hs; subst hs
        exact lockHeld_set st w x _ hC hx (by intro hh; simp [hh] at hpc)
      · cases hs
    · cases hs
  | lockCheck w =>
    simp only [step] at hs
    split at hs
    · rename_i x hx
      split at hs
      · rename_i hg
        split at hs
        · simp only [Option.some.injEq] at hs; subst hs
          exact lockHeld_set st w x _ hC hx (by intro hh; simp [hh] at hg)
        · simp only [Option.some.injEq] at hs; subst hs
          have hl := lt_of_getElem?_some hx
          intro v hv
          have hv' : some w = some v := hv
          simp only [Option.some.injEq] at hv'; subst hv'
          exact ⟨_, List.getElem?_set_self hl, rfl⟩
      · cases hs
    · cases hs
  | subscribe w =>
    simp only [step] at hs
    split at hs
    · split at hs
      · simp only [Option.some.injEq] at hs; subst hs
        intro v hv
        have hv' : (none : Option Nat) = some v := hv
        cases hv'
      · cases hs
    · cases hs

theorem step_winv2 (st st' : State) (l : Label) (h : WInv2 st) (hs : step st l = some st') : WInv2 st' :=
  ⟨step_winv st st' l h.1 hs, step_lockHeld st st' l h hs⟩

theorem run_winv2 (st : State) (ls : List Label) (h : WInv2 st) : WInv2 (run st ls) := by
  induction ls generalizing st with
  | nil => simpa [run] using h
  | cons l ls ih =>
    simp only [run]
    cases hs : step st l with
    | none => exact ih st h
    | some st' => exact ih st' (step_winv2 st st' l h hs)

/-! ### deadlock-freedom of a pending notification -/

/-- with an `OnNewData` call pending, the writer side or the lock holder can move -/
theorem progress_of_winv2 (st : State) (h : WInv2 st) (hp : 0 < st.pendNotif + st.pendClose) :
    (step st .loadWaiters).isSome = true ∨ (step st .closeAll).isSome = true ∨
    ∃ v, st.lock = some v ∧ (step st (.subscribe v)).isSome = true := by
  by_cases hn : st.pendNotif = 0
  · have hc : ¬ st.pendClose = 0 := by omega
    cases hl : st.lock with
    | none => right; left; simp [step, hc, hl]
    | some v =>
      right; right
      obtain ⟨x, hx, hpc⟩ := h.2 v hl
      exact ⟨v, rfl, by simp [step, hx, hpc]⟩
  · left
    simp only [step, hn, if_false]
    split <;> rfl

/-! ### runs -/

theorem run_append (st : State) (a b : List Label) : run st (a ++ b) = run (run st a) b := by
  induction a generalizing st with
  | nil => rfl
  | cons l ls ih =>
    simp only [List.cons_append, run]
    cases step st l with
    | none => exact ih st
    | some st' => exact ih st'

theorem run_cons (st : State) (l : Label) (ls : List Label) : run st (l :: ls) = run (run st [l]) ls :=
  run_append st [l] ls

theorem run_one_some {st st' : State} {l : Label} (h : step st l = some st') : run st [l] = st' := by
  simp [run, h]

theorem run_one_none {st : State} {l : Label} (h : step st l = none) : run st [l] = st := by
  simp [run, h]

/-! ### the delivery schedule -/

/-- phase 0: the lock holder (if any) subscribes and releases the listener lock -/
def unlockSched (st : State) : List Label :=
  match st.lock with
  | some v => [Label.subscribe v]
  | none => []

/-- the schedule that delivers the confirmed data to waiter `w`: the lock holder's `subscribe`, the writer side's pending
`OnNewData` calls (`loadWaiters` for each, one `closeAll`), then `w`'s own `wake` and `lockCheck` -/
def deliver (st : State) (w : Nat) : List Label :=
  (match st.lock with | some v => [Label.subscribe v] | none => []) ++
  List.replicate st.pendNotif Label.loadWaiters ++ [Label.closeAll, Label.wake w, Label.lockCheck w]

/-- lock free, `w` inside its wait call and not holding, confirmed data beyond its position -/
def Ready (st : State) (w : Nat) : Prop :=
  st.lock = none ∧ ∃ y, st.ws[w]? = some y ∧ y.pos < st.cfrmd ∧ (y.pc = .counted ∨ y.pc = .asleep)

/-- … and, if asleep, the subscription is closed -/
def Ready2 (st : State) (w : Nat) : Prop :=
  st.lock = none ∧ ∃ y, st.ws[w]? = some y ∧ y.pos < st.cfrmd ∧ (y.pc = .counted ∨ (y.pc = .asleep ∧ y.sub = false))

/-- … awake, in front of its locked check -/
def Ready3 (st : State) (w : Nat) : Prop :=
  st.lock = none ∧ ∃ y, st.ws[w]? = some y ∧ y.pos < st.cfrmd ∧ y.pc = .counted

theorem ready_congr {st st' : State} {w : Nat} (h : Ready st w) (h1 : st'.ws = st.ws) (h2 : st'.lock = st.lock)
    (h3 : st'.cfrmd = st.cfrmd) : Ready st' w := by
  unfold Ready at *
  rw [h1, h2, h3]; exact h

theorem waitersPositive_of_ready {st : State} {w : Nat} (h : Ready st w) : waitersPositive st = true := by
  obtain ⟨_, y, hy, _, hp⟩ := h
  unfold waitersPositive
  rw [List.any_eq_true]
  refine ⟨y, List.mem_of_getElem? hy, ?_⟩
  rcases hp with h | h <;> simp [countedPc, h]

/-- phase 0: after the lock holder's `subscribe` (enabled by (C)) the lock is free; `w` keeps its position -/
theorem phase0 (st : State) (h : WInv2 st) (w : Nat) (x : WSt) (hx : st.ws[w]? = some x)
    (hpc : x.pc = .counted ∨ x.pc = .holding ∨ x.pc = .asleep) (hlt : x.pos < st.cfrmd) :
    WInv2 (run st (unlockSched st)) ∧ Ready (run st (unlockSched st)) w ∧
    (run st (unlockSched st)).pendNotif = st.pendNotif := by
  have hI := run_winv2 st (unlockSched st) h
  cases hl : st.lock with
  | none =>
    have hrun : run st (unlockSched st) = st := by simp [unlockSched, hl, run]
    rw [hrun]
    refine ⟨h, ⟨hl, x, hx, hlt, ?_⟩, rfl⟩
    rcases hpc with hp | hp | hp
    · exact Or.inl hp
    · have := h.1.2 w x hx hp
      rw [hl] at this; cases this
    · exact Or.inr hp
  | some v =>
    obtain ⟨z, hz, hzp⟩ := h.2 v hl
    have hs : step st (.subscribe v) = some { st with lock := none, ws := st.ws.set v { z with pc := .asleep, sub := true } } := by
      simp [step, hz, hzp]
    have hrun : run st (unlockSched st) = { st with lock := none, ws := st.ws.set v { z with pc := .asleep, sub := true } } := by
      have e : unlockSched st = [.subscribe v] := by simp [unlockSched, hl]
      rw [e, run_one_some hs]
    rw [hrun] at hI ⊢
    refine ⟨hI, ⟨rfl, ?_⟩, rfl⟩
    by_cases e : w = v
    · subst e
      rw [hx] at hz; simp only [Option.some.injEq] at hz; subst hz
      exact ⟨_, List.getElem?_set_self (lt_of_getElem?_some hx), hlt, Or.inr rfl⟩
    · refine ⟨x, ?_, hlt, ?_⟩
      · show (st.ws.set v _)[w]? = some x
        rw [List.getElem?_set_ne (Ne.symm e)]; exact hx
      · rcases hpc with hp | hp | hp
        · exact Or.inl hp
        · have := h.1.2 w x hx hp
          rw [hl] at this
          simp only [Option.some.injEq] at this
          exact absurd this.symm e
        · exact Or.inr hp

/-- phase 1: with a counted waiter present, each pending `OnNewData` call passes its `waiters > 0` test -/
theorem run_loadWaiters (n : Nat) : ∀ st : State, st.pendNotif = n → waitersPositive st = true →
    (run st (List.replicate n Label.loadWaiters)).pendNotif = 0 ∧
    (run st (List.replicate n Label.loadWaiters)).pendClose = st.pendClose + n ∧
    (run st (List.replicate n Label.loadWaiters)).ws = st.ws ∧
    (run st (List.replicate n Label.loadWaiters)).lock = st.lock ∧
    (run st (List.replicate n Label.loadWaiters)).cfrmd = st.cfrmd := by
  induction n with
  | zero => intro st hn _; simp [run, hn]
  | succ n ih =>
    intro st hn hwp
    have hs : step st .loadWaiters = some { st with pendNotif := st.pendNotif - 1, pendClose := st.pendClose + 1 } := by
      simp [step, hn, hwp]
    rw [List.replicate_succ, run_cons, run_one_some hs]
    obtain ⟨h1, h2, h3, h4, h5⟩ :=
      ih { st with pendNotif := st.pendNotif - 1, pendClose := st.pendClose + 1 } (by simp only []; omega) hwp
    refine ⟨h1, ?_, h3, h4, h5⟩
    rw [h2]; simp only []; omega

/-- phase 2: `closeAll` closes every subscription; if it is not enabled (nothing pending), invariant (A) says `w`'s
subscription is closed already -/
theorem phase2 (st : State) (h : WInv st) (w : Nat) (hr : Ready st w) (hn : st.pendNotif = 0) :
    Ready2 (run st [.closeAll]) w := by
  obtain ⟨hl, y, hy, hlt, hp⟩ := hr
  by_cases hc : st.pendClose = 0
  · have hs : step st .closeAll = none := by simp [step, hc]
    rw [run_one_none hs]
    refine ⟨hl, y, hy, hlt, ?_⟩
    rcases hp with hp | hp
    · exact Or.inl hp
    · right; refine ⟨hp, ?_⟩
      cases hsub : y.sub with
      | false => rfl
      | true =>
        have := h.1 w y hy (Or.inl ⟨hp, hsub⟩) hlt
        omega
  · have hs : step st .closeAll = some { st with pendClose := st.pendClose - 1, ws := st.ws.map (fun a => { a with sub := false }) } := by
      simp [step, hc, hl]
    rw [run_one_some hs]
    refine ⟨hl, { y with sub := false }, ?_, hlt, ?_⟩
    · show (st.ws.map (fun a => { a with sub := false }))[w]? = _
      simp [List.getElem?_map, hy]
    · rcases hp with hp | hp
      · exact Or.inl hp
      · exact Or.inr ⟨hp, rfl⟩

/-- phase 3: a sleeper with a closed subscription wakes (a `counted` waiter skips the step) -/
theorem phase3 (st : State) (w : Nat) (hr : Ready2 st w) : Ready3 (run st [.wake w]) w := by
  obtain ⟨hl, y, hy, hlt, hp⟩ := hr
  rcases hp with hp | ⟨hp, hsub⟩
  · have hs : step st (.wake w) = none := by simp [step, hy, hp]
    rw [run_one_none hs]; exact ⟨hl, y, hy, hlt, hp⟩
  · have hs : step st (.wake w) = some { st with ws := st.ws.set w { y with pc := .counted } } := by
      simp [step, hy, hp, hsub]
    rw [run_one_some hs]
    exact ⟨hl, { y with pc := .counted }, List.getElem?_set_self (lt_of_getElem?_some hy), hlt, rfl⟩

/-- phase 4: the locked check sees the data; the call returns nil -/
theorem phase4 (st : State) (w : Nat) (hr : Ready3 st w) :
    ∃ y, (run st [.lockCheck w]).ws[w]? = some y ∧ y.pc = .returning ∧ y.woke = true := by
  obtain ⟨hl, y, hy, hlt, hp⟩ := hr
  have hs : step st (.lockCheck w) = some { st with ws := st.ws.set w { y with pc := .returning, woke := true } } := by
    simp [step, hy, hp, hl, hlt]
  rw [run_one_some hs]
  exact ⟨_, List.getElem?_set_self (lt_of_getElem?_some hy), rfl, rfl⟩

/-- the schedule delivers, from any state that satisfies the invariant -/
theorem deliver_delivers (st : State) (h : WInv2 st) (w : Nat) (x : WSt) (hx : st.ws[w]? = some x)
    (hpc : x.pc = .counted ∨ x.pc = .holding ∨ x.pc = .asleep) (hlt : x.pos < st.cfrmd) :
    ∃ y, (run st (deliver st w)).ws[w]? = some y ∧ y.pc = .returning ∧ y.woke = true := by
  obtain ⟨hI0, hR0, hN0⟩ := phase0 st h w x hx hpc hlt
  have e : deliver st w = unlockSched st ++ (List.replicate st.pendNotif Label.loadWaiters ++
      ([Label.closeAll] ++ ([Label.wake w] ++ [Label.lockCheck w]))) := by
    simp [deliver, unlockSched]
  rw [e, run_append, ← hN0]
  generalize run st (unlockSched st) = st1 at hI0 hR0 ⊢
  obtain ⟨h1, _, h3, h4, h5⟩ := run_loadWaiters st1.pendNotif st1 rfl (waitersPositive_of_ready hR0)
  have hI1 := run_winv2 st1 (List.replicate st1.pendNotif Label.loadWaiters) hI0
  have hR1 := ready_congr hR0 h3 h4 h5
  rw [run_append]
  generalize run st1 (List.replicate st1.pendNotif Label.loadWaiters) = st2 at h1 hI1 hR1 ⊢
  have hR2 := phase2 st2 hI1.1 w hR1 h1
  rw [run_append]
  have hR3 := phase3 _ w hR2
  rw [run_append]
  exact phase4 _ w hR3

/-! ### the delivery obligation persists until it is delivered or cancelled -/

/-- inside a wait call: after `waiters += 1`, before the return is decided -/
def InWait (x : WSt) : Prop := x.pc = .counted ∨ x.pc = .holding ∨ x.pc = .asleep

/-- waiter `w` is inside a wait call and confirmed data lies beyond its position -/
def Owed (st : State) (w : Nat) : Prop := ∃ x, st.ws[w]? = some x ∧ InWait x ∧ x.pos < st.cfrmd

/-- the wait call of waiter `w` has returned nil -/
def Delivered (st : State) (w : Nat) : Prop := ∃ y, st.ws[w]? = some y ∧ y.pc = .returning ∧ y.woke = true

/-- the confirmed count never exceeds the written count, and never decreases -/
theorem step_cfrmd_le (st st' : State) (l : Label) (h : st.cfrmd ≤ st.cnt) (hs : step st l = some st') :
    st'.cfrmd ≤ st'.cnt ∧ st.cfrmd ≤ st'.cfrmd := by
  cases l <;> simp only [step] at hs <;> repeat' (split at hs)
  all_goals first
    | (simp only [Option.some.injEq] at hs; subst hs; simp only []; omega)
    | cases hs

theorem run_cfrmd_le (st : State) (ls : List Label) (h : st.cfrmd ≤ st.cnt) : (run st ls).cfrmd ≤ (run st ls).cnt := by
  induction ls generalizing st with
  | nil => simpa [run] using h
  | cons l ls ih =>
    simp only [run]
    cases hs : step st l with
    | none => exact ih st h
    | some st' => exact ih st' (step_cfrmd_le st st' l h hs).1

theorem owed_set_ne {st st' : State} {w v : Nat} {x' : WSt} (ho : Owed st w) (e : ¬ w = v)
    (hws : st'.ws = st.ws.set v x') (hc : st'.cfrmd = st.cfrmd) : Owed st' w := by
  obtain ⟨x, hx, hin, hlt⟩ := ho
  refine ⟨x, ?_, hin, ?_⟩
  · rw [hws, List.getElem?_set_ne (Ne.symm e)]; exact hx
  · rw [hc]; exact hlt

/-- every step other than `w`'s own cancellation keeps the obligation, or is the delivery -/
theorem owed_step (st st' : State) (l : Label) (w : Nat) (hc : st.cfrmd ≤ st.cnt) (hs : step st l = some st')
    (ho : Owed st w) (hl : l ≠ .cancel w) : Owed st' w ∨ Delivered st' w := by
  have ho' := ho
  obtain ⟨x, hx, hin, hlt⟩ := ho
  have hlen := lt_of_getElem?_some hx
  cases l with
  | append k =>
    simp only [step] at hs
    split at hs
    · cases hs
    · simp only [Option.some.injEq] at hs; subst hs; exact Or.inl ho'
  | confirm =>
    simp only [step] at hs
    split at hs
    · cases hs
    · simp only [Option.some.injEq] at hs; subst hs
      exact Or.inl ⟨x, hx, hin, Nat.lt_of_lt_of_le hlt hc⟩
  | loadWaiters =>
    simp only [step] at hs
    split at hs
    · cases hs
    · split at hs
      · simp only [Option.some.injEq] at hs; subst hs; exact Or.inl ho'
      · simp only [Option.some.injEq] at hs; subst hs; exact Or.inl ho'
  | closeAll =>
    simp only [step] at hs
    split at hs
    · cases hs
    · simp only [Option.some.injEq] at hs; subst hs
      refine Or.inl ⟨{ x with sub := false }, ?_, hin, hlt⟩
      show (st.ws.map (fun a => { a with sub := false }))[w]? = _
      simp [List.getElem?_map, hx]
  | start v pos =>
    simp only [step] at hs
    split at hs
    · rename_i z hz
      split at hs
      · rename_i hpc
        simp only [Option.some.injEq] at hs; subst hs
        by_cases e : w = v
        · subst e; rw [hx] at hz; simp only [Option.some.injEq] at hz; subst hz
          rcases hin with h | h | h <;> simp [h] at hpc
        · exact Or.inl (owed_set_ne ho' e rfl rfl)
      · cases hs
    · cases hs
  | inc v =>
    simp only [step] at hs
    split at hs
    · rename_i z hz
      split at hs
      · rename_i hpc
        simp only [Option.some.injEq] at hs; subst hs
        by_cases e : w = v
        · subst e; rw [hx] at hz; simp only [Option.some.injEq] at hz; subst hz
          rcases hin with h | h | h <;> simp [h] at hpc
        · exact Or.inl (owed_set_ne ho' e rfl rfl)
      · cases hs
    · cases hs
  | ret v =>
    simp only [step] at hs
    split at hs
    · rename_i z hz
      split at hs
      · rename_i hpc
        simp only [Option.some.injEq] at hs; subst hs
        by_cases e : w = v
        · subst e; rw [hx] at hz; simp only [Option.some.injEq] at hz; subst hz
          rcases hin with h | h | h <;> simp [h] at hpc
        · exact Or.inl (owed_set_ne ho' e rfl rfl)
      · cases hs
    · cases hs
  | cancel v =>
    simp only [step] at hs
    split at hs
    · split at hs
      · simp only [Option.some.injEq] at hs; subst hs
        by_cases e : w = v
        · subst e; exact absurd rfl hl
        · exact Or.inl (owed_set_ne ho' e rfl rfl)
      · cases hs
    · cases hs
  | wake v =>
    simp only [step] at hs
    split at hs
    · rename_i z hz
      split at hs
      · simp only [Option.some.injEq] at hs; subst hs
        by_cases e : w = v
        · subst e; rw [hx] at hz; simp only [Option.some.injEq] at hz; subst hz
          exact Or.inl ⟨_, List.getElem?_set_self hlen, Or.inl rfl, hlt⟩
        · exact Or.inl (owed_set_ne ho' e rfl rfl)
      · cases hs
    · cases hs
  | subscribe v =>
    simp only [step] at hs
    split at hs
    · rename_i z hz
      split at hs
      · simp only [Option.some.injEq] at hs; subst hs
        by_cases e : w = v
        · subst e; rw [hx] at hz; simp only [Option.some.injEq] at hz; subst hz
          exact Or.inl ⟨_, List.getElem?_set_self hlen, Or.inr (Or.inr rfl), hlt⟩
        · exact Or.inl (owed_set_ne ho' e rfl rfl)
      · cases hs
    · cases hs
  | lockCheck v =>
    simp only [step] at hs
    split at hs
    · rename_i z hz
      split at hs
      · split at hs
        · simp only [Option.some.injEq] at hs; subst hs
          by_cases e : w = v
          · subst e; rw [hx] at hz; simp only [Option.some.injEq] at hz; subst hz
            exact Or.inr ⟨_, List.getElem?_set_self hlen, rfl, rfl⟩
          · exact Or.inl (owed_set_ne ho' e rfl rfl)
        · rename_i hnlt
          simp only [Option.some.injEq] at hs; subst hs
          by_cases e : w = v
          · subst e; rw [hx] at hz; simp only [Option.some.injEq] at hz; subst hz
            exact absurd hlt hnlt
          · exact Or.inl (owed_set_ne ho' e rfl rfl)
      · cases hs
    · cases hs

/-- along any continuation without `w`'s cancellation the obligation is still there at the end, or it was delivered on
the way -/
theorem owed_run (w : Nat) (ls' : List Label) : ∀ st : State, st.cfrmd ≤ st.cnt → Owed st w → Label.cancel w ∉ ls' →
    Owed (run st ls') w ∨ ∃ pre suf, ls' = pre ++ suf ∧ Delivered (run st pre) w := by
  induction ls' with
  | nil => intro st _ ho _; exact Or.inl ho
  | cons l ls ih =>
    intro st hc ho hn
    have hl : l ≠ .cancel w := fun e => hn (by simp [e])
    have hn' : Label.cancel w ∉ ls := fun h => hn (List.mem_cons_of_mem _ h)
    cases hs : step st l with
    | none =>
      have e1 : ∀ k, run st (l :: k) = run st k := by intro k; simp [run, hs]
      rcases ih st hc ho hn' with h | ⟨pre, suf, e, hd⟩
      · left; rw [e1]; exact h
      · right
        refine ⟨l :: pre, suf, by simp [e], ?_⟩
        rw [e1]; exact hd
    | some st' =>
      have e1 : ∀ k, run st (l :: k) = run st' k := by intro k; simp [run, hs]
      rcases owed_step st st' l w hc hs ho hl with ho1 | hd
      · rcases ih st' (step_cfrmd_le st st' l hc hs).1 ho1 hn' with h | ⟨pre, suf, e, hd⟩
        · left; rw [e1]; exact h
        · right
          refine ⟨l :: pre, suf, by simp [e], ?_⟩
          rw [e1]; exact hd
      · right
        refine ⟨[l], ls, rfl, ?_⟩
        rw [e1]; exact hd

end Logrange.WaitLts
