import Logrange.Proofs.LqlLex
/-!
# `strAtomOK` holds for every valid-UTF-8 value (C12, character level)

`strAtomOK v` (Proofs/LqlLex.lean) is the per-value hypothesis of the lexing proofs: the body `strconv.Quote` produces for
`v` is consumed whole by the String token pattern (`strOK`), and participle's own unquote (`unquoteTok`: repeated
`strconv.UnquoteChar`, every decoded rune appended with `utf8.AppendRune`) reads the quoted text back.

* `strOK_quoteBody` — first half, for EVERY byte string.
* `unquoteTok_quote` — second half, for every valid UTF-8 byte string (an invalid byte is quoted as `\xNN`, decoded to the
  rune 0xNN and re-encoded as two bytes: `strAtomOK_invalid_byte`).
* `strAtomOK_of_valid` — both.

The lemmas are ported from `Proofs/Quote.lean` (property C08, the same statement for `strconv.Unquote` on C08's own copy
of the model) onto C12's copy `Logrange.Lql.GoLib`. `isPrint` is never unfolded: the proofs only split on its Boolean value.
-/
namespace Logrange.Lql
namespace QuoteRT
open GoLib

theorem ne_of_toNat_ne {x y : UInt8} (h : x.toNat ≠ y.toNat) : x ≠ y := fun e => h (by rw [e])

/-! ## Part 1: shape -/

/-- no byte is `"` or `\` -/
def plainB (l : Bytes) : Prop := ∀ x ∈ l, x ≠ 34 ∧ x ≠ 92

theorem strOK_cons_plain (x : UInt8) (t : Bytes) (h1 : x ≠ 34) (h2 : x ≠ 92) : strOK (x :: t) = strOK t := by
  cases t with
  | nil => simp [strOK, h1, h2]
  | cons e r => simp [strOK, h1, h2]

theorem strOK_plain_append : ∀ (l r : Bytes), plainB l → strOK (l ++ r) = strOK r
  | [], _, _ => rfl
  | x :: l, r, h => by
    have hx := h x (by simp)
    rw [List.cons_append, strOK_cons_plain _ _ hx.1 hx.2]
    exact strOK_plain_append l r (fun y hy => h y (by simp [hy]))

theorem strOK_BS (e : UInt8) (t : Bytes) (he : e ≠ 10) : strOK (92 :: e :: t) = strOK t := by
  simp [strOK, he]

theorem strOK_BS_pair (e : UInt8) (t : Bytes) (he : e ≠ 10) : strOK ([BS, e] ++ t) = strOK t :=
  strOK_BS e t he

theorem strOK_BS_plain (e : UInt8) (l t : Bytes) (he : e ≠ 10) (hl : plainB l) :
    strOK ([BS, e] ++ l ++ t) = strOK t := by
  have e1 : [BS, e] ++ l ++ t = 92 :: e :: (l ++ t) := by simp [BS]
  rw [e1, strOK_BS e _ he, strOK_plain_append l t hl]

theorem hexDigit_ne (n : Nat) (h : n < 16) : hexDigit n ≠ 34 ∧ hexDigit n ≠ 92 :=
  (by decide : ∀ n : Fin 16, hexDigit n.val ≠ 34 ∧ hexDigit n.val ≠ 92) ⟨n, h⟩

theorem hexN_plain (r d : Nat) : plainB (hexN r d) := by
  intro x hx
  simp only [hexN, List.mem_map] at hx
  obtain ⟨i, _, rfl⟩ := hx
  exact hexDigit_ne _ (Nat.mod_lt _ (by decide))

theorem encodeRune_plain (r : Nat) (h1 : r ≠ 34) (h2 : r ≠ 92) : plainB (encodeRune r) := by
  intro x hx
  have key : x.toNat ≠ 34 ∧ x.toNat ≠ 92 := by
    unfold encodeRune at hx
    simp only [] at hx
    by_cases hv : validRune r = true
    · simp only [hv, if_true] at hx
      simp [validRune] at hv
      split at hx
      · simp only [List.mem_cons, List.not_mem_nil, or_false] at hx
        subst hx; simp only [b, UInt8.toNat_ofNat']; omega
      · split at hx
        · simp only [List.mem_cons, List.not_mem_nil, or_false] at hx
          rcases hx with rfl | rfl <;> (simp only [b, UInt8.toNat_ofNat']; omega)
        · split at hx
          · simp only [List.mem_cons, List.not_mem_nil, or_false] at hx
            rcases hx with rfl | rfl | rfl <;> (simp only [b, UInt8.toNat_ofNat']; omega)
          · simp only [List.mem_cons, List.not_mem_nil, or_false] at hx
            rcases hx with rfl | rfl | rfl | rfl <;> (simp only [b, UInt8.toNat_ofNat']; omega)
    · have hE : (if validRune r = true then r else runeError) = 0xFFFD := by simp only [hv]; rfl
      rw [hE] at hx
      have hE2 : (if 0xFFFD < 0x80 then [b 0xFFFD]
        else if 0xFFFD < 0x800 then [b (0xC0 + 0xFFFD / 64), b (0x80 + 0xFFFD % 64)]
        else if 0xFFFD < 0x10000 then [b (0xE0 + 0xFFFD / 4096), b (0x80 + (0xFFFD / 64) % 64), b (0x80 + 0xFFFD % 64)]
        else [b (0xF0 + 0xFFFD / 262144), b (0x80 + (0xFFFD / 4096) % 64), b (0x80 + (0xFFFD / 64) % 64), b (0x80 + 0xFFFD % 64)])
        = [239, 191, 189] := by decide
      rw [hE2] at hx
      simp only [List.mem_cons, List.not_mem_nil, or_false] at hx
      rcases hx with rfl | rfl | rfl <;> decide
  exact ⟨ne_of_toNat_ne key.1, ne_of_toNat_ne key.2⟩

/-- every chunk `appendEscapedRune` emits is walked as a unit -/
theorem strOK_appendEscapedRune (r : Nat) (t : Bytes) : strOK (appendEscapedRune r DQ ++ t) = strOK t := by
  unfold appendEscapedRune
  by_cases h0 : (r == DQ.toNat || r == 92) = true
  · rw [if_pos h0]
    have h0' : r = 34 ∨ r = 92 := by simpa [DQ] using h0
    rcases h0' with rfl | rfl
    · exact strOK_BS_pair _ _ (by decide)
    · exact strOK_BS_pair _ _ (by decide)
  rw [if_neg h0]
  have h' : r ≠ 34 ∧ r ≠ 92 := by simpa [DQ] using h0
  by_cases h1 : isPrint r = true
  · rw [if_pos h1]; exact strOK_plain_append _ _ (encodeRune_plain r h'.1 h'.2)
  rw [if_neg h1]
  by_cases h : (r == 7) = true
  · rw [if_pos h]; exact strOK_BS_pair _ _ (by decide)
  rw [if_neg h]; clear h
  by_cases h : (r == 8) = true
  · rw [if_pos h]; exact strOK_BS_pair _ _ (by decide)
  rw [if_neg h]; clear h
  by_cases h : (r == 12) = true
  · rw [if_pos h]; exact strOK_BS_pair _ _ (by decide)
  rw [if_neg h]; clear h
  by_cases h : (r == 10) = true
  · rw [if_pos h]; exact strOK_BS_pair _ _ (by decide)
  rw [if_neg h]; clear h
  by_cases h : (r == 13) = true
  · rw [if_pos h]; exact strOK_BS_pair _ _ (by decide)
  rw [if_neg h]; clear h
  by_cases h : (r == 9) = true
  · rw [if_pos h]; exact strOK_BS_pair _ _ (by decide)
  rw [if_neg h]; clear h
  by_cases h : (r == 11) = true
  · rw [if_pos h]; exact strOK_BS_pair _ _ (by decide)
  rw [if_neg h]; clear h
  by_cases h : (decide (r < 32) || r == 0x7f) = true
  · rw [if_pos h]; exact strOK_BS_plain _ _ _ (by decide) (hexN_plain _ _)
  rw [if_neg h]; clear h
  by_cases h : (!validRune r) = true
  · rw [if_pos h]; exact strOK_BS_plain _ _ _ (by decide) (hexN_plain _ _)
  rw [if_neg h]; clear h
  by_cases h : r < 0x10000
  · rw [if_pos h]; exact strOK_BS_plain _ _ _ (by decide) (hexN_plain _ _)
  rw [if_neg h]; exact strOK_BS_plain _ _ _ (by decide) (hexN_plain _ _)

theorem quoteBody_cons (fuel : Nat) (c : UInt8) (rest : Bytes) (q : UInt8) :
    quoteBody (fuel+1) (c :: rest) q =
      let p := if c.toNat ≥ 0x80 then decodeRune (c :: rest) else (c.toNat, 1)
      if p.2 == 1 && p.1 == runeError then
        [BS, 120, hexDigit (c.toNat / 16), hexDigit (c.toNat % 16)] ++ quoteBody fuel ((c :: rest).drop 1) q
      else appendEscapedRune p.1 q ++ quoteBody fuel ((c :: rest).drop p.2) q := by
  rfl

theorem strOK_quoteBody_fuel : ∀ (fuel : Nat) (s : Bytes), strOK (quoteBody fuel s DQ) = true := by
  intro fuel
  induction fuel with
  | zero => intro s; simp [quoteBody, strOK]
  | succ n ih =>
    intro s
    cases s with
    | nil => simp [quoteBody, strOK]
    | cons c rest =>
      rw [quoteBody_cons]
      generalize (if c.toNat ≥ 0x80 then decodeRune (c :: rest) else (c.toNat, 1)) = p
      simp only []
      split
      · have hc : c.toNat < 256 := c.toNat_lt
        have h1 := hexDigit_ne (c.toNat / 16) (by omega)
        have h2 := hexDigit_ne (c.toNat % 16) (by omega)
        have hp : plainB [hexDigit (c.toNat / 16), hexDigit (c.toNat % 16)] := by
          intro x hx; simp at hx; rcases hx with rfl | rfl <;> assumption
        have e : [BS, 120, hexDigit (c.toNat / 16), hexDigit (c.toNat % 16)] ++ quoteBody n (List.drop 1 (c :: rest)) DQ
            = [BS, 120] ++ [hexDigit (c.toNat / 16), hexDigit (c.toNat % 16)] ++ quoteBody n (List.drop 1 (c :: rest)) DQ := by
          simp
        rw [e, strOK_BS_plain _ _ _ (by decide) hp]; exact ih _
      · rw [strOK_appendEscapedRune]; exact ih _

/-! ## Part 2: participle's unquote reads the quoted text back (valid UTF-8) -/

theorem unhex_hexDigit (n : Nat) (h : n < 16) : unhexDigit (hexDigit n) = some n :=
  (by decide : ∀ n : Fin 16, unhexDigit (hexDigit n.val) = some n.val) ⟨n, h⟩

theorem hexN2 (r : Nat) : hexN r 2 = [hexDigit (r / 16 % 16), hexDigit (r % 16)] := by
  simp [hexN, List.range_succ]
theorem hexN4 (r : Nat) : hexN r 4 = [hexDigit (r / 4096 % 16), hexDigit (r / 256 % 16), hexDigit (r / 16 % 16), hexDigit (r % 16)] := by
  simp [hexN, List.range_succ]
theorem hexN8 (r : Nat) : hexN r 8 = [hexDigit (r / 268435456 % 16), hexDigit (r / 16777216 % 16), hexDigit (r / 1048576 % 16), hexDigit (r / 65536 % 16), hexDigit (r / 4096 % 16), hexDigit (r / 256 % 16), hexDigit (r / 16 % 16), hexDigit (r % 16)] := by
  simp [hexN, List.range_succ]

theorem readHex_hexN2 (r : Nat) (t : Bytes) (h : r < 256) : readHex (hexN r 2 ++ t) 2 = some r := by
  rw [hexN2]
  simp [readHex, List.foldlM, unhex_hexDigit, Nat.mod_lt]
  omega

theorem readHex_hexN4 (r : Nat) (t : Bytes) (h : r < 65536) : readHex (hexN r 4 ++ t) 4 = some r := by
  rw [hexN4]
  simp [readHex, List.foldlM, unhex_hexDigit, Nat.mod_lt]
  omega

theorem readHex_hexN8 (r : Nat) (t : Bytes) (h : r < 4294967296) : readHex (hexN r 8 ++ t) 8 = some r := by
  rw [hexN8]
  simp [readHex, List.foldlM, unhex_hexDigit, Nat.mod_lt]
  omega

theorem b_toNat (x : UInt8) : b x.toNat = x := by simp [b]
theorem b_eq (x : UInt8) (n : Nat) (h : n = x.toNat) : b n = x := by subst h; simp [b]
theorem toNat_b (n : Nat) (h : n < 256) : (b n).toNat = n := by simp [b, UInt8.toNat_ofNat']; omega

theorem encodeRune_1 (r : Nat) (h : r < 0x80) : encodeRune r = [b r] := by
  have hv : validRune r = true := by simp [validRune]; omega
  unfold encodeRune; simp only [hv, if_true]; rw [if_pos h]
theorem encodeRune_2 (r : Nat) (h0 : 0x80 ≤ r) (h : r < 0x800) : encodeRune r = [b (0xC0 + r / 64), b (0x80 + r % 64)] := by
  have hv : validRune r = true := by simp [validRune]; omega
  unfold encodeRune; simp only [hv, if_true]; rw [if_neg (by omega), if_pos h]
theorem encodeRune_3 (r : Nat) (hv : validRune r = true) (h0 : 0x800 ≤ r) (h : r < 0x10000) :
    encodeRune r = [b (0xE0 + r / 4096), b (0x80 + (r / 64) % 64), b (0x80 + r % 64)] := by
  unfold encodeRune; simp only [hv, if_true]; rw [if_neg (by omega), if_neg (by omega), if_pos h]
theorem encodeRune_4 (r : Nat) (hv : validRune r = true) (h0 : 0x10000 ≤ r) :
    encodeRune r = [b (0xF0 + r / 262144), b (0x80 + (r / 4096) % 64), b (0x80 + (r / 64) % 64), b (0x80 + r % 64)] := by
  unfold encodeRune; simp only [hv, if_true]; rw [if_neg (by omega), if_neg (by omega), if_neg (by omega)]

/-- a successful multi-byte decode: the rune is valid, ≥ 0x80, and `AppendRune` gives back exactly the bytes consumed -/
theorem decode_valid (c : UInt8) (rest : Bytes) (hc : c.toNat ≥ 0x80) (r w : Nat)
    (hd : decodeRune (c :: rest) = (r, w)) (hne : ¬ (w = 1 ∧ r = runeError)) :
    0x80 ≤ r ∧ validRune r = true ∧ encodeRune r = (c :: rest).take w ∧ 1 ≤ w ∧ w ≤ (c :: rest).length := by
  unfold decodeRune at hd
  simp only [] at hd
  rw [if_neg (by omega)] at hd
  by_cases h1 : c.toNat < 0xC2
  · rw [if_pos h1] at hd; simp only [Prod.mk.injEq] at hd; exact absurd ⟨hd.2.symm, hd.1.symm⟩ hne
  rw [if_neg h1] at hd
  by_cases h2 : c.toNat < 0xE0
  · rw [if_pos h2] at hd
    cases rest with
    | nil => simp only [Prod.mk.injEq] at hd; exact absurd ⟨hd.2.symm, hd.1.symm⟩ hne
    | cons b1 rest1 =>
      try simp only [] at hd
      by_cases hb : (0x80 ≤ b1.toNat && b1.toNat ≤ 0xBF) = true
      · rw [if_pos hb] at hd
        simp only [Bool.and_eq_true, decide_eq_true_eq] at hb
        simp only [Prod.mk.injEq] at hd
        obtain ⟨rfl, rfl⟩ := hd
        refine ⟨by omega, by simp [validRune]; omega, ?_, by omega, by simp⟩
        rw [encodeRune_2 _ (by omega) (by omega)]
        simp only [List.take_succ_cons, List.take_zero]
        rw [b_eq c _ (by omega), b_eq b1 _ (by omega)]
      · rw [if_neg hb] at hd; simp only [Prod.mk.injEq] at hd; exact absurd ⟨hd.2.symm, hd.1.symm⟩ hne
  rw [if_neg h2] at hd
  by_cases h3 : c.toNat < 0xF0
  · rw [if_pos h3] at hd
    match rest, hd with
    | [], hd => simp only [Prod.mk.injEq] at hd; exact absurd ⟨hd.2.symm, hd.1.symm⟩ hne
    | [_], hd => simp only [Prod.mk.injEq] at hd; exact absurd ⟨hd.2.symm, hd.1.symm⟩ hne
    | b1 :: b2 :: rest2, hd =>
      try simp only [] at hd
      generalize hlo : (if (c.toNat == 0xE0) = true then 0xA0 else 0x80) = lo at hd
      generalize hhi : (if (c.toNat == 0xED) = true then 0x9F else 0xBF) = hi at hd
      have hlo1 : c.toNat = 0xE0 → lo = 0xA0 := by intro e; simp [e] at hlo; omega
      have hlo2 : c.toNat ≠ 0xE0 → lo = 0x80 := by intro e; simp [e] at hlo; omega
      have hhi1 : c.toNat = 0xED → hi = 0x9F := by intro e; simp [e] at hhi; omega
      have hhi2 : c.toNat ≠ 0xED → hi = 0xBF := by intro e; simp [e] at hhi; omega
      split at hd
      · rename_i hb
        simp only [Bool.and_eq_true, decide_eq_true_eq] at hb
        simp only [Prod.mk.injEq] at hd
        obtain ⟨rfl, rfl⟩ := hd
        have hv : validRune ((c.toNat - 0xE0) * 4096 + (b1.toNat - 0x80) * 64 + (b2.toNat - 0x80)) = true := by
          simp [validRune]; omega
        refine ⟨by omega, hv, ?_, by omega, by simp⟩
        rw [encodeRune_3 _ hv (by omega) (by omega)]
        simp only [List.take_succ_cons, List.take_zero]
        rw [b_eq c _ (by omega), b_eq b1 _ (by omega), b_eq b2 _ (by omega)]
      · simp only [Prod.mk.injEq] at hd; exact absurd ⟨hd.2.symm, hd.1.symm⟩ hne
  rw [if_neg h3] at hd
  by_cases h4 : c.toNat < 0xF5
  · rw [if_pos h4] at hd
    match rest, hd with
    | [], hd => simp only [Prod.mk.injEq] at hd; exact absurd ⟨hd.2.symm, hd.1.symm⟩ hne
    | [_], hd => simp only [Prod.mk.injEq] at hd; exact absurd ⟨hd.2.symm, hd.1.symm⟩ hne
    | [_, _], hd => simp only [Prod.mk.injEq] at hd; exact absurd ⟨hd.2.symm, hd.1.symm⟩ hne
    | b1 :: b2 :: b3 :: rest3, hd =>
      try simp only [] at hd
      generalize hlo : (if (c.toNat == 0xF0) = true then 0x90 else 0x80) = lo at hd
      generalize hhi : (if (c.toNat == 0xF4) = true then 0x8F else 0xBF) = hi at hd
      have hlo1 : c.toNat = 0xF0 → lo = 0x90 := by intro e; simp [e] at hlo; omega
      have hlo2 : c.toNat ≠ 0xF0 → lo = 0x80 := by intro e; simp [e] at hlo; omega
      have hhi1 : c.toNat = 0xF4 → hi = 0x8F := by intro e; simp [e] at hhi; omega
      have hhi2 : c.toNat ≠ 0xF4 → hi = 0xBF := by intro e; simp [e] at hhi; omega
      split at hd
      · rename_i hb
        simp only [Bool.and_eq_true, decide_eq_true_eq] at hb
        simp only [Prod.mk.injEq] at hd
        obtain ⟨rfl, rfl⟩ := hd
        have hv : validRune ((c.toNat - 0xF0) * 262144 + (b1.toNat - 0x80) * 4096 + (b2.toNat - 0x80) * 64 + (b3.toNat - 0x80)) = true := by
          simp [validRune]; omega
        refine ⟨by omega, hv, ?_, by omega, by simp⟩
        rw [encodeRune_4 _ hv (by omega)]
        simp only [List.take_succ_cons, List.take_zero]
        rw [b_eq c _ (by omega), b_eq b1 _ (by omega), b_eq b2 _ (by omega), b_eq b3 _ (by omega)]
      · simp only [Prod.mk.injEq] at hd; exact absurd ⟨hd.2.symm, hd.1.symm⟩ hne
  rw [if_neg h4] at hd
  simp only [Prod.mk.injEq] at hd; exact absurd ⟨hd.2.symm, hd.1.symm⟩ hne

/-- `DecodeRune (AppendRune r ++ t) = r` for a valid multi-byte rune -/
theorem encode_decode (r : Nat) (hv : validRune r = true) (h0 : 0x80 ≤ r) (t : Bytes) :
    decodeRune (encodeRune r ++ t) = (r, (encodeRune r).length) ∧
      ∃ h tl, encodeRune r = h :: tl ∧ h.toNat ≥ 0x80 ∧ h ≠ DQ := by
  have hv' : r < 0xD800 ∨ (0xE000 ≤ r ∧ r ≤ 0x10FFFF) := by simpa [validRune] using hv
  by_cases h2 : r < 0x800
  · rw [encodeRune_2 r h0 h2]
    have e0 := toNat_b (0xC0 + r / 64) (by omega)
    have e1 := toNat_b (0x80 + r % 64) (by omega)
    refine ⟨?_, _, _, rfl, by omega, ne_of_toNat_ne (by rw [e0]; simp [DQ]; omega)⟩
    simp only [List.cons_append, List.nil_append, decodeRune, e0, e1]
    rw [if_neg (by omega), if_neg (by omega), if_pos (by omega), if_pos (by simp; omega)]
    simp only [List.length_cons, List.length_nil, Prod.mk.injEq]; exact ⟨by omega, trivial⟩
  by_cases h3 : r < 0x10000
  · rw [encodeRune_3 r hv (by omega) h3]
    have e0 := toNat_b (0xE0 + r / 4096) (by omega)
    have e1 := toNat_b (0x80 + r / 64 % 64) (by omega)
    have e2 := toNat_b (0x80 + r % 64) (by omega)
    refine ⟨?_, _, _, rfl, by omega, ne_of_toNat_ne (by rw [e0]; simp [DQ]; omega)⟩
    simp only [List.cons_append, List.nil_append, decodeRune, e0, e1, e2]
    rw [if_neg (by omega), if_neg (by omega), if_neg (by omega), if_pos (by omega)]
    generalize hlo : (if (0xE0 + r / 4096 == 0xE0) = true then 0xA0 else 0x80) = lo
    generalize hhi : (if (0xE0 + r / 4096 == 0xED) = true then 0x9F else 0xBF) = hi
    have hlo1 : r / 4096 = 0 → lo = 0xA0 := by intro e; simp [e] at hlo; omega
    have hlo2 : r / 4096 ≠ 0 → lo = 0x80 := by intro e; simp [e] at hlo; omega
    have hhi1 : r / 4096 = 13 → hi = 0x9F := by intro e; simp [e] at hhi; omega
    have hhi2 : r / 4096 ≠ 13 → hi = 0xBF := by
      intro e
      have : ¬ (0xE0 + r / 4096 = 0xED) := by omega
      simp [this] at hhi; omega
    rw [if_pos (by simp only [Bool.and_eq_true, decide_eq_true_eq]; omega)]
    simp only [List.length_cons, List.length_nil, Prod.mk.injEq]; exact ⟨by omega, trivial⟩
  · rw [encodeRune_4 r hv (by omega)]
    have e0 := toNat_b (0xF0 + r / 262144) (by omega)
    have e1 := toNat_b (0x80 + r / 4096 % 64) (by omega)
    have e2 := toNat_b (0x80 + r / 64 % 64) (by omega)
    have e3 := toNat_b (0x80 + r % 64) (by omega)
    refine ⟨?_, _, _, rfl, by omega, ne_of_toNat_ne (by rw [e0]; simp [DQ]; omega)⟩
    simp only [List.cons_append, List.nil_append, decodeRune, e0, e1, e2, e3]
    rw [if_neg (by omega), if_neg (by omega), if_neg (by omega), if_neg (by omega), if_pos (by omega)]
    generalize hlo : (if (0xF0 + r / 262144 == 0xF0) = true then 0x90 else 0x80) = lo
    generalize hhi : (if (0xF0 + r / 262144 == 0xF4) = true then 0x8F else 0xBF) = hi
    have hlo1 : r / 262144 = 0 → lo = 0x90 := by intro e; simp [e] at hlo; omega
    have hlo2 : r / 262144 ≠ 0 → lo = 0x80 := by intro e; simp [e] at hlo; omega
    have hhi1 : r / 262144 = 4 → hi = 0x8F := by intro e; simp [e] at hhi; omega
    have hhi2 : r / 262144 ≠ 4 → hi = 0xBF := by
      intro e
      have : ¬ (0xF0 + r / 262144 = 0xF4) := by omega
      simp [this] at hhi; omega
    rw [if_pos (by simp only [Bool.and_eq_true, decide_eq_true_eq]; omega)]
    simp only [List.length_cons, List.length_nil, Prod.mk.injEq]; exact ⟨by omega, trivial⟩

theorem uq_x (s2 : Bytes) : unquoteChar (BS :: 120 :: s2) DQ = (readHex s2 2).map (fun v => (v, false, s2.drop 2)) := by
  rfl
theorem uq_u (s2 : Bytes) : unquoteChar (BS :: 117 :: s2) DQ =
    (readHex s2 4).bind (fun v => if validRune v then some (v, true, s2.drop 4) else none) := by
  rfl
theorem uq_U (s2 : Bytes) : unquoteChar (BS :: 85 :: s2) DQ =
    (readHex s2 8).bind (fun v => if validRune v then some (v, true, s2.drop 8) else none) := by
  rfl

theorem uq_plain (c : UInt8) (t : Bytes) (h1 : c ≠ DQ) (h2 : c ≠ BS) (h3 : c.toNat < 0x80) :
    unquoteChar (c :: t) DQ = some (c.toNat, false, t) := by
  unfold unquoteChar
  simp [h1, h2]
  omega

/-- what participle's loop needs from one emitted chunk standing for the rune `r`: it is not empty and `UnquoteChar`
reads exactly the chunk and returns `r` -/
def GoodR (chunk : Bytes) (r : Nat) : Prop :=
  chunk ≠ [] ∧ ∀ t, ∃ mb, unquoteChar (chunk ++ t) DQ = some (r, mb, t)

theorem good_BS_pair (x : UInt8) (r : Nat)
    (hu : ∀ t, unquoteChar (BS :: x :: t) DQ = some (r, false, t)) : GoodR [BS, x] r :=
  ⟨by simp, fun t => ⟨false, hu t⟩⟩

theorem good_escaped (r : Nat) (hv : validRune r = true) : GoodR (appendEscapedRune r DQ) r := by
  have hv' : r < 0xD800 ∨ (0xE000 ≤ r ∧ r ≤ 0x10FFFF) := by simpa [validRune] using hv
  unfold appendEscapedRune
  by_cases h0 : (r == DQ.toNat || r == 92) = true
  · rw [if_pos h0]
    have h0' : r = 34 ∨ r = 92 := by simpa [DQ] using h0
    rcases h0' with rfl | rfl
    · exact good_BS_pair _ 34 (fun t => rfl)
    · exact good_BS_pair _ 92 (fun t => rfl)
  rw [if_neg h0]
  have h' : r ≠ 34 ∧ r ≠ 92 := by simpa [DQ] using h0
  by_cases h1 : isPrint r = true
  · rw [if_pos h1]
    have hne := encodeRune_plain r h'.1 h'.2
    by_cases hs : r < 0x80
    · rw [encodeRune_1 r hs] at hne ⊢
      have e0 := toNat_b r (by omega)
      have hq := hne (b r) (by simp)
      refine ⟨by simp, fun t => ⟨false, ?_⟩⟩
      rw [List.cons_append, List.nil_append, uq_plain _ _ (by simpa [DQ] using hq.1) (by simpa [BS] using hq.2) (by omega), e0]
    · obtain ⟨_, h, tl, he, hh, hdq⟩ := encode_decode r hv (by omega) []
      refine ⟨by rw [he]; simp, fun t => ⟨true, ?_⟩⟩
      have hdec := (encode_decode r hv (by omega) t).1
      have hu : unquoteChar (h :: (tl ++ t)) DQ
          = some ((decodeRune (h :: (tl ++ t))).1, true, (h :: (tl ++ t)).drop (decodeRune (h :: (tl ++ t))).2) := by
        unfold unquoteChar
        simp [hdq]
        intro hlt; omega
      rw [he] at hdec ⊢
      rw [List.cons_append] at hdec ⊢
      rw [hu, hdec]
      simp
  rw [if_neg h1]
  by_cases h : (r == 7) = true
  · rw [if_pos h]; have e : r = 7 := by simpa using h
    subst e; exact good_BS_pair _ 7 (fun t => rfl)
  rw [if_neg h]; clear h
  by_cases h : (r == 8) = true
  · rw [if_pos h]; have e : r = 8 := by simpa using h
    subst e; exact good_BS_pair _ 8 (fun t => rfl)
  rw [if_neg h]; clear h
  by_cases h : (r == 12) = true
  · rw [if_pos h]; have e : r = 12 := by simpa using h
    subst e; exact good_BS_pair _ 12 (fun t => rfl)
  rw [if_neg h]; clear h
  by_cases h : (r == 10) = true
  · rw [if_pos h]; have e : r = 10 := by simpa using h
    subst e; exact good_BS_pair _ 10 (fun t => rfl)
  rw [if_neg h]; clear h
  by_cases h : (r == 13) = true
  · rw [if_pos h]; have e : r = 13 := by simpa using h
    subst e; exact good_BS_pair _ 13 (fun t => rfl)
  rw [if_neg h]; clear h
  by_cases h : (r == 9) = true
  · rw [if_pos h]; have e : r = 9 := by simpa using h
    subst e; exact good_BS_pair _ 9 (fun t => rfl)
  rw [if_neg h]; clear h
  by_cases h : (r == 11) = true
  · rw [if_pos h]; have e : r = 11 := by simpa using h
    subst e; exact good_BS_pair _ 11 (fun t => rfl)
  rw [if_neg h]; clear h
  by_cases h : (decide (r < 32) || r == 0x7f) = true
  · rw [if_pos h]
    have hr : r < 0x80 := by
      have : r < 32 ∨ r = 0x7f := by simpa using h
      omega
    refine ⟨by simp, fun t => ⟨false, ?_⟩⟩
    have e : [BS, 120] ++ hexN r 2 ++ t = BS :: 120 :: (hexN r 2 ++ t) := by simp
    rw [e, uq_x, readHex_hexN2 r _ (by omega), hexN2]
    simp
  rw [if_neg h]; clear h
  by_cases h : (!validRune r) = true
  · rw [hv] at h; exact absurd h (by decide)
  rw [if_neg h]; clear h
  by_cases h : r < 0x10000
  · rw [if_pos h]
    refine ⟨by simp, fun t => ⟨true, ?_⟩⟩
    have e : [BS, 117] ++ hexN r 4 ++ t = BS :: 117 :: (hexN r 4 ++ t) := by simp
    rw [e, uq_u, readHex_hexN4 r _ (by omega), hexN4]
    simp [hv]
  rw [if_neg h]
  refine ⟨by simp, fun t => ⟨true, ?_⟩⟩
  have e : [BS, 85] ++ hexN r 8 ++ t = BS :: 85 :: (hexN r 8 ++ t) := by simp
  rw [e, uq_U, readHex_hexN8 r _ (by omega), hexN8]
  simp [hv]

theorem validUtf8_cons (k : Nat) (c : UInt8) (rest : Bytes) :
    validUtf8 (k+1) (c :: rest) =
      if c.toNat < 0x80 then validUtf8 k rest else
        if (decodeRune (c :: rest)).1 == runeError && (decodeRune (c :: rest)).2 == 1 then false
        else validUtf8 k ((c :: rest).drop (decodeRune (c :: rest)).2) := by
  rfl

/-- one source rune of a valid UTF-8 text: the chunk `quoteBody` emits for it, and the rest stays valid -/
theorem chunk_spec (c : UInt8) (rest : Bytes) (k : Nat) (hval : validUtf8 (k+1) (c :: rest) = true) :
    ∃ chunk w r, 1 ≤ w ∧ w ≤ (c :: rest).length ∧
      (∀ fuel, quoteBody (fuel + 1) (c :: rest) DQ = chunk ++ quoteBody fuel ((c :: rest).drop w) DQ) ∧
      GoodR chunk r ∧ encodeRune r = (c :: rest).take w ∧ validUtf8 k ((c :: rest).drop w) = true := by
  rw [validUtf8_cons] at hval
  by_cases hc : c.toNat ≥ 0x80
  · rw [if_neg (by omega)] at hval
    generalize hd : decodeRune (c :: rest) = p at hval
    obtain ⟨r, w⟩ := p
    simp only [] at hval
    by_cases hbad : (w == 1 && r == runeError) = true
    · exfalso
      have hb2 : (r == runeError && w == 1) = true := by rw [Bool.and_comm]; exact hbad
      rw [if_pos hb2] at hval; exact absurd hval (by decide)
    · have hb2 : ¬ (r == runeError && w == 1) = true := by rw [Bool.and_comm]; exact hbad
      rw [if_neg hb2] at hval
      have hne : ¬ (w = 1 ∧ r = runeError) := by simpa using hbad
      obtain ⟨h80, hv, henc, hw1, hw2⟩ := decode_valid c rest hc r w hd hne
      refine ⟨appendEscapedRune r DQ, w, r, hw1, hw2, ?_, good_escaped r hv, henc, hval⟩
      intro fuel
      rw [quoteBody_cons]; simp only []; rw [if_pos hc, hd]; simp only []; rw [if_neg hbad]
  · have hlt : c.toNat < 0x80 := by omega
    rw [if_pos hlt] at hval
    refine ⟨appendEscapedRune c.toNat DQ, 1, c.toNat, by omega, by simp, ?_, ?_, ?_, by simpa using hval⟩
    · intro fuel
      rw [quoteBody_cons]; simp only []; rw [if_neg hc]; simp only []
      rw [if_neg (by simp [runeError]; omega)]
    · exact good_escaped c.toNat (by simp [validRune]; omega)
    · rw [encodeRune_1 _ hlt, b_toNat]; simp

theorem loop_step (k : Nat) (h : UInt8) (tl t acc : Bytes) (r : Nat) (mb : Bool)
    (hu : unquoteChar (h :: tl) DQ = some (r, mb, t)) :
    unquoteLoop (k+1) (h :: tl) DQ acc = unquoteLoop k t DQ (acc ++ encodeRune r) := by
  rw [unquoteLoop.eq_def]
  simp only [List.isEmpty_cons, Bool.false_eq_true, if_false, hu]

theorem loop_quoteBody : ∀ (fuel : Nat) (s : Bytes), s.length ≤ fuel →
    ∀ (vf : Nat), s.length < vf → validUtf8 vf s = true → ∀ (lfuel : Nat) (acc : Bytes),
    (quoteBody fuel s DQ).length < lfuel →
    unquoteLoop lfuel (quoteBody fuel s DQ) DQ acc = some (acc ++ s) := by
  intro fuel
  induction fuel with
  | zero =>
    intro s hs vf _ _ lfuel acc hl
    have : s = [] := List.eq_nil_of_length_eq_zero (by omega)
    subst this
    obtain ⟨k, rfl⟩ : ∃ k, lfuel = k + 1 := ⟨lfuel - 1, by omega⟩
    simp [quoteBody, unquoteLoop]
  | succ n ih =>
    intro s hs vf hvf hval lfuel acc hl
    obtain ⟨k, rfl⟩ : ∃ k, lfuel = k + 1 := ⟨lfuel - 1, by omega⟩
    cases s with
    | nil => simp [quoteBody, unquoteLoop]
    | cons c rest =>
      obtain ⟨j, rfl⟩ : ∃ j, vf = j + 1 := ⟨vf - 1, by omega⟩
      obtain ⟨chunk, w, r, hw1, hw2, hq, ⟨hne, hunq⟩, henc, hval'⟩ := chunk_spec c rest j hval
      rw [hq] at hl ⊢
      obtain ⟨h, tl, rfl⟩ : ∃ h tl, chunk = h :: tl := by
        cases chunk with
        | nil => exact absurd rfl hne
        | cons h tl => exact ⟨h, tl, rfl⟩
      obtain ⟨mb, hu⟩ := hunq (quoteBody n ((c :: rest).drop w) DQ)
      rw [List.cons_append] at hu ⊢
      rw [loop_step k h _ _ acc r mb hu, henc]
      have hl' : ((c :: rest).drop w).length ≤ n := by
        simp only [List.length_drop, List.length_cons] at hs ⊢; omega
      have hvf' : ((c :: rest).drop w).length < j := by
        simp only [List.length_drop, List.length_cons] at hvf ⊢; omega
      rw [ih _ hl' j hvf' hval' k _ (by simp only [List.length_append, List.length_cons] at hl; omega)]
      rw [List.append_assoc, List.take_append_drop]

end QuoteRT

open GoLib

/-- first half, for EVERY byte string: the body `strconv.Quote` produces has the shape the String pattern consumes whole -/
theorem strOK_quoteBody (v : Bytes) : strOK (GoLib.quoteBody (v.length + 1) v GoLib.DQ) = true :=
  QuoteRT.strOK_quoteBody_fuel _ _

/-- second half, for valid UTF-8: participle's unquote reads the quoted text back -/
theorem unquoteTok_quote (v : Bytes) (h : GoLib.isValidUtf8 v = true) : unquoteTok (GoLib.quote v) = some v := by
  generalize hb : quoteBody (v.length + 1) v DQ = body
  have hq : quote v = DQ :: (body ++ [DQ]) := by rw [← hb]; rfl
  have hloop : unquoteLoop (body.length + 1) body DQ [] = some v := by
    have := QuoteRT.loop_quoteBody (v.length + 1) v (by omega) (v.length + 1) (by omega) h (body.length + 1) []
      (by rw [hb]; omega)
    rw [hb] at this; simpa using this
  rw [hq]
  simp only [unquoteTok, List.drop_succ_cons, List.drop_zero, List.length_cons, List.length_append, List.length_nil]
  have e : List.take (body.length + (0 + 1) + 1 - 2) (body ++ [DQ]) = body := by
    have : body.length + (0 + 1) + 1 - 2 = body.length := by omega
    rw [this]; exact List.take_left' rfl
  rw [e]; exact hloop

theorem strAtomOK_of_valid (v : Bytes) (h : GoLib.isValidUtf8 v = true) : strAtomOK v = true := by
  simp only [strAtomOK, Bool.and_eq_true, beq_iff_eq]
  exact ⟨strOK_quoteBody v, unquoteTok_quote v h⟩

/-- the UTF-8 hypothesis is needed: the invalid byte 0xff is printed `"\xff"`, which participle reads back as the rune
U+00FF, i.e. the two bytes c3 bf -/
example : strAtomOK [0xff] = false := by decide +kernel
example : unquoteTok (quote [0xff]) = some [0xc3, 0xbf] := by decide +kernel

end Logrange.Lql
