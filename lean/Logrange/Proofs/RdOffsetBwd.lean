import Logrange.Proofs.RdOffsetLaws
import Logrange.Proofs.RdIterFwd
import Logrange.Proofs.RdIterBwd
/-!
Offset laws for a one-source cursor (C16): the backward walk and the two direction switches.
Backward, a cursor stands *after* `b` records (`bCount`); it delivers `BL j w b`, the matching records among
the first `b` in reverse stored order.
-/
set_option linter.unusedSectionVars false
set_option linter.unusedVariables false
namespace Logrange.Rd

def BL (j : Journal) (w : Bool) (b : Nat) : List Rec := (((flat j).take b).filter (keepW w)).reverse

theorem ob_BL_zero (j : Journal) (w : Bool) : BL j w 0 = [] := by simp [BL]

theorem ob_BL_some {j : Journal} {w : Bool} {b : Nat} {r : Rec} (hb : 0 < b) (h : (flat j)[b - 1]? = some r) :
    BL j w b = if keepW w r then r :: BL j w (b - 1) else BL j w (b - 1) := by
  obtain ⟨b', rfl⟩ : ∃ b', b = b' + 1 := ⟨b - 1, by omega⟩
  simp only [Nat.add_sub_cancel] at h ⊢
  unfold BL
  rw [List.take_succ, h]
  by_cases hk : keepW w r = true <;> simp [List.filter_append, hk]

/-- facts about the components of a one-source cursor walking backward, standing after `b` records -/
def StB (j : Journal) (w : Bool) (it : It) (v : Bool) (l : Option Rec) (b : Nat) : Prop :=
  WF j it ∧ it.bkwd = true ∧ bCount j it = b ∧
  (w = true → v = true → ∃ r, l = some r ∧ 0 < b ∧ (flat j)[b - 1]? = some r ∧ r.keep = true ∧ OnRecord j it)

def AbsB (name : Nat) (j : Journal) (w : Bool) (c : Cur) (b : Nat) : Prop :=
  ∃ it v l m, c = cur1 name j it w v l m ∧ StB j w it v l b

/-- the cursor has just done a backward `Get`: it sits on a matching record, or before the first record -/
def PostB (name : Nat) (j : Journal) (w : Bool) (c : Cur) (b : Nat) : Prop :=
  ∃ it v l m, c = cur1 name j it w v l m ∧ StB j w it v l b ∧
    ((b = 0 ∧ it.ci = none) ∨ (∃ r, 0 < b ∧ (flat j)[b - 1]? = some r ∧ keepW w r = true ∧ OnRecord j it))

theorem ob_post_abs {name j w c b} (h : PostB name j w c b) : AbsB name j w c b := by
  obtain ⟨it, v, l, m, e, st, _⟩ := h; exact ⟨it, v, l, m, e, st⟩

theorem ob_bCount_le (j : Journal) (it : It) : bCount j it ≤ (flat j).length := by
  unfold bCount; split <;> exact flatIdx_le _ _

section bwd
variable (HGB : bw_GetBwdSpecB) (HNB : bw_NextBwdSpecB)
include HGB HNB

theorem ob_curNext {name j w c b} (hs : Sorted j) (hp : PosIds j) (hcb : bw_ChunkBound j) (h : AbsB name j w c b) :
    AbsB name j w (curNext c) (b - 1) := by
  obtain ⟨it, v, l, m, rfl, hst⟩ := h
  unfold StB at hst
  obtain ⟨hwf, hb, hc, _⟩ := hst
  obtain ⟨h1, h2, h3⟩ := HNB j it hs hp hcb hwf hb
  refine ⟨next j it, (if w then false else v), l, m, pg_curNext .., ?_⟩
  unfold StB
  refine ⟨h1, h2, by rw [h3, hc], ?_⟩
  intro hw hv; subst hw; simp at hv

/-- post-condition of a backward `Get` from `b` -/
def GetPostB (name : Nat) (j : Journal) (w : Bool) (c' : Cur) (res : Option Rec) (b : Nat) : Prop :=
  ∃ b', PostB name j w c' b' ∧ BL j w b' = BL j w b ∧ res = (BL j w b).head? ∧ (res = none ↔ b' = 0)

theorem ob_fGetLoop {name j} (hs : Sorted j) (hp : PosIds j) (hcb : bw_ChunkBound j) : ∀ (fuel : Nat) (c : Cur) (b : Nat),
    AbsB name j true c b → b < fuel → GetPostB name j true (fGetLoop fuel c).1 (fGetLoop fuel c).2 b := by
  intro fuel
  induction fuel with
  | zero => intro c b _ hf; omega
  | succ f ih =>
    intro c b h hf
    obtain ⟨it, v, l, m, rfl, hst⟩ := h
    unfold StB at hst
    obtain ⟨hwf, hb, hc, hv⟩ := hst
    rw [pg_fGetLoop_succ]
    cases v with
    | true =>
      obtain ⟨r, hl, hpos, hr, hk, hon⟩ := hv rfl rfl
      simp only [if_true]
      have hkw : keepW true r = true := by simp [keepW, hk]
      refine ⟨b, ⟨it, true, l, m, rfl, by unfold StB; exact ⟨hwf, hb, hc, hv⟩, Or.inr ⟨r, hpos, hr, hkw, hon⟩⟩, rfl, ?_, ?_⟩
      · rw [ob_BL_some hpos hr]; simp [hkw, hl]
      · rw [hl]; constructor
        · intro h; cases h
        · intro h; omega
    | false =>
      simp only [Bool.false_eq_true, if_false]
      obtain ⟨g1, g2, g3, g4, g5, g6⟩ := HGB j it hs hp hcb hwf hb
      rw [hc] at g1 g4
      cases hg : (get j it).2 with
      | none =>
        simp only []
        rw [hg] at g1
        have hb0 : b = 0 := by
          by_cases h0 : b = 0
          · exact h0
          · rw [if_neg h0] at g1
            have hle := ob_bCount_le j it
            rw [hc] at hle
            have : b - 1 < (flat j).length := by omega
            rw [List.getElem?_eq_getElem this] at g1; cases g1
        subst hb0
        refine ⟨0, ⟨(get j it).1, false, l, m, rfl, ?_, Or.inl ⟨rfl, g6 hg⟩⟩, rfl, ?_, by simp⟩
        · unfold StB; exact ⟨g2, g3, g4, by intro _ h; cases h⟩
        · simp [ob_BL_zero]
      | some x =>
        simp only []
        rw [hg] at g1
        have hpos : 0 < b := by
          by_cases h0 : b = 0
          · rw [if_pos h0] at g1; cases g1
          · omega
        have hx : (flat j)[b - 1]? = some x := by
          rw [if_neg (by omega)] at g1; exact g1.symm
        have hon : OnRecord j (get j it).1 := g5 (by rw [hg]; rfl)
        by_cases hk : (!true || x.keep) = true
        · simp only [hk, if_true]
          have hk' : x.keep = true := by simpa using hk
          have hkw : keepW true x = true := by simp [keepW, hk']
          refine ⟨b, ⟨(get j it).1, true, some x, m, rfl, ?_, Or.inr ⟨x, hpos, hx, hkw, hon⟩⟩, rfl, ?_, ?_⟩
          · unfold StB; exact ⟨g2, g3, g4, fun _ _ => ⟨x, rfl, hpos, hx, hk', hon⟩⟩
          · rw [ob_BL_some hpos hx]; simp [hkw]
          · constructor
            · intro h; cases h
            · intro h; omega
        · simp only [hk, if_false, Bool.false_eq_true, if_true]
          have hk' : keepW true x = false := by simpa [keepW] using hk
          obtain ⟨n1, n2, n3⟩ := HNB j (get j it).1 hs hp hcb g2 g3
          rw [g4] at n3
          have habs : AbsB name j true (cur1 name j (next j (get j it).1) true false (some x) m) (b - 1) :=
            ⟨_, _, _, _, rfl, by unfold StB; exact ⟨n1, n2, n3, by intro _ h; simp at h⟩⟩
          obtain ⟨b', p', f', r', z'⟩ := ih _ (b - 1) habs (by omega)
          have hBL : BL j true (b - 1) = BL j true b := by rw [ob_BL_some hpos hx]; simp [hk']
          exact ⟨b', p', by rw [f', hBL], by rw [r', hBL], z'⟩

theorem ob_curGet {name j w c b} (hs : Sorted j) (hp : PosIds j) (hcb : bw_ChunkBound j) (h : AbsB name j w c b) :
    GetPostB name j w (curGet c).1 (curGet c).2 b := by
  cases w with
  | true =>
    obtain ⟨it, v, l, m, rfl, hst⟩ := h
    have : curGet (cur1 name j it true v l m) = fGetLoop ((flat j).length + 2) (cur1 name j it true v l m) := by
      simp [curGet, cur1, Cur.size]
    rw [this]
    have hle : b ≤ (flat j).length := by
      unfold StB at hst; rw [← hst.2.2.1]; exact ob_bCount_le _ _
    exact ob_fGetLoop HGB HNB hs hp hcb _ _ b ⟨it, v, l, m, rfl, hst⟩ (by omega)
  | false =>
    obtain ⟨it, v, l, m, rfl, hst⟩ := h
    unfold StB at hst
    obtain ⟨hwf, hb, hc, _⟩ := hst
    have : curGet (cur1 name j it false v l m) = (cur1 name j (get j it).1 false v l m, (get j it).2) := by
      have hd : (cur1 name j it false v l m).depth = 3 := by simp [Cur.depth, cur1]
      simp only [curGet, cur1] at *
      simp
      rw [hd]; exact pg_nodeGet ..
    rw [this]
    obtain ⟨g1, g2, g3, g4, g5, g6⟩ := HGB j it hs hp hcb hwf hb
    rw [hc] at g1 g4
    have hst' : StB j false (get j it).1 v l b := by
      unfold StB; exact ⟨g2, g3, g4, by intro h; cases h⟩
    simp only []
    cases hg : (get j it).2 with
    | none =>
      rw [hg] at g1
      have hb0 : b = 0 := by
        by_cases h0 : b = 0
        · exact h0
        · rw [if_neg h0] at g1
          have hle := ob_bCount_le j it
          rw [hc] at hle
          have : b - 1 < (flat j).length := by omega
          rw [List.getElem?_eq_getElem this] at g1; cases g1
      subst hb0
      exact ⟨0, ⟨(get j it).1, v, l, m, rfl, hst', Or.inl ⟨rfl, g6 hg⟩⟩, rfl, by simp [ob_BL_zero], by simp⟩
    | some x =>
      rw [hg] at g1
      have hpos : 0 < b := by
        by_cases h0 : b = 0
        · rw [if_pos h0] at g1; cases g1
        · omega
      have hx : (flat j)[b - 1]? = some x := by
        rw [if_neg (by omega)] at g1; exact g1.symm
      have hon : OnRecord j (get j it).1 := g5 (by rw [hg]; rfl)
      refine ⟨b, ⟨(get j it).1, v, l, m, rfl, hst', Or.inr ⟨x, hpos, hx, by simp [keepW], hon⟩⟩, rfl, ?_, ?_⟩
      · rw [ob_BL_some hpos hx]; simp [keepW]
      · constructor
        · intro h; cases h
        · intro h; omega

/-- the step loop of `Offset`, backward -/
theorem ob_steps {name j w} (hs : Sorted j) (hp : PosIds j) (hcb : bw_ChunkBound j) : ∀ (k : Nat) (c : Cur) (b : Nat) (pos : PosId),
    PostB name j w c b →
    ∃ b', PostB name j w (offsetSteps k c pos).1 b' ∧ BL j w b' = (BL j w b).drop k := by
  intro k
  induction k with
  | zero => intro c b pos h; exact ⟨b, by simpa [offsetSteps] using h, by simp⟩
  | succ k ih =>
    intro c b pos h
    have hn := ob_curNext HGB HNB hs hp hcb (ob_post_abs h)
    have hleft : BL j w (b - 1) = (BL j w b).drop 1 := by
      obtain ⟨it, v, l, m, _, _, hd⟩ := h
      rcases hd with ⟨h0, _⟩ | ⟨r, hpos, hr, hk, _⟩
      · subst h0; simp [ob_BL_zero]
      · rw [ob_BL_some hpos hr]; simp [hk]
    obtain ⟨b2, p2, f2, r2, z2⟩ := ob_curGet HGB HNB hs hp hcb hn
    rw [offsetSteps]
    cases hg : (curGet (curNext c)).2 with
    | none =>
      simp only [hg]
      refine ⟨b2, p2, ?_⟩
      have hnil : BL j w (b - 1) = [] := by
        rw [hg] at r2; exact List.head?_eq_none_iff.mp r2.symm
      rw [f2, hnil]
      rw [hleft] at hnil
      have : (BL j w b).drop (k + 1) = ((BL j w b).drop 1).drop k := by rw [List.drop_drop]; congr 1; omega
      rw [this, hnil]; simp
    | some x =>
      simp only [hg]
      obtain ⟨b', p', f'⟩ := ih _ b2 (curPos (curGet (curNext c)).1) p2
      refine ⟨b', p', ?_⟩
      rw [f', f2, hleft, List.drop_drop]; congr 1; omega

end bwd
end Logrange.Rd

namespace Logrange.Rd

/-! ## direction switches -/

theorem ob_flatIdx_mono (j : Journal) (c k : Nat) : flatIdx j ⟨c, k⟩ ≤ flatIdx j ⟨c, k + 1⟩ := by
  induction j with
  | nil => simp [flatIdx]
  | cons ch rest ih =>
    simp only [flatIdx]
    have : (if ch.id < c then ch.cnt else if ch.id = c then min k ch.cnt else 0) ≤
        (if ch.id < c then ch.cnt else if ch.id = c then min (k + 1) ch.cnt else 0) := by
      split
      · exact Nat.le_refl _
      · split
        · omega
        · exact Nat.le_refl _
    omega

/-- sitting on a record: backward count = forward index + 1 -/
theorem ob_bCount_on {j : Journal} {it : It} (hs : Sorted j) (hwf : WF j it) (ho : OnRecord j it) :
    bCount j it = fIdx j it + 1 ∧ fIdx j it < (flat j).length := by
  obtain ⟨c, hc, h0, hlt⟩ := ho
  unfold WF at hwf; rw [hc] at hwf
  obtain ⟨_, ⟨ch, hm, he⟩, _, _, _⟩ := hwf
  have hcnt : cntOf j c.chunk = ch.cnt := by rw [← he]; exact cntOf_mem hs hm
  rw [hcnt] at hlt
  have hb : bCount j it = flatIdx j ⟨ch.id, (c.pos + 1).toNat⟩ := by unfold bCount; rw [hc, he]
  have hf : fIdx j it = flatIdx j ⟨ch.id, c.pos.toNat⟩ := by unfold fIdx effPos; rw [hc, he]
  have hle := flatIdx_le j ⟨ch.id, (c.pos + 1).toNat⟩
  have e1 : (c.pos + 1).toNat = c.pos.toNat + 1 := by omega
  have hklt : c.pos.toNat < ch.cnt := by omega
  rw [flatIdx_in hs hm, e1, Nat.min_eq_left (by omega)] at hle
  rw [hb, hf, flatIdx_in hs hm, flatIdx_in hs hm (c.pos.toNat), e1, Nat.min_eq_left (by omega : c.pos.toNat + 1 ≤ ch.cnt),
    Nat.min_eq_left (by omega : c.pos.toNat ≤ ch.cnt)]
  constructor <;> omega

theorem ob_setBackward_facts (j : Journal) (it : It) (b : Bool) :
    (WF j it → WF j (setBackward it b)) ∧ bCount j (setBackward it b) = bCount j it ∧
    fIdx j (setBackward it b) = fIdx j it ∧ (OnRecord j it → OnRecord j (setBackward it b)) ∧
    (setBackward it b).bkwd = b ∧ (setBackward it b).ci = it.ci := by
  refine ⟨fun h => h, rfl, rfl, fun h => h, rfl, rfl⟩

section switches
variable (HG : GetFwdSpec) (HN : NextFwdSpec)
include HG HN

/-- forward `Get`, then `SetBackward(true)` -/
theorem ob_switch_back {name j w c i} (hs : Sorted j) (h : Abs name j w false c i) :
    (∀ r, (curGet c).2 = some r → ∃ i', PostB name j w (curSetBackward (curGet c).1 true) (i' + 1) ∧
        FL j w i' = FL j w i ∧ (flat j)[i']? = some r ∧ keepW w r = true) ∧
    ((curGet c).2 = none → AbsB name j w (curSetBackward (curGet c).1 true) (flat j).length ∧ FL j w i = []) := by
  obtain ⟨i', it', v', l', m', e, st, _, onrec, f, r, d⟩ := pg_curGet_abs HG HN hs h
  unfold St at st
  obtain ⟨hwf, hb, hi, _, _, _⟩ := st
  obtain ⟨o1, o2⟩ := onrec rfl
  obtain ⟨s1, s2, s3, s4, s5, s6⟩ := ob_setBackward_facts j it' true
  have hcur : curSetBackward (curGet c).1 true = cur1 name j (setBackward it' true) w (if w then false else v') l' m' := by
    rw [e, pg_curSetBackward]
  have hcache : ∀ b, w = true → (if w then false else v') = true → ∃ r, l' = some r ∧ 0 < b ∧ (flat j)[b - 1]? = some r ∧ r.keep = true ∧ OnRecord j (setBackward it' true) := by
    intro b hw hv; subst hw; simp at hv
  constructor
  · intro x hx
    rcases d with ⟨hn, _⟩ | ⟨r', hr', hget, hk⟩
    · rw [hx] at hn; cases hn
    · rw [hx] at hr'; cases hr'
      have hon := o1 (by rw [hx]; rfl)
      obtain ⟨hbc, _⟩ := ob_bCount_on hs hwf hon
      refine ⟨i', ⟨setBackward it' true, _, l', m', hcur, ?_, Or.inr ⟨x, by omega, by simpa using hget, hk, s4 hon⟩⟩, f, hget, hk⟩
      unfold StB
      exact ⟨s1 hwf, s5, by rw [s2, hbc, hi], hcache _⟩
  · intro hx
    rcases d with ⟨_, hn⟩ | ⟨r', hr', _, _⟩
    · have hci := o2 hx
      have hnil : FL j w i = [] := by rw [hx] at r; exact List.head?_eq_none_iff.mp r.symm
      refine ⟨⟨setBackward it' true, _, l', m', hcur, ?_⟩, hnil⟩
      unfold StB
      refine ⟨s1 hwf, s5, ?_, hcache _⟩
      rw [s2]
      have h1 : fIdx j it' = flatIdx j ⟨it'.cid, it'.idx⟩ := by unfold fIdx effPos; rw [hci]; rfl
      have h2 : bCount j it' = flatIdx j ⟨it'.cid, it'.idx + 1⟩ := by unfold bCount; rw [hci]
      have h3 := ob_flatIdx_mono j it'.cid it'.idx
      have h4 := flatIdx_le j ⟨it'.cid, it'.idx + 1⟩
      rw [h2]; rw [h1, hn] at hi; omega
    · rw [hx] at hr'; cases hr'

/-- `SetBackward(false)` after a backward `Get` -/
theorem ob_switch_fwd {name j w c b} (hs : Sorted j) (h : PostB name j w c b) :
    ∃ i, Abs name j w false (curSetBackward c false) i ∧
      ((b = 0 ∧ i = 0) ∨ (∃ r, 0 < b ∧ i = b - 1 ∧ (flat j)[i]? = some r ∧ keepW w r = true)) := by
  obtain ⟨it, v, l, m, rfl, st, d⟩ := h
  unfold StB at st
  obtain ⟨hwf, hb, hc, _⟩ := st
  obtain ⟨s1, s2, s3, s4, s5, s6⟩ := ob_setBackward_facts j it false
  have mkSt : ∀ i, fIdx j it = i → St j w false (setBackward it false) (if w then false else v) l i := by
    intro i hi
    unfold St
    refine ⟨s1 hwf, s5, by rw [s3, hi], ?_, (by intro h; cases h), ?_⟩
    · intro hw hv; subst hw; simp at hv
    · intro _ hw hv; subst hw; simp at hv
  rcases d with ⟨h0, hci⟩ | ⟨r, hpos, hr, hk, hon⟩
  · have h1 : fIdx j it = flatIdx j ⟨it.cid, it.idx⟩ := by unfold fIdx effPos; rw [hci]; rfl
    have h2 : bCount j it = flatIdx j ⟨it.cid, it.idx + 1⟩ := by unfold bCount; rw [hci]
    have h3 := ob_flatIdx_mono j it.cid it.idx
    have hz : fIdx j it = 0 := by rw [h2] at hc; omega
    exact ⟨0, ⟨_, _, _, _, pg_curSetBackward .., mkSt 0 hz⟩, Or.inl ⟨h0, rfl⟩⟩
  · obtain ⟨hbc, _⟩ := ob_bCount_on hs hwf hon
    have hz : fIdx j it = b - 1 := by omega
    exact ⟨b - 1, ⟨_, _, _, _, pg_curSetBackward .., mkSt _ hz⟩, Or.inr ⟨r, hpos, rfl, hr, hk⟩⟩

end switches
end Logrange.Rd

namespace Logrange.Rd

/-! ## `Offset` with a negative argument -/

theorem ob_iter_id (name j it w v l m) (pos : PosId) :
    iterateToPos (cur1 name j it w v l m) pos = cur1 name j it w v l m := by
  simp [iterateToPos, cur1]

theorem ob_FL_suffix (j : Journal) (w : Bool) (b : Nat) :
    FL j w b = (FL j w 0).drop (BL j w b).length ∧ (FL j w 0).length = (BL j w b).length + (FL j w b).length := by
  have h : FL j w 0 = ((flat j).take b).filter (keepW w) ++ FL j w b := by
    unfold FL
    rw [List.drop_zero, ← List.filter_append, List.take_append_drop]
  have hl : (BL j w b).length = (((flat j).take b).filter (keepW w)).length := by simp [BL]
  constructor
  · rw [h, hl, List.drop_left]
  · rw [h, hl, List.length_append]

theorem ob_offset_unfold_some (c : Cur) (k : Nat) (x : Rec) (hx : (curGet c).2 = some x) :
    offset c (-((k + 1 : Nat) : Int)) =
      iterateToPos (curSetBackward (offsetSteps (k + 1)
        (iterateToPos (curSetBackward (curGet c).1 true) (curPos (curGet c).1)) (curPos (curGet c).1)).1 false)
        (offsetSteps (k + 1)
          (iterateToPos (curSetBackward (curGet c).1 true) (curPos (curGet c).1)) (curPos (curGet c).1)).2 := by
  have h1 : ((-((k + 1 : Nat) : Int)) == 0) = false := by
    simp only [beq_eq_false_iff_ne, ne_eq]; omega
  have h2 : (-((k + 1 : Nat) : Int)) < 0 := by omega
  have h3 : (-((k + 1 : Nat) : Int)).natAbs = k + 1 := by omega
  rw [offset, h1]
  simp only [Bool.false_eq_true, if_false, h2, if_true, h3, hx]

theorem ob_offset_unfold_none (c : Cur) (k : Nat) (hx : (curGet c).2 = none) :
    offset c (-((k + 1 : Nat) : Int)) =
      iterateToPos (curSetBackward (offsetSteps k
        (curGet (curSetBackward (curGet c).1 true)).1 (curPos (curGet (curSetBackward (curGet c).1 true)).1)).1 false)
        (offsetSteps k
          (curGet (curSetBackward (curGet c).1 true)).1 (curPos (curGet (curSetBackward (curGet c).1 true)).1)).2 := by
  have h1 : ((-((k + 1 : Nat) : Int)) == 0) = false := by
    simp only [beq_eq_false_iff_ne, ne_eq]; omega
  have h2 : (-((k + 1 : Nat) : Int)) < 0 := by omega
  have h3 : (-((k + 1 : Nat) : Int)).natAbs = k + 1 := by omega
  rw [offset, h1]
  simp only [Bool.false_eq_true, if_false, h2, if_true, h3, hx, Nat.add_sub_cancel]

section neg
variable (HG : GetFwdSpec) (HN : NextFwdSpec) (HGB : bw_GetBwdSpecB) (HNB : bw_NextBwdSpecB)
include HG HN HGB HNB

/-- after the backward walk: switch forward and express what is left in terms of the whole forward list -/
theorem ob_finish {name j w c b} (hs : Sorted j) (h : PostB name j w c b) (pos : PosId) :
    ∃ i, Abs name j w false (iterateToPos (curSetBackward c false) pos) i ∧
      FL j w i = (FL j w 0).drop ((BL j w b).length - 1) := by
  obtain ⟨i, ha, hd⟩ := ob_switch_fwd HG HN hs h
  have hid : iterateToPos (curSetBackward c false) pos = curSetBackward c false := by
    obtain ⟨it, v, l, m, e, _⟩ := ha
    rw [e, ob_iter_id]
  rw [hid]
  refine ⟨i, ha, ?_⟩
  rcases hd with ⟨h0, hi0⟩ | ⟨r, hpos, hi, hr, hk⟩
  · subst h0; subst hi0; simp [ob_BL_zero]
  · have hb : BL j w b = r :: BL j w (b - 1) := by
      rw [hi] at hr; rw [ob_BL_some hpos hr]; simp [hk]
    rw [hb, hi, (ob_FL_suffix j w (b - 1)).1]; simp

/-- **Offset(−k)** from any forward state: the cursor moves back over `k` matching events (or to the start) -/
theorem ob_offset_neg {name j w c i} (hs : Sorted j) (hp : PosIds j) (hcb : bw_ChunkBound j) (k : Nat)
    (h : Abs name j w false c i) :
    ∃ i', Abs name j w false (offset c (-(k : Int))) i' ∧
      FL j w i' = (FL j w 0).drop (((FL j w 0).length - (FL j w i).length) - k) := by
  obtain ⟨sfx1, sfx2⟩ := ob_FL_suffix j w i
  cases k with
  | zero =>
    refine ⟨i, by simpa [offset] using h, ?_⟩
    have : (FL j w 0).length - (FL j w i).length - 0 = (BL j w i).length := by omega
    rw [this]; exact sfx1
  | succ k =>
    obtain ⟨hsome, hnone⟩ := ob_switch_back HG HN hs h
    cases hx : (curGet c).2 with
    | some x =>
      obtain ⟨i1, hpost, f1, hget, hkx⟩ := hsome x hx
      rw [ob_offset_unfold_some c k x hx]
      have hid : iterateToPos (curSetBackward (curGet c).1 true) (curPos (curGet c).1) = curSetBackward (curGet c).1 true := by
        obtain ⟨it, v, l, m, e, _⟩ := hpost
        rw [e, ob_iter_id]
      rw [hid]
      obtain ⟨b', hp', hb'⟩ := ob_steps HGB HNB hs hp hcb (k + 1) _ (i1 + 1) (curPos (curGet c).1) hpost
      obtain ⟨i', ha', hf'⟩ := ob_finish HG HN HGB HNB hs hp' (offsetSteps (k + 1) (curSetBackward (curGet c).1 true) (curPos (curGet c).1)).2
      refine ⟨i', ha', ?_⟩
      rw [hf', hb']
      have hbl : BL j w (i1 + 1) = x :: BL j w i1 := by
        rw [ob_BL_some (Nat.succ_pos _) (by simpa using hget)]; simp [hkx]
      obtain ⟨_, s2⟩ := ob_FL_suffix j w i1
      rw [f1] at s2
      rw [hbl, List.length_drop, List.length_cons]
      congr 1; omega
    | none =>
      obtain ⟨habs, hnil⟩ := hnone hx
      rw [ob_offset_unfold_none c k hx]
      obtain ⟨b1, hp1, fb1, _, _⟩ := ob_curGet HGB HNB hs hp hcb habs
      obtain ⟨b', hp', hb'⟩ := ob_steps HGB HNB hs hp hcb k _ b1 (curPos (curGet (curSetBackward (curGet c).1 true)).1) hp1
      obtain ⟨i', ha', hf'⟩ := ob_finish HG HN HGB HNB hs hp' (offsetSteps k (curGet (curSetBackward (curGet c).1 true)).1 (curPos (curGet (curSetBackward (curGet c).1 true)).1)).2
      refine ⟨i', ha', ?_⟩
      rw [hf', hb', fb1, List.length_drop]
      obtain ⟨_, s3⟩ := ob_FL_suffix j w (flat j).length
      rw [of_FL_len] at s3
      rw [hnil]
      congr 1
      simp only [List.length_nil] at s3 ⊢
      omega

end neg
end Logrange.Rd

namespace Logrange.Rd

/-! ## the three laws for a one-source cursor -/

/-- every chunk id is below the id that stands for `tail` (0xFFFFFFFFFFFFFFFF in the code) -/
def IdsBelowTail (j : Journal) : Prop := ∀ c ∈ j, c.id < tailCid

theorem ob_flatIdx_tail {j : Journal} (h : IdsBelowTail j) (k : Nat) : flatIdx j ⟨tailCid, k⟩ = (flat j).length := by
  induction j with
  | nil => simp [flatIdx, flat]
  | cons c rest ih =>
    have hc := h c (List.mem_cons_self ..)
    have ih' := ih (fun x hx => h x (List.mem_cons_of_mem _ hx))
    simp only [flatIdx, hc, if_true, ih', flat, List.flatMap_cons, List.length_append, Chunk.cnt]

theorem ob_corner_abs (name : Nat) (j : Journal) (w t : Bool) :
    Abs name j w false (applyCorner (mk1 name j w) t) (flatIdx j (if t then ⟨tailCid, maxU32⟩ else {})) := by
  obtain ⟨h1, h2, h3⟩ := pg_setPos_fresh j (if t then ⟨tailCid, maxU32⟩ else {})
  refine ⟨setPos j {} (if t then ⟨tailCid, maxU32⟩ else {}), false, none, #[{}], by rw [mk1, pg_mkCur, pg_applyCorner], ?_⟩
  unfold St
  refine ⟨by unfold WF; rw [h1]; trivial, h3, by unfold fIdx effPos; rw [h1]; simp [h2], ?_, (by intro h; cases h), ?_⟩
  · intro _ h; cases h
  · intro _ _ h; cases h

/-- the forward read of at most `n` events -/
def readN (n : Nat) (c : Cur) : List Rec := (readLoop n c []).2

section lawsC16
variable (HG : GetFwdSpec) (HN : NextFwdSpec) (HGB : bw_GetBwdSpecB) (HNB : bw_NextBwdSpecB)
include HG HN

theorem ob_readN {name j w c i} (hs : Sorted j) (n : Nat) (h : Abs name j w false c i) :
    readN n c = (FL j w i).take n := by
  have := (pg_readLoop_abs HG HN hs n c i [] h).1
  simpa [readN] using this

theorem ob_head_plus_k (name : Nat) (j : Journal) (w : Bool) (k n : Nat) (hs : Sorted j) :
    readN n (offset (applyCorner (mk1 name j w) false) (k : Int)) = (((flat j).filter (keepW w)).drop k).take n := by
  have h0 := ob_corner_abs name j w false
  simp only [Bool.false_eq_true, if_false] at h0
  rw [show flatIdx j ({} : Pos) = 0 from pg_flatIdx_zero j] at h0
  obtain ⟨i', a', f'⟩ := of_offset_pos HG HN hs k h0
  rw [ob_readN HG HN hs n a', f']; simp [FL]

include HGB HNB

theorem ob_tail_minus_k (name : Nat) (j : Journal) (w : Bool) (k n : Nat) (hs : Sorted j) (hp : PosIds j)
    (hcb : bw_ChunkBound j) (ht : IdsBelowTail j) :
    readN n (offset (applyCorner (mk1 name j w) true) (-(k : Int))) =
      (((flat j).filter (keepW w)).drop (((flat j).filter (keepW w)).length - k)).take n := by
  have h0 := ob_corner_abs name j w true
  simp only [if_true] at h0
  rw [ob_flatIdx_tail ht] at h0
  obtain ⟨i', a', f'⟩ := ob_offset_neg HG HN HGB HNB hs hp hcb k h0
  rw [ob_readN HG HN hs n a', f', of_FL_len]; simp [FL]

/-- after reading `m` events from `head`: `+k` then `−k` (with `k` events still ahead) changes nothing -/
theorem ob_plus_minus_k (name : Nat) (j : Journal) (w : Bool) (m k n : Nat) (hs : Sorted j) (hp : PosIds j)
    (hcb : bw_ChunkBound j) (hk : m + k ≤ ((flat j).filter (keepW w)).length) :
    readN n (offset (offset (readLoop m (applyCorner (mk1 name j w) false) []).1 (k : Int)) (-(k : Int))) =
      readN n (readLoop m (applyCorner (mk1 name j w) false) []).1 := by
  have h0 := ob_corner_abs name j w false
  simp only [Bool.false_eq_true, if_false] at h0
  rw [show flatIdx j ({} : Pos) = 0 from pg_flatIdx_zero j] at h0
  obtain ⟨_, i1, a1, f1⟩ := pg_readLoop_abs HG HN hs m _ 0 [] h0
  obtain ⟨i2, a2, f2⟩ := of_offset_pos HG HN hs k a1
  obtain ⟨i3, a3, f3⟩ := ob_offset_neg HG HN HGB HNB hs hp hcb k a2
  rw [ob_readN HG HN hs n a3, ob_readN HG HN hs n a1, f3, f2, f1]
  have hfl : FL j w 0 = (flat j).filter (keepW w) := by simp [FL]
  rw [hfl] at *
  simp only [List.length_drop, List.drop_drop]
  congr 2
  omega

end lawsC16
end Logrange.Rd
