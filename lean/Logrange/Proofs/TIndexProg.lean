import Logrange.Model.TIndexProg
import Logrange.Proofs.TIndexLts
/-! Lemmas behind the caller-program theorems of C14: how a step of one actor looks to another (frame), the local
invariant that ties an actor's control state to its tokens, its visit and its exclusive lock, and its preservation. -/
namespace Logrange.TIndexProg
open Logrange.TIndexLts

/-! ### more about the two bulk sections -/

theorem incDesc_isNone (parts : Nat → Option Part) (s : Nat) (p : Part) (hp : parts s = some p) (x : Nat) :
    (incDesc parts s p x).isNone = (parts x).isNone := by
  unfold incDesc
  by_cases e : x = s
  · subst e; simp [upd_same, hp]
  · simp [upd_other _ _ _ _ e]

theorem snap_facts (a : Nat) (sel : List Nat) (acq : Bool) :
    ∀ (l : List Nat) (parts : Nat → Option Part) (holds : List Tok),
      (∀ x, ((snap a sel acq l parts holds).1 x).isNone = (parts x).isNone) ∧
      (∀ t : Tok, (t.actor ≠ a ∨ t.auto = false) → (snap a sel acq l parts holds).2.1.count t = holds.count t) ∧
      (∀ s, (snap a sel acq l parts holds).2.1.count ⟨a, s, true⟩ =
        (if acq then (snap a sel acq l parts holds).2.2.count s else 0) + holds.count ⟨a, s, true⟩) := by
  intro l
  induction l with
  | nil => intro parts holds; simp [snap]
  | cons s ss ih =>
    intro parts holds
    unfold snap
    cases hp : parts s with
    | none => simpa [hp] using ih parts holds
    | some p =>
      simp only []
      by_cases hc : (sel.contains p.tags && !p.exclusive) = true
      · simp only [hc, if_true]
        cases acq with
        | false =>
          simp only [Bool.false_eq_true, if_false]
          obtain ⟨i1, i2, i3⟩ := ih parts holds
          exact ⟨i1, i2, by simpa using i3⟩
        | true =>
          simp only [if_true]
          obtain ⟨i1, i2, i3⟩ := ih (incDesc parts s p) (⟨a, s, true⟩ :: holds)
          refine ⟨?_, ?_, ?_⟩
          · intro x; rw [i1 x, incDesc_isNone _ _ _ hp]
          · intro t ht
            rw [i2 t ht, List.count_cons_of_ne]
            intro e; subst e
            rcases ht with ht | ht
            · exact ht rfl
            · cases ht
          · intro s'
            have := i3 s'
            simp only [if_true] at this ⊢
            rw [this, List.count_cons, List.count_cons]
            by_cases e : s = s'
            · subst e; simp; omega
            · simp [e]
      · simp only [hc, Bool.false_eq_true, if_false]
        exact ih parts holds

theorem relAll_isNone (a : Nat) : ∀ (l : List Nat) (parts : Nat → Option Part) (holds : List Tok) (x : Nat),
    ((relAll a l parts holds).1 x).isNone = (parts x).isNone := by
  intro l
  induction l with
  | nil => intro parts holds x; rfl
  | cons s ss ih =>
    intro parts holds x
    unfold relAll
    rw [ih, decDesc_isNone]

/-! ### how a step of another actor looks to actor `a` -/

def actorOf : Lbl → Option Nat
  | .getOrCreate a _ _ => some a
  | .getTags a _ _ => some a
  | .release a _ => some a
  | .lockX a _ => some a
  | .unlockX a _ => some a
  | .delete a _ => some a
  | .visitBegin a _ _ _ => some a
  | .visitTry a _ => some a
  | .visitCb a _ _ => some a
  | .visitEnd a => some a
  | .shutdown => none

/-- what actor `a` can see of the shared state: its tokens, its visit, the locks it holds, which sources are gone -/
structure Same (a : Nat) (st st' : St) : Prop where
  tok : ∀ s au, st'.c.holds.count ⟨a, s, au⟩ = st.c.holds.count ⟨a, s, au⟩
  vis : st'.vis a = st.vis a
  lck : ∀ s, st'.c.locker s = some a ↔ st.c.locker s = some a
  gone : ∀ s, st.c.parts s = none → s < st.c.next → st'.c.parts s = none
  next : st.c.next ≤ st'.c.next

theorem Same.refl (a : Nat) (st : St) : Same a st st := ⟨fun _ _ => rfl, rfl, fun _ => Iff.rfl, fun _ h _ => h, Nat.le_refl _⟩

theorem isNone_none {α : Type} {o : Option α} (h : o.isNone = true) : o = none := by
  cases o <;> simp_all

theorem cnt_cons_other (holds : List Tok) {a b : Nat} (h : b ≠ a) (s s' : Nat) (au au' : Bool) :
    ((⟨b, s', au'⟩ : Tok) :: holds).count ⟨a, s, au⟩ = holds.count ⟨a, s, au⟩ := by
  rw [List.count_cons_of_ne]; intro e; injection e with e1; exact h e1

theorem cnt_erase_other (holds : List Tok) {a b : Nat} (h : b ≠ a) (s s' : Nat) (au au' : Bool) :
    (holds.erase (⟨b, s', au'⟩ : Tok)).count ⟨a, s, au⟩ = holds.count ⟨a, s, au⟩ := by
  rw [List.count_erase_of_ne]; intro e; injection e with e1; exact h e1.symm

theorem gone_incDesc (parts : Nat → Option Part) (s : Nat) (p : Part) (hp : parts s = some p) (x : Nat)
    (hx : parts x = none) : incDesc parts s p x = none := by
  apply isNone_none; rw [incDesc_isNone _ _ _ hp]; simp [hx]

theorem gone_upd (parts : Nat → Option Part) (s : Nat) (v : Option Part) (x : Nat) (hs : parts s ≠ none ∨ v = none)
    (hx : parts x = none) : upd parts s v x = none := by
  by_cases e : x = s
  · subst e
    rcases hs with hs | hs
    · exact absurd hx hs
    · simp [upd_same, hs]
  · rw [upd_other _ _ _ _ e]; exact hx

/-- a critical section of another actor `b` changes nothing that actor `a` can see of its own -/
theorem frame (st st' : St) (l : Lbl) (a b : Nat) (hi : StInv st) (hs : step st l = some st')
    (hl : actorOf l = some b) (hab : b ≠ a) : Same a st st' := by
  obtain ⟨hc, hv, hnp⟩ := hi
  cases l with
  | shutdown => simp [actorOf] at hl
  | getOrCreate b' tags create =>
    simp only [actorOf, Option.some.injEq] at hl; subst hl
    simp only [step] at hs
    split at hs
    · simp at hs; subst hs; exact Same.refl a st
    split at hs
    · rename_i s hf
      split at hs
      · rename_i p hp
        split at hs
        · simp at hs; subst hs; exact Same.refl a st
        · simp at hs; subst hs
          exact ⟨fun s' au => cnt_cons_other _ hab _ _ _ _, rfl, fun _ => Iff.rfl,
            fun x hx _ => gone_incDesc _ _ _ hp x hx, Nat.le_refl _⟩
      · simp at hs; subst hs; exact Same.refl a st
    · split at hs
      · simp at hs; subst hs
        refine ⟨fun s' au => cnt_cons_other _ hab _ _ _ _, rfl, fun _ => Iff.rfl, ?_, Nat.le_succ _⟩
        intro x hx hlt
        have e : x ≠ st.c.next := by omega
        show upd st.c.parts st.c.next _ x = none
        rw [upd_other _ _ _ _ e]; exact hx
      · simp at hs; subst hs; exact Same.refl a st
  | getTags b' s lock =>
    simp only [actorOf, Option.some.injEq] at hl; subst hl
    simp only [step] at hs
    split at hs
    · simp at hs; subst hs; exact Same.refl a st
    split at hs
    · simp at hs; subst hs; exact Same.refl a st
    · rename_i p hp
      split at hs
      · simp at hs; subst hs; exact Same.refl a st
      · split at hs
        · simp at hs; subst hs
          exact ⟨fun s' au => cnt_cons_other _ hab _ _ _ _, rfl, fun _ => Iff.rfl,
            fun x hx _ => gone_incDesc _ _ _ hp x hx, Nat.le_refl _⟩
        · simp at hs; subst hs; exact Same.refl a st
  | release b' s =>
    simp only [actorOf, Option.some.injEq] at hl; subst hl
    simp only [step] at hs
    split at hs
    · rename_i hcond
      simp only [Bool.and_eq_true, List.contains_iff_mem] at hcond
      obtain ⟨hm, hmay⟩ := hcond
      rcases relRaw_of_inv st.c hc b' s false hm hmay with hr | ⟨hn, hr⟩
      · rw [hr] at hs
        simp at hs; subst hs
        refine ⟨fun s' au => cnt_erase_other _ hab _ _ _ _, rfl, fun _ => Iff.rfl, ?_, Nat.le_refl _⟩
        intro x hx _
        apply isNone_none; show (decDesc st.c.parts s x).isNone = true
        rw [decDesc_isNone]; simp [hx]
      · rw [hr] at hs
        simp at hs; subst hs
        exact ⟨fun s' au => cnt_erase_other _ hab _ _ _ _, rfl, fun _ => Iff.rfl, fun _ hx _ => hx, Nat.le_refl _⟩
    · simp at hs
  | lockX b' s =>
    simp only [actorOf, Option.some.injEq] at hl; subst hl
    simp only [step] at hs
    split at hs
    · split at hs
      · rename_i parts' hlk
        simp at hs; subst hs
        unfold lockRaw at hlk
        cases hp : st.c.parts s with
        | none => simp [hp] at hlk
        | some p =>
          simp only [hp] at hlk
          split at hlk
          · rename_i hcnd
            simp only [Bool.and_eq_true, Bool.not_eq_true'] at hcnd
            simp only [Prod.mk.injEq, and_true] at hlk; subst hlk
            refine ⟨fun _ _ => rfl, rfl, ?_, ?_, Nat.le_refl _⟩
            · intro x
              show upd st.c.locker s (some b') x = some a ↔ _
              by_cases e : x = s
              · subst e
                rw [upd_same]
                constructor
                · intro h; injection h with h; exact absurd h hab
                · intro h
                  obtain ⟨p', hp', hx'⟩ := hc.lck x a h
                  rw [hp] at hp'; cases hp'; rw [hcnd.1] at hx'; cases hx'
              · rw [upd_other _ _ _ _ e]
            · intro x hx _
              exact gone_upd _ _ _ _ (Or.inl (by rw [hp]; simp)) hx
          · simp at hlk
      · simp at hs; subst hs; exact Same.refl a st
    · simp at hs
  | unlockX b' s =>
    simp only [actorOf, Option.some.injEq] at hl; subst hl
    simp only [step] at hs
    split at hs
    · simp at hs; subst hs; exact Same.refl a st
    · rename_i p0 hp0
      split at hs
      · rename_i hlk
        have hl' : st.c.locker s = some b' := by simpa using hlk
        obtain ⟨p, hp, hx⟩ := hc.lck s b' hl'
        obtain ⟨hr1, _⟩ := hc.excl s p hp hx
        have hu : unlockRaw st.c.parts s = (upd st.c.parts s (some { p with exclusive := false }), .ok) := by
          simp [unlockRaw, hp, hx, hr1]
        rw [hu] at hs
        simp at hs; subst hs
        refine ⟨fun _ _ => rfl, rfl, ?_, ?_, Nat.le_refl _⟩
        · intro x
          show upd st.c.locker s none x = some a ↔ _
          by_cases e : x = s
          · subst e; rw [upd_same, hl']
            constructor
            · intro h; cases h
            · intro h; injection h with h; exact absurd h hab
          · rw [upd_other _ _ _ _ e]
        · intro x hx _
          exact gone_upd _ _ _ _ (Or.inl (by rw [hp]; simp)) hx
      · simp at hs
  | delete b' s =>
    simp only [actorOf, Option.some.injEq] at hl; subst hl
    simp only [step] at hs
    split at hs
    · simp at hs; subst hs; exact Same.refl a st
    · rename_i p hp
      split at hs
      · simp at hs; subst hs; exact Same.refl a st
      · rename_i hx
        split at hs
        · rename_i hlk
          have hl' : st.c.locker s = some b' := by simpa using hlk
          simp at hs; subst hs
          have hx' : p.exclusive = true := by simpa using hx
          have hd : (deleteRaw st.c.parts s).1 = upd st.c.parts s none := by simp [deleteRaw, hp, hx']
          refine ⟨fun _ _ => rfl, rfl, ?_, ?_, Nat.le_refl _⟩
          · intro x
            show upd st.c.locker s none x = some a ↔ _
            by_cases e : x = s
            · subst e; rw [upd_same, hl']
              constructor
              · intro h; cases h
              · intro h; injection h with h; exact absurd h hab
            · rw [upd_other _ _ _ _ e]
          · intro x hxn _
            show (deleteRaw st.c.parts s).1 x = none
            rw [hd]; exact gone_upd _ _ _ _ (Or.inr rfl) hxn
        · simp at hs
  | visitBegin b' sel skipping noRelease =>
    simp only [actorOf, Option.some.injEq] at hl; subst hl
    simp only [step] at hs
    split at hs
    · simp at hs
    · split at hs
      · simp at hs; subst hs; exact Same.refl a st
      simp at hs; subst hs
      obtain ⟨f1, f2, _⟩ := snap_facts b' sel skipping (List.range st.c.next) st.c.parts st.c.holds
      refine ⟨fun s' au => f2 _ (Or.inl (Ne.symm hab)), ?_, fun _ => Iff.rfl, ?_, Nat.le_refl _⟩
      · show upd st.vis b' _ a = st.vis a
        rw [upd_other _ _ _ _ (Ne.symm hab)]
      · intro x hx _
        apply isNone_none; rw [f1 x]; simp [hx]
  | visitTry b' s =>
    simp only [actorOf, Option.some.injEq] at hl; subst hl
    simp only [step] at hs
    split at hs
    · simp at hs
    · split at hs
      · simp at hs
      · split at hs
        · simp at hs; subst hs
          exact ⟨fun _ _ => rfl, by show upd st.vis b' _ a = _; rw [upd_other _ _ _ _ (Ne.symm hab)], fun _ => Iff.rfl,
            fun _ hx _ => hx, Nat.le_refl _⟩
        split at hs
        · simp at hs; subst hs
          exact ⟨fun _ _ => rfl, by show upd st.vis b' _ a = _; rw [upd_other _ _ _ _ (Ne.symm hab)], fun _ => Iff.rfl,
            fun _ hx _ => hx, Nat.le_refl _⟩
        · rename_i p hp
          split at hs
          · simp at hs; subst hs; exact Same.refl a st
          · simp at hs; subst hs
            exact ⟨fun s' au => cnt_cons_other _ hab _ _ _ _,
              by show upd st.vis b' _ a = _; rw [upd_other _ _ _ _ (Ne.symm hab)], fun _ => Iff.rfl,
              fun x hx _ => gone_incDesc _ _ _ hp x hx, Nat.le_refl _⟩
  | visitCb b' s cont =>
    simp only [actorOf, Option.some.injEq] at hl; subst hl
    simp only [step] at hs
    split at hs
    · simp at hs
    · split at hs
      · split at hs
        · simp at hs; subst hs
          refine ⟨?_, by show upd st.vis b' _ a = _; rw [upd_other _ _ _ _ (Ne.symm hab)], fun _ => Iff.rfl,
            fun _ hx _ => hx, Nat.le_refl _⟩
          intro s' au
          show List.count _ (_ :: st.c.holds.erase _) = _
          rw [cnt_cons_other _ hab, cnt_erase_other _ hab]
        · simp at hs; subst hs
          exact ⟨fun _ _ => rfl, by show upd st.vis b' _ a = _; rw [upd_other _ _ _ _ (Ne.symm hab)], fun _ => Iff.rfl,
            fun _ hx _ => hx, Nat.le_refl _⟩
      · simp at hs
  | visitEnd b' =>
    simp only [actorOf, Option.some.injEq] at hl; subst hl
    simp only [step] at hs
    split at hs
    · simp at hs
    · rename_i v hva
      split at hs
      · rename_i hcond
        simp only [Bool.and_eq_true, List.all_eq_true] at hcond
        simp at hs; subst hs
        obtain ⟨_, i2, _⟩ := relAll_inv b' st.c.next st.c.locker v.owed st.c.parts st.c.holds hc
          (fun s hs' => hcond.2 s hs') (hv b' v hva)
        refine ⟨fun s' au => i2 _ (Or.inl (Ne.symm hab)),
          by show upd st.vis b' _ a = _; rw [upd_other _ _ _ _ (Ne.symm hab)], fun _ => Iff.rfl, ?_, Nat.le_refl _⟩
        intro x hx _
        apply isNone_none; rw [relAll_isNone]; simp [hx]
      · simp at hs

/-! ### the local invariant: control state ↔ tokens, visit, exclusive lock -/

def relK : Ctl → Prop
  | .fin => True
  | .idLoop _ _ _ => True
  | .vEnd _ _ => True
  | _ => False

/-- the continuations the programs build -/
def Shape : Ctl → Prop
  | .rel _ _ k => relK k
  | .dj _ s k => (∃ k', k = .rel s [] k' ∧ relK k') ∨ (∃ kind kept, k = .vRet kind s kept ∧ dnrOf kind = false)
  | .vRet kind _ _ => dnrOf kind = false      -- (only Truncate's visitor runs `deleteJournal`)
  | _ => True

def lockedAt : Ctl → Nat → Prop
  | .dj .delete s _, x => x = s
  | .dj .unlock s _, x => x = s
  | _, _ => False

def DjOK (a : Nat) (st : St) : Ctl → Prop
  | .dj .delete s _ => st.c.locker s = some a
  | .dj .unlock s _ => st.c.locker s = some a ∨ (st.c.parts s = none ∧ s < st.c.next)
  | _ => True

def PhaseOK (v : Visit) : VPhase → Prop
  | .pick => v.aborted = false ∧ v.cur = none
  | .cb s => cbOk v s = true
  | .fin => (v.pending = [] ∨ v.aborted = true) ∧ v.cur = none

def VisOK (a : Nat) (st : St) : Option (VKind × VPhase) → Prop
  | none => st.vis a = none
  | some (kind, ph) => ∃ v, st.vis a = some v ∧ v.skipping = skipOf kind ∧ v.noRelease = dnrOf kind ∧
      (skipOf kind = true → ∀ x, x ∈ v.pending → x ∈ v.owed) ∧ PhaseOK v ph

def owedCount (o : Option Visit) (s : Nat) : Nat :=
  match o with
  | some v => v.owed.count s
  | none => 0

/-- `o s`: the visit-owned acquisitions of `s` that a waiting `Visit` of this actor, interrupted by `Shutdown()`, left
behind (it returned without its final locked section); always 0 before `Shutdown()` -/
structure Local (o : Nat → Nat) (a : Nat) (c : Ctl) (st : St) : Prop where
  shape : Shape c
  cli : ∀ s, st.c.holds.count ⟨a, s, false⟩ = (heldOf c).count s
  aut : ∀ s, st.c.holds.count ⟨a, s, true⟩ = owedCount (st.vis a) s + o s
  vis : VisOK a st (visOf c)
  lck : ∀ s, st.c.locker s = some a → lockedAt c s
  dj : DjOK a st c

variable {o : Nat → Nat}

theorem visOK_same {a : Nat} {st st' : St} (h : st'.vis a = st.vis a) {o : Option (VKind × VPhase)}
    (hv : VisOK a st o) : VisOK a st' o := by
  cases o with
  | none => simp only [VisOK] at hv ⊢; rw [h]; exact hv
  | some kp => obtain ⟨kind, ph⟩ := kp; simp only [VisOK] at hv ⊢; rw [h]; exact hv

/-- a step of another actor keeps the local invariant -/
theorem local_frame {a : Nat} {c : Ctl} {st st' : St} (hs : Same a st st') (h : Local o a c st) : Local o a c st' := by
  refine ⟨h.shape, fun s => by rw [hs.tok]; exact h.cli s, fun s => by rw [hs.tok, hs.vis]; exact h.aut s,
    visOK_same hs.vis h.vis, fun s hl => h.lck s ((hs.lck s).mp hl), ?_⟩
  have hd := h.dj
  cases c with
  | dj ph s k =>
    cases ph with
    | lock => trivial
    | delete => exact (hs.lck s).mpr hd
    | unlock =>
      rcases hd with hd | ⟨h1, h2⟩
      · exact Or.inl ((hs.lck s).mpr hd)
      · exact Or.inr ⟨hs.gone s h1 h2, Nat.lt_of_lt_of_le h2 hs.next⟩
  | _ => trivial

theorem heldOf_relThen (l : List Nat) (k : Ctl) : heldOf (relThen l k) = l ++ heldOf k := by
  cases l <;> simp [relThen, heldOf]

theorem visOf_relThen (l : List Nat) (k : Ctl) : visOf (relThen l k) = visOf k := by
  cases l <;> simp [relThen, visOf]

theorem relK_idLoopOf (r : List Nat) (d : Bool) : relK (idLoopOf r d) := by cases r <;> simp [idLoopOf, relK]

theorem shape_relThen (l : List Nat) (k : Ctl) (hk : relK k) : Shape (relThen l k) := by
  cases l with
  | nil => cases k <;> simp_all [relThen, Shape, relK]
  | cons s r => simpa [relThen, Shape] using hk

theorem lockedAt_relK (k : Ctl) (hk : relK k) (x : Nat) : ¬ lockedAt k x := by
  cases k <;> simp_all [relK, lockedAt]

theorem djOK_relK (a : Nat) (st : St) (k : Ctl) (hk : relK k) : DjOK a st k := by
  cases k <;> simp_all [relK, DjOK]

theorem lockedAt_relThen (l : List Nat) (k : Ctl) (hk : relK k) (x : Nat) : ¬ lockedAt (relThen l k) x := by
  cases l with
  | nil => exact lockedAt_relK k hk x
  | cons s r => simp [relThen, lockedAt]

theorem djOK_relThen (a : Nat) (st : St) (l : List Nat) (k : Ctl) (hk : relK k) : DjOK a st (relThen l k) := by
  cases l with
  | nil => exact djOK_relK a st k hk
  | cons s r => simp [relThen, DjOK]

theorem shape_afterVisit (kind : VKind) (kept : List Nat) : Shape (afterVisit kind kept) ∧
    (∀ x, ¬ lockedAt (afterVisit kind kept) x) ∧ (∀ a st, DjOK a st (afterVisit kind kept)) ∧
    visOf (afterVisit kind kept) = none ∧ ∀ x, (heldOf (afterVisit kind kept)).count x = kept.count x := by
  cases kind with
  | partitions =>
    exact ⟨shape_relThen _ _ trivial, lockedAt_relThen _ _ trivial, fun a st => djOK_relThen a st _ _ trivial,
      by rw [afterVisit, visOf_relThen]; rfl, fun x => by rw [afterVisit, heldOf_relThen]; simp [heldOf]⟩
  | getJournals =>
    exact ⟨shape_relThen _ _ trivial, lockedAt_relThen _ _ trivial, fun a st => djOK_relThen a st _ _ trivial,
      by rw [afterVisit, visOf_relThen]; rfl, fun x => by rw [afterVisit, heldOf_relThen]; simp [heldOf]⟩
  | truncate items =>
    refine ⟨shape_relThen _ _ (relK_idLoopOf _ _), lockedAt_relThen _ _ (relK_idLoopOf _ _),
      fun a st => djOK_relThen a st _ _ (relK_idLoopOf _ _), ?_, ?_⟩
    · rw [afterVisit, visOf_relThen]; cases items <;> rfl
    · intro x; rw [afterVisit, heldOf_relThen]; cases items <;> simp [idLoopOf, heldOf]

/-! ### a step of the actor itself -/

theorem cnt_cons_self_false (holds : List Tok) (a s x : Nat) :
    ((⟨a, s, false⟩ : Tok) :: holds).count ⟨a, x, false⟩ = holds.count ⟨a, x, false⟩ + (if s = x then 1 else 0) := by
  rw [List.count_cons]
  by_cases e : s = x <;> simp [e]

theorem cnt_cons_self_true (holds : List Tok) (a s x : Nat) :
    ((⟨a, s, true⟩ : Tok) :: holds).count ⟨a, x, true⟩ = holds.count ⟨a, x, true⟩ + (if s = x then 1 else 0) := by
  rw [List.count_cons]
  by_cases e : s = x <;> simp [e]

theorem cnt_cons_tf (holds : List Tok) (a s x : Nat) :
    ((⟨a, s, true⟩ : Tok) :: holds).count ⟨a, x, false⟩ = holds.count ⟨a, x, false⟩ := by
  rw [List.count_cons_of_ne]; simp

theorem cnt_erase_tf (holds : List Tok) (a s x : Nat) :
    (holds.erase (⟨a, s, true⟩ : Tok)).count ⟨a, x, false⟩ = holds.count ⟨a, x, false⟩ := by
  rw [List.count_erase_of_ne]; simp

theorem cnt_erase_self (holds : List Tok) (a s x : Nat) (au : Bool) :
    (holds.erase (⟨a, s, au⟩ : Tok)).count ⟨a, x, au⟩ = holds.count ⟨a, x, au⟩ - (if s = x then 1 else 0) := by
  by_cases e : s = x
  · subst e; rw [List.count_erase_self]; simp
  · rw [List.count_erase_of_ne (by simp; exact fun h => e h.symm)]; simp [e]

theorem cnt_list (l : List Nat) (s x : Nat) : (s :: l).count x = l.count x + (if s = x then 1 else 0) := by
  rw [List.count_cons]; by_cases e : s = x <;> simp [e]

/-- acquiring a client token of one's own -/
theorem local_client_acq {a : Nat} {c c' : Ctl} {st : St} (h : Local o a c st) (s : Nat) (st' : St)
    (hh : st'.c.holds = ⟨a, s, false⟩ :: st.c.holds) (hv : st'.vis = st.vis) (hl : st'.c.locker = st.c.locker)
    (hsh : Shape c') (hheld : ∀ x, (heldOf c').count x = (heldOf c).count x + (if s = x then 1 else 0))
    (hvis : visOf c' = visOf c) (hno : ∀ x, ¬ lockedAt c x) (hdj : DjOK a st' c') :
    Local o a c' st' := by
  refine ⟨hsh, ?_, ?_, ?_, ?_, hdj⟩
  · intro x; rw [hh, cnt_cons_self_false, h.cli x, hheld x]
  · intro x; rw [hh, count_cons_false, hv]; exact h.aut x
  · rw [hvis]; exact visOK_same (by rw [hv]) h.vis
  · intro x hl'; rw [hl] at hl'; exact absurd (h.lck x hl') (hno x)

/-- a step that changes nothing the actor can see, to a control state with the same obligations -/
theorem local_skip {a : Nat} {c c' : Ctl} {st : St} (h : Local o a c st)
    (hsh : Shape c') (hheld : ∀ x, (heldOf c').count x = (heldOf c).count x)
    (hvis : visOf c' = visOf c) (hno : ∀ x, ¬ lockedAt c x) (hdj : DjOK a st c') : Local o a c' st := by
  refine ⟨hsh, fun x => by rw [h.cli x, hheld x], h.aut, by rw [hvis]; exact h.vis, ?_, hdj⟩
  intro x hl; exact absurd (h.lck x hl) (hno x)

theorem shape_idLoopOf (r : List Nat) (d : Bool) : Shape (idLoopOf r d) := by cases r <;> simp [idLoopOf, Shape]
theorem heldOf_idLoopOf (r : List Nat) (d : Bool) : heldOf (idLoopOf r d) = [] := by cases r <;> simp [idLoopOf, heldOf]
theorem visOf_idLoopOf (r : List Nat) (d : Bool) : visOf (idLoopOf r d) = none := by cases r <;> simp [idLoopOf, visOf]
theorem djOK_idLoopOf (a : Nat) (st : St) (r : List Nat) (d : Bool) : DjOK a st (idLoopOf r d) := by
  cases r <;> simp [idLoopOf, DjOK]
theorem shape_peekOf (r : List Nat) : Shape (peekOf r) := by cases r <;> simp [peekOf, Shape]
theorem heldOf_peekOf (r : List Nat) : heldOf (peekOf r) = [] := by cases r <;> simp [peekOf, heldOf]
theorem visOf_peekOf (r : List Nat) : visOf (peekOf r) = none := by cases r <;> simp [peekOf, visOf]
theorem djOK_peekOf (a : Nat) (st : St) (r : List Nat) : DjOK a st (peekOf r) := by cases r <;> simp [peekOf, DjOK]

theorem own_acqTags {a : Nat} {st : St} (tags : Nat) (create : Bool) (hd : st.done = false)
    (h : Local o a (.acqTags tags create) st) (l : Lbl) (c' : Ctl) (ho : (l, c') ∈ pnext a st (.acqTags tags create)) :
    ∃ st', step st l = some st' ∧ Local o a c' st' := by
  have hno : ∀ x, ¬ lockedAt (.acqTags tags create) x := fun x => by simp [lockedAt]
  simp only [pnext, hd, Bool.false_eq_true, if_false] at ho
  cases hf : findTags st.c.parts tags st.c.next with
  | some s =>
    simp only [hf] at ho
    cases hp : st.c.parts s with
    | some p =>
      simp only [hp] at ho
      by_cases hx : p.exclusive = true
      · simp only [hx, if_true, List.mem_singleton, Prod.mk.injEq] at ho
        obtain ⟨rfl, rfl⟩ := ho
        exact ⟨st, by simp [step, hd, hf, hp, hx], h⟩
      · simp only [hx, Bool.false_eq_true, if_false, List.mem_singleton, Prod.mk.injEq] at ho
        obtain ⟨rfl, rfl⟩ := ho
        refine ⟨_, by simp [step, hd, hf, hp, hx]; rfl, ?_⟩
        exact local_client_acq (c' := .rel s [] .fin) h s _ rfl rfl rfl (by simp [Shape, relK]) (fun x => by show List.count x [s] = List.count x [] + _; rw [cnt_list]) rfl hno
          (by simp [DjOK])
    | none =>
      simp only [hp, List.mem_singleton, Prod.mk.injEq] at ho
      obtain ⟨rfl, rfl⟩ := ho
      exact ⟨st, by simp [step, hd, hf, hp], local_skip (c' := .fin) h (by simp [Shape]) (fun x => by simp [heldOf]) rfl hno (by simp [DjOK])⟩
  | none =>
    simp only [hf] at ho
    by_cases hc : create = true
    · simp only [hc, if_true, List.mem_singleton, Prod.mk.injEq] at ho
      obtain ⟨rfl, rfl⟩ := ho
      refine ⟨_, by simp [step, hd, hf, hc]; rfl, ?_⟩
      exact local_client_acq (c' := .rel st.c.next [] .fin) h st.c.next _ rfl rfl rfl (by simp [Shape, relK]) (fun x => by show List.count x [st.c.next] = List.count x [] + _; rw [cnt_list]) rfl hno
        (by simp [DjOK])
    · simp only [hc, Bool.false_eq_true, if_false, List.mem_singleton, Prod.mk.injEq] at ho
      obtain ⟨rfl, rfl⟩ := ho
      exact ⟨st, by simp [step, hd, hf, hc], local_skip (c' := .fin) h (by simp [Shape]) (fun x => by simp [heldOf]) rfl hno (by simp [DjOK])⟩

def stAcq (st : St) (s : Nat) (p : Part) (t : Tok) : St :=
  { st with c := { st.c with parts := incDesc st.c.parts s p, holds := t :: st.c.holds } }
def stRel (st : St) (parts' : Nat → Option Part) (t : Tok) : St :=
  { st with c := { st.c with parts := parts', holds := st.c.holds.erase t } }

theorem mem_of_count_pos {t : Tok} {l : List Tok} (h : 1 ≤ l.count t) : t ∈ l := List.one_le_count_iff.mp h

theorem own_rel {a : Nat} {st : St} (s : Nat) (l : List Nat) (k : Ctl) (hi : StInv st)
    (h : Local o a (.rel s l k) st) (lb : Lbl) (c' : Ctl) (ho : (lb, c') ∈ pnext a st (.rel s l k)) :
    ∃ st', step st lb = some st' ∧ Local o a c' st' := by
  simp only [pnext, List.mem_singleton, Prod.mk.injEq] at ho
  obtain ⟨rfl, rfl⟩ := ho
  have hnl : ∀ x, st.c.locker x ≠ some a := fun x hl => by have := h.lck x hl; simp [lockedAt] at this
  have hm : (⟨a, s, false⟩ : Tok) ∈ st.c.holds := by
    apply mem_of_count_pos; rw [h.cli s]; simp [heldOf]
  have hmay : mayRelease st.c a s = true := by
    simp only [mayRelease, Bool.or_eq_true]; right; simpa using hnl s
  have hk : relK k := h.shape
  have hcont : st.c.holds.contains (⟨a, s, false⟩ : Tok) = true := List.contains_iff_mem.mpr hm
  have key : ∀ st' : St, st'.c.holds = st.c.holds.erase ⟨a, s, false⟩ → st'.vis = st.vis → st'.c.locker = st.c.locker →
      Local o a (relThen l k) st' := by
    intro st' hh hv hl
    refine ⟨shape_relThen l k hk, ?_, ?_, ?_, ?_, djOK_relThen a st' l k hk⟩
    · intro x
      rw [hh, cnt_erase_self, h.cli x, heldOf_relThen]
      show (s :: (l ++ heldOf k)).count x - _ = _
      rw [cnt_list]; omega
    · intro x; rw [hh, count_erase_false, hv]; exact h.aut x
    · rw [visOf_relThen]; exact visOK_same (by rw [hv]) h.vis
    · intro x hl'; rw [hl] at hl'; exact absurd hl' (hnl x)
  rcases relRaw_of_inv st.c hi.core a s false hm hmay with hr | ⟨hn, hr⟩
  · have hstep : step st (.release a s) = some (stRel st (decDesc st.c.parts s) ⟨a, s, false⟩) := by
      simp [step, stRel, hcont, hm, hmay, hr]
    exact ⟨_, hstep, key _ rfl rfl rfl⟩
  · have hstep : step st (.release a s) = some (stRel st st.c.parts ⟨a, s, false⟩) := by
      simp [step, stRel, hcont, hm, hmay, hr]
    exact ⟨_, hstep, key _ rfl rfl rfl⟩

theorem own_idLoop {a : Nat} {st : St} (s : Nat) (rest : List Nat) (del : Bool) (hd : st.done = false)
    (h : Local o a (.idLoop s rest del) st) (l : Lbl) (c' : Ctl) (ho : (l, c') ∈ pnext a st (.idLoop s rest del)) :
    ∃ st', step st l = some st' ∧ Local o a c' st' := by
  have hno : ∀ x, ¬ lockedAt (.idLoop s rest del) x := fun x => by simp [lockedAt]
  have hskip : Local o a (idLoopOf rest del) st :=
    local_skip h (shape_idLoopOf _ _) (fun x => by rw [heldOf_idLoopOf]; simp [heldOf])
      (by rw [visOf_idLoopOf]; rfl) hno (djOK_idLoopOf _ _ _ _)
  simp only [pnext, acqById, hd, Bool.false_eq_true, if_false] at ho
  cases hp : st.c.parts s with
  | none =>
    simp only [hp, List.mem_singleton, Prod.mk.injEq] at ho
    obtain ⟨rfl, rfl⟩ := ho
    exact ⟨st, by simp [step, hd, hp], hskip⟩
  | some p =>
    simp only [hp] at ho
    by_cases hx : p.exclusive = true
    · simp only [hx, if_true, List.mem_singleton, Prod.mk.injEq] at ho
      obtain ⟨rfl, rfl⟩ := ho
      exact ⟨st, by simp [step, hd, hp, hx], h⟩
    · simp only [hx, Bool.false_eq_true, if_false] at ho
      have hstep : step st (.getTags a s true) = some (stAcq st s p ⟨a, s, false⟩) := by
        simp [step, stAcq, hd, hp, hx]
      have one : ∀ x, List.count x [s] = List.count x [] + (if s = x then 1 else 0) := fun x => by rw [cnt_list]
      have hrel : Local o a (.rel s [] (idLoopOf rest del)) (stAcq st s p ⟨a, s, false⟩) :=
        local_client_acq h s _ rfl rfl rfl (relK_idLoopOf _ _)
          (fun x => by show List.count x (s :: ([] ++ heldOf (idLoopOf rest del))) = _; rw [heldOf_idLoopOf]; exact one x)
          (by show visOf (idLoopOf rest del) = none; exact visOf_idLoopOf _ _) hno (by simp [DjOK])
      have hdj : Local o a (.dj .lock s (.rel s [] (idLoopOf rest del))) (stAcq st s p ⟨a, s, false⟩) :=
        local_client_acq h s _ rfl rfl rfl (Or.inl ⟨_, rfl, relK_idLoopOf _ _⟩)
          (fun x => by show List.count x (s :: ([] ++ heldOf (idLoopOf rest del))) = _; rw [heldOf_idLoopOf]; exact one x)
          (by show visOf (idLoopOf rest del) = none; exact visOf_idLoopOf _ _) hno (by simp [DjOK])
      by_cases hdl : del = true
      · simp only [hdl, if_true, List.mem_cons, Prod.mk.injEq, List.not_mem_nil, or_false] at ho
        rcases ho with ⟨rfl, rfl⟩ | ⟨rfl, rfl⟩
        · exact ⟨_, hstep, by rw [hdl] at hdj; exact hdj⟩
        · exact ⟨_, hstep, by rw [hdl] at hrel; exact hrel⟩
      · simp only [hdl, Bool.false_eq_true, if_false, List.mem_singleton, Prod.mk.injEq] at ho
        obtain ⟨rfl, rfl⟩ := ho
        have hdf : del = false := by simpa using hdl
        exact ⟨_, hstep, by rw [hdf] at hrel; exact hrel⟩

theorem own_peek {a : Nat} {st : St} (s : Nat) (rest : List Nat) (hd : st.done = false)
    (h : Local o a (.peek s rest) st) (l : Lbl) (c' : Ctl) (ho : (l, c') ∈ pnext a st (.peek s rest)) :
    ∃ st', step st l = some st' ∧ Local o a c' st' := by
  have hno : ∀ x, ¬ lockedAt (.peek s rest) x := fun x => by simp [lockedAt]
  have hskip : Local o a (peekOf rest) st :=
    local_skip h (shape_peekOf _) (fun x => by rw [heldOf_peekOf]; simp [heldOf])
      (by rw [visOf_peekOf]; rfl) hno (djOK_peekOf _ _ _)
  simp only [pnext, acqById, hd, Bool.false_eq_true, if_false] at ho
  cases hp : st.c.parts s with
  | none =>
    simp only [hp, List.mem_singleton, Prod.mk.injEq] at ho
    obtain ⟨rfl, rfl⟩ := ho
    exact ⟨st, by simp [step, hd, hp], hskip⟩
  | some p =>
    simp only [hp] at ho
    by_cases hx : p.exclusive = true
    · simp only [hx, if_true, List.mem_singleton, Prod.mk.injEq] at ho
      obtain ⟨rfl, rfl⟩ := ho
      exact ⟨st, by simp [step, hd, hp, hx], h⟩
    · simp only [hx, Bool.false_eq_true, if_false, List.mem_singleton, Prod.mk.injEq] at ho
      obtain ⟨rfl, rfl⟩ := ho
      exact ⟨st, by simp [step, hd, hp, hx], hskip⟩

/-! ### deleteJournal -/

def stLock (st : St) (s : Nat) (p : Part) (a : Nat) : St :=
  { st with c := { st.c with parts := upd st.c.parts s (some { p with exclusive := true }), locker := upd st.c.locker s (some a) } }
def stUnl (st : St) (parts' : Nat → Option Part) (s : Nat) : St :=
  { st with c := { st.c with parts := parts', locker := upd st.c.locker s none } }

theorem holds_of_local_dj {a : Nat} {st : St} {ph : DjPh} {s : Nat} {k : Ctl} (h : Local o a (.dj ph s k) st) :
    holdsAny st.c.holds a s = true := by
  rcases h.shape with ⟨k', rfl, _⟩ | ⟨kind, kept, rfl, _⟩
  · have hm : (⟨a, s, false⟩ : Tok) ∈ st.c.holds := by
      apply mem_of_count_pos; rw [h.cli s]; simp [heldOf]
    simp [holdsAny, hm]
  · obtain ⟨v, hv, _, _, _, hph⟩ := h.vis
    have hso : s ∈ v.owed := by
      simp only [PhaseOK, cbOk, Bool.and_eq_true, List.contains_iff_mem] at hph; exact hph.2
    have hm : (⟨a, s, true⟩ : Tok) ∈ st.c.holds := by
      apply mem_of_count_pos; rw [h.aut s, hv]; have := List.one_le_count_iff.mpr hso; simp only [owedCount]; omega
    simp [holdsAny, hm]

/-- going on with the continuation of `deleteJournal` when the actor holds no exclusive lock -/
theorem local_to_k {a : Nat} {c k : Ctl} {st st' : St} {s : Nat} (h : Local o a c st)
    (hh : st'.c.holds = st.c.holds) (hv : st'.vis = st.vis) (hnl : ∀ x, st'.c.locker x ≠ some a)
    (hsh : Shape (.dj .lock s k)) (hheld : ∀ x, (heldOf k).count x = (heldOf c).count x) (hvis : VisOK a st (visOf k)) :
    Local o a k st' := by
  have hk : Shape k ∧ DjOK a st' k := by
    rcases hsh with ⟨k', rfl, hr⟩ | ⟨kind, kept, rfl, hdn⟩
    · exact ⟨hr, by simp [DjOK]⟩
    · exact ⟨hdn, by simp [DjOK]⟩
  refine ⟨hk.1, fun x => by rw [hh, h.cli x, hheld x], fun x => by rw [hh, hv]; exact h.aut x,
    visOK_same (by rw [hv]) hvis, fun x hl => absurd hl (hnl x), hk.2⟩

theorem lock_step {a : Nat} {st : St} {c : Ctl} (h : Local o a c st) (hno : ∀ x, ¬ lockedAt c x)
    (s : Nat) (k : Ctl) (hany : holdsAny st.c.holds a s = true) (hsh : Shape (.dj .lock s k))
    (hheld : ∀ x, (heldOf k).count x = (heldOf c).count x) (hvis : VisOK a st (visOf k))
    (lb : Lbl) (c' : Ctl) (ho : (lb, c') ∈ djOpts a st .lock s k) :
    ∃ st', step st lb = some st' ∧ Local o a c' st' := by
  have hnl : ∀ x, st.c.locker x ≠ some a := fun x hl => hno x (h.lck x hl)
  have hfail : lockOk st s = false → ∃ st', step st lb = some st' ∧ Local o a c' st' := by
    intro hf
    simp only [djOpts, hf, Bool.false_eq_true, if_false, List.mem_singleton, Prod.mk.injEq] at ho
    obtain ⟨rfl, rfl⟩ := ho
    refine ⟨st, ?_, local_to_k h rfl rfl hnl hsh hheld hvis⟩
    unfold lockOk at hf
    simp only [step, hany, if_true]
    cases hr : lockRaw st.c.parts s with
    | mk parts' b => rw [hr] at hf; simp only [] at hf; subst hf; rfl
  cases hp : st.c.parts s with
  | none => exact hfail (by simp [lockOk, lockRaw, hp])
  | some p =>
    by_cases hcnd : (!p.exclusive && p.readers == 1) = true
    · have hok : lockOk st s = true := by simp [lockOk, lockRaw, hp, hcnd]
      have hstep : step st (.lockX a s) = some (stLock st s p a) := by
        simp [step, stLock, hany, lockRaw, hp, hcnd]
      have key : ∀ ph, ph ≠ DjPh.lock → Local o a (.dj ph s k) (stLock st s p a) := by
        intro ph hph
        refine ⟨hsh, fun x => by rw [show (stLock st s p a).c.holds = st.c.holds from rfl, h.cli x]; exact (hheld x).symm,
          h.aut, by show VisOK a _ (visOf k); exact visOK_same rfl hvis, ?_, ?_⟩
        · intro x hl
          have hl' : upd st.c.locker s (some a) x = some a := hl
          by_cases e : x = s
          · subst e; cases ph <;> simp_all [lockedAt]
          · rw [upd_other _ _ _ _ e] at hl'; exact absurd hl' (hnl x)
        · have : upd st.c.locker s (some a) s = some a := upd_same _ _ _
          cases ph with
          | lock => exact absurd rfl hph
          | delete => exact this
          | unlock => exact Or.inl this
      simp only [djOpts, hok, if_true, List.mem_cons, Prod.mk.injEq, List.not_mem_nil, or_false] at ho
      rcases ho with ⟨rfl, rfl⟩ | ⟨rfl, rfl⟩
      · exact ⟨_, hstep, key _ (by simp)⟩
      · exact ⟨_, hstep, key _ (by simp)⟩
    · exact hfail (by simp [lockOk, lockRaw, hp, hcnd])

theorem own_dj {a : Nat} {st : St} (ph : DjPh) (s : Nat) (k : Ctl) (hi : StInv st)
    (h : Local o a (.dj ph s k) st) (lb : Lbl) (c' : Ctl) (ho : (lb, c') ∈ pnext a st (.dj ph s k)) :
    ∃ st', step st lb = some st' ∧ Local o a c' st' := by
  simp only [pnext] at ho
  cases ph with
  | lock =>
    exact lock_step h (fun x => by simp [lockedAt]) s k (holds_of_local_dj h) h.shape (fun _ => rfl) h.vis lb c' ho
  | delete =>
    simp only [djOpts, List.mem_singleton, Prod.mk.injEq] at ho
    obtain ⟨rfl, rfl⟩ := ho
    have hl : st.c.locker s = some a := h.dj
    obtain ⟨p, hp, hx⟩ := hi.core.lck s a hl
    have hlt : s < st.c.next := by
      rcases Nat.lt_or_ge s st.c.next with h1 | h1
      · exact h1
      · rw [hi.core.fresh s h1] at hp; cases hp
    have hstep : step st (.delete a s) = some (stUnl st (upd st.c.parts s none) s) := by
      simp [step, stUnl, hp, hx, hl, deleteRaw]
    refine ⟨_, hstep, h.shape, h.cli, h.aut, visOK_same rfl h.vis, ?_, ?_⟩
    · intro x hlx
      have hl' : upd st.c.locker s none x = some a := hlx
      by_cases e : x = s
      · subst e; rw [upd_same] at hl'; cases hl'
      · rw [upd_other _ _ _ _ e] at hl'
        have := h.lck x hl'; simp only [lockedAt] at this; exact absurd this e
    · exact Or.inr ⟨upd_same _ _ _, hlt⟩
  | unlock =>
    simp only [djOpts, List.mem_singleton, Prod.mk.injEq] at ho
    obtain ⟨rfl, rfl⟩ := ho
    cases hp : st.c.parts s with
    | none =>
      refine ⟨st, by simp [step, hp], local_to_k h rfl rfl ?_ h.shape (fun _ => rfl) h.vis⟩
      intro x hl
      have := h.lck x hl; simp only [lockedAt] at this; subst this
      obtain ⟨p, hp', _⟩ := hi.core.lck _ _ hl
      rw [hp] at hp'; cases hp'
    | some p0 =>
      have hl : st.c.locker s = some a := by
        rcases h.dj with hl | ⟨hn, _⟩
        · exact hl
        · rw [hp] at hn; cases hn
      obtain ⟨p, hp', hx⟩ := hi.core.lck s a hl
      obtain ⟨hr1, _⟩ := hi.core.excl s p hp' hx
      have hstep : step st (.unlockX a s) = some (stUnl st (upd st.c.parts s (some { p with exclusive := false })) s) := by
        rw [hp] at hp'; cases hp'
        simp [step, stUnl, hp, hl, unlockRaw, hx, hr1]
      refine ⟨_, hstep, local_to_k h rfl rfl ?_ h.shape (fun _ => rfl) h.vis⟩
      intro x hlx
      have hl' : upd st.c.locker s none x = some a := hlx
      by_cases e : x = s
      · subst e; rw [upd_same] at hl'; cases hl'
      · rw [upd_other _ _ _ _ e] at hl'
        have := h.lck x hl'; simp only [lockedAt] at this; exact absurd this e

/-! ### Visit -/

def stVis (st : St) (a : Nat) (o : Option Visit) : St := { st with vis := upd st.vis a o }
def stEnd (st : St) (a : Nat) (owed : List Nat) : St :=
  { st with c := { st.c with parts := (relAll a owed st.c.parts st.c.holds).1, holds := (relAll a owed st.c.parts st.c.holds).2 },
            vis := upd st.vis a none }
def stConv (st : St) (a s : Nat) (o : Option Visit) : St :=
  { st with c := { st.c with holds := ⟨a, s, false⟩ :: st.c.holds.erase ⟨a, s, true⟩ }, vis := upd st.vis a o }
def stTry (st : St) (a s : Nat) (p : Part) (o : Option Visit) : St :=
  { st with c := { st.c with parts := incDesc st.c.parts s p, holds := ⟨a, s, true⟩ :: st.c.holds }, vis := upd st.vis a o }

/-- the final locked section -/
theorem end_step {a : Nat} {st : St} {c : Ctl} (hi : StInv st) (h : Local o a c st) (hno : ∀ x, ¬ lockedAt c x)
    (v : Visit) (hv : st.vis a = some v) (hfin : (v.pending.isEmpty || v.aborted) = true) (hcur : v.cur = none)
    (kind : VKind) (kept : List Nat) (hheld : ∀ x, (heldOf c).count x = kept.count x) :
    ∃ st', step st (.visitEnd a) = some st' ∧ Local o a (afterVisit kind kept) st' := by
  have hnl : ∀ x, st.c.locker x ≠ some a := fun x hl => hno x (h.lck x hl)
  have hmay : ∀ x, x ∈ v.owed → mayRelease st.c a x = true := by
    intro x _; simp only [mayRelease, Bool.or_eq_true]; right; simpa using hnl x
  have hall : v.owed.all (mayRelease st.c a) = true := List.all_eq_true.mpr hmay
  have hcnt : ∀ x, v.owed.count x ≤ st.c.holds.count ⟨a, x, true⟩ := by
    intro x; rw [h.aut x, hv]; simp only [owedCount]; omega
  obtain ⟨_, i2, i3⟩ := relAll_inv a st.c.next st.c.locker v.owed st.c.parts st.c.holds hi.core hmay hcnt
  have hstep : step st (.visitEnd a) = some (stEnd st a v.owed) := by
    simp [step, stEnd, hv, hfin, hcur, hall]
  obtain ⟨a1, a2, a3, a4, a5⟩ := shape_afterVisit kind kept
  refine ⟨_, hstep, a1, ?_, ?_, ?_, ?_, a3 _ _⟩
  · intro x
    show List.count _ (relAll a v.owed st.c.parts st.c.holds).2 = _
    rw [i2 _ (Or.inr rfl), h.cli x, hheld x, a5 x]
  · intro x
    show List.count _ (relAll a v.owed st.c.parts st.c.holds).2 = owedCount (upd st.vis a none a) x + o x
    rw [upd_same]
    have := i3 x
    have h2 := h.aut x
    rw [hv] at h2
    simp only [owedCount] at h2 ⊢
    omega
  · rw [a4]; show upd st.vis a none a = none; exact upd_same _ _ _
  · intro x hl; exact absurd hl (hnl x)

theorem cnt_list_erase (l : List Nat) (s x : Nat) : (l.erase s).count x = l.count x - (if s = x then 1 else 0) := by
  by_cases e : s = x
  · subst e; rw [List.count_erase_self]; simp
  · rw [List.count_erase_of_ne (fun h => e h.symm)]; simp [e]

/-- the visitor returns (continue / abort), auto-release visits -/
theorem ret_step {a : Nat} {st : St} {c : Ctl} (h : Local o a c st) (hno : ∀ x, ¬ lockedAt c x)
    (v : Visit) (hv : st.vis a = some v) (kind : VKind) (hsk : v.skipping = skipOf kind) (hnr : v.noRelease = dnrOf kind)
    (hsub : skipOf kind = true → ∀ x, x ∈ v.pending → x ∈ v.owed) (hdn : dnrOf kind = false)
    (s : Nat) (hcb : cbOk v s = true) (kept : List Nat) (hheld : ∀ x, (heldOf c).count x = kept.count x)
    (lb : Lbl) (c' : Ctl) (ho : (lb, c') ∈ retOpts a kind s kept) :
    ∃ st', step st lb = some st' ∧ Local o a c' st' := by
  have hnl : ∀ x, st.c.locker x ≠ some a := fun x hl => hno x (h.lck x hl)
  have hnr' : v.noRelease = false := by rw [hnr, hdn]
  have key : ∀ (cont : Bool) (c'' : Ctl), Shape c'' → (∀ x, ¬ lockedAt c'' x) → (∀ st', DjOK a st' c'') →
      (∀ x, (heldOf c'').count x = kept.count x) →
      visOf c'' = some (kind, if cont then VPhase.pick else VPhase.fin) →
      ∃ st', step st (.visitCb a s cont) = some st' ∧ Local o a c'' st' := by
    intro cont c'' h1 h2 h3 h4 h5
    refine ⟨stVis st a (some { v with pending := v.pending.erase s, cur := none, aborted := !cont }),
      by simp [step, stVis, hv, hcb, hnr'], h1, fun x => by rw [h4 x, ← hheld x]; exact h.cli x, ?_, ?_,
      fun x hl => absurd hl (hnl x), h3 _⟩
    · intro x
      show List.count _ st.c.holds = owedCount (upd st.vis a _ a) x + o x
      rw [upd_same, h.aut x, hv]; rfl
    · rw [h5]
      refine ⟨_, upd_same _ _ _, hsk, hnr, ?_, ?_⟩
      · intro hs x hx; exact hsub hs x (List.mem_of_mem_erase hx)
      · cases cont <;> simp [PhaseOK]
  simp only [retOpts, List.mem_cons, Prod.mk.injEq, List.not_mem_nil, or_false] at ho
  rcases ho with ⟨rfl, rfl⟩ | ⟨rfl, rfl⟩
  · exact key true _ (by simp [Shape]) (fun x => by simp [lockedAt]) (fun _ => by simp [DjOK]) (fun _ => rfl) rfl
  · exact key false _ (by simp [Shape]) (fun x => by simp [lockedAt]) (fun _ => by simp [DjOK]) (fun _ => rfl) rfl

/-- the visitor of `GetJournals` returns: the entry becomes the client's (`VF_DO_NOT_RELEASE`) -/
theorem gj_step {a : Nat} {st : St} {c : Ctl} (h : Local o a c st) (hno : ∀ x, ¬ lockedAt c x)
    (v : Visit) (hv : st.vis a = some v) (hsk : v.skipping = false) (hnr : v.noRelease = true)
    (s : Nat) (hcb : cbOk v s = true) (kept : List Nat) (hheld : ∀ x, (heldOf c).count x = kept.count x)
    (lb : Lbl) (c' : Ctl) (ho : (lb, c') ∈ cbOpts a st .getJournals s kept) :
    ∃ st', step st lb = some st' ∧ Local o a c' st' := by
  have hnl : ∀ x, st.c.locker x ≠ some a := fun x hl => hno x (h.lck x hl)
  have key : ∀ (cont : Bool) (c'' : Ctl), Shape c'' → (∀ x, ¬ lockedAt c'' x) → (∀ st', DjOK a st' c'') →
      (∀ x, (heldOf c'').count x = (s :: kept).count x) →
      visOf c'' = some (VKind.getJournals, if cont then VPhase.pick else VPhase.fin) →
      ∃ st', step st (.visitCb a s cont) = some st' ∧ Local o a c'' st' := by
    intro cont c'' h1 h2 h3 h4 h5
    refine ⟨stConv st a s (some { v with pending := v.pending.erase s, cur := none, aborted := !cont, owed := v.owed.erase s }),
      by simp [step, stConv, hv, hcb, hnr], h1, ?_, ?_, ?_, fun x hl => absurd hl (hnl x), h3 _⟩
    · intro x
      show List.count _ (_ :: st.c.holds.erase _) = _
      rw [cnt_cons_self_false, cnt_erase_tf, h.cli x, hheld x, h4 x, cnt_list]
    · intro x
      show List.count _ (_ :: st.c.holds.erase _) = owedCount (upd st.vis a _ a) x + o x
      rw [upd_same, count_cons_false, cnt_erase_self, h.aut x, hv]
      simp only [owedCount]; rw [cnt_list_erase]
      have hso : s ∈ v.owed := by
        simp only [cbOk, Bool.and_eq_true, List.contains_iff_mem] at hcb; exact hcb.2
      have h1 := List.one_le_count_iff.mpr hso
      by_cases e : s = x
      · subst e; simp only [if_true]; omega
      · simp only [e, if_false]; omega
    · rw [h5]
      refine ⟨_, upd_same _ _ _, hsk, hnr, by simp [skipOf], ?_⟩
      cases cont <;> simp [PhaseOK]
  simp only [cbOpts, List.mem_cons, Prod.mk.injEq, List.not_mem_nil, or_false] at ho
  rcases ho with ⟨rfl, rfl⟩ | ⟨rfl, rfl⟩ | ⟨rfl, rfl⟩
  · exact key true _ (by simp [Shape]) (fun x => by simp [lockedAt]) (fun _ => by simp [DjOK]) (fun _ => rfl) rfl
  · exact key false _ (by simp [Shape]) (fun x => by simp [lockedAt]) (fun _ => by simp [DjOK]) (fun _ => rfl) rfl
  · exact key false _ (by simp [Shape, relK]) (fun x => by simp [lockedAt]) (fun _ => by simp [DjOK])
      (fun _ => by simp [heldOf]) rfl

def stBegin (st : St) (a : Nat) (sel : List Nat) (sk nr : Bool) : St :=
  { st with c := { st.c with parts := (snap a sel sk (List.range st.c.next) st.c.parts st.c.holds).1,
                             holds := (snap a sel sk (List.range st.c.next) st.c.parts st.c.holds).2.1 },
            vis := upd st.vis a (some ⟨sk, nr, (snap a sel sk (List.range st.c.next) st.c.parts st.c.holds).2.2,
              if sk then (snap a sel sk (List.range st.c.next) st.c.parts st.c.holds).2.2 else [], none, false⟩) }

theorem own_vStart {a : Nat} {st : St} (kind : VKind) (sel : List Nat) (hd : st.done = false)
    (h : Local o a (.vStart kind sel) st) (lb : Lbl) (c' : Ctl) (ho : (lb, c') ∈ pnext a st (.vStart kind sel)) :
    ∃ st', step st lb = some st' ∧ Local o a c' st' := by
  simp only [pnext, hd, Bool.false_eq_true, if_false, List.mem_singleton, Prod.mk.injEq] at ho
  obtain ⟨rfl, rfl⟩ := ho
  have hv : st.vis a = none := h.vis
  obtain ⟨_, f2, f3⟩ := snap_facts a sel (skipOf kind) (List.range st.c.next) st.c.parts st.c.holds
  have hstep : step st (.visitBegin a sel (skipOf kind) (dnrOf kind)) = some (stBegin st a sel (skipOf kind) (dnrOf kind)) := by
    simp [step, stBegin, hv, hd]
  refine ⟨_, hstep, by simp [Shape], ?_, ?_, ?_, ?_, by simp [DjOK]⟩
  · intro x
    show List.count _ (snap a sel (skipOf kind) (List.range st.c.next) st.c.parts st.c.holds).2.1 = _
    rw [f2 _ (Or.inr rfl), h.cli x]; rfl
  · intro x
    show List.count _ (snap a sel (skipOf kind) (List.range st.c.next) st.c.parts st.c.holds).2.1 = owedCount (upd st.vis a _ a) x + o x
    rw [upd_same, f3 x, h.aut x, hv]
    simp only [owedCount]
    cases skipOf kind <;> simp
  · refine ⟨_, upd_same _ _ _, rfl, rfl, ?_, by simp [PhaseOK]⟩
    intro hs x hx; simp only [hs, if_true] at hx ⊢; exact hx
  · intro x hl
    have := h.lck x hl; simp [lockedAt] at this

theorem own_cb {a : Nat} {st : St} {c : Ctl} (hi : StInv st) (h : Local o a c st) (hno : ∀ x, ¬ lockedAt c x)
    (v : Visit) (hv : st.vis a = some v) (kind : VKind) (hsk : v.skipping = skipOf kind) (hnr : v.noRelease = dnrOf kind)
    (hsub : skipOf kind = true → ∀ x, x ∈ v.pending → x ∈ v.owed)
    (s : Nat) (hcb : cbOk v s = true) (kept : List Nat) (hheld : ∀ x, (heldOf c).count x = kept.count x)
    (lb : Lbl) (c' : Ctl) (ho : (lb, c') ∈ cbOpts a st kind s kept) :
    ∃ st', step st lb = some st' ∧ Local o a c' st' := by
  cases kind with
  | partitions => exact ret_step h hno v hv _ hsk hnr hsub rfl s hcb kept hheld lb c' ho
  | getJournals => exact gj_step h hno v hv hsk hnr s hcb kept hheld lb c' ho
  | truncate items =>
    simp only [cbOpts, List.mem_append] at ho
    rcases ho with ho | ho
    · exact ret_step h hno v hv _ hsk hnr hsub rfl s hcb kept hheld lb c' ho
    · have hso : s ∈ v.owed := by
        simp only [cbOk, Bool.and_eq_true, List.contains_iff_mem] at hcb; exact hcb.2
      have hm : (⟨a, s, true⟩ : Tok) ∈ st.c.holds := by
        apply mem_of_count_pos; rw [h.aut s, hv]; have := List.one_le_count_iff.mpr hso; simp only [owedCount]; omega
      refine lock_step h hno s _ (by simp [holdsAny, hm]) (Or.inr ⟨_, _, rfl, rfl⟩) (fun x => (hheld x).symm) ?_ lb c' ho
      exact ⟨v, hv, hsk, hnr, hsub, hcb⟩

theorem own_visit {a : Nat} {st : St} (c : Ctl) (hi : StInv st) (h : Local o a c st)
    (hc : (∃ kind kept, c = .vPick kind kept) ∨ (∃ kind s kept, c = .vCb kind s kept) ∨
          (∃ kind s kept, c = .vRet kind s kept) ∨ (∃ kind kept, c = .vEnd kind kept))
    (lb : Lbl) (c' : Ctl) (ho : (lb, c') ∈ pnext a st c) :
    ∃ st' o', step st lb = some st' ∧ Local o' a c' st' ∧ (st.done = false → o' = o) := by
  have lift : (∃ st', step st lb = some st' ∧ Local o a c' st') →
      ∃ st' o', step st lb = some st' ∧ Local o' a c' st' ∧ (st.done = false → o' = o) :=
    fun ⟨st', h1, h2⟩ => ⟨st', o, h1, h2, fun _ => rfl⟩
  rcases hc with ⟨kind, kept, rfl⟩ | ⟨kind, s, kept, rfl⟩ | ⟨kind, s, kept, rfl⟩ | ⟨kind, kept, rfl⟩
  · -- between callbacks
    obtain ⟨v, hv, hsk, hnr, hsub, hab, hcur⟩ := h.vis
    have hno : ∀ x, ¬ lockedAt (.vPick kind kept) x := fun x => by simp [lockedAt]
    simp only [pnext, hv] at ho
    by_cases hemp : v.pending.isEmpty = true
    · simp only [hemp, if_true, List.mem_singleton, Prod.mk.injEq] at ho
      obtain ⟨rfl, rfl⟩ := ho
      exact lift (end_step hi h hno v hv (by simp [hemp]) hcur kind kept (fun _ => rfl))
    · simp only [hemp, Bool.false_eq_true, if_false] at ho
      by_cases hskip : skipOf kind = true
      · simp only [hskip, if_true, List.mem_flatMap] at ho
        obtain ⟨s, hsp, ho⟩ := ho
        have hcb : cbOk v s = true := by
          simp [cbOk, hab, hsk, hskip, hsp, hsub hskip s hsp]
        exact lift (own_cb hi h hno v hv kind hsk hnr hsub s hcb kept (fun _ => rfl) lb c' ho)
      · simp only [hskip, Bool.false_eq_true, if_false] at ho
        have hsk' : v.skipping = false := by rw [hsk]; simpa using hskip
        by_cases hd : st.done = true
        · -- `Shutdown()` happened: the per-item section returns at once, the final locked section is skipped; what
          -- the visit still owed stays acquired (the orphans `o'`)
          simp only [hd, if_true, List.mem_map, Prod.mk.injEq] at ho
          obtain ⟨s, hsp, rfl, rfl⟩ := ho
          obtain ⟨a1, a2, a3, a4, a5⟩ := shape_afterVisit kind kept
          refine ⟨stVis st a none, fun x => o x + v.owed.count x,
            by simp [step, stVis, hv, hsk', hab, hcur, hsp, hd], ⟨a1, ?_, ?_, ?_, ?_, a3 _ _⟩, fun h0 => by rw [hd] at h0; cases h0⟩
          · intro x; rw [a5 x]; exact h.cli x
          · intro x
            show List.count _ st.c.holds = owedCount (upd st.vis a none a) x + (o x + v.owed.count x)
            rw [upd_same, h.aut x, hv]; simp only [owedCount]; omega
          · rw [a4]; show upd st.vis a none a = none; exact upd_same _ _ _
          · intro x hl; exact absurd (h.lck x hl) (hno x)
        · have hd : st.done = false := by simpa using hd
          apply lift
          simp only [hd, Bool.false_eq_true, if_false, List.mem_flatMap] at ho
          obtain ⟨s, hsp, ho⟩ := ho
          have hpc : v.pending.contains s = true := List.contains_iff_mem.mpr hsp
          cases hp : st.c.parts s with
          | none =>
            simp only [hp, List.mem_singleton, Prod.mk.injEq] at ho
            obtain ⟨rfl, rfl⟩ := ho
            refine ⟨stVis st a (some { v with pending := v.pending.erase s }),
              by simp [step, stVis, hv, hsk', hab, hcur, hsp, hd, hp], h.shape, h.cli, ?_, ?_, h.lck, h.dj⟩
            · intro x
              show List.count _ st.c.holds = owedCount (upd st.vis a _ a) x + o x
              rw [upd_same, h.aut x, hv]; rfl
            · exact ⟨_, upd_same _ _ _, hsk, hnr, fun hs => absurd hs hskip, hab, hcur⟩
          | some p =>
            simp only [hp] at ho
            by_cases hx : p.exclusive = true
            · simp only [hx, if_true, List.mem_singleton, Prod.mk.injEq] at ho
              obtain ⟨rfl, rfl⟩ := ho
              exact ⟨st, by simp [step, hv, hsk', hab, hcur, hsp, hd, hp, hx], h⟩
            · simp only [hx, Bool.false_eq_true, if_false, List.mem_singleton, Prod.mk.injEq] at ho
              obtain ⟨rfl, rfl⟩ := ho
              refine ⟨stTry st a s p (some { v with pending := v.pending.erase s, owed := s :: v.owed, cur := some s }),
                by simp [step, stTry, hv, hsk', hab, hcur, hsp, hd, hp, hx], by simp [Shape], ?_, ?_, ?_, ?_, by simp [DjOK]⟩
              · intro x
                show List.count _ (_ :: st.c.holds) = _
                rw [cnt_cons_tf]; exact h.cli x
              · intro x
                show List.count _ (_ :: st.c.holds) = owedCount (upd st.vis a _ a) x + o x
                rw [upd_same, cnt_cons_self_true, h.aut x, hv]
                simp only [owedCount]; rw [cnt_list]; omega
              · refine ⟨_, upd_same _ _ _, hsk, hnr, fun hs => absurd hs hskip, ?_⟩
                simp [PhaseOK, cbOk, hab, hsk']
              · intro x hl; exact absurd (h.lck x hl) (hno x)
  · obtain ⟨v, hv, hsk, hnr, hsub, hcb⟩ := h.vis
    simp only [pnext] at ho
    exact lift (own_cb hi h (fun x => by simp [lockedAt]) v hv kind hsk hnr hsub s hcb kept (fun _ => rfl) lb c' ho)
  · obtain ⟨v, hv, hsk, hnr, hsub, hcb⟩ := h.vis
    simp only [pnext] at ho
    have hno : ∀ x, ¬ lockedAt (.vRet kind s kept) x := fun x => by simp [lockedAt]
    cases kind with
    | partitions => exact lift (ret_step h hno v hv _ hsk hnr hsub rfl s hcb kept (fun _ => rfl) lb c' ho)
    | truncate items => exact lift (ret_step h hno v hv _ hsk hnr hsub rfl s hcb kept (fun _ => rfl) lb c' ho)
    | getJournals => exact absurd h.shape (by simp [Shape, dnrOf])
  · obtain ⟨v, hv, hsk, hnr, hsub, hfin, hcur⟩ := h.vis
    simp only [pnext, List.mem_singleton, Prod.mk.injEq] at ho
    obtain ⟨rfl, rfl⟩ := ho
    refine lift (end_step hi h (fun x => by simp [lockedAt]) v hv ?_ hcur kind kept (fun _ => rfl))
    rcases hfin with hf | hf
    · simp [hf]
    · simp [hf]

/-! ### after `Shutdown()`: every acquisition fails, the callers go on without it -/

theorem afterVisit_nil_local {a : Nat} {st : St} (kind : VKind) (sel : List Nat) (h : Local o a (.vStart kind sel) st) :
    Local o a (afterVisit kind []) st := by
  obtain ⟨a1, a2, a3, a4, a5⟩ := shape_afterVisit kind []
  have hv : st.vis a = none := h.vis
  refine ⟨a1, fun x => by rw [a5 x]; exact h.cli x, h.aut, by rw [a4]; exact hv, ?_, a3 _ _⟩
  intro x hl; have := h.lck x hl; simp [lockedAt] at this

theorem own_down {a : Nat} {st : St} {c : Ctl} (hd : st.done = true) (h : Local o a c st)
    (hc : (∃ t cr, c = .acqTags t cr) ∨ (∃ s r d, c = .idLoop s r d) ∨ (∃ s r, c = .peek s r) ∨ (∃ kind sel, c = .vStart kind sel))
    (lb : Lbl) (c' : Ctl) (ho : (lb, c') ∈ pnext a st c) : ∃ st', step st lb = some st' ∧ Local o a c' st' := by
  rcases hc with ⟨t, cr, rfl⟩ | ⟨s, r, d, rfl⟩ | ⟨s, r, rfl⟩ | ⟨kind, sel, rfl⟩
  · simp only [pnext, hd, if_true, List.mem_singleton, Prod.mk.injEq] at ho
    obtain ⟨rfl, rfl⟩ := ho
    exact ⟨st, by simp [step, hd], local_skip (c' := .fin) h (by simp [Shape]) (fun x => by simp [heldOf]) rfl
      (fun x => by simp [lockedAt]) (by simp [DjOK])⟩
  · simp only [pnext, acqById, hd, if_true, List.mem_singleton, Prod.mk.injEq] at ho
    obtain ⟨rfl, rfl⟩ := ho
    exact ⟨st, by simp [step, hd], local_skip h (shape_idLoopOf _ _) (fun x => by rw [heldOf_idLoopOf]; simp [heldOf])
      (by rw [visOf_idLoopOf]; rfl) (fun x => by simp [lockedAt]) (djOK_idLoopOf _ _ _ _)⟩
  · simp only [pnext, acqById, hd, if_true, List.mem_singleton, Prod.mk.injEq] at ho
    obtain ⟨rfl, rfl⟩ := ho
    exact ⟨st, by simp [step, hd], local_skip h (shape_peekOf _) (fun x => by rw [heldOf_peekOf]; simp [heldOf])
      (by rw [visOf_peekOf]; rfl) (fun x => by simp [lockedAt]) (djOK_peekOf _ _ _)⟩
  · simp only [pnext, hd, if_true, List.mem_singleton, Prod.mk.injEq] at ho
    obtain ⟨rfl, rfl⟩ := ho
    have hv : st.vis a = none := h.vis
    exact ⟨st, by simp [step, hv, hd], afterVisit_nil_local kind sel h⟩

/-! ### every control state; the system invariant -/

theorem own_step {a : Nat} {st : St} {c : Ctl} (hi : StInv st) (h : Local o a c st)
    (lb : Lbl) (c' : Ctl) (ho : (lb, c') ∈ pnext a st c) :
    ∃ st' o', step st lb = some st' ∧ Local o' a c' st' ∧ (st.done = false → o' = o) := by
  have lift : (∃ st', step st lb = some st' ∧ Local o a c' st') →
      ∃ st' o', step st lb = some st' ∧ Local o' a c' st' ∧ (st.done = false → o' = o) :=
    fun ⟨st', h1, h2⟩ => ⟨st', o, h1, h2, fun _ => rfl⟩
  by_cases hd : st.done = true
  · cases c with
    | fin => simp [pnext] at ho
    | acqTags t cr => exact lift (own_down hd h (Or.inl ⟨_, _, rfl⟩) lb c' ho)
    | rel s l k => exact lift (own_rel s l k hi h lb c' ho)
    | idLoop s r d => exact lift (own_down hd h (Or.inr (Or.inl ⟨_, _, _, rfl⟩)) lb c' ho)
    | peek s r => exact lift (own_down hd h (Or.inr (Or.inr (Or.inl ⟨_, _, rfl⟩))) lb c' ho)
    | dj ph s k => exact lift (own_dj ph s k hi h lb c' ho)
    | vStart kind sel => exact lift (own_down hd h (Or.inr (Or.inr (Or.inr ⟨_, _, rfl⟩))) lb c' ho)
    | vPick kind kept => exact own_visit _ hi h (Or.inl ⟨_, _, rfl⟩) lb c' ho
    | vCb kind s kept => exact own_visit _ hi h (Or.inr (Or.inl ⟨_, _, _, rfl⟩)) lb c' ho
    | vRet kind s kept => exact own_visit _ hi h (Or.inr (Or.inr (Or.inl ⟨_, _, _, rfl⟩))) lb c' ho
    | vEnd kind kept => exact own_visit _ hi h (Or.inr (Or.inr (Or.inr ⟨_, _, rfl⟩))) lb c' ho
  · have hd : st.done = false := by simpa using hd
    cases c with
    | fin => simp [pnext] at ho
    | acqTags t cr => exact lift (own_acqTags t cr hd h lb c' ho)
    | rel s l k => exact lift (own_rel s l k hi h lb c' ho)
    | idLoop s r d => exact lift (own_idLoop s r d hd h lb c' ho)
    | peek s r => exact lift (own_peek s r hd h lb c' ho)
    | dj ph s k => exact lift (own_dj ph s k hi h lb c' ho)
    | vStart kind sel => exact lift (own_vStart kind sel hd h lb c' ho)
    | vPick kind kept => exact own_visit _ hi h (Or.inl ⟨_, _, rfl⟩) lb c' ho
    | vCb kind s kept => exact own_visit _ hi h (Or.inr (Or.inl ⟨_, _, _, rfl⟩)) lb c' ho
    | vRet kind s kept => exact own_visit _ hi h (Or.inr (Or.inr (Or.inl ⟨_, _, _, rfl⟩))) lb c' ho
    | vEnd kind kept => exact own_visit _ hi h (Or.inr (Or.inr (Or.inr ⟨_, _, rfl⟩))) lb c' ho

theorem djOpts_actor (a : Nat) (st : St) (ph : DjPh) (s : Nat) (k : Ctl) (lb : Lbl) (c' : Ctl)
    (ho : (lb, c') ∈ djOpts a st ph s k) : actorOf lb = some a := by
  cases ph with
  | lock =>
    simp only [djOpts] at ho
    by_cases hk : lockOk st s = true
    · simp only [hk, if_true, List.mem_cons, Prod.mk.injEq, List.not_mem_nil, or_false] at ho
      rcases ho with ⟨rfl, _⟩ | ⟨rfl, _⟩ <;> rfl
    · simp only [hk, Bool.false_eq_true, if_false, List.mem_singleton, Prod.mk.injEq] at ho
      rcases ho with ⟨rfl, _⟩; rfl
  | delete => simp only [djOpts, List.mem_singleton, Prod.mk.injEq] at ho; rcases ho with ⟨rfl, _⟩; rfl
  | unlock => simp only [djOpts, List.mem_singleton, Prod.mk.injEq] at ho; rcases ho with ⟨rfl, _⟩; rfl

theorem cbOpts_actor (a : Nat) (st : St) (kind : VKind) (s : Nat) (kept : List Nat) (lb : Lbl) (c' : Ctl)
    (ho : (lb, c') ∈ cbOpts a st kind s kept) : actorOf lb = some a := by
  cases kind with
  | partitions => simp [cbOpts, retOpts] at ho; rcases ho with ⟨rfl, _⟩ | ⟨rfl, _⟩ <;> rfl
  | getJournals => simp [cbOpts] at ho; rcases ho with ⟨rfl, _⟩ | ⟨rfl, _⟩ | ⟨rfl, _⟩ <;> rfl
  | truncate items =>
    simp only [cbOpts, List.mem_append] at ho
    rcases ho with ho | ho
    · simp [retOpts] at ho; rcases ho with ⟨rfl, _⟩ | ⟨rfl, _⟩ <;> rfl
    · exact djOpts_actor a st _ s _ lb c' ho

theorem pnext_actor (a : Nat) (st : St) (c : Ctl) (lb : Lbl) (c' : Ctl) (ho : (lb, c') ∈ pnext a st c) :
    actorOf lb = some a := by
  cases c with
  | fin => simp [pnext] at ho
  | acqTags t cr =>
    simp only [pnext] at ho
    repeat' split at ho
    all_goals (simp at ho; rcases ho with ⟨rfl, _⟩; rfl)
  | rel s l k => simp [pnext] at ho; rcases ho with ⟨rfl, _⟩; rfl
  | idLoop s r d =>
    simp only [pnext] at ho
    have key : ∀ (l : List (Lbl × Ctl)), (∀ x, x ∈ l → x.1 = Lbl.getTags a s true) → (lb, c') ∈ l → actorOf lb = some a := by
      intro l hl hm; have := hl _ hm; simp only [] at this; rw [this]; rfl
    cases hacq : acqById st s <;> simp only [hacq] at ho
    · exact key _ (by simp) ho
    · exact key _ (by simp) ho
    · exact key _ (by simp) ho
    · cases d <;> simp only [Bool.false_eq_true, if_false, if_true] at ho
      · exact key _ (by simp) ho
      · exact key _ (by simp) ho
  | peek s r =>
    simp only [pnext] at ho
    repeat' split at ho
    all_goals (simp at ho; rcases ho with ⟨rfl, _⟩; rfl)
  | dj ph s k => exact djOpts_actor a st ph s k lb c' ho
  | vStart kind sel =>
    simp only [pnext] at ho
    split at ho <;> (simp at ho; rcases ho with ⟨rfl, _⟩; rfl)
  | vPick kind kept =>
    simp only [pnext] at ho
    split at ho
    · simp at ho
    · split at ho
      · simp at ho; rcases ho with ⟨rfl, _⟩; rfl
      · split at ho
        · simp only [List.mem_flatMap] at ho
          obtain ⟨s, _, ho⟩ := ho
          exact cbOpts_actor a st kind s kept lb c' ho
        · split at ho
          · simp only [List.mem_map, Prod.mk.injEq] at ho
            obtain ⟨s, _, rfl, _⟩ := ho; rfl
          · simp only [List.mem_flatMap] at ho
            obtain ⟨s, _, ho⟩ := ho
            repeat' split at ho
            all_goals (simp at ho; rcases ho with ⟨rfl, _⟩; rfl)
  | vCb kind s kept => exact cbOpts_actor a st kind s kept lb c' ho
  | vRet kind s kept => simp [pnext, retOpts] at ho; rcases ho with ⟨rfl, _⟩ | ⟨rfl, _⟩ <;> rfl
  | vEnd kind kept => simp [pnext] at ho; rcases ho with ⟨rfl, _⟩; rfl

theorem step_done (st st' : St) (l : Lbl) (a : Nat) (hl : actorOf l = some a) (hs : step st l = some st') :
    st'.done = st.done := by
  cases l <;> simp only [actorOf] at hl <;> simp only [step] at hs <;> (repeat' split at hs) <;> simp at hs <;>
    (try subst hs) <;> simp_all

/-- the system invariant. `orph a s`: the visit-owned acquisitions that waiting visits of `a`, interrupted by `Shutdown()`,
left behind (nothing before `Shutdown()`) -/
structure SysInv (x : Sys) : Prop where
  st : StInv x.st
  loc : ∃ orph : Nat → Nat → Nat, (x.st.done = false → ∀ a s, orph a s = 0) ∧ ∀ a, Local (orph a) a (x.ctl a) x.st

theorem SysInv.locE {x : Sys} (h : SysInv x) (a : Nat) : ∃ o, Local o a (x.ctl a) x.st := by
  obtain ⟨orph, _, hl⟩ := h.loc; exact ⟨orph a, hl a⟩

theorem SysInv.loc0 {x : Sys} (h : SysInv x) (hd : x.st.done = false) (a : Nat) : Local (fun _ => 0) a (x.ctl a) x.st := by
  obtain ⟨orph, h0, hl⟩ := h.loc
  have : orph a = fun _ => 0 := funext (fun s => h0 hd a s)
  rw [← this]; exact hl a

theorem local_entry {a : Nat} {c : Ctl} {st : St} (he : isEntry c) (h : Local o a .fin st) : Local o a c st := by
  have hnl : ∀ x, st.c.locker x ≠ some a := fun x hl => by have := h.lck x hl; simp [lockedAt] at this
  have hv : st.vis a = none := h.vis
  cases c <;> simp only [isEntry] at he <;>
    exact ⟨by simp [Shape], h.cli, h.aut, hv, fun x hl => absurd hl (hnl x), by simp [DjOK]⟩

theorem sysInv_step {x y : Sys} (h : SysInv x) (s : SysStep x y) : SysInv y := by
  obtain ⟨a, l, c', ho, hs, hctl⟩ := s
  obtain ⟨orph, h0, hl⟩ := h.loc
  obtain ⟨st', o', hs', hloc, hsame⟩ := own_step h.st (hl a) l c' ho
  have e : st' = y.st := by rw [hs] at hs'; exact (Option.some.inj hs').symm
  subst e
  have hact := pnext_actor a x.st (x.ctl a) l c' ho
  refine ⟨step_inv _ _ _ h.st hs, upd orph a o', ?_, ?_⟩
  · intro hd b s
    have hdx : x.st.done = false := by rw [← step_done _ _ _ _ hact hs]; exact hd
    by_cases e : b = a
    · subst e; rw [upd_same, hsame hdx]; exact h0 hdx b s
    · rw [upd_other _ _ _ _ e]; exact h0 hdx b s
  · intro b
    rw [hctl]
    by_cases e : b = a
    · subst e; rw [upd_same, upd_same]; exact hloc
    · rw [upd_other _ _ _ _ e, upd_other _ _ _ _ e]
      exact local_frame (frame _ _ _ b a h.st hs hact (Ne.symm e)) (hl b)

/-- `Shutdown()` changes nothing an actor can see of its own -/
theorem local_shutdown {a : Nat} {c : Ctl} {st : St} (h : Local o a c st) : Local o a c { st with done := true } := by
  refine ⟨h.shape, h.cli, h.aut, ?_, h.lck, ?_⟩
  · have hv := h.vis
    cases hvo : visOf c with
    | none => rw [hvo] at hv; exact hv
    | some kp => rw [hvo] at hv; obtain ⟨kind, ph⟩ := kp; exact hv
  · have hd := h.dj
    cases c with
    | dj ph s k => cases ph <;> exact hd
    | _ => trivial

theorem sysInv_reach {x : Sys} (h : Reach x) : SysInv x := by
  induction h with
  | start ctl he =>
    refine ⟨inv_init, fun _ _ => 0, fun _ _ _ => rfl, fun a => local_entry (he a) ?_⟩
    exact ⟨by simp [Shape], fun s => by simp [init, heldOf], fun s => by simp [init, owedCount], rfl,
      fun s hl => by simp [init] at hl, by simp [DjOK]⟩
  | step _ s ih => exact sysInv_step ih s
  | call _ a c hf he ih =>
    obtain ⟨orph, h0, hl⟩ := ih.loc
    refine ⟨ih.st, orph, h0, fun b => ?_⟩
    show Local (orph b) b (upd _ a c b) _
    by_cases e : b = a
    · subst e; rw [upd_same]; exact local_entry he (by have := hl b; rw [hf] at this; exact this)
    · rw [upd_other _ _ _ _ e]; exact hl b
  | shutdown _ ih =>
    obtain ⟨orph, _, hl⟩ := ih.loc
    exact ⟨step_inv _ _ .shutdown ih.st rfl, orph, fun hd => by simp at hd, fun b => local_shutdown (hl b)⟩

/-! ### progress -/

theorem ne_rel (s : Nat) (l : List Nat) (k : Ctl) : k ≠ Ctl.rel s l k := by
  intro e; have := congrArg sizeOf e; simp at this
theorem ne_dj (ph : DjPh) (s : Nat) (k : Ctl) : k ≠ Ctl.dj ph s k := by
  intro e; have := congrArg sizeOf e; simp at this
theorem idLoopOf_ne (s : Nat) (r : List Nat) (d : Bool) : idLoopOf r d ≠ Ctl.idLoop s r d := by
  cases r <;> simp [idLoopOf]
theorem peekOf_ne (s : Nat) (r : List Nat) : peekOf r ≠ Ctl.peek s r := by
  cases r <;> simp [peekOf]
theorem relThen_ne (s : Nat) (l : List Nat) (k : Ctl) : relThen l k ≠ Ctl.rel s l k := by
  cases l with
  | nil => exact ne_rel s [] k
  | cons x xs => simp [relThen]

theorem relThen_shape_ne (l : List Nat) (k c : Ctl) (hk : ∀ s l' k', k ≠ Ctl.rel s l' k' → True)
    (h1 : k ≠ c) (h2 : ∀ s l' k', c ≠ Ctl.rel s l' k') : relThen l k ≠ c := by
  cases l with
  | nil => exact h1
  | cons x xs => exact fun e => h2 _ _ _ e.symm

theorem afterVisit_ne_vis (kind : VKind) (kept : List Nat) (c : Ctl) (hv : (visOf c).isSome = true)
    (hr : ∀ s l' k', c ≠ Ctl.rel s l' k') : afterVisit kind kept ≠ c := by
  intro e
  have := (shape_afterVisit kind kept).2.2.2.1
  rw [e] at this; rw [this] at hv; cases hv

/-- what it means that an option is not a pure wait: the control state or the shared state changes -/
def Moves (st : St) (c : Ctl) (l : Lbl) (c' : Ctl) : Prop :=
  ∃ st', step st l = some st' ∧ (c' ≠ c ∨ st' ≠ st)

/-- after `Shutdown()` nobody waits: every unfinished caller has an option that changes its control state -/
theorem moves_down {a : Nat} {st : St} {c : Ctl} (hi : StInv st) (hd : st.done = true) (h : Local o a c st)
    (hc : c ≠ .fin) : ∃ l c', (l, c') ∈ pnext a st c ∧ Moves st c l c' := by
  have mv : ∀ l c', (l, c') ∈ pnext a st c → c' ≠ c → ∃ l c', (l, c') ∈ pnext a st c ∧ Moves st c l c' := by
    intro l c' ho hne
    obtain ⟨st', _, hs, _⟩ := own_step hi h l c' ho
    exact ⟨l, c', ho, st', hs, Or.inl hne⟩
  cases c with
  | fin => exact absurd rfl hc
  | acqTags t cr => exact mv (.getOrCreate a t cr) .fin (by simp [pnext, hd]) (by simp)
  | rel s l k => exact mv (.release a s) (relThen l k) (by simp [pnext]) (relThen_ne s l k)
  | idLoop s r d => exact mv (.getTags a s true) (idLoopOf r d) (by simp [pnext, acqById, hd]) (idLoopOf_ne s r d)
  | peek s r => exact mv (.getTags a s false) (peekOf r) (by simp [pnext, acqById, hd]) (peekOf_ne s r)
  | dj ph s k =>
    cases ph with
    | lock =>
      by_cases hk : lockOk st s = true
      · exact mv (.lockX a s) (.dj .delete s k) (by simp [pnext, djOpts, hk]) (by simp)
      · exact mv (.lockX a s) k (by simp [pnext, djOpts, hk]) (ne_dj _ s k)
    | delete => exact mv (.delete a s) (.dj .unlock s k) (by simp [pnext, djOpts]) (by simp)
    | unlock => exact mv (.unlockX a s) k (by simp [pnext, djOpts]) (ne_dj _ s k)
  | vStart kind sel =>
    refine mv (.visitBegin a sel (skipOf kind) (dnrOf kind)) (afterVisit kind []) (by simp [pnext, hd]) ?_
    cases kind with
    | partitions => simp [afterVisit, relThen]
    | getJournals => simp [afterVisit, relThen]
    | truncate items => cases items <;> simp [afterVisit, relThen, idLoopOf]
  | vCb kind s kept =>
    refine mv (.visitCb a s false) (.vEnd kind (if dnrOf kind then s :: kept else kept)) ?_ (by simp)
    cases kind <;> simp [pnext, cbOpts, retOpts, dnrOf]
  | vRet kind s kept => exact mv (.visitCb a s false) (.vEnd kind kept) (by simp [pnext, retOpts]) (by simp)
  | vEnd kind kept =>
    exact mv (.visitEnd a) (afterVisit kind kept) (by simp [pnext]) (afterVisit_ne_vis _ _ _ rfl (by simp))
  | vPick kind kept =>
    obtain ⟨v, hv, hsk, hnr, hsub, hab, hcur⟩ := h.vis
    cases hpend : v.pending with
    | nil =>
      exact mv (.visitEnd a) (afterVisit kind kept) (by simp [pnext, hv, hpend])
        (afterVisit_ne_vis _ _ _ rfl (by simp))
    | cons s rest =>
      by_cases hskip : skipOf kind = true
      · refine mv (.visitCb a s false) (.vEnd kind (if dnrOf kind then s :: kept else kept)) ?_ (by simp)
        simp only [pnext, hv, hpend, List.isEmpty_cons, Bool.false_eq_true, if_false, hskip, if_true, List.mem_flatMap]
        refine ⟨s, List.mem_cons_self, ?_⟩
        cases kind <;> simp [cbOpts, retOpts, dnrOf]
      · refine mv (.visitTry a s) (afterVisit kind kept) ?_ (afterVisit_ne_vis _ _ _ rfl (by simp))
        simp only [pnext, hv, hpend, List.isEmpty_cons, Bool.false_eq_true, if_false, hskip, hd, if_true, List.mem_map]
        exact ⟨s, List.mem_cons_self, rfl⟩

/-- an unfinished caller can move, unless the partition it needs next is exclusively locked -/
theorem moves_or_waits {a : Nat} {st : St} {c : Ctl} (hi : StInv st) (h : Local o a c st) (hc : c ≠ .fin) :
    (∃ l c', (l, c') ∈ pnext a st c ∧ Moves st c l c') ∨
      (∃ s p, needs a st c s ∧ st.c.parts s = some p ∧ p.exclusive = true) := by
  by_cases hd : st.done = true
  · exact Or.inl (moves_down hi hd h hc)
  have hd : st.done = false := by simpa using hd
  -- an option whose control state differs moves (it is enabled: the callers follow the protocol)
  have mv : ∀ l c', (l, c') ∈ pnext a st c → c' ≠ c → ∃ l c', (l, c') ∈ pnext a st c ∧ Moves st c l c' := by
    intro l c' ho hne
    obtain ⟨st', _, hs, _⟩ := own_step hi h l c' ho
    exact ⟨l, c', ho, st', hs, Or.inl hne⟩
  cases c with
  | fin => exact absurd rfl hc
  | acqTags t cr =>
    cases hf : findTags st.c.parts t st.c.next with
    | some s =>
      cases hp : st.c.parts s with
      | some p =>
        by_cases hx : p.exclusive = true
        · exact Or.inr ⟨s, p, hf, hp, hx⟩
        · exact Or.inl (mv (.getOrCreate a t cr) (.rel s [] .fin) (by simp [pnext, hd, hf, hp, hx]) (by simp))
      | none => exact Or.inl (mv (.getOrCreate a t cr) .fin (by simp [pnext, hd, hf, hp]) (by simp))
    | none =>
      cases cr with
      | true => exact Or.inl (mv (.getOrCreate a t true) (.rel st.c.next [] .fin) (by simp [pnext, hd, hf]) (by simp))
      | false => exact Or.inl (mv (.getOrCreate a t false) .fin (by simp [pnext, hd, hf]) (by simp))
  | rel s l k => exact Or.inl (mv (.release a s) (relThen l k) (by simp [pnext]) (relThen_ne s l k))
  | idLoop s r d =>
    cases hp : st.c.parts s with
    | none =>
      exact Or.inl (mv (.getTags a s true) (idLoopOf r d) (by simp [pnext, acqById, hd, hp]) (idLoopOf_ne s r d))
    | some p =>
      by_cases hx : p.exclusive = true
      · exact Or.inr ⟨s, p, rfl, hp, hx⟩
      · refine Or.inl (mv (.getTags a s true) (.rel s [] (idLoopOf r d)) ?_ (by simp))
        cases d <;> simp [pnext, acqById, hd, hp, hx]
  | peek s r =>
    cases hp : st.c.parts s with
    | none => exact Or.inl (mv (.getTags a s false) (peekOf r) (by simp [pnext, acqById, hd, hp]) (peekOf_ne s r))
    | some p =>
      by_cases hx : p.exclusive = true
      · exact Or.inr ⟨s, p, rfl, hp, hx⟩
      · exact Or.inl (mv (.getTags a s false) (peekOf r) (by simp [pnext, acqById, hd, hp, hx]) (peekOf_ne s r))
  | dj ph s k =>
    cases ph with
    | lock =>
      by_cases hk : lockOk st s = true
      · exact Or.inl (mv (.lockX a s) (.dj .delete s k) (by simp [pnext, djOpts, hk]) (by simp))
      · exact Or.inl (mv (.lockX a s) k (by simp [pnext, djOpts, hk]) (ne_dj _ s k))
    | delete => exact Or.inl (mv (.delete a s) (.dj .unlock s k) (by simp [pnext, djOpts]) (by simp))
    | unlock => exact Or.inl (mv (.unlockX a s) k (by simp [pnext, djOpts]) (ne_dj _ s k))
  | vStart kind sel =>
    exact Or.inl (mv (.visitBegin a sel (skipOf kind) (dnrOf kind)) (.vPick kind []) (by simp [pnext, hd]) (by simp))
  | vCb kind s kept =>
    refine Or.inl (mv (.visitCb a s false) (.vEnd kind (if dnrOf kind then s :: kept else kept)) ?_ (by simp))
    cases kind <;> simp [pnext, cbOpts, retOpts, dnrOf]
  | vRet kind s kept => exact Or.inl (mv (.visitCb a s false) (.vEnd kind kept) (by simp [pnext, retOpts]) (by simp))
  | vEnd kind kept =>
    exact Or.inl (mv (.visitEnd a) (afterVisit kind kept) (by simp [pnext]) (afterVisit_ne_vis _ _ _ rfl (by simp)))
  | vPick kind kept =>
    obtain ⟨v, hv, hsk, hnr, hsub, hab, hcur⟩ := h.vis
    cases hpend : v.pending with
    | nil =>
      exact Or.inl (mv (.visitEnd a) (afterVisit kind kept) (by simp [pnext, hv, hpend])
        (afterVisit_ne_vis _ _ _ rfl (by simp)))
    | cons s rest =>
      have hsp : s ∈ v.pending := by rw [hpend]; exact List.mem_cons_self
      by_cases hskip : skipOf kind = true
      · refine Or.inl (mv (.visitCb a s false) (.vEnd kind (if dnrOf kind then s :: kept else kept)) ?_ (by simp))
        simp only [pnext, hv, hpend, List.isEmpty_cons, Bool.false_eq_true, if_false, hskip, if_true, List.mem_flatMap]
        refine ⟨s, List.mem_cons_self, ?_⟩
        cases kind <;> simp [cbOpts, retOpts, dnrOf]
      · have hsk' : v.skipping = false := by rw [hsk]; simpa using hskip
        cases hp : st.c.parts s with
        | some p =>
          by_cases hx : p.exclusive = true
          · exact Or.inr ⟨s, p, ⟨by simpa using hskip, v, hv, by rw [hpend]; rfl⟩, hp, hx⟩
          · refine Or.inl (mv (.visitTry a s) (.vCb kind s kept) ?_ (by simp))
            simp only [pnext, hv, hpend, List.isEmpty_cons, Bool.false_eq_true, if_false, hskip, hd, List.mem_flatMap]
            exact ⟨s, List.mem_cons_self, by simp [hp, hx]⟩
        | none =>
          -- the entry is gone: it is dropped from the snapshot (the shared state changes)
          left
          refine ⟨.visitTry a s, .vPick kind kept, ?_, stVis st a (some { v with pending := v.pending.erase s }), ?_, Or.inr ?_⟩
          · simp only [pnext, hv, hpend, List.isEmpty_cons, Bool.false_eq_true, if_false, hskip, hd, List.mem_flatMap]
            exact ⟨s, List.mem_cons_self, by simp [hp]⟩
          · simp [step, stVis, hv, hsk', hab, hcur, hsp, hd, hp]
          · intro e
            have e2 : (stVis st a (some { v with pending := v.pending.erase s })).vis a = st.vis a := by rw [e]
            rw [show (stVis st a (some { v with pending := v.pending.erase s })).vis a = some { v with pending := v.pending.erase s } from upd_same _ _ _, hv] at e2
            have e3 : v.pending.erase s = v.pending := by
              have := congrArg Visit.pending (Option.some.inj e2); exact this
            have := List.length_erase_of_mem hsp
            rw [e3, hpend] at this; simp at this

/-- an unfinished caller can move, unless what it needs next is exclusively locked -/
theorem moves_or_excl {a : Nat} {st : St} {c : Ctl} (hi : StInv st) (h : Local o a c st) (hc : c ≠ .fin) :
    (∃ l c', (l, c') ∈ pnext a st c ∧ Moves st c l c') ∨ (∃ s p, st.c.parts s = some p ∧ p.exclusive = true) := by
  rcases moves_or_waits hi h hc with hm | ⟨s, p, _, hp, hx⟩
  · exact Or.inl hm
  · exact Or.inr ⟨s, p, hp, hx⟩

/-! ### bounded waiting -/

theorem SysStepBy.toStep {a : Nat} {x y : Sys} (h : SysStepBy a x y) : SysStep x y := by
  obtain ⟨l, c', h1, h2, h3⟩ := h; exact ⟨a, l, c', h1, h2, h3⟩

theorem needs_unique {a : Nat} {st : St} {c : Ctl} {s s' : Nat} (h : needs a st c s) (h' : needs a st c s') : s = s' := by
  cases c with
  | acqTags t cr => simp only [needs] at h h'; rw [h] at h'; exact Option.some.inj h'
  | idLoop x r d => simp only [needs] at h h'; rw [← h, ← h']
  | peek x r => simp only [needs] at h h'; rw [← h, ← h']
  | vPick kind kept =>
    obtain ⟨_, v, hv, hh⟩ := h
    obtain ⟨_, v', hv', hh'⟩ := h'
    rw [hv] at hv'; cases hv'; rw [hh] at hh'; exact Option.some.inj hh'
  | _ => simp [needs] at h

/-- a caller whose next partition is not exclusively locked can proceed -/
theorem waiter_moves_when_free {a : Nat} {st : St} {c : Ctl} (hi : StInv st) (h : Local o a c st) (hc : c ≠ .fin)
    (s : Nat) (hn : needs a st c s) (hfree : st.c.parts s = none ∨ ∃ p, st.c.parts s = some p ∧ p.exclusive = false) :
    ∃ l c', (l, c') ∈ pnext a st c ∧ Moves st c l c' := by
  rcases moves_or_waits hi h hc with hm | ⟨s', p, hn', hp, hx⟩
  · exact hm
  · have e := needs_unique hn hn'; subst e
    rcases hfree with hf | ⟨p', hp', hx'⟩
    · rw [hp] at hf; cases hf
    · rw [hp] at hp'; cases hp'; rw [hx] at hx'; cases hx'

/-- a step of another actor leaves the exclusive lock, its holder and the holder's control state alone -/
theorem lock_kept_by_others {x y : Sys} (h : SysInv x) {a b s : Nat} (hl : x.st.c.locker s = some b) (hab : a ≠ b)
    (hs : SysStepBy a x y) : y.st.c.locker s = some b ∧ y.ctl b = x.ctl b := by
  obtain ⟨l, c', ho, hst, hctl⟩ := hs
  have hact := pnext_actor a x.st (x.ctl a) l c' ho
  have hsame := frame _ _ _ b a h.st hst hact hab
  exact ⟨(hsame.lck s).mpr hl, by rw [hctl, upd_other _ _ _ _ (Ne.symm hab)]⟩

/-- every step of the exclusive holder frees the partition -/
theorem holder_step_frees {x y : Sys} (h : SysInv x) {b s : Nat} (hl : x.st.c.locker s = some b)
    (hs : SysStepBy b x y) : y.st.c.parts s = none ∨ ∃ p', y.st.c.parts s = some p' ∧ p'.exclusive = false := by
  obtain ⟨l, c', ho, hst, _⟩ := hs
  obtain ⟨ob, hloc⟩ := h.locE b
  obtain ⟨p, hp, hx⟩ := h.st.core.lck s b hl
  obtain ⟨hr1, _⟩ := h.st.core.excl s p hp hx
  have hat := hloc.lck s hl
  cases hc : x.ctl b with
  | dj ph s' k =>
    rw [hc] at hat ho
    cases ph with
    | lock => simp [lockedAt] at hat
    | delete =>
      simp only [lockedAt] at hat; subst hat
      simp only [pnext, djOpts, List.mem_singleton, Prod.mk.injEq] at ho
      obtain ⟨rfl, rfl⟩ := ho
      have : step x.st (.delete b s) = some (stUnl x.st (upd x.st.c.parts s none) s) := by
        simp [step, stUnl, hp, hx, hl, deleteRaw]
      rw [this] at hst; rw [← Option.some.inj hst]
      exact Or.inl (upd_same _ _ _)
    | unlock =>
      simp only [lockedAt] at hat; subst hat
      simp only [pnext, djOpts, List.mem_singleton, Prod.mk.injEq] at ho
      obtain ⟨rfl, rfl⟩ := ho
      have : step x.st (.unlockX b s) = some (stUnl x.st (upd x.st.c.parts s (some { p with exclusive := false })) s) := by
        simp [step, stUnl, hp, hl, unlockRaw, hx, hr1]
      rw [this] at hst; rw [← Option.some.inj hst]
      exact Or.inr ⟨_, upd_same _ _ _, rfl⟩
  | _ => rw [hc] at hat; simp [lockedAt] at hat

theorem reach_run {x z : Sys} {as : List Nat} (r : Run x as z) (h : Reach x) : Reach z := by
  induction r with
  | nil _ => exact h
  | cons s _ ih => exact ih (Reach.step h s.toStep)

/-- **Bounded waiting**: in any run segment in which the holder `b` of the exclusive lock on `s` is scheduled at least
once, `s` stays locked by `b` exactly until `b`'s FIRST step, and that step frees it (k = 1) -/
theorem first_holder_step_frees : ∀ (as : List Nat) (x z : Sys), Reach x → ∀ (b s : Nat), x.st.c.locker s = some b →
    Run x as z → b ∈ as →
    ∃ as1 as2 y y', as = as1 ++ b :: as2 ∧ b ∉ as1 ∧ Run x as1 y ∧ y.st.c.locker s = some b ∧ y.ctl b = x.ctl b ∧
      SysStepBy b y y' ∧ Run y' as2 z ∧
      (y'.st.c.parts s = none ∨ ∃ p', y'.st.c.parts s = some p' ∧ p'.exclusive = false) := by
  intro as
  induction as with
  | nil => intro x z _ b s _ _ hb; cases hb
  | cons a as ih =>
    intro x z hr b s hl r hb
    cases r with
    | cons st r' =>
      rename_i y
      by_cases e : a = b
      · subst e
        exact ⟨[], as, x, y, rfl, by simp, Run.nil x, hl, rfl, st, r', holder_step_frees (sysInv_reach hr) hl st⟩
      · have hb' : b ∈ as := by
          rcases List.mem_cons.mp hb with h1 | h1
          · exact absurd h1.symm e
          · exact h1
        obtain ⟨hl', hc'⟩ := lock_kept_by_others (sysInv_reach hr) hl e st
        obtain ⟨as1, as2, y1, y2, e1, n1, r1, l1, c1, s1, r2, f⟩ := ih y z (Reach.step hr st.toStep) b s hl' r' hb'
        refine ⟨a :: as1, as2, y1, y2, by rw [e1]; rfl, ?_, Run.cons st r1, l1, by rw [c1, hc'], s1, r2, f⟩
        intro hm
        rcases List.mem_cons.mp hm with h1 | h1
        · exact e h1.symm
        · exact n1 h1


end Logrange.TIndexProg
