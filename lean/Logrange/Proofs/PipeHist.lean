import Logrange.Model.PipeHist
import Logrange.Proofs.ITree
import Logrange.Proofs.PartHist
import Logrange.Proofs.Reorder
/-!
# C02 — the pipeline model refines the Points-level partition model (tree at any depth, rebuilds, whole histories)

`RefChk x c`: the chunk-index entry `x` of the pipeline model (`CIndex.Chk`: hull, `Recs`, `lastRec`, `corrupted`, block
tree) stands for the Points-level entry `c` (`ChunkHist.ChunkIdx`): same hull / counters / flags, the tree is well-formed
and its level-0 point list is `c.pts` (no tree ↔ no points).

1. `window_eq`   — under `RefChk` the window `RangedIter.updatePoss` computes through `CIndex.grEqAns/lessAns` on the tree is
                   `Points.window` on the flat list (`tree_lookup_eq_points`);
2. `onWrite_ref` — `CIndex.onWrite` on the last chunk refines `ChunkHist.onWrite` when the interval is append-only
                   (`tree_append_refines_add`);
3. `rebuild_ref` — `CIndex.rebuildIntWith` on monotone data gives a well-formed tree whose points are
                   `RebuildHist.rebuildPts`, and the scanned hull;
4. histories     — `PipeHist.run` refines `PipeHist.absRun`, which satisfies `PartHist.PartInv`.
-/
set_option linter.unusedSimpArgs false
namespace Logrange.PipeHist
open Logrange Logrange.Points Logrange.ChunkHist Logrange.RebuildHist Logrange.PartHist

structure RefChk (x : CIndex.Chk) (c : ChunkIdx) : Prop where
  hull : c.hull = some ⟨x.minTs, x.maxTs⟩
  corr : x.corrupted = c.corrupted
  lastRec : x.lastRec = c.lastRec
  recs : x.recs = c.n
  loaded : x.loaded = false
  rootNone : c.corrupted = false → x.root = none → c.pts = []
  rootSome : c.corrupted = false → ∀ t, x.root = some t → ITree.WF ITree.maxRecs t ∧ ITree.points t = c.pts ∧ c.pts ≠ []

theorem points_leaf_nil : ITree.points (.leaf []) = [] := by decide

/-! ## 1. the window -/

theorem grEq_ref {x : CIndex.Chk} {c : ChunkIdx} (h : RefChk x c) (s : CIndex.St) (cid : Nat)
    (hf : CIndex.findChk s cid = some x) (t : Int) :
    (match CIndex.grEqAns s cid t with | .ok p => p | _ => 0) = ciGrEq ⟨x.minTs, x.maxTs⟩ (idxOf c) t := by
  unfold CIndex.grEqAns ciGrEq idxOf
  rw [hf]
  simp only []
  by_cases h1 : x.maxTs < t
  · simp [h1]
  · by_cases h2 : x.minTs ≥ t
    · simp [h1, h2]
    · simp only [h1, h2, if_false]
      rw [h.corr]
      cases hc : c.corrupted with
      | true => simp
      | false =>
        simp only [Bool.false_eq_true, if_false]
        cases hr : x.root with
        | none => simp [h.rootNone hc hr, grEqPos, cntLE]
        | some tr =>
          obtain ⟨hwf, hp, hne⟩ := h.rootSome hc tr hr
          have hnl : tr ≠ .leaf [] := by
            intro e; rw [e, points_leaf_nil] at hp; exact hne hp.symm
          obtain ⟨l1, l2, _, _⟩ := ITree.tree_lookup_eq_points ITree.maxRecs tr t hwf
          simp only []
          cases hg : ITree.grEq tr t with
          | none =>
            have := (l1 hnl).mp hg
            rw [hp] at this
            simp [grEqPos, this]
          | some r =>
            have := l2 r hg
            rw [hp] at this
            simp [this]

theorem less_ref {x : CIndex.Chk} {c : ChunkIdx} (h : RefChk x c) (s : CIndex.St) (cid : Nat)
    (hf : CIndex.findChk s cid = some x) (t : Int) :
    (match CIndex.lessAns s cid t with | .ok p => p | _ => Selector.maxU32) = ciLess ⟨x.minTs, x.maxTs⟩ (idxOf c) t := by
  unfold CIndex.lessAns ciLess idxOf
  rw [hf]
  simp only []
  by_cases h1 : x.maxTs ≤ t
  · simp [h1, CIndex.maxU32, maxU32]
  · by_cases h2 : x.minTs ≥ t
    · simp [h1, h2, Selector.maxU32, maxU32]
    · simp only [h1, h2, if_false]
      rw [h.corr]
      cases hc : c.corrupted with
      | true => simp [Selector.maxU32, maxU32]
      | false =>
        simp only [Bool.false_eq_true, if_false]
        cases hr : x.root with
        | none => simp [h.rootNone hc hr, lessPos, cntLE, CIndex.maxU32, maxU32]
        | some tr =>
          obtain ⟨hwf, hp, hne⟩ := h.rootSome hc tr hr
          obtain ⟨_, _, l3, _⟩ := ITree.tree_lookup_eq_points ITree.maxRecs tr t hwf
          rw [hp] at l3
          simp only []
          rw [← l3]
          cases hg : ITree.less tr t with
          | none => simp [CIndex.maxU32, maxU32]
          | some r => simp

/-- **window_eq**: the window of the pipeline model (`updatePoss` through the chunk index on the block tree) is the
Points-level window of the entry it refines, whenever the index accounts for every confirmed record (`count ≤ Recs`;
otherwise the whole chunk is open — `unknown_tail_window_open`). -/
theorem window_eq {x : CIndex.Chk} {c : ChunkIdx} (h : RefChk x c) (s : RangedIter.St) (cid : Nat) (st : Selector.ChkSt)
    (hf : CIndex.findChk s.cidx (cid / 10) = some x) (hcnt : st.count ≤ x.recs) :
    ((RangedIter.updatePoss s cid st).1.minPos, (RangedIter.updatePoss s cid st).1.maxPos) =
        window ⟨x.minTs, x.maxTs⟩ (idxOf c) ⟨s.rmin, s.rmax⟩ ∧
      (RangedIter.updatePoss s cid st).1.count = st.count := by
  have hnot : ¬ (st.count > x.recs) := by omega
  have e1 : Generated.C02.updatePossLowerErrPos = 0 := by decide
  have e2 : Generated.C02.updatePossUpperErrPos = Selector.maxU32 := by decide
  unfold RangedIter.updatePoss
  rw [hf]
  simp only [hnot, decide_false, Bool.and_false, Bool.false_eq_true, if_false]
  unfold Selector.updatePossWith window
  rw [e1, e2]
  by_cases hout : s.rmax < x.minTs ∨ s.rmin > x.maxTs
  · have : (decide (s.rmax < x.minTs) || decide (s.rmin > x.maxTs)) = true := by simpa using hout
    simp [this, hout, Selector.maxU32, maxU32]
  · have : (decide (s.rmax < x.minTs) || decide (s.rmin > x.maxTs)) = false := by simpa using hout
    simp only [this, Bool.false_eq_true, if_false, hout, Selector.asks]
    have hg := grEq_ref h s.cidx (cid / 10) hf
    have hl := less_ref h s.cidx (cid / 10) hf
    by_cases a : s.rmin ≥ x.minTs <;> by_cases b : s.rmax ≤ x.maxTs
    · simp only [a, b, if_true]
      rw [← hg, ← hl]
      cases CIndex.grEqAns s.cidx (cid / 10) (lowerAsk s.rmin) <;> cases CIndex.lessAns s.cidx (cid / 10) s.rmax <;> simp
    · simp only [a, b, if_true, if_false]
      rw [← hg]
      cases CIndex.grEqAns s.cidx (cid / 10) (lowerAsk s.rmin) <;> simp [Selector.maxU32, maxU32]
    · simp only [a, b, if_true, if_false]
      rw [← hl]
      cases CIndex.lessAns s.cidx (cid / 10) s.rmax <;> simp
    · simp [a, b, Selector.maxU32, maxU32]

/-! ## 2. `onWrite` -/

theorem updLast_snoc (xs : List CIndex.Chk) (x : CIndex.Chk) (f : CIndex.Chk → CIndex.Chk) :
    CIndex.updLast (xs ++ [x]) f = xs ++ [f x] := by
  simp [CIndex.updLast]

theorem u32sub_eq {a b : Nat} (h1 : b ≤ a) (h2 : a ≤ 4294967295) : CIndex.u32sub a b = a - b := by
  unfold CIndex.u32sub; omega

theorem add_ne_nil (pts : List Pt) (it : Iv) : add pts it ≠ [] := by
  cases pts with
  | nil => simp [add]
  | cons a r =>
    simp only [add]
    split
    · simp
    · split <;> simp

theorem sparse_pos : 0 < CIndex.sparseSpace := by decide

theorem onWrite_last {xs : List CIndex.Chk} {x : CIndex.Chk} {c : ChunkIdx} (h : RefChk x c) (k : Nat) (mn mx : Int)
    (hk : 0 < k) (hn : c.n + k - 1 ≤ 4294967295) (hmm : mn ≤ mx) (hap : c.corrupted = false → ∀ p ∈ c.pts, p.ts ≤ mn) :
    ∃ x', (CIndex.onWrite ⟨xs ++ [x]⟩ c.n (c.n + k - 1) x.id mn mx).1.chunks = xs ++ [x'] ∧ x'.id = x.id ∧
      RefChk x' (ChunkHist.onWrite CIndex.sparseSpace CIndex.bigGap c k mn mx) := by
  have f1 : Generated.C02.onWriteRecsNeverDecrease = true := by decide
  have f2 : Generated.C02.onWriteSkipsLateNotification = true := by decide
  have f3 : Generated.C02.onWriteSkipIsStrictLess = true := by decide
  have hrecs : max x.recs (c.n + k - 1 + 1) = c.n + k := by rw [h.recs]; omega
  have hhull : newHull c.hull mn mx = ⟨min x.minTs mn, max x.maxTs mx⟩ := by rw [h.hull]; rfl
  -- a notification in stored order is never "late by Recs" (whatever `onWriteLateByRecs` says)
  have hlate : decide (c.n + k - 1 + 1 ≤ x.recs) = false := by rw [h.recs]; simp; omega
  unfold CIndex.onWrite
  simp only [List.getLast?_append, List.getLast?_singleton, Option.some_or, bne_self_eq_false, Bool.false_eq_true, if_false,
    h.loaded, Bool.and_false, Bool.false_and, updLast_snoc, f1, f2, f3, if_true, Bool.true_and, hrecs, hlate, Bool.false_or]
  unfold ChunkHist.onWrite
  simp only [hhull]
  rw [h.corr, h.lastRec]
  cases hc : c.corrupted with
  | true =>
    simp only [if_true]
    refine ⟨_, rfl, rfl, ?_⟩
    constructor <;> simp [hc, h.corr, h.lastRec]
  | false =>
    simp only [Bool.false_eq_true, if_false]
    by_cases hskip : c.lastRec > 0 ∧ c.n + k - 1 - c.lastRec < CIndex.sparseSpace
    · have hskip' : (decide (c.lastRec > 0) && (decide (c.n + k - 1 ≤ c.lastRec) ||
          decide (CIndex.u32sub (c.n + k - 1) c.lastRec < CIndex.sparseSpace))) = true := by
        by_cases hle : c.n + k - 1 ≤ c.lastRec
        · simp [hskip.1, hle]
        · rw [u32sub_eq (by omega) hn]; simp [hskip.1, hskip.2]
      simp only [hskip', if_true]
      rw [if_pos hskip]
      refine ⟨_, rfl, rfl, ?_⟩
      constructor <;> try (simp [hc, h.corr, h.lastRec])
      · intro hr; exact h.rootNone hc hr
      · intro t hr; exact h.rootSome hc t hr
    · have hskip' : (decide (c.lastRec > 0) && (decide (c.n + k - 1 ≤ c.lastRec) ||
          decide (CIndex.u32sub (c.n + k - 1) c.lastRec < CIndex.sparseSpace))) = false := by
        by_cases h0 : c.lastRec > 0
        · have hlt : ¬ c.n + k - 1 ≤ c.lastRec := by
            intro hle; apply hskip; have := sparse_pos; exact ⟨h0, by omega⟩
          rw [u32sub_eq (by omega) hn]
          have : ¬ c.n + k - 1 - c.lastRec < CIndex.sparseSpace := fun hh => hskip ⟨h0, hh⟩
          simp [h0, hlt, this]
        · simp [h0]
      have hle : c.lastRec ≤ c.n + k - 1 := by
        by_cases h0 : c.lastRec > 0
        · apply Nat.le_of_not_lt; intro hlt; apply hskip; have := sparse_pos; exact ⟨h0, by omega⟩
        · omega
      simp only [hskip', Bool.false_eq_true, if_false]
      rw [if_neg hskip]
      rw [u32sub_eq hle hn]
      cases hr : x.root with
      | none =>
        have hp := h.rootNone hc hr
        simp only [hp, true_and]
        by_cases hbig : c.n + k - 1 - c.lastRec > CIndex.bigGap
        · simp only [hbig, if_true]
          refine ⟨_, rfl, rfl, ?_⟩
          constructor <;> simp [hc, h.corr, h.lastRec]
        · simp only [hbig, if_false]
          refine ⟨_, rfl, rfl, ?_⟩
          obtain ⟨t', e1, e2, e3⟩ := ITree.tree_append_refines_add ITree.maxRecs (by decide) (.leaf [])
            ⟨⟨mn, c.n⟩, ⟨mx, c.n + k - 1⟩⟩ (Or.inl rfl) (by intro p hp'; rw [points_leaf_nil] at hp'; simp at hp') hmm
          rw [points_leaf_nil] at e3
          constructor <;> try (simp [hc, h.corr, h.lastRec])
          · rw [e1]; simp
          · intro t ht
            rw [e1] at ht
            simp only [Option.some.injEq] at ht
            subst ht
            exact ⟨e2, e3, by simp [add]⟩
      | some tr =>
        obtain ⟨hwf, hpts, hne⟩ := h.rootSome hc tr hr
        simp only [hne, false_and, if_false]
        obtain ⟨t', e1, e2, e3⟩ := ITree.tree_append_refines_add ITree.maxRecs (by decide) tr
            ⟨⟨mn, c.n⟩, ⟨mx, c.n + k - 1⟩⟩ hwf (by intro p hp'; rw [hpts] at hp'; exact hap hc p hp') hmm
        rw [e1]
        simp only []
        refine ⟨_, rfl, rfl, ?_⟩
        rw [hpts] at e3
        constructor <;> try (simp [hc, h.corr, h.lastRec])
        · exact ⟨e2, e3, add_ne_nil _ _⟩


theorem onWrite_new_eq (xs : List CIndex.Chk) (last cid : Nat) (mn mx : Int)
    (hx : ∀ l, xs.getLast? = some l → l.id ≠ cid) :
    CIndex.onWrite ⟨xs⟩ 0 last cid mn mx = CIndex.onWrite ⟨xs ++ [{ id := cid, minTs := mn, maxTs := mx }]⟩ 0 last cid mn mx := by
  unfold CIndex.onWrite
  cases hl : xs.getLast? with
  | none =>
    have : xs = [] := by simpa using hl
    subst this
    simp [CIndex.updLast]
  | some l =>
    have hne : (l.id != cid) = true := by simpa using hx l hl
    simp [hne, CIndex.updLast]

theorem chunkOnWrite_fresh (sparse bigGap k : Nat) (mn mx : Int) :
    ChunkHist.onWrite sparse bigGap { hull := some ⟨mn, mx⟩ } k mn mx = ChunkHist.onWrite sparse bigGap {} k mn mx := by
  simp [ChunkHist.onWrite, newHull]

theorem onWrite_new (xs : List CIndex.Chk) (k cid : Nat) (mn mx : Int) (hx : ∀ l, xs.getLast? = some l → l.id ≠ cid)
    (hk : 0 < k) (hn : k - 1 ≤ 4294967295) (hmm : mn ≤ mx) :
    ∃ x', (CIndex.onWrite ⟨xs⟩ 0 (k - 1) cid mn mx).1.chunks = xs ++ [x'] ∧ x'.id = cid ∧
      RefChk x' (ChunkHist.onWrite CIndex.sparseSpace CIndex.bigGap {} k mn mx) := by
  rw [onWrite_new_eq xs (k - 1) cid mn mx hx, ← chunkOnWrite_fresh]
  have href : RefChk ({ id := cid, minTs := mn, maxTs := mx } : CIndex.Chk) ({ hull := some ⟨mn, mx⟩ } : ChunkIdx) := by
    constructor <;> simp
  have := onWrite_last (xs := xs) href k mn mx hk (by simpa using hn) hmm (by intro _ p hp; simp at hp)
  simpa using this

/-! ## 3. rebuilds -/

theorem tree_writeSeg {tr : ITree.T} {pts : List Pt} (hwf : ITree.WF ITree.maxRecs tr) (hp : ITree.points tr = pts)
    (segMin segMax : Int) (pos0 pos1 : Nat) (hall : pos0 ≠ pos1 → (∀ p ∈ pts, p.ts ≤ segMin) ∧ segMin ≤ segMax) :
    ∃ tr', CIndex.writeSeg (some tr) segMin segMax pos0 pos1 = some tr' ∧ ITree.WF ITree.maxRecs tr' ∧
      ITree.points tr' = RebuildHist.writeSeg pts segMin segMax pos0 pos1 := by
  unfold CIndex.writeSeg RebuildHist.writeSeg
  by_cases he : pos0 = pos1
  · simp [he, hwf, hp]
  · have hb : (pos0 == pos1) = false := by simpa using he
    simp only [hb, Bool.false_eq_true, if_false, he]
    obtain ⟨h1, h2⟩ := hall he
    obtain ⟨t', e1, e2, e3⟩ := ITree.tree_append_refines_add ITree.maxRecs (by decide) tr
      ⟨⟨segMin, pos0⟩, ⟨segMax, pos1⟩⟩ hwf (by intro p hp'; rw [hp] at hp'; exact h1 p hp') h2
    exact ⟨t', e1, e2, by rw [e3, hp]⟩

theorem writeSeg_ne_nil {pts : List Pt} (h : pts ≠ []) (a b : Int) (c d : Nat) : RebuildHist.writeSeg pts a b c d ≠ [] := by
  unfold RebuildHist.writeSeg
  split
  · exact h
  · exact add_ne_nil _ _

theorem go_ref {tsOf : Nat → Int} {m : Nat} {segMax0 : Int} (hmono : Monotone tsOf m)
    (hs0 : ∀ q, q < m → segMax0 ≤ tsOf q) (hhi : ∀ q, q < m → tsOf q ≤ RebuildHist.maxI64) :
    ∀ (k : Nat) (tr : ITree.T) (pts : List Pt) (pos0 pos1 : Nat) (segMin segMax mn mx : Int), pos1 + k = m → pos0 ≤ pos1 → 0 < m →
      pts ≠ [] → ITree.WF ITree.maxRecs tr → ITree.points tr = pts → (∀ p ∈ pts, RbPt tsOf m p ∧ p.idx ≤ pos0) →
      (pos0 < pos1 → segMin = tsOf pos0 ∧ segMax = tsOf (pos1 - 1)) →
      (pos0 = pos1 → segMin = RebuildHist.maxI64 ∧ segMax = segMax0) →
      ∃ tr', CIndex.rebuildIntWith.go segMax0 ((List.range' pos1 k).map tsOf) (some tr) mn mx segMin segMax pos0 pos1 =
          (some tr', ((List.range' pos1 k).map tsOf).foldl min mn, ((List.range' pos1 k).map tsOf).foldl max mx) ∧
        ITree.WF ITree.maxRecs tr' ∧
        ITree.points tr' = RebuildHist.scan CIndex.sparseSpace segMax0 ((List.range' pos1 k).map tsOf) pts pos0 pos1 segMin segMax ∧
        ITree.points tr' ≠ [] := by
  have fs : Generated.C02.rebuildSegmentIsStrictLess = true := by decide
  intro k
  induction k with
  | zero =>
    intro tr pts pos0 pos1 segMin segMax mn mx hk hle hm0 hne hwf hp H Hlt Heq
    simp only [List.range'_zero, List.map_nil, RebuildHist.scan, CIndex.rebuildIntWith.go, List.foldl_nil]
    obtain ⟨tr', e1, e2, e3⟩ := tree_writeSeg hwf hp segMin segMax pos0 pos1 (by
      intro he
      obtain ⟨e1, e2⟩ := Hlt (by omega)
      refine ⟨?_, ?_⟩
      · intro p' hp'
        obtain ⟨⟨h1, _, h3⟩, h4⟩ := H p' hp'
        have := hmono (p'.idx - 1) pos0 (by omega) (by omega)
        omega
      · have := hmono pos0 (pos1 - 1) (by omega) (by omega)
        omega)
    exact ⟨tr', by rw [e1], e2, e3, by rw [e3]; exact writeSeg_ne_nil hne _ _ _ _⟩
  | succ k ih =>
    intro tr pts pos0 pos1 segMin segMax mn mx hk hle hm0 hne hwf hp H Hlt Heq
    rw [List.range'_succ, List.map_cons]
    have hp1 : pos1 < m := by omega
    have hmin : min segMin (tsOf pos1) = tsOf pos0 := by
      by_cases he : pos0 = pos1
      · obtain ⟨e1, _⟩ := Heq he
        have := hhi pos1 hp1
        rw [e1, he]; omega
      · obtain ⟨e1, _⟩ := Hlt (by omega)
        have := hmono pos0 pos1 hle hp1
        rw [e1]; omega
    have hmax : max segMax (tsOf pos1) = tsOf pos1 := by
      by_cases he : pos0 = pos1
      · obtain ⟨_, e2⟩ := Heq he
        have := hs0 pos1 hp1
        rw [e2]; omega
      · obtain ⟨_, e2⟩ := Hlt (by omega)
        have := hmono (pos1 - 1) pos1 (by omega) hp1
        rw [e2]; omega
    simp only [RebuildHist.scan, CIndex.rebuildIntWith.go, List.foldl_cons, fs, if_true]
    rw [hmin, hmax]
    by_cases hseg : pos1 + 1 - pos0 < CIndex.sparseSpace
    · simp only [hseg, if_true]
      exact ih tr pts pos0 (pos1 + 1) _ _ _ _ (by omega) (by omega) hm0 hne hwf hp H (fun _ => ⟨rfl, by simp⟩) (fun h => by omega)
    · simp only [hseg, if_false]
      have hall : ∀ p ∈ pts, p.ts ≤ tsOf pos0 := by
        intro p' hp'
        obtain ⟨⟨h1, _, h3⟩, h4⟩ := H p' hp'
        have := hmono (p'.idx - 1) pos0 (by omega) (by omega)
        omega
      obtain ⟨tr1, e1, e2, e3⟩ := tree_writeSeg hwf hp (tsOf pos0) (tsOf pos1) pos0 (pos1 + 1)
        (fun _ => ⟨hall, hmono pos0 pos1 hle hp1⟩)
      rw [e1]
      have hws := RebuildHist.writeSeg_append (segMax := tsOf pos1) (pos0 := pos0) (pos1 := pos1 + 1) hne (by omega) hall
      obtain ⟨tr', g1, g2, g3, g4⟩ := ih tr1 _ (pos1 + 1) (pos1 + 1) RebuildHist.maxI64 segMax0 (min mn (tsOf pos1)) (max mx (tsOf pos1))
        (by omega) (Nat.le_refl _) hm0 (by rw [hws]; simp) e2 e3 (by
          intro p' hp'
          rw [hws, List.mem_append] at hp'
          rcases hp' with hp' | hp'
          · obtain ⟨h1, h4⟩ := H p' hp'
            exact ⟨h1, by omega⟩
          · simp at hp'; subst hp'
            exact ⟨⟨by dsimp only; omega, hm0, by simp⟩, by simp⟩) (fun h => by omega) (fun _ => ⟨rfl, rfl⟩)
      exact ⟨tr', g1, g2, g3, g4⟩


/-- the tree `rebuildIndexInt` builds from the first `m` records of monotone data is well-formed, its points are the flat
rebuild, and the scanned hull is `scannedHull` -/
theorem rebuildInt_ref {tsOf : Nat → Int} {m : Nat} {segMax0 : Int} (hm0 : 0 < m) (hmono : Monotone tsOf m)
    (hs0 : ∀ q, q < m → segMax0 ≤ tsOf q) (hhi : ∀ q, q < m → tsOf q ≤ RebuildHist.maxI64) :
    ∃ tr, CIndex.rebuildIntWith segMax0 ((List.range m).map tsOf) =
        (some tr, (scannedHull ((List.range m).map tsOf)).minTs, (scannedHull ((List.range m).map tsOf)).maxTs) ∧
      ITree.WF ITree.maxRecs tr ∧
      ITree.points tr = rebuildPts CIndex.sparseSpace segMax0 ((List.range m).map tsOf) ∧
      rebuildPts CIndex.sparseSpace segMax0 ((List.range m).map tsOf) ≠ [] := by
  cases m with
  | zero => omega
  | succ k =>
    obtain ⟨t0, e1, e2, e3⟩ := ITree.tree_append_refines_add ITree.maxRecs (by decide) (.leaf [])
      ⟨⟨tsOf 0, 0⟩, ⟨tsOf 0, 0⟩⟩ (Or.inl rfl) (by intro p hp'; rw [points_leaf_nil] at hp'; simp at hp') (Int.le_refl _)
    rw [points_leaf_nil] at e3
    have hl : (List.range (k + 1)).map tsOf = (List.range' 0 (k + 1)).map tsOf := by rw [List.range_eq_range']
    have hg := go_ref hmono hs0 hhi (k + 1) t0 [⟨tsOf 0, 0⟩, ⟨tsOf 0, 0⟩] 0 0 RebuildHist.maxI64 segMax0 (tsOf 0) (tsOf 0)
      (by omega) (Nat.le_refl _) (by omega) (by simp) e2 (by rw [e3]; rfl) (by
        intro p' hp'
        simp at hp'
        subst hp'
        exact ⟨⟨by simp, by omega, rfl⟩, by simp⟩) (fun h => by omega) (fun _ => ⟨rfl, rfl⟩)
    obtain ⟨tr, g1, g2, g3, g4⟩ := hg
    have er : rebuildPts CIndex.sparseSpace segMax0 ((List.range (k + 1)).map tsOf) =
        RebuildHist.scan CIndex.sparseSpace segMax0 ((List.range' 0 (k + 1)).map tsOf) [⟨tsOf 0, 0⟩, ⟨tsOf 0, 0⟩] 0 0 RebuildHist.maxI64 segMax0 := by
      rw [← List.range_eq_range', map_range_succ_eq]; rfl
    have ei : CIndex.rebuildIntWith segMax0 ((List.range (k + 1)).map tsOf) =
        CIndex.rebuildIntWith.go segMax0 ((List.range' 0 (k + 1)).map tsOf) (some t0) (tsOf 0) (tsOf 0) RebuildHist.maxI64 segMax0 0 0 := by
      rw [← List.range_eq_range', map_range_succ_eq]
      simp only [CIndex.rebuildIntWith]
      rw [e1]; rfl
    have eh : scannedHull ((List.range (k + 1)).map tsOf) =
        ⟨((List.range' 0 (k + 1)).map tsOf).foldl min (tsOf 0), ((List.range' 0 (k + 1)).map tsOf).foldl max (tsOf 0)⟩ := by
      rw [← List.range_eq_range', map_range_succ_eq]; rfl
    refine ⟨tr, ?_, g2, ?_, ?_⟩
    · rw [ei, g1, eh]
    · rw [g3, er]
    · rw [er, ← g3]; exact g4


theorem rebuildWith_ref (s : CIndex.St) (cid : Nat) {x0 : CIndex.Chk} (hf : CIndex.findChk s cid = some x0)
    {tsOf : Nat → Int} {m : Nat} {segMax0 : Int} (hmono : Monotone tsOf m)
    (hs0 : ∀ q, q < m → segMax0 ≤ tsOf q) (hhi : ∀ q, q < m → tsOf q ≤ RebuildHist.maxI64) :
    ∃ f : CIndex.Chk → CIndex.Chk,
      (CIndex.rebuildWith segMax0 s cid ((List.range m).map tsOf)).chunks = CIndex.updChk s.chunks cid f ∧
      (∀ x, (f x).id = x.id) ∧
      ∀ x c, RefChk x c → m ≤ c.n → RefChk (f x) (RebuildHist.rebuild CIndex.sparseSpace segMax0 c ((List.range m).map tsOf)) := by
  unfold CIndex.rebuildWith
  rw [hf]
  cases m with
  | zero =>
    simp only [List.range_zero, List.map_nil]
    refine ⟨_, rfl, fun _ => rfl, ?_⟩
    intro x c h _
    unfold RebuildHist.rebuild
    rw [h.hull]
    constructor <;> simp [rebuildPts, scannedHull, h.recs, h.loaded]
  | succ k =>
    obtain ⟨tr, e1, e2, e3, e4⟩ := rebuildInt_ref (segMax0 := segMax0) (by omega : 0 < k + 1) hmono hs0 hhi
    rw [e1]
    have hlen : ((List.range (k + 1)).map tsOf).length = k + 1 := by simp
    rw [map_range_succ_eq] at *
    simp only []
    refine ⟨_, rfl, fun _ => rfl, ?_⟩
    intro x c h hmn
    -- the rebuild scanned a prefix of what the entry accounts for: raising `Recs` to it changes nothing
    have hrecs : (if Generated.C02.rebuildRaisesRecs = true then max x.recs (tsOf 0 :: List.map tsOf (List.range' 1 k)).length else x.recs) = c.n := by
      rw [hlen, h.recs]; split <;> omega
    unfold RebuildHist.rebuild
    rw [h.hull]
    constructor <;> try (simp only [hrecs]) <;> try (simp [h.recs, h.loaded])
    · exact ⟨e2, e3, e4⟩

/-! ## 4. histories -/

/-- one notification on the chunk's entry: the facts `onWrite_last` needs follow from `SoundL`, monotonicity and the
`RollHull` of the notification -/
theorem chunk_ref_step {tsOf : Nat → Int} {xs : List CIndex.Chk} {x : CIndex.Chk} {c : ChunkIdx} (h : RefChk x c)
    (hs : SoundL tsOf c) (k : Nat) (mn mx : Int) (hk : 0 < k) (hm : Monotone tsOf (c.n + k))
    (he : RollHull tsOf c.n k mn mx) (hn : c.n + k - 1 ≤ 4294967295) :
    ∃ x', (CIndex.onWrite ⟨xs ++ [x]⟩ c.n (c.n + k - 1) x.id mn mx).1.chunks = xs ++ [x'] ∧ x'.id = x.id ∧
      RefChk x' (ChunkHist.onWrite CIndex.sparseSpace CIndex.bigGap c k mn mx) := by
  obtain ⟨hin, _, hroll, _⟩ := he
  apply onWrite_last h k mn mx hk hn
  · have := hin c.n (Nat.le_refl _) (by omega); omega
  · intro hc p hp
    obtain ⟨q', hq', hle⟩ := hs.attained hc p hp
    rcases hroll with h0 | ⟨q, hq1, hq2, hq3⟩
    · omega
    · have := hm q' q (by omega) hq2
      omega

structure Ref (st : PSt) (p : List PChunk) : Prop where
  tss : st.tss = p.map (·.tss)
  len : st.cidx.chunks.length = p.length
  chk : ∀ i (h1 : i < st.cidx.chunks.length) (h2 : i < p.length),
    (st.cidx.chunks[i]).id = i + 1 ∧ RefChk (st.cidx.chunks[i]) (p[i]).idx

theorem ref_snoc {ys : List CIndex.Chk} {front : List PChunk} {tss : List (List Int)}
    (h : Ref ⟨⟨ys⟩, tss⟩ front) (x : CIndex.Chk) (c : PChunk) (hid : x.id = front.length + 1) (hr : RefChk x c.idx) :
    Ref ⟨⟨ys ++ [x]⟩, tss ++ [c.tss]⟩ (front ++ [c]) := by
  have hlen : ys.length = front.length := h.len
  have htss : tss = front.map (·.tss) := h.tss
  refine ⟨by simp [htss], by simp [hlen], ?_⟩
  intro i h1 h2
  by_cases hi : i < ys.length
  · have hi' : i < front.length := by omega
    simp only [List.getElem_append_left hi, List.getElem_append_left hi']
    exact h.chk i hi hi'
  · have : i = ys.length := by simp at h1; omega
    subst this
    simp only [List.getElem_append_right (Nat.le_refl _), Nat.sub_self, List.getElem_cons_zero]
    have e : (front ++ [c])[ys.length]'h2 = c := by
      rw [List.getElem_append_right (by omega)]; simp [hlen]
    rw [e]
    exact ⟨by omega, hr⟩

open Logrange.WriteLoop

theorem st_eq (s : CIndex.St) (l : List CIndex.Chk) (h : s.chunks = l) : s = ⟨l⟩ := by
  cases s; simp at h; rw [h]

theorem ref_unsnoc {ys : List CIndex.Chk} {front : List PChunk} {cur : PChunk} {tss : List (List Int)}
    (h : Ref ⟨⟨ys⟩, tss⟩ (front ++ [cur])) :
    ∃ ys' x, ys = ys' ++ [x] ∧ tss = front.map (·.tss) ++ [cur.tss] ∧ Ref ⟨⟨ys'⟩, front.map (·.tss)⟩ front ∧
      x.id = front.length + 1 ∧ RefChk x cur.idx := by
  have hlen : ys.length = (front ++ [cur]).length := h.len
  have hne : ys ≠ [] := by intro e; rw [e] at hlen; simp at hlen
  obtain ⟨ys', x, e⟩ : ∃ ys' x, ys = ys' ++ [x] := ⟨ys.dropLast, ys.getLast hne, (List.dropLast_concat_getLast hne).symm⟩
  subst e
  have hl' : ys'.length = front.length := by simp at hlen; exact hlen
  have htss : tss = (front ++ [cur]).map (·.tss) := h.tss
  refine ⟨ys', x, rfl, by simp [htss], ⟨rfl, hl', ?_⟩, ?_⟩
  · intro i h1 h2
    have := h.chk i (by simp; omega) (by simp; omega)
    simp only [List.getElem_append_left h1, List.getElem_append_left h2] at this
    exact this
  · have := h.chk ys'.length (by simp) (by simp; omega)
    simp only [List.getElem_append_right (Nat.le_refl _), Nat.sub_self, List.getElem_cons_zero] at this
    have e : (front ++ [cur])[ys'.length]'(by simp; omega) = cur := by
      rw [List.getElem_append_right (by omega)]; simp [hl']
    rw [e] at this
    exact ⟨by omega, this.2⟩

theorem pieceStep_ref (st : PSt) (p : List PChunk) (pre : List Int) (pc : Piece)
    (href : Ref st p) (hinv : PartInv p) (hsuf : ∃ u, flat p = u ++ pre) (hl : pc.l ≠ [])
    (hs : (flat p ++ pc.l).Pairwise (· ≤ ·)) (hlow : ∀ t ∈ flat p ++ pc.l, minI64 ≤ t)
    (hnc : pc.newChunk = false → pre = [] ∧ p ≠ [])
    (hsize : ∀ c ∈ (applyPiece CIndex.sparseSpace CIndex.bigGap (p, pre.foldl IW.see {}) pc).1, c.tss.length ≤ 4294967295) :
    Ref (pieceStep (st, pre.foldl IW.see {}) pc).1 (applyPiece CIndex.sparseSpace CIndex.bigGap (p, pre.foldl IW.see {}) pc).1 ∧
      (pieceStep (st, pre.foldl IW.see {}) pc).2 = (pre ++ pc.l).foldl IW.see {} := by
  obtain ⟨u, hu⟩ := hsuf
  have hs1 : (pre ++ pc.l).Pairwise (· ≤ ·) := by
    rw [hu, List.append_assoc] at hs
    exact (List.pairwise_append.mp hs).2.1
  have hlow1 : ∀ t ∈ pre ++ pc.l, minI64 ≤ t := by
    intro t ht
    apply hlow; rw [hu, List.append_assoc]; exact List.mem_append_right _ ht
  have hiw : pc.l.foldl IW.see (pre.foldl IW.see {}) = (pre ++ pc.l).foldl IW.see {} := List.foldl_append.symm
  have hlen : 0 < pc.l.length := List.length_pos_iff.mpr hl
  obtain ⟨⟨ys⟩, tss⟩ := st
  cases hb : pc.newChunk with
  | true =>
    have hroll := rollHull_piece pre [] pc.l hl hs1 hlow1 (Or.inl rfl)
    have hmm : ((pre ++ pc.l).foldl IW.see {}).minTs ≤ ((pre ++ pc.l).foldl IW.see {}).maxTs := by
      have := hroll.1 0 (Nat.le_refl _) (by simp; omega); omega
    have htss : tss = p.map (·.tss) := href.tss
    have htl : tss.length = p.length := by rw [htss]; simp
    have hyl : ys.length = p.length := href.len
    simp only [applyPiece, pieceStep, hb, hiw, if_true, List.nil_append, List.length_nil, Nat.zero_add] at hsize ⊢
    have hn : pc.l.length - 1 ≤ 4294967295 := by
      have := hsize ⟨ChunkHist.onWrite CIndex.sparseSpace CIndex.bigGap ({} : PChunk).idx pc.l.length
        ((pre ++ pc.l).foldl IW.see {}).minTs ((pre ++ pc.l).foldl IW.see {}).maxTs, ({} : PChunk).tss ++ pc.l⟩ (by simp)
      simp at this; omega
    obtain ⟨x', e1, e2, e3⟩ := onWrite_new ys pc.l.length (tss.length + 1) _ _ (by
      intro l hl'
      obtain ⟨i, hi, e⟩ := List.mem_iff_getElem.mp (List.mem_of_getLast? hl')
      have := (href.chk i hi (by omega)).1
      simp only at this
      rw [← e, this]; omega) hlen hn hmm
    refine ⟨?_, trivial⟩
    rw [st_eq _ _ e1]
    exact ref_snoc href x' ⟨_, _⟩ (by rw [e2]; omega) e3
  | false =>
    obtain ⟨hpre, hp⟩ := hnc hb
    obtain ⟨front, cur, e⟩ : ∃ front cur, p = front ++ [cur] :=
      ⟨p.dropLast, p.getLast hp, (List.dropLast_concat_getLast hp).symm⟩
    subst e
    obtain ⟨ys', x, ey, et, hr0, hid, hrx⟩ := ref_unsnoc href
    subst ey et
    obtain ⟨hn, hsl⟩ : ChunkInv cur := hinv cur (by simp)
    rw [flat_concat, List.append_assoc] at hs
    have hs2 := (List.pairwise_append.mp hs).2.1
    have hroll := rollHull_piece pre cur.tss pc.l hl hs1 hlow1 (Or.inr hpre)
    have hs' : SoundL (tsOfList (cur.tss ++ pc.l)) cur.idx :=
      soundL_congr hsl (fun q hq => (tsOfList_append_left _ _ (by omega)).symm)
    simp only [applyPiece, pieceStep, hb, hiw, List.dropLast_concat, List.getLast?_concat, Option.getD_some,
      Bool.false_eq_true, if_false, List.length_map] at hsize ⊢
    have hnn : cur.idx.n + pc.l.length - 1 ≤ 4294967295 := by
      have := hsize ⟨ChunkHist.onWrite CIndex.sparseSpace CIndex.bigGap cur.idx pc.l.length
        ((pre ++ pc.l).foldl IW.see {}).minTs ((pre ++ pc.l).foldl IW.see {}).maxTs, cur.tss ++ pc.l⟩ (by simp)
      simp at this; omega
    obtain ⟨x', e1, e2, e3⟩ := chunk_ref_step (xs := ys') hrx hs' pc.l.length _ _ hlen
      (by rw [hn, ← List.length_append]; exact monotone_of_sorted _ hs2) (by rw [hn]; exact hroll) hnn
    refine ⟨?_, trivial⟩
    rw [← hn, ← hid, st_eq _ _ e1]
    exact ref_snoc hr0 x' ⟨_, _⟩ (by rw [e2]; exact hid) e3


/-- no chunk holds more records than a uint32 position can name -/
def Small (p : List PChunk) : Prop := ∀ c ∈ p, c.tss.length ≤ 4294967295

theorem small_applyPiece (sparse bigGap : Nat) (s : List PChunk × IW) (pc : Piece)
    (h : Small (applyPiece sparse bigGap s pc).1) : Small s.1 := by
  intro c hc
  unfold applyPiece at h
  cases hb : pc.newChunk with
  | true =>
    simp only [hb, if_true] at h
    exact h c (List.mem_append_left _ hc)
  | false =>
    simp only [hb, Bool.false_eq_true, if_false] at h
    have hne : s.1 ≠ [] := by intro e; rw [e] at hc; simp at hc
    obtain ⟨front, cur, e⟩ : ∃ front cur, s.1 = front ++ [cur] :=
      ⟨s.1.dropLast, s.1.getLast hne, (List.dropLast_concat_getLast hne).symm⟩
    rw [e] at hc h
    simp only [List.dropLast_concat, List.getLast?_concat, Option.getD_some] at h
    rcases List.mem_append.mp hc with hc | hc
    · exact h c (List.mem_append_left _ hc)
    · simp at hc; subst hc
      have := h _ (List.mem_append_right _ (List.mem_singleton.mpr rfl))
      simp at this; omega

theorem small_foldPieces (sparse bigGap : Nat) : ∀ (pieces : List Piece) (s : List PChunk × IW),
    Small (pieces.foldl (applyPiece sparse bigGap) s).1 → Small s.1 := by
  intro pieces
  induction pieces with
  | nil => intro s h; exact h
  | cons pc rest ih => intro s h; exact small_applyPiece sparse bigGap s pc (ih _ h)

theorem pieces_ref : ∀ (pieces : List Piece) (st : PSt) (p : List PChunk) (pre : List Int),
    Ref st p → PartInv p → (∃ u, flat p = u ++ pre) → (flat p ++ flatL pieces).Pairwise (· ≤ ·) →
    (∀ t ∈ flat p ++ flatL pieces, minI64 ≤ t) → (∀ q ∈ pieces, q.l ≠ [] ∧ q.newChunk = true) →
    Small (pieces.foldl (applyPiece CIndex.sparseSpace CIndex.bigGap) (p, pre.foldl IW.see {})).1 →
    Ref (pieces.foldl pieceStep (st, pre.foldl IW.see {})).1
      (pieces.foldl (applyPiece CIndex.sparseSpace CIndex.bigGap) (p, pre.foldl IW.see {})).1 := by
  intro pieces
  induction pieces with
  | nil => intro st p pre href _ _ _ _ _ _; exact href
  | cons pc rest ih =>
    intro st p pre href hinv hsuf hs hlow hok hsmall
    rw [flatL_cons, ← List.append_assoc] at hs hlow
    obtain ⟨hl, hnew⟩ := hok pc List.mem_cons_self
    have hnc : pc.newChunk = false → pre = [] ∧ p ≠ [] := fun h => by rw [hnew] at h; exact Bool.noConfusion h
    have hs0 := (List.pairwise_append.mp hs).1
    have hlow0 : ∀ t ∈ flat p ++ pc.l, minI64 ≤ t := fun t ht => hlow t (List.mem_append_left _ ht)
    obtain ⟨h1, h2, h3⟩ := applyPiece_inv CIndex.sparseSpace CIndex.bigGap p pre pc hinv hsuf hl hs0 hlow0 hnc
    rw [List.foldl_cons] at hsmall
    obtain ⟨r1, r2⟩ := pieceStep_ref st p pre pc href hinv hsuf hl hs0 hlow0 hnc
      (small_foldPieces _ _ rest _ hsmall)
    have e : applyPiece CIndex.sparseSpace CIndex.bigGap (p, pre.foldl IW.see {}) pc =
        ((applyPiece CIndex.sparseSpace CIndex.bigGap (p, pre.foldl IW.see {}) pc).1, (pre ++ pc.l).foldl IW.see {}) := Prod.ext rfl h3
    have e' : pieceStep (st, pre.foldl IW.see {}) pc =
        ((pieceStep (st, pre.foldl IW.see {}) pc).1, (pre ++ pc.l).foldl IW.see {}) := Prod.ext rfl r2
    rw [List.foldl_cons, List.foldl_cons, e, e']
    rw [e] at hsmall
    obtain ⟨u, hu⟩ := hsuf
    exact ih _ _ (pre ++ pc.l) r1 h1 ⟨u, by rw [h2, hu, List.append_assoc]⟩ (by rw [h2]; exact hs) (by rw [h2]; exact hlow)
      (fun q hq => hok q (List.mem_cons_of_mem _ hq)) hsmall

/-- **one `Service.Write` call keeps the refinement** -/
theorem call_ref (st : PSt) (p : List PChunk) (pieces : List Piece) (href : Ref st p) (hinv : PartInv p)
    (hs : (flat p ++ flatL pieces).Pairwise (· ≤ ·)) (hlow : ∀ t ∈ flat p ++ flatL pieces, minI64 ≤ t)
    (hok : CallOK p pieces) (hsmall : Small (writeCall CIndex.sparseSpace CIndex.bigGap p pieces)) :
    Ref (step st (.call pieces)) (writeCall CIndex.sparseSpace CIndex.bigGap p pieces) := by
  cases pieces with
  | nil => exact href
  | cons pc rest =>
    obtain ⟨hl, hp, hrest⟩ := hok
    rw [flatL_cons, ← List.append_assoc] at hs hlow
    have hs0 := (List.pairwise_append.mp hs).1
    have hlow0 : ∀ t ∈ flat p ++ pc.l, minI64 ≤ t := fun t ht => hlow t (List.mem_append_left _ ht)
    obtain ⟨h1, h2, h3⟩ := applyPiece_inv CIndex.sparseSpace CIndex.bigGap p [] pc hinv ⟨flat p, by simp⟩ hl hs0 hlow0
      (fun h => ⟨rfl, hp h⟩)
    unfold writeCall at hsmall
    rw [List.foldl_cons] at hsmall
    obtain ⟨r1, r2⟩ := pieceStep_ref st p [] pc href hinv ⟨flat p, by simp⟩ hl hs0 hlow0 (fun h => ⟨rfl, hp h⟩)
      (small_foldPieces _ _ rest _ hsmall)
    simp only [List.foldl_nil] at h1 h2 h3 r1 r2 hsmall
    have e : applyPiece CIndex.sparseSpace CIndex.bigGap (p, {}) pc =
        ((applyPiece CIndex.sparseSpace CIndex.bigGap (p, {}) pc).1, ([] ++ pc.l).foldl IW.see {}) := Prod.ext rfl h3
    have e' : pieceStep (st, {}) pc = ((pieceStep (st, {}) pc).1, ([] ++ pc.l).foldl IW.see {}) := Prod.ext rfl r2
    unfold writeCall step
    simp only []
    rw [List.foldl_cons, List.foldl_cons, e, e']
    rw [e] at hsmall
    exact pieces_ref rest _ _ ([] ++ pc.l) r1 h1 ⟨flat p, by rw [h2, List.nil_append]⟩ (by rw [h2]; exact hs)
      (by rw [h2]; exact hlow) hrest hsmall


theorem find_by_id : ∀ (xs : List CIndex.Chk) (off : Nat), (∀ i (hi : i < xs.length), (xs[i]).id = off + i + 1) →
    ∀ k (hk : k < xs.length), xs.find? (fun c => c.id == off + k + 1) = some xs[k] := by
  intro xs
  induction xs with
  | nil => intro off _ k hk; simp at hk
  | cons a r ih =>
    intro off h k hk
    cases k with
    | zero =>
      have := h 0 (by simp)
      simp at this
      simp [List.find?, this]
    | succ k =>
      have h0 := h 0 (by simp)
      simp at h0
      have hne : (a.id == off + (k + 1) + 1) = false := by simp [h0]
      simp only [List.find?, hne, List.getElem_cons_succ]
      have := ih (off + 1) (by
        intro i hi
        have := h (i + 1) (by simp; omega)
        simp at this; rw [this]; omega) k (by simpa using hk)
      rw [← this]
      congr 1
      funext c
      congr 1
      omega

theorem find_by_id_none : ∀ (xs : List CIndex.Chk) (off : Nat), (∀ i (hi : i < xs.length), (xs[i]).id = off + i + 1) →
    ∀ k, xs.length ≤ k → xs.find? (fun c => c.id == off + k + 1) = none := by
  intro xs off h k hk
  rw [List.find?_eq_none]
  intro c hc
  obtain ⟨i, hi, e⟩ := List.getElem_of_mem hc
  have := h i hi
  rw [e] at this
  simp [this]; omega

theorem take_eq_range (l : List Int) (m : Nat) : l.take m = (List.range (min m l.length)).map (tsOfList l) := by
  apply List.ext_getElem
  · simp
  · intro i h1 h2
    simp at h1 h2
    simp [tsOfList, List.getElem_take]
    have : i < l.length := by omega
    simp [this]

theorem sorted_of_mem {p : List PChunk} {c : PChunk} (hc : c ∈ p) (hs : (flat p).Pairwise (· ≤ ·)) : c.tss.Pairwise (· ≤ ·) :=
  List.Pairwise.sublist (List.sublist_flatten_of_mem (List.mem_map_of_mem hc)) hs

theorem mem_flat_of_mem {p : List PChunk} {c : PChunk} (hc : c ∈ p) {t : Int} (ht : t ∈ c.tss) : t ∈ flat p :=
  (List.sublist_flatten_of_mem (List.mem_map_of_mem (f := (·.tss)) hc)).subset ht

theorem chunkInv_rebuild {p : List PChunk} {c : PChunk} (hc : c ∈ p) (hinv : ChunkInv c) (m : Nat)
    (hs : (flat p).Pairwise (· ≤ ·)) (hlow : ∀ t ∈ flat p, minI64 ≤ t) (hhi : ∀ t ∈ flat p, t ≤ RebuildHist.maxI64) :
    ChunkInv (absRebuild m c) := by
  obtain ⟨hn, hsl⟩ := hinv
  have f : Generated.C02.rebuildSegmentMaxInit = minI64 := by decide
  have hb : ∀ q, q < c.idx.n → minI64 ≤ tsOfList c.tss q ∧ tsOfList c.tss q ≤ RebuildHist.maxI64 := by
    intro q hq
    have := mem_flat_of_mem hc (tsOfList_mem (by omega : q < c.tss.length))
    exact ⟨hlow _ this, hhi _ this⟩
  constructor
  · show (RebuildHist.rebuild _ _ c.idx _).n = c.tss.length
    rw [rebuild_n]; exact hn
  · show SoundL (tsOfList c.tss) (RebuildHist.rebuild _ _ c.idx (c.tss.take m))
    rw [take_eq_range, ← hn]
    exact rebuild_preservesL CIndex.sparseSpace (min m c.idx.n) hsl (Nat.min_le_right _ _)
      (by rw [hn]; exact monotone_of_sorted _ (sorted_of_mem hc hs)) (fun q hq => (hb q hq).1) (fun q hq => (hb q hq).2)
      (fun q hq => by rw [f]; exact (hb q hq).1)


theorem map_tss_modify (p : List PChunk) (k m : Nat) : (p.modify k (absRebuild m)).map (·.tss) = p.map (·.tss) := by
  apply List.ext_getElem
  · simp
  · intro i h1 h2
    simp only [List.getElem_map, List.getElem_modify]
    split <;> rfl

theorem small_of_map_eq {p q : List PChunk} (h : p.map (·.tss) = q.map (·.tss)) (hs : Small p) : Small q := by
  intro c hc
  have : c.tss ∈ p.map (·.tss) := by rw [h]; exact List.mem_map_of_mem hc
  obtain ⟨c', hc', e⟩ := List.mem_map.mp this
  have := hs c' hc'
  rw [← e]; exact this

theorem flat_of_map_eq {p q : List PChunk} (h : p.map (·.tss) = q.map (·.tss)) : flat p = flat q := by
  unfold flat; rw [h]

/-- **one rebuild of a confirmed prefix keeps the refinement and the invariant** -/
theorem rebuild_step_ref (st : PSt) (p : List PChunk) (k m : Nat) (href : Ref st p) (hinv : PartInv p)
    (hs : (flat p).Pairwise (· ≤ ·)) (hlow : ∀ t ∈ flat p, minI64 ≤ t) (hhi : ∀ t ∈ flat p, t ≤ RebuildHist.maxI64) :
    Ref (step st (.rebuild k m)) (absStep p (.rebuild k m)) ∧ PartInv (absStep p (.rebuild k m)) := by
  have f : Generated.C02.rebuildSegmentMaxInit = minI64 := by decide
  obtain ⟨⟨ys⟩, tss⟩ := st
  have htss : tss = p.map (·.tss) := href.tss
  have hlen : ys.length = p.length := href.len
  have hids : ∀ i (hi : i < ys.length), (ys[i]).id = 0 + i + 1 := by
    intro i hi; have := (href.chk i hi (by omega)).1; simp only at this; omega
  unfold step absStep
  simp only []
  by_cases hk : k < p.length
  · have hky : k < ys.length := by omega
    have hfind : CIndex.findChk ⟨ys⟩ (k + 1) = some ys[k] := by
      have := find_by_id ys 0 hids k hky
      simpa [CIndex.findChk] using this
    have hget : tss.getD k [] = (p[k]).tss := by rw [htss]; simp [hk]
    have hmem : p[k] ∈ p := List.getElem_mem hk
    obtain ⟨hn, hsl⟩ := hinv _ hmem
    have hb : ∀ q, q < (p[k]).tss.length → minI64 ≤ tsOfList (p[k]).tss q ∧ tsOfList (p[k]).tss q ≤ RebuildHist.maxI64 := by
      intro q hq
      have := mem_flat_of_mem hmem (tsOfList_mem hq)
      exact ⟨hlow _ this, hhi _ this⟩
    have hmono := monotone_of_sorted _ (sorted_of_mem hmem hs)
    obtain ⟨g, g1, g2, g3⟩ := rebuildWith_ref (segMax0 := Generated.C02.rebuildSegmentMaxInit) ⟨ys⟩ (k + 1) hfind
      (tsOf := tsOfList (p[k]).tss) (m := min m (p[k]).tss.length)
      (monotone_mono hmono (Nat.min_le_right _ _))
      (fun q hq => by rw [f]; exact (hb q (by omega)).1) (fun q hq => (hb q (by omega)).2)
    unfold CIndex.rebuild
    rw [hget, take_eq_range, st_eq _ _ g1]
    constructor
    · refine ⟨by simp only []; rw [map_tss_modify]; exact htss, by simp [CIndex.updChk, hlen], ?_⟩
      intro i h1 h2
      simp only [CIndex.updChk, List.getElem_map, List.getElem_modify]
      have hi : i < ys.length := by simpa [CIndex.updChk] using h1
      have hip : i < p.length := by omega
      obtain ⟨c1, c2⟩ := href.chk i hi hip
      simp only at c1 c2
      by_cases hik : k = i
      · subst hik
        simp only [c1, beq_self_eq_true, if_true]
        refine ⟨by rw [g2, c1], ?_⟩
        have := g3 _ _ c2 (by rw [hn]; exact Nat.min_le_right _ _)
        rw [← take_eq_range] at this
        exact this
      · have : (ys[i].id == k + 1) = false := by simp [c1]; omega
        simp only [this, hik, Bool.false_eq_true, if_false]
        exact ⟨c1, c2⟩
    · intro c hc
      obtain ⟨i, hi, e⟩ := List.getElem_of_mem hc
      rw [List.getElem_modify] at e
      have hip : i < p.length := by simpa using hi
      split at e
      · rw [← e]; exact chunkInv_rebuild (List.getElem_mem hip) (hinv _ (List.getElem_mem hip)) m hs hlow hhi
      · rw [← e]; exact hinv _ (List.getElem_mem hip)
  · have hfind : CIndex.findChk ⟨ys⟩ (k + 1) = none := by
      have := find_by_id_none ys 0 hids k (by omega)
      simpa [CIndex.findChk] using this
    rw [List.modify_eq_self (by omega)]
    unfold CIndex.rebuild CIndex.rebuildWith
    rw [hfind]
    exact ⟨href, hinv⟩


/-- every `Write` call of the history is `CallOK` (non-empty pieces, only the first may continue the last chunk) w.r.t.
the partition it is applied to; rebuilds are unconstrained (any chunk index, any prefix length) -/
def EvsOK : List PChunk → List Ev → Prop
  | _, [] => True
  | p, .call c :: r => CallOK p c ∧ EvsOK (absStep p (.call c)) r
  | p, .rebuild k m :: r => EvsOK (absStep p (.rebuild k m)) r

theorem small_back : ∀ (evs : List Ev) (p : List PChunk), Small (evs.foldl absStep p) → Small p := by
  intro evs
  induction evs with
  | nil => intro p h; exact h
  | cons ev r ih =>
    intro p h
    have := ih _ h
    cases ev with
    | call c => exact small_foldPieces _ _ c (p, {}) this
    | rebuild k m => exact small_of_map_eq (map_tss_modify p k m) this

theorem allTs_call (c : List Piece) (r : List Ev) : allTs (.call c :: r) = flatL c ++ allTs r := rfl
theorem allTs_rebuild (k m : Nat) (r : List Ev) : allTs (.rebuild k m :: r) = allTs r := rfl

/-- **the pipeline state refines the Points-level partition over every monotone history of calls and rebuilds** -/
theorem run_ref : ∀ (evs : List Ev) (st : PSt) (p : List PChunk), Ref st p → PartInv p →
    (flat p ++ allTs evs).Pairwise (· ≤ ·) → (∀ t ∈ flat p ++ allTs evs, minI64 ≤ t ∧ t ≤ RebuildHist.maxI64) →
    EvsOK p evs → Small (evs.foldl absStep p) →
    Ref (evs.foldl step st) (evs.foldl absStep p) ∧ PartInv (evs.foldl absStep p) ∧
      flat (evs.foldl absStep p) = flat p ++ allTs evs := by
  intro evs
  induction evs with
  | nil => intro st p href hinv _ _ _ _; exact ⟨href, hinv, by simp [allTs]⟩
  | cons ev r ih =>
    intro st p href hinv hs hb hok hsmall
    rw [List.foldl_cons] at hsmall ⊢
    rw [List.foldl_cons]
    cases ev with
    | call c =>
      rw [allTs_call, ← List.append_assoc] at hs hb
      have hs0 := (List.pairwise_append.mp hs).1
      have hlow0 : ∀ t ∈ flat p ++ flatL c, minI64 ≤ t := fun t ht => (hb t (List.mem_append_left _ ht)).1
      obtain ⟨h1, h2⟩ := writeCall_inv CIndex.sparseSpace CIndex.bigGap p c hinv hs0 hlow0 hok.1
      have r1 := call_ref st p c href hinv hs0 hlow0 hok.1 (small_back r _ hsmall)
      obtain ⟨a1, a2, a3⟩ := ih _ _ r1 h1 (by show (flat (writeCall _ _ p c) ++ _).Pairwise _; rw [h2]; exact hs)
        (by show ∀ t ∈ flat (writeCall _ _ p c) ++ _, _; rw [h2]; exact hb) hok.2 hsmall
      refine ⟨a1, a2, ?_⟩
      show flat (List.foldl absStep (writeCall _ _ p c) r) = _
      rw [a3, h2, allTs_call, List.append_assoc]
    | rebuild k m =>
      rw [allTs_rebuild] at hs hb ⊢
      have hs0 := (List.pairwise_append.mp hs).1
      obtain ⟨r1, h1⟩ := rebuild_step_ref st p k m href hinv hs0 (fun t ht => (hb t (List.mem_append_left _ ht)).1)
        (fun t ht => (hb t (List.mem_append_left _ ht)).2)
      have h2 : flat (absStep p (.rebuild k m)) = flat p := flat_of_map_eq (map_tss_modify p k m)
      obtain ⟨a1, a2, a3⟩ := ih _ _ r1 h1 (by rw [h2]; exact hs) (by rw [h2]; exact hb) hok hsmall
      exact ⟨a1, a2, by rw [a3, h2]⟩

theorem ref_init : Ref {} [] := ⟨rfl, rfl, fun i h1 _ => by simp at h1⟩

/-- from the empty partition -/
theorem run_ref_init (evs : List Ev) (hs : (allTs evs).Pairwise (· ≤ ·))
    (hb : ∀ t ∈ allTs evs, minI64 ≤ t ∧ t ≤ RebuildHist.maxI64) (hok : EvsOK [] evs) (hsmall : Small (absRun evs)) :
    Ref (run evs) (absRun evs) ∧ PartInv (absRun evs) ∧ flat (absRun evs) = allTs evs := by
  have := run_ref evs {} [] ref_init (fun c hc => by simp at hc) (by simpa [flat] using hs) (by simpa [flat] using hb) hok hsmall
  simpa [flat, run, absRun] using this

/-! ## 5. the ranged read of the pipeline state -/

theorem journal_length (tss : List (List Int)) : (journal tss).length = tss.length := by simp [journal]

theorem journal_getElem (tss : List (List Int)) (i : Nat) (h : i < (journal tss).length) :
    (journal tss)[i] = ⟨(i + 1) * 10, (tss.getD i []).length⟩ := by
  simp [journal]

theorem ref_find {st : PSt} {p : List PChunk} (href : Ref st p) (i : Nat) (hi : i < p.length) :
    ∃ x, CIndex.findChk st.cidx (i + 1) = some x ∧ RefChk x (p[i]).idx := by
  have hlen : st.cidx.chunks.length = p.length := href.len
  have hids : ∀ j (hj : j < st.cidx.chunks.length), (st.cidx.chunks[j]).id = 0 + j + 1 := by
    intro j hj; have := (href.chk j hj (by omega)).1; omega
  have := find_by_id st.cidx.chunks 0 hids i (by omega)
  refine ⟨st.cidx.chunks[i]'(by omega), by simpa [CIndex.findChk] using this, (href.chk i (by omega) hi).2⟩

/-- `syncChunks` changes nothing when every index entry is live (`loaded = false`) and every chunk of the journal is
known with an entry that accounts for records, or is empty -/
theorem syncChunks_id_of (s : RangedIter.St) (h1 : ∀ c ∈ s.cidx.chunks, c.loaded = false)
    (h2 : ∀ i, i < s.cks.size → ∃ c, CIndex.findChk s.cidx ((s.cks[i]!).id / 10) = some c ∧
      (c.recs = 0 → (s.cks[i]!).cnt = 0)) : RangedIter.syncChunks s = s := by
  have f1 : Generated.C02.syncChunksDropsStaleEntries = true := by decide
  have f2 : Generated.C02.staleDropOnlyForSnapshotEntries = true := by decide
  unfold RangedIter.syncChunks
  simp only [f1, f2, if_true, Bool.not_true, Bool.false_or, Bool.true_and]
  have hf : ∀ f : CIndex.Chk → Bool, (∀ c ∈ s.cidx.chunks, f c = true) → s.cidx.chunks.filter f = s.cidx.chunks :=
    fun f h => List.filter_eq_self.mpr h
  have hm : ∀ g : CIndex.Chk → CIndex.Chk, (∀ c ∈ s.cidx.chunks, g c = c) → s.cidx.chunks.map g = s.cidx.chunks :=
    fun g hg => by conv => rhs; rw [← List.map_id s.cidx.chunks]
                   exact List.map_congr_left hg
  have hn : ∀ f : Nat → Bool, (∀ i ∈ List.range s.cks.size, f i = false) → (List.range s.cks.size).filter f = [] :=
    fun f h => List.filter_eq_nil_iff.mpr (fun i hi => by rw [h i hi]; simp)
  rw [hf, hm, hn]
  · cases s; simp
  · intro i hi
    obtain ⟨c, e1, e2⟩ := h2 i (by simpa using hi)
    have e1' : CIndex.findChk { chunks := s.cidx.chunks } (s.cks[i]!.id / 10) = some c := e1
    simp only [e1']
    by_cases hr : c.recs = 0
    · simp [e2 hr]
    · simp [hr]
  · intro c hc
    have := h1 c hc
    split
    · cases c; simp at this ⊢; exact this
    · rfl
  · intro c hc
    rw [h1 c hc]
    split <;> simp

theorem syncChunks_id {st : PSt} {p : List PChunk} (href : Ref st p) (hinv : PartInv p) (rmin rmax : Int) :
    RangedIter.syncChunks (toSt st rmin rmax) = toSt st rmin rmax := by
  have hlen : st.cidx.chunks.length = p.length := href.len
  have htss : st.tss = p.map (·.tss) := href.tss
  apply syncChunks_id_of
  · intro c hc
    have hc' : c ∈ st.cidx.chunks := hc
    obtain ⟨i, hi, e⟩ := List.getElem_of_mem hc'
    have := (href.chk i hi (by omega)).2.loaded
    rw [e] at this; exact this
  · intro i hi
    have hi' : i < (journal st.tss).length := by simpa [toSt] using hi
    have hip : i < p.length := by rw [journal_length, htss] at hi'; simpa using hi'
    obtain ⟨x, e1, e2⟩ := ref_find href i hip
    have hget : ((toSt st rmin rmax).cks[i]!) = ⟨(i + 1) * 10, (st.tss.getD i []).length⟩ := by
      simp [toSt, hi', journal_getElem]
    rw [hget]
    refine ⟨x, ?_, ?_⟩
    · show CIndex.findChk st.cidx ((i + 1) * 10 / 10) = some x
      rw [Nat.mul_div_cancel _ (by decide)]; exact e1
    · intro hr
      have hn := (hinv _ (List.getElem_mem hip)).1
      rw [e2.recs] at hr
      simp [htss, hip]
      exact List.eq_nil_of_length_eq_zero (by omega)



/-- the statuses of a fresh selector: one `updatePoss` per chunk of the journal, in order -/
theorem stats_fold (s : RangedIter.St) (hst : s.stats = []) : ∀ (L : List Selector.JChunk) (acc : List (Nat × Selector.ChkSt) × Nat),
    (L.foldl (fun (acc : List (Nat × Selector.ChkSt) × Nat) c =>
      let old := ((s.stats.find? (·.1 == c.id)).map (·.2)).getD {}
      let (st, k) := RangedIter.updatePoss s c.id { old with count := c.cnt }
      (acc.1 ++ [(c.id, st)], acc.2 + k)) acc).1 =
    acc.1 ++ L.map (fun c => (c.id, (RangedIter.updatePoss s c.id { count := c.cnt }).1)) := by
  intro L
  induction L with
  | nil => intro acc; simp
  | cons c r ih =>
    intro acc
    rw [List.foldl_cons, ih]
    simp [hst]

theorem statuses_eq (s : RangedIter.St) (hst : s.stats = []) (hsync : RangedIter.syncChunks s = s) :
    PipeRead.statuses s = s.cks.toList.map (fun c => (RangedIter.updatePoss s c.id { count := c.cnt }).1) := by
  unfold PipeRead.statuses RangedIter.rebuildStatuses
  simp only [hsync]
  rw [← Array.foldl_toList]
  have := stats_fold s hst s.cks.toList ([], 0)
  simp only [List.nil_append] at this
  rw [this, List.map_map]
  rfl

theorem chkSt_ext {a b : Selector.ChkSt} (h1 : a.minPos = b.minPos) (h2 : a.maxPos = b.maxPos) (h3 : a.count = b.count) : a = b := by
  cases a; cases b; simp at h1 h2 h3; simp [h1, h2, h3]

/-- **the statuses the pipeline computes are the Points-level statuses** of the partition it refines -/
theorem statuses_ref {st : PSt} {p : List PChunk} (href : Ref st p) (hinv : PartInv p) (rmin rmax : Int) :
    PipeRead.statuses (toSt st rmin rmax) = (p.map metaOf).map (PartScan.statusOf ⟨rmin, rmax⟩) := by
  have htss : st.tss = p.map (·.tss) := href.tss
  rw [statuses_eq _ rfl (syncChunks_id href hinv rmin rmax)]
  show (journal st.tss).map _ = _
  apply List.ext_getElem
  · simp [journal_length, htss]
  · intro i h1 h2
    have hip : i < p.length := by simpa using h2
    simp only [List.getElem_map, journal_getElem]
    obtain ⟨x, e1, e2⟩ := ref_find href i hip
    have hn := (hinv _ (List.getElem_mem hip)).1
    have hcnt : (st.tss.getD i []).length = (p[i]).tss.length := by simp [htss, hip]
    have hf : CIndex.findChk (toSt st rmin rmax).cidx ((i + 1) * 10 / 10) = some x := by
      rw [Nat.mul_div_cancel _ (by decide)]; exact e1
    obtain ⟨w1, w2⟩ := window_eq e2 (toSt st rmin rmax) ((i + 1) * 10) { count := (st.tss.getD i []).length } hf
      (by show (st.tss.getD i []).length ≤ x.recs; rw [e2.recs, hn, hcnt]; exact Nat.le_refl _)
    have hh : (metaOf p[i]).hull = ⟨x.minTs, x.maxTs⟩ := by simp [metaOf, e2.hull]
    apply chkSt_ext
    · have := congrArg Prod.fst w1
      simp only at this
      rw [this]; simp only [PartScan.statusOf, hh]; rfl
    · have := congrArg Prod.snd w1
      simp only at this
      rw [this]; simp only [PartScan.statusOf, hh]; rfl
    · rw [w2]; simp only [PartScan.statusOf, metaOf]; exact hcnt

theorem tsOfPos_eq {st : PSt} {p : List PChunk} (htss : st.tss = p.map (·.tss)) (rmin rmax : Int) (kp : Nat × Nat) :
    PipeRead.tsOfPos (toSt st rmin rmax) kp = partTs p kp.1 kp.2 := by
  simp only [PipeRead.tsOfPos, toSt, partTs, tsOfList, htss]
  by_cases hk : kp.1 < p.length
  · simp [hk]
  · simp [hk]

theorem fullPositions_eq : ∀ (p : List PChunk) (k : Nat), PartScan.fullPositions (p.map metaOf) k = fullRead (p.map (·.tss)) k := by
  intro p
  induction p with
  | nil => intro k; rfl
  | cons c r ih => intro k; simp only [List.map_cons, PartScan.fullPositions, fullRead, ih]; rfl

/-- **the ranged read of the pipeline state that refines a sound partition is the filter of the unbounded read** -/
theorem read_eq_filter {st : PSt} {p : List PChunk} (href : Ref st p) (hinv : PartInv p) (hsmall : Small p) (rmin rmax : Int) :
    read st rmin rmax = (fullRead st.tss 0).filter (fun kq => decide (rmin ≤ tsAt st.tss kq ∧ tsAt st.tss kq ≤ rmax)) := by
  have htss : st.tss = p.map (·.tss) := href.tss
  unfold read PipeRead.absScan
  rw [statuses_ref href hinv]
  have hall := allComplete_of_partInv p hinv hsmall
  have := PartScan.partition_read_eq_filter (partTs p) (p.map metaOf) ⟨rmin, rmax⟩ hall
  unfold PartScan.rangedRead at this
  have e : (fun kp => RangedIter.fitInRange (toSt st rmin rmax).rmin (toSt st rmin rmax).rmax (PipeRead.tsOfPos (toSt st rmin rmax) kp)) =
      (fun kp : Nat × Nat => RangedIter.fitInRange rmin rmax (partTs p kp.1 kp.2)) := by
    funext kp; rw [tsOfPos_eq htss]; rfl
  rw [e, this, fullPositions_eq, htss]
  apply List.filter_congr
  intro kq _
  simp only [tsAt, partTs, tsOfList, inRange]
  rfl


/-! ## 6. hypotheses stated on the pipeline model only -/

/-- a `Service.Write` call as the journal splits it: non-empty pieces, only the first may continue the last chunk -/
def CallOKt (tss : List (List Int)) : List Piece → Prop
  | [] => True
  | pc :: rest => pc.l ≠ [] ∧ (pc.newChunk = false → tss ≠ []) ∧ ∀ q ∈ rest, q.l ≠ [] ∧ q.newChunk = true

/-- every call of the history has that shape w.r.t. the state it meets; rebuilds are unconstrained -/
def HistOK : PSt → List Ev → Prop
  | _, [] => True
  | st, .call c :: r => CallOKt st.tss c ∧ HistOK (step st (.call c)) r
  | st, .rebuild k m :: r => HistOK (step st (.rebuild k m)) r

theorem pieceStep_tss (st : PSt) (p : List PChunk) (iw : IW) (pc : Piece) (h : st.tss = p.map (·.tss)) :
    (pieceStep (st, iw) pc).1.tss = (applyPiece CIndex.sparseSpace CIndex.bigGap (p, iw) pc).1.map (·.tss) ∧
      (pieceStep (st, iw) pc).2 = (applyPiece CIndex.sparseSpace CIndex.bigGap (p, iw) pc).2 := by
  refine ⟨?_, rfl⟩
  unfold pieceStep applyPiece
  cases hb : pc.newChunk with
  | true => simp [h]
  | false =>
    simp only [Bool.false_eq_true, if_false, h]
    cases hp : p.getLast? with
    | none =>
      have : p = [] := by simpa using hp
      subst this; simp
    | some l =>
      simp [List.getLast?_map, hp, List.map_dropLast]

theorem pieces_tss : ∀ (pieces : List Piece) (st : PSt) (p : List PChunk) (iw : IW), st.tss = p.map (·.tss) →
    (pieces.foldl pieceStep (st, iw)).1.tss = (pieces.foldl (applyPiece CIndex.sparseSpace CIndex.bigGap) (p, iw)).1.map (·.tss) := by
  intro pieces
  induction pieces with
  | nil => intro st p iw h; exact h
  | cons pc r ih =>
    intro st p iw h
    obtain ⟨h1, h2⟩ := pieceStep_tss st p iw pc h
    rw [List.foldl_cons, List.foldl_cons]
    have e : pieceStep (st, iw) pc = ((pieceStep (st, iw) pc).1, (applyPiece CIndex.sparseSpace CIndex.bigGap (p, iw) pc).2) :=
      Prod.ext rfl h2
    rw [e]
    exact ih _ _ _ h1

theorem step_tss (st : PSt) (p : List PChunk) (ev : Ev) (h : st.tss = p.map (·.tss)) :
    (step st ev).tss = (absStep p ev).map (·.tss) := by
  cases ev with
  | call c => exact pieces_tss c st p {} h
  | rebuild k m => show st.tss = _; rw [show absStep p (.rebuild k m) = p.modify k (absRebuild m) from rfl, map_tss_modify]; exact h

theorem run_tss : ∀ (evs : List Ev) (st : PSt) (p : List PChunk), st.tss = p.map (·.tss) →
    (evs.foldl step st).tss = (evs.foldl absStep p).map (·.tss) := by
  intro evs
  induction evs with
  | nil => intro st p h; exact h
  | cons ev r ih => intro st p h; exact ih _ _ (step_tss st p ev h)

theorem evsOK_of_histOK : ∀ (evs : List Ev) (st : PSt) (p : List PChunk), st.tss = p.map (·.tss) → HistOK st evs → EvsOK p evs := by
  intro evs
  induction evs with
  | nil => intro _ _ _ _; trivial
  | cons ev r ih =>
    intro st p h hok
    cases ev with
    | call c =>
      refine ⟨?_, ih _ _ (step_tss st p (.call c) h) hok.2⟩
      have := hok.1
      cases c with
      | nil => trivial
      | cons pc rest =>
        obtain ⟨a, b, d⟩ := this
        refine ⟨a, ?_, d⟩
        intro hn hp
        apply b hn
        rw [h, hp]; rfl
    | rebuild k m => exact ih _ _ (step_tss st p (.rebuild k m) h) hok

theorem small_of_tss {st : PSt} {p : List PChunk} (h : st.tss = p.map (·.tss)) (hs : ∀ l ∈ st.tss, l.length ≤ 4294967295) : Small p := by
  intro c hc
  exact hs _ (by rw [h]; exact List.mem_map_of_mem hc)

/-- **everything together**: after any history of `Write` calls and rebuilds over monotone int64 data, the pipeline state
refines a sound Points-level partition, the journal holds the records in order, and every ranged read is the filter -/
theorem run_read_eq_filter (evs : List Ev) (hs : (allTs evs).Pairwise (· ≤ ·))
    (hb : ∀ t ∈ allTs evs, minI64 ≤ t ∧ t ≤ RebuildHist.maxI64) (hok : HistOK {} evs)
    (hsmall : ∀ l ∈ (run evs).tss, l.length ≤ 4294967295) (rmin rmax : Int) :
    read (run evs) rmin rmax =
        (fullRead (run evs).tss 0).filter (fun kq => decide (rmin ≤ tsAt (run evs).tss kq ∧ tsAt (run evs).tss kq ≤ rmax)) ∧
      (run evs).tss.flatten = allTs evs := by
  have htss : (run evs).tss = (absRun evs).map (·.tss) := run_tss evs {} [] rfl
  have hsm : Small (absRun evs) := small_of_tss htss hsmall
  obtain ⟨r1, r2, r3⟩ := run_ref_init evs hs hb (evsOK_of_histOK evs {} [] rfl hok) hsm
  refine ⟨read_eq_filter r1 r2 hsm rmin rmax, ?_⟩
  rw [htss]; exact r3


/-- per chunk: whatever status the selector held before (`cs`: any old window, any confirmed count), the window
`updatePoss` computes contains every in-range position of the chunk -/
theorem chunk_window_ref {st : PSt} {p : List PChunk} (href : Ref st p) (hinv : PartInv p) (hsmall : Small p)
    (rmin rmax : Int) (i : Nat) (hi : i < p.length) (cs : Selector.ChkSt) (q : Nat) (hq : q < (p[i]).tss.length)
    (hr : rmin ≤ tsOfList (p[i]).tss q ∧ tsOfList (p[i]).tss q ≤ rmax) :
    (RangedIter.updatePoss (toSt st rmin rmax) ((i + 1) * 10) cs).1.minPos ≤ q ∧
      q ≤ (RangedIter.updatePoss (toSt st rmin rmax) ((i + 1) * 10) cs).1.maxPos := by
  obtain ⟨x, e1, e2⟩ := ref_find href i hi
  have hf : CIndex.findChk (toSt st rmin rmax).cidx ((i + 1) * 10 / 10) = some x := by
    rw [Nat.mul_div_cancel _ (by decide)]; exact e1
  have hmem := List.getElem_mem hi
  by_cases hc : cs.count ≤ x.recs
  · obtain ⟨w1, _⟩ := window_eq e2 (toSt st rmin rmax) ((i + 1) * 10) cs hf hc
    have hw := windowComplete_of_chunkInv _ (hinv _ hmem) (hsmall _ hmem) ⟨rmin, rmax⟩ q hq hr
    have hh : (metaOf p[i]).hull = ⟨x.minTs, x.maxTs⟩ := by simp [metaOf, e2.hull]
    rw [hh] at hw
    have w1' : ((RangedIter.updatePoss (toSt st rmin rmax) ((i + 1) * 10) cs).1.minPos,
        (RangedIter.updatePoss (toSt st rmin rmax) ((i + 1) * 10) cs).1.maxPos) =
        window ⟨x.minTs, x.maxTs⟩ (metaOf p[i]).idx ⟨rmin, rmax⟩ := w1
    rw [← w1'] at hw
    exact hw
  · have f : Generated.C02.updatePossOpensUnknownTail = true := by decide
    have hu : cs.count > x.recs := by omega
    simp only [RangedIter.updatePoss, hf, f, Bool.true_and, decide_eq_true hu, if_true]
    have := hsmall _ hmem
    exact ⟨Nat.zero_le _, by show q ≤ 4294967295; omega⟩

theorem run_chunk_window (evs : List Ev) (hs : (allTs evs).Pairwise (· ≤ ·))
    (hb : ∀ t ∈ allTs evs, minI64 ≤ t ∧ t ≤ RebuildHist.maxI64) (hok : HistOK {} evs)
    (hsmall : ∀ l ∈ (run evs).tss, l.length ≤ 4294967295) (rmin rmax : Int) (k : Nat) (cs : Selector.ChkSt) (q : Nat)
    (hq : q < ((run evs).tss.getD k []).length)
    (hr : rmin ≤ tsAt (run evs).tss (k, q) ∧ tsAt (run evs).tss (k, q) ≤ rmax) :
    (RangedIter.updatePoss (toSt (run evs) rmin rmax) ((k + 1) * 10) cs).1.minPos ≤ q ∧
      q ≤ (RangedIter.updatePoss (toSt (run evs) rmin rmax) ((k + 1) * 10) cs).1.maxPos := by
  have htss : (run evs).tss = (absRun evs).map (·.tss) := run_tss evs {} [] rfl
  have hsm : Small (absRun evs) := small_of_tss htss hsmall
  obtain ⟨r1, r2, _⟩ := run_ref_init evs hs hb (evsOK_of_histOK evs {} [] rfl hok) hsm
  have hk : k < (absRun evs).length := by
    apply Nat.lt_of_not_le
    intro hle
    rw [htss] at hq
    simp [hle] at hq
  have hget : (run evs).tss.getD k [] = ((absRun evs)[k]).tss := by rw [htss]; simp [hk]
  rw [hget] at hq
  refine chunk_window_ref r1 r2 hsm rmin rmax k hk cs q hq ?_
  simp only [tsAt, hget] at hr
  exact hr

/-! ## 7. notifications with arbitrary positions (concurrent writers): `CIndex.onWrite` refines `Reorder.notify` -/
open Logrange.Reorder

/-- `CIndex.onWrite` with ARBITRARY positions `f … l` on the partition's last chunk refines `Reorder.notify` whenever the
interval — if it gets as far as `addInterval` — starts at or above every indexed timestamp -/
theorem notify_last {xs : List CIndex.Chk} {x : CIndex.Chk} {c : ChunkIdx} (h : RefChk x c) (b : Note)
    (hn : b.l ≤ 4294967295) (hmm : b.mn ≤ b.mx)
    (hap : c.corrupted = false →
      ¬ (lateByRecs c b ∨ (c.lastRec > 0 ∧ (b.l ≤ c.lastRec ∨ b.l - c.lastRec < CIndex.sparseSpace))) →
      ∀ p ∈ c.pts, p.ts ≤ b.mn) :
    ∃ x', (CIndex.onWrite ⟨xs ++ [x]⟩ b.f b.l x.id b.mn b.mx).1.chunks = xs ++ [x'] ∧ x'.id = x.id ∧
      RefChk x' (notify CIndex.sparseSpace CIndex.bigGap c b) := by
  have f1 : Generated.C02.onWriteRecsNeverDecrease = true := by decide
  have f2 : Generated.C02.onWriteSkipsLateNotification = true := by decide
  have f3 : Generated.C02.onWriteSkipIsStrictLess = true := by decide
  have hrecs : max x.recs (b.l + 1) = max c.n (b.l + 1) := by rw [h.recs]
  have hhull : newHull c.hull b.mn b.mx = ⟨min x.minTs b.mn, max x.maxTs b.mx⟩ := by rw [h.hull]; rfl
  have hnone : ¬ (c.hull = none ∧ b.f > 0) := by rw [h.hull]; simp
  unfold CIndex.onWrite
  simp only [List.getLast?_append, List.getLast?_singleton, Option.some_or, bne_self_eq_false, Bool.false_eq_true, if_false,
    h.loaded, Bool.and_false, Bool.false_and, updLast_snoc, f1, f2, f3, if_true, Bool.true_and, hrecs]
  unfold notify
  simp only [hhull, hnone, if_false]
  rw [h.corr, h.lastRec, h.recs]
  cases hc : c.corrupted with
  | true =>
    simp only [if_true]
    refine ⟨_, rfl, rfl, ?_⟩
    constructor <;> simp [hc, h.corr, h.lastRec]
  | false =>
    simp only [Bool.false_eq_true, if_false]
    by_cases hskip : lateByRecs c b ∨ (c.lastRec > 0 ∧ (b.l ≤ c.lastRec ∨ b.l - c.lastRec < CIndex.sparseSpace))
    · have hskip' : (Generated.C02.onWriteLateByRecs && decide (b.l + 1 ≤ c.n) || decide (c.lastRec > 0) && (decide (b.l ≤ c.lastRec) ||
          decide (CIndex.u32sub b.l c.lastRec < CIndex.sparseSpace))) = true := by
        rcases hskip with hl | hl
        · have h1 : Generated.C02.onWriteLateByRecs = true := hl.1
          have h2 := hl.2
          simp [h1, h2]
        · by_cases hle : b.l ≤ c.lastRec
          · simp [hl.1, hle]
          · rw [u32sub_eq (by omega) hn]
            rcases hl.2 with h' | h'
            · exact absurd h' hle
            · simp [hl.1, h']
      simp only [hskip', if_true]
      rw [if_pos hskip]
      refine ⟨_, rfl, rfl, ?_⟩
      constructor <;> try (simp [hc, h.corr, h.lastRec])
      · intro hr; exact h.rootNone hc hr
      · intro t hr; exact h.rootSome hc t hr
    · have hle : c.lastRec ≤ b.l := by
        by_cases h0 : c.lastRec > 0
        · apply Nat.le_of_not_lt; intro hlt; exact hskip (Or.inr ⟨h0, Or.inl (by omega)⟩)
        · omega
      have hskip' : (Generated.C02.onWriteLateByRecs && decide (b.l + 1 ≤ c.n) || decide (c.lastRec > 0) && (decide (b.l ≤ c.lastRec) ||
          decide (CIndex.u32sub b.l c.lastRec < CIndex.sparseSpace))) = false := by
        have hnl : (Generated.C02.onWriteLateByRecs && decide (b.l + 1 ≤ c.n)) = false := by
          cases hf : Generated.C02.onWriteLateByRecs with
          | false => simp
          | true =>
            have : ¬ b.l + 1 ≤ c.n := fun hh => hskip (Or.inl ⟨hf, hh⟩)
            simp [this]
        rw [hnl, Bool.false_or]
        by_cases h0 : c.lastRec > 0
        · have hlt : ¬ b.l ≤ c.lastRec := fun hle' => hskip (Or.inr ⟨h0, Or.inl hle'⟩)
          rw [u32sub_eq hle hn]
          have : ¬ b.l - c.lastRec < CIndex.sparseSpace := fun hh => hskip (Or.inr ⟨h0, Or.inr hh⟩)
          simp [h0, hlt, this]
        · simp [h0]
      simp only [hskip', Bool.false_eq_true, if_false]
      rw [if_neg hskip]
      rw [u32sub_eq hle hn]
      cases hr : x.root with
      | none =>
        have hp := h.rootNone hc hr
        simp only [hp, true_and]
        by_cases hbig : b.l - c.lastRec > CIndex.bigGap
        · simp only [hbig, if_true]
          refine ⟨_, rfl, rfl, ?_⟩
          constructor <;> simp [hc, h.corr, h.lastRec]
        · simp only [hbig, if_false]
          refine ⟨_, rfl, rfl, ?_⟩
          obtain ⟨t', e1, e2, e3⟩ := ITree.tree_append_refines_add ITree.maxRecs (by decide) (.leaf [])
            ⟨⟨b.mn, b.f⟩, ⟨b.mx, b.l⟩⟩ (Or.inl rfl) (by intro p hp'; rw [points_leaf_nil] at hp'; simp at hp') hmm
          rw [points_leaf_nil] at e3
          constructor <;> try (simp [hc, h.corr, h.lastRec])
          · rw [e1]; simp
          · intro t ht
            rw [e1] at ht
            simp only [Option.some.injEq] at ht
            subst ht
            exact ⟨e2, e3, by simp [add]⟩
      | some tr =>
        obtain ⟨hwf, hpts, hne⟩ := h.rootSome hc tr hr
        simp only [hne, false_and, if_false]
        obtain ⟨t', e1, e2, e3⟩ := ITree.tree_append_refines_add ITree.maxRecs (by decide) tr
            ⟨⟨b.mn, b.f⟩, ⟨b.mx, b.l⟩⟩ hwf (by intro p hp'; rw [hpts] at hp'; exact hap hc hskip p hp') hmm
        rw [e1]
        simp only []
        refine ⟨_, rfl, rfl, ?_⟩
        rw [hpts] at e3
        constructor <;> try (simp [hc, h.corr, h.lastRec])
        · exact ⟨e2, e3, PipeHist.add_ne_nil _ _⟩

/-- the chunk's first notification (whatever positions it names) -/
theorem notify_new (xs : List CIndex.Chk) (b : Note) (cid : Nat) (hx : ∀ l, xs.getLast? = some l → l.id ≠ cid)
    (hn : b.l ≤ 4294967295) (hmm : b.mn ≤ b.mx) :
    ∃ x', (CIndex.onWrite ⟨xs⟩ b.f b.l cid b.mn b.mx).1.chunks = xs ++ [x'] ∧ x'.id = cid ∧
      RefChk x' (notify CIndex.sparseSpace CIndex.bigGap {} b) := by
  by_cases hf : b.f = 0
  · have e0 : notify CIndex.sparseSpace CIndex.bigGap ({ hull := some ⟨b.mn, b.mx⟩ } : ChunkIdx) b =
        notify CIndex.sparseSpace CIndex.bigGap {} b := by
      simp [notify, newHull, hf, lateByRecs]
    have href : RefChk ({ id := cid, minTs := b.mn, maxTs := b.mx } : CIndex.Chk) ({ hull := some ⟨b.mn, b.mx⟩ } : ChunkIdx) := by
      constructor <;> simp
    have := notify_last (xs := xs) href b hn hmm (by intro _ _ p hp; simp at hp)
    rw [e0] at this
    rw [hf, onWrite_new_eq xs b.l cid b.mn b.mx hx]
    rw [hf] at this
    simpa using this
  · have hpos : b.f > 0 := by omega
    have f1 : Generated.C02.onWriteRecsNeverDecrease = true := by decide
    have hd : (decide (b.f > 0)) = true := by simpa using hpos
    unfold CIndex.onWrite
    cases hl : xs.getLast? with
    | none =>
      have : xs = [] := by simpa using hl
      subst this
      simp only [CIndex.updLast, List.reverse_cons, List.reverse_nil, List.nil_append, List.getLast?_singleton, f1, if_true,
        Bool.true_and, hd, Bool.false_eq_true, if_false]
      refine ⟨_, rfl, rfl, ?_⟩
      constructor <;> simp [notify, newHull, hpos]
    | some l =>
      have hne : (l.id != cid) = true := by simpa using hx l hl
      simp only [hne, if_true, updLast_snoc, List.getLast?_append, List.getLast?_singleton, Option.some_or, f1, Bool.true_and,
        hd, Bool.false_eq_true, if_false]
      refine ⟨_, rfl, rfl, ?_⟩
      constructor <;> simp [notify, newHull, hpos]


/-- the chunk index (tree model) after the notifications `ds` of chunk `cid`, in the order of the list -/
def deliverC (cid : Nat) (s : CIndex.St) (ds : List Note) : CIndex.St :=
  ds.foldl (fun s b => (CIndex.onWrite s b.f b.l cid b.mn b.mx).1) s

theorem deliverC_ref {tsOf : Nat → Int} {n : Nat} (hm : Monotone tsOf n) (hn : n ≤ 4294967296) (xs : List CIndex.Chk) :
    ∀ (ds done : List Note) (c : ChunkIdx) (x : CIndex.Chk), Inv tsOf n done c → RefChk x c →
      (∀ b ∈ ds, NoteOk tsOf n b) → ds.Pairwise Disj → (∀ a ∈ done, ∀ b ∈ ds, Disj a b) →
      ∃ x', (deliverC x.id ⟨xs ++ [x]⟩ ds).chunks = xs ++ [x'] ∧ x'.id = x.id ∧
        RefChk x' (ds.foldl (notify CIndex.sparseSpace CIndex.bigGap) c) := by
  intro ds
  induction ds with
  | nil => intro done c x _ hr _ _ _; exact ⟨x, rfl, rfl, hr⟩
  | cons b r ih =>
    intro done c x hi hr hok hp hd
    have hp' := List.pairwise_cons.mp hp
    have hb := hok b List.mem_cons_self
    have hdb : ∀ a ∈ done, Disj a b := fun a ha => hd a ha b List.mem_cons_self
    have h1 := notify_inv CIndex.sparseSpace CIndex.bigGap hm hi b hb hdb
    obtain ⟨x1, e1, e2, e3⟩ := notify_last (xs := xs) hr b (by have := hb.2.1; omega)
      (by
        obtain ⟨hfl, hln, hmx, hmn, _⟩ := hb
        have h3 := hm b.f b.l hfl hln
        rcases hmn with e | ⟨e1, e2⟩
        · omega
        · have := hm 0 b.l (Nat.zero_le _) hln; omega)
      (fun hc hs => (inv_append_only CIndex.sparseSpace hm hi b hb hdb hc hs).1)
    obtain ⟨x', g1, g2, g3⟩ := ih (b :: done) _ x1 h1 e3 (fun y hy => hok y (List.mem_cons_of_mem _ hy)) hp'.2 (by
      intro a ha y hy
      cases ha with
      | head => exact hp'.1 y hy
      | tail _ ha' => exact hd a ha' y (List.mem_cons_of_mem _ hy))
    refine ⟨x', ?_, by rw [g2, e2], g3⟩
    show (deliverC x.id (CIndex.onWrite ⟨xs ++ [x]⟩ b.f b.l x.id b.mn b.mx).1 r).chunks = _
    rw [st_eq _ _ e1, ← e2]; exact g1

/-- every delivery order of the notifications of a NEW chunk `cid` (the entries `xs` of earlier chunks are untouched) -/
theorem deliverC_new {tsOf : Nat → Int} {n : Nat} (hm : Monotone tsOf n) (hn : n ≤ 4294967296) (xs : List CIndex.Chk)
    (cid : Nat) (hx : ∀ l, xs.getLast? = some l → l.id ≠ cid) (ds : List Note) (hne : ds ≠ [])
    (hok : ∀ b ∈ ds, NoteOk tsOf n b) (hp : ds.Pairwise Disj) :
    ∃ x ds', (deliverC cid ⟨xs⟩ ds).chunks = xs ++ [x] ∧ x.id = cid ∧
      RefChk x (deliver CIndex.sparseSpace CIndex.bigGap ds) ∧ (∀ b, b ∈ ds' ↔ b ∈ ds) ∧
      Inv tsOf n ds' (deliver CIndex.sparseSpace CIndex.bigGap ds) := by
  cases ds with
  | nil => exact absurd rfl hne
  | cons b r =>
    have hp' := List.pairwise_cons.mp hp
    have hb := hok b List.mem_cons_self
    have hmm : b.mn ≤ b.mx := by
      obtain ⟨hfl, hln, hmx, hmn, _⟩ := hb
      have h3 := hm b.f b.l hfl hln
      rcases hmn with e | ⟨e1, e2⟩
      · omega
      · have := hm 0 b.l (Nat.zero_le _) hln; omega
    obtain ⟨x1, e1, e2, e3⟩ := notify_new xs b cid hx (by have := hb.2.1; omega) hmm
    have h1 := notify_inv CIndex.sparseSpace CIndex.bigGap hm (inv_init tsOf n) b hb (fun a ha => by simp at ha)
    have hd1 : ∀ a ∈ [b], ∀ y ∈ r, Disj a y := by
      intro a ha y hy
      simp at ha; subst ha
      exact hp'.1 y hy
    obtain ⟨x', g1, g2, g3⟩ := deliverC_ref hm hn xs r [b] _ x1 h1 e3 (fun y hy => hok y (List.mem_cons_of_mem _ hy)) hp'.2 hd1
    obtain ⟨done', q1, q2⟩ := deliver_inv CIndex.sparseSpace CIndex.bigGap hm r [b] _ h1
      (fun y hy => hok y (List.mem_cons_of_mem _ hy)) hp'.2 hd1
    refine ⟨x', done', ?_, by rw [g2, e2], g3, ?_, q2⟩
    · show (deliverC cid (CIndex.onWrite ⟨xs⟩ b.f b.l cid b.mn b.mx).1 r).chunks = _
      rw [st_eq _ _ e1, ← e2]; exact g1
    · intro y; rw [q1 y]; simp

/-! ## 8. minimum / maximum folds (lightFill over all records) -/
theorem foldl_min_le (l : List Int) : ∀ (a : Int), l.foldl min a ≤ a ∧ ∀ x ∈ l, l.foldl min a ≤ x := by
  induction l with
  | nil => intro a; simp
  | cons y ys ih =>
    intro a
    obtain ⟨h1, h2⟩ := ih (min a y)
    simp only [List.foldl_cons]
    refine ⟨by omega, ?_⟩
    intro x hx
    cases hx with
    | head => omega
    | tail _ hx' => exact h2 x hx'

theorem le_foldl_max (l : List Int) : ∀ (a : Int), a ≤ l.foldl max a ∧ ∀ x ∈ l, x ≤ l.foldl max a := by
  induction l with
  | nil => intro a; simp
  | cons y ys ih =>
    intro a
    obtain ⟨h1, h2⟩ := ih (max a y)
    simp only [List.foldl_cons]
    refine ⟨by omega, ?_⟩
    intro x hx
    cases hx with
    | head => omega
    | tail _ hx' => exact h2 x hx'


end Logrange.PipeHist
