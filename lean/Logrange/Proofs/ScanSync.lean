import Logrange.Model.ScanSync
/-!
# `Scanner.sync` against replacements of the watched file: the invariant of `Model/ScanSync.lean`

`YInv` holds at `init` / `initWith off` and is preserved by every `step`, hence along every trace (`yinv_run`).
The key facts:

* scanned values only grow (a scan stores `cur`, `cur` only grows), every key in `descs` is `≤` a pending scan result,
  every retired key is `<` every key in `descs`, `<` a pending scan result and `< cur`: a retired key never comes back
  (`YInv.keysDistinct` — holds WITHOUT `hit = false`);
* unless a replacement fell into a scan-to-open window (`hit`), a pending scan result is `cur`, the not-yet-opened
  descriptor between merge and open names `cur`, and so every worker opened the inode of its key (`openedEq`).
-/
namespace Logrange.ScanSync

structure YInv (w : W) : Prop where
  curLt : w.cur < w.next
  descsLe : w.descs.length ≤ 1
  /-- a key is an inode that was under the name at some scan -/
  keysLe : ∀ d ∈ w.descs, d.key ≤ w.cur
  retiredLtCur : ∀ r ∈ w.retired, r.key < w.cur
  scannedLe : ∀ i, w.scanned = some i → i ≤ w.cur
  /-- a pending scan result is the current inode unless a replacement fell into the window -/
  scannedEq : w.hit = false → ∀ i, w.scanned = some i → i = w.cur
  scannedInSync : ∀ i, w.scanned = some i → w.inSync = true
  /-- scan results only grow: a pending one is `≥` every known key -/
  descsLeScan : ∀ d ∈ w.descs, ∀ i, w.scanned = some i → d.key ≤ i
  /-- a retired key is older than every key in the set … -/
  retiredLt : ∀ r ∈ w.retired, ∀ d ∈ w.descs, r.key < d.key
  /-- … and older than a pending scan result -/
  retiredLtScan : ∀ r ∈ w.retired, ∀ i, w.scanned = some i → r.key < i
  retiredDistinct : w.retired.Pairwise (fun a b => a.key ≠ b.key)
  /-- between merge and open the not-yet-opened descriptor names the current inode -/
  pendingOk : w.hit = false → w.inSync = true → w.scanned = none →
    ∀ d ∈ w.descs, d.opened = none → d.key = w.cur
  /-- outside a sync the only descriptor without a worker is the state file's never-synced one -/
  unopenedOutside : w.inSync = false → ∀ d ∈ w.descs, d.opened = none → d.key = 0 ∧ w.retired = []
  openedEq : w.hit = false → ∀ d ∈ workers w, ∀ o, d.opened = some o → o = d.key
  offZero : ∀ d ∈ workers w, d.key ≠ 0 → d.offset0 = 0

theorem len_le_one {α : Type} (l : List α) (h : l.length ≤ 1) : l = [] ∨ ∃ a, l = [a] := by
  match l, h with
  | [], _ => exact Or.inl rfl
  | [a], _ => exact Or.inr ⟨a, rfl⟩
  | _ :: _ :: _, h => simp only [List.length_cons] at h; omega

theorem yinv_initWith (off : Nat) : YInv (initWith off) := by
  constructor <;> simp [initWith, init, workers]

theorem yinv_init : YInv init := by
  constructor <;> simp [init, workers]

/-! ## replace -/

theorem yinv_replace {w : W} (h : YInv w) : YInv (step w .replace) := by
  have hc := h.curLt
  exact {
    curLt := by show w.next < w.next + 1; omega
    descsLe := h.descsLe
    keysLe := by
      intro d hd
      have := h.keysLe d hd
      show d.key ≤ w.next; omega
    retiredLtCur := by
      intro r hr
      have := h.retiredLtCur r hr
      show r.key < w.next; omega
    scannedLe := by
      intro i hi
      have := h.scannedLe i hi
      show i ≤ w.next; omega
    scannedEq := by
      intro hh i hi
      have hh' : (w.hit || w.inSync) = false := hh
      have hin := h.scannedInSync i hi
      rw [hin] at hh'
      simp at hh'
    scannedInSync := h.scannedInSync
    descsLeScan := h.descsLeScan
    retiredLt := h.retiredLt
    retiredLtScan := h.retiredLtScan
    retiredDistinct := h.retiredDistinct
    pendingOk := by
      intro hh hin
      have hh' : (w.hit || w.inSync) = false := hh
      have hin' : w.inSync = true := hin
      rw [hin'] at hh'
      simp at hh'
    unopenedOutside := h.unopenedOutside
    openedEq := by
      intro hh
      have hh' : (w.hit || w.inSync) = false := hh
      exact h.openedEq (Bool.or_eq_false_iff.mp hh').1
    offZero := h.offZero }

/-! ## scan -/

theorem yinv_scan {w : W} (h : YInv w) : YInv (step w .scan) := by
  exact {
    curLt := h.curLt
    descsLe := h.descsLe
    keysLe := h.keysLe
    retiredLtCur := h.retiredLtCur
    scannedLe := by
      intro i hi
      have hi' : some w.cur = some i := hi
      cases hi'
      exact Nat.le_refl _
    scannedEq := by
      intro _ i hi
      have hi' : some w.cur = some i := hi
      cases hi'
      rfl
    scannedInSync := by
      intro i _
      rfl
    descsLeScan := by
      intro d hd i hi
      have hi' : some w.cur = some i := hi
      cases hi'
      exact h.keysLe d hd
    retiredLt := h.retiredLt
    retiredLtScan := by
      intro r hr i hi
      have hi' : some w.cur = some i := hi
      cases hi'
      exact h.retiredLtCur r hr
    retiredDistinct := h.retiredDistinct
    pendingOk := by
      intro _ _ hs
      have hs' : some w.cur = none := hs
      cases hs'
    unopenedOutside := by
      intro hin
      have hin' : true = false := hin
      cases hin'
    openedEq := h.openedEq
    offZero := h.offZero }

/-! ## merge -/

/-- the result of `merge` when a scan result `i` is pending and the set has at most one descriptor: the set becomes
`[x]` with `x.key = i` (`x` the kept descriptor or a new one from offset 0), `g` (empty or the one gone descriptor)
is retired -/
theorem merge_shape {w : W} {i : Nat} (hs : w.scanned = some i) (hl : w.descs.length ≤ 1) :
    ∃ x g, step w .merge = { w with scanned := none, descs := [x], retired := w.retired ++ g } ∧
      x.key = i ∧ (x ∈ w.descs ∨ x = ⟨i, none, 0⟩) ∧
      (g = [] ∨ ∃ d, g = [d] ∧ d ∈ w.descs ∧ d.key ≠ i) := by
  have e : step w .merge =
      { w with scanned := none,
               descs := if (w.descs.filter (fun d => d.key == i)).isEmpty then [⟨i, none, 0⟩]
                        else w.descs.filter (fun d => d.key == i),
               retired := w.retired ++ w.descs.filter (fun d => !(d.key == i)) } := by
    simp only [step, hs]
  rcases len_le_one w.descs hl with hd | ⟨d, hd⟩
  · refine ⟨⟨i, none, 0⟩, [], ?_, rfl, Or.inr rfl, Or.inl rfl⟩
    rw [e, hd]; rfl
  · by_cases hk : d.key = i
    · refine ⟨d, [], ?_, hk, Or.inl (by rw [hd]; exact List.mem_singleton.mpr rfl), Or.inl rfl⟩
      rw [e, hd]; simp [hk]
    · refine ⟨⟨i, none, 0⟩, [d], ?_, rfl, Or.inr rfl,
        Or.inr ⟨d, rfl, by rw [hd]; exact List.mem_singleton.mpr rfl, hk⟩⟩
      rw [e, hd]; simp [hk]

theorem yinv_merge {w : W} (h : YInv w) : YInv (step w .merge) := by
  cases hs : w.scanned with
  | none =>
    have e : step w .merge = w := by simp only [step, hs]
    rw [e]; exact h
  | some i =>
    obtain ⟨x, g, e, hx, hxo, hg⟩ := merge_shape hs h.descsLe
    rw [e]
    have hile := h.scannedLe i hs
    have hgm : ∀ r ∈ g, r ∈ w.descs ∧ r.key ≠ i := by
      intro r hr
      rcases hg with rfl | ⟨d, rfl, hd, hk⟩
      · cases hr
      · have : r = d := List.mem_singleton.mp hr
        subst this; exact ⟨hd, hk⟩
    have hgr : ∀ r ∈ g, r.key < i := by
      intro r hr
      have h1 := hgm r hr
      have h2 := h.descsLeScan r h1.1 i hs
      have h3 := h1.2
      omega
    have hmem : ∀ d, d ∈ [x] ++ (w.retired ++ g) → d ∈ workers w ∨ d = ⟨i, none, 0⟩ := by
      intro d hd
      simp only [List.mem_append, List.mem_singleton] at hd
      rcases hd with rfl | hd | hd
      · rcases hxo with hxo | hxo
        · exact Or.inl (List.mem_append.mpr (Or.inl hxo))
        · exact Or.inr hxo
      · exact Or.inl (List.mem_append.mpr (Or.inr hd))
      · exact Or.inl (List.mem_append.mpr (Or.inl (hgm d hd).1))
    exact {
      curLt := h.curLt
      descsLe := Nat.le_refl 1
      keysLe := by
        intro d hd
        have hd' : d = x := List.mem_singleton.mp hd
        subst hd'
        show d.key ≤ w.cur; omega
      retiredLtCur := by
        intro r hr
        have hr' : r ∈ w.retired ++ g := hr
        show r.key < w.cur
        rcases List.mem_append.mp hr' with hr' | hr'
        · exact h.retiredLtCur r hr'
        · have := hgr r hr'; omega
      scannedLe := by
        intro j hj
        have hj' : none = some j := hj
        cases hj'
      scannedEq := by
        intro _ j hj
        have hj' : none = some j := hj
        cases hj'
      scannedInSync := by
        intro j hj
        have hj' : none = some j := hj
        cases hj'
      descsLeScan := by
        intro d _ j hj
        have hj' : none = some j := hj
        cases hj'
      retiredLt := by
        intro r hr d hd
        have hd' : d = x := List.mem_singleton.mp hd
        subst hd'
        have hr' : r ∈ w.retired ++ g := hr
        rcases List.mem_append.mp hr' with hr' | hr'
        · have := h.retiredLtScan r hr' i hs; omega
        · have := hgr r hr'; omega
      retiredLtScan := by
        intro r _ j hj
        have hj' : none = some j := hj
        cases hj'
      retiredDistinct := by
        show (w.retired ++ g).Pairwise (fun a b => a.key ≠ b.key)
        rw [List.pairwise_append]
        refine ⟨h.retiredDistinct, ?_, ?_⟩
        · rcases hg with rfl | ⟨d, rfl, _⟩
          · exact List.Pairwise.nil
          · exact List.pairwise_singleton _ _
        · intro a ha b hb
          have := h.retiredLt a ha b (hgm b hb).1
          omega
      pendingOk := by
        intro hh _ _ d hd _
        have hd' : d = x := List.mem_singleton.mp hd
        subst hd'
        have := h.scannedEq hh i hs
        show d.key = w.cur; omega
      unopenedOutside := by
        intro hin
        have hin' : w.inSync = false := hin
        rw [h.scannedInSync i hs] at hin'
        cases hin'
      openedEq := by
        intro hh d hd o ho
        rcases hmem d hd with hd' | rfl
        · exact h.openedEq hh d hd' o ho
        · cases ho
      offZero := by
        intro d hd hk
        rcases hmem d hd with hd' | rfl
        · exact h.offZero d hd' hk
        · rfl }

/-! ## open -/

/-- what `open` does to one descriptor: start its worker on the inode under the name, unless it has one -/
def openD (c : Nat) (d : D) : D :=
  match d.opened with
  | none => { d with opened := some c }
  | some _ => d

theorem openD_key (c : Nat) (d : D) : (openD c d).key = d.key := by
  unfold openD; split <;> rfl

theorem openD_off (c : Nat) (d : D) : (openD c d).offset0 = d.offset0 := by
  unfold openD; split <;> rfl

theorem openD_opened_ne (c : Nat) (d : D) : (openD c d).opened ≠ none := by
  unfold openD; split
  · intro h; cases h
  · next o ho => intro h; rw [ho] at h; cases h

theorem openD_opened {c : Nat} {d : D} {o : Nat} (h : (openD c d).opened = some o) :
    d.opened = some o ∨ (d.opened = none ∧ o = c) := by
  unfold openD at h; split at h
  · next hn =>
    have h' : some c = some o := h
    cases h'
    exact Or.inr ⟨hn, rfl⟩
  · exact Or.inl h

theorem step_open_pos {w : W} (hin : w.inSync = true) (hs : w.scanned = none) :
    step w .open = { w with descs := w.descs.map (openD w.cur), inSync := false } := by
  simp only [step, hin, hs, Option.isNone_none, Bool.and_self, ↓reduceIte]
  rfl

theorem step_open_neg {w : W} (hc : ¬ (w.inSync = true ∧ w.scanned = none)) : step w .open = w := by
  have hc' : ¬ ((w.inSync && w.scanned.isNone) = true) := by
    intro hb
    apply hc
    cases hi : w.inSync <;> cases hs : w.scanned <;> simp [hi, hs] at hb ⊢
  simp only [step, hc', Bool.false_eq_true, ↓reduceIte]

theorem yinv_open {w : W} (h : YInv w) : YInv (step w .open) := by
  by_cases hc : w.inSync = true ∧ w.scanned = none
  · obtain ⟨hin, hs⟩ := hc
    rw [step_open_pos hin hs]
    exact {
      curLt := h.curLt
      descsLe := by
        show (w.descs.map (openD w.cur)).length ≤ 1
        rw [List.length_map]; exact h.descsLe
      keysLe := by
        intro d hd
        obtain ⟨a, ha, rfl⟩ := List.mem_map.mp hd
        rw [openD_key]; exact h.keysLe a ha
      retiredLtCur := h.retiredLtCur
      scannedLe := h.scannedLe
      scannedEq := h.scannedEq
      scannedInSync := by
        intro i hi
        have hi' : w.scanned = some i := hi
        rw [hs] at hi'; cases hi'
      descsLeScan := by
        intro d _ i hi
        have hi' : w.scanned = some i := hi
        rw [hs] at hi'; cases hi'
      retiredLt := by
        intro r hr d hd
        obtain ⟨a, ha, rfl⟩ := List.mem_map.mp hd
        rw [openD_key]; exact h.retiredLt r hr a ha
      retiredLtScan := h.retiredLtScan
      retiredDistinct := h.retiredDistinct
      pendingOk := by
        intro _ hin'
        have hin'' : false = true := hin'
        cases hin''
      unopenedOutside := by
        intro _ d hd hdo
        obtain ⟨a, ha, rfl⟩ := List.mem_map.mp hd
        exact absurd hdo (openD_opened_ne _ _)
      openedEq := by
        intro hh d hd o ho
        have hd' : d ∈ w.descs.map (openD w.cur) ++ w.retired := hd
        rcases List.mem_append.mp hd' with hd' | hd'
        · obtain ⟨a, ha, rfl⟩ := List.mem_map.mp hd'
          rw [openD_key]
          rcases openD_opened ho with h1 | ⟨h1, rfl⟩
          · exact h.openedEq hh a (List.mem_append.mpr (Or.inl ha)) o h1
          · exact (h.pendingOk hh hin hs a ha h1).symm
        · exact h.openedEq hh d (List.mem_append.mpr (Or.inr hd')) o ho
      offZero := by
        intro d hd hk
        have hd' : d ∈ w.descs.map (openD w.cur) ++ w.retired := hd
        rcases List.mem_append.mp hd' with hd' | hd'
        · obtain ⟨a, ha, rfl⟩ := List.mem_map.mp hd'
          rw [openD_key] at hk
          rw [openD_off]
          exact h.offZero a (List.mem_append.mpr (Or.inl ha)) hk
        · exact h.offZero d (List.mem_append.mpr (Or.inr hd')) hk }
  · rw [step_open_neg hc]; exact h

/-! ## every step, every trace -/

theorem yinv_step {w : W} (h : YInv w) (l : L) : YInv (step w l) := by
  cases l with
  | replace => exact yinv_replace h
  | scan => exact yinv_scan h
  | merge => exact yinv_merge h
  | «open» => exact yinv_open h

theorem yinv_run {w : W} (h : YInv w) (tr : List L) : YInv (run w tr) := by
  induction tr generalizing w with
  | nil => exact h
  | cons l ls ih => exact ih (yinv_step h l)

/-! ## consequences -/

/-- every key (current or retired) is an inode that exists -/
theorem YInv.keysLt {w : W} (h : YInv w) : ∀ d ∈ workers w, d.key < w.next := by
  intro d hd
  have hc := h.curLt
  rcases List.mem_append.mp hd with hd | hd
  · have := h.keysLe d hd; omega
  · have := h.retiredLtCur d hd; omega

/-- no two descriptors (current or retired) were ever stored under the same inode — with or without `hit` -/
theorem YInv.keysDistinct {w : W} (h : YInv w) : (workers w).Pairwise (fun a b => a.key ≠ b.key) := by
  show (w.descs ++ w.retired).Pairwise (fun a b => a.key ≠ b.key)
  rw [List.pairwise_append]
  refine ⟨?_, h.retiredDistinct, ?_⟩
  · rcases len_le_one w.descs h.descsLe with e | ⟨a, e⟩
    · rw [e]; exact List.Pairwise.nil
    · rw [e]; exact List.pairwise_singleton _ _
  · intro a ha b hb
    have := h.retiredLt b hb a ha
    omega

/-- unless a replacement fell into a scan-to-open window, no inode is open in two workers -/
theorem YInv.openedDistinct {w : W} (h : YInv w) (hh : w.hit = false) :
    (workers w).Pairwise (fun a b => ∀ o, a.opened = some o → b.opened ≠ some o) := by
  refine List.Pairwise.imp_of_mem ?_ h.keysDistinct
  intro a b ha hb hab o hao hbo
  have h1 := h.openedEq hh a ha o hao
  have h2 := h.openedEq hh b hb o hbo
  omega

/-- one complete sync from a state without `hit`: exactly one descriptor, for the inode under the name, opened on it,
read from 0 unless it is still the inode of the state file -/
theorem YInv.quiet_sync {w0 : W} (h : YInv w0) (hh : w0.hit = false) :
    (run w0 sync).hit = false ∧ (run w0 sync).cur = w0.cur ∧
      ∃ d, (run w0 sync).descs = [d] ∧ d.key = w0.cur ∧ d.opened = some w0.cur ∧
        (w0.cur ≠ 0 → d.offset0 = 0) := by
  -- scan
  have h1 : YInv (step w0 .scan) := yinv_scan h
  have hs1 : (step w0 .scan).scanned = some w0.cur := rfl
  -- merge
  obtain ⟨x, g, e, hx, hxo, _⟩ := merge_shape hs1 h1.descsLe
  have h2 : YInv (step (step w0 .scan) .merge) := yinv_merge h1
  -- open
  have hin2 : (step (step w0 .scan) .merge).inSync = true := by rw [e]; rfl
  have hsc2 : (step (step w0 .scan) .merge).scanned = none := by rw [e]
  have hhit2 : (step (step w0 .scan) .merge).hit = false := by rw [e]; exact hh
  have hcur2 : (step (step w0 .scan) .merge).cur = w0.cur := by rw [e]; rfl
  have hd2 : (step (step w0 .scan) .merge).descs = [x] := by rw [e]
  have e3 := step_open_pos hin2 hsc2
  have hrun : run w0 sync = step (step (step w0 .scan) .merge) .open := rfl
  rw [hrun, e3]
  refine ⟨hhit2, hcur2, openD w0.cur x, ?_, ?_, ?_, ?_⟩
  · show List.map (openD (step (step w0 .scan) .merge).cur) (step (step w0 .scan) .merge).descs = _
    rw [hd2, hcur2]; rfl
  · rw [openD_key]; exact hx
  · cases hxop : x.opened with
    | none => unfold openD; rw [hxop]
    | some o =>
      have hxw : x ∈ workers (step (step w0 .scan) .merge) := by
        show x ∈ (step (step w0 .scan) .merge).descs ++ _
        rw [hd2]; exact List.mem_append.mpr (Or.inl (List.mem_singleton.mpr rfl))
      have := h2.openedEq hhit2 x hxw o hxop
      have e4 : openD w0.cur x = x := by simp only [openD, hxop]
      rw [e4, hxop, this, hx]
  · intro hne
    rw [openD_off]
    rcases hxo with hxo | rfl
    · exact h.offZero x (List.mem_append.mpr (Or.inl hxo)) (by rw [hx]; exact hne)
    · rfl

end Logrange.ScanSync
