import Logrange.Model.ScanSync
/-!
# `Scanner.sync` against replacements of the watched file: the invariant of `Model/ScanSync.lean`, for every `Cfg`

`YInv c` holds at `init` / `initWith off` and is preserved by every `step c`, hence along every trace (`yinv_run`),
for the code with the file-id check after the open (`c.checksId = true`, fix 5ccf34b) and for the code before.
The key facts:

* scanned values only grow (a scan stores `cur`, `cur` only grows), every key in `descs` is `≤` a pending scan result,
  every retired key is `<` every key in `descs`, `<` a pending scan result and `< cur`: a retired key never comes back
  (`YInv.keysDistinct` — holds for every `c`, WITHOUT `hit = false`);
* the inode the parser opened (`probe = some x`) lies between every key of the set and `cur`; the id check starts a
  worker only under a key `= cur`, so `key ≤ x ≤ cur = key`: the worker reads the inode of its key whatever the timing
  of replacements (`openedEq` with `c.checksId = true`);
* without the check: unless a replacement fell into a scan-to-open window (`hit`), a pending scan result is `cur`, the
  not-yet-opened descriptor between merge and open names `cur`, and so every worker opened the inode of its key
  (`openedEq` with `hit = false`).
-/
namespace Logrange.ScanSync

structure YInv (c : Cfg) (w : W) : Prop where
  curLt : w.cur < w.next
  descsLe : w.descs.length ≤ 1
  /-- a key is an inode that was under the name at some scan -/
  keysLe : ∀ d ∈ w.descs, d.key ≤ w.cur
  retiredLtCur : ∀ r ∈ w.retired, r.key < w.cur
  scannedLe : ∀ i, w.scanned = some i → i ≤ w.cur
  /-- a pending scan result is the current inode unless a replacement fell into the window -/
  scannedEq : w.hit = false → ∀ i, w.scanned = some i → i = w.cur
  scannedInSync : ∀ i, w.scanned = some i → w.inSync = true
  /-- scan results only grow: a pending one is `≥` every known key -/
  descsLeScan : ∀ d ∈ w.descs, ∀ i, w.scanned = some i → d.key ≤ i
  /-- a retired key is older than every key in the set … -/
  retiredLt : ∀ r ∈ w.retired, ∀ d ∈ w.descs, r.key < d.key
  /-- … and older than a pending scan result -/
  retiredLtScan : ∀ r ∈ w.retired, ∀ i, w.scanned = some i → r.key < i
  retiredDistinct : w.retired.Pairwise (fun a b => a.key ≠ b.key)
  /-- between merge and the end of the sync the not-yet-opened descriptor names the current inode (no `hit`) -/
  pendingOk : w.hit = false → w.inSync = true → w.scanned = none →
    ∀ d ∈ w.descs, d.opened = none → d.key = w.cur
  /-- only the code with the id check ever holds an opened parser back -/
  probeCfg : ∀ x, w.probe = some x → c.checksId = true
  /-- the inode the parser opened was under the name after the merge of this sync: it is `≥` every key of the set -/
  probeOk : ∀ x, w.probe = some x →
    x ≤ w.cur ∧ w.inSync = true ∧ w.scanned = none ∧ ∀ d ∈ w.descs, d.key ≤ x
  probeEq : w.hit = false → ∀ x, w.probe = some x → x = w.cur
  /-- outside a sync a descriptor without a worker is the state file's never-synced one, or (id check only) one whose
  open was rejected because the name was replaced inside the sync: an old key, forgotten by the next merge -/
  unopenedOutside : w.inSync = false → ∀ d ∈ w.descs, d.opened = none →
    (d.key = 0 ∧ w.retired = []) ∨ (c.checksId = true ∧ w.hit = true ∧ d.key < w.cur)
  /-- with the id check ALWAYS, without it unless a replacement fell into a window -/
  openedEq : (c.checksId = true ∨ w.hit = false) → ∀ d ∈ workers w, ∀ o, d.opened = some o → o = d.key
  offZero : ∀ d ∈ workers w, d.key ≠ 0 → d.offset0 = 0

theorem len_le_one {α : Type} (l : List α) (h : l.length ≤ 1) : l = [] ∨ ∃ a, l = [a] := by
  match l, h with
  | [], _ => exact Or.inl rfl
  | [a], _ => exact Or.inr ⟨a, rfl⟩
  | _ :: _ :: _, h => simp only [List.length_cons] at h; omega

theorem yinv_initWith (c : Cfg) (off : Nat) : YInv c (initWith off) := by
  constructor <;> simp [initWith, init, workers]

theorem yinv_init (c : Cfg) : YInv c init := by
  constructor <;> simp [init, workers]

/-! ## replace -/

theorem yinv_replace {c : Cfg} {w : W} (h : YInv c w) : YInv c (step c w .replace) := by
  have hc := h.curLt
  exact {
    curLt := by show w.next < w.next + 1; omega
    descsLe := h.descsLe
    keysLe := by
      intro d hd
      have := h.keysLe d hd
      show d.key ≤ w.next; omega
    retiredLtCur := by
      intro r hr
      have := h.retiredLtCur r hr
      show r.key < w.next; omega
    scannedLe := by
      intro i hi
      have := h.scannedLe i hi
      show i ≤ w.next; omega
    scannedEq := by
      intro hh i hi
      have hh' : (w.hit || w.inSync) = false := hh
      have hin := h.scannedInSync i hi
      rw [hin] at hh'
      simp at hh'
    scannedInSync := h.scannedInSync
    descsLeScan := h.descsLeScan
    retiredLt := h.retiredLt
    retiredLtScan := h.retiredLtScan
    retiredDistinct := h.retiredDistinct
    pendingOk := by
      intro hh hin
      have hh' : (w.hit || w.inSync) = false := hh
      have hin' : w.inSync = true := hin
      rw [hin'] at hh'
      simp at hh'
    probeCfg := h.probeCfg
    probeOk := by
      intro x hx
      obtain ⟨h1, h2, h3, h4⟩ := h.probeOk x hx
      refine ⟨?_, h2, h3, h4⟩
      show x ≤ w.next; omega
    probeEq := by
      intro hh x hx
      have hh' : (w.hit || w.inSync) = false := hh
      have hin := (h.probeOk x hx).2.1
      rw [hin] at hh'
      simp at hh'
    unopenedOutside := by
      intro hin d hd hdo
      have hin' : w.inSync = false := hin
      rcases h.unopenedOutside hin' d hd hdo with h1 | ⟨h1, h2, h3⟩
      · exact Or.inl h1
      · refine Or.inr ⟨h1, ?_, ?_⟩
        · show (w.hit || w.inSync) = true
          rw [h2]; rfl
        · show d.key < w.next; omega
    openedEq := by
      intro hh
      apply h.openedEq
      rcases hh with hh | hh
      · exact Or.inl hh
      · have hh' : (w.hit || w.inSync) = false := hh
        exact Or.inr (Bool.or_eq_false_iff.mp hh').1
    offZero := h.offZero }

/-! ## scan -/

theorem yinv_scan {c : Cfg} {w : W} (h : YInv c w) : YInv c (step c w .scan) := by
  exact {
    curLt := h.curLt
    descsLe := h.descsLe
    keysLe := h.keysLe
    retiredLtCur := h.retiredLtCur
    scannedLe := by
      intro i hi
      have hi' : some w.cur = some i := hi
      cases hi'
      exact Nat.le_refl _
    scannedEq := by
      intro _ i hi
      have hi' : some w.cur = some i := hi
      cases hi'
      rfl
    scannedInSync := by
      intro i _
      rfl
    descsLeScan := by
      intro d hd i hi
      have hi' : some w.cur = some i := hi
      cases hi'
      exact h.keysLe d hd
    retiredLt := h.retiredLt
    retiredLtScan := by
      intro r hr i hi
      have hi' : some w.cur = some i := hi
      cases hi'
      exact h.retiredLtCur r hr
    retiredDistinct := h.retiredDistinct
    pendingOk := by
      intro _ _ hs
      have hs' : some w.cur = none := hs
      cases hs'
    probeCfg := by
      intro x hx
      have hx' : none = some x := hx
      cases hx'
    probeOk := by
      intro x hx
      have hx' : none = some x := hx
      cases hx'
    probeEq := by
      intro _ x hx
      have hx' : none = some x := hx
      cases hx'
    unopenedOutside := by
      intro hin
      have hin' : true = false := hin
      cases hin'
    openedEq := h.openedEq
    offZero := h.offZero }

/-! ## merge -/

/-- the result of `merge` when a scan result `i` is pending and the set has at most one descriptor: the set becomes
`[x]` with `x.key = i` (`x` the kept descriptor or a new one from offset 0), `g` (empty or the one gone descriptor)
is retired -/
theorem merge_shape {c : Cfg} {w : W} {i : Nat} (hs : w.scanned = some i) (hl : w.descs.length ≤ 1) :
    ∃ x g, step c w .merge = { w with scanned := none, descs := [x], retired := w.retired ++ g } ∧
      x.key = i ∧ (x ∈ w.descs ∨ x = ⟨i, none, 0⟩) ∧
      (g = [] ∨ ∃ d, g = [d] ∧ d ∈ w.descs ∧ d.key ≠ i) := by
  have e : step c w .merge =
      { w with scanned := none,
               descs := if (w.descs.filter (fun d => d.key == i)).isEmpty then [⟨i, none, 0⟩]
                        else w.descs.filter (fun d => d.key == i),
               retired := w.retired ++ w.descs.filter (fun d => !(d.key == i)) } := by
    simp only [step, hs]
  rcases len_le_one w.descs hl with hd | ⟨d, hd⟩
  · refine ⟨⟨i, none, 0⟩, [], ?_, rfl, Or.inr rfl, Or.inl rfl⟩
    rw [e, hd]; rfl
  · by_cases hk : d.key = i
    · refine ⟨d, [], ?_, hk, Or.inl (by rw [hd]; exact List.mem_singleton.mpr rfl), Or.inl rfl⟩
      rw [e, hd]; simp [hk]
    · refine ⟨⟨i, none, 0⟩, [d], ?_, rfl, Or.inr rfl,
        Or.inr ⟨d, rfl, by rw [hd]; exact List.mem_singleton.mpr rfl, hk⟩⟩
      rw [e, hd]; simp [hk]

theorem yinv_merge {c : Cfg} {w : W} (h : YInv c w) : YInv c (step c w .merge) := by
  cases hs : w.scanned with
  | none =>
    have e : step c w .merge = w := by simp only [step, hs]
    rw [e]; exact h
  | some i =>
    obtain ⟨x, g, e, hx, hxo, hg⟩ := merge_shape (c := c) hs h.descsLe
    rw [e]
    have hile := h.scannedLe i hs
    have hnp : ∀ y, w.probe = some y → False := by
      intro y hy
      have := (h.probeOk y hy).2.2.1
      rw [hs] at this; cases this
    have hgm : ∀ r ∈ g, r ∈ w.descs ∧ r.key ≠ i := by
      intro r hr
      rcases hg with rfl | ⟨d, rfl, hd, hk⟩
      · cases hr
      · have : r = d := List.mem_singleton.mp hr
        subst this; exact ⟨hd, hk⟩
    have hgr : ∀ r ∈ g, r.key < i := by
      intro r hr
      have h1 := hgm r hr
      have h2 := h.descsLeScan r h1.1 i hs
      have h3 := h1.2
      omega
    have hmem : ∀ d, d ∈ [x] ++ (w.retired ++ g) → d ∈ workers w ∨ d = ⟨i, none, 0⟩ := by
      intro d hd
      simp only [List.mem_append, List.mem_singleton] at hd
      rcases hd with rfl | hd | hd
      · rcases hxo with hxo | hxo
        · exact Or.inl (List.mem_append.mpr (Or.inl hxo))
        · exact Or.inr hxo
      · exact Or.inl (List.mem_append.mpr (Or.inr hd))
      · exact Or.inl (List.mem_append.mpr (Or.inl (hgm d hd).1))
    exact {
      curLt := h.curLt
      descsLe := Nat.le_refl 1
      keysLe := by
        intro d hd
        have hd' : d = x := List.mem_singleton.mp hd
        subst hd'
        show d.key ≤ w.cur; omega
      retiredLtCur := by
        intro r hr
        have hr' : r ∈ w.retired ++ g := hr
        show r.key < w.cur
        rcases List.mem_append.mp hr' with hr' | hr'
        · exact h.retiredLtCur r hr'
        · have := hgr r hr'; omega
      scannedLe := by
        intro j hj
        have hj' : none = some j := hj
        cases hj'
      scannedEq := by
        intro _ j hj
        have hj' : none = some j := hj
        cases hj'
      scannedInSync := by
        intro j hj
        have hj' : none = some j := hj
        cases hj'
      descsLeScan := by
        intro d _ j hj
        have hj' : none = some j := hj
        cases hj'
      retiredLt := by
        intro r hr d hd
        have hd' : d = x := List.mem_singleton.mp hd
        subst hd'
        have hr' : r ∈ w.retired ++ g := hr
        rcases List.mem_append.mp hr' with hr' | hr'
        · have := h.retiredLtScan r hr' i hs; omega
        · have := hgr r hr'; omega
      retiredLtScan := by
        intro r _ j hj
        have hj' : none = some j := hj
        cases hj'
      retiredDistinct := by
        show (w.retired ++ g).Pairwise (fun a b => a.key ≠ b.key)
        rw [List.pairwise_append]
        refine ⟨h.retiredDistinct, ?_, ?_⟩
        · rcases hg with rfl | ⟨d, rfl, _⟩
          · exact List.Pairwise.nil
          · exact List.pairwise_singleton _ _
        · intro a ha b hb
          have := h.retiredLt a ha b (hgm b hb).1
          omega
      pendingOk := by
        intro hh _ _ d hd _
        have hd' : d = x := List.mem_singleton.mp hd
        subst hd'
        have := h.scannedEq hh i hs
        show d.key = w.cur; omega
      probeCfg := h.probeCfg
      probeOk := by
        intro y hy
        exact (hnp y hy).elim
      probeEq := by
        intro _ y hy
        exact (hnp y hy).elim
      unopenedOutside := by
        intro hin
        have hin' : w.inSync = false := hin
        rw [h.scannedInSync i hs] at hin'
        cases hin'
      openedEq := by
        intro hh d hd o ho
        rcases hmem d hd with hd' | rfl
        · exact h.openedEq hh d hd' o ho
        · cases ho
      offZero := by
        intro d hd hk
        rcases hmem d hd with hd' | rfl
        · exact h.offZero d hd' hk
        · rfl }

/-! ## open, check: what they do to one descriptor -/

theorem startOn_key (i : Nat) (d : D) : (startOn i d).key = d.key := by
  unfold startOn; split <;> rfl

theorem startOn_off (i : Nat) (d : D) : (startOn i d).offset0 = d.offset0 := by
  unfold startOn; split <;> rfl

theorem startOn_opened_ne (i : Nat) (d : D) : (startOn i d).opened ≠ none := by
  unfold startOn; split
  · intro h; cases h
  · next o ho => intro h; rw [ho] at h; cases h

theorem startOn_opened {i : Nat} {d : D} {o : Nat} (h : (startOn i d).opened = some o) :
    d.opened = some o ∨ (d.opened = none ∧ o = i) := by
  unfold startOn at h; split at h
  · next hn =>
    have h' : some i = some o := h
    cases h'
    exact Or.inr ⟨hn, rfl⟩
  · exact Or.inl h

/-- what `check` does to one descriptor: the name shows `cur` now, the parser has inode `x` open -/
def checkD (cur x : Nat) (d : D) : D := if d.key == cur then startOn x d else d

theorem checkD_pos {cur x : Nat} {d : D} (h : d.key = cur) : checkD cur x d = startOn x d := by
  simp [checkD, h]

theorem checkD_neg {cur x : Nat} {d : D} (h : d.key ≠ cur) : checkD cur x d = d := by
  simp [checkD, h]

theorem checkD_key (cur x : Nat) (d : D) : (checkD cur x d).key = d.key := by
  by_cases h : d.key = cur
  · rw [checkD_pos h, startOn_key]
  · rw [checkD_neg h]

theorem checkD_off (cur x : Nat) (d : D) : (checkD cur x d).offset0 = d.offset0 := by
  by_cases h : d.key = cur
  · rw [checkD_pos h, startOn_off]
  · rw [checkD_neg h]

theorem checkD_opened {cur x : Nat} {d : D} {o : Nat} (h : (checkD cur x d).opened = some o) :
    d.opened = some o ∨ (d.opened = none ∧ o = x ∧ d.key = cur) := by
  by_cases hk : d.key = cur
  · rw [checkD_pos hk] at h
    rcases startOn_opened h with h1 | ⟨h1, h2⟩
    · exact Or.inl h1
    · exact Or.inr ⟨h1, h2, hk⟩
  · rw [checkD_neg hk] at h
    exact Or.inl h

theorem checkD_unopened {cur x : Nat} {d : D} (h : (checkD cur x d).opened = none) :
    d.opened = none ∧ d.key ≠ cur := by
  by_cases hk : d.key = cur
  · rw [checkD_pos hk] at h
    exact absurd h (startOn_opened_ne _ _)
  · rw [checkD_neg hk] at h
    exact ⟨h, hk⟩

/-! ## open -/

theorem step_open_true {c : Cfg} {w : W} (hc : c.checksId = true)
    (hin : w.inSync = true) (hs : w.scanned = none) (hp : w.probe = none) :
    step c w .open = { w with probe := some w.cur } := by
  simp only [step, hin, hs, hp, hc, Option.isNone_none, Bool.and_self, ↓reduceIte]

theorem step_open_false {c : Cfg} {w : W} (hc : c.checksId = false)
    (hin : w.inSync = true) (hs : w.scanned = none) (hp : w.probe = none) :
    step c w .open = { w with descs := w.descs.map (startOn w.cur), inSync := false } := by
  simp only [step, hin, hs, hp, hc, Option.isNone_none, Bool.and_self, ↓reduceIte, Bool.false_eq_true]

theorem step_open_neg {c : Cfg} {w : W} (hn : ¬ (w.inSync = true ∧ w.scanned = none ∧ w.probe = none)) :
    step c w .open = w := by
  have hn' : ¬ ((w.inSync && w.scanned.isNone && w.probe.isNone) = true) := by
    intro hb
    apply hn
    cases hi : w.inSync <;> cases hs : w.scanned <;> cases hp : w.probe <;> simp [hi, hs, hp] at hb ⊢
  simp only [step, hn', Bool.false_eq_true, ↓reduceIte]

theorem yinv_open {c : Cfg} {w : W} (h : YInv c w) : YInv c (step c w .open) := by
  by_cases hfire : w.inSync = true ∧ w.scanned = none ∧ w.probe = none
  · obtain ⟨hin, hs, hp⟩ := hfire
    cases hc : c.checksId with
    | true =>
      -- the parser opens the path: the worker is not started yet
      rw [step_open_true hc hin hs hp]
      exact {
        curLt := h.curLt
        descsLe := h.descsLe
        keysLe := h.keysLe
        retiredLtCur := h.retiredLtCur
        scannedLe := h.scannedLe
        scannedEq := h.scannedEq
        scannedInSync := h.scannedInSync
        descsLeScan := h.descsLeScan
        retiredLt := h.retiredLt
        retiredLtScan := h.retiredLtScan
        retiredDistinct := h.retiredDistinct
        pendingOk := h.pendingOk
        probeCfg := fun _ _ => hc
        probeOk := by
          intro x hx
          have hx' : some w.cur = some x := hx
          cases hx'
          exact ⟨Nat.le_refl _, hin, hs, h.keysLe⟩
        probeEq := by
          intro _ x hx
          have hx' : some w.cur = some x := hx
          cases hx'
          rfl
        unopenedOutside := h.unopenedOutside
        openedEq := h.openedEq
        offZero := h.offZero }
    | false =>
      rw [step_open_false hc hin hs hp]
      have hnp : ∀ y, w.probe = some y → False := by
        intro y hy
        rw [hp] at hy; cases hy
      exact {
        curLt := h.curLt
        descsLe := by
          show (w.descs.map (startOn w.cur)).length ≤ 1
          rw [List.length_map]; exact h.descsLe
        keysLe := by
          intro d hd
          obtain ⟨a, ha, rfl⟩ := List.mem_map.mp hd
          rw [startOn_key]; exact h.keysLe a ha
        retiredLtCur := h.retiredLtCur
        scannedLe := h.scannedLe
        scannedEq := h.scannedEq
        scannedInSync := by
          intro i hi
          have hi' : w.scanned = some i := hi
          rw [hs] at hi'; cases hi'
        descsLeScan := by
          intro d _ i hi
          have hi' : w.scanned = some i := hi
          rw [hs] at hi'; cases hi'
        retiredLt := by
          intro r hr d hd
          obtain ⟨a, ha, rfl⟩ := List.mem_map.mp hd
          rw [startOn_key]; exact h.retiredLt r hr a ha
        retiredLtScan := h.retiredLtScan
        retiredDistinct := h.retiredDistinct
        pendingOk := by
          intro _ hin'
          have hin'' : false = true := hin'
          cases hin''
        probeCfg := by
          intro y hy
          exact (hnp y hy).elim
        probeOk := by
          intro y hy
          exact (hnp y hy).elim
        probeEq := by
          intro _ y hy
          exact (hnp y hy).elim
        unopenedOutside := by
          intro _ d hd hdo
          obtain ⟨a, ha, rfl⟩ := List.mem_map.mp hd
          exact absurd hdo (startOn_opened_ne _ _)
        openedEq := by
          intro hh d hd o ho
          have hh' : w.hit = false := by
            rcases hh with hh | hh
            · rw [hc] at hh; cases hh
            · exact hh
          have hd' : d ∈ w.descs.map (startOn w.cur) ++ w.retired := hd
          rcases List.mem_append.mp hd' with hd' | hd'
          · obtain ⟨a, ha, rfl⟩ := List.mem_map.mp hd'
            rw [startOn_key]
            rcases startOn_opened ho with h1 | ⟨h1, rfl⟩
            · exact h.openedEq (Or.inr hh') a (List.mem_append.mpr (Or.inl ha)) o h1
            · exact (h.pendingOk hh' hin hs a ha h1).symm
          · exact h.openedEq (Or.inr hh') d (List.mem_append.mpr (Or.inr hd')) o ho
        offZero := by
          intro d hd hk
          have hd' : d ∈ w.descs.map (startOn w.cur) ++ w.retired := hd
          rcases List.mem_append.mp hd' with hd' | hd'
          · obtain ⟨a, ha, rfl⟩ := List.mem_map.mp hd'
            rw [startOn_key] at hk
            rw [startOn_off]
            exact h.offZero a (List.mem_append.mpr (Or.inl ha)) hk
          · exact h.offZero d (List.mem_append.mpr (Or.inr hd')) hk }
  · rw [step_open_neg hfire]; exact h

/-! ## check -/

theorem step_check_some {c : Cfg} {w : W} {x : Nat} (hp : w.probe = some x) :
    step c w .check =
      { w with probe := none, inSync := false, descs := w.descs.map (checkD w.cur x) } := by
  simp only [step, hp]
  rfl

theorem step_check_none {c : Cfg} {w : W} (hp : w.probe = none) : step c w .check = w := by
  simp only [step, hp]

theorem yinv_check {c : Cfg} {w : W} (h : YInv c w) : YInv c (step c w .check) := by
  cases hp : w.probe with
  | none => rw [step_check_none hp]; exact h
  | some x =>
    rw [step_check_some hp]
    obtain ⟨hxle, hin, hs, hkx⟩ := h.probeOk x hp
    have hcfg := h.probeCfg x hp
    exact {
      curLt := h.curLt
      descsLe := by
        show (w.descs.map (checkD w.cur x)).length ≤ 1
        rw [List.length_map]; exact h.descsLe
      keysLe := by
        intro d hd
        obtain ⟨a, ha, rfl⟩ := List.mem_map.mp hd
        rw [checkD_key]; exact h.keysLe a ha
      retiredLtCur := h.retiredLtCur
      scannedLe := h.scannedLe
      scannedEq := h.scannedEq
      scannedInSync := by
        intro i hi
        have hi' : w.scanned = some i := hi
        rw [hs] at hi'; cases hi'
      descsLeScan := by
        intro d _ i hi
        have hi' : w.scanned = some i := hi
        rw [hs] at hi'; cases hi'
      retiredLt := by
        intro r hr d hd
        obtain ⟨a, ha, rfl⟩ := List.mem_map.mp hd
        rw [checkD_key]; exact h.retiredLt r hr a ha
      retiredLtScan := h.retiredLtScan
      retiredDistinct := h.retiredDistinct
      pendingOk := by
        intro _ hin'
        have hin'' : false = true := hin'
        cases hin''
      probeCfg := by
        intro y hy
        have hy' : none = some y := hy
        cases hy'
      probeOk := by
        intro y hy
        have hy' : none = some y := hy
        cases hy'
      probeEq := by
        intro _ y hy
        have hy' : none = some y := hy
        cases hy'
      unopenedOutside := by
        -- a descriptor the check did not start: its key is not the inode under the name — a rejected open
        intro _ d hd hdo
        obtain ⟨a, ha, rfl⟩ := List.mem_map.mp hd
        obtain ⟨hao, hak⟩ := checkD_unopened hdo
        have hle := h.keysLe a ha
        refine Or.inr ⟨hcfg, ?_, ?_⟩
        · show w.hit = true
          cases hh : w.hit with
          | true => rfl
          | false => exact absurd (h.pendingOk hh hin hs a ha hao) hak
        · rw [checkD_key]
          show a.key < w.cur; omega
      openedEq := by
        intro hh d hd o ho
        have hh' : c.checksId = true ∨ w.hit = false := hh
        have hd' : d ∈ w.descs.map (checkD w.cur x) ++ w.retired := hd
        rcases List.mem_append.mp hd' with hd' | hd'
        · obtain ⟨a, ha, rfl⟩ := List.mem_map.mp hd'
          rw [checkD_key]
          rcases checkD_opened ho with h1 | ⟨_, rfl, h3⟩
          · exact h.openedEq hh' a (List.mem_append.mpr (Or.inl ha)) o h1
          · -- started by the check: key = cur, and key ≤ (the inode the parser opened) ≤ cur
            have := hkx a ha
            omega
        · exact h.openedEq hh' d (List.mem_append.mpr (Or.inr hd')) o ho
      offZero := by
        intro d hd hk
        have hd' : d ∈ w.descs.map (checkD w.cur x) ++ w.retired := hd
        rcases List.mem_append.mp hd' with hd' | hd'
        · obtain ⟨a, ha, rfl⟩ := List.mem_map.mp hd'
          rw [checkD_key] at hk
          rw [checkD_off]
          exact h.offZero a (List.mem_append.mpr (Or.inl ha)) hk
        · exact h.offZero d (List.mem_append.mpr (Or.inr hd')) hk }

/-! ## every step, every trace -/

theorem yinv_step {c : Cfg} {w : W} (h : YInv c w) (l : L) : YInv c (step c w l) := by
  cases l with
  | replace => exact yinv_replace h
  | scan => exact yinv_scan h
  | merge => exact yinv_merge h
  | «open» => exact yinv_open h
  | check => exact yinv_check h

theorem yinv_run {c : Cfg} {w : W} (h : YInv c w) (tr : List L) : YInv c (run c w tr) := by
  induction tr generalizing w with
  | nil => exact h
  | cons l ls ih => exact ih (yinv_step h l)

/-! ## consequences -/

/-- every key (current or retired) is an inode that exists -/
theorem YInv.keysLt {c : Cfg} {w : W} (h : YInv c w) : ∀ d ∈ workers w, d.key < w.next := by
  intro d hd
  have hc := h.curLt
  rcases List.mem_append.mp hd with hd | hd
  · have := h.keysLe d hd; omega
  · have := h.retiredLtCur d hd; omega

/-- no two descriptors (current or retired) were ever stored under the same inode — for every `c`, with or without
`hit` -/
theorem YInv.keysDistinct {c : Cfg} {w : W} (h : YInv c w) :
    (workers w).Pairwise (fun a b => a.key ≠ b.key) := by
  show (w.descs ++ w.retired).Pairwise (fun a b => a.key ≠ b.key)
  rw [List.pairwise_append]
  refine ⟨?_, h.retiredDistinct, ?_⟩
  · rcases len_le_one w.descs h.descsLe with e | ⟨a, e⟩
    · rw [e]; exact List.Pairwise.nil
    · rw [e]; exact List.pairwise_singleton _ _
  · intro a ha b hb
    have := h.retiredLt b hb a ha
    omega

/-- with the id check always, without it unless a replacement fell into a scan-to-open window: no inode is open in two
workers -/
theorem YInv.openedDistinct {c : Cfg} {w : W} (h : YInv c w) (hh : c.checksId = true ∨ w.hit = false) :
    (workers w).Pairwise (fun a b => ∀ o, a.opened = some o → b.opened ≠ some o) := by
  refine List.Pairwise.imp_of_mem ?_ h.keysDistinct
  intro a b ha hb hab o hao hbo
  have h1 := h.openedEq hh a ha o hao
  have h2 := h.openedEq hh b hb o hbo
  omega

/-- `open` then `check` with nothing in between, after a merge (every descriptor of the set names the inode under the
name): with the id check the parser's inode is the descriptor's, the worker is started; without, it is started at once -/
theorem open_check_quiet {c : Cfg} {w : W} (hin : w.inSync = true) (hs : w.scanned = none) (hp : w.probe = none)
    (hk : ∀ d ∈ w.descs, d.key = w.cur) :
    (step c (step c w .open) .check).descs = w.descs.map (startOn w.cur) ∧
    (step c (step c w .open) .check).cur = w.cur ∧
    (step c (step c w .open) .check).hit = w.hit ∧
    (step c (step c w .open) .check).inSync = false ∧
    (step c (step c w .open) .check).probe = none := by
  cases hc : c.checksId with
  | true =>
    rw [step_open_true hc hin hs hp]
    rw [step_check_some (x := w.cur) rfl]
    refine ⟨?_, rfl, rfl, rfl, rfl⟩
    show w.descs.map (checkD w.cur w.cur) = w.descs.map (startOn w.cur)
    apply List.map_congr_left
    intro d hd
    exact checkD_pos (hk d hd)
  | false =>
    rw [step_open_false hc hin hs hp]
    rw [step_check_none (by exact hp)]
    exact ⟨rfl, rfl, rfl, rfl, hp⟩

/-- one complete sync without a replacement inside, from ANY state that satisfies the invariant — with the id check
whatever happened before (`hit` or not, a rejected open, a parser still open); without the check from a state without
`hit` —: exactly one descriptor, for the inode under the name, opened on it, read from 0 unless it is still the inode of
the state file -/
theorem YInv.quiet_sync {c : Cfg} {w0 : W} (h : YInv c w0) (hh : c.checksId = true ∨ w0.hit = false) :
    (run c w0 sync).hit = w0.hit ∧ (run c w0 sync).cur = w0.cur ∧
      (run c w0 sync).inSync = false ∧ (run c w0 sync).probe = none ∧
      ∃ d, (run c w0 sync).descs = [d] ∧ d.key = w0.cur ∧ d.opened = some w0.cur ∧
        (w0.cur ≠ 0 → d.offset0 = 0) := by
  -- scan
  have h1 : YInv c (step c w0 .scan) := yinv_scan h
  have hs1 : (step c w0 .scan).scanned = some w0.cur := rfl
  -- merge
  obtain ⟨x, g, e, hx, hxo, _⟩ := merge_shape (c := c) hs1 h1.descsLe
  have h2 : YInv c (step c (step c w0 .scan) .merge) := yinv_merge h1
  have hin2 : (step c (step c w0 .scan) .merge).inSync = true := by rw [e]; rfl
  have hsc2 : (step c (step c w0 .scan) .merge).scanned = none := by rw [e]
  have hp2 : (step c (step c w0 .scan) .merge).probe = none := by rw [e]; rfl
  have hhit2 : (step c (step c w0 .scan) .merge).hit = w0.hit := by rw [e]; rfl
  have hcur2 : (step c (step c w0 .scan) .merge).cur = w0.cur := by rw [e]; rfl
  have hd2 : (step c (step c w0 .scan) .merge).descs = [x] := by rw [e]
  have hk2 : ∀ d ∈ (step c (step c w0 .scan) .merge).descs,
      d.key = (step c (step c w0 .scan) .merge).cur := by
    intro d hd
    rw [hd2] at hd
    rw [List.mem_singleton.mp hd, hcur2]; exact hx
  -- open, check
  obtain ⟨e1, e2, e3, e4, e5⟩ := open_check_quiet (c := c) hin2 hsc2 hp2 hk2
  have hrun : run c w0 sync = step c (step c (step c (step c w0 .scan) .merge) .open) .check := rfl
  rw [hrun]
  refine ⟨e3.trans hhit2, e2.trans hcur2, e4, e5, startOn w0.cur x, ?_, ?_, ?_, ?_⟩
  · rw [e1, hd2, hcur2]; rfl
  · rw [startOn_key]; exact hx
  · cases hxop : x.opened with
    | none => unfold startOn; rw [hxop]
    | some o =>
      have hxw : x ∈ workers (step c (step c w0 .scan) .merge) := by
        show x ∈ (step c (step c w0 .scan) .merge).descs ++ _
        rw [hd2]; exact List.mem_append.mpr (Or.inl (List.mem_singleton.mpr rfl))
      have hh2 : c.checksId = true ∨ (step c (step c w0 .scan) .merge).hit = false := by
        rcases hh with hh | hh
        · exact Or.inl hh
        · exact Or.inr (hhit2.trans hh)
      have := h2.openedEq hh2 x hxw o hxop
      have e6 : startOn w0.cur x = x := by simp only [startOn, hxop]
      rw [e6, hxop, this, hx]
  · intro hne
    rw [startOn_off]
    rcases hxo with hxo | rfl
    · exact h.offZero x (List.mem_append.mpr (Or.inl hxo)) (by rw [hx]; exact hne)
    · rfl

end Logrange.ScanSync
