import Logrange.Model.PathMatchGreedy
/-!
Lemmas relating the model of Go's `path.Match` to the specification `PathSpec`, for patterns without the byte `*`
(one chunk: literals, escapes, `?`, character classes), all names.
-/
namespace Logrange.PathSpec
open Logrange.PathMatch

def noStar (p : Bytes) : Bool := p.all (· != STAR)

/-! ## scanChunk on a pattern without `*` -/

theorem scanLoop_noStar : ∀ (fuel : Nat) (p : Bytes) (i : Nat) (inr : Bool), p.length < fuel → noStar p = true →
    scanLoop fuel p i inr = i + p.length := by
  intro fuel
  induction fuel with
  | zero => intro p i inr h; omega
  | succ f ih =>
    intro p i inr hl hn
    cases p with
    | nil => simp [scanLoop]
    | cons c r =>
      simp only [noStar, List.all_cons, Bool.and_eq_true, bne_iff_ne, ne_eq] at hn
      have hr : noStar r = true := by simpa [noStar] using hn.2
      simp only [List.length_cons] at hl
      simp only [scanLoop]
      by_cases hb : (c == BS) = true
      · simp only [hb, if_true]
        cases r with
        | nil => simp
        | cons x r2 =>
          have hr2 : noStar r2 = true := by
            simp only [noStar, List.all_cons, Bool.and_eq_true] at hr; simpa [noStar] using hr.2
          simp only [List.length_cons] at hl ⊢
          rw [ih r2 (i + 2) inr (by omega) hr2]; omega
      · have hs : (c == STAR) = false := by simpa using hn.1
        simp only [hb, Bool.false_eq_true, if_false, hs, Bool.false_and]
        split
        · rw [ih r (i + 1) true (by omega) hr]; simp only [List.length_cons]; omega
        · split
          · rw [ih r (i + 1) false (by omega) hr]; simp only [List.length_cons]; omega
          · rw [ih r (i + 1) inr (by omega) hr]; simp only [List.length_cons]; omega

theorem scanChunk_noStar (p : Bytes) (hn : noStar p = true) : scanChunk p = (false, p, []) := by
  have htw : p.takeWhile (· == STAR) = [] := by
    cases p with
    | nil => rfl
    | cons c r =>
      simp only [noStar, List.all_cons, Bool.and_eq_true, bne_iff_ne, ne_eq] at hn
      have : (c == STAR) = false := by simpa using hn.1
      simp [List.takeWhile, this]
  simp only [scanChunk, htw, List.length_nil, List.drop_zero]
  rw [scanLoop_noStar (p.length + 1) p 0 false (by omega) hn]
  simp

/-! ## class bodies -/

theorem getEsc_eq_bound (p : Bytes) : getEsc p = bound p := by
  cases p with
  | nil => rfl
  | cons c r =>
    simp only [getEsc, bound]
    by_cases h : (c == DASH || c == RBR) = true
    · simp [h]
    · simp only [h, Bool.false_eq_true, if_false]
      by_cases hb : (c == BS) = true <;> simp [hb]

theorem decodeRune_width_pos (c : UInt8) (r : Bytes) : 0 < (decodeRune (c :: r)).2 := by
  simp only [decodeRune]
  repeat' split
  all_goals simp

theorem bound_shorter (p : Bytes) (r : Nat) (q : Bytes) (h : bound p = some (r, q)) : q.length < p.length ∧ q ≠ [] := by
  cases p with
  | nil => simp [bound] at h
  | cons c rest =>
    simp only [bound] at h
    by_cases h1 : (c == DASH || c == RBR) = true
    · simp [h1] at h
    · simp only [h1, Bool.false_eq_true, if_false] at h
      have hlen : (if (c == BS) = true then rest else c :: rest).length ≤ (c :: rest).length := by
        split <;> simp
      generalize (if (c == BS) = true then rest else c :: rest) = q0 at h hlen
      cases q0 with
      | nil => simp at h
      | cons x q1 =>
        have hw := decodeRune_width_pos x q1
        simp only [List.isEmpty_cons, Bool.false_eq_true, if_false] at h
        by_cases h3 : ((decodeRune (x :: q1)).1 == runeError && (decodeRune (x :: q1)).2 == 1) = true
        · simp [h3] at h
        · simp only [h3, Bool.false_eq_true, if_false] at h
          by_cases h4 : ((x :: q1).drop (decodeRune (x :: q1)).2).isEmpty = true
          · simp [h4] at h
          · simp only [h4, Bool.false_eq_true, if_false, Option.some.injEq, Prod.mk.injEq] at h
            obtain ⟨_, rfl⟩ := h
            refine ⟨?_, by simpa using h4⟩
            simp only [List.length_drop, List.length_cons] at hlen ⊢
            omega


theorem classLoop_ranges : ∀ (f1 : Nat) (body : Bytes) (f2 : Nat) (r k : Nat) (m0 : Bool),
    body.length < f1 → body.length < f2 →
    (match ranges f1 body k with
     | none => classLoop f2 body r true k m0 = none
     | some (rs, q) => classLoop f2 body r true k m0 = some (m0 || inRanges rs r, q) ∧ q.length < body.length) := by
  intro f1
  induction f1 with
  | zero => intro body f2 r k m0 h; omega
  | succ f1 ih =>
    intro body f2 r k m0 h1 h2
    obtain ⟨f2', rfl⟩ : ∃ f2', f2 = f2' + 1 := ⟨f2 - 1, by omega⟩
    cases body with
    | nil => simp [ranges, classLoop]
    | cons c rest =>
      simp only [ranges, classLoop, getEsc_eq_bound]
      by_cases hc : (c == RBR && decide (k > 0)) = true
      · simp [hc, inRanges]
      · simp only [hc, Bool.false_eq_true, if_false]
        cases hb : bound (c :: rest) with
        | none => simp
        | some lp =>
          obtain ⟨lo, p1⟩ := lp
          have hs1 := bound_shorter _ _ _ hb
          simp only []
          cases p1 with
          | nil => exact absurd rfl hs1.2
          | cons d p2 =>
            simp only []
            by_cases hd : (d == DASH) = true
            · simp only [hd, if_true]
              cases hb2 : bound p2 with
              | none => simp
              | some hp =>
                obtain ⟨hi, p3⟩ := hp
                have hs2 := bound_shorter _ _ _ hb2
                simp only [List.length_cons] at hs1 h1 h2
                have := ih p3 f2' r (k + 1) (m0 || (true && decide (lo ≤ r) && decide (r ≤ hi))) (by omega) (by omega)
                simp only []
                cases hr : ranges f1 p3 (k + 1) with
                | none => rw [hr] at this; simpa using this
                | some rq =>
                  obtain ⟨rs, q⟩ := rq
                  rw [hr] at this
                  simp only [Option.map_some] at this ⊢
                  refine ⟨?_, by simp only [List.length_cons]; omega⟩
                  rw [this.1]
                  simp [inRanges, Bool.or_assoc]
            · simp only [hd, Bool.false_eq_true, if_false]
              simp only [List.length_cons] at hs1 h1 h2
              have := ih (d :: p2) f2' r (k + 1) (m0 || (true && decide (lo ≤ r) && decide (r ≤ lo)))
                (by simp only [List.length_cons]; omega) (by simp only [List.length_cons]; omega)
              cases hr : ranges f1 (d :: p2) (k + 1) with
              | none => rw [hr] at this; simpa using this
              | some rq =>
                obtain ⟨rs, q⟩ := rq
                rw [hr] at this
                simp only [Option.map_some] at this ⊢
                refine ⟨?_, by simp only [List.length_cons] at this ⊢; omega⟩
                rw [this.1]
                simp [inRanges, Bool.or_assoc]


/-! ## one-step unfoldings of `matchChunk` / `parsePat` -/

theorem mc_qm_t (mf : Nat) (rest s : Bytes) : matchChunk (mf+1) (QM :: rest) s true = matchChunk mf rest s true := by
  simp [matchChunk, QM, LBR]
theorem mc_qm_nil (mf : Nat) (rest : Bytes) : matchChunk (mf+1) (QM :: rest) [] false = matchChunk mf rest [] true := by
  simp [matchChunk, QM, LBR]
theorem mc_qm_cons (mf : Nat) (rest : Bytes) (x : UInt8) (t : Bytes) :
    matchChunk (mf+1) (QM :: rest) (x :: t) false = matchChunk mf rest ((x :: t).drop (decodeRune (x :: t)).2) (x == SL) := by
  simp [matchChunk, QM, LBR]
theorem mc_lit_t (mf : Nat) (c : UInt8) (rest s : Bytes) (h1 : (c == LBR) = false) (h2 : (c == QM) = false) (h3 : (c == BS) = false) :
    matchChunk (mf+1) (c :: rest) s true = matchChunk mf rest s true := by
  simp [matchChunk, h1, h2, h3]
theorem mc_lit_nil (mf : Nat) (c : UInt8) (rest : Bytes) (h1 : (c == LBR) = false) (h2 : (c == QM) = false) (h3 : (c == BS) = false) :
    matchChunk (mf+1) (c :: rest) [] false = matchChunk mf rest [] true := by
  simp [matchChunk, h1, h2, h3]
theorem mc_lit_cons (mf : Nat) (c : UInt8) (rest : Bytes) (y : UInt8) (t : Bytes) (h1 : (c == LBR) = false) (h2 : (c == QM) = false) (h3 : (c == BS) = false) :
    matchChunk (mf+1) (c :: rest) (y :: t) false = matchChunk mf rest t (c != y) := by
  simp [matchChunk, h1, h2, h3]
theorem mc_bs_t (mf : Nat) (x : UInt8) (rest s : Bytes) : matchChunk (mf+1) (BS :: x :: rest) s true = matchChunk mf rest s true := by
  simp [matchChunk, BS, LBR, QM]
theorem mc_bs_nil (mf : Nat) (x : UInt8) (rest : Bytes) : matchChunk (mf+1) (BS :: x :: rest) [] false = matchChunk mf rest [] true := by
  simp [matchChunk, BS, LBR, QM]
theorem mc_bs_cons (mf : Nat) (x : UInt8) (rest : Bytes) (y : UInt8) (t : Bytes) :
    matchChunk (mf+1) (BS :: x :: rest) (y :: t) false = matchChunk mf rest t (x != y) := by
  simp [matchChunk, BS, LBR, QM]
theorem mc_bs_end (mf : Nat) (s : Bytes) (failed : Bool) : matchChunk (mf+1) [BS] s failed = none := by
  simp [matchChunk, BS, LBR, QM]
/-- `[` `^`? body -/
def clsSplit (crest : Bytes) : Bool × Bytes :=
  match crest with | x :: b => if x == CARET then (true, b) else (false, crest) | [] => (false, crest)
def afterCls (mf : Nat) (s' : Bytes) (f' neg : Bool) : Option (Bool × Bytes) → Option (Bytes × Bool)
  | none => none
  | some (m, rest) => matchChunk mf rest s' (f' || (m == neg))
theorem mc_cls_t (mf : Nat) (crest s : Bytes) :
    matchChunk (mf+1) (LBR :: crest) s true =
      afterCls mf s true (clsSplit crest).1 (classLoop ((clsSplit crest).2.length + 2) (clsSplit crest).2 0 true 0 false) := by
  simp only [matchChunk, LBR, beq_self_eq_true, if_true, clsSplit]
  cases crest with
  | nil => simp; generalize classLoop _ _ _ _ _ _ = R; cases R with | none => rfl | some mr => cases mr; rfl
  | cons x b =>
    by_cases hx : (x == CARET) = true <;> simp [hx] <;>
      (generalize classLoop _ _ _ _ _ _ = R; cases R with | none => rfl | some mr => cases mr; rfl)
theorem mc_cls_nil (mf : Nat) (crest : Bytes) :
    matchChunk (mf+1) (LBR :: crest) [] false =
      afterCls mf [] true (clsSplit crest).1 (classLoop ((clsSplit crest).2.length + 2) (clsSplit crest).2 0 true 0 false) := by
  simp only [matchChunk, LBR, beq_self_eq_true, if_true, clsSplit]
  cases crest with
  | nil => simp; generalize classLoop _ _ _ _ _ _ = R; cases R with | none => rfl | some mr => cases mr; rfl
  | cons x b =>
    by_cases hx : (x == CARET) = true <;> simp [hx] <;>
      (generalize classLoop _ _ _ _ _ _ = R; cases R with | none => rfl | some mr => cases mr; rfl)
theorem mc_cls_cons (mf : Nat) (crest : Bytes) (y : UInt8) (t : Bytes) :
    matchChunk (mf+1) (LBR :: crest) (y :: t) false =
      afterCls mf ((y :: t).drop (decodeRune (y :: t)).2) false (clsSplit crest).1
        (classLoop ((clsSplit crest).2.length + 2) (clsSplit crest).2 (decodeRune (y :: t)).1 true 0 false) := by
  simp only [matchChunk, LBR, beq_self_eq_true, if_true, clsSplit]
  cases crest with
  | nil => simp; generalize classLoop _ _ _ _ _ _ = R; cases R with | none => rfl | some mr => cases mr; simp [afterCls]
  | cons x b =>
    by_cases hx : (x == CARET) = true <;> simp [hx] <;>
      (generalize classLoop _ _ _ _ _ _ = R; cases R with | none => rfl | some mr => cases mr; simp [afterCls])
def afterRanges (pf : Nat) (plen : Nat) (neg : Bool) : Option (List (Nat × Nat) × Bytes) → Option (List Item)
  | none => none
  | some (rs, q) => if q.length < plen then (parsePat pf q).map (Item.cls neg rs :: ·) else none
theorem pp_cls (pf : Nat) (crest : Bytes) :
    parsePat (pf+1) (LBR :: crest) =
      afterRanges pf (crest.length + 1) (clsSplit crest).1 (ranges ((clsSplit crest).2.length + 1) (clsSplit crest).2 0) := by
  simp only [parsePat, LBR, STAR, QM, BS, clsSplit]
  cases crest with
  | nil => simp; generalize ranges _ _ _ = R; cases R with | none => rfl | some mr => cases mr; simp [afterRanges]
  | cons x b =>
    by_cases hx : (x == CARET) = true <;> simp [hx] <;>
      (generalize ranges _ _ _ = R; cases R with | none => rfl | some mr => cases mr; simp [afterRanges])

/-! ## one chunk: `matchChunk` against the item list of the chunk -/

theorem matchItems_consume : ∀ (its : List Item) (n : Bytes), hasStar its = false →
    matchItems its n = (consume its n == some [])
  | [], n, _ => by cases n <;> simp [matchItems, consume]
  | .star :: r, n, h => by simp [hasStar] at h
  | .any :: r, n, h => by
    have ih := matchItems_consume r
    cases n with
    | nil => simp [matchItems, consume]
    | cons c t =>
      simp only [matchItems, consume]
      by_cases hc : (c != SL) = true
      · simp only [hc, Bool.true_and, if_true]; exact ih _ (by simpa [hasStar] using h)
      · simp [hc]
  | .cls neg rs :: r, n, h => by
    have ih := matchItems_consume r
    cases n with
    | nil => simp [matchItems, consume]
    | cons c t =>
      simp only [matchItems, consume]
      by_cases hc : (inRanges rs (decodeRune (c :: t)).1 != neg) = true
      · have hc' := hc
        simp only [inRanges] at hc'
        simp only [hc, hc', Bool.true_and, if_true]; exact ih _ (by simpa [hasStar] using h)
      · have hc' := hc
        simp only [inRanges] at hc'
        simp [hc, hc']
  | .lit c :: r, n, h => by
    have ih := matchItems_consume r
    cases n with
    | nil => simp [matchItems, consume]
    | cons x t =>
      simp only [matchItems, consume]
      by_cases hc : (x == c) = true
      · simp only [hc, Bool.true_and, if_true]; exact ih _ (by simpa [hasStar] using h)
      · simp [hc]

/-- what `matchChunk` must do on a chunk whose specification parse is `o` -/
def ChunkSpec (mf : Nat) (chunk : Bytes) : Option (List Item) → Prop
  | none => ∀ s failed, matchChunk mf chunk s failed = none
  | some its => hasStar its = false ∧ ∀ s,
      matchChunk mf chunk s true = some ([], false) ∧
      matchChunk mf chunk s false = (match consume its s with | some t => some (t, true) | none => some ([], false))

theorem noStar_tail {c : UInt8} {r : Bytes} (h : noStar (c :: r) = true) : (c == STAR) = false ∧ noStar r = true := by
  simp only [noStar, List.all_cons, Bool.and_eq_true, bne_iff_ne, ne_eq] at h
  exact ⟨by simpa using h.1, by simpa [noStar] using h.2⟩

theorem noStar_suffix {q p : Bytes} (h : q <:+ p) (hp : noStar p = true) : noStar q = true := by
  simp only [noStar, List.all_eq_true] at hp ⊢
  intro x hx; exact hp x (h.subset hx)

theorem bound_suffix (p : Bytes) (r : Nat) (q : Bytes) (h : bound p = some (r, q)) : q <:+ p := by
  cases p with
  | nil => simp [bound] at h
  | cons c rest =>
    simp only [bound] at h
    by_cases h1 : (c == DASH || c == RBR) = true
    · simp [h1] at h
    · simp only [h1, Bool.false_eq_true, if_false] at h
      have hsuf : (if (c == BS) = true then rest else c :: rest) <:+ (c :: rest) := by
        split
        · exact List.suffix_cons c rest
        · exact List.suffix_refl _
      generalize (if (c == BS) = true then rest else c :: rest) = q0 at h hsuf
      by_cases h2 : q0.isEmpty = true
      · simp [h2] at h
      · simp only [h2, Bool.false_eq_true, if_false] at h
        by_cases h3 : ((decodeRune q0).1 == runeError && (decodeRune q0).2 == 1) = true
        · simp [h3] at h
        · simp only [h3, Bool.false_eq_true, if_false] at h
          by_cases h4 : (q0.drop (decodeRune q0).2).isEmpty = true
          · simp [h4] at h
          · simp only [h4, Bool.false_eq_true, if_false, Option.some.injEq, Prod.mk.injEq] at h
            obtain ⟨_, rfl⟩ := h
            exact (List.drop_suffix _ _).trans hsuf

theorem ranges_suffix : ∀ (f : Nat) (body : Bytes) (k : Nat) (rs : List (Nat × Nat)) (q : Bytes),
    ranges f body k = some (rs, q) → q <:+ body := by
  intro f
  induction f with
  | zero => intro body k rs q h; simp [ranges] at h
  | succ f ih =>
    intro body k rs q h
    cases body with
    | nil => simp [ranges] at h
    | cons c rest =>
      simp only [ranges] at h
      by_cases hc : (c == RBR && decide (k > 0)) = true
      · simp only [hc, if_true, Option.some.injEq, Prod.mk.injEq] at h
        obtain ⟨_, rfl⟩ := h
        exact List.suffix_cons c _
      · simp only [hc, Bool.false_eq_true, if_false] at h
        cases hb : bound (c :: rest) with
        | none => simp [hb] at h
        | some lp =>
          obtain ⟨lo, p1⟩ := lp
          have s1 := bound_suffix _ _ _ hb
          simp only [hb] at h
          cases p1 with
          | nil => simp at h
          | cons d p2 =>
            simp only [] at h
            by_cases hd : (d == DASH) = true
            · simp only [hd, if_true] at h
              cases hb2 : bound p2 with
              | none => simp [hb2] at h
              | some hp =>
                obtain ⟨hi, p3⟩ := hp
                have s2 := bound_suffix _ _ _ hb2
                simp only [hb2] at h
                cases hr : ranges f p3 (k + 1) with
                | none => simp [hr] at h
                | some rq =>
                  obtain ⟨rs', q'⟩ := rq
                  simp only [hr, Option.map_some, Option.some.injEq, Prod.mk.injEq] at h
                  obtain ⟨_, rfl⟩ := h
                  exact ((ih _ _ _ _ hr).trans s2).trans ((List.suffix_cons d p2).trans s1)
            · simp only [hd, Bool.false_eq_true, if_false] at h
              cases hr : ranges f (d :: p2) (k + 1) with
              | none => simp [hr] at h
              | some rq =>
                obtain ⟨rs', q'⟩ := rq
                simp only [hr, Option.map_some, Option.some.injEq, Prod.mk.injEq] at h
                obtain ⟨_, rfl⟩ := h
                exact (ih _ _ _ _ hr).trans s1

theorem clsSplit_suffix (crest : Bytes) : (clsSplit crest).2 <:+ crest := by
  cases crest with
  | nil => exact List.suffix_refl _
  | cons x b =>
    simp only [clsSplit]
    split
    · exact List.suffix_cons x b
    · exact List.suffix_refl _

theorem matchChunk_spec : ∀ (pf : Nat) (chunk : Bytes) (mf : Nat), chunk.length < pf → chunk.length + 1 < mf →
    noStar chunk = true → ChunkSpec mf chunk (parsePat pf chunk) := by
  intro pf
  induction pf with
  | zero => intro chunk mf h; omega
  | succ pf ih =>
    intro chunk mf h1 h2 hn
    obtain ⟨mf', rfl⟩ : ∃ mf', mf = mf' + 1 := ⟨mf - 1, by omega⟩
    cases chunk with
    | nil =>
      simp only [parsePat, ChunkSpec, hasStar, consume]
      refine ⟨trivial, fun s => ?_⟩
      simp [matchChunk]
    | cons c rest =>
      obtain ⟨hcs, hnr⟩ := noStar_tail hn
      simp only [List.length_cons] at h1 h2
      by_cases hq : c = QM
      · subst hq
        have ihr := ih rest mf' (by omega) (by omega) hnr
        have hp : parsePat (pf+1) (QM :: rest) = (parsePat pf rest).map (Item.any :: ·) := by
          simp [parsePat, QM, STAR]
        rw [hp]
        cases hpr : parsePat pf rest with
        | none =>
          rw [hpr] at ihr; simp only [ChunkSpec, Option.map_none] at ihr ⊢
          intro s failed
          cases failed with
          | true => rw [mc_qm_t]; exact ihr _ _
          | false => cases s with
            | nil => rw [mc_qm_nil]; exact ihr _ _
            | cons x t => rw [mc_qm_cons]; exact ihr _ _
        | some its =>
          rw [hpr] at ihr; simp only [ChunkSpec, Option.map_some] at ihr ⊢
          refine ⟨by simpa [hasStar] using ihr.1, fun s => ⟨?_, ?_⟩⟩
          · rw [mc_qm_t]; exact (ihr.2 s).1
          · cases s with
            | nil => rw [mc_qm_nil]; simp [consume, (ihr.2 []).1]
            | cons x t =>
              rw [mc_qm_cons]
              by_cases hx : x = SL
              · have hx' : (x == SL) = true := by simpa using hx
                rw [hx', (ihr.2 _).1]
                simp [consume, hx]
              · have hx' : (x == SL) = false := by simpa using hx
                rw [hx', (ihr.2 _).2]
                simp [consume, hx]
      by_cases hb : c = BS
      · subst hb
        cases rest with
        | nil =>
          have hp : parsePat (pf+1) [BS] = none := by simp [parsePat, BS, STAR, QM]
          rw [hp]; simp only [ChunkSpec]
          intro s failed; exact mc_bs_end _ _ _
        | cons x rest' =>
          obtain ⟨_, hnr'⟩ := noStar_tail hnr
          simp only [List.length_cons] at h1 h2
          have ihr := ih rest' mf' (by omega) (by omega) hnr'
          have hp : parsePat (pf+1) (BS :: x :: rest') = (parsePat pf rest').map (Item.lit x :: ·) := by
            simp [parsePat, BS, STAR, QM]
          rw [hp]
          cases hpr : parsePat pf rest' with
          | none =>
            rw [hpr] at ihr; simp only [ChunkSpec, Option.map_none] at ihr ⊢
            intro s failed
            cases failed with
            | true => rw [mc_bs_t]; exact ihr _ _
            | false => cases s with
              | nil => rw [mc_bs_nil]; exact ihr _ _
              | cons y t => rw [mc_bs_cons]; exact ihr _ _
          | some its =>
            rw [hpr] at ihr; simp only [ChunkSpec, Option.map_some] at ihr ⊢
            refine ⟨by simpa [hasStar] using ihr.1, fun s => ⟨?_, ?_⟩⟩
            · rw [mc_bs_t]; exact (ihr.2 s).1
            · cases s with
              | nil => rw [mc_bs_nil]; simp [consume, (ihr.2 []).1]
              | cons y t =>
                rw [mc_bs_cons]
                by_cases hy : (y == x) = true
                · have : (x != y) = false := by simp at hy; simp [hy]
                  rw [this, (ihr.2 _).2]; simp [consume, hy]
                · have : (x != y) = true := by
                    simp only [beq_iff_eq] at hy; simp only [bne_iff_ne, ne_eq]; exact fun e => hy e.symm
                  rw [this, (ihr.2 _).1]; simp [consume, hy]
      by_cases hl : c = LBR
      · subst hl
        rw [pp_cls]
        have hbs := clsSplit_suffix rest
        have hbl : (clsSplit rest).2.length ≤ rest.length := hbs.length_le
        have hnb : noStar (clsSplit rest).2 = true := noStar_suffix hbs hnr
        cases hrg : ranges ((clsSplit rest).2.length + 1) (clsSplit rest).2 0 with
        | none =>
          simp only [afterRanges, ChunkSpec]
          intro s failed
          cases failed with
          | true =>
            have := classLoop_ranges ((clsSplit rest).2.length + 1) (clsSplit rest).2 ((clsSplit rest).2.length + 2) 0 0 false (by omega) (by omega)
            rw [hrg] at this
            rw [mc_cls_t, this]; rfl
          | false => cases s with
            | nil =>
              have := classLoop_ranges ((clsSplit rest).2.length + 1) (clsSplit rest).2 ((clsSplit rest).2.length + 2) 0 0 false (by omega) (by omega)
              rw [hrg] at this
              rw [mc_cls_nil, this]; rfl
            | cons y t =>
              have := classLoop_ranges ((clsSplit rest).2.length + 1) (clsSplit rest).2 ((clsSplit rest).2.length + 2) (decodeRune (y :: t)).1 0 false (by omega) (by omega)
              rw [hrg] at this
              rw [mc_cls_cons, this]; rfl
        | some rq =>
          obtain ⟨rs, q⟩ := rq
          have hqs : q <:+ (clsSplit rest).2 := ranges_suffix _ _ _ _ _ hrg
          have hnq : noStar q = true := noStar_suffix hqs hnb
          have hcl : ∀ r, classLoop ((clsSplit rest).2.length + 2) (clsSplit rest).2 r true 0 false = some (inRanges rs r, q)
              ∧ q.length < (clsSplit rest).2.length := by
            intro r
            have := classLoop_ranges ((clsSplit rest).2.length + 1) (clsSplit rest).2 ((clsSplit rest).2.length + 2) r 0 false (by omega) (by omega)
            rw [hrg] at this
            simpa using this
          have hql : q.length < rest.length + 1 := by have := (hcl 0).2; omega
          have ihq := ih q mf' (by omega) (by omega) hnq
          simp only [afterRanges, hql, if_true]
          cases hpr : parsePat pf q with
          | none =>
            rw [hpr] at ihq; simp only [ChunkSpec, Option.map_none] at ihq ⊢
            intro s failed
            cases failed with
            | true => rw [mc_cls_t, (hcl 0).1]; exact ihq _ _
            | false => cases s with
              | nil => rw [mc_cls_nil, (hcl 0).1]; exact ihq _ _
              | cons y t => rw [mc_cls_cons, (hcl _).1]; exact ihq _ _
          | some its =>
            rw [hpr] at ihq; simp only [ChunkSpec, Option.map_some] at ihq ⊢
            refine ⟨by simpa [hasStar] using ihq.1, fun s => ⟨?_, ?_⟩⟩
            · rw [mc_cls_t, (hcl 0).1]; simp only [afterCls, Bool.true_or]; exact (ihq.2 s).1
            · cases s with
              | nil => rw [mc_cls_nil, (hcl 0).1]; simp [afterCls, consume, (ihq.2 []).1]
              | cons y t =>
                rw [mc_cls_cons, (hcl _).1]
                simp only [afterCls, Bool.false_or]
                by_cases hm : (inRanges rs (decodeRune (y :: t)).1 != (clsSplit rest).1) = true
                · have : (inRanges rs (decodeRune (y :: t)).1 == (clsSplit rest).1) = false := by
                    simpa [bne] using hm
                  rw [this, (ihq.2 _).2]; simp [consume, hm]
                · have : (inRanges rs (decodeRune (y :: t)).1 == (clsSplit rest).1) = true := by
                    simpa [bne] using hm
                  rw [this, (ihq.2 _).1]; simp [consume, hm]
      · -- a literal byte
        have h1' : (c == LBR) = false := by simpa using hl
        have h2' : (c == QM) = false := by simpa using hq
        have h3' : (c == BS) = false := by simpa using hb
        have ihr := ih rest mf' (by omega) (by omega) hnr
        have hp : parsePat (pf+1) (c :: rest) = (parsePat pf rest).map (Item.lit c :: ·) := by
          simp [parsePat, hcs, h1', h2', h3']
        rw [hp]
        cases hpr : parsePat pf rest with
        | none =>
          rw [hpr] at ihr; simp only [ChunkSpec, Option.map_none] at ihr ⊢
          intro s failed
          cases failed with
          | true => rw [mc_lit_t _ _ _ _ h1' h2' h3']; exact ihr _ _
          | false => cases s with
            | nil => rw [mc_lit_nil _ _ _ h1' h2' h3']; exact ihr _ _
            | cons y t => rw [mc_lit_cons _ _ _ _ _ h1' h2' h3']; exact ihr _ _
        | some its =>
          rw [hpr] at ihr; simp only [ChunkSpec, Option.map_some] at ihr ⊢
          refine ⟨by simpa [hasStar] using ihr.1, fun s => ⟨?_, ?_⟩⟩
          · rw [mc_lit_t _ _ _ _ h1' h2' h3']; exact (ihr.2 s).1
          · cases s with
            | nil => rw [mc_lit_nil _ _ _ h1' h2' h3']; simp [consume, (ihr.2 []).1]
            | cons y t =>
              rw [mc_lit_cons _ _ _ _ _ h1' h2' h3']
              by_cases hy : (y == c) = true
              · have : (c != y) = false := by simp at hy; simp [hy]
                rw [this, (ihr.2 _).2]; simp [consume, hy]
              · have : (c != y) = true := by
                  simp only [beq_iff_eq] at hy; simp only [bne_iff_ne, ne_eq]; exact fun e => hy e.symm
                rw [this, (ihr.2 _).1]; simp [consume, hy]

/-! ## the whole function on patterns without `*` -/

theorem pathMatch_noStar (p n : Bytes) (h : noStar p = true) : pathMatch p n = specMatch p n := by
  unfold pathMatch specMatch items?
  cases p with
  | nil => simp [matchGo, parsePat, matchItems]
  | cons c r =>
    have hsc := scanChunk_noStar (c :: r) h
    have hspec := matchChunk_spec (r.length + 1 + 1) (c :: r) (r.length + 1 + 2) (by simp) (by simp) h
    show matchGo ((r.length + 2) + 1) (c :: r) n = Option.map _ (parsePat (r.length + 1 + 1) (c :: r))
    rw [matchGo]
    simp only [List.isEmpty_cons, Bool.false_eq_true, if_false, hsc, Bool.false_and, mc, List.length_cons]
    cases hp : parsePat (r.length + 1 + 1) (c :: r) with
    | none =>
      rw [hp] at hspec; simp only [ChunkSpec] at hspec
      simp [hspec]
    | some its =>
      rw [hp] at hspec; simp only [ChunkSpec] at hspec
      obtain ⟨hns, hs⟩ := hspec
      rw [(hs n).2, Option.map_some, matchItems_consume its n hns]
      cases hc : consume its n with
      | none => simp [validateRest]
      | some t =>
        cases t with
        | nil => simp [matchGo]
        | cons x t' => simp [validateRest]

end Logrange.PathSpec
