import Logrange.Proofs.PipeHist
/-!
# C02 — `partition.Service.Write` (the write loop model) is one `call` event of the history model

`writeWith_is_call`: for a journal that stands for the records `tss`, the `OnWrite` notifications of
`WriteLoop.serviceWriteWith` are the pieces of a `PipeHist` call (`CallOKt`), every record is written in order, and the
chunk index / journal after the call are those of `PipeHist.step`.
-/
set_option linter.unusedSimpArgs false
set_option linter.unusedVariables false
namespace Logrange.PipeWrite
open Logrange Logrange.WriteLoop Logrange.PartHist Logrange.PipeHist

/-! ## `iwrapper.Get`: peeking twice at the same record is peeking once -/

theorem see_see (w : IW) (t : Int) : (w.see t).see t = w.see t := by
  cases w with
  | mk mn mx seen sMin sMax =>
    simp only [IW.see]
    cases sMin <;> cases sMax <;> cases seen <;> simp <;> (try constructor) <;> intros <;> (try split) <;> (try split) <;> omega

/-- the next round's `chunkWrite` sees the peeked record again: no effect -/
theorem fold_peek (iw iw0 : IW) (t : Int) (l : List Int) (h : iw.see t = iw0.see t) :
    (t :: l).foldl IW.see iw = (t :: l).foldl IW.see iw0 := by
  simp only [List.foldl_cons, h]

/-! ## `Chunk.Write` -/

theorem chunkWrite_spec : ∀ (fuel : Nat) (c : Chunk) (maxSize : Nat) (recs : List Rec) (iw : IW) (n : Nat),
    recs.length < fuel →
    ∃ (w rest : List Rec) (c' : Chunk) (full : Bool),
      chunkWrite fuel c maxSize recs iw n = (c', n + w.length, rest, (w.map (·.ts)).foldl IW.see iw, full) ∧
      recs = w ++ rest ∧ c'.id = c.id ∧ c'.cnt = c.cnt + w.length ∧
      (rest ≠ [] → maxSize ≤ c'.size) ∧
      (c.size < maxSize → recs ≠ [] → w ≠ []) ∧
      (maxSize ≤ c.size → w = [] ∧ full = true ∧ c' = c) ∧
      (recs = [] → c.size < maxSize → full = false ∧ c' = c) := by
  intro fuel
  induction fuel with
  | zero => intro c maxSize recs iw n h; omega
  | succ fuel ih =>
    intro c maxSize recs iw n hlen
    unfold chunkWrite
    by_cases hfull : maxSize ≤ c.size
    · refine ⟨[], recs, c, true, ?_, ?_⟩
      · simp [hfull]
      · simp [hfull]; intro h; omega
    · cases recs with
      | nil =>
        refine ⟨[], [], c, false, ?_, ?_⟩
        · simp [hfull]
        · simp [hfull]
      | cons r rs =>
        have hl : rs.length < fuel := by simp at hlen; omega
        obtain ⟨w, rest, c', full, he, hsplit, hid, hcnt, hrest, hne, hf, hnil⟩ :=
          ih { c with cnt := c.cnt + 1, size := c.size + 4 + r.len } maxSize rs (iw.see r.ts) (n + 1) hl
        refine ⟨r :: w, rest, c', full, ?_, ?_, ?_, ?_, hrest, ?_, ?_, ?_⟩
        · simp only [ge_iff_le, hfull, if_false]
          rw [he]
          simp [Nat.add_assoc, Nat.add_comm 1]
        · simp [hsplit]
        · simp [hid]
        · simp [hcnt]; omega
        · intro _ _; simp
        · intro h; omega
        · intro h; simp at h

/-! ## `Journal.Write` -/

/-- `GetChunkForWrite` -/
def sel (j : J) (exclude : Option Nat) : J × Chunk :=
  match j.chunks.getLast? with
  | some c => if some c.id == exclude then
      ({ j with chunks := j.chunks ++ [{ id := j.nextId }], nextId := j.nextId + 1 }, { id := j.nextId })
    else (j, c)
  | none => ({ j with chunks := [{ id := j.nextId }], nextId := j.nextId + 1 }, { id := j.nextId })

/-- the rest of one round of `journalWrite.go` -/
def body (recs : List Rec) (iw : IW) (k : J → Option Nat → J × Nat × (Nat × Nat) × List Rec × IW) (j : J) (c : Chunk) :
    J × Nat × (Nat × Nat) × List Rec × IW :=
  let r := chunkWrite (recs.length + 1) c j.maxSize recs iw 0
  let j' : J := { j with chunks := j.chunks.map (fun x => if x.id == c.id then r.1 else x) }
  if r.2.1 > 0 then (j', r.2.1, (c.id, r.1.cnt), r.2.2.1, r.2.2.2.1)
  else if r.2.2.2.2 then k j' (some c.id)
  else (j', 0, (0, 0), r.2.2.1, r.2.2.2.1)

theorem go_succ (recs : List Rec) (iw : IW) (fuel : Nat) (j : J) (ex : Option Nat) :
    journalWrite.go recs iw (fuel + 1) j ex = body recs iw (journalWrite.go recs iw fuel) (sel j ex).1 (sel j ex).2 := by
  rfl

/-- list form of `JInv` -/
structure JL (j : J) (tss : List (List Int)) : Prop where
  ids : j.chunks.map (·.id) = List.range' 1 tss.length
  cnts : j.chunks.map (·.cnt) = tss.map List.length
  next : j.nextId = tss.length + 1
  pos : 0 < j.maxSize

/-- the partition's last chunk (if any) is full: the next `Journal.Write` opens a new chunk -/
def Full (j : J) : Prop := ∀ c, j.chunks.getLast? = some c → j.maxSize ≤ c.size

theorem tss_snoc (tss : List (List Int)) (h : tss ≠ []) : tss = tss.dropLast ++ [tss.getLast?.getD []] := by
  rcases List.eq_nil_or_concat tss with h' | ⟨l, b, h'⟩
  · exact absurd h' h
  · subst h'; simp

theorem JL.push {j : J} {tss : List (List Int)} (hj : JL j tss) :
    JL { j with chunks := j.chunks ++ [{ id := j.nextId }], nextId := j.nextId + 1 } (tss ++ [[]]) := by
  refine ⟨?_, ?_, ?_, hj.pos⟩
  · simp [hj.ids, hj.next, List.range'_1_concat]; omega
  · simp [hj.cnts]
  · simp [hj.next]

theorem JL.last {j : J} {pre : List Chunk} {c : Chunk} {front : List (List Int)} {base : List Int}
    (hj : JL j (front ++ [base])) (hc : j.chunks = pre ++ [c]) :
    pre.map (·.id) = List.range' 1 front.length ∧ c.id = front.length + 1 ∧
      pre.map (·.cnt) = front.map List.length ∧ c.cnt = base.length := by
  have h1 := hj.ids
  have h2 := hj.cnts
  rw [hc] at h1 h2
  simp only [List.map_append, List.map_cons, List.map_nil, List.length_append, List.length_cons, List.length_nil,
    List.range'_1_concat] at h1 h2
  have a := List.append_inj' h1 rfl
  have b := List.append_inj' h2 rfl
  simp at a b
  refine ⟨a.1, ?_, b.1, b.2⟩
  omega

theorem map_repl {j : J} {pre : List Chunk} {c c' : Chunk} {front : List (List Int)} {base : List Int}
    (hj : JL j (front ++ [base])) (hc : j.chunks = pre ++ [c]) :
    j.chunks.map (fun x => if x.id == c.id then c' else x) = pre ++ [c'] := by
  obtain ⟨h1, h2, _, _⟩ := hj.last hc
  rw [hc]
  simp only [List.map_append, List.map_cons, List.map_nil, beq_self_eq_true, if_true]
  congr 1
  conv => rhs; rw [← List.map_id pre]
  apply List.map_congr_left
  intro x hx
  have : x.id ∈ pre.map (·.id) := List.mem_map_of_mem hx
  rw [h1, List.mem_range'_1] at this
  have hne : (x.id == c.id) = false := by simp; omega
  simp [hne]

theorem body_write (recs : List Rec) (iw : IW) (k : J → Option Nat → J × Nat × (Nat × Nat) × List Rec × IW)
    (j : J) (pre : List Chunk) (c : Chunk) (front : List (List Int)) (base : List Int)
    (hc : j.chunks = pre ++ [c]) (hj : JL j (front ++ [base])) (hsz : c.size < j.maxSize) (hne : recs ≠ []) :
    ∃ (w rest : List Rec) (j' : J),
      body recs iw k j c = (j', w.length, (front.length + 1, base.length + w.length), rest,
        (w.map (·.ts)).foldl IW.see iw) ∧
      w ≠ [] ∧ recs = w ++ rest ∧ JL j' (front ++ [base ++ w.map (·.ts)]) ∧ (rest ≠ [] → Full j') := by
  obtain ⟨w, rest, c', full, he, hsplit, hid, hcnt, hrest, hw, _, _⟩ :=
    chunkWrite_spec (recs.length + 1) c j.maxSize recs iw 0 (Nat.lt_succ_self _)
  have hw' := hw hsz hne
  have hpos : 0 < w.length := List.length_pos_iff.mpr hw'
  obtain ⟨h1, h2, h3, h4⟩ := hj.last hc
  refine ⟨w, rest, { j with chunks := pre ++ [c'] }, ?_, hw', hsplit, ?_, ?_⟩
  · unfold body
    have hm := map_repl (c' := c') hj hc
    simp only [he, hm, Nat.zero_add, gt_iff_lt, hpos, if_true, hcnt, h4]
    rw [h2]
  · refine ⟨?_, ?_, ?_, hj.pos⟩
    · simp [h1, hid, h2, List.range'_1_concat]; omega
    · simp [h3, hcnt, h4]
    · simp [hj.next]
  · intro hr c2 hc2
    simp at hc2
    subst hc2
    exact hrest hr

/-- one `Journal.Write` with something to write: it continues the last chunk (`nc = false`) or opens the next one
(`nc = true`), writes a non-empty prefix, and leaves the chunk full if something is left -/
theorem journalWrite_spec (j : J) (tss : List (List Int)) (recs : List Rec) (iw : IW) (hj : JL j tss) (hne : recs ≠ []) :
    ∃ (nc : Bool) (w rest : List Rec) (j' : J),
      journalWrite j recs iw = (j', w.length,
        ((if nc then tss else tss.dropLast).length + 1, (if nc then [] else tss.getLast?.getD []).length + w.length),
        rest, (w.map (·.ts)).foldl IW.see iw) ∧
      w ≠ [] ∧ recs = w ++ rest ∧ (nc = false → tss ≠ []) ∧ (Full j → nc = true) ∧
      JL j' ((if nc then tss else tss.dropLast) ++ [(if nc then [] else tss.getLast?.getD []) ++ w.map (·.ts)]) ∧
      (rest ≠ [] → Full j') := by
  have hgo : journalWrite j recs iw = journalWrite.go recs iw 4 j none := rfl
  rw [hgo, go_succ]
  cases hl : j.chunks.getLast? with
  | none =>
    have hnil : j.chunks = [] := List.getLast?_eq_none_iff.mp hl
    have hsel : sel j none = ({ j with chunks := j.chunks ++ [{ id := j.nextId }], nextId := j.nextId + 1 }, { id := j.nextId }) := by
      simp [sel, hl, hnil]
    rw [hsel]
    obtain ⟨w, rest, j', he, hw, hsplit, hjl, hfull⟩ :=
      body_write recs iw (journalWrite.go recs iw 3) _ j.chunks { id := j.nextId } tss [] rfl hj.push hj.pos hne
    refine ⟨true, w, rest, j', ?_, hw, hsplit, by simp, by simp, ?_, hfull⟩
    · simpa using he
    · simpa using hjl
  | some c =>
    obtain ⟨pre, hpre⟩ := List.getLast?_eq_some_iff.mp hl
    have htne : tss ≠ [] := by
      intro h
      have := congrArg List.length hj.ids
      simp [hpre, h] at this
    have hts := tss_snoc tss htne
    have hj0 := hj
    rw [hts] at hj
    have hsel : sel j none = (j, c) := by simp [sel, hl]
    rw [hsel]
    by_cases hsz : c.size < j.maxSize
    · obtain ⟨w, rest, j', he, hw, hsplit, hjl, hfull⟩ :=
        body_write recs iw (journalWrite.go recs iw 3) j pre c _ _ hpre hj hsz hne
      refine ⟨false, w, rest, j', ?_, hw, hsplit, fun _ => htne, ?_, ?_, hfull⟩
      · simpa using he
      · intro hF
        have := hF c hl
        omega
      · simpa using hjl
    · have hsz' : j.maxSize ≤ c.size := by omega
      obtain ⟨w0, rest0, c0, full0, he0, _, _, _, _, _, hf0, _⟩ :=
        chunkWrite_spec (recs.length + 1) c j.maxSize recs iw 0 (Nat.lt_succ_self _)
      obtain ⟨hw0, hfull0, hc0⟩ := hf0 hsz'
      subst hw0 hfull0
      rw [hc0] at he0
      have hm := map_repl (c' := c) hj hpre
      have hbody : body recs iw (journalWrite.go recs iw 3) j c = journalWrite.go recs iw 3 j (some c.id) := by
        unfold body
        simp only [he0, hm, ← hpre]
        simp
      simp only [hbody]
      rw [go_succ]
      have hsel2 : sel j (some c.id) =
          ({ j with chunks := j.chunks ++ [{ id := j.nextId }], nextId := j.nextId + 1 }, { id := j.nextId }) := by
        simp [sel, hl]
      rw [hsel2]
      obtain ⟨w, rest, j', he, hw, hsplit, hjl, hfull⟩ :=
        body_write recs iw (journalWrite.go recs iw 2) _ j.chunks { id := j.nextId } tss [] rfl hj0.push hj.pos hne
      refine ⟨true, w, rest, j', ?_, hw, hsplit, by simp, by simp, ?_, hfull⟩
      · simpa using he
      · simpa using hjl

/-! ## the loop of `Service.Write` -/

/-- the index update `writeWith` folds over the `OnWrite` calls -/
def F (acc : CIndex.St × List Nat) (call : Nat × Nat × Nat × Int × Int) : CIndex.St × List Nat :=
  let (fi, la, cid, mn, mx) := call
  let (s', r) := CIndex.onWrite acc.1 fi la cid mn mx
  (s', if r != .ok && !acc.2.contains cid then acc.2 ++ [cid] else acc.2)

theorem loop_round (fuel : Nat) (j : J) (recs : List Rec) (iw : IW) (o : Out) (j' : J) (n : Nat) (pos : Nat × Nat)
    (rest : List Rec) (iw' : IW) (h : journalWrite j recs iw = (j', n, pos, rest, iw')) (hn : 0 < n) :
    ∃ o' : Out, o'.calls = o.calls ++ [(pos.2 - n, pos.2 - 1, pos.1, iw'.minTs, iw'.maxTs)] ∧
      serviceWriteWith.loop (fuel + 1) j recs iw o =
        (match (generalizing := false) rest with
         | [] => (j', o')
         | r :: _ => serviceWriteWith.loop fuel j' rest (iw'.see r.ts) o') := by
  refine ⟨{ o with calls := o.calls ++ [(pos.2 - n, pos.2 - 1, pos.1, iw'.minTs, iw'.maxTs)],
                   start := (match o.start with | none => some (pos.1, pos.2 - n) | s => s), endp := some pos }, rfl, ?_⟩
  have hn0 : (n == 0) = false := by simp; omega
  simp only [serviceWriteWith.loop, h, gt_iff_lt, hn, if_true, hn0]
  cases rest <;> simp <;> (cases o.start <;> rfl)

theorem CallOKt_l {tss : List (List Int)} {ps : List Piece} (h : CallOKt tss ps) : ∀ q ∈ ps, q.l ≠ [] := by
  cases ps with
  | nil => intro q hq; cases hq
  | cons pc rest =>
    intro q hq
    rcases List.mem_cons.mp hq with rfl | hq
    · exact h.1
    · exact (h.2.2 q hq).1

/-- the piece of one round, as `pieceStep` computes it -/
theorem pieceStep_round (cidx : CIndex.St) (tss : List (List Int)) (iw0 : IW) (nc : Bool) (l : List Int) :
    pieceStep (⟨cidx, tss⟩, iw0) ⟨nc, l⟩ =
      (⟨(CIndex.onWrite cidx (if nc then [] else tss.getLast?.getD []).length
            ((if nc then [] else tss.getLast?.getD []).length + l.length - 1)
            ((if nc then tss else tss.dropLast).length + 1) (l.foldl IW.see iw0).minTs (l.foldl IW.see iw0).maxTs).1,
         (if nc then tss else tss.dropLast) ++ [(if nc then [] else tss.getLast?.getD []) ++ l]⟩, l.foldl IW.see iw0) := rfl

theorem loop_spec : ∀ (fuel : Nat) (recs : List Rec) (j : J) (tss : List (List Int)) (iw0 iw : IW) (o : Out),
    JL j tss → recs ≠ [] → recs.length < fuel → (∀ r rs, recs = r :: rs → iw.see r.ts = iw0.see r.ts) →
    ∃ (pieces : List Piece) (extra : List (Nat × Nat × Nat × Int × Int)),
      CallOKt tss pieces ∧ (Full j → ∀ q ∈ pieces, q.newChunk = true) ∧
      (pieces.map (·.l)).flatten = recs.map (·.ts) ∧
      (serviceWriteWith.loop fuel j recs iw o).2.calls = o.calls ++ extra ∧
      ∀ (cidx : CIndex.St) (b : List Nat),
        (extra.foldl F (cidx, b)).1 = (pieces.foldl pieceStep (⟨cidx, tss⟩, iw0)).1.cidx ∧
        JL (serviceWriteWith.loop fuel j recs iw o).1 (pieces.foldl pieceStep (⟨cidx, tss⟩, iw0)).1.tss := by
  intro fuel
  induction fuel with
  | zero => intro recs j tss iw0 iw o _ _ h; omega
  | succ fuel ih =>
    intro recs j tss iw0 iw o hj hne hlen hpeek
    obtain ⟨nc, w, rest, j', he, hw, hsplit, hnc, hfull, hjl, hrest⟩ := journalWrite_spec j tss recs iw hj hne
    have hpos : 0 < w.length := List.length_pos_iff.mpr hw
    -- the hull: the peek has no effect
    have hiw : (w.map (·.ts)).foldl IW.see iw = (w.map (·.ts)).foldl IW.see iw0 := by
      cases w with
      | nil => exact absurd rfl hw
      | cons r w' =>
        have := hpeek r (w' ++ rest) (by simp [hsplit])
        simp only [List.map_cons, List.foldl_cons, this]
    rw [hiw] at he
    obtain ⟨o', ho', hloop⟩ := loop_round fuel j recs iw o _ _ _ _ _ he hpos
    have hps := fun cidx => pieceStep_round cidx tss iw0 nc (w.map (·.ts))
    have hcall : ∃ call, o'.calls = o.calls ++ [call] ∧ ∀ (cidx : CIndex.St) (b : List Nat),
        (F (cidx, b) call).1 = (pieceStep (⟨cidx, tss⟩, iw0) ⟨nc, w.map (·.ts)⟩).1.cidx :=
      ⟨_, ho', fun cidx b => by rw [hps]; simp only [F, List.length_map, Nat.add_sub_cancel]⟩
    clear ho'
    obtain ⟨call, ho', hF⟩ := hcall
    have hwl : (w.map (·.ts)) ≠ [] := by simpa using hw
    cases rest with
    | nil =>
      refine ⟨[⟨nc, w.map (·.ts)⟩], [call], ⟨hwl, hnc, by simp⟩, ?_, ?_, ?_, ?_⟩
      · intro hF' q hq
        simp at hq; subst hq; exact hfull hF'
      · simp [hsplit]
      · rw [hloop]; exact ho'
      · intro cidx b
        refine ⟨?_, ?_⟩
        · simp only [List.foldl_cons, List.foldl_nil]; exact hF cidx b
        · rw [hloop]; simp only [List.foldl_cons, List.foldl_nil, hps]; exact hjl
    | cons r rs =>
      have hlen' : (r :: rs).length < fuel := by
        have := congrArg List.length hsplit
        simp at this hlen ⊢; omega
      obtain ⟨pieces', extra', hok', hall', hflat', hcalls', hfold'⟩ :=
        ih (r :: rs) j' _ ((w.map (·.ts)).foldl IW.see iw0) (((w.map (·.ts)).foldl IW.see iw0).see r.ts) o' hjl
          (by simp) hlen' (by intro r' rs' h; cases h; exact see_see _ _)
      have hFull' := hrest (by simp)
      refine ⟨⟨nc, w.map (·.ts)⟩ :: pieces', call :: extra', ⟨hwl, hnc, ?_⟩, ?_, ?_, ?_, ?_⟩
      · intro q hq
        exact ⟨CallOKt_l hok' q hq, hall' hFull' q hq⟩
      · intro hF' q hq
        rcases List.mem_cons.mp hq with rfl | hq
        · exact hfull hF'
        · exact hall' hFull' q hq
      · simp [hsplit, hflat']
      · rw [hloop]; simp only [hcalls', ho', List.append_assoc, List.cons_append, List.nil_append]
      · intro cidx b
        rw [hloop]
        simp only [List.foldl_cons]
        have := hfold' (F (cidx, b) call).1 (F (cidx, b) call).2
        have e := hF cidx b
        rw [hps] at e ⊢
        dsimp only at e
        rw [← e]
        exact this

/-! ## nothing to write -/

theorem journalWrite_nil (j : J) (tss : List (List Int)) (iw : IW) (hj : JL j tss) (c : Chunk)
    (hl : j.chunks.getLast? = some c) (hsz : c.size < j.maxSize) : journalWrite j [] iw = (j, 0, (0, 0), [], iw) := by
  have hgo : journalWrite j [] iw = journalWrite.go [] iw 4 j none := rfl
  rw [hgo, go_succ]
  obtain ⟨pre, hpre⟩ := List.getLast?_eq_some_iff.mp hl
  have htne : tss ≠ [] := by
    intro h
    have := congrArg List.length hj.ids
    simp [hpre, h] at this
  rw [tss_snoc tss htne] at hj
  have hsel : sel j none = (j, c) := by simp [sel, hl]
  have hcw : chunkWrite (([] : List Rec).length + 1) c j.maxSize [] iw 0 = (c, 0, [], iw, false) := by
    unfold chunkWrite
    have : ¬ c.size ≥ j.maxSize := by omega
    simp [this]
  have hm := map_repl (c' := c) hj hpre
  rw [hsel]
  unfold body
  simp only [hcw, hm, ← hpre]
  simp

theorem loop_nil (fuel : Nat) (j : J) (tss : List (List Int)) (iw : IW) (o : Out) (hj : JL j tss) (c : Chunk)
    (hl : j.chunks.getLast? = some c) (hsz : c.size < j.maxSize) :
    serviceWriteWith.loop (fuel + 1) j [] iw o = (j, o) := by
  simp only [serviceWriteWith.loop, journalWrite_nil j tss iw hj c hl hsz]
  simp

/-! ## the statement -/

/-- the write loop's journal `j` stands for the records `tss` (chunk k+1 ↔ tss[k]) -/
structure JInv (j : WriteLoop.J) (tss : List (List Int)) : Prop where
  len : j.chunks.length = tss.length
  ids : ∀ i (h : i < j.chunks.length), (j.chunks[i]).id = i + 1
  cnts : ∀ i (h1 : i < j.chunks.length) (h2 : i < tss.length), (j.chunks[i]).cnt = (tss[i]).length
  next : j.nextId = j.chunks.length + 1
  pos : 0 < j.maxSize

theorem JInv.toJL {j : J} {tss : List (List Int)} (h : JInv j tss) : JL j tss := by
  refine ⟨?_, ?_, ?_, h.pos⟩
  · apply List.ext_getElem
    · simp [h.len]
    · intro i h1 h2
      simp only [List.length_map] at h1
      simp [List.getElem_map, List.getElem_range', h.ids i h1]; omega
  · apply List.ext_getElem
    · simp [h.len]
    · intro i h1 h2
      simp only [List.length_map] at h1 h2
      simp [List.getElem_map, h.cnts i h1 h2]
  · rw [h.next, h.len]

theorem JL.toJInv {j : J} {tss : List (List Int)} (h : JL j tss) : JInv j tss := by
  have hlen : j.chunks.length = tss.length := by simpa using congrArg List.length h.ids
  refine ⟨hlen, ?_, ?_, ?_, h.pos⟩
  · intro i hi
    have := List.getElem_of_eq h.ids (i := i) (by simpa using hi)
    simp [List.getElem_map, List.getElem_range'] at this
    omega
  · intro i h1 h2
    have := List.getElem_of_eq h.cnts (i := i) (by simpa using h1)
    simpa [List.getElem_map] using this
  · rw [h.next, hlen]

theorem writeWith_fst (iw0 : IW) (j : J) (cidx : CIndex.St) (recs : List Rec) :
    (RangedIter.writeWith iw0 j cidx recs).1 = (serviceWriteWith iw0 j recs).1 := rfl

theorem writeWith_cidx (iw0 : IW) (j : J) (cidx : CIndex.St) (recs : List Rec) :
    (RangedIter.writeWith iw0 j cidx recs).2.1 = ((serviceWriteWith iw0 j recs).2.calls.foldl F (cidx, [])).1 := rfl

/-- **`Service.Write` is one `call` event of the history model**: the OnWrite notifications it sends are the pieces of a
call (`CallOKt`), every record is written, in order, and the chunk index / journal after the call are those of
`PipeHist.step`.

`hne`: with NO records and a last chunk that is absent or full, `Journal.Write` still creates a new (empty) chunk that
the history model does not have (`j = {chunks := [], nextId := 1, maxSize := 1}`, `tss = []`, `recs = []`: the journal
after the call has one chunk, `step` of the only possible call `[]` has none) — excluded. -/
theorem writeWith_is_call (j : WriteLoop.J) (cidx : CIndex.St) (tss : List (List Int)) (recs : List WriteLoop.Rec)
    (hj : JInv j tss)
    (hne : recs ≠ [] ∨ ∃ c, j.chunks.getLast? = some c ∧ c.size < j.maxSize) :
    ∃ pieces : List PartHist.Piece,
      PipeHist.CallOKt tss pieces ∧ (pieces.map (·.l)).flatten = recs.map (·.ts) ∧
      (RangedIter.writeWith {} j cidx recs).2.1 = (PipeHist.step ⟨cidx, tss⟩ (.call pieces)).cidx ∧
      JInv (RangedIter.writeWith {} j cidx recs).1 (PipeHist.step ⟨cidx, tss⟩ (.call pieces)).tss := by
  have hl := hj.toJL
  rw [writeWith_fst, writeWith_cidx]
  have hsw : serviceWriteWith {} j recs = serviceWriteWith.loop (recs.length + 2) j recs {} {} := rfl
  rw [hsw]
  by_cases hr : recs = []
  · subst hr
    rcases hne with h | ⟨c, hc, hsz⟩
    · exact absurd rfl h
    · refine ⟨[], trivial, rfl, ?_, ?_⟩
      · rw [loop_nil _ j tss _ _ hl c hc hsz]; rfl
      · rw [loop_nil _ j tss _ _ hl c hc hsz]; exact hj
  · obtain ⟨pieces, extra, hok, _, hflat, hcalls, hfold⟩ :=
      loop_spec (recs.length + 2) recs j tss {} {} {} hl hr (by omega) (fun _ _ _ => rfl)
    refine ⟨pieces, hok, hflat, ?_, ?_⟩
    · rw [hcalls]
      exact (hfold cidx []).1
    · exact (hfold cidx []).2.toJInv

/-- the form for a non-empty batch -/
theorem writeWith_is_call_of_ne (j : WriteLoop.J) (cidx : CIndex.St) (tss : List (List Int)) (recs : List WriteLoop.Rec)
    (hj : JInv j tss) (hne : recs ≠ []) :
    ∃ pieces : List PartHist.Piece,
      PipeHist.CallOKt tss pieces ∧ (pieces.map (·.l)).flatten = recs.map (·.ts) ∧
      (RangedIter.writeWith {} j cidx recs).2.1 = (PipeHist.step ⟨cidx, tss⟩ (.call pieces)).cidx ∧
      JInv (RangedIter.writeWith {} j cidx recs).1 (PipeHist.step ⟨cidx, tss⟩ (.call pieces)).tss :=
  writeWith_is_call j cidx tss recs hj (Or.inl hne)

/-- the hypothesis `hne` of `writeWith_is_call` cannot be dropped: an empty `Write` on an empty partition creates a chunk -/
theorem writeWith_is_call_needs_hne (cidx : CIndex.St) :
    JInv { chunks := [], nextId := 1, maxSize := 1 } [] ∧
    ¬ ∃ pieces : List PartHist.Piece,
      PipeHist.CallOKt [] pieces ∧ (pieces.map (·.l)).flatten = ([] : List WriteLoop.Rec).map (·.ts) ∧
      (RangedIter.writeWith {} { chunks := [], nextId := 1, maxSize := 1 } cidx []).2.1 =
        (PipeHist.step ⟨cidx, []⟩ (.call pieces)).cidx ∧
      JInv (RangedIter.writeWith {} { chunks := [], nextId := 1, maxSize := 1 } cidx []).1
        (PipeHist.step ⟨cidx, []⟩ (.call pieces)).tss := by
  refine ⟨⟨rfl, fun i h => absurd h (by simp), fun i h => absurd h (by simp), rfl, by decide⟩, ?_⟩
  rintro ⟨pieces, hok, hflat, _, hinv⟩
  cases pieces with
  | nil =>
    have := hinv.len
    rw [writeWith_fst] at this
    have h2 : (PipeHist.step ⟨cidx, []⟩ (.call [])).tss.length = 0 := rfl
    rw [h2] at this
    exact absurd this (by decide)
  | cons pc rest =>
    have h1 := hok.1
    simp at hflat
    exact h1 hflat.1

end Logrange.PipeWrite
