import Logrange.Proofs.PipeHist
/-!
# C02 — `partition.Service.Write` (the write loop model) is one `call` event of the history model

`writeWith_is_call`: for a journal that stands for the records `tss`, the `OnWrite` notifications of
`WriteLoop.serviceWriteWith` are the pieces of a `PipeHist` call (`CallOKt`), every record is written in order, and the
chunk index / journal after the call are those of `PipeHist.step`.
-/
set_option linter.unusedSimpArgs false
set_option linter.unusedVariables false
namespace Logrange.PipeWrite
open Logrange Logrange.WriteLoop Logrange.PartHist Logrange.PipeHist

/-! ## `iwrapper.Get`: peeking twice at the same record is peeking once -/

theorem see_see (w : IW) (t : Int) : (w.see t).see t = w.see t := by
  cases w with
  | mk mn mx seen sMin sMax =>
    simp only [IW.see]
    cases sMin <;> cases sMax <;> cases seen <;> simp <;> (try constructor) <;> intros <;> (try split) <;> (try split) <;> omega

/-- the next round's `chunkWrite` sees the peeked record again: no effect -/
theorem fold_peek (iw iw0 : IW) (t : Int) (l : List Int) (h : iw.see t = iw0.see t) :
    (t :: l).foldl IW.see iw = (t :: l).foldl IW.see iw0 := by
  simp only [List.foldl_cons, h]

/-! ## `Chunk.Write` -/

theorem chunkWrite_spec : ∀ (fuel : Nat) (c : Chunk) (maxSize : Nat) (recs : List Rec) (iw : IW) (n : Nat),
    recs.length < fuel →
    ∃ (w rest : List Rec) (c' : Chunk) (full : Bool),
      chunkWrite fuel c maxSize recs iw n = (c', n + w.length, rest, (w.map (·.ts)).foldl IW.see iw, full) ∧
      recs = w ++ rest ∧ c'.id = c.id ∧ c'.cnt = c.cnt + w.length ∧
      (rest ≠ [] → maxSize ≤ c'.size) ∧
      (c.size < maxSize → recs ≠ [] → w ≠ []) ∧
      (maxSize ≤ c.size → w = [] ∧ full = true ∧ c' = c) ∧
      (recs = [] → c.size < maxSize → full = false ∧ c' = c) := by
  intro fuel
  induction fuel with
  | zero => intro c maxSize recs iw n h; omega
  | succ fuel ih =>
    intro c maxSize recs iw n hlen
    unfold chunkWrite
    by_cases hfull : maxSize ≤ c.size
    · refine ⟨[], recs, c, true, ?_, ?_⟩
      · simp [hfull]
      · simp [hfull]; intro h; omega
    · cases recs with
      | nil =>
        refine ⟨[], [], c, false, ?_, ?_⟩
        · simp [hfull]
        · simp [hfull]
      | cons r rs =>
        have hl : rs.length < fuel := by simp at hlen; omega
        obtain ⟨w, rest, c', full, he, hsplit, hid, hcnt, hrest, hne, hf, hnil⟩ :=
          ih { c with cnt := c.cnt + 1, size := c.size + 4 + r.len } maxSize rs (iw.see r.ts) (n + 1) hl
        refine ⟨r :: w, rest, c', full, ?_, ?_, ?_, ?_, hrest, ?_, ?_, ?_⟩
        · simp only [ge_iff_le, hfull, if_false]
          rw [he]
          simp [Nat.add_assoc, Nat.add_comm 1]
        · simp [hsplit]
        · simp [hid]
        · simp [hcnt]; omega
        · intro _ _; simp
        · intro h; omega
        · intro h; simp at h

/-! ## `Journal.Write` -/

/-- `GetChunkForWrite` -/
def sel (j : J) (exclude : Option Nat) : J × Chunk :=
  match j.chunks.getLast? with
  | some c => if some c.id == exclude then
      ({ j with chunks := j.chunks ++ [{ id := j.nextId }], nextId := j.nextId + 1 }, { id := j.nextId })
    else (j, c)
  | none => ({ j with chunks := [{ id := j.nextId }], nextId := j.nextId + 1 }, { id := j.nextId })

/-- the rest of one round of `journalWrite.go` -/
def body (recs : List Rec) (iw : IW) (k : J → Option Nat → J × Nat × (Nat × Nat) × List Rec × IW) (j : J) (c : Chunk) :
    J × Nat × (Nat × Nat) × List Rec × IW :=
  let r := chunkWrite (recs.length + 1) c j.maxSize recs iw 0
  let j' : J := { j with chunks := j.chunks.map (fun x => if x.id == c.id then r.1 else x) }
  if r.2.1 > 0 then (j', r.2.1, (c.id, r.1.cnt), r.2.2.1, r.2.2.2.1)
  else if r.2.2.2.2 then k j' (some c.id)
  else (j', 0, (0, 0), r.2.2.1, r.2.2.2.1)

theorem go_succ (recs : List Rec) (iw : IW) (fuel : Nat) (j : J) (ex : Option Nat) :
    journalWrite.go recs iw (fuel + 1) j ex = body recs iw (journalWrite.go recs iw fuel) (sel j ex).1 (sel j ex).2 := by
  rfl

/-- list form of `JInv` -/
structure JL (j : J) (tss : List (List Int)) : Prop where
  ids : j.chunks.map (·.id) = List.range' 1 tss.length
  cnts : j.chunks.map (·.cnt) = tss.map List.length
  next : j.nextId = tss.length + 1
  pos : 0 < j.maxSize

/-- the partition's last chunk (if any) is full: the next `Journal.Write` opens a new chunk -/
def Full (j : J) : Prop := ∀ c, j.chunks.getLast? = some c → j.maxSize ≤ c.size

theorem tss_snoc (tss : List (List Int)) (h : tss ≠ []) : tss = tss.dropLast ++ [tss.getLast?.getD []] := by
  rcases List.eq_nil_or_concat tss with h' | ⟨l, b, h'⟩
  · exact absurd h' h
  · subst h'; simp

theorem JL.push {j : J} {tss : List (List Int)} (hj : JL j tss) :
    JL { j with chunks := j.chunks ++ [{ id := j.nextId }], nextId := j.nextId + 1 } (tss ++ [[]]) := by
  refine ⟨?_, ?_, ?_, hj.pos⟩
  · simp [hj.ids, hj.next, List.range'_1_concat]; omega
  · simp [hj.cnts]
  · simp [hj.next]

theorem JL.last {j : J} {pre : List Chunk} {c : Chunk} {front : List (List Int)} {base : List Int}
    (hj : JL j (front ++ [base])) (hc : j.chunks = pre ++ [c]) :
    pre.map (·.id) = List.range' 1 front.length ∧ c.id = front.length + 1 ∧
      pre.map (·.cnt) = front.map List.length ∧ c.cnt = base.length := by
  have h1 := hj.ids
  have h2 := hj.cnts
  rw [hc] at h1 h2
  simp only [List.map_append, List.map_cons, List.map_nil, List.length_append, List.length_cons, List.length_nil,
    List.range'_1_concat] at h1 h2
  have a := List.append_inj' h1 rfl
  have b := List.append_inj' h2 rfl
  simp at a b
  refine ⟨a.1, ?_, b.1, b.2⟩
  omega

theorem map_repl {j : J} {pre : List Chunk} {c c' : Chunk} {front : List (List Int)} {base : List Int}
    (hj : JL j (front ++ [base])) (hc : j.chunks = pre ++ [c]) :
    j.chunks.map (fun x => if x.id == c.id then c' else x) = pre ++ [c'] := by
  obtain ⟨h1, h2, _, _⟩ := hj.last hc
  rw [hc]
  simp only [List.map_append, List.map_cons, List.map_nil, beq_self_eq_true, if_true]
  congr 1
  conv => rhs; rw [← List.map_id pre]
  apply List.map_congr_left
  intro x hx
  have : x.id ∈ pre.map (·.id) := List.mem_map_of_mem hx
  rw [h1, List.mem_range'_1] at this
  have hne : (x.id == c.id) = false := by simp; omega
  simp [hne]

theorem body_write (recs : List Rec) (iw : IW) (k : J → Option Nat → J × Nat × (Nat × Nat) × List Rec × IW)
    (j : J) (pre : List Chunk) (c : Chunk) (front : List (List Int)) (base : List Int)
    (hc : j.chunks = pre ++ [c]) (hj : JL j (front ++ [base])) (hsz : c.size < j.maxSize) (hne : recs ≠ []) :
    ∃ (w rest : List Rec) (j' : J),
      body recs iw k j c = (j', w.length, (front.length + 1, base.length + w.length), rest,
        (w.map (·.ts)).foldl IW.see iw) ∧
      w ≠ [] ∧ recs = w ++ rest ∧ JL j' (front ++ [base ++ w.map (·.ts)]) ∧ (rest ≠ [] → Full j') := by
  obtain ⟨w, rest, c', full, he, hsplit, hid, hcnt, hrest, hw, _, _⟩ :=
    chunkWrite_spec (recs.length + 1) c j.maxSize recs iw 0 (Nat.lt_succ_self _)
  have hw' := hw hsz hne
  have hpos : 0 < w.length := List.length_pos_iff.mpr hw'
  obtain ⟨h1, h2, h3, h4⟩ := hj.last hc
  refine ⟨w, rest, { j with chunks := pre ++ [c'] }, ?_, hw', hsplit, ?_, ?_⟩
  · unfold body
    have hm := map_repl (c' := c') hj hc
    simp only [he, hm, Nat.zero_add, gt_iff_lt, hpos, if_true, hcnt, h4]
    rw [h2]
  · refine ⟨?_, ?_, ?_, hj.pos⟩
    · simp [h1, hid, h2, List.range'_1_concat]; omega
    · simp [h3, hcnt, h4]
    · simp [hj.next]
  · intro hr c2 hc2
    simp at hc2
    subst hc2
    exact hrest hr

end Logrange.PipeWrite
