import Logrange.Proofs.FieldsKV
import Logrange.Proofs.Fields
import Logrange.Proofs.WireFields
/-!
# Bridges from C13's models to the KV model of C08 and the field model of C05 (read-only imports)

C08's `KV` / `FieldsKV` models are total functions by structural recursion over the input list: they have no index
arithmetic at all, so "never panics" holds by construction and "never reads outside the input" can only mean that what they
return is made of the input's bytes, in place: `trimSpaces_infix`, `removeCurlyBraces_infix`. That the *code* (which does use
indices: `str[idx]`, `endIdx`, `str[i:j+1]`) behaves like these models — including on inputs where an index bug would
panic — is the correspondence C08's harness checks and C13's `robust` section repeats under `recover`.
-/
namespace Logrange.C13KV
open Go Logrange

theorem trimSpaces_infix (s : Bytes) : KV.trimSpaces s <:+: s := by
  unfold KV.trimSpaces
  have h1 : s.dropWhile (· == KV.SP) <:+ s := List.dropWhile_suffix _
  have h2 : ((s.dropWhile (· == KV.SP)).reverse.dropWhile (· == KV.SP)) <:+ (s.dropWhile (· == KV.SP)).reverse :=
    List.dropWhile_suffix _
  have h3 : ((s.dropWhile (· == KV.SP)).reverse.dropWhile (· == KV.SP)).reverse <+: s.dropWhile (· == KV.SP) := by
    have := List.reverse_prefix.mpr h2
    simpa using this
  exact List.IsInfix.trans h3.isInfix h1.isInfix

theorem leadScan_suffix : ∀ (s : Bytes) (n : Nat), (KV.leadScan s n).1 <:+ s
  | [], _ => by simp [KV.leadScan]
  | c :: r, n => by
    unfold KV.leadScan
    split
    · exact (leadScan_suffix r n).trans (List.suffix_cons c r)
    · split
      · exact (leadScan_suffix r (n + 1)).trans (List.suffix_cons c r)
      · exact List.suffix_refl _

theorem trailScan_suffix : ∀ (s : Bytes) (n : Int), (KV.trailScan s n).1 <:+ s
  | [], _ => by simp [KV.trailScan]
  | c :: r, n => by
    unfold KV.trailScan
    split
    · split
      · exact (trailScan_suffix r n).trans (List.suffix_cons c r)
      · split
        · exact (trailScan_suffix r (n - 1)).trans (List.suffix_cons c r)
        · exact List.suffix_refl _
    · exact List.suffix_refl _

/-- what `RemoveCurlyBraces` returns is a contiguous piece of its argument -/
theorem removeCurlyBraces_infix (s t : Bytes) (h : KV.removeCurlyBraces s = some t) : t <:+: s := by
  unfold KV.removeCurlyBraces at h
  have hl := leadScan_suffix s 0
  split at h
  · rename_i cnt heq
    split at h
    · cases h
    · cases h; exact List.nil_infix
  · rename_i c tl cnt0 heq
    rw [heq] at hl
    simp only [] at hl
    have ht := trailScan_suffix tl.reverse (cnt0 : Int)
    split at h
    rename_i rem cnt hts
    rw [hts] at ht
    simp only [] at ht
    split at h
    · cases h
    · cases h
      have hp : rem.reverse <+: tl := by
        have := List.reverse_prefix.mpr ht
        simpa using this
      have hp2 : (c :: rem.reverse) <+: (c :: tl) := by
        obtain ⟨u, hu⟩ := hp
        exact ⟨u, by simp [← hu]⟩
      exact List.IsInfix.trans hp2.isInfix hl.isInfix

/-! ## field lists: C08's builder and C05's reader agree with C13's well-formedness -/

theorem encodeItems_eq (items : List Bytes) : FieldsKV.encodeItems items = WireFields.encodeItems items := by
  induction items with
  | nil => rfl
  | cons v r ih =>
    unfold FieldsKV.encodeItems at ih ⊢
    simp only [List.flatMap_cons, ih, FieldsKV.encPiece, WireFields.encodeItems]
    rfl

/-- `NewFieldsFromKVString` as modelled by C08 (the real split / trim / unquote) only yields well-formed lists -/
theorem fromKV_WF (hB : Generated.C08.fieldLimitBeforeUnquote = true) (hA : Generated.C08.fieldLimitAfterUnquote = true)
    (hM : Generated.C08.fieldMaxLen ≤ 255) (t f : Bytes) (h : FieldsKV.fromKV t = some f) : WireFields.WF f := by
  unfold FieldsKV.fromKV at h
  cases hi : FieldsKV.fromKVItems t with
  | none => simp [hi] at h
  | some items =>
    simp [hi] at h
    subst h
    refine ⟨items, ?_, Proofs.FieldsKV.fromKVItems_even t items hi, encodeItems_eq items⟩
    intro v hv
    have := Proofs.FieldsKV.fromKVItems_items_le hB hA t items hi v hv
    unfold FieldsKV.maxLen at this
    omega

/-- a list that is well-formed in C13's sense is well-formed in C05's sense (pairs of name and value) -/
theorem decode_encode : ∀ (its : List Bytes) (fuel : Nat), (∀ v ∈ its, v.length ≤ 255) → its.length % 2 = 0 →
    (WireFields.encodeItems its).length < fuel → ∃ ps, Fields.decode fuel (WireFields.encodeItems its) = some ps
  | [], fuel, _, _, hf => by
    cases fuel with
    | zero => simp [WireFields.encodeItems] at hf
    | succ n => exact ⟨[], rfl⟩
  | [_], _, _, hp, _ => by simp at hp
  | k :: v :: r, fuel, hv, hp, hf => by
    cases fuel with
    | zero => omega
    | succ n =>
      have hk : k.length ≤ 255 := hv k (by simp)
      have hvl : v.length ≤ 255 := hv v (by simp)
      have hr : ∀ x ∈ r, x.length ≤ 255 := fun x hx => hv x (by simp [hx])
      have hpr : r.length % 2 = 0 := by simp only [List.length_cons] at hp; omega
      have hlen : (WireFields.encodeItems (k :: v :: r)).length =
          2 + k.length + v.length + (WireFields.encodeItems r).length := by
        simp [WireFields.encodeItems]; omega
      rw [hlen] at hf
      obtain ⟨ps, hps⟩ := decode_encode r n hr hpr (by omega)
      refine ⟨(k, v) :: ps, ?_⟩
      simp only [WireFields.encodeItems, Fields.decode]
      rw [WireFields.lenByte k hk]
      have h1 : ¬ (k ++ UInt8.ofNat v.length :: (v ++ WireFields.encodeItems r)).length < k.length := by simp
      simp only [h1, if_false]
      have hd : (k ++ UInt8.ofNat v.length :: (v ++ WireFields.encodeItems r)).drop k.length =
          UInt8.ofNat v.length :: (v ++ WireFields.encodeItems r) := by simp
      rw [hd]
      simp only []
      rw [WireFields.lenByte v hvl]
      have h2 : ¬ (v ++ WireFields.encodeItems r).length < v.length := by simp
      simp only [h2, if_false]
      have hd2 : (v ++ WireFields.encodeItems r).drop v.length = WireFields.encodeItems r := by simp
      rw [hd2, hps]
      simp

theorem WF_bridge (f : Bytes) (h : WireFields.WF f) : Fields.WF f := by
  obtain ⟨its, h1, h2, rfl⟩ := h
  unfold Fields.WF Fields.pairs?
  exact decode_encode its _ h1 h2 (by omega)

end Logrange.C13KV
