import Logrange.Proofs.PipeRep
import Logrange.Proofs.PipeSpec
/-!
# The pipe specification from a clean schedule, for the repaired LTS (C10)

`spec_of_clean` (`Proofs/PipeSpec.lean`) transferred to `stepR` / `runR` (`Model/PipeLtsRep.lean`), with the SAME ghost monitor
(`Mon`, `monStep`), for every combination of the three repairs (`RCfg`). The invariants of the plain LTS (`AllInv`) are carried
along `runMR` together with `QInv`: a stopped service has no queued and no unpublished notification.
-/
namespace Logrange.PipeLts

/-- the repaired LTS and the monitor side by side -/
def runMR (cfg : Cfg) (rc : RCfg) : State × Mon → List Label → State × Mon
  | x, [] => x
  | x, l :: ls => match stepR cfg rc x.1 l with
    | some st' => runMR cfg rc (st', monStep x.1 l x.2) ls
    | none => runMR cfg rc x ls

theorem runMR_fst (cfg : Cfg) (rc : RCfg) (x : State × Mon) (ls : List Label) :
    (runMR cfg rc x ls).1 = runR cfg rc x.1 ls := by
  induction ls generalizing x with
  | nil => rfl
  | cons l ls ih =>
    simp only [runMR, runR]
    cases stepR cfg rc x.1 l with
    | none => exact ih x
    | some st' => exact ih _

/-! ### a stopped service has nothing in flight -/

def QInv (st : State) : Prop := st.down = true → st.chan = [] ∧ st.pend = []

theorem qinv_init (n : Nat) (l : Nat → Bool) (p : Nat → Bytes) (f : Ev → Bool) (o : Bool) : QInv (init n l p f o) := by
  intro _; exact ⟨rfl, rfl⟩

theorem qinv_frame (st st' : State) (h : QInv st) (e1 : st'.chan = st.chan) (e2 : st'.pend = st.pend)
    (e3 : st'.down = st.down) : QInv st' := by
  unfold QInv at *; rw [e1, e2, e3]; exact h

/-- labels that a stopped service does not execute, and that do not stop it -/
theorem step_up (cfg : Cfg) (st st' : State) (l : Label) (hs : step cfg st l = some st')
    (hl : (match l with | .write _ _ => true | .enqueue _ => true | .notify => true | .create => true
                        | .delete => true | .shutdown => true | _ => false) = true) :
    st'.down = false := by
  cases l with
  | write s b =>
    simp only [step] at hs
    split at hs
    · cases hs
    · rename_i hg
      simp only [Bool.or_eq_true, not_or, Bool.not_eq_true] at hg
      simp only [Option.some.injEq] at hs; subst hs; exact hg.1
  | enqueue i =>
    simp only [step] at hs
    split at hs
    · cases hs
    · split at hs
      · cases hs
      · rename_i hg
        simp only [Bool.or_eq_true, not_or, Bool.not_eq_true] at hg
        simp only [Option.some.injEq] at hs; subst hs; exact hg.1
  | notify =>
    simp only [step] at hs
    split at hs
    · cases hs
    · rename_i hg
      simp only [Bool.or_eq_true, not_or, Bool.not_eq_true] at hg
      split at hs
      · cases hs
      · split at hs <;> (simp only [Option.some.injEq] at hs; subst hs; exact hg.1)
  | create =>
    simp only [step] at hs
    split at hs
    · cases hs
    · rename_i hg
      simp only [Bool.or_eq_true, not_or, Bool.not_eq_true] at hg
      simp only [Option.some.injEq] at hs; subst hs; exact hg.1
  | delete =>
    simp only [step] at hs
    split at hs
    · cases hs
    · rename_i hg
      simp only [Bool.or_eq_true, not_or, Bool.not_eq_true] at hg
      simp only [Option.some.injEq] at hs; subst hs; exact hg.1
  | shutdown =>
    simp only [step] at hs
    split at hs
    · cases hs
    · rename_i hg
      simp only [Bool.or_eq_true, not_or, Bool.not_eq_true] at hg
      simp only [Option.some.injEq] at hs; subst hs; exact hg.1
  | _ => cases hl

/-- the worker steps do not start or stop the service -/
theorem step_worker_down (cfg : Cfg) (st st' : State) (l : Label) (hs : step cfg st l = some st')
    (hl : (match l with | .wopen _ => true | .wcopy _ _ => true | .wsave _ => true | .wtimeout _ => true
                        | .wdone _ => true | _ => false) = true) :
    st'.down = st.down := by
  cases l <;> first
    | (cases hl; done)
    | (simp only [step] at hs
       repeat' (split at hs)
       all_goals first
         | (simp only [Option.some.injEq] at hs; subst hs; rfl)
         | cases hs)

theorem restart_up (cfg : Cfg) (st st' : State) (hs : step cfg st .restart = some st') :
    st.down = true ∧ st'.down = false ∧ st'.closed = false := by
  simp only [step] at hs
  split at hs
  · rename_i hdn
    simp only [Option.some.injEq] at hs; subst hs; exact ⟨hdn, rfl, rfl⟩
  · cases hs

theorem qinv_up (st : State) (h : st.down = false) : QInv st := by
  intro hd; rw [h] at hd; cases hd

theorem step_qinv (cfg : Cfg) (st st' : State) (l : Label) (hq : QInv st) (hs : step cfg st l = some st') : QInv st' := by
  cases l with
  | write s b => exact qinv_up _ (step_up cfg st st' _ hs rfl)
  | enqueue i => exact qinv_up _ (step_up cfg st st' _ hs rfl)
  | notify => exact qinv_up _ (step_up cfg st st' _ hs rfl)
  | create => exact qinv_up _ (step_up cfg st st' _ hs rfl)
  | delete => exact qinv_up _ (step_up cfg st st' _ hs rfl)
  | shutdown => exact qinv_up _ (step_up cfg st st' _ hs rfl)
  | restart => exact qinv_up _ (restart_up cfg st st' hs).2.1
  | halt =>
    simp only [step] at hs
    split at hs
    · simp only [Option.some.injEq] at hs; subst hs
      intro _; exact ⟨rfl, rfl⟩
    · cases hs
  | wopen s =>
    obtain ⟨e1, e2⟩ := step_chan_pend cfg st st' _ hs rfl
    exact qinv_frame st st' hq e1 e2 (step_worker_down cfg st st' _ hs rfl)
  | wcopy s k =>
    obtain ⟨e1, e2⟩ := step_chan_pend cfg st st' _ hs rfl
    exact qinv_frame st st' hq e1 e2 (step_worker_down cfg st st' _ hs rfl)
  | wsave s =>
    obtain ⟨e1, e2⟩ := step_chan_pend cfg st st' _ hs rfl
    exact qinv_frame st st' hq e1 e2 (step_worker_down cfg st st' _ hs rfl)
  | wtimeout s =>
    obtain ⟨e1, e2⟩ := step_chan_pend cfg st st' _ hs rfl
    exact qinv_frame st st' hq e1 e2 (step_worker_down cfg st st' _ hs rfl)
  | wdone s =>
    obtain ⟨e1, e2⟩ := step_chan_pend cfg st st' _ hs rfl
    exact qinv_frame st st' hq e1 e2 (step_worker_down cfg st st' _ hs rfl)

/-! ### `resaveAll` (repair F79 b) keeps the invariants -/

theorem ns_resaveAll (cfg : Cfg) (st : State) (h : NS cfg st) : NS cfg (resaveAll st) := by
  intro s d hd; exact h s d hd

theorem pinv_resaveAll (st : State) (h : PInv st) : PInv (resaveAll st) :=
  pinv_frame st _ h rfl rfl (fun hp => (h.2 hp).1) (fun hp => (h.2 hp).2)

theorem minv_resaveAll (st : State) (m : Mon) (h : MInv st m) : MInv (resaveAll st) m := by
  intro s hc hl hls
  obtain ⟨a0, a1, a2, a3, _⟩ := h s hc hl hls
  exact ⟨a0, a1, a2, a3, fun sv hsv => (a3 sv hsv).lk⟩

theorem qinv_resaveAll (st : State) (h : QInv st) : QInv (resaveAll st) := qinv_frame st _ h rfl rfl rfl

/-! ### `catchUp` (repair F79 a) keeps the invariants -/

/-- `Service.Init` → `ppipe.catchUp` on every source -/
def catchUpAll (st : State) : State := { st with srcs := fun s => catchUpSrc (st.srcs s) }

theorem catchUpSrc_none (σ : SrcSt) (h : σ.desc = none) : catchUpSrc σ = σ := by
  unfold catchUpSrc; simp [h]

theorem catchUpSrc_some (σ : SrcSt) (d : Desc) (h : σ.desc = some d) :
    catchUpSrc σ = startWorker false σ { d with lastKnown := max d.lastKnown σ.log.length } := by
  unfold catchUpSrc; simp [h]

theorem catchUpSrc_saved (σ : SrcSt) : (catchUpSrc σ).saved = σ.saved := by
  unfold catchUpSrc; split
  · rfl
  · unfold startWorker; split <;> rfl

theorem catchUpSrc_createdAt (σ : SrcSt) : (catchUpSrc σ).createdAt = σ.createdAt := by
  unfold catchUpSrc; split
  · rfl
  · unfold startWorker; split <;> rfl

theorem catchUpSrc_listens (σ : SrcSt) : (catchUpSrc σ).listens = σ.listens := by
  unfold catchUpSrc; split
  · rfl
  · unfold startWorker; split <;> rfl

/-- every descriptor `catchUp` leaves behind went through `startWorker` with the service running -/
theorem ns_catchUpAll (cfg : Cfg) (st : State) : NS cfg (catchUpAll st) := by
  intro s d hd
  have hd' : (catchUpSrc (st.srcs s)).desc = some d := hd
  cases hdd : (st.srcs s).desc with
  | none => rw [catchUpSrc_none _ hdd, hdd] at hd'; cases hd'
  | some d0 =>
    rw [catchUpSrc_some _ _ hdd] at hd'
    rcases ns_startWorker false _ _ d hd' with h1 | h1
    · cases h1
    · exact Or.inr h1

theorem pinv_catchUpAll (st : State) (h : PInv st) : PInv (catchUpAll st) :=
  pinv_frame st _ h rfl rfl (fun hp => (h.2 hp).1) (fun hp s => catchUpSrc_desc_none _ ((h.2 hp).2 s))

theorem qinv_catchUpAll (st : State) (h : QInv st) : QInv (catchUpAll st) := qinv_frame st _ h rfl rfl rfl

/-- after a restart nothing is in flight: the end of the stored data IS the monitor's `nextExp`, so raising `LastKnwnPos`
to it keeps the source clean -/
theorem minv_catchUpAll (st : State) (m : Mon) (h : MInv st m) (hdn : st.down = false) (hch : st.chan = [])
    (hpe : st.pend = []) : MInv (catchUpAll st) m := by
  intro s hc hl hls
  have hls' : (catchUpSrc (st.srcs s)).listens = true := hls
  rw [catchUpSrc_listens] at hls'
  obtain ⟨a0, a1, a2, a3, a4⟩ := h s hc hl hls'
  show VInv (catchUpSrc (st.srcs s)) (m.nextExp s) (wsum s (st.chan ++ st.pend)) st.down
  cases hd : (st.srcs s).desc with
  | none =>
    rw [catchUpSrc_none _ hd]
    exact ⟨a0, a1, a2, a3, a4⟩
  | some d =>
    rw [catchUpSrc_some _ _ hd]
    have hD := a3 d hd
    have hne : m.nextExp s = (st.srcs s).log.length := by
      have := a1
      rw [hch, hpe] at this
      simpa [wsum] using this
    have hlk := hD.lk
    refine vinv_startWorker _ _ _ _ _ _ a0 a1 ?_ a4
    refine ⟨hD.start, ?_, Or.inl ?_, hD.stale, ?_⟩
    · show max d.lastKnown (st.srcs s).log.length ≤ m.nextExp s
      omega
    · show max d.lastKnown (st.srcs s).log.length = m.nextExp s
      omega
    · intro hx; rw [hdn] at hx; cases hx

/-! ### one step of the repaired LTS, monitor alongside -/

theorem stepR_allinv (cfg : Cfg) (rc : RCfg) (hC : cfg.saveOnCreate = true) (hD : cfg.saveOnDelete = true)
    (hre : cfg.rearm = true) (st st' : State) (l : Label) (m : Mon) (h : AllInv cfg st m) (hq : QInv st)
    (hs : stepR cfg rc st l = some st') : AllInv cfg st' (monStep st l m) ∧ QInv st' := by
  have plain : ∀ l' s', step cfg st l' = some s' → AllInv cfg s' (monStep st l' m) ∧ QInv s' := by
    intro l' s' hs'
    exact ⟨⟨step_ginv cfg _ _ l' h.g hs', step_ns cfg hre _ _ l' h.g h.ns hs', step_pinv cfg hC hD _ _ l' h.g h.p hs',
      step_minv cfg _ _ l' _ h.g h.p h.v hs'⟩, step_qinv cfg _ _ l' hq hs'⟩
  cases l with
  | write s b =>
    simp only [stepR] at hs
    split at hs
    · cases hs
    · exact plain _ _ hs
  | notify =>
    simp only [stepR] at hs
    cases hst : step cfg st .notify with
    | none => simp [hst] at hs
    | some s1 =>
      obtain ⟨⟨g1, n1, p1, v1⟩, q1⟩ := plain .notify s1 hst
      simp only [hst] at hs
      split at hs
      · simp only [Option.some.injEq] at hs; subst hs
        exact ⟨⟨ginv_resaveAll cfg s1 g1, ns_resaveAll cfg s1 n1, pinv_resaveAll s1 p1, minv_resaveAll s1 _ v1⟩,
          qinv_resaveAll s1 q1⟩
      · simp only [Option.some.injEq] at hs; subst hs
        exact ⟨⟨g1, n1, p1, v1⟩, q1⟩
  | restart =>
    simp only [stepR] at hs
    cases hst : step cfg st .restart with
    | none => simp [hst] at hs
    | some s1 =>
      obtain ⟨⟨g1, n1, p1, v1⟩, q1⟩ := plain .restart s1 hst
      obtain ⟨hdn0, hdn1, _⟩ := restart_up cfg st s1 hst
      obtain ⟨e1, e2⟩ := step_chan_pend cfg st s1 .restart hst rfl
      obtain ⟨c0, c1⟩ := hq hdn0
      simp only [hst] at hs
      split at hs
      · simp only [Option.some.injEq] at hs; subst hs
        exact ⟨⟨ginv_catchUp cfg s1 g1 hdn1, ns_catchUpAll cfg s1, pinv_catchUpAll s1 p1,
          minv_catchUpAll s1 _ v1 hdn1 (e1.trans c0) (e2.trans c1)⟩, qinv_catchUpAll s1 q1⟩
      · simp only [Option.some.injEq] at hs; subst hs
        exact ⟨⟨g1, n1, p1, v1⟩, q1⟩
  | enqueue i => exact plain (.enqueue i) st' hs
  | wopen s => exact plain (.wopen s) st' hs
  | wcopy s k => exact plain (.wcopy s k) st' hs
  | wsave s => exact plain (.wsave s) st' hs
  | wtimeout s => exact plain (.wtimeout s) st' hs
  | wdone s => exact plain (.wdone s) st' hs
  | create => exact plain .create st' hs
  | delete => exact plain .delete st' hs
  | shutdown => exact plain .shutdown st' hs
  | halt => exact plain .halt st' hs

theorem runMR_inv (cfg : Cfg) (rc : RCfg) (hC : cfg.saveOnCreate = true) (hD : cfg.saveOnDelete = true)
    (hre : cfg.rearm = true) (x : State × Mon) (ls : List Label) (h : AllInv cfg x.1 x.2) (hq : QInv x.1) :
    AllInv cfg (runMR cfg rc x ls).1 (runMR cfg rc x ls).2 ∧ QInv (runMR cfg rc x ls).1 := by
  induction ls generalizing x with
  | nil => exact ⟨h, hq⟩
  | cons l ls ih =>
    simp only [runMR]
    cases hs : stepR cfg rc x.1 l with
    | none => exact ih x h hq
    | some st' =>
      obtain ⟨h', hq'⟩ := stepR_allinv cfg rc hC hD hre x.1 st' l x.2 h hq hs
      exact ih (st', monStep x.1 l x.2) h' hq'

/-- **the specification from a clean schedule, repaired LTS**: whichever of the three repairs are switched on, in a quiescent
state of a running service with the pipe alive, a listening source whose schedule was clean (same monitor as for the plain
LTS) has exactly the events written after the creation that pass the filter, once, in stored order, provenance appended — in
the pipe partition. -/
theorem spec_of_clean_rep (cfg : Cfg) (rc : RCfg) (hC : cfg.saveOnCreate = true) (hD : cfg.saveOnDelete = true)
    (hre : cfg.rearm = true) (hf : cfg.applyFilter = true)
    (n : Nat) (l : Nat → Bool) (p : Nat → Bytes) (f : Ev → Bool) (o : Bool) (ls : List Label) (s : Nat) :
    let r := runMR cfg rc (init n l p f o, mon0) ls
    quiescent r.1 = true → r.1.closed = false → r.1.down = false → r.1.pipe = .live → s < r.1.n →
    (r.1.srcs s).listens = true → r.2.clean s = true →
    proj s r.1.dest = specProj r.1 s := by
  intro r hq hcl hdn hl hsn hls hc
  obtain ⟨⟨hg, hns, _, hv⟩, _⟩ :=
    runMR_inv cfg rc hC hD hre (init n l p f o, mon0) ls (allinv_init cfg n l p f o) (qinv_init n l p f o)
  change GInv cfg r.1 at hg
  change NS cfg r.1 at hns
  change MInv r.1 r.2 at hv
  generalize r.1 = st at *
  generalize r.2 = m at *
  simp only [quiescent, Bool.and_eq_true, List.isEmpty_iff] at hq
  obtain ⟨⟨hpe, hch⟩, hidle⟩ := hq
  obtain ⟨a0, a1, a2, a3, a4⟩ := hv s hc hl hls
  rw [hch, hpe] at a1
  have a1' : m.nextExp s = (st.srcs s).log.length := by simpa [wsum] using a1
  have hwk : (st.srcs s).wk = .none := allIdle_spec st hidle s hsn
  unfold specProj
  simp only [hls, if_true]
  cases hd : (st.srcs s).desc with
  | none =>
    have hca := a2 hd
    have hP := ((hg.1 s).1 hd).1
    rw [hP]
    have : (st.srcs s).log.drop (st.srcs s).createdAt = [] := by
      apply List.drop_eq_nil_of_le; omega
    rw [this]; rfl
  | some d =>
    have hD' := a3 d hd
    obtain ⟨b1, b2, b3, b4, _, b6, _, _⟩ := (hg.1 s).2 d hd
    simp only [curOf, hwk] at b2 b3 b6
    have hchg : d.charged = false := b4.mpr hwk
    have hnostart : noStart cfg st = false := by simp [noStart, hcl, hl]
    have hpos : d.pos = (st.srcs s).log.length := by
      rcases hns s d hd with h1 | h1 | h1 | h1
      · rw [hnostart] at h1; cases h1
      · rw [hchg] at h1; cases h1
      · rcases hD'.dis with h2 | h2 <;> omega
      · rw [hD'.stale] at h1; cases h1
    rw [b6, hD'.start, hpos]
    simp only [sel, hf, if_true]
    have hsl : slice (st.srcs s).log (st.srcs s).createdAt (st.srcs s).log.length =
        (st.srcs s).log.drop (st.srcs s).createdAt := by
      unfold slice
      apply List.take_of_length_le; simp
    rw [hsl]

end Logrange.PipeLts
