import Logrange.Proofs.LqlEngineStmt
/-!
# C12: engine = direct parser for DESCRIBE and CREATE PIPE (structs Describe, Create, Pipe)

`engine_direct_describe`, `engine_direct_create`: on every token list whose first token matches the statement keyword,
`runEngine` on the regenerated grammar followed by `toLqlChecked` equals the direct statement parser.
-/
namespace Logrange.Lql
open Logrange.Generated.C12

/-! ## DESCRIBE -/
def describeBody : Node := .group (.disj [kwSeq kwPARTITION "Partition" (.ref .tags), kwSeq kwPIPE "Pipe" (.ref .ident)]) .once
theorem g_describe : grammar "Describe" = some describeBody := rfl

theorem lql_describe_eval (t : Tok) (r : List Tok) (g : Nat)
    (h1 : litMatch t kwSELECT = false) (h2 : litMatch t kwDESCRIBE = true) :
    parse ⟨t :: r, grammar⟩ (g + 30) (.strct "Lql") 0 = altRes "Lql" "Describe" 0 (parse ⟨t :: r, grammar⟩ (g+19) (.strct "Describe") 1) := by
  have hn : (⟨t :: r, grammar⟩ : Ctx).toks[0]? = some t := rfl
  rw [parse_strct _ _ "Lql" lqlBody 0 rfl]
  simp only [lqlBody, parse_once, parse_disj]
  rw [disj_skip _ 0 t hn _ _ _ _ (g+23) _ h1]
  exact disj_hit _ 0 t hn _ _ _ _ (g+18) h2

theorem PARTITION_not_PIPE (tk : Tok) (h : litMatch tk kwPARTITION = true) : litMatch tk kwPIPE = false :=
  litMatch_excl tk _ _ (by decide) (by decide) h

theorem engine_direct_describe (dp : Bytes → Option Int) (ft : Nat) (t : Tok) (r : List Tok)
    (h1 : litMatch t kwSELECT = false) (h2 : litMatch t kwDESCRIBE = true) :
    (runEngine grammar "Lql" (t :: r)).bind (toLqlChecked dp ft) = dDescribeRest r := by
  rw [run_lql]
  obtain ⟨g, hg⟩ : ∃ g, 60 * (t :: r).length + 200 = g + 30 := ⟨60 * (t :: r).length + 170, rfl⟩
  rw [hg, lql_describe_eval t r g h1 h2]
  rw [show g + 19 = (g + 18) + 1 from rfl, parse_strct _ _ "Describe" describeBody 1 rfl]
  simp only [describeBody, parse_once, parse_disj, parseDisj_cons, parseDisj_nil]
  cases r with
  | nil =>
    have hn : (⟨[t], grammar⟩ : Ctx).toks[1]? = none := rfl
    rw [show g + 15 = (g + 12) + 3 from rfl, kwSeq_none _ _ _ _ _ 1 hn, show g + 14 = (g + 11) + 3 from rfl, kwSeq_none _ _ _ _ _ 1 hn]
    simp [altRes, topRes, dDescribeRest, toLqlChecked, toLql, optNode, fv, fieldVals, postCheck, hasEmptyRange]
  | cons p r1 =>
    have hn : (⟨t :: p :: r1, grammar⟩ : Ctx).toks[1]? = some p := rfl
    cases hp : litMatch p kwPARTITION with
    | true =>
      have hpp := PARTITION_not_PIPE p hp
      rw [show g + 15 = (g + 10) + 5 from rfl, kwSeq_lit _ _ _ _ _ 1 p hn hp, show g + 14 = (g + 11) + 3 from rfl,
        kwSeq_nolit _ _ _ _ _ 1 p hn hpp, parse_ref]
      cases r1 with
      | nil => simp [altRes, topRes, dDescribeRest, peek, lookahead]
      | cons x r2 =>
        have hn2 : (⟨t :: p :: x :: r2, grammar⟩ : Ctx).toks[1+1]? = some x := rfl
        simp only [peek, hn2]
        by_cases hx : x.t = TT.tags
        · cases r2 with
          | nil =>
            cases htp : KV.tagParse x.v <;>
              simp [hx, altRes, topRes, dDescribeRest, hp, htp, toLqlChecked, toLql, optNode, optConv, optStr, fv, fieldVals, strs, postCheck, hasEmptyRange]
          | cons y r3 => simp [hx, altRes, topRes, dDescribeRest, hp]
        · cases r2 with
          | nil => simp [hx, altRes, topRes, dDescribeRest, hp, hpp, lookahead]
          | cons y r3 => simp [hx, altRes, topRes, dDescribeRest, hp, lookahead]
    | false =>
      rw [show g + 15 = (g + 12) + 3 from rfl, kwSeq_nolit _ _ _ _ _ 1 p hn hp]
      cases hpi : litMatch p kwPIPE with
      | false =>
        rw [show g + 14 = (g + 11) + 3 from rfl, kwSeq_nolit _ _ _ _ _ 1 p hn hpi]
        cases r1 with
        | nil => simp [altRes, topRes, dDescribeRest]
        | cons x r2 => cases r2 <;> simp [altRes, topRes, dDescribeRest, hp, hpi]
      | true =>
        rw [show g + 14 = (g + 9) + 5 from rfl, kwSeq_lit _ _ _ _ _ 1 p hn hpi, parse_ref]
        cases r1 with
        | nil => simp [altRes, topRes, dDescribeRest, peek, lookahead]
        | cons x r2 =>
          have hn2 : (⟨t :: p :: x :: r2, grammar⟩ : Ctx).toks[1+1]? = some x := rfl
          simp only [peek, hn2]
          by_cases hx : x.t = TT.ident
          · cases r2 with
            | nil => simp [hx, altRes, topRes, dDescribeRest, hp, hpi, toLqlChecked, toLql, optNode, optConv, optStr, fv, fieldVals, strs, postCheck, hasEmptyRange]
            | cons y r3 => simp [hx, altRes, topRes, dDescribeRest, hp]
          · cases r2 with
            | nil => simp [hx, altRes, topRes, dDescribeRest, hp, hpi, lookahead]
            | cons y r3 => simp [hx, altRes, topRes, dDescribeRest, hp, lookahead]


/-! ## CREATE PIPE -/
def createBody : Node := optG (.capture "Pipe" (.strct "Pipe"))
theorem g_create : grammar "Create" = some createBody := rfl
def pipeBody : Node := .seq [(.lit kwPIPE), (.capture "Name" (.ref .ident)), optG (kwSeq kwFROM "From" (.strct "Source")),
  optG (kwSeq kwWHERE "Where" (.strct "Expression"))]
theorem g_pipe : grammar "Pipe" = some pipeBody := rfl

theorem lql_create_eval (t : Tok) (r : List Tok) (g : Nat)
    (h1 : litMatch t kwSELECT = false) (h2 : litMatch t kwDESCRIBE = false) (h3 : litMatch t kwTRUNCATE = false)
    (h4 : litMatch t kwSHOW = false) (h5 : litMatch t kwCREATE = true) :
    parse ⟨t :: r, grammar⟩ (g + 30) (.strct "Lql") 0 = altRes "Lql" "Create" 0 (parse ⟨t :: r, grammar⟩ (g+16) (.strct "Create") 1) := by
  have hn : (⟨t :: r, grammar⟩ : Ctx).toks[0]? = some t := rfl
  rw [parse_strct _ _ "Lql" lqlBody 0 rfl]
  simp only [lqlBody, parse_once, parse_disj]
  rw [disj_skip _ 0 t hn _ _ _ _ (g+23) _ h1, disj_skip _ 0 t hn _ _ _ _ (g+22) _ h2, disj_skip _ 0 t hn _ _ _ _ (g+21) _ h3,
    disj_skip _ 0 t hn _ _ _ _ (g+20) _ h4]
  exact disj_hit _ 0 t hn _ _ _ _ (g+15) h5

/-- from the result of struct `Pipe` at cursor 1 to the result of struct `Create` -/
theorem create_of_pipe (c : Ctx) (hg : c.grammar = grammar) (f : Nat) :
    parse c (f+4) (.strct "Create") 1 =
      (match parse c f (.strct "Pipe") 1 with
       | .ok v cp cur' => .ok [.node "Create" (cp ++ [("Pipe", v)])] [] cur'
       | .noMatch => .ok [.node "Create" []] [] 1
       | .err k _ => if k > 1 + lookahead then .err k true else .ok [.node "Create" []] [] 1) := by
  rw [parse_strct c _ "Create" createBody 1 (by rw [hg]; rfl), createBody, parse_optG, parse_capture]
  cases parse c f (.strct "Pipe") 1 with
  | ok v cp cur' => simp
  | noMatch => simp
  | err k hv => by_cases hk : k > 1 + lookahead <;> simp [hk]


/-- the typed application of the captures of a `Pipe` value (the inner function of `toLql`) -/
def convPipe (ft : Nat) (p : Val) : Option Pipe := do
  let fr ← optSource ft p "From"
  let wh ← optExpr ft p "Where"
  pure ({ name := strs (fv p "Name"), from_ := fr, where_ := wh } : Pipe)

/-- the engine's result on struct `Pipe` does not lead to an accepted statement -/
def PipeRejected (c : Ctx) (ft : Nat) (r : Res) : Prop :=
  r = .noMatch ∨ (∃ k hv, r = .err k hv) ∨ (∃ v cp cur', r = .ok v cp cur' ∧ cur' < c.toks.length)
    ∨ (∃ v, r = .ok [v] [] c.toks.length ∧ convPipe ft v = none)

def SimPipe (c : Ctx) (ft : Nat) (r : Res) (d : Option Pipe) : Prop :=
  match d with
  | some p => ∃ v, r = .ok [v] [] c.toks.length ∧ convPipe ft v = some p
  | none => PipeRejected c ft r

theorem FROM_not_WHERE (tk : Tok) (h : litMatch tk kwFROM = true) : litMatch tk kwWHERE = false := litMatch_excl tk _ _ (by decide) (by decide) h
theorem AND_not_WHERE (tk : Tok) (h : litMatch tk kwAND = true) : litMatch tk kwWHERE = false := litMatch_excl tk _ _ (by decide) (by decide) h
theorem OR_not_WHERE (tk : Tok) (h : litMatch tk kwOR = true) : litMatch tk kwWHERE = false := litMatch_excl tk _ _ (by decide) (by decide) h

/-- the `("WHERE" @@)?` clause at the end of `Pipe`, from cursor `cur` with the captures so far -/
theorem pipe_where (c : Ctx) (hg : c.grammar = grammar) (hH : OperandNotParen c.toks) (ft : Nat) (hft : 8 * c.toks.length + 50 ≤ ft)
    (cur : Nat) (hcl : cur ≤ c.toks.length) (g fd : Nat) (hfe : 60 * c.toks.length + 100 ≤ g) (hfd : 4 * c.toks.length + 5 ≤ fd)
    (vals : List Val) (caps : Caps) (hv : vals ≠ []) (hw0 : fieldVals caps "Where" = []) :
    match dKwClause kwWHERE (dExpr fd) (c.toks.drop cur) with
    | some (wh, []) => ∃ vals' caps', parseSeq c (g+8) [optG (kwSeq kwWHERE "Where" (.strct "Expression"))] cur false vals caps
          = .ok vals' (caps ++ caps') c.toks.length ∧ optExpr ft (.node "Pipe" (caps ++ caps')) "Where" = some wh
          ∧ (∀ f, f ≠ "Where" → fieldVals (caps ++ caps') f = fieldVals caps f)
    | _ => (∃ k hv', parseSeq c (g+8) [optG (kwSeq kwWHERE "Where" (.strct "Expression"))] cur false vals caps = .err k hv')
        ∨ (∃ v cp cur', parseSeq c (g+8) [optG (kwSeq kwWHERE "Where" (.strct "Expression"))] cur false vals caps = .ok v cp cur' ∧ cur' < c.toks.length) := by
  have hve : vals.isEmpty = false := isEmpty_false_of_ne hv
  rw [parseSeq_cons]
  cases hn : c.toks[cur]? with
  | none =>
    have hlen : cur = c.toks.length := by have := hn; simp at this; omega
    rw [drop_of_none hn, show g + 7 = (g + 2) + 5 from rfl, clause_none c _ _ _ _ cur hn]
    simp only [dKwClause]
    refine ⟨vals, [], ?_, ?_, ?_⟩
    · simp [parseSeq_nil, hve, hlen]
    · simp [optExpr, fv, hw0]
    · intro f _; simp
  | some t =>
    have hlt := lt_of_get hn
    rw [drop_of_get hn]
    cases hc : litMatch t kwWHERE with
    | false =>
      rw [show g + 7 = (g + 2) + 5 from rfl, clause_nolit c _ _ _ _ cur t hn hc]
      simp only [dKwClause, hc, Bool.false_eq_true, if_false]
      right; exact ⟨vals, caps, cur, by simp [parseSeq_nil, hve], hlt⟩
    | true =>
      have he := simExpr c hg hH _ (cur+1) (Nat.le_refl _) (by omega) (g+1) fd (by omega) (by omega)
      rw [clause_lit c _ _ _ g cur t hn hc]
      simp only [dKwClause, hc, if_true]
      cases hd : dExpr fd (c.toks.drop (cur+1)) with
      | none =>
        rw [hd] at he
        simp only [SimExpr] at he
        rcases he with ⟨k, h, hk⟩ | ⟨v, cur', h, hlt', hst⟩
        · by_cases hgt : k > cur + lookahead
          · left; exact ⟨k, true, by simp [h, hgt]⟩
          · right; exact ⟨vals ++ [.str []], caps, cur, by simp [h, hgt, parseSeq_nil], hlt⟩
        · have hl' : cur' < c.toks.length := by rcases hst with ⟨q, hq, _⟩ | ⟨q, hq, _⟩ <;> exact lt_of_get hq
          right; exact ⟨vals ++ [.str t.v, .str []], caps ++ [("Where", [v])], cur', by simp [h, parseSeq_nil], hl'⟩
      | some res =>
        obtain ⟨e, rest⟩ := res
        have hcv := dExpr_cv hd
        rw [hd] at he
        obtain ⟨v, cur', h, hrel, hrest, h1, h2⟩ := he
        cases rest with
        | nil =>
          have hlen : cur' = c.toks.length := by
            have : (c.toks.drop cur').length = 0 := by rw [← hrest]; rfl
            simp at this; omega
          simp only []
          refine ⟨vals ++ [.str t.v, .str []], [("Where", [v])], ?_, ?_, ?_⟩
          · simp [h, parseSeq_nil, hlen]
          · have hf : cvExpr e ≤ ft := by
              simp only [List.length_drop, List.length_nil] at hcv; omega
            have hfv : fieldVals (caps ++ [("Where", [v])]) "Where" = [v] := by
              simp only [fieldVals, List.filter_append, List.flatMap_append] at hw0 ⊢
              simp [hw0]
            simp [optExpr, fv, hfv, convExpr e v ft hrel hf]
          · intro f hf; simp [fieldVals, Ne.symm hf]
        | cons q r2 =>
          have hl' : cur' < c.toks.length := by
            have : (c.toks.drop cur').length = (q :: r2).length := by rw [← hrest]
            simp at this; omega
          simp only []
          right; exact ⟨vals ++ [.str t.v, .str []], caps ++ [("Where", [v])], cur', by simp [h, parseSeq_nil], hl'⟩


theorem dSource_cvM {f : Nat} {toks r : List Tok} {s : Source} (h : dSource f toks = some (s, r)) :
    cvSource s + 8 * r.length ≤ 8 * toks.length + 8 := by
  cases toks with
  | nil => simp [dSource] at h
  | cons t r0 =>
    simp only [dSource] at h
    split at h
    · cases hp : KV.tagParse t.v with
      | none => simp [hp] at h
      | some m =>
        simp [hp] at h
        obtain ⟨rfl, rfl⟩ := h
        simp [cvSource]; omega
    · cases hd : dExpr f (t :: r0) with
      | none => simp [hd] at h
      | some res =>
        obtain ⟨e, r1⟩ := res
        simp [hd] at h
        obtain ⟨rfl, rfl⟩ := h
        simpa [cvSource] using dExpr_cv hd

/-- how a (rejected or accepted) result of the WHERE tail becomes the result of struct `Pipe` -/
theorem pipe_finish (c : Ctx) (ft : Nat) (r : Res) (name : Bytes) :
    ((∃ k hv', r = .err k hv') ∨ (∃ v cp cur', r = .ok v cp cur' ∧ cur' < c.toks.length)) →
    PipeRejected c ft (match r with
      | .ok _ caps cur' => .ok [.node "Pipe" caps] [] cur'
      | .noMatch => .noMatch
      | .err k _ => .err k true) := by
  intro h
  rcases h with ⟨k, hv', rfl⟩ | ⟨v, cp, cur', rfl, hl⟩
  · right; left; exact ⟨k, true, rfl⟩
  · right; right; left; exact ⟨_, _, cur', rfl, hl⟩


def pipeWrap (r : Res) : Res :=
  match r with
  | .ok _ caps cur' => .ok [.node "Pipe" caps] [] cur'
  | .noMatch => .noMatch
  | .err k _ => .err k true

theorem optSource_congr (ft : Nat) (n1 n2 : String) (c1 c2 : Caps) (f : String) (h : fieldVals c1 f = fieldVals c2 f) :
    optSource ft (.node n1 c1) f = optSource ft (.node n2 c2) f := by
  simp only [optSource, fv, h]

def pipeDirect (osrc : Option (Option Source)) (name : Bytes) (dk : Option (Option Expr × List Tok)) : Option Pipe :=
  match osrc with
  | some src => (match dk with
     | some (wh, []) => some { name := name, from_ := src, where_ := wh }
     | _ => none)
  | none => none

/-- everything after the FROM clause of `Pipe`: the WHERE clause, the end of the sequence, the conversion -/
theorem pipe_after (c : Ctx) (hg : c.grammar = grammar) (hH : OperandNotParen c.toks) (ft : Nat) (hft : 8 * c.toks.length + 50 ≤ ft)
    (cur : Nat) (hcl : cur ≤ c.toks.length) (g fd : Nat) (hfe : 60 * c.toks.length + 100 ≤ g) (hfd : 4 * c.toks.length + 5 ≤ fd)
    (vals : List Val) (caps : Caps) (hv : vals ≠ []) (hw0 : fieldVals caps "Where" = [])
    (name : Bytes) (hname : strs (fieldVals caps "Name") = name)
    (osrc : Option (Option Source)) (hsrc : optSource ft (.node "Pipe" caps) "From" = osrc) :
    SimPipe c ft (pipeWrap (parseSeq c (g+8) [optG (kwSeq kwWHERE "Where" (.strct "Expression"))] cur false vals caps))
      (pipeDirect osrc name (dKwClause kwWHERE (dExpr fd) (c.toks.drop cur))) := by
  subst hsrc
  have hw := pipe_where c hg hH ft hft cur hcl g fd hfe hfd vals caps hv hw0
  generalize parseSeq c (g+8) [optG (kwSeq kwWHERE "Where" (.strct "Expression"))] cur false vals caps = rr at hw ⊢
  have hrej : ((∃ k hv', rr = .err k hv') ∨ (∃ v cp cur', rr = .ok v cp cur' ∧ cur' < c.toks.length)) → PipeRejected c ft (pipeWrap rr) :=
    pipe_finish c ft rr name
  cases hdk : dKwClause kwWHERE (dExpr fd) (c.toks.drop cur) with
  | none =>
    rw [hdk] at hw
    have : SimPipe c ft (pipeWrap rr) none := hrej hw
    cases optSource ft (.node "Pipe" caps) "From" <;> simpa [pipeDirect] using this
  | some res =>
    obtain ⟨wh, rest⟩ := res
    rw [hdk] at hw
    cases rest with
    | cons q r2 =>
      have : SimPipe c ft (pipeWrap rr) none := hrej hw
      cases optSource ft (.node "Pipe" caps) "From" <;> simpa [pipeDirect] using this
    | nil =>
      obtain ⟨vals', caps', rfl, hwh, hfl⟩ := hw
      have hs2 : optSource ft (.node "Pipe" (caps ++ caps')) "From" = optSource ft (.node "Pipe" caps) "From" :=
        optSource_congr ft _ _ _ _ _ (hfl "From" (by decide))
      have hn2 : strs (fieldVals (caps ++ caps') "Name") = name := by rw [hfl "Name" (by decide)]; exact hname
      cases ho : optSource ft (.node "Pipe" caps) "From" with
      | none =>
        simp only [pipeDirect, SimPipe, PipeRejected, pipeWrap]
        right; right; right
        exact ⟨_, rfl, by simp [convPipe, hs2, ho]⟩
      | some src =>
        simp only [pipeDirect, SimPipe, pipeWrap]
        exact ⟨_, rfl, by simp [convPipe, hs2, ho, hwh, fv, hn2]⟩


theorem dPipeBody_eq (fd : Nat) (p n : Tok) (r : List Tok) (hp : litMatch p kwPIPE = true) (hi : n.t = TT.ident) :
    dPipeBody fd (p :: n :: r) =
      (match dKwClause kwFROM (dSource fd) r with
       | none => none
       | some (src, t1) => pipeDirect (some src) n.v (dKwClause kwWHERE (dExpr fd) t1)) := by
  simp only [dPipeBody, hp, hi, beq_self_eq_true, Bool.and_self, if_true, pipeDirect]
  cases dKwClause kwFROM (dSource fd) r with
  | none => rfl
  | some x => rfl

theorem simPipe (c : Ctx) (hg : c.grammar = grammar) (hH : OperandNotParen c.toks) (ft : Nat) (hft : 8 * c.toks.length + 50 ≤ ft)
    (g fd : Nat) (hfe : 60 * c.toks.length + 100 ≤ g) (hfd : 4 * c.toks.length + 5 ≤ fd) :
    SimPipe c ft (parse c (g+13) (.strct "Pipe") 1) (dPipeBody fd (c.toks.drop 1)) := by
  rw [parse_strct c _ "Pipe" pipeBody 1 (by rw [hg]; rfl)]
  change SimPipe c ft (pipeWrap (parse c (g+12) pipeBody 1)) _
  rw [pipeBody, parse_seq, parseSeq_cons, parse_lit]
  simp only [peek]
  cases h1 : c.toks[1]? with
  | none =>
    rw [drop_of_none h1]
    simp only [dPipeBody, SimPipe, pipeWrap, if_true]
    left; rfl
  | some p =>
    rw [drop_of_get h1]
    cases hp : litMatch p kwPIPE with
    | false =>
      have : dPipeBody fd (p :: c.toks.drop (1+1)) = none := by
        cases c.toks.drop (1+1) <;> simp [dPipeBody, hp]
      rw [this]
      simp only [hp, SimPipe, pipeWrap, Bool.false_eq_true, if_false]
      left; rfl
    | true =>
      simp only [hp, if_true, List.nil_append]
      rw [parseSeq_cons, parse_capture, parse_ref]
      simp only [peek]
      cases h2 : c.toks[1+1]? with
      | none =>
        rw [drop_of_none h2]
        simp only [dPipeBody, SimPipe, pipeWrap]
        right; left; exact ⟨_, _, rfl⟩
      | some n =>
        rw [drop_of_get h2]
        by_cases hi : n.t = TT.ident
        · rw [dPipeBody_eq fd p n _ hp hi]
          simp only [hi, beq_self_eq_true, if_true, List.nil_append]
          rw [parseSeq_cons]
          have hl2 := lt_of_get h2
          -- the FROM clause at cursor 3
          cases h3 : c.toks[1+1+1]? with
          | none =>
            rw [drop_of_none h3, show g + 8 = (g + 3) + 5 from rfl, clause_none c _ _ _ _ _ h3]
            simp only [dKwClause, List.append_nil]
            have := pipe_after c hg hH ft hft (1+1+1) (by omega) g fd hfe hfd [.str p.v, .str []] [("Name", [.str n.v])] (by simp) (by simp [fieldVals])
              n.v (by simp [fieldVals, strs]) (some none) (by simp [optSource, fv, fieldVals])
            rw [drop_of_none h3] at this
            exact this
          | some f =>
            have hl3 := lt_of_get h3
            rw [drop_of_get h3]
            cases hf : litMatch f kwFROM with
            | false =>
              rw [show g + 8 = (g + 3) + 5 from rfl, clause_nolit c _ _ _ _ _ f h3 hf]
              simp only [dKwClause, hf, Bool.false_eq_true, if_false, List.append_nil]
              have := pipe_after c hg hH ft hft (1+1+1) (by omega) g fd hfe hfd [.str p.v, .str []] [("Name", [.str n.v])] (by simp) (by simp [fieldVals])
                n.v (by simp [fieldVals, strs]) (some none) (by simp [optSource, fv, fieldVals])
              rw [drop_of_get h3] at this
              exact this
            | true =>
              have hfw : litMatch f kwWHERE = false := FROM_not_WHERE f hf
              have hs := simSource c hg hH (1+1+1+1) (by omega) (g+2) fd (by omega) (by omega)
              rw [show g + 8 = (g + 1) + 7 from rfl, clause_lit c _ _ _ (g+1) _ f h3 hf]
              simp only [dKwClause, hf, if_true]
              have hdead : ∀ (cur' : Nat) (q : Tok), c.toks[cur']? = some q → litMatch q kwWHERE = false →
                  ∀ osrc, pipeDirect osrc n.v (dKwClause kwWHERE (dExpr fd) (c.toks.drop cur')) = none := by
                intro cur' q hq hqw osrc
                rw [drop_of_get hq]
                cases osrc <;> simp [pipeDirect, dKwClause, hqw]
              cases hd : dSource fd (c.toks.drop (1+1+1+1)) with
              | some res =>
                obtain ⟨sr, rest⟩ := res
                have hcv := dSource_cvM hd
                rw [hd] at hs
                obtain ⟨v, cur', h, hrel, hrest, hlt', hle'⟩ := hs
                subst hrest
                have hf' : cvSource sr ≤ ft := by simp only [List.length_drop] at hcv; omega
                rw [h]
                simp only []
                exact pipe_after c hg hH ft hft cur' hle' g fd hfe hfd _ _ (by simp) (by simp [fieldVals])
                  n.v (by simp [fieldVals, strs]) (some (some sr)) (by simp [optSource, fv, fieldVals, convSource sr v ft hrel hf'])
              | none =>
                rw [hd] at hs
                simp only [SimSource] at hs
                simp only []
                rcases hs with ⟨k, h, hk⟩ | ⟨v, cur', h, hlt', hst⟩ | ⟨v, h, hlt', hconv⟩
                · rw [h]
                  by_cases hgt : k > 1 + 1 + 1 + lookahead
                  · simp only [hgt, if_true, SimPipe, pipeWrap]
                    right; left; exact ⟨_, _, rfl⟩
                  · simp only [hgt, if_false]
                    have := pipe_after c hg hH ft hft (1+1+1) (by omega) g fd hfe hfd ([.str p.v] ++ [.str []] ++ [.str []]) ([] ++ [("Name", [.str n.v])] ++ []) (by simp) (by simp [fieldVals])
                      n.v (by simp [fieldVals, strs]) _ rfl
                    rw [hdead _ f h3 hfw] at this
                    exact this
                · rw [h]
                  simp only []
                  have hq : ∃ q, c.toks[cur']? = some q ∧ litMatch q kwWHERE = false := by
                    rcases hst with ⟨q, hq, hqa⟩ | ⟨q, hq, hqo⟩
                    · exact ⟨q, hq, AND_not_WHERE q hqa⟩
                    · exact ⟨q, hq, OR_not_WHERE q hqo⟩
                  obtain ⟨q, hq, hqw⟩ := hq
                  have := pipe_after c hg hH ft hft cur' (by have := lt_of_get hq; omega) g fd hfe hfd ([.str p.v] ++ [.str []] ++ [.str f.v, .str []]) ([] ++ [("Name", [.str n.v])] ++ ([] ++ [("From", [v])])) (by simp) (by simp [fieldVals])
                    n.v (by simp [fieldVals, strs]) _ rfl
                  rw [hdead _ q hq hqw] at this
                  exact this
                · rw [h]
                  simp only []
                  have := pipe_after c hg hH ft hft (1+1+1+1+1) (by omega) g fd hfe hfd ([.str p.v] ++ [.str []] ++ [.str f.v, .str []]) ([] ++ [("Name", [.str n.v])] ++ ([] ++ [("From", [v])])) (by simp) (by simp [fieldVals])
                    n.v (by simp [fieldVals, strs]) none (by simp [optSource, fv, fieldVals, hconv ft])
                  simpa [pipeDirect] using this
        · have hi' : (n.t == TT.ident) = false := by simpa using hi
          have : dPipeBody fd (p :: n :: c.toks.drop (1+1+1)) = none := by simp [dPipeBody, hp, hi']
          rw [this]
          simp only [hi', Bool.false_eq_true, if_false, SimPipe, pipeWrap]
          right; left; exact ⟨_, _, rfl⟩


theorem toLql_create (dp : Bytes → Option Int) (ft : Nat) (vp : Val) :
    toLqlChecked dp ft (.node "Lql" [("Create", [.node "Create" [("Pipe", [vp])]])])
      = (convPipe ft vp).map (fun p => ({ create := some { pipe := some p } } : Lql)) := by
  simp only [toLqlChecked, toLql, optNode, fv, fieldVals, convPipe]
  cases h1 : optSource ft vp "From" with
  | none => simp [h1]
  | some fr =>
    cases h2 : optExpr ft vp "Where" with
    | none => simp [h1, h2]
    | some wh => simp [h1, h2, postCheck, hasEmptyRange]

theorem engine_direct_create (dp : Bytes → Option Int) (ft : Nat) (t : Tok) (r : List Tok)
    (hH : OperandNotParen (t :: r)) (hft : 8 * (t :: r).length + 50 ≤ ft)
    (h1 : litMatch t kwSELECT = false) (h2 : litMatch t kwDESCRIBE = false) (h3 : litMatch t kwTRUNCATE = false)
    (h4 : litMatch t kwSHOW = false) (h5 : litMatch t kwCREATE = true) :
    (runEngine grammar "Lql" (t :: r)).bind (toLqlChecked dp ft) = dCreateRest (directFuel (t :: r)) r := by
  rw [run_lql]
  obtain ⟨g, hg⟩ : ∃ g, 60 * (t :: r).length + 200 = (g + 1) + 30 := ⟨60 * (t :: r).length + 169, rfl⟩
  rw [hg, lql_create_eval t r (g+1) h1 h2 h3 h4 h5]
  rw [show g + 1 + 16 = (g + 13) + 4 from rfl, create_of_pipe ⟨t :: r, grammar⟩ rfl (g+13)]
  have hsim := simPipe ⟨t :: r, grammar⟩ rfl hH ft hft g (directFuel (t :: r)) (by simp only [List.length_cons] at hg ⊢; omega) (by simp [directFuel])
  cases r with
  | nil =>
    simp only [List.drop_succ_cons, List.drop_nil] at hsim
    rw [parse_strct _ _ "Pipe" pipeBody 1 rfl, pipeBody, parse_seq, parseSeq_cons, parse_lit]
    simp [peek, altRes, topRes, dCreateRest, toLqlChecked, toLql, optNode, fv, fieldVals, postCheck, hasEmptyRange]
  | cons p r1 =>
    simp only [List.drop_succ_cons, List.drop_zero] at hsim
    simp only [dCreateRest]
    generalize parse ⟨t :: p :: r1, grammar⟩ (g+13) (.strct "Pipe") 1 = rp at hsim ⊢
    cases hd : dPipeBody (directFuel (t :: p :: r1)) (p :: r1) with
    | some pp =>
      rw [hd] at hsim
      obtain ⟨v, rfl, hconv⟩ := hsim
      simp only [altRes, topRes, List.nil_append, beq_self_eq_true, if_true, Option.bind_some]
      rw [toLql_create, hconv]; rfl
    | none =>
      rw [hd] at hsim
      simp only [SimPipe, PipeRejected] at hsim
      rcases hsim with rfl | ⟨k, hv, rfl⟩ | ⟨v, cp, cur', rfl, hl⟩ | ⟨v, rfl, hconv⟩
      · simp [altRes, topRes]
      · by_cases hk : k > 1 + lookahead
        · have hk2 : k > 0 + 1 + lookahead := by omega
          simp [altRes, topRes, hk, hk2]
        · simp [altRes, topRes, hk]
      · simp only [List.length_cons] at hl
        have : (cur' == r1.length + 1 + 1) = false := by simp; omega
        simp [altRes, topRes, this]
      · simp only [altRes, topRes, List.nil_append, beq_self_eq_true, if_true, Option.bind_some]
        rw [toLql_create, hconv]; rfl

end Logrange.Lql
