import Logrange.Proofs.Where
/-!
Lemmas for the concrete instances of the WHERE evaluator's environment (C05, round 2): Go's `strings.ToUpper` /
`strings.ToLower` on ASCII strings (the byte-wise mapping), and what UPPER()/LOWER() around an operand then compute.
-/
namespace Logrange.Where
open Go

/-- all bytes below 0x80: what Go's `ToUpper`/`ToLower` test first (`isASCII`) -/
def isAscii (s : Bytes) : Bool := s.all (fun c => decide (c.toNat < 128))

def upB (c : UInt8) : UInt8 := if 97 ≤ c.toNat && c.toNat ≤ 122 then UInt8.ofNat (c.toNat - 32) else c
def loB (c : UInt8) : UInt8 := if 65 ≤ c.toNat && c.toNat ≤ 90 then UInt8.ofNat (c.toNat + 32) else c

theorem asciiUpper_eq_map (s : Bytes) : asciiUpper s = s.map upB := rfl
theorem asciiLower_eq_map (s : Bytes) : asciiLower s = s.map loB := rfl

/-- **the environment maps ASCII strings byte-wise**, as Go's `strings.ToUpper` / `strings.ToLower` do (their ASCII fast
path: `c -= 'a' - 'A'` for `'a' ≤ c ≤ 'z'`, and the mirror image); compared with the real functions on every run by the
harness section `casemap`. Nothing is said about strings with a byte ≥ 0x80 (Unicode tables: still a parameter). -/
def AsciiCase (env : Env) : Prop :=
  ∀ s, isAscii s = true → env.up s = asciiUpper s ∧ env.lo s = asciiLower s

theorem byte_all (P : UInt8 → Bool) (h : (List.range 256).all (fun n => P (UInt8.ofNat n)) = true) (c : UInt8) :
    P c = true := by
  have hc : c = UInt8.ofNat c.toNat := by simp
  rw [hc]
  exact (List.all_eq_true.mp h) c.toNat (List.mem_range.mpr c.toNat_lt)

theorem loB_upB (c : UInt8) : loB (upB c) = loB c := by
  have := byte_all (fun c => loB (upB c) == loB c) (by decide +kernel) c
  simpa using this
theorem upB_loB (c : UInt8) : upB (loB c) = upB c := by
  have := byte_all (fun c => upB (loB c) == upB c) (by decide +kernel) c
  simpa using this
theorem upB_ascii (c : UInt8) (h : c.toNat < 128) : (upB c).toNat < 128 := by
  have := byte_all (fun c => !decide (c.toNat < 128) || decide ((upB c).toNat < 128)) (by decide +kernel) c
  simpa [h] using this
theorem loB_ascii (c : UInt8) (h : c.toNat < 128) : (loB c).toNat < 128 := by
  have := byte_all (fun c => !decide (c.toNat < 128) || decide ((loB c).toNat < 128)) (by decide +kernel) c
  simpa [h] using this

theorem asciiLower_upper (s : Bytes) : asciiLower (asciiUpper s) = asciiLower s := by
  simp [asciiUpper_eq_map, asciiLower_eq_map, List.map_map, Function.comp_def, loB_upB]
theorem asciiUpper_lower (s : Bytes) : asciiUpper (asciiLower s) = asciiUpper s := by
  simp [asciiUpper_eq_map, asciiLower_eq_map, List.map_map, Function.comp_def, upB_loB]

/-- equal after upper-casing ⇔ equal after lower-casing: both say "equal up to ASCII letter case" -/
theorem asciiUpper_eq_iff_lower (v w : Bytes) : asciiUpper v = asciiUpper w ↔ asciiLower v = asciiLower w := by
  constructor
  · intro h; rw [← asciiLower_upper v, ← asciiLower_upper w, h]
  · intro h; rw [← asciiUpper_lower v, ← asciiUpper_lower w, h]

theorem isAscii_upper (s : Bytes) (h : isAscii s = true) : isAscii (asciiUpper s) = true := by
  simp only [isAscii, List.all_eq_true, decide_eq_true_eq, asciiUpper_eq_map, List.mem_map] at h ⊢
  rintro c ⟨a, ha, rfl⟩; exact upB_ascii a (h a ha)
theorem isAscii_lower (s : Bytes) (h : isAscii s = true) : isAscii (asciiLower s) = true := by
  simp only [isAscii, List.all_eq_true, decide_eq_true_eq, asciiLower_eq_map, List.mem_map] at h ⊢
  rintro c ⟨a, ha, rfl⟩; exact loB_ascii a (h a ha)

/-- the function nest around an operand, applied to an ASCII value under an ASCII-exact environment, is the byte-wise
nest `applyFnsAscii` (UPPER = `asciiUpper`, LOWER = `asciiLower`, innermost first) and stays ASCII -/
def applyFnsAscii (env : Env) : Ident → Bytes → Bytes
  | .mk _ .nil, s => s
  | .mk fn (.cons p _), s =>
    if env.up fn == sUPPER then asciiUpper (applyFnsAscii env p s)
    else if env.up fn == sLOWER then asciiLower (applyFnsAscii env p s)
    else applyFnsAscii env p s

theorem applyFns_ascii (env : Env) (hA : AsciiCase env) : ∀ (id : Ident) (s : Bytes), isAscii s = true →
    applyFns env id s = applyFnsAscii env id s ∧ isAscii (applyFnsAscii env id s) = true
  | .mk _ .nil, s, h => by simp [applyFns, applyFnsAscii, h]
  | .mk fn (.cons p _), s, h => by
    obtain ⟨e, ha⟩ := applyFns_ascii env hA p s h
    simp only [applyFns, applyFnsAscii]
    split
    · rw [e, (hA _ ha).1]; exact ⟨rfl, isAscii_upper _ ha⟩
    · split
      · rw [e, (hA _ ha).2]; exact ⟨rfl, isAscii_lower _ ha⟩
      · exact ⟨e, ha⟩

/-- the table environment with tables that hold no ASCII key (the driver fills them with non-ASCII strings only) is
ASCII-exact; in particular the empty tables -/
theorem tableEnv_asciiCase (ups los : List (Bytes × Bytes)) (tss : List (Bytes × Option Int))
    (hu : ∀ p ∈ ups, isAscii p.1 = false) (hl : ∀ p ∈ los, isAscii p.1 = false) : AsciiCase (tableEnv ups los tss) := by
  intro s hs
  have look : ∀ (t : List (Bytes × Bytes)), (∀ p ∈ t, isAscii p.1 = false) → lookup t s = none := by
    intro t ht
    simp only [lookup, Option.map_eq_none_iff, List.find?_eq_none]
    intro p hp hk
    have : p.1 = s := by simpa using hk
    have := ht p hp
    simp_all
  simp [tableEnv, look ups hu, look los hl]

end Logrange.Where
