import Logrange.Proofs.LqlEngineTop
import Logrange.Proofs.LqlLex
/-!
# C12: every token list the lexer model returns satisfies `OperandNotParen` (the hypothesis of `engine_eq_direct_*`)

An Ident / Keyword token is never spelled `(`: on a text starting with `(` the Keyword and Ident candidates are 0 and
`pickBest` only returns a candidate that is > 0; otherwise the token text starts with a byte other than `(`.
-/
namespace Logrange.Lql

/-- what `OperandNotParen` asks of one token -/
def tokNP (t : Tok) : Prop := isOperandTok t = true → litMatch t LP = false

theorem pickBest_mem_aux : ∀ (cs : List (Nat × Option TT)) (b : Nat × Option TT),
    (cs.foldl (fun (b : Nat × Option TT) c => if c.1 > b.1 then c else b) b = b) ∨
    (cs.foldl (fun (b : Nat × Option TT) c => if c.1 > b.1 then c else b) b ∈ cs)
  | [], b => Or.inl rfl
  | c :: cs, b => by
    simp only [List.foldl_cons]
    by_cases h : c.1 > b.1
    · simp only [h, if_true]
      rcases pickBest_mem_aux cs c with h1 | h1
      · right; rw [h1]; exact List.mem_cons_self
      · right; exact List.mem_cons_of_mem _ h1
    · simp only [h, if_false]
      rcases pickBest_mem_aux cs b with h1 | h1
      · left; exact h1
      · right; exact List.mem_cons_of_mem _ h1

theorem pickBest_mem (cs : List (Nat × Option TT)) (n : Nat) (o : Option TT) (hn : 0 < n) (h : pickBest cs = (n, o)) :
    (n, o) ∈ cs := by
  unfold pickBest at h
  rcases pickBest_mem_aux cs (0, none) with h1 | h1
  · rw [h] at h1; cases h1; omega
  · rw [h] at h1; exact h1

theorem lower_eq_40 : ∀ c : UInt8, (lower c == 40) = true → c = 40 := by
  intro c h
  have := forall_byte (fun c => !(lower c == 40) || c == 40) (by decide +kernel) c
  simp only [h, Bool.not_true, Bool.false_or, beq_iff_eq] at this
  exact this

theorem lexOne_tokNP (s : Bytes) (t : Tok) (n : Nat) (h : lexOne s = some (some t, n)) : tokNP t := by
  intro hop
  cases hp : pickBest (cands s) with
  | mk m o =>
  by_cases hm0 : m = 0
  · simp [lexOne, hp, hm0] at h
  · have hm : 0 < m := by omega
    rw [lexOne_of_cands s m o hm hp] at h
    cases o with
    | none => simp at h
    | some ty =>
      simp only [Option.some.injEq, Prod.mk.injEq] at h
      obtain ⟨rfl, rfl⟩ := h
      have hmem := pickBest_mem _ _ _ hm hp
      cases s with
      | nil =>
        have h0 : pickBest (cands []) = (0, none) := by decide +kernel
        rw [h0] at hp; cases hp
      | cons c r =>
        by_cases hc : c = 40
        · subst hc
          have k1 : mKeyword (40 :: r) = 0 := mKeyword_nolead 40 r (by decide +kernel)
          have k2 : mIdent (40 :: r) = 0 := mIdent_nolead 40 r (by decide)
          simp only [cands, List.mem_cons, Prod.mk.injEq, List.mem_nil_iff, or_false, k1, k2] at hmem
          simp only [isOperandTok, Bool.or_eq_true, beq_iff_eq] at hop
          rcases hop with hop | hop <;> simp only [hop] at hmem <;> simp at hmem <;> omega
        · obtain ⟨m', rfl⟩ : ∃ m', m = m' + 1 := ⟨m - 1, by omega⟩
          simp only [List.take_succ_cons, litMatch, LP]
          split
          · simp only [eqFold]
            cases hl : lower c == lower 40 with
            | false => simp
            | true =>
              have e40 : lower 40 = 40 := by decide
              rw [e40] at hl
              exact absurd (lower_eq_40 c hl) hc
          · simp [hc]


theorem lexAll_tokNP : ∀ (fuel : Nat) (s : Bytes) (acc toks : List Tok), (∀ t ∈ acc, tokNP t) →
    lexAll fuel s acc = some toks → ∀ t ∈ toks, tokNP t
  | 0, _, _, _, _, h => by simp [lexAll] at h
  | fuel+1, s, acc, toks, hacc, h => by
    rw [lexAll] at h
    split at h
    · simp only [Option.some.injEq] at h
      subst h
      intro t ht
      exact hacc t (by simpa using ht)
    · split at h
      · cases h
      · exact lexAll_tokNP fuel _ acc toks hacc h
      · rename_i t n hl
        split at h
        · split at h
          · cases h
          · rename_i u _
            refine lexAll_tokNP fuel _ _ toks ?_ h
            intro t' ht'
            rcases List.mem_cons.mp ht' with rfl | h'
            · intro hop; simp [isOperandTok] at hop
            · exact hacc t' h'
        · refine lexAll_tokNP fuel _ _ toks ?_ h
          intro t' ht'
          rcases List.mem_cons.mp ht' with rfl | h'
          · exact lexOne_tokNP _ _ _ hl
          · exact hacc t' h'

/-- **every token list the lexer produces satisfies the hypothesis of `engine_eq_direct_*`** -/
theorem lex_operandNotParen (s : Bytes) (toks : List Tok) (h : lex s = some toks) : OperandNotParen toks := by
  intro t ht
  exact lexAll_tokNP _ s [] toks (by simp) h t ht

end Logrange.Lql
