import Logrange.Model.Mixer
/-!
# Lemmas about the mixer model: the stateful tree of mixers refines the pure merge

* `mergeSpec_*` — the pure merge is a permutation of its inputs, keeps each input as a sublist, keeps sortedness.
* `LawfulSource` — the contract a leaf iterator has to meet (what a `model.Iterator` promises): a `view` (the stream
  that remains to be delivered in the current direction) such that `Get` answers its head without consuming it,
  `Next` after a `Get` drops the head, `Release` changes nothing, `SetBackward` sets the direction.
* `It.get_spec`, `It.next_spec`, `It.release_spec`, `It.setBackward_spec` — a tree of mixers over lawful sources is
  itself a lawful source whose view is `mergeSpec` of its children's views, for **every** reachable mixer state
  (invariant `It.WF`: what `st`, the `eof` flags and the buffers mean). So mixers compose (`instLawfulIt`).
* `drain_eq_view`, `drainRel_eq_view` — the reading loop delivers exactly the view, with `Release` calls anywhere.
* `Leaf` is a lawful source.
-/
namespace Logrange.Mixer

/-! ## mergeSpec -/

@[simp] theorem mergeSpec_nil_left (bk : Bool) (ys : List Ev) : mergeSpec bk [] ys = ys := by
  simp [mergeSpec]

@[simp] theorem mergeSpec_nil_right (bk : Bool) (xs : List Ev) : mergeSpec bk xs [] = xs := by
  cases xs <;> simp [mergeSpec]

theorem mergeSpec_cons_cons (bk : Bool) (x y : Ev) (xs ys : List Ev) :
    mergeSpec bk (x :: xs) (y :: ys) =
      if pick bk x y then x :: mergeSpec bk xs (y :: ys) else y :: mergeSpec bk (x :: xs) ys := by
  rw [mergeSpec]

theorem mergeSpec_perm (bk : Bool) (a b : List Ev) : (mergeSpec bk a b).Perm (a ++ b) := by
  fun_induction mergeSpec bk a b with
  | case1 ys => simp
  | case2 xs _ => simp
  | case3 x xs y ys h ih => simpa using ih
  | case4 x xs y ys h ih =>
    refine (List.Perm.cons y ih).trans ?_
    simpa using (List.perm_middle (a := y) (l₁ := x :: xs) (l₂ := ys)).symm

theorem mem_mergeSpec (bk : Bool) (a b : List Ev) (e : Ev) : e ∈ mergeSpec bk a b ↔ e ∈ a ∨ e ∈ b := by
  rw [(mergeSpec_perm bk a b).mem_iff, List.mem_append]

theorem mergeSpec_sublist_left (bk : Bool) (a b : List Ev) : a.Sublist (mergeSpec bk a b) := by
  fun_induction mergeSpec bk a b with
  | case1 ys => simp
  | case2 xs _ => simp
  | case3 x xs y ys h ih => exact ih.cons_cons x
  | case4 x xs y ys h ih => exact ih.cons y

theorem mergeSpec_sublist_right (bk : Bool) (a b : List Ev) : b.Sublist (mergeSpec bk a b) := by
  fun_induction mergeSpec bk a b with
  | case1 ys => simp
  | case2 xs _ => simp
  | case3 x xs y ys h ih => exact ih.cons x
  | case4 x xs y ys h ih => exact ih.cons_cons y

/-- time order in reading direction: ascending forward, descending backward -/
def ord (bk : Bool) (x y : Ev) : Prop := if bk then y.ts ≤ x.ts else x.ts ≤ y.ts

theorem ord_false : ord false = fun x y => x.ts ≤ y.ts := by funext x y; simp [ord]
theorem ord_true : ord true = fun x y => y.ts ≤ x.ts := by funext x y; simp [ord]

theorem ord_trans {bk : Bool} {x y z : Ev} (h1 : ord bk x y) (h2 : ord bk y z) : ord bk x z := by
  unfold ord at *; cases bk <;> simp at * <;> omega

theorem ord_of_pick {bk : Bool} {x y : Ev} (h : pick bk x y = true) : ord bk x y := by
  unfold pick at h; unfold ord; cases bk <;> simp at * <;> omega

theorem ord_of_not_pick {bk : Bool} {x y : Ev} (h : ¬ pick bk x y = true) : ord bk y x := by
  unfold pick at h; unfold ord; cases bk <;> simp at * <;> omega

theorem mergeSpec_sorted (bk : Bool) (a b : List Ev) (ha : a.Pairwise (ord bk)) (hb : b.Pairwise (ord bk)) :
    (mergeSpec bk a b).Pairwise (ord bk) := by
  fun_induction mergeSpec bk a b with
  | case1 ys => exact hb
  | case2 xs _ => exact ha
  | case3 x xs y ys h ih =>
    rw [List.pairwise_cons] at ha
    refine List.pairwise_cons.mpr ⟨?_, ih ha.2 hb⟩
    intro z hz
    rw [mem_mergeSpec] at hz
    rcases hz with hz | hz
    · exact ha.1 z hz
    · rw [List.pairwise_cons] at hb
      rcases List.mem_cons.mp hz with rfl | hz
      · exact ord_of_pick h
      · exact ord_trans (ord_of_pick h) (hb.1 z hz)
  | case4 x xs y ys h ih =>
    rw [List.pairwise_cons] at hb
    refine List.pairwise_cons.mpr ⟨?_, ih ha hb.2⟩
    intro z hz
    rw [mem_mergeSpec] at hz
    rcases hz with hz | hz
    · rw [List.pairwise_cons] at ha
      rcases List.mem_cons.mp hz with rfl | hz
      · exact ord_of_not_pick h
      · exact ord_trans (ord_of_not_pick h) (ha.1 z hz)
    · exact hb.1 z hz

/-! ## which source the merge takes next -/

/-- 1 / 2: the head of the first / second stream is next; 3: both are empty -/
def sel (bk : Bool) : List Ev → List Ev → Nat
  | [], [] => 3
  | [], _ :: _ => 2
  | _ :: _, [] => 1
  | x :: _, y :: _ => if pick bk x y then 1 else 2

theorem mergeSpec_sel1 {bk : Bool} {xs ys : List Ev} (h : sel bk xs ys = 1) :
    ∃ x xs', xs = x :: xs' ∧ mergeSpec bk xs ys = x :: mergeSpec bk xs' ys := by
  cases xs with
  | nil => cases ys <;> simp [sel] at h
  | cons x xs' =>
    refine ⟨x, xs', rfl, ?_⟩
    cases ys with
    | nil => simp
    | cons y ys' =>
      have : pick bk x y = true := by
        simp only [sel] at h; by_cases hp : pick bk x y = true <;> simp_all
      simp [mergeSpec_cons_cons, this]

theorem mergeSpec_sel2 {bk : Bool} {xs ys : List Ev} (h : sel bk xs ys = 2) :
    ∃ y ys', ys = y :: ys' ∧ mergeSpec bk xs ys = y :: mergeSpec bk xs ys' := by
  cases ys with
  | nil => cases xs <;> simp [sel] at h
  | cons y ys' =>
    refine ⟨y, ys', rfl, ?_⟩
    cases xs with
    | nil => simp
    | cons x xs' =>
      have : ¬ pick bk x y = true := by
        simp only [sel] at h; by_cases hp : pick bk x y = true <;> simp_all
      simp [mergeSpec_cons_cons, this]

theorem mergeSpec_sel3 {bk : Bool} {xs ys : List Ev} (h : sel bk xs ys = 3) : xs = [] ∧ ys = [] := by
  cases xs <;> cases ys <;> simp [sel] at h ⊢
  split at h <;> simp at h

theorem sel_range (bk : Bool) (xs ys : List Ev) : sel bk xs ys = 1 ∨ sel bk xs ys = 2 ∨ sel bk xs ys = 3 := by
  cases xs <;> cases ys <;> simp [sel]
  split <;> simp

/-! ## the state machine on fetched answers -/

theorem testFunc_eq_pick (m : MixSt) : m.testFunc = pick m.bkwd m.le1 m.le2 := by
  unfold MixSt.testFunc pick getEarliest
  cases m.bkwd <;> simp

/-- what `selectState` establishes, from `st = 0`, when the sources answer the heads of `xs` / `ys` and the `eof`
flags are sound -/
theorem selectState_sound {α : Type} (m : MixSt) (a b : α) (ga gb : α × Option Ev) (xs ys : List Ev)
    (h0 : m.st = 0) (he1 : m.eof1 = true → xs = []) (he2 : m.eof2 = true → ys = [])
    (hga : ga.2 = xs.head?) (hgb : gb.2 = ys.head?)
    (t : MixSt × α × α) (ht : t = m.selectState a b ga gb) :
    t.1.st = sel m.bkwd xs ys ∧ t.1.bkwd = m.bkwd ∧
    (t.1.eof1 = true → xs = []) ∧ (t.1.eof2 = true → ys = []) ∧
    (t.1.st = 1 → xs.head? = some t.1.le1 ∧ t.2.1 = ga.1) ∧
    (t.1.st = 2 → ys.head? = some t.1.le2 ∧ t.2.2 = gb.1) ∧
    (t.2.1 = a ∨ t.2.1 = ga.1) ∧ (t.2.2 = b ∨ t.2.2 = gb.1) := by
  have hc := It.selectState_cases m a b ga gb
  subst ht
  refine ⟨?_, ?_, ?_, ?_, ?_, ?_, hc.1, hc.2⟩ <;>
    (unfold MixSt.selectState
     cases xs <;> cases ys <;> cases h1 : m.eof1 <;> cases h2 : m.eof2 <;>
       simp_all [MixSt.fetch1, MixSt.fetch2, MixSt.choose, sel, testFunc_eq_pick] <;>
       (try split) <;> simp_all)

/-! ## lawful sources -/

/-- The contract of a leaf iterator. `view s` is the stream that remains in the current direction `dir s`;
`settled s` says that a `Get` has happened since the position or direction last changed otherwise than by `Next`
(only then does `Next` step over exactly the event `Get` shows). -/
class LawfulSource (σ : Type) [Source σ] where
  view : σ → List Ev
  dir : σ → Bool
  wf : σ → Prop
  settled : σ → Prop
  get_spec : ∀ s, wf s → (Source.get s).2 = (view s).head? ∧ view (Source.get s).1 = view s ∧
    wf (Source.get s).1 ∧ dir (Source.get s).1 = dir s ∧ settled (Source.get s).1
  next_spec : ∀ s, wf s → settled s → view (Source.next s) = (view s).tail ∧ wf (Source.next s) ∧
    dir (Source.next s) = dir s
  release_spec : ∀ s, wf s → view (Source.release s) = view s ∧ wf (Source.release s) ∧
    dir (Source.release s) = dir s ∧ (settled s → settled (Source.release s))
  setBackward_spec : ∀ bk s, wf s → wf (Source.setBackward bk s) ∧ dir (Source.setBackward bk s) = bk

namespace It
variable {σ : Type} [Source σ] [LawfulSource σ]
open LawfulSource

/-- the stream a tree delivers: the merge of its children's streams in the node's direction -/
def view : It σ → List Ev
  | .leaf s => LawfulSource.view s
  | .mix m a b => mergeSpec m.bkwd a.view b.view

def dir : It σ → Bool
  | .leaf s => LawfulSource.dir s
  | .mix m _ _ => m.bkwd

def settled : It σ → Prop
  | .leaf s => LawfulSource.settled s
  | .mix _ _ _ => True

/-- the meaning of a mixer's fields: both sources run in the mixer's direction; a set `eof` flag means that source has
ended; a selected state (`st ≠ 0`) is the one the merge would select, and the selected buffer holds that source's
head, which the source has been asked for -/
def WF : It σ → Prop
  | .leaf s => LawfulSource.wf s
  | .mix m a b => a.WF ∧ b.WF ∧ a.dir = m.bkwd ∧ b.dir = m.bkwd ∧
      (m.eof1 = true → a.view = []) ∧ (m.eof2 = true → b.view = []) ∧
      (m.st = 0 ∨ (m.st = sel m.bkwd a.view b.view ∧
        (m.st = 1 → a.view.head? = some m.le1 ∧ a.settled) ∧
        (m.st = 2 → b.view.head? = some m.le2 ∧ b.settled)))

theorem out_eq_head (m : MixSt) (xs ys : List Ev) (hs : m.st = sel m.bkwd xs ys)
    (h1 : m.st = 1 → xs.head? = some m.le1) (h2 : m.st = 2 → ys.head? = some m.le2) :
    m.out = (mergeSpec m.bkwd xs ys).head? := by
  rcases sel_range m.bkwd xs ys with h | h | h
  · obtain ⟨x, xs', rfl, e⟩ := mergeSpec_sel1 h
    have := h1 (hs.trans h)
    simp [MixSt.out, hs, h, e] at this ⊢; exact this.symm
  · obtain ⟨y, ys', rfl, e⟩ := mergeSpec_sel2 h
    have := h2 (hs.trans h)
    simp [MixSt.out, hs, h, e] at this ⊢; exact this.symm
  · obtain ⟨rfl, rfl⟩ := mergeSpec_sel3 h
    simp [MixSt.out, hs, h]

theorem get_spec (it : It σ) (h : it.WF) :
    it.get.2 = it.view.head? ∧ it.get.1.view = it.view ∧ it.get.1.WF ∧ it.get.1.dir = it.dir ∧ it.get.1.settled := by
  induction it with
  | leaf s =>
    have := LawfulSource.get_spec s h
    simpa [get, view, WF, dir, settled] using this
  | mix m a b iha ihb =>
    obtain ⟨wa, wb, da, db, e1, e2, hst⟩ := h
    obtain ⟨ga2, gav, gaw, gad, gas⟩ := iha wa
    obtain ⟨gb2, gbv, gbw, gbd, gbs⟩ := ihb wb
    by_cases h0 : m.st = 0
    · have S := selectState_sound m a b a.get b.get a.view b.view h0 e1 e2 ga2 gb2 _ rfl
      obtain ⟨s1, s2, s3, s4, s5, s6, s7, s8⟩ := S
      simp only [get, view, WF, dir, settled]
      generalize m.selectState a b a.get b.get = t at *
      obtain ⟨m', a', b'⟩ := t
      simp only at s1 s2 s3 s4 s5 s6 s7 s8 ⊢
      have va : a'.view = a.view := by rcases s7 with r | r <;> simp [r, gav]
      have vb : b'.view = b.view := by rcases s8 with r | r <;> simp [r, gbv]
      have wa' : a'.WF := by rcases s7 with r | r <;> simp [r, gaw, wa]
      have wb' : b'.WF := by rcases s8 with r | r <;> simp [r, gbw, wb]
      have da' : a'.dir = m.bkwd := by rcases s7 with r | r <;> simp [r, gad, da]
      have db' : b'.dir = m.bkwd := by rcases s8 with r | r <;> simp [r, gbd, db]
      rw [va, vb, s2]
      refine ⟨?_, rfl, ⟨wa', wb', da', db', s3, s4, Or.inr ⟨s1, ?_, ?_⟩⟩, rfl, trivial⟩
      · exact out_eq_head m' a.view b.view (by rw [s2]; exact s1) (fun h => (s5 h).1) (fun h => (s6 h).1) |>.trans (by rw [s2])
      · intro h; refine ⟨(s5 h).1, ?_⟩; rw [(s5 h).2]; exact gas
      · intro h; refine ⟨(s6 h).1, ?_⟩; rw [(s6 h).2]; exact gbs
    · have hs : m.selectState a b a.get b.get = (m, a, b) := by simp [MixSt.selectState, h0]
      simp only [get, hs, view, WF, dir, settled]
      rcases hst with hst | ⟨hs1, hs2, hs3⟩
      · exact absurd hst h0
      · refine ⟨?_, trivial, ⟨wa, wb, da, db, e1, e2, Or.inr ⟨hs1, hs2, hs3⟩⟩, trivial, trivial⟩
        exact out_eq_head m a.view b.view hs1 (fun h => (hs2 h).1) (fun h => (hs3 h).1)

theorem next_spec_aux (n : Nat) : ∀ it : It σ, it.size ≤ n → it.WF → it.settled →
    it.next.view = it.view.tail ∧ it.next.WF ∧ it.next.dir = it.dir := by
  induction n with
  | zero => intro it hn; cases it <;> simp [size] at hn
  | succ n ih =>
    intro it hn h hs
    cases it with
    | leaf s =>
      have := LawfulSource.next_spec s h hs
      simpa [next, view, WF, dir] using this
    | mix m a b =>
      have G := get_spec (It.mix m a b) h
      have hc := selectState_cases m a b a.get b.get
      rw [next]
      simp only [get] at G
      split
      rename_i m' a' b' heq
      rw [heq] at G hc
      simp only at G hc
      have sza : a'.size ≤ n := by
        have := get_size a; simp only [size] at hn
        rcases hc.1 with r | r <;> rw [r] <;> omega
      have szb : b'.size ≤ n := by
        have := get_size b; simp only [size] at hn
        rcases hc.2 with r | r <;> rw [r] <;> omega
      obtain ⟨_, gv, gw, gd, _⟩ := G
      obtain ⟨wa, wb, da, db, e1, e2, hst⟩ := gw
      simp only [view, dir] at gv gd
      -- after selectState the state is selected
      have hsel : m'.st = sel m'.bkwd a'.view b'.view ∧
          (m'.st = 1 → a'.view.head? = some m'.le1 ∧ a'.settled) ∧
          (m'.st = 2 → b'.view.head? = some m'.le2 ∧ b'.settled) := by
        rcases hst with hst | hst
        · exfalso
          by_cases h0 : m.st = 0
          · obtain ⟨wa0, wb0, _, _, e10, e20, _⟩ := h
            have S := selectState_sound m a b a.get b.get a.view b.view h0 e10 e20
              (get_spec a wa0).1 (get_spec b wb0).1 _ heq.symm
            simp only at S
            have := sel_range m.bkwd a.view b.view
            omega
          · have : m.selectState a b a.get b.get = (m, a, b) := by simp [MixSt.selectState, h0]
            rw [this] at heq
            simp only [Prod.mk.injEq] at heq
            rw [heq.1] at h0; exact h0 hst
        · exact hst
      obtain ⟨hs1, hs2, hs3⟩ := hsel
      rcases sel_range m'.bkwd a'.view b'.view with hc | hc | hc
      · have h1 : m'.st = 1 := hs1.trans hc
        obtain ⟨x, xs', ex, em⟩ := mergeSpec_sel1 hc
        obtain ⟨nv, nw, nd⟩ := ih a' sza wa (hs2 h1).2
        simp only [h1, view, WF, dir]
        rw [← gv, em, nv, ex]
        refine ⟨by simp, ⟨nw, wb, nd.trans da, db, ?_, e2, by simp⟩, gd⟩
        intro h; rw [e1 h] at ex; simp at ex
      · have h2 : m'.st = 2 := hs1.trans hc
        obtain ⟨y, ys', ey, em⟩ := mergeSpec_sel2 hc
        obtain ⟨nv, nw, nd⟩ := ih b' szb wb (hs3 h2).2
        simp only [h2, view, WF, dir]
        rw [← gv, em, nv, ey]
        refine ⟨by simp, ⟨wa, nw, da, nd.trans db, e1, ?_, by simp⟩, gd⟩
        intro h; rw [e2 h] at ey; simp at ey
      · have h3 : m'.st = 3 := hs1.trans hc
        obtain ⟨ea, eb⟩ := mergeSpec_sel3 hc
        simp only [h3, view, WF, dir]
        rw [← gv]
        refine ⟨by simp [ea, eb], ⟨wa, wb, da, db, e1, e2, by simp⟩, gd⟩

theorem next_spec (it : It σ) (h : it.WF) (hs : it.settled) :
    it.next.view = it.view.tail ∧ it.next.WF ∧ it.next.dir = it.dir :=
  next_spec_aux it.size it (Nat.le_refl _) h hs

theorem release_spec (it : It σ) (h : it.WF) :
    it.release.view = it.view ∧ it.release.WF ∧ it.release.dir = it.dir ∧ (it.settled → it.release.settled) := by
  induction it with
  | leaf s =>
    have := LawfulSource.release_spec s h
    simpa [release, view, WF, dir, settled] using this
  | mix m a b iha ihb =>
    obtain ⟨wa, wb, da, db, e1, e2, hst⟩ := h
    obtain ⟨rav, raw, rad, ras⟩ := iha wa
    obtain ⟨rbv, rbw, rbd, rbs⟩ := ihb wb
    simp only [release, view, WF, dir, settled, rav, rbv]
    refine ⟨trivial, ⟨raw, rbw, rad.trans da, rbd.trans db, by simp, by simp, ?_⟩, trivial, fun _ => trivial⟩
    rcases hst with hst | ⟨hs1, hs2, hs3⟩
    · left; simp [hst]
    · by_cases h3 : m.st = 3
      · left; simp [h3]
      · right
        simp only [h3, if_false]
        exact ⟨hs1, fun h => ⟨(hs2 h).1, ras (hs2 h).2⟩, fun h => ⟨(hs3 h).1, rbs (hs3 h).2⟩⟩

theorem setBackward_spec (bk : Bool) (it : It σ) (h : it.WF) :
    (it.setBackward bk).WF ∧ (it.setBackward bk).dir = bk := by
  induction it with
  | leaf s =>
    have := LawfulSource.setBackward_spec bk s h
    simpa [setBackward, WF, dir] using this
  | mix m a b iha ihb =>
    obtain ⟨wa, wb, da, db, e1, e2, hst⟩ := h
    by_cases hb : m.bkwd = bk
    · subst hb
      rw [setBackward, if_pos rfl]
      simp only [WF, dir]
      exact ⟨⟨wa, wb, da, db, e1, e2, hst⟩, trivial⟩
    · obtain ⟨sa, sad⟩ := iha wa
      obtain ⟨sb, sbd⟩ := ihb wb
      obtain ⟨_, raw, rad, _⟩ := release_spec _ sa
      obtain ⟨_, rbw, rbd, _⟩ := release_spec _ sb
      simp only [setBackward, hb, if_false, release, WF, dir]
      exact ⟨⟨raw, rbw, rad.trans sad, rbd.trans sbd, by simp, by simp, by simp⟩, trivial⟩

/-- the stream after a real change of direction: the merge, in the new direction, of what the two sources deliver
after *their* change of direction -/
theorem setBackward_view (bk : Bool) (m : MixSt) (a b : It σ) (h : (It.mix m a b).WF) (hb : m.bkwd ≠ bk) :
    ((It.mix m a b).setBackward bk).view = mergeSpec bk (a.setBackward bk).view (b.setBackward bk).view := by
  obtain ⟨wa, wb, _⟩ := h
  obtain ⟨rav, _⟩ := release_spec _ (setBackward_spec bk a wa).1
  obtain ⟨rbv, _⟩ := release_spec _ (setBackward_spec bk b wb).1
  simp only [setBackward, hb, if_false, release, view, rav, rbv]

/-- a tree of mixers over lawful sources is a lawful source: mixers compose -/
instance instLawfulIt : LawfulSource (It σ) where
  view := view
  dir := dir
  wf := WF
  settled := settled
  get_spec := get_spec
  next_spec := next_spec
  release_spec := release_spec
  setBackward_spec := setBackward_spec

/-! ## the reading loop -/

theorem drain_eq_view (f : Nat) (it : It σ) (h : it.WF) (hf : it.view.length < f) : it.drain f = it.view := by
  induction f generalizing it with
  | zero => omega
  | succ f ih =>
    obtain ⟨g2, gv, gw, _, gs⟩ := get_spec it h
    obtain ⟨nv, nw, _⟩ := next_spec _ gw gs
    rw [drain]
    cases hv : it.view with
    | nil =>
      rw [hv] at g2
      split
      · rename_i it' e heq; rw [heq] at g2; simp at g2
      · rfl
    | cons x xs =>
      rw [hv] at g2 hf
      split
      · rename_i it' e heq
        rw [heq] at g2 gv gw gs nv nw
        simp only [List.head?_cons, Option.some.injEq] at g2
        have : it'.next.view.length < f := by rw [nv, gv, hv]; simp at hf ⊢; omega
        rw [ih _ nw this, nv, gv, hv, g2]; rfl
      · rename_i heq; rw [heq] at g2; simp at g2

theorem drainRel_eq_view (rel : Nat → Bool × Bool) (f k : Nat) (it : It σ) (h : it.WF)
    (hf : it.view.length < f) : it.drainRel rel f k = it.view := by
  induction f generalizing it k with
  | zero => omega
  | succ f ih =>
    rw [drainRel]
    -- the optional release before the Get
    have h1 : ∃ it1 : It σ, (if (rel k).1 = true then it.release else it) = it1 ∧ it1.WF ∧ it1.view = it.view := by
      by_cases c : (rel k).1 = true
      · obtain ⟨rv, rw', _, _⟩ := release_spec it h
        exact ⟨_, rfl, by simp [c, rw'], by simp [c, rv]⟩
      · exact ⟨_, rfl, by simp [c, h], by simp [c]⟩
    obtain ⟨it1, e1, w1, v1⟩ := h1
    simp only [e1]
    obtain ⟨g2, gv, gw, _, gs⟩ := get_spec it1 w1
    cases hv : it.view with
    | nil =>
      rw [v1, hv] at g2
      split
      · rename_i it' e heq; rw [heq] at g2; simp at g2
      · rfl
    | cons x xs =>
      rw [v1, hv] at g2
      rw [hv] at hf
      split
      · rename_i it' e heq
        rw [heq] at g2 gv gw gs
        simp only [List.head?_cons, Option.some.injEq] at g2
        have h2 : ∃ it2 : It σ, (if (rel k).2 = true then it'.release else it') = it2 ∧ it2.WF ∧ it2.view = it'.view ∧
            it2.settled := by
          by_cases c : (rel k).2 = true
          · obtain ⟨rv, rw', _, rs⟩ := release_spec it' gw
            exact ⟨_, rfl, by simp [c, rw'], by simp [c, rv], by simp [c, rs gs]⟩
          · exact ⟨_, rfl, by simp [c, gw], by simp [c], by simp [c, gs]⟩
        obtain ⟨it2, e2, w2, v2, s2⟩ := h2
        simp only [e2]
        obtain ⟨nv, nw, _⟩ := next_spec _ w2 s2
        have : it2.next.view.length < f := by rw [nv, v2, gv, v1, hv]; simp at hf ⊢; omega
        rw [ih _ _ nw this, nv, v2, gv, v1, hv, g2]; rfl
      · rename_i heq; rw [heq] at g2; simp at g2

/-! ## what the stream of a tree is made of -/

theorem init_WF (a b : It σ) (wa : a.WF) (wb : b.WF) (da : a.dir = false) (db : b.dir = false) :
    (init a b).WF ∧ (init a b).dir = false := by
  unfold init
  simp only [WF, dir]
  exact ⟨⟨wa, wb, da, db, by simp, by simp, by simp⟩, trivial⟩

theorem init_view (a b : It σ) : (init a b).view = mergeSpec false a.view b.view := rfl

/-- every event the tree delivers comes from exactly one leaf: the stream is a permutation of the concatenated
leaf streams (in any mixer state) -/
theorem view_perm_leaves (it : It σ) : it.view.Perm (it.leaves.flatMap LawfulSource.view) := by
  induction it with
  | leaf s => simp [view, leaves]
  | mix m a b iha ihb =>
    simp only [view, leaves, List.flatMap_append]
    exact (mergeSpec_perm _ _ _).trans (iha.append ihb)

/-- the events of each leaf keep their order -/
theorem view_sublist_leaf (it : It σ) : ∀ s ∈ it.leaves, (LawfulSource.view s).Sublist it.view := by
  induction it with
  | leaf s => intro s' hs; simp [leaves] at hs; subst hs; simp [view]
  | mix m a b iha ihb =>
    intro s hs
    simp only [leaves, List.mem_append] at hs
    simp only [view]
    rcases hs with hs | hs
    · exact (iha s hs).trans (mergeSpec_sublist_left _ _ _)
    · exact (ihb s hs).trans (mergeSpec_sublist_right _ _ _)

/-- in a well-formed tree every mixer runs in the tree's direction -/
theorem view_sorted (it : It σ) (h : it.WF) (hs : ∀ s ∈ it.leaves, (LawfulSource.view s).Pairwise (ord it.dir)) :
    it.view.Pairwise (ord it.dir) := by
  induction it with
  | leaf s => simpa [view, leaves, dir] using hs
  | mix m a b iha ihb =>
    obtain ⟨wa, wb, da, db, _⟩ := h
    simp only [view, dir, leaves, List.mem_append] at hs ⊢
    apply mergeSpec_sorted
    · rw [← da]; exact iha wa (fun s h => by rw [da]; exact hs s (Or.inl h))
    · rw [← db]; exact ihb wb (fun s h => by rw [db]; exact hs s (Or.inr h))

/-! ## the sources of a tree after a direction switch -/

theorem WF_leaves (it : It σ) (h : it.WF) : ∀ s ∈ it.leaves, LawfulSource.wf s := by
  induction it with
  | leaf s => intro s' hs; simp [leaves] at hs; subst hs; exact h
  | mix m a b iha ihb =>
    intro s hs
    simp only [leaves, List.mem_append] at hs
    rcases hs with hs | hs
    · exact iha h.1 s hs
    · exact ihb h.2.1 s hs

theorem release_leaves (it : It σ) : it.release.leaves = it.leaves.map Source.release := by
  induction it with
  | leaf s => simp [release, leaves]
  | mix m a b iha ihb => simp [release, leaves, iha, ihb]

theorem map_view_release (l : List σ) (h : ∀ s ∈ l, LawfulSource.wf s) :
    (l.map Source.release).map LawfulSource.view = l.map LawfulSource.view := by
  induction l with
  | nil => rfl
  | cons x xs ih =>
    simp only [List.map_cons]
    rw [(LawfulSource.release_spec x (h x (by simp))).1, ih (fun s hs => h s (by simp [hs]))]

/-- after a real change of direction the streams of the tree's sources are the streams of the old tree's sources, each
switched (`Mixer.SetBackward` also releases them — possibly several times in a nested tree — which changes no stream) -/
theorem setBackward_leaves_views (bk : Bool) (it : It σ) (h : it.WF) (hd : it.dir ≠ bk) :
    (it.setBackward bk).leaves.map LawfulSource.view =
      it.leaves.map (fun s => LawfulSource.view (Source.setBackward bk s)) := by
  induction it with
  | leaf s => simp [setBackward, leaves]
  | mix m a b iha ihb =>
    obtain ⟨wa, wb, da, db, _⟩ := h
    have hb : m.bkwd ≠ bk := hd
    have ha' := iha wa (by rw [da]; exact hb)
    have hb' := ihb wb (by rw [db]; exact hb)
    have wa' := WF_leaves _ (setBackward_spec bk a wa).1
    have wb' := WF_leaves _ (setBackward_spec bk b wb).1
    simp only [setBackward, hb, if_false, release, leaves, List.map_append, release_leaves]
    rw [map_view_release _ wa', map_view_release _ wb', ha', hb']

/-! ## re-positioning a cursor (`crsr.ApplyState`)

`ApplyState` moves the journal iterators (`SetPos`) behind the mixers' back and then switches the whole tree backward and
forward again. `Release` would not do: the selections survive it. A real direction switch makes every mixer forget everything
(`eof` flags, `st`, whatever the buffers hold), *whatever* its state was — the tree need not be well formed before. -/

/-- all the switch needs: well-formed sources, everything running in direction `d`; nothing about what the mixers remember -/
def DirOK (d : Bool) : It σ → Prop
  | .leaf s => LawfulSource.wf s ∧ LawfulSource.dir s = d
  | .mix m a b => m.bkwd = d ∧ a.DirOK d ∧ b.DirOK d

theorem WF_DirOK (it : It σ) (h : it.WF) : it.DirOK it.dir := by
  induction it with
  | leaf s => exact ⟨h, rfl⟩
  | mix m a b iha ihb =>
    obtain ⟨wa, wb, da, db, _⟩ := h
    have ha := iha wa
    have hb := ihb wb
    rw [da] at ha; rw [db] at hb
    exact ⟨rfl, ha, hb⟩

theorem mapLeaves_DirOK (g : σ → σ) (d : Bool) (it : It σ) (h : it.DirOK d)
    (hg : ∀ s ∈ it.leaves, LawfulSource.wf (g s) ∧ LawfulSource.dir (g s) = d) : (it.mapLeaves g).DirOK d := by
  induction it with
  | leaf s => exact hg s (by simp [leaves])
  | mix m a b iha ihb =>
    exact ⟨h.1, iha h.2.1 (fun s hs => hg s (by simp [leaves, hs])), ihb h.2.2 (fun s hs => hg s (by simp [leaves, hs]))⟩

/-- a real direction switch yields a well-formed tree from any mixer states -/
theorem setBackward_of_DirOK (bk d : Bool) (it : It σ) (h : it.DirOK d) (hd : d ≠ bk) :
    (it.setBackward bk).WF ∧ (it.setBackward bk).dir = bk := by
  induction it with
  | leaf s =>
    have := LawfulSource.setBackward_spec bk s h.1
    simpa [setBackward, WF, dir] using this
  | mix m a b iha ihb =>
    obtain ⟨hm, ha, hb⟩ := h
    have hne : m.bkwd ≠ bk := hm ▸ hd
    obtain ⟨sa, sad⟩ := iha ha
    obtain ⟨sb, sbd⟩ := ihb hb
    obtain ⟨_, raw, rad, _⟩ := release_spec _ sa
    obtain ⟨_, rbw, rbd, _⟩ := release_spec _ sb
    simp only [setBackward, hne, if_false, release, WF, dir]
    exact ⟨⟨raw, rbw, rad.trans sad, rbd.trans sbd, by simp, by simp, by simp⟩, trivial⟩

/-- the sources after the switch, seen through any observation `F` that `Release` does not change -/
theorem setBackward_leaves_map {β : Type} (F : σ → β)
    (hF : ∀ s, LawfulSource.wf s → F (Source.release s) = F s)
    (bk d : Bool) (it : It σ) (h : it.DirOK d) (hd : d ≠ bk) :
    (it.setBackward bk).leaves.map F = it.leaves.map (fun s => F (Source.setBackward bk s)) := by
  have mapF : ∀ l : List σ, (∀ s ∈ l, LawfulSource.wf s) → (l.map Source.release).map F = l.map F := by
    intro l hl
    induction l with
    | nil => rfl
    | cons x xs ih =>
      simp only [List.map_cons]
      rw [hF x (hl x (by simp)), ih (fun s hs => hl s (by simp [hs]))]
  induction it with
  | leaf s => simp [setBackward, leaves]
  | mix m a b iha ihb =>
    obtain ⟨hm, ha, hb⟩ := h
    have hne : m.bkwd ≠ bk := hm ▸ hd
    have wa' := WF_leaves _ (setBackward_of_DirOK bk d a ha hd).1
    have wb' := WF_leaves _ (setBackward_of_DirOK bk d b hb hd).1
    simp only [setBackward, hne, if_false, release, leaves, List.map_append, release_leaves]
    rw [mapF _ wa', mapF _ wb', iha ha, ihb hb]

/-! ## appends behind a page boundary

Between two pages of one read (`crsr.commit`, `WaitNewData`) the cursor is `Release`d and writers may append to the
partitions. `Release` resets the `eof` flags (and `st = 3`) precisely so that nothing the mixers remember can be invalidated by
records that arrive *after everything that is still undelivered*: the selections that survive a `Release` (`st = 1/2`, with the
buffered head) stay the ones the merge would make. -/

/-- the state `Release` leaves every mixer in: no `eof` flag set, not "both ended" -/
def Released : It σ → Prop
  | .leaf _ => True
  | .mix m a b => m.eof1 = false ∧ m.eof2 = false ∧ m.st ≠ 3 ∧ a.Released ∧ b.Released

theorem release_Released (it : It σ) : it.release.Released := by
  induction it with
  | leaf s => trivial
  | mix m a b iha ihb =>
    simp only [release, Released]
    refine ⟨trivial, trivial, ?_, iha, ihb⟩
    by_cases h : m.st = 3 <;> simp [h]

/-- `e` is later than everything in `H` (the events that were still undelivered when it arrived) -/
def Late (H : List Ev) (e : Ev) : Prop := ∀ x ∈ H, x.ts < e.ts

/-- what an append may do to a source, seen from the mixer (forward): the source stays well formed and in its direction, a
source that had been asked stays asked, a non-empty stream keeps its head, and what shows up in a stream that had ended is
later than everything in `H` -/
def GrowsTo (H : List Ev) (s s' : σ) : Prop :=
  LawfulSource.wf s' ∧ LawfulSource.dir s' = LawfulSource.dir s ∧
  (LawfulSource.settled s → LawfulSource.settled s') ∧
  (∀ x, (LawfulSource.view s).head? = some x → (LawfulSource.view s').head? = some x) ∧
  (LawfulSource.view s = [] → ∀ e ∈ LawfulSource.view s', Late H e)

theorem mapLeaves_leaves (f : σ → σ) (it : It σ) : (it.mapLeaves f).leaves = it.leaves.map f := by
  induction it with
  | leaf s => simp [mapLeaves, leaves]
  | mix m a b iha ihb => simp [mapLeaves, leaves, iha, ihb]

/-- the selection and the head of a forward merge do not change when both streams grow in the `GrowsTo` way -/
theorem sel_grow (H va vb va' vb' : List Ev) (hHa : ∀ x ∈ va, x ∈ H) (hHb : ∀ x ∈ vb, x ∈ H)
    (a4 : ∀ x, va.head? = some x → va'.head? = some x) (a5 : va = [] → ∀ e ∈ va', Late H e)
    (b4 : ∀ x, vb.head? = some x → vb'.head? = some x) (b5 : vb = [] → ∀ e ∈ vb', Late H e)
    (hne : sel false va vb ≠ 3) :
    sel false va' vb' = sel false va vb ∧ (mergeSpec false va' vb').head? = (mergeSpec false va vb).head? := by
  cases va with
  | nil =>
    cases vb with
    | nil => simp [sel] at hne
    | cons y ys =>
      have hy := b4 y rfl
      cases vb' with
      | nil => simp at hy
      | cons y' ys' =>
        simp only [List.head?_cons, Option.some.injEq] at hy; subst hy
        cases va' with
        | nil => simp [sel]
        | cons e es =>
          have hl : y'.ts < e.ts := a5 rfl e (by simp) y' (hHb y' (by simp))
          have hp : pick false e y' = false := by simp [pick]; omega
          simp [sel, mergeSpec_cons_cons, hp]
  | cons x xs =>
    have hx := a4 x rfl
    cases va' with
    | nil => simp at hx
    | cons x' xs' =>
      simp only [List.head?_cons, Option.some.injEq] at hx; subst hx
      cases vb with
      | nil =>
        cases vb' with
        | nil => simp [sel]
        | cons e es =>
          have hl : x'.ts < e.ts := b5 rfl e (by simp) x' (hHa x' (by simp))
          have hp : pick false x' e = true := by simp [pick]; omega
          simp [sel, mergeSpec_cons_cons, hp]
      | cons y ys =>
        have hy := b4 y rfl
        cases vb' with
        | nil => simp at hy
        | cons y' ys' =>
          simp only [List.head?_cons, Option.some.injEq] at hy; subst hy
          simp only [sel, mergeSpec_cons_cons]
          split <;> simp

/-- **a released tree whose sources grow stays a correct merger**: every mixer state that survives `Release` is still the
state the merge of the *grown* streams prescribes -/
theorem mapLeaves_grow (f : σ → σ) (H : List Ev) (it : It σ) (h : it.WF) (hr : it.Released) (hd : it.dir = false)
    (hH : ∀ x ∈ it.view, x ∈ H) (hf : ∀ s ∈ it.leaves, GrowsTo H s (f s)) :
    (it.mapLeaves f).WF ∧ (it.mapLeaves f).dir = false ∧ (it.settled → (it.mapLeaves f).settled) ∧
    (∀ x, it.view.head? = some x → (it.mapLeaves f).view.head? = some x) ∧
    (it.view = [] → ∀ e ∈ (it.mapLeaves f).view, Late H e) := by
  induction it with
  | leaf s =>
    obtain ⟨g1, g2, g3, g4, g5⟩ := hf s (by simp [leaves])
    exact ⟨g1, by rw [← hd]; exact g2, g3, g4, g5⟩
  | mix m a b iha ihb =>
    obtain ⟨wa, wb, da, db, _, _, hst⟩ := h
    obtain ⟨r1, r2, r3, ra, rb⟩ := hr
    have hb : m.bkwd = false := hd
    have hHa : ∀ x ∈ a.view, x ∈ H := fun x hx => hH x (by simp only [view]; exact (mem_mergeSpec _ _ _ _).mpr (Or.inl hx))
    have hHb : ∀ x ∈ b.view, x ∈ H := fun x hx => hH x (by simp only [view]; exact (mem_mergeSpec _ _ _ _).mpr (Or.inr hx))
    obtain ⟨A1, A2, A3, A4, A5⟩ := iha wa ra (by rw [da, hb]) hHa
      (fun s hs => hf s (by simp only [leaves, List.mem_append]; exact Or.inl hs))
    obtain ⟨B1, B2, B3, B4, B5⟩ := ihb wb rb (by rw [db, hb]) hHb
      (fun s hs => hf s (by simp only [leaves, List.mem_append]; exact Or.inr hs))
    simp only [mapLeaves, WF, dir, settled, view, hb] at *
    refine ⟨⟨A1, B1, A2, B2, by simp [r1], by simp [r2], ?_⟩, trivial, fun _ => trivial, ?_, ?_⟩
    · rcases hst with h0 | ⟨hs1, hs2, hs3⟩
      · exact Or.inl h0
      · right
        have hne : sel false a.view b.view ≠ 3 := by rw [← hs1]; exact r3
        have G := sel_grow H _ _ _ _ hHa hHb A4 A5 B4 B5 hne
        refine ⟨hs1.trans G.1.symm, ?_, ?_⟩
        · intro h1; exact ⟨A4 _ (hs2 h1).1, A3 (hs2 h1).2⟩
        · intro h2; exact ⟨B4 _ (hs3 h2).1, B3 (hs3 h2).2⟩
    · intro x hx
      have hne : sel false a.view b.view ≠ 3 := by
        intro h3
        obtain ⟨ea, eb⟩ := mergeSpec_sel3 h3
        rw [ea, eb] at hx; simp at hx
      rw [(sel_grow H _ _ _ _ hHa hHb A4 A5 B4 B5 hne).2]; exact hx
    · intro he e hm
      have hl : (mergeSpec false a.view b.view).length = 0 := by rw [he]; rfl
      rw [(mergeSpec_perm _ _ _).length_eq, List.length_append] at hl
      have ea : a.view = [] := List.eq_nil_of_length_eq_zero (by omega)
      have eb : b.view = [] := List.eq_nil_of_length_eq_zero (by omega)
      rcases (mem_mergeSpec _ _ _ _).mp hm with hm | hm
      · exact A5 ea e hm
      · exact B5 eb e hm

end It

/-! ## the in-memory leaf is a lawful source -/

namespace Leaf

def view (l : Leaf) : List Ev :=
  if l.bkwd then ((l.les.take (l.idx + 1).toNat).reverse).map l.ev else (l.les.drop l.idx.toNat).map l.ev
def wf (l : Leaf) : Prop := -1 ≤ l.idx ∧ l.idx ≤ l.les.length
def settled (l : Leaf) : Prop := if l.bkwd then l.idx < l.les.length else 0 ≤ l.idx

theorem head_rev_take (les : List Rec) (k : Nat) (hk : k < les.length) :
    ((les.take (k+1)).reverse).head? = les[k]? := by
  rw [List.head?_reverse, List.getLast?_eq_getElem?]
  simp [List.length_take, Nat.min_eq_left (Nat.succ_le_of_lt hk)]

theorem tail_rev_take (les : List Rec) (k : Nat) (hk : k < les.length) :
    ((les.take (k+1)).reverse).tail = (les.take k).reverse := by
  rw [List.tail_reverse, List.dropLast_eq_take, List.take_take, List.length_take]
  congr 2; omega

theorem get_eq (l : Leaf) : l.get = ({ l with idx := l.clamp },
    if l.clamp < l.les.length ∧ l.clamp ≥ 0 then (l.les[l.clamp.toNat]?).map l.ev else none) := rfl

theorem view_idx (l : Leaf) (i : Int) (h : if l.bkwd then (i + 1).toNat = (l.idx + 1).toNat ∨
      (l.les.length ≤ (i+1).toNat ∧ l.les.length ≤ (l.idx+1).toNat) else i.toNat = l.idx.toNat) :
    ({ l with idx := i } : Leaf).view = l.view := by
  unfold view
  cases hb : l.bkwd
  · simp only [hb] at h ⊢; simp only [Bool.false_eq_true, if_false] at h ⊢; rw [h]; rfl
  · simp only [hb, if_true] at h ⊢
    rcases h with h | ⟨h1, h2⟩
    · rw [h]; rfl
    · rw [List.take_of_length_le h1, List.take_of_length_le h2]; rfl

theorem get_spec (l : Leaf) (h : l.wf) :
    l.get.2 = l.view.head? ∧ l.get.1.view = l.view ∧ l.get.1.wf ∧ l.get.1.bkwd = l.bkwd ∧ l.get.1.settled := by
  obtain ⟨h1, h2⟩ := h
  rw [get_eq]
  by_cases hbt : l.bkwd = true
  · -- backward
    have hb := hbt
    have hc : l.clamp = (l.les.length : Int) - 1 ∧ l.idx ≥ l.les.length ∨ l.clamp = l.idx ∧ l.idx < l.les.length := by
      by_cases hge : l.idx ≥ l.les.length
      · left; simp [clamp, hb, hge]
      · right; exact ⟨by simp [clamp, hb, hge], by omega⟩
    have hv : ({ l with idx := l.clamp } : Leaf).view = l.view :=
      view_idx l l.clamp (by simp only [hb, if_true]; omega)
    have hw : ({ l with idx := l.clamp } : Leaf).wf := by
      show -1 ≤ l.clamp ∧ l.clamp ≤ (l.les.length : Int)
      omega
    have hs : ({ l with idx := l.clamp } : Leaf).settled := by
      show (if l.bkwd = true then l.clamp < (l.les.length : Int) else 0 ≤ l.clamp)
      rw [hb]; simp only [if_true]; omega
    refine ⟨?_, hv, hw, rfl, hs⟩
    show (if l.clamp < l.les.length ∧ l.clamp ≥ 0 then (l.les[l.clamp.toNat]?).map l.ev else none) = l.view.head?
    simp only [view, hb, if_true, List.head?_map]
    by_cases hpos : l.clamp ≥ 0
    · have hlt : l.clamp.toNat < l.les.length := by omega
      have e : (l.idx + 1).toNat = l.clamp.toNat + 1 ∨ (l.les.length ≤ (l.idx+1).toNat ∧ l.clamp.toNat + 1 = l.les.length) := by
        omega
      have : l.clamp < l.les.length ∧ l.clamp ≥ 0 := by omega
      simp only [this, and_self, if_true]
      rcases e with e | ⟨e1, e2⟩
      · rw [e, head_rev_take _ _ hlt]
      · rw [List.take_of_length_le e1, ← head_rev_take _ _ hlt, List.take_of_length_le (Nat.le_of_eq e2.symm)]
    · have : ¬ (l.clamp < l.les.length ∧ l.clamp ≥ 0) := by omega
      have e : l.les.take (l.idx + 1).toNat = [] := by
        rcases hc with ⟨c1, c2⟩ | ⟨c1, c2⟩
        · have h0 : l.les.length = 0 := by omega
          simp [List.eq_nil_of_length_eq_zero h0]
        · have h0 : (l.idx + 1).toNat = 0 := by omega
          simp [h0]
      simp [this, e]
  · -- forward
    have hb : l.bkwd = false := by simpa using hbt
    have hc : l.clamp = 0 ∧ l.idx < 0 ∨ l.clamp = l.idx ∧ 0 ≤ l.idx := by
      by_cases hneg : l.idx < 0
      · left; simp [clamp, hb, hneg]
      · right; exact ⟨by simp [clamp, hb, hneg], by omega⟩
    have hn : l.clamp.toNat = l.idx.toNat := by omega
    have hv : ({ l with idx := l.clamp } : Leaf).view = l.view :=
      view_idx l l.clamp (by simp only [hb]; exact hn)
    have hw : ({ l with idx := l.clamp } : Leaf).wf := by
      show -1 ≤ l.clamp ∧ l.clamp ≤ (l.les.length : Int)
      omega
    have hs : ({ l with idx := l.clamp } : Leaf).settled := by
      show (if l.bkwd = true then l.clamp < (l.les.length : Int) else 0 ≤ l.clamp)
      rw [hb]; simp only [Bool.false_eq_true, if_false]; omega
    refine ⟨?_, hv, hw, rfl, hs⟩
    show (if l.clamp < l.les.length ∧ l.clamp ≥ 0 then (l.les[l.clamp.toNat]?).map l.ev else none) = l.view.head?
    simp only [view, hb, hn, List.head?_map, List.head?_drop, Bool.false_eq_true, if_false]
    by_cases hlt : l.idx.toNat < l.les.length
    · have : l.clamp < l.les.length ∧ l.clamp ≥ 0 := by omega
      simp [this]
    · have : ¬ (l.clamp < l.les.length ∧ l.clamp ≥ 0) := by omega
      have e : l.les[l.idx.toNat]? = none := by simp; omega
      simp [this, e]

theorem next_spec (l : Leaf) (h : l.wf) (hs : l.settled) :
    l.next.view = l.view.tail ∧ l.next.wf ∧ l.next.bkwd = l.bkwd := by
  obtain ⟨h1, h2⟩ := h
  unfold settled at hs
  by_cases hbt : l.bkwd = true
  · simp only [hbt, if_true] at hs
    by_cases hge : l.idx ≥ 0
    · have e : l.next = { l with idx := l.idx - 1 } := by simp [next, hbt, hge]
      rw [e]
      refine ⟨?_, ⟨by show -1 ≤ l.idx - 1; omega, by show l.idx - 1 ≤ (l.les.length : Int); omega⟩, rfl⟩
      show (if l.bkwd = true then _ else _) = _
      simp only [view, hbt, if_true]
      have e1 : (l.idx + 1).toNat = l.idx.toNat + 1 := by omega
      have e2 : (l.idx - 1 + 1).toNat = l.idx.toNat := by omega
      rw [e1, e2, ← List.map_tail, tail_rev_take _ _ (by omega)]; rfl
    · have e : l.next = l := by simp [next, hbt, hge]
      rw [e]
      refine ⟨?_, ⟨h1, h2⟩, rfl⟩
      have e1 : (l.idx + 1).toNat = 0 := by omega
      simp [view, hbt, e1]
  · have hb : l.bkwd = false := by simpa using hbt
    simp only [hb, Bool.false_eq_true, if_false] at hs
    by_cases hlt : l.idx < l.les.length
    · have e : l.next = { l with idx := l.idx + 1 } := by simp [next, hb, hlt]
      rw [e]
      refine ⟨?_, ⟨by show -1 ≤ l.idx + 1; omega, by show l.idx + 1 ≤ (l.les.length : Int); omega⟩, rfl⟩
      show (if l.bkwd = true then _ else _) = _
      simp only [view, hb, Bool.false_eq_true, if_false]
      have e1 : (l.idx + 1).toNat = l.idx.toNat + 1 := by omega
      rw [e1, ← List.map_tail, List.tail_drop]; rfl
    · have e : l.next = l := by simp [next, hb, hlt]
      rw [e]
      refine ⟨?_, ⟨h1, h2⟩, rfl⟩
      have : l.les.length ≤ l.idx.toNat := by omega
      simp [view, hb, List.drop_eq_nil_of_le this]

instance : LawfulSource Leaf where
  view := view
  dir := (·.bkwd)
  wf := wf
  settled := settled
  get_spec := get_spec
  next_spec := next_spec
  release_spec := fun _ h => ⟨rfl, h, rfl, id⟩
  setBackward_spec := fun _ _ h => ⟨h, rfl⟩

/-- appending a late record to the slice under a forward-running in-memory iterator is a growth in the sense of `GrowsTo` -/
theorem append_growsTo (H : List Ev) (l : Leaf) (r : Rec) (hw : l.wf) (hb : l.bkwd = false)
    (hl : It.Late H (l.ev r)) : It.GrowsTo H l (l.append r) := by
  obtain ⟨h1, h2⟩ := hw
  have hv : (l.append r).view = l.view ++ [l.ev r] := by
    simp only [view, append, hb, Bool.false_eq_true, if_false]
    rw [List.drop_append_of_le_length (by omega)]
    simp only [List.map_append, List.map_cons, List.map_nil]
    rfl
  refine ⟨⟨h1, by simp only [append, List.length_append, List.length_singleton]; omega⟩, rfl, ?_, ?_, ?_⟩
  · intro hs
    simpa [LawfulSource.settled, settled, append, hb] using hs
  · intro x hx
    show (l.append r).view.head? = some x
    have hx' : l.view.head? = some x := hx
    rw [hv]
    cases hvv : l.view with
    | nil => rw [hvv] at hx'; simp at hx'
    | cons y ys => rw [hvv] at hx'; simpa using hx'
  · intro he e hm
    have he' : l.view = [] := he
    have hm' : e ∈ (l.append r).view := hm
    rw [hv, he'] at hm'
    simp only [List.nil_append, List.mem_singleton] at hm'
    rw [hm']; exact hl

end Leaf

end Logrange.Mixer
