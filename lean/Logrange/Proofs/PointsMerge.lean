import Logrange.Proofs.Points
/-! The two remaining cases of `block.addInterval` at level 0 — merge into the covering interval and collapse to one
interval — preserve `IndexSound`; together with `add_preserves_append` this gives `add_preserves`. -/
namespace Logrange.Points

/-! ## general lemmas -/

/-- the kept prefix of the merge case, defined by recursion: the points with `ts ≤ t` up to the first larger one -/
def keep (t : Int) : List Pt → List Pt
  | [] => []
  | a :: r => if a.ts ≤ t then a :: keep t r else []

theorem keep_nil (t : Int) : keep t [] = [] := rfl

theorem keep_cons_le {a : Pt} {r : List Pt} {t : Int} (h : a.ts ≤ t) : keep t (a :: r) = a :: keep t r := by
  simp [keep, h]

theorem keep_cons_gt {a : Pt} {r : List Pt} {t : Int} (h : ¬ a.ts ≤ t) : keep t (a :: r) = [] := by
  simp [keep, h]

/-- `recs[:insIdx+1]` is the recursive prefix -/
theorem take_cntLE (t : Int) : ∀ (pts : List Pt), pts.take (cntLE pts t) = keep t pts := by
  intro pts
  induction pts with
  | nil => simp [keep]
  | cons a r ih =>
    by_cases ha : a.ts ≤ t
    · rw [cntLE_cons_le ha, keep_cons_le ha, List.take_succ_cons, ih]
    · rw [cntLE_cons_gt ha, keep_cons_gt ha]; simp

theorem mem_keep {t : Int} {p : Pt} : ∀ (pts : List Pt), p ∈ keep t pts → p ∈ pts ∧ p.ts ≤ t := by
  intro pts
  induction pts with
  | nil => intro h; simp [keep] at h
  | cons a r ih =>
    intro h
    by_cases ha : a.ts ≤ t
    · rw [keep_cons_le ha] at h
      cases h with
      | head => exact ⟨List.mem_cons_self, ha⟩
      | tail _ h' => exact ⟨List.mem_cons_of_mem _ (ih h').1, (ih h').2⟩
    · rw [keep_cons_gt ha] at h; simp at h

theorem cntLE_le_length (t : Int) : ∀ (pts : List Pt), cntLE pts t ≤ pts.length := by
  intro pts
  induction pts with
  | nil => simp [cntLE]
  | cons a r ih =>
    by_cases ha : a.ts ≤ t
    · rw [cntLE_cons_le ha]; simp; exact ih
    · rw [cntLE_cons_gt ha]; simp

theorem tailAbove_tail {tsOf : Nat → Int} {n : Nat} {a b : Pt} {r : List Pt} (ht : TailAbove tsOf n (a :: b :: r)) :
    TailAbove tsOf n (b :: r) := by
  intro q h1 h2
  have := ht q (by rw [lastD_cons_cons]; exact h1) h2
  rw [lastD_cons_cons] at this; exact this

/-- `after_ge` for every point of the list, not only the head -/
theorem after_ge_mem (tsOf : Nat → Int) (n : Nat) : ∀ (pts : List Pt), SortedTs pts → Claims tsOf pts →
    TailAbove tsOf n pts → ∀ p ∈ pts, ∀ q, p.idx < q → q < n → p.ts ≤ tsOf q := by
  intro pts
  induction pts with
  | nil => intro _ _ _ p hp; simp at hp
  | cons a r ih =>
    intro hs hc ht p hp q h1 h2
    cases hp with
    | head => exact after_ge tsOf n r a hs hc ht q h1 h2
    | tail _ hp' =>
      cases r with
      | nil => cases hp'
      | cons b r' => exact ih hs.2 hc.2 (tailAbove_tail ht) p hp' q h1 h2

/-- on a ts-sorted list the last point carries the largest timestamp -/
theorem mem_ts_le_lastD : ∀ (pts : List Pt), SortedTs pts → ∀ p ∈ pts, p.ts ≤ (lastD pts).ts := by
  intro pts
  induction pts with
  | nil => intro _ p hp; simp at hp
  | cons a r ih =>
    intro hs p hp
    cases r with
    | nil =>
      simp at hp; subst hp; rw [lastD_single]; exact Int.le_refl _
    | cons b r' =>
      rw [lastD_cons_cons]
      cases hp with
      | head =>
        have := ih hs.2 b List.mem_cons_self
        have := hs.1; omega
      | tail _ hp' => exact ih hs.2 p hp'

theorem upper_aux (tsOf : Nat → Int) : ∀ (r : List Pt) (a : Pt), SortedTs (a :: r) → Claims tsOf (a :: r) →
    (∀ q, q ≤ a.idx → tsOf q ≤ a.ts) → ∀ q, q ≤ (lastD (a :: r)).idx → tsOf q ≤ (lastD (a :: r)).ts := by
  intro r
  induction r with
  | nil => intro a _ _ H q hq; rw [lastD_single] at hq ⊢; exact H q hq
  | cons b r' ih =>
    intro a hs hc H q hq
    rw [lastD_cons_cons] at hq ⊢
    refine ih b hs.2 hc.2 ?_ q hq
    intro q' hq'
    by_cases h1 : q' ≤ a.idx
    · have := H q' h1; have := hs.1; omega
    · exact (hc.1 q' (by omega) hq').2

/-- under `IndexSound` every position up to the last point's has a timestamp ≤ the last point's -/
theorem below_last {tsOf : Nat → Int} {n : Nat} {pts : List Pt} (hs : IndexSound tsOf n pts) (hne : pts ≠ []) :
    ∀ q, q ≤ (lastD pts).idx → tsOf q ≤ (lastD pts).ts := by
  match pts, hs, hne with
  | [], _, hne => exact absurd rfl hne
  | [a], hs, _ => exact absurd rfl hs.len
  | a :: b :: r, hs, _ =>
    have hh := hs.head
    simp only [HeadOk] at hh
    intro q hq
    rw [lastD_cons_cons] at hq ⊢
    refine upper_aux tsOf r b hs.sortedTs.2 hs.claims.2 ?_ q hq
    intro q' hq'
    by_cases h0 : q' = 0
    · subst h0; exact hh.2.2
    · exact (hs.claims.1 q' (by omega) hq').2

/-- the upper timestamp of the rewritten last point bounds every position up to the end of the batch -/
theorem upper_new {tsOf : Nat → Int} {n : Nat} {pts : List Pt} (it : Iv) (hs : IndexSound tsOf n pts) (hne : pts ≠ [])
    (hn : it.p0.idx = n) (hb : BatchIn it tsOf) (hg : GapCovered pts it tsOf) :
    ∀ q, q ≤ it.p1.idx → tsOf q ≤ max it.p1.ts (lastD pts).ts := by
  intro q hq
  by_cases h1 : q ≤ (lastD pts).idx
  · have := below_last hs hne q h1; omega
  · by_cases h2 : q < it.p0.idx
    · have := hg q (by omega) h2; omega
    · have := (hb q (by omega) hq).2; omega

/-! ## the merge case on the recursive prefix -/

theorem merge_aux (tsOf : Nat → Int) (t : Int) (x : Pt) : ∀ (r : List Pt) (a : Pt), SortedTs (a :: r) →
    SortedIdx (a :: r) → Claims tsOf (a :: r) →
    (∀ p ∈ a :: r, p.ts ≤ t → ∀ q, p.idx < q → q ≤ x.idx → p.ts ≤ tsOf q) →
    (∀ q, q ≤ x.idx → tsOf q ≤ x.ts) →
    (∀ p ∈ a :: r, p.ts ≤ x.ts) → (∀ p ∈ a :: r, p.idx ≤ x.idx) → a.ts ≤ t →
    SortedTs (a :: (keep t r ++ [x])) ∧ SortedIdx (a :: (keep t r ++ [x])) ∧ Claims tsOf (a :: (keep t r ++ [x])) := by
  intro r
  induction r with
  | nil =>
    intro a _ _ _ L U T I ha
    have h1 := T a List.mem_cons_self
    have h2 := I a List.mem_cons_self
    refine ⟨⟨h1, trivial⟩, ⟨h2, trivial⟩, ⟨?_, trivial⟩⟩
    intro q hq1 hq2
    exact ⟨L a List.mem_cons_self ha q hq1 hq2, U q hq2⟩
  | cons b r' ih =>
    intro a hs hi hc L U T I ha
    by_cases hb : b.ts ≤ t
    · rw [keep_cons_le hb]
      have := ih b hs.2 hi.2 hc.2 (fun p hp => L p (List.mem_cons_of_mem _ hp)) U
        (fun p hp => T p (List.mem_cons_of_mem _ hp)) (fun p hp => I p (List.mem_cons_of_mem _ hp)) hb
      exact ⟨⟨hs.1, this.1⟩, ⟨hi.1, this.2.1⟩, ⟨hc.1, this.2.2⟩⟩
    · rw [keep_cons_gt hb]
      have h1 := T a List.mem_cons_self
      have h2 := I a List.mem_cons_self
      refine ⟨⟨h1, trivial⟩, ⟨h2, trivial⟩, ⟨?_, trivial⟩⟩
      intro q hq1 hq2
      exact ⟨L a List.mem_cons_self ha q hq1 hq2, U q hq2⟩

/-- the result of the merge case, on the recursive prefix -/
theorem merge_sound {tsOf : Nat → Int} {n n' : Nat} {pts : List Pt} (it : Iv) (hs : IndexSound tsOf n pts)
    (hk : keep it.p0.ts pts ≠ [])
    (hn : it.p0.idx = n) (hle : it.p0.idx ≤ it.p1.idx) (hn' : n' = it.p1.idx + 1) (hb : BatchIn it tsOf)
    (hg : GapCovered pts it tsOf) :
    IndexSound tsOf n' (keep it.p0.ts pts ++ [⟨max it.p1.ts (lastD pts).ts, it.p1.idx⟩]) := by
  match pts, hs, hk, hg with
  | [], _, hk, _ => exact absurd rfl hk
  | [a], hs, _, _ => exact absurd rfl hs.len
  | a :: b :: r, hs, hk, hg =>
    have hne : (a :: b :: r) ≠ [] := by simp
    have ha : a.ts ≤ it.p0.ts := by
      apply Classical.byContradiction
      intro h
      exact hk (keep_cons_gt h)
    have U := upper_new it hs hne hn hb hg
    generalize hx : (⟨max it.p1.ts (lastD (a :: b :: r)).ts, it.p1.idx⟩ : Pt) = x
    have hxi : x.idx = it.p1.idx := by rw [← hx]
    have hxt : x.ts = max it.p1.ts (lastD (a :: b :: r)).ts := by rw [← hx]
    rw [← hxt] at U
    have U' : ∀ q, q ≤ x.idx → tsOf q ≤ x.ts := by intro q hq; exact U q (by omega)
    have L : ∀ p ∈ a :: b :: r, p.ts ≤ it.p0.ts → ∀ q, p.idx < q → q ≤ x.idx → p.ts ≤ tsOf q := by
      intro p hp hpt q h1 h2
      by_cases hq : q < n
      · exact after_ge_mem tsOf n _ hs.sortedTs hs.claims (hs.tail hne) p hp q h1 hq
      · have := (hb q (by omega) (by omega)).1; omega
    have T : ∀ p ∈ a :: b :: r, p.ts ≤ x.ts := by
      intro p hp
      have := mem_ts_le_lastD _ hs.sortedTs p hp
      omega
    have I : ∀ p ∈ a :: b :: r, p.idx ≤ x.idx := by
      intro p hp
      have := hs.inChunk p hp
      omega
    have M := merge_aux tsOf it.p0.ts x (b :: r) a hs.sortedTs hs.sortedIdx hs.claims L U' T I ha
    rw [keep_cons_le ha]
    refine ⟨by simp, M.1, M.2.1, M.2.2, ?_, ?_, ?_⟩
    · -- HeadOk
      have hh := hs.head
      simp only [HeadOk] at hh
      by_cases hb' : b.ts ≤ it.p0.ts
      · rw [keep_cons_le hb']
        exact hh
      · rw [keep_cons_gt hb']
        exact ⟨hh.1, hh.2.1, U' 0 (by omega)⟩
    · intro _ q h1 h2
      have e : a :: keep it.p0.ts (b :: r) ++ [x] = (a :: keep it.p0.ts (b :: r)) ++ [x] := rfl
      rw [e, lastD_snoc] at h1
      omega
    · intro p hp
      have e : a :: keep it.p0.ts (b :: r) ++ [x] = (a :: keep it.p0.ts (b :: r)) ++ [x] := rfl
      rw [e, List.mem_append] at hp
      rcases hp with hp | hp
      · rw [← keep_cons_le ha] at hp
        have := hs.inChunk p (mem_keep _ hp).1
        omega
      · simp at hp; subst hp; omega

/-! ## the three cases of `add` -/

theorem add_merge_eq {pts : List Pt} (it : Iv) (hc1 : 0 < cntLE pts it.p0.ts) (hc2 : cntLE pts it.p0.ts < pts.length) :
    add pts it = keep it.p0.ts pts ++ [⟨max it.p1.ts (lastD pts).ts, it.p1.idx⟩] := by
  match pts, hc1, hc2 with
  | [], _, hc2 => simp at hc2
  | a :: r, hc1, hc2 =>
    simp only [add]
    rw [if_neg (by omega), if_neg (by omega), take_cntLE]

theorem add_collapse_eq {pts : List Pt} (it : Iv) (hc0 : cntLE pts it.p0.ts = 0) (hne : pts ≠ []) :
    add pts it = [⟨min it.p0.ts (headD pts).ts, min it.p0.idx (headD pts).idx⟩,
      ⟨max it.p1.ts (lastD pts).ts, it.p1.idx⟩] := by
  match pts, hc0, hne with
  | [], _, hne => exact absurd rfl hne
  | a :: r, hc0, _ =>
    simp only [add]
    rw [if_neg (by rw [hc0]; simp), if_pos hc0]

/-- **merge case** of `block.addInterval`: the batch starts inside the indexed time span; the records after the
covering interval's left point are replaced by one point `(max p1.ts last.ts, p1.idx)`. -/
theorem add_preserves_merge {tsOf : Nat → Int} {n n' : Nat} {pts : List Pt} (it : Iv) (hs : IndexSound tsOf n pts)
    (hc1 : 0 < cntLE pts it.p0.ts) (hc2 : cntLE pts it.p0.ts < pts.length)
    (hn : it.p0.idx = n) (hle : it.p0.idx ≤ it.p1.idx) (hn' : n' = it.p1.idx + 1) (hb : BatchIn it tsOf)
    (hg : GapCovered pts it tsOf) : IndexSound tsOf n' (add pts it) := by
  rw [add_merge_eq it hc1 hc2]
  apply merge_sound it hs _ hn hle hn' hb hg
  intro hk
  have := take_cntLE it.p0.ts pts
  rw [hk] at this
  have hl := congrArg List.length this
  rw [List.length_take] at hl
  simp only [List.length_nil] at hl
  omega

/-- **collapse case** of `block.addInterval`: the batch starts below every indexed timestamp; the whole block becomes
one interval `[(min p0.ts first.ts, 0), (max p1.ts last.ts, p1.idx)]`. -/
theorem add_preserves_collapse {tsOf : Nat → Int} {n n' : Nat} {pts : List Pt} (it : Iv) (hs : IndexSound tsOf n pts)
    (hc0 : cntLE pts it.p0.ts = 0) (hne : pts ≠ [])
    (hn : it.p0.idx = n) (hle : it.p0.idx ≤ it.p1.idx) (hn' : n' = it.p1.idx + 1) (hb : BatchIn it tsOf)
    (hg : GapCovered pts it tsOf) : IndexSound tsOf n' (add pts it) := by
  rw [add_collapse_eq it hc0 hne]
  have U := upper_new it hs hne hn hb hg
  have hb0 := hb it.p0.idx (Nat.le_refl _) hle
  match pts, hs, hc0, hne, hg, U with
  | [], _, _, hne, _, _ => exact absurd rfl hne
  | [a], hs, _, _, _, _ => exact absurd rfl hs.len
  | a :: b :: r, hs, hc0, hne, hg, U =>
    have hh := hs.head
    simp only [HeadOk] at hh
    have hhd : headD (a :: b :: r) = a := rfl
    rw [hhd]
    have hi0 : min it.p0.idx a.idx = 0 := by rw [hh.1]; omega
    rw [hi0]
    refine ⟨by simp, ?_, ?_, ?_, ?_, ?_, ?_⟩
    · show min it.p0.ts a.ts ≤ max it.p1.ts (lastD (a :: b :: r)).ts ∧ True
      refine ⟨?_, trivial⟩; omega
    · show 0 ≤ it.p1.idx ∧ True
      refine ⟨?_, trivial⟩; omega
    · refine ⟨?_, trivial⟩
      intro q h1 h2
      refine ⟨?_, U q h2⟩
      show min it.p0.ts a.ts ≤ tsOf q
      by_cases hq : q < n
      · have := after_ge tsOf n (b :: r) a hs.sortedTs hs.claims (hs.tail hne) q (by rw [hh.1]; exact h1) hq
        omega
      · have := (hb q (by omega) h2).1; omega
    · refine ⟨rfl, ?_, U 0 (by omega)⟩
      show min it.p0.ts a.ts ≤ tsOf 0
      have := hh.2.1; omega
    · intro _ q h1 h2
      simp [lastD] at h1
      omega
    · intro p hp
      simp at hp
      rcases hp with hp | hp <;> subst hp <;> simp <;> omega

/-- **`block.addInterval` at level 0 preserves `IndexSound`** (all three cases) -/
theorem add_preserves {tsOf : Nat → Int} {n n' : Nat} {pts : List Pt} (it : Iv) (hs : IndexSound tsOf n pts)
    (hn : it.p0.idx = n) (hle : it.p0.idx ≤ it.p1.idx) (hn' : n' = it.p1.idx + 1) (hb : BatchIn it tsOf)
    (hg : GapCovered pts it tsOf) (he : pts = [] → it.p0.idx = 0) : IndexSound tsOf n' (add pts it) := by
  by_cases hcase : cntLE pts it.p0.ts = pts.length
  · exact add_preserves_append it hs hcase hn hle hn' hb hg he
  · have hlt : cntLE pts it.p0.ts < pts.length := by
      have := cntLE_le_length it.p0.ts pts; omega
    by_cases hc0 : cntLE pts it.p0.ts = 0
    · have hne : pts ≠ [] := by
        intro h; subst h; simp at hlt
      exact add_preserves_collapse it hs hc0 hne hn hle hn' hb hg
    · exact add_preserves_merge it hs (by omega) hlt hn hle hn' hb hg

/-! ## concrete instances -/

/-- merge with `c = 1`: the batch starts inside the first interval, everything after the first point is replaced -/
example : add [⟨10, 0⟩, ⟨20, 5⟩, ⟨30, 9⟩] ⟨⟨15, 12⟩, ⟨25, 14⟩⟩ = [⟨10, 0⟩, ⟨30, 14⟩] := by decide
/-- merge with `c = 2` and a batch that raises the upper timestamp -/
example : add [⟨10, 0⟩, ⟨20, 5⟩, ⟨30, 9⟩] ⟨⟨22, 12⟩, ⟨40, 14⟩⟩ = [⟨10, 0⟩, ⟨20, 5⟩, ⟨40, 14⟩] := by decide
example : cntLE [⟨10, 0⟩, ⟨20, 5⟩, ⟨30, 9⟩] 22 = 2 ∧ keep 22 [⟨10, 0⟩, ⟨20, 5⟩, ⟨30, 9⟩] = [⟨10, 0⟩, ⟨20, 5⟩] := by decide
/-- collapse: the batch starts below the first point -/
example : add [⟨10, 0⟩, ⟨20, 5⟩, ⟨30, 9⟩] ⟨⟨5, 12⟩, ⟨25, 14⟩⟩ = [⟨5, 0⟩, ⟨30, 14⟩] := by decide
example : cntLE [⟨10, 0⟩, ⟨20, 5⟩, ⟨30, 9⟩] 5 = 0 := by decide
/-- append, for comparison -/
example : add [⟨10, 0⟩, ⟨20, 5⟩, ⟨30, 9⟩] ⟨⟨30, 12⟩, ⟨35, 14⟩⟩ = [⟨10, 0⟩, ⟨20, 5⟩, ⟨30, 9⟩, ⟨35, 14⟩] := by decide

/-
What is proved here (no extra hypotheses beyond the ones of `add_preserves_append`):

* general lemmas: `keep` (recursive form of `recs[:insIdx+1]`) with `take_cntLE`, `mem_keep`, `cntLE_le_length`;
  `after_ge_mem` (every position after ANY point, inside the chunk, has a timestamp ≥ the point's);
  `mem_ts_le_lastD`; `below_last` (every position ≤ last.idx has a timestamp ≤ last.ts);
  `upper_new` (every position ≤ p1.idx has a timestamp ≤ max p1.ts last.ts, from below_last / GapCovered / BatchIn);
* `merge_aux`, `merge_sound`: the list `keep p0.ts pts ++ [(max p1.ts last.ts, p1.idx)]` is sound whenever the kept
  prefix is not empty; `add_merge_eq`, `add_collapse_eq`: the shape of `add` in the two cases;
* `add_preserves_merge`   (0 < cntLE < length),
  `add_preserves_collapse` (cntLE = 0, pts ≠ []),
  `add_preserves`          (all cases; the append case is `add_preserves_append` of `Proofs/Points.lean`).
-/

end Logrange.Points
