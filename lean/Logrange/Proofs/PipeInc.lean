import Logrange.Model.PipeLtsInc
import Logrange.Proofs.PipeLts
/-!
# Lemmas for the incarnation LTS (C10): every incarnation of a pipe name is a pipe created once under a fresh name

The proof keeps, beside the current incarnation's state `cur`, a **shadow**: a state of the plain pipe LTS in which the pipe
was never created (`absent`) but which saw the same writes, publications, notifications (handled with no pipe to tell),
shutdowns and restarts. The shadow is reachable in the plain LTS; `recreate` makes `cur` equal to the shadow's `create`.
-/
namespace Logrange.PipeLts.Inc
open Logrange.PipeLts

theorem run_snoc (cfg : Cfg) (st : State) (ls : List Label) (l : Label) :
    run cfg st (ls ++ [l]) = (match step cfg (run cfg st ls) l with
      | some st' => st'
      | none => run cfg st ls) := by
  induction ls generalizing st with
  | nil =>
    simp only [List.nil_append, run]
    cases step cfg st l <;> rfl
  | cons a as ih =>
    simp only [List.cons_append, run]
    cases step cfg st a <;> exact ih _

/-- reachable in the plain pipe LTS -/
def Reach (cfg : Cfg) (s0 st : State) : Prop := ∃ ls, run cfg s0 ls = st

theorem reach_refl (cfg : Cfg) (s0 : State) : Reach cfg s0 s0 := ⟨[], rfl⟩

theorem reach_step (cfg : Cfg) (s0 st st' : State) (l : Label) (h : Reach cfg s0 st) (hs : step cfg st l = some st') :
    Reach cfg s0 st' := by
  obtain ⟨ls, rfl⟩ := h
  exact ⟨ls ++ [l], by rw [run_snoc, hs]⟩

theorem state_ext (a b : State) (h1 : a.n = b.n) (h2 : a.srcs = b.srcs) (h3 : a.dest = b.dest) (h4 : a.chan = b.chan)
    (h5 : a.pend = b.pend) (h6 : a.pipe = b.pipe) (h7 : a.cache = b.cache) (h8 : a.others = b.others) (h9 : a.flt = b.flt)
    (h10 : a.closed = b.closed) (h11 : a.down = b.down) (h12 : a.reg = b.reg) : a = b := by
  cases a; cases b; simp_all

/-- what a source looks like to a pipe that does not exist: its records, its tags -/
def bare (σ : SrcSt) : SrcSt := { log := σ.log, prov := σ.prov, listens := σ.listens }

theorem bare_eq (σ σ' : SrcSt) (h1 : σ'.log = σ.log) (h2 : σ'.prov = σ.prov) (h3 : σ'.listens = σ.listens) :
    bare σ' = bare σ := by
  simp [bare, h1, h2, h3]

theorem bare_startWorker (c : Bool) (σ : SrcSt) (d : Desc) : bare (startWorker c σ d) = bare σ := by
  unfold startWorker; split <;> rfl

theorem bare_onWriteEvent (c : Bool) (σ : SrcSt) (we : WE) : bare (onWriteEvent c σ we) = bare σ := by
  unfold onWriteEvent; split <;> exact bare_startWorker _ _ _

/-- `p` is the state of the plain LTS in which the pipe of `st` was never created -/
structure Shadow (p st : State) : Prop where
  n : p.n = st.n
  chan : p.chan = st.chan
  pend : p.pend = st.pend
  others : p.others = st.others
  flt : p.flt = st.flt
  closed : p.closed = st.closed
  down : p.down = st.down
  pipe : p.pipe = .absent
  dest : p.dest = []
  reg : p.reg = false
  srcs : ∀ s, p.srcs s = bare (st.srcs s)
  cacheOk : ∀ s, p.cache s ≠ some true

theorem shadow_frame (p st st' : State) (h : Shadow p st) (e1 : st'.n = st.n) (e2 : st'.chan = st.chan)
    (e3 : st'.pend = st.pend) (e4 : st'.others = st.others) (e5 : st'.flt = st.flt) (e6 : st'.closed = st.closed)
    (e7 : st'.down = st.down) (e8 : ∀ s, bare (st'.srcs s) = bare (st.srcs s)) : Shadow p st' :=
  { n := by rw [e1]; exact h.n, chan := by rw [e2]; exact h.chan, pend := by rw [e3]; exact h.pend
    others := by rw [e4]; exact h.others, flt := by rw [e5]; exact h.flt, closed := by rw [e6]; exact h.closed
    down := by rw [e7]; exact h.down, pipe := h.pipe, dest := h.dest, reg := h.reg
    srcs := by intro s; rw [e8 s]; exact h.srcs s
    cacheOk := h.cacheOk }

theorem shadow_allIdle (p st : State) (h : Shadow p st) : allIdle p = true := by
  unfold allIdle
  rw [List.all_eq_true]
  intro s _
  simp [h.srcs s, bare]

theorem shadow_pipesForSource (p st : State) (h : Shadow p st) (s : Nat) :
    (pipesForSource p s).1 = false ∧ ∀ s', (pipesForSource p s).2 s' ≠ some true := by
  unfold pipesForSource
  have hp := h.pipe
  split
  · exact ⟨rfl, h.cacheOk⟩
  · cases hc : p.cache s with
    | some b =>
      simp only
      refine ⟨?_, h.cacheOk⟩
      cases b with
      | false => rfl
      | true => exact absurd hc (h.cacheOk s)
    | none =>
      simp only [hp]
      refine ⟨by simp, ?_⟩
      intro s'
      by_cases e : s' = s
      · subst e; simp [upd]
      · rw [upd_ne _ _ _ _ e]; exact h.cacheOk s'

/-- every step of the current incarnation is a step or a stutter of the shadow -/
theorem shadow_step (cfg : Cfg) (p st st' : State) (l : Label) (h : Shadow p st) (hs : step cfg st l = some st') :
    ∃ p', (p' = p ∨ step cfg p l = some p') ∧ Shadow p' st' := by
  cases l with
  | write s batch =>
    simp only [step] at hs
    split at hs
    · cases hs
    · rename_i hc
      simp only [Option.some.injEq] at hs; subst hs
      refine ⟨{ p with srcs := upd p.srcs s { p.srcs s with log := (p.srcs s).log ++ batch },
                       pend := if batch.isEmpty then p.pend else p.pend ++ [⟨s, (p.srcs s).log.length, (p.srcs s).log.length + batch.length⟩] },
        Or.inr ?_, ?_⟩
      · simp only [step, h.down, h.n, hc]
        rfl
      · refine { n := h.n, chan := h.chan, pend := ?_, others := h.others, flt := h.flt, closed := h.closed, down := h.down,
                 pipe := h.pipe, dest := h.dest, reg := h.reg, srcs := ?_, cacheOk := h.cacheOk }
        · simp only [h.pend, h.srcs s, bare]
        · intro s'
          by_cases e : s' = s
          · subst e; simp [upd_self, h.srcs s', bare]
          · simp only [upd_ne _ _ _ _ e]; exact h.srcs s'
  | enqueue i =>
    simp only [step] at hs
    cases hp : st.pend[i]? with
    | none => simp [hp] at hs
    | some we =>
      simp only [hp] at hs
      split at hs
      · cases hs
      · rename_i hc
        simp only [Option.some.injEq] at hs; subst hs
        refine ⟨{ p with pend := p.pend.eraseIdx i, chan := p.chan ++ [we] }, Or.inr ?_, ?_⟩
        · simp only [step, h.pend, hp, h.down, h.chan, hc]
          rfl
        · exact { n := h.n, chan := by simp [h.chan], pend := by simp [h.pend], others := h.others, flt := h.flt,
                  closed := h.closed, down := h.down, pipe := h.pipe, dest := h.dest, reg := h.reg, srcs := h.srcs,
                  cacheOk := h.cacheOk }
  | notify =>
    simp only [step] at hs
    split at hs
    · cases hs
    · rename_i hc
      cases hch : st.chan with
      | nil => simp [hch] at hs
      | cons we rest =>
        simp only [hch] at hs
        obtain ⟨hhit, hcache⟩ := shadow_pipesForSource p st h we.src
        refine ⟨{ p with chan := rest, cache := (pipesForSource p we.src).2 }, Or.inr ?_, ?_⟩
        · simp only [step, h.down, h.closed, hc, h.chan, hch]
          have : pipesForSource p we.src = (false, (pipesForSource p we.src).2) := by
            rw [← hhit]
          rw [this]
          rfl
        · have hbase : Shadow { p with chan := rest, cache := (pipesForSource p we.src).2 } { st with chan := rest } :=
            { n := h.n, chan := rfl, pend := h.pend, others := h.others, flt := h.flt, closed := h.closed, down := h.down,
              pipe := h.pipe, dest := h.dest, reg := h.reg, srcs := h.srcs, cacheOk := hcache }
          split at hs
          · simp only [Option.some.injEq] at hs; subst hs
            refine shadow_frame _ _ _ hbase rfl rfl rfl rfl rfl rfl rfl ?_
            intro s
            by_cases e : s = we.src
            · subst e; simp only [upd_self]; exact bare_onWriteEvent _ _ _
            · simp only [upd_ne _ _ _ _ e]
          · simp only [Option.some.injEq] at hs; subst hs
            exact shadow_frame _ _ _ hbase rfl rfl rfl rfl rfl rfl rfl (fun _ => rfl)
  | wopen s =>
    simp only [step] at hs
    split at hs
    · simp only [Option.some.injEq] at hs; subst hs
      refine ⟨p, Or.inl rfl, shadow_frame _ _ _ h rfl rfl rfl rfl rfl rfl rfl ?_⟩
      intro s'
      by_cases e : s' = s
      · subst e; simp only [upd_self]; rfl
      · simp only [upd_ne _ _ _ _ e]
    · cases hs
  | wcopy s k =>
    simp only [step] at hs
    split at hs
    · split at hs
      · cases hs
      · simp only [Option.some.injEq] at hs; subst hs
        refine ⟨p, Or.inl rfl, shadow_frame _ _ _ h rfl rfl rfl rfl rfl rfl rfl ?_⟩
        intro s'
        by_cases e : s' = s
        · subst e; simp only [upd_self]; rfl
        · simp only [upd_ne _ _ _ _ e]
    · cases hs
  | wsave s =>
    simp only [step] at hs
    split at hs
    · simp only [Option.some.injEq] at hs; subst hs
      refine ⟨p, Or.inl rfl, shadow_frame _ _ _ h rfl rfl rfl rfl rfl rfl rfl ?_⟩
      intro s'
      by_cases e : s' = s
      · subst e; simp only [upd_self]; rfl
      · simp only [upd_ne _ _ _ _ e]; rfl
    · cases hs
  | wtimeout s =>
    simp only [step] at hs
    split at hs
    · simp only [Option.some.injEq] at hs; subst hs
      refine ⟨p, Or.inl rfl, shadow_frame _ _ _ h rfl rfl rfl rfl rfl rfl rfl ?_⟩
      intro s'
      by_cases e : s' = s
      · subst e; simp only [upd_self]; rfl
      · simp only [upd_ne _ _ _ _ e]
    · simp only [Option.some.injEq] at hs; subst hs
      refine ⟨p, Or.inl rfl, shadow_frame _ _ _ h rfl rfl rfl rfl rfl rfl rfl ?_⟩
      intro s'
      by_cases e : s' = s
      · subst e; simp only [upd_self]; rfl
      · simp only [upd_ne _ _ _ _ e]
    · cases hs
  | wdone s =>
    simp only [step] at hs
    split at hs
    · simp only [Option.some.injEq] at hs; subst hs
      refine ⟨p, Or.inl rfl, shadow_frame _ _ _ h rfl rfl rfl rfl rfl rfl rfl ?_⟩
      intro s'
      by_cases e : s' = s
      · subst e
        simp only [upd_self]
        split
        · exact bare_startWorker _ _ _
        · rfl
      · simp only [upd_ne _ _ _ _ e]
    · cases hs
  | create =>
    simp only [step] at hs
    split at hs
    · cases hs
    · simp only [Option.some.injEq] at hs; subst hs
      exact ⟨p, Or.inl rfl, shadow_frame _ _ _ h rfl rfl rfl rfl rfl rfl rfl (fun _ => rfl)⟩
  | delete =>
    simp only [step] at hs
    split at hs
    · cases hs
    · simp only [Option.some.injEq] at hs; subst hs
      exact ⟨p, Or.inl rfl, shadow_frame _ _ _ h rfl rfl rfl rfl rfl rfl rfl (fun _ => rfl)⟩
  | shutdown =>
    simp only [step] at hs
    split at hs
    · cases hs
    · rename_i hc
      simp only [Option.some.injEq] at hs; subst hs
      refine ⟨{ p with closed := true }, Or.inr ?_, ?_⟩
      · simp only [step, h.down, h.closed, hc]; rfl
      · exact { n := h.n, chan := h.chan, pend := h.pend, others := h.others, flt := h.flt, closed := rfl, down := h.down,
                pipe := h.pipe, dest := h.dest, reg := h.reg, srcs := h.srcs, cacheOk := h.cacheOk }
  | halt =>
    simp only [step] at hs
    split at hs
    · rename_i hc
      simp only [Bool.and_eq_true, Bool.not_eq_true'] at hc
      simp only [Option.some.injEq] at hs; subst hs
      refine ⟨{ p with down := true, chan := [], pend := [], reg := if cfg.saveOnShutdown then p.pipe == .live else p.reg },
        Or.inr ?_, ?_⟩
      · simp only [step, h.closed, h.down, hc.1.1, hc.1.2, shadow_allIdle p st h]; rfl
      · refine { n := h.n, chan := rfl, pend := rfl, others := h.others, flt := h.flt, closed := h.closed, down := rfl,
                 pipe := h.pipe, dest := h.dest, reg := ?_, srcs := h.srcs, cacheOk := h.cacheOk }
        simp only [h.pipe, h.reg]; split <;> rfl
    · cases hs
  | restart =>
    simp only [step] at hs
    split at hs
    · rename_i hc
      simp only [Option.some.injEq] at hs; subst hs
      refine ⟨{ p with down := false, closed := false, cache := fun _ => none,
                       pipe := if p.reg then .live else (match p.pipe with | .live => .absent | q => q),
                       srcs := fun s => { p.srcs s with
                         desc := (p.srcs s).saved.map (fun d => { d with charged := false, stale := decide (d.pos < d.lastKnown) }) } },
        Or.inr ?_, ?_⟩
      · simp only [step, h.down, hc]; rfl
      · refine { n := h.n, chan := h.chan, pend := h.pend, others := h.others, flt := h.flt, closed := rfl, down := rfl,
                 pipe := ?_, dest := h.dest, reg := h.reg, srcs := ?_, cacheOk := by intro s; simp }
        · simp only [h.reg, h.pipe]; rfl
        · intro s; simp only [h.srcs s, bare]; rfl
    · cases hs

/-- the invariant of the incarnation LTS: the current incarnation's state is a state of the plain LTS, and so is its shadow -/
def IInv (cfg : Cfg) (s0 : State) (ist : IState) : Prop :=
  Reach cfg s0 ist.cur ∧ ∃ p, Reach cfg s0 p ∧ Shadow p ist.cur

theorem shadow_init (n : Nat) (l : Nat → Bool) (pr : Nat → Bytes) (f : Ev → Bool) (o : Bool) :
    Shadow (init n l pr f o) (init n l pr f o) :=
  { n := rfl, chan := rfl, pend := rfl, others := rfl, flt := rfl, closed := rfl, down := rfl, pipe := rfl, dest := rfl,
    reg := rfl, srcs := fun _ => rfl, cacheOk := by intro s; simp [init] }

/-- `recreate` with no positions file left = the shadow's `create` -/
theorem recreated_eq_create (cfg : Cfg) (ic : ICfg) (p st : State) (h : Shadow p st)
    (hdrop : cfg.dropOnCreate = true) (hsave : cfg.saveOnCreate = true) (hfile : fileSurvives ic = false)
    (hdown : st.down = false) :
    step cfg p .create = some (recreated cfg ic st) := by
  have hpd : p.down = false := by rw [h.down]; exact hdown
  simp only [step, hpd, h.pipe, hdrop, hsave]
  simp only [Bool.false_or, bne_self_eq_false, Bool.false_eq_true, if_false, if_true, Option.some.injEq]
  apply state_ext
  · exact h.n
  · funext s
    simp only [recreated, hfile, h.srcs s, bare]
    rfl
  · simp only [recreated]; exact h.dest
  · exact h.chan
  · exact h.pend
  · rfl
  · simp only [recreated, hdrop]; rfl
  · exact h.others
  · exact h.flt
  · exact h.closed
  · simp [recreated, hdown]
  · simp only [recreated, hsave]; rfl

theorem istep_iinv (cfg : Cfg) (ic : ICfg) (s0 : State) (ist ist' : IState) (l : ILabel)
    (hdrop : cfg.dropOnCreate = true) (hsave : cfg.saveOnCreate = true) (hfile : fileSurvives ic = false)
    (h : IInv cfg s0 ist) (hs : istep cfg ic ist l = some ist') : IInv cfg s0 ist' := by
  obtain ⟨hr, p, hp, hsh⟩ := h
  cases l with
  | plain lb =>
    simp only [istep] at hs
    split at hs
    · cases hs
    · cases hst : step cfg ist.cur lb with
      | none => simp [hst] at hs
      | some c =>
        simp only [hst, Option.map_some, Option.some.injEq] at hs; subst hs
        refine ⟨reach_step cfg s0 _ _ lb hr hst, ?_⟩
        obtain ⟨p', hp', hsh'⟩ := shadow_step cfg p ist.cur c lb hsh hst
        refine ⟨p', ?_, hsh'⟩
        rcases hp' with e | e
        · rw [e]; exact hp
        · exact reach_step cfg s0 _ _ lb hp e
  | recreate =>
    simp only [istep] at hs
    split at hs
    · cases hs
    · rename_i hc
      simp only [Bool.or_eq_true, not_or, Bool.not_eq_true] at hc
      simp only [Option.some.injEq] at hs; subst hs
      have hcr := recreated_eq_create cfg ic p ist.cur hsh hdrop hsave hfile hc.1
      refine ⟨reach_step cfg s0 _ _ .create hp hcr, p, hp, ?_⟩
      exact shadow_frame _ _ _ hsh rfl rfl rfl rfl rfl rfl rfl (fun _ => rfl)
  | oldExit =>
    simp only [istep] at hs
    split at hs
    · simp only [Option.some.injEq] at hs; subst hs
      exact ⟨hr, p, hp, hsh⟩
    · cases hs

theorem irun_iinv (cfg : Cfg) (ic : ICfg) (s0 : State) (ist : IState) (tr : List ILabel)
    (hdrop : cfg.dropOnCreate = true) (hsave : cfg.saveOnCreate = true) (hfile : fileSurvives ic = false)
    (h : IInv cfg s0 ist) : IInv cfg s0 (irun cfg ic ist tr) := by
  induction tr generalizing ist with
  | nil => simpa [irun] using h
  | cons l ls ih =>
    simp only [irun]
    cases hs : istep cfg ic ist l with
    | none => exact ih ist h
    | some ist' => exact ih ist' (istep_iinv cfg ic s0 ist ist' l hdrop hsave hfile h hs)

end Logrange.PipeLts.Inc
