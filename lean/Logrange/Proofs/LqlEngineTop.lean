import Logrange.Proofs.LqlEngineExpr
/-!
# C12: engine = direct parser, top level (roots `Expression` and `Source`), and the typed application of the captures on the
values the engine returns (`conv…`: `RExpr e v → toExpr ft v = some e` for every fuel ≥ `cvExpr e`)
-/
namespace Logrange.Lql
open Logrange.Generated.C12

/-! ## typed application of the captures on the values the engine returns -/

theorem fieldVals_cons_eq (f : String) (vs : List Val) (ct : Caps) : fieldVals ((f, vs) :: ct) f = vs ++ fieldVals ct f := by
  simp [fieldVals]
theorem fieldVals_cons_ne (f g : String) (vs : List Val) (ct : Caps) (h : (g == f) = false) : fieldVals ((g, vs) :: ct) f = fieldVals ct f := by
  simp [fieldVals, h]
theorem fieldVals_nil (f : String) : fieldVals [] f = [] := rfl

mutual
def cvIdent : Ident → Nat
  | .mk _ ps => 1 + cvIdents ps
def cvIdents : IdentList → Nat
  | .nil => 1
  | .cons h t => 1 + cvIdent h + cvIdents t
end
mutual
def cvExpr : Expr → Nat
  | .mk ors => 1 + cvOrs ors
def cvOrs : OrList → Nat
  | .nil => 1
  | .cons h t => 1 + cvOr h + cvOrs t
def cvOr : OrCond → Nat
  | .mk xs => cvXs xs
def cvXs : XList → Nat
  | .nil => 1
  | .cons h t => 1 + cvX h + cvXs t
def cvX : XCond → Nat
  | .cond _ cd => 1 + cvIdent cd.ident
  | .paren _ e => 1 + cvExpr e
end

theorem capsParams_operand : ∀ ps : IdentList, fieldVals (capsParams ps) "Operand" = []
  | .nil => rfl
  | .cons h t => by rw [capsParams, fieldVals_cons_ne _ _ _ _ (by decide), capsParams_operand t]

mutual
theorem convIdent : ∀ (i : Ident) (ft : Nat), cvIdent i ≤ ft → toIdent ft (valIdent i) = some i
  | .mk op ps, ft, h => by
    obtain ⟨f, rfl⟩ : ∃ f, ft = f + 1 := ⟨ft - 1, by simp [cvIdent] at h; omega⟩
    have h2 := convIdents ps f (by simp [cvIdent] at h; omega)
    simp only [toIdent, valIdent, fv]
    rw [fieldVals_cons_ne _ _ _ _ (by decide), h2, fieldVals_cons_eq, capsParams_operand]
    simp [strs]
theorem convIdents : ∀ (ps : IdentList) (ft : Nat), cvIdents ps ≤ ft → toIdents ft (fieldVals (capsParams ps) "Params") = some ps
  | .nil, ft, h => by
    obtain ⟨f, rfl⟩ : ∃ f, ft = f + 1 := ⟨ft - 1, by simp [cvIdents] at h; omega⟩
    simp [capsParams, fieldVals_nil, toIdents]
  | .cons hd t, ft, h => by
    obtain ⟨f, rfl⟩ : ∃ f, ft = f + 1 := ⟨ft - 1, by simp [cvIdents] at h; omega⟩
    have h1 := convIdent hd f (by simp [cvIdents] at h; omega)
    have h2 := convIdents t f (by simp [cvIdents] at h; omega)
    rw [capsParams, fieldVals_cons_eq]
    simp [toIdents, h1, h2]
end

theorem convCond (cd : Cond) (ft : Nat) (h : cvIdent cd.ident ≤ ft) : toCond ft (valCond cd) = some cd := by
  simp only [toCond, valCond, fv]
  rw [fieldVals_cons_eq, fieldVals_cons_ne _ _ _ _ (by decide), fieldVals_cons_ne _ _ _ _ (by decide), fieldVals_nil]
  simp only [List.append_nil, convIdent _ _ h]
  rw [fieldVals_cons_ne _ _ _ _ (by decide), fieldVals_cons_eq, fieldVals_cons_ne _ _ _ _ (by decide), fieldVals_nil]
  rw [fieldVals_cons_ne _ _ _ _ (by decide), fieldVals_cons_ne _ _ _ _ (by decide), fieldVals_cons_eq, fieldVals_nil]
  simp [strs]


mutual
theorem convExpr : ∀ (e : Expr) (v : Val) (ft : Nat), RExpr e v → cvExpr e ≤ ft → toExpr ft v = some e
  | .mk ors, v, ft, hr, hf => by
    obtain ⟨f, rfl⟩ : ∃ f, ft = f + 1 := ⟨ft - 1, by simp [cvExpr] at hf; omega⟩
    simp only [RExpr] at hr
    obtain ⟨caps, rfl, hro⟩ := hr
    have h := convOrs ors caps f hro (by simp [cvExpr] at hf; omega)
    simp [toExpr, fv, h]
theorem convOrs : ∀ (ors : OrList) (caps : Caps) (ft : Nat), ROrs ors caps → cvOrs ors ≤ ft → toOrs ft (fieldVals caps "Or") = some ors
  | .nil, caps, ft, hr, hf => by
    obtain ⟨f, rfl⟩ : ∃ f, ft = f + 1 := ⟨ft - 1, by simp [cvOrs] at hf; omega⟩
    simp only [ROrs] at hr
    subst hr
    simp [fieldVals_nil, toOrs]
  | .cons (.mk xs) t, caps, ft, hr, hf => by
    obtain ⟨f, rfl⟩ : ∃ f, ft = f + 1 := ⟨ft - 1, by simp [cvOrs] at hf; omega⟩
    simp only [ROrs, ROr] at hr
    obtain ⟨vh, ct, rfl, ⟨cx, rfl, hrx⟩, hrt⟩ := hr
    have h1 := convXs xs cx f hrx (by simp [cvOrs, cvOr] at hf; omega)
    have h2 := convOrs t ct f hrt (by simp [cvOrs] at hf; omega)
    rw [fieldVals_cons_eq]
    simp [toOrs, fv, h1, h2]
theorem convXs : ∀ (xs : XList) (caps : Caps) (ft : Nat), RXs xs caps → cvXs xs ≤ ft → toXs ft (fieldVals caps "And") = some xs
  | .nil, caps, ft, hr, hf => by
    obtain ⟨f, rfl⟩ : ∃ f, ft = f + 1 := ⟨ft - 1, by simp [cvXs] at hf; omega⟩
    simp only [RXs] at hr
    subst hr
    simp [fieldVals_nil, toXs]
  | .cons x t, caps, ft, hr, hf => by
    obtain ⟨f, rfl⟩ : ∃ f, ft = f + 1 := ⟨ft - 1, by simp [cvXs] at hf; omega⟩
    simp only [RXs] at hr
    obtain ⟨vh, ct, rfl, hrx, hrt⟩ := hr
    have h1 := convX x vh f hrx (by simp [cvXs] at hf; omega)
    have h2 := convXs t ct f hrt (by simp [cvXs] at hf; omega)
    rw [fieldVals_cons_eq]
    simp [toXs, h1, h2]
theorem convX : ∀ (x : XCond) (v : Val) (ft : Nat), RX x v → cvX x ≤ ft → toX ft v = some x
  | .cond neg cd, v, ft, hr, hf => by
    obtain ⟨f, rfl⟩ : ∃ f, ft = f + 1 := ⟨ft - 1, by simp [cvX] at hf; omega⟩
    simp only [RX] at hr
    obtain ⟨pre, rfl, hp⟩ := hr
    have h1 := convCond cd f (by simp [cvX] at hf; omega)
    cases neg with
    | true =>
      obtain ⟨t, rfl⟩ := hp
      simp [toX, fv, fieldVals, h1]
    | false =>
      have : pre = [] := hp
      subst this
      simp [toX, fv, fieldVals, h1]
  | .paren neg e, v, ft, hr, hf => by
    obtain ⟨f, rfl⟩ : ∃ f, ft = f + 1 := ⟨ft - 1, by simp [cvX] at hf; omega⟩
    simp only [RX] at hr
    obtain ⟨pre, ve, rfl, hp, hre⟩ := hr
    have h1 := convExpr e ve f hre (by simp [cvX] at hf; omega)
    cases neg with
    | true =>
      obtain ⟨t, rfl⟩ := hp
      simp [toX, fv, fieldVals, h1]
    | false =>
      have : pre = [] := hp
      subst this
      simp [toX, fv, fieldVals, h1]
end


/-! ## top level: `Parser.ParseString` with root `Expression` -/

/-- **engine = direct parser on expressions**: on every token list in which no Ident/Keyword token is spelled `(`, the
participle-engine interpreter run on the REGENERATED grammar (root `Expression`, fuel `60·n+200` as in `runEngine`) accepts
exactly when the direct parser (fuel `directFuel`) does, and the value it returns converts to exactly the direct parser's AST
(for every conversion fuel ≥ `cvExpr e`). -/
theorem engine_direct_expr (toks : List Tok) (hH : OperandNotParen toks) :
    match directExpr toks with
    | some e => ∃ v, runEngine grammar "Expression" toks = some v ∧ RExpr e v ∧ ∀ ft, cvExpr e ≤ ft → toExpr ft v = some e
    | none => runEngine grammar "Expression" toks = none := by
  have he := simExpr ⟨toks, grammar⟩ rfl hH toks.length 0 (by simp) (Nat.zero_le _) (60 * toks.length + 200) (directFuel toks)
    (by simp) (by simp [directFuel])
  simp only [List.drop_zero] at he
  unfold directExpr runEngine
  generalize parse ⟨toks, grammar⟩ (60 * toks.length + 200) (.strct "Expression") 0 = r at he
  cases hd : dExpr (directFuel toks) toks with
  | none =>
    rw [hd] at he
    simp only [SimExpr] at he
    rcases he with ⟨k, rfl, _⟩ | ⟨v, cur', rfl, _, hst⟩
    · rfl
    · have hlt : cur' < toks.length := by
        rcases hst with ⟨q, hq, _⟩ | ⟨q, hq, _⟩ <;> exact lt_of_get hq
      have : (cur' == toks.length) = false := by simp; omega
      simp [this]
  | some res =>
    obtain ⟨e, rest⟩ := res
    rw [hd] at he
    obtain ⟨v, cur', rfl, hrel, hrest, _, hle⟩ := he
    simp only [] at hrest hle
    by_cases hc : cur' = toks.length
    · subst hc
      have : rest = [] := by rw [hrest]; simp
      subst this
      simp only [beq_self_eq_true, if_true]
      exact ⟨v, rfl, hrel, fun ft hft => convExpr e v ft hrel hft⟩
    · have hlt : cur' < toks.length := by omega
      have hb : (cur' == toks.length) = false := by simp; omega
      cases rest with
      | nil =>
        have : (toks.drop cur').length = 0 := by rw [← hrest]; rfl
        simp at this; omega
      | cons q r2 => simp [hb]


/-! ## root `Source` -/
def sourceBody : Node := .disj [(.capture "Tags" (.ref .tags)), (.capture "Expr" (.strct "Expression"))]
theorem g_source : grammar "Source" = some sourceBody := rfl

def cvSource : Source → Nat
  | .tags _ => 0
  | .expr e => cvExpr e

/-- **engine = direct parser on sources** (`{…}` tag token or expression). When the direct parser rejects, either the
engine rejects too or it accepts a lone Tags token whose text `tag.Parse` rejects (then the capture conversion fails for
every fuel — `ParseSource` fails in both models). -/
theorem engine_direct_source (toks : List Tok) (hH : OperandNotParen toks) :
    match directSource toks with
    | some s => ∃ v, runEngine grammar "Source" toks = some v ∧ ∀ ft, cvSource s ≤ ft → toSource ft v = some s
    | none => runEngine grammar "Source" toks = none ∨ ∃ v, runEngine grammar "Source" toks = some v ∧ ∀ ft, toSource ft v = none := by
  have he := simExpr ⟨toks, grammar⟩ rfl hH toks.length 0 (by simp) (Nat.zero_le _) (60 * toks.length + 195) (directFuel toks)
    (by simp) (by simp [directFuel])
  simp only [List.drop_zero] at he
  unfold directSource runEngine
  rw [show 60 * toks.length + 200 = (60 * toks.length + 195) + 5 from rfl,
    parse_strct ⟨toks, grammar⟩ _ "Source" sourceBody 0 rfl]
  simp only [sourceBody, parse_disj, parseDisj_cons, parseDisj_nil, parse_capture, parse_ref, peek]
  cases toks with
  | nil =>
    simp only [List.getElem?_nil, dSource]
    generalize parse ⟨[], grammar⟩ _ (.strct "Expression") 0 = r at he
    have hd : dExpr (directFuel []) [] = none := by simp [directFuel, dExpr, dOr, dX]
    rw [hd] at he
    simp only [SimExpr] at he
    rcases he with ⟨k, rfl, _⟩ | ⟨v, cur', rfl, _, hst⟩
    · left; by_cases hk : k > 0 + lookahead <;> simp [hk]
    · rcases hst with ⟨q, hq, _⟩ | ⟨q, hq, _⟩ <;> simp at hq
  | cons t r =>
    simp only [List.getElem?_cons_zero, dSource]
    cases ht : t.t == TT.tags with
    | true =>
      have ht' : t.t = TT.tags := by simpa using ht
      simp only [ht', if_true, beq_self_eq_true]
      cases r with
      | nil =>
        cases hp : KV.tagParse t.v with
        | none =>
          right
          refine ⟨.node "Source" [("Tags", [.str t.v])], by simp, fun ft => ?_⟩
          simp [toSource, fv, fieldVals, strs, hp]
        | some m =>
          refine ⟨.node "Source" [("Tags", [.str t.v])], by simp, fun ft _ => ?_⟩
          simp [toSource, fv, fieldVals, strs, hp]
      | cons q r2 =>
        cases hp : KV.tagParse t.v with
        | none => simp only [Option.map_none]; left; simp
        | some m => simp only [Option.map_some]; left; simp
    | false =>
      have ht' : ¬ (t.t = TT.tags) := by simpa using ht
      simp only [ht, Bool.false_eq_true, if_false]
      generalize parse ⟨t :: r, grammar⟩ _ (.strct "Expression") 0 = re at he
      cases hd : dExpr (directFuel (t :: r)) (t :: r) with
      | none =>
        rw [hd] at he
        simp only [SimExpr] at he
        left
        rcases he with ⟨k, rfl, _⟩ | ⟨v, cur', rfl, _, hst⟩
        · by_cases hk : k > 0 + lookahead <;> simp [hk]
        · have hlt : cur' < (t :: r).length := by
            rcases hst with ⟨q, hq, _⟩ | ⟨q, hq, _⟩ <;> exact lt_of_get hq
          simp only [List.length_cons] at hlt ⊢
          have : (cur' == r.length + 1) = false := by simp; omega
          simp [this]
      | some res =>
        obtain ⟨e, rest⟩ := res
        rw [hd] at he
        obtain ⟨v, cur', rfl, hrel, hrest, _, hle⟩ := he
        simp only [] at hrest hle
        by_cases hc : cur' = (t :: r).length
        · have : rest = [] := by rw [hrest, hc]; simp
          subst this
          simp only [Option.map_some]
          refine ⟨.node "Source" [("Expr", [v])], by simp [hc], fun ft hft => ?_⟩
          simp [toSource, fv, fieldVals, convExpr e v ft hrel hft]
        · simp only [List.length_cons] at hc hle ⊢
          have hb : (cur' == r.length + 1) = false := by simp; omega
          cases rest with
          | nil =>
            have : ((t :: r).drop cur').length = 0 := by rw [← hrest]; rfl
            simp only [List.length_drop, List.length_cons] at this; omega
          | cons q r2 => left; simp [hb]

end Logrange.Lql
