import Logrange.Proofs.TIndexRun
/-!
# `GetJournal` (look-up without creation), rejected and empty texts, `Set.Equals`
-/
namespace Logrange.Proofs.TIndexGet
open Go Logrange.KV Logrange.Tags Logrange.TagsEval Logrange.TIndexId Logrange.Proofs.KV Logrange.Proofs.Tags
  Logrange.Proofs.TIndexId Logrange.Proofs.TIndexRun Logrange.Proofs.Quote

/-- `GetJournal` never changes the index -/
theorem get_no_change (s : St) (raw : Bytes) : (getOrCreate s raw false).1 = s := by
  rcases getOrCreate_cases s raw false with h | ⟨tgs, hp, hne, h1, h2, _⟩
  · exact h
  · unfold getOrCreate
    have hne' : tgs.isEmpty = false := by cases tgs <;> simp_all
    simp [h1, hp, hne', h2]

/-- a text the parser rejects (and that is not a stored key) is refused, whatever the index holds, and changes nothing -/
theorem rejected_text_refused (s : St) (raw : Bytes) (create : Bool) (h1 : lookup s.tmap raw = none)
    (hp : parse raw = none) : getOrCreate s raw create = (s, .badTags) := by
  unfold getOrCreate; simp [h1, hp]

/-- a text denoting the empty set is refused ("at least one tag value is expected") -/
theorem empty_set_refused (s : St) (raw : Bytes) (create : Bool) (h1 : lookup s.tmap raw = none)
    (hp : parse raw = some []) : getOrCreate s raw create = (s, .empty) := by
  unfold getOrCreate; simp [h1, hp]

/-- **`GetJournal` finds exactly the partition of the set** (Safe index, Safe non-empty set): it answers `notFound` iff no
partition holds that set, and otherwise the id of the partition that does. -/
theorem get_journal_spec (s : St) (hinv : TInv s) (hsafe : SafeSt s) (t : Bytes) (m : Map) (hp : parse t = some m)
    (hne : m ≠ []) (hs : safe m = true) :
    ((getOrCreate s t false).2 = .notFound ∧ ∀ e ∈ s.tmap, e.2.tags ≠ m) ∨
    (∃ e ∈ s.tmap, e.2.tags = m ∧ (getOrCreate s t false).2 = .ok e.2.src) := by
  have hwf := parse_WF t m hp
  have hne' : m.isEmpty = false := by cases m <;> simp_all
  cases h1 : lookup s.tmap t with
  | some td =>
    right
    obtain ⟨e, he, hk, hd⟩ := lookup_some h1
    obtain ⟨_, hparse⟩ := fast_path_sound s hinv hsafe t td h1
    have : td.tags = m := by rw [hp] at hparse; exact (Option.some.inj hparse).symm
    refine ⟨e, he, by rw [hd]; exact this, ?_⟩
    unfold getOrCreate; simp [h1, hd]
  | none =>
    cases h2 : lookup s.tmap (line m) with
    | some td2 =>
      right
      obtain ⟨e, he, hk, hd⟩ := lookup_some h2
      obtain ⟨hline, hwf', _, _⟩ := hinv.1 e he
      have hsafe' := hsafe e he
      have : e.2.tags = m := by
        apply line_injective quoteContract _ _ hwf' hwf hsafe' hs
        rw [← hline, hk]
      refine ⟨e, he, this, ?_⟩
      unfold getOrCreate; simp [h1, hp, hne', h2, hd]
    | none =>
      left
      refine ⟨by unfold getOrCreate; simp [h1, hp, hne', h2], ?_⟩
      intro e he heq
      have hn := lookup_none h2 e he
      exact hn (by rw [(hinv.1 e he).1, heq])

/-- **`Set.Equals` (line equality) is set equality** on Safe sets -/
theorem equals_iff_same_set (m1 m2 : Map) (h1 : Map.WF m1) (h2 : Map.WF m2) (s1 : safe m1 = true) (s2 : safe m2 = true) :
    line m1 = line m2 ↔ m1 = m2 :=
  ⟨line_injective quoteContract m1 m2 h1 h2 s1 s2, fun h => by rw [h]⟩

end Logrange.Proofs.TIndexGet
