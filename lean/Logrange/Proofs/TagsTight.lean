import Logrange.Model.TagsW
import Logrange.Proofs.Tags
import Logrange.Proofs.Quote
/-!
# How tight is `safe`?  The position-aware class `safeW` (round 2)

`roundtrip_weak`: the round trip holds on the larger class `safeW` (only the FIRST name must not start with `{`, only
the LAST raw value must not end with `}`); `safe_imp_safeW`; on one-pair sets `safeW = safe`.
-/
namespace Logrange.Proofs.TagsTight
open Go Logrange.Quote Logrange.KV Logrange.Tags Logrange.Proofs.KV Logrange.Proofs.Tags

theorem encTag_ok (hq : QuoteContract) (v : Bytes) (h : (needsQuote v || okRaw v) = true) :
    trimmed (encTag v) = true ∧ scan (encTag v) false = some false ∧
      (∃ y, (encTag v).getLast? = some y ∧ y ≠ SP ∧ (y = RB → needsQuote v = false ∧ v.getLast? = some RB)) ∧
      decodeValue (encTag v) = some v := by
  unfold encTag
  by_cases hn : needsQuote v = true
  · simp only [hn, if_true]
    obtain ⟨body, hshape, _⟩ := hq.shape v
    have hin := inert_quote hq v
    have hu := hq.unquote_quote v
    unfold inert at hin
    rw [hshape] at hin hu ⊢
    simp only [List.cons_append] at hin hu ⊢
    refine ⟨?_, by simpa using hin, ⟨DQ, ?_, by decide, ?_⟩, ?_⟩
    · simp [trimmed, List.getLast?_cons]
      decide
    · simp [List.getLast?_cons]
    · intro e; exact absurd e (by decide)
    · simp [decodeValue, hu]
  · have hs : okRaw v = true := by simpa [hn] using h
    simp only [hn, Bool.false_eq_true, if_false]
    unfold okRaw at hs
    simp only [Bool.and_eq_true, bne_iff_ne, ne_eq, Bool.not_eq_true'] at hs
    obtain ⟨⟨⟨⟨h1, h2⟩, h3⟩, h4⟩, h5⟩ := hs
    refine ⟨h2, by simpa [inert] using h3, ?_, ?_⟩
    · cases hl : v.getLast? with
      | none => simp at hl; simp [hl] at h1
      | some y =>
        refine ⟨y, rfl, ?_, ?_⟩
        · intro e; subst e
          simp [trimmed, hl] at h2
        · intro e; subst e; exact ⟨by simp, rfl⟩
    · cases v with
      | nil => rfl
      | cons c r =>
        have c1 : c ≠ DQ := by simpa using h4
        have c2 : c ≠ BQ := by simpa using h5
        simp [decodeValue, c1, c2]

/-- the last byte of the joined line is the last byte of the last printed value -/
theorem joinItems_getLast_last (enc : Bytes → Bytes) : ∀ (m : List (Bytes × Bytes)), m ≠ [] →
    (∀ p ∈ m, enc p.2 ≠ []) →
    ∃ p, m.getLast? = some p ∧ (joinItems (m.map (item enc))).getLast? = (enc p.2).getLast? := by
  intro m
  induction m with
  | nil => intro h; exact absurd rfl h
  | cons p r ih =>
    intro _ hin
    cases r with
    | nil =>
      refine ⟨p, rfl, ?_⟩
      have hne := hin p List.mem_cons_self
      simp [joinItems, item, List.getLast?_append, List.getLast?_cons]
      cases h : (enc p.2).getLast? with
      | none => simp at h; exact absurd h hne
      | some y => simp
    | cons q r' =>
      obtain ⟨x, hx, hy⟩ := ih (by simp) (fun x hx => hin x (List.mem_cons_of_mem _ hx))
      refine ⟨x, by simpa [List.getLast?_cons_cons] using hx, ?_⟩
      have e : joinItems ((p :: q :: r').map (item enc)) =
          item enc p ++ CM :: joinItems ((q :: r').map (item enc)) := by
        simp [joinItems]
      have hne : enc x.2 ≠ [] := by
        have : x ∈ q :: r' := List.mem_of_getLast? hx
        exact hin x (List.mem_cons_of_mem _ this)
      rw [e, List.getLast?_append, List.getLast?_cons, hy]
      cases h : (enc x.2).getLast? with
      | none => simp at h; exact absurd h hne
      | some y => simp

/-- **Round trip on the larger class `safeW`**: only the first name is asked not to start with `{`, only the last raw
value not to end with `}`. -/
theorem roundtrip_weak (hq : QuoteContract) (m : Map) (hwf : Map.WF m) (hs : safeW m = true) :
    parse (line m) = some m := by
  rw [line_of_WF m hwf]
  cases m with
  | nil => rfl
  | cons p r =>
    unfold safeW at hs
    simp only [Bool.and_eq_true] at hs
    obtain ⟨⟨hallB, hfirst⟩, hlast⟩ := hs
    have hall : ∀ x ∈ p :: r, okKey x.1 = true ∧ (needsQuote x.2 || okRaw x.2) = true := by
      intro x hx
      have := List.all_eq_true.mp hallB x hx
      simpa [okPair] using this
    have hkey : ∀ x ∈ p :: r, x.1 ≠ [] ∧ trimmed x.1 = true ∧ scan x.1 false = some false := by
      intro x hx
      have := (hall x hx).1
      unfold okKey at this
      simp only [Bool.and_eq_true, Bool.not_eq_true'] at this
      obtain ⟨⟨h1, h2⟩, h3⟩ := this
      exact ⟨by intro e; simp [e] at h1, h2, by simpa [inert] using h3⟩
    have hval := fun x hx => encTag_ok hq x.2 (hall x hx).2
    have hsplit := split_items encTag (p :: r) [] (by simp)
      (fun x hx => ⟨(hkey x hx).2.2, (hval x hx).2.1⟩)
    have hpairs := toPairs_items encTag (p :: r)
      (fun x hx => ⟨(hkey x hx).1, trimSpaces_of_trimmed _ (hkey x hx).2.1,
        trimSpaces_of_trimmed _ (hval x hx).1, (hval x hx).2.2.2⟩)
    obtain ⟨z, hz, hzl⟩ := joinItems_getLast_last encTag (p :: r) (by simp)
      (fun x hx => by
        obtain ⟨y, hy, _⟩ := (hval x hx).2.2.1
        intro e; rw [e] at hy; simp at hy)
    have hzm : z ∈ p :: r := List.mem_of_getLast? hz
    obtain ⟨y, hy, hy1, hyR⟩ := (hval z hzm).2.2.1
    have hy2 : y ≠ RB := by
      intro e
      obtain ⟨hnq, hvl⟩ := hyR e
      unfold lastOK at hlast
      rw [hz] at hlast
      simp [hnq, hvl] at hlast
    rw [← hzl] at hy
    obtain ⟨Y, hY⟩ := joinItems_cons_shape encTag p r
    obtain ⟨hk1, hk2, _⟩ := hkey p List.mem_cons_self
    have hk4 : p.1.head? ≠ some LB := by
      unfold firstOK at hfirst
      simpa using hfirst
    obtain ⟨c, k', hck⟩ : ∃ c k', p.1 = c :: k' := by
      cases h : p.1 with
      | nil => exact absurd h hk1
      | cons c k' => exact ⟨c, k', rfl⟩
    have hL : joinItems ((p :: r).map (item encTag)) = c :: (k' ++ EQ :: Y) := by rw [hY, hck]; rfl
    have hc1 : c ≠ SP := by
      unfold trimmed at hk2; rw [hck] at hk2
      simp only [Bool.and_eq_true, bne_iff_ne, ne_eq] at hk2
      simpa using hk2.1
    have hc2 : c ≠ LB := by rw [hck] at hk4; simpa using hk4
    generalize joinItems ((p :: r).map (item encTag)) = L at *
    subst hL
    have hlast' : (k' ++ EQ :: Y).getLast? = some y := by
      have e : (c :: (k' ++ EQ :: Y)).getLast? = (k' ++ EQ :: Y).getLast? := by
        cases k' <;> simp
      rw [← e]; exact hy
    have hrcb := removeCurlyBraces_id c (k' ++ EQ :: Y) y hc1 hc2 hlast' hy1 hy2
    simp only [parse, toMap, splitString, hrcb, hsplit, List.reverse_nil, List.nil_append, hpairs,
      ofPairs_of_WF _ hwf, List.isEmpty_cons, Bool.false_eq_true, if_false]

/-- `safe` is contained in `safeW` -/
theorem safe_imp_safeW (m : Map) (hs : safe m = true) : safeW m = true := by
  have hall : ∀ x ∈ m, safePair x = true := fun x hx => List.all_eq_true.mp hs x hx
  have hp : ∀ x ∈ m, okPair x = true ∧ x.1.head? ≠ some LB ∧ (needsQuote x.2 || x.2.getLast? != some RB) = true := by
    intro x hx
    have h := hall x hx
    unfold safePair safeKey safeRaw at h
    simp only [Bool.and_eq_true, Bool.or_eq_true, bne_iff_ne, ne_eq, Bool.not_eq_true'] at h
    obtain ⟨⟨⟨⟨k1, k2⟩, k3⟩, k4⟩, hv⟩ := h
    refine ⟨?_, k4, ?_⟩
    · unfold okPair okKey okRaw
      simp only [Bool.and_eq_true, Bool.or_eq_true, bne_iff_ne, ne_eq, Bool.not_eq_true']
      refine ⟨⟨⟨k1, k2⟩, k3⟩, ?_⟩
      rcases hv with hv | ⟨⟨⟨⟨⟨v1, v2⟩, v3⟩, v4⟩, v5⟩, _⟩
      · exact Or.inl hv
      · exact Or.inr ⟨⟨⟨⟨v1, v2⟩, v3⟩, v4⟩, v5⟩
    · rcases hv with hv | ⟨_, v6⟩
      · simp [hv]
      · simp [v6]
  unfold safeW
  simp only [Bool.and_eq_true]
  refine ⟨⟨List.all_eq_true.mpr (fun x hx => (hp x hx).1), ?_⟩, ?_⟩
  · unfold firstOK
    cases hm : m.head? with
    | none => rfl
    | some p => simpa using (hp p (List.mem_of_head? hm)).2.1
  · unfold lastOK
    cases hm : m.getLast? with
    | none => rfl
    | some p => simpa using (hp p (List.mem_of_getLast? hm)).2.2

/-- on one-pair sets the two classes coincide -/
theorem safeW_singleton (k v : Bytes) : safeW [(k, v)] = safe [(k, v)] := by
  simp only [safeW, safe, firstOK, lastOK, okPair, okKey, okRaw, safePair, safeKey, safeRaw, List.all_cons, List.all_nil,
    List.head?_cons, List.getLast?_singleton, Bool.and_true]
  cases needsQuote v <;> cases (!k.isEmpty) <;> cases trimmed k <;> cases inert k <;> cases (k.head? != some LB) <;>
    cases (!v.isEmpty) <;> cases trimmed v <;> cases inert v <;> cases (v.head? != some DQ) <;>
    cases (v.head? != some BQ) <;> cases (v.getLast? != some RB) <;> rfl

/-- `safeW` is strictly larger: a second name starting with `{` and a first value ending in `}` -/
theorem safeW_strict : safeW [([97], [120, 125]), ([123, 99], [50])] = true ∧
    safe [([97], [120, 125]), ([123, 99], [50])] = false ∧
    parse (line [([97], [120, 125]), ([123, 99], [50])]) = some [([97], [120, 125]), ([123, 99], [50])] := by
  decide +kernel

end Logrange.Proofs.TagsTight
