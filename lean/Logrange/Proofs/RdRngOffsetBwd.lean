import Logrange.Proofs.RdRngOffset
import Logrange.Proofs.RdRngBwd
import Logrange.Proofs.RdOffsetBwd
/-!
Offset laws for a one-source RANGED cursor (C16 with RANGE): the backward walk and the two direction switches.
Same structure as `RdOffsetBwd.lean`, over the admitted records `wflat j`: backward, a cursor stands *after* `b`
admitted records (`wbCount`); it delivers `BLR … b`, the matching records among the first `b` admitted ones in reverse.
-/
set_option linter.unusedSectionVars false
set_option linter.unusedVariables false
namespace Logrange.Rd

def BLR (lo hi : Option Int) (j : Journal) (w : Bool) (b : Nat) : List Rec :=
  (((wflat j).take b).filter (passR lo hi w)).reverse

section basics
variable (lo hi : Option Int)

theorem rob_BL_zero (j : Journal) (w : Bool) : BLR lo hi j w 0 = [] := by simp [BLR]

theorem rob_BL_some {j : Journal} {w : Bool} {b : Nat} {r : Rec} (hb : 0 < b) (h : (wflat j)[b - 1]? = some r) :
    BLR lo hi j w b = if passR lo hi w r then r :: BLR lo hi j w (b - 1) else BLR lo hi j w (b - 1) := by
  obtain ⟨b', rfl⟩ : ∃ b', b = b' + 1 := ⟨b - 1, by omega⟩
  simp only [Nat.add_sub_cancel] at h ⊢
  unfold BLR
  rw [List.take_succ, h]
  by_cases hk : passR lo hi w r = true <;> simp [List.filter_append, hk]

/-- facts about the components of a one-source ranged cursor walking backward, standing after `b` admitted records -/
def StBR (j : Journal) (w : Bool) (s : RIt) (v : Bool) (l : Option Rec) (b : Nat) : Prop :=
  RWF j s ∧ s.bkwd = true ∧ wbCount j s = b ∧
  (v = true → ∃ r, l = some r ∧ 0 < b ∧ (wflat j)[b - 1]? = some r ∧ passR lo hi w r = true ∧ ROnRecord j s)

def AbsBR (name : Nat) (j : Journal) (w : Bool) (c : Cur) (b : Nat) : Prop :=
  ∃ s v l m, c = curR lo hi name j s w v l m ∧ StBR lo hi j w s v l b

/-- the cursor has just done a backward `Get`: it sits on a matching record, or before the first admitted record -/
def PostBR (name : Nat) (j : Journal) (w : Bool) (c : Cur) (b : Nat) : Prop :=
  ∃ s v l m, c = curR lo hi name j s w v l m ∧ StBR lo hi j w s v l b ∧
    ((b = 0 ∧ s.ci = none) ∨
      (∃ r, 0 < b ∧ (wflat j)[b - 1]? = some r ∧ passR lo hi w r = true ∧ ROnRecord j s))

theorem rob_post_abs {name j w c b} (h : PostBR lo hi name j w c b) : AbsBR lo hi name j w c b := by
  obtain ⟨s, v, l, m, e, st, _⟩ := h; exact ⟨s, v, l, m, e, st⟩

/-- post-condition of a backward `Get` from `b` -/
def GetPostBR (name : Nat) (j : Journal) (w : Bool) (c' : Cur) (res : Option Rec) (b : Nat) : Prop :=
  ∃ b', PostBR lo hi name j w c' b' ∧ BLR lo hi j w b' = BLR lo hi j w b ∧ res = (BLR lo hi j w b).head? ∧
    (res = none ↔ b' = 0)

end basics

section bwd
variable (lo hi : Option Int) (HGB : RGetBwdSpec) (HNB : RNextBwdSpec)
include HGB HNB

theorem rob_curNext {name j w c b} (hs : Sorted j) (hp : PosIds j) (hcb : bw_ChunkBound j)
    (h : AbsBR lo hi name j w c b) : AbsBR lo hi name j w (curNext c) (b - 1) := by
  obtain ⟨s, v, l, m, rfl, hst⟩ := h
  unfold StBR at hst
  obtain ⟨hwf, hb, hc, _⟩ := hst
  obtain ⟨h1, h2, h3⟩ := HNB j s hs hp hcb hwf hb
  refine ⟨rNext j s, false, l, m, rp_curNext .., ?_⟩
  unfold StBR
  exact ⟨h1, h2, by rw [h3, hc], by intro hv; cases hv⟩

theorem rob_fGetLoop {name j w} (hs : Sorted j) (hp : PosIds j) (hcb : bw_ChunkBound j) :
    ∀ (fuel : Nat) (c : Cur) (b : Nat), AbsBR lo hi name j w c b → b < fuel →
      GetPostBR lo hi name j w (fGetLoop fuel c).1 (fGetLoop fuel c).2 b := by
  intro fuel
  induction fuel with
  | zero => intro c b _ hf; omega
  | succ f ih =>
    intro c b h hf
    obtain ⟨s, v, l, m, rfl, hst⟩ := h
    unfold StBR at hst
    obtain ⟨hwf, hb, hc, hv⟩ := hst
    rw [rp_fGetLoop_succ]
    cases v with
    | true =>
      obtain ⟨r, hl, hpos, hr, hk, hon⟩ := hv rfl
      simp only [if_true]
      refine ⟨b, ⟨s, true, l, m, rfl, by unfold StBR; exact ⟨hwf, hb, hc, hv⟩, Or.inr ⟨r, hpos, hr, hk, hon⟩⟩, rfl, ?_, ?_⟩
      · rw [rob_BL_some lo hi hpos hr]; simp [hk, hl]
      · rw [hl]; constructor
        · intro h; cases h
        · intro h; omega
    | false =>
      simp only [Bool.false_eq_true, if_false]
      obtain ⟨g1, g2, g3, g4, g5, g6⟩ := HGB j s hs hp hcb hwf hb
      rw [hc] at g1 g4
      cases hg : (rGet j s).2 with
      | none =>
        simp only []
        rw [hg] at g1
        have hb0 : b = 0 := by
          by_cases h0 : b = 0
          · exact h0
          · rw [if_neg h0] at g1
            have hle := rw_wbCount_le j s
            rw [hc] at hle
            have : b - 1 < (wflat j).length := by omega
            rw [List.getElem?_eq_getElem this] at g1; cases g1
        subst hb0
        refine ⟨0, ⟨(rGet j s).1, false, l, m, rfl, ?_, Or.inl ⟨rfl, g6 hg⟩⟩, rfl, ?_, by simp⟩
        · unfold StBR; exact ⟨g2, g3, g4, by intro h; cases h⟩
        · simp [rob_BL_zero]
      | some x =>
        simp only []
        rw [hg] at g1
        have hpos : 0 < b := by
          by_cases h0 : b = 0
          · rw [if_pos h0] at g1; cases g1
          · omega
        have hx : (wflat j)[b - 1]? = some x := by
          rw [if_neg (by omega)] at g1; exact g1.symm
        have hon : ROnRecord j (rGet j s).1 := g5 (by rw [hg]; rfl)
        by_cases hk : passR lo hi w x = true
        · simp only [hk, if_true]
          refine ⟨b, ⟨(rGet j s).1, true, some x, m, rfl, ?_, Or.inr ⟨x, hpos, hx, hk, hon⟩⟩, rfl, ?_, ?_⟩
          · unfold StBR; exact ⟨g2, g3, g4, fun _ => ⟨x, rfl, hpos, hx, hk, hon⟩⟩
          · rw [rob_BL_some lo hi hpos hx]; simp [hk]
          · constructor
            · intro h; cases h
            · intro h; omega
        · simp only [hk, if_false, Bool.false_eq_true]
          have hk' : passR lo hi w x = false := by simpa using hk
          obtain ⟨n1, n2, n3⟩ := HNB j (rGet j s).1 hs hp hcb g2 g3
          rw [g4] at n3
          have habs : AbsBR lo hi name j w (curR lo hi name j (rNext j (rGet j s).1) w false (some x) m) (b - 1) :=
            ⟨_, _, _, _, rfl, by unfold StBR; exact ⟨n1, n2, n3, by intro h; cases h⟩⟩
          obtain ⟨b', p', f', r', z'⟩ := ih _ (b - 1) habs (by omega)
          have hBL : BLR lo hi j w (b - 1) = BLR lo hi j w b := by rw [rob_BL_some lo hi hpos hx]; simp [hk']
          exact ⟨b', p', by rw [f', hBL], by rw [r', hBL], z'⟩

theorem rob_curGet {name j w c b} (hs : Sorted j) (hp : PosIds j) (hcb : bw_ChunkBound j)
    (h : AbsBR lo hi name j w c b) : GetPostBR lo hi name j w (curGet c).1 (curGet c).2 b := by
  obtain ⟨s, v, l, m, rfl, hst⟩ := h
  have : curGet (curR lo hi name j s w v l m) = fGetLoop ((flat j).length + 2) (curR lo hi name j s w v l m) := by
    simp [curGet, curR, Cur.size]
  rw [this]
  have hle : b ≤ (wflat j).length := by
    unfold StBR at hst; rw [← hst.2.2.1]; exact rw_wbCount_le _ _
  have := rp_wflat_length_le j
  exact rob_fGetLoop lo hi HGB HNB hs hp hcb _ _ b ⟨s, v, l, m, rfl, hst⟩ (by omega)

/-- the step loop of `Offset`, backward -/
theorem rob_steps {name j w} (hs : Sorted j) (hp : PosIds j) (hcb : bw_ChunkBound j) :
    ∀ (k : Nat) (c : Cur) (b : Nat) (pos : PosId), PostBR lo hi name j w c b →
    ∃ b', PostBR lo hi name j w (offsetSteps k c pos).1 b' ∧ BLR lo hi j w b' = (BLR lo hi j w b).drop k := by
  intro k
  induction k with
  | zero => intro c b pos h; exact ⟨b, by simpa [offsetSteps] using h, by simp⟩
  | succ k ih =>
    intro c b pos h
    have hn := rob_curNext lo hi HGB HNB hs hp hcb (rob_post_abs lo hi h)
    have hleft : BLR lo hi j w (b - 1) = (BLR lo hi j w b).drop 1 := by
      obtain ⟨s, v, l, m, _, _, hd⟩ := h
      rcases hd with ⟨h0, _⟩ | ⟨r, hpos, hr, hk, _⟩
      · subst h0; simp [rob_BL_zero]
      · rw [rob_BL_some lo hi hpos hr]; simp [hk]
    obtain ⟨b2, p2, f2, r2, z2⟩ := rob_curGet lo hi HGB HNB hs hp hcb hn
    rw [offsetSteps]
    cases hg : (curGet (curNext c)).2 with
    | none =>
      simp only [hg]
      refine ⟨b2, p2, ?_⟩
      have hnil : BLR lo hi j w (b - 1) = [] := by
        rw [hg] at r2; exact List.head?_eq_none_iff.mp r2.symm
      rw [f2, hnil]
      rw [hleft] at hnil
      have : (BLR lo hi j w b).drop (k + 1) = ((BLR lo hi j w b).drop 1).drop k := by
        rw [List.drop_drop]; congr 1; omega
      rw [this, hnil]; simp
    | some x =>
      simp only [hg]
      obtain ⟨b', p', f'⟩ := ih _ b2 (curPos (curGet (curNext c)).1) p2
      refine ⟨b', p', ?_⟩
      rw [f', f2, hleft, List.drop_drop]; congr 1; omega

end bwd

/-! ## direction switches -/
section switches
variable (lo hi : Option Int) (HG : RGetFwdSpec) (HN : RNextFwdSpec)
include HG HN

/-- forward `Get`, then `SetBackward(true)` -/
theorem rob_switch_back {name j w c i} (hs : Sorted j) (h : AbsR lo hi name j w false c i) :
    (∀ r, (curGet c).2 = some r → ∃ i', PostBR lo hi name j w (curSetBackward (curGet c).1 true) (i' + 1) ∧
        FLR lo hi j w i' = FLR lo hi j w i ∧ (wflat j)[i']? = some r ∧ passR lo hi w r = true) ∧
    ((curGet c).2 = none → AbsBR lo hi name j w (curSetBackward (curGet c).1 true) (wflat j).length ∧
        FLR lo hi j w i = []) := by
  obtain ⟨i', s', v', l', m', e, st, onrec, f, r, d⟩ := rp_curGet_abs lo hi HG HN hs h
  unfold StR at st
  obtain ⟨hwf, hb, hi', _, _, _⟩ := st
  obtain ⟨o1, o2⟩ := onrec rfl
  obtain ⟨s1, s2, s3, s4, s5, s6⟩ := rw_setBackward_facts j s' true
  have hcur : curSetBackward (curGet c).1 true = curR lo hi name j (rSetBackward s' true) w false l' m' := by
    rw [e, rp_curSetBackward]
  constructor
  · intro x hx
    rcases d with ⟨hn, _⟩ | ⟨r', hr', hget, hk⟩
    · rw [hx] at hn; cases hn
    · rw [hx] at hr'; cases hr'
      have hon := o1 (by rw [hx]; rfl)
      obtain ⟨hbc, _⟩ := rw_wbCount_on hs hwf hon
      refine ⟨i', ⟨rSetBackward s' true, _, l', m', hcur, ?_, Or.inr ⟨x, by omega, by simpa using hget, hk, s4 hon⟩⟩, f, hget, hk⟩
      unfold StBR
      exact ⟨s1 hwf, s5, by rw [s2, hbc, hi'], by intro h; cases h⟩
  · intro hx
    rcases d with ⟨_, hn⟩ | ⟨r', hr', _, _⟩
    · have hci := o2 hx
      have hnil : FLR lo hi j w i = [] := by rw [hx] at r; exact List.head?_eq_none_iff.mp r.symm
      refine ⟨⟨rSetBackward s' true, _, l', m', hcur, ?_⟩, hnil⟩
      unfold StBR
      refine ⟨s1 hwf, s5, ?_, by intro h; cases h⟩
      rw [s2]
      have h1 : wIdx j s' = wflatIdx j ⟨s'.cid, s'.idx⟩ := by unfold wIdx rEffPos; rw [hci]; rfl
      have h2 : wbCount j s' = wflatIdx j ⟨s'.cid, s'.idx + 1⟩ := by unfold wbCount; rw [hci]
      have h3 := rw_wflatIdx_mono j s'.cid s'.idx
      have h4 := rw_wflatIdx_le j ⟨s'.cid, s'.idx + 1⟩
      rw [h2]; rw [h1, hn] at hi'; omega
    · rw [hx] at hr'; cases hr'

/-- `SetBackward(false)` after a backward `Get` -/
theorem rob_switch_fwd {name j w c b} (hs : Sorted j) (h : PostBR lo hi name j w c b) :
    ∃ i, AbsR lo hi name j w false (curSetBackward c false) i ∧
      ((b = 0 ∧ i = 0) ∨ (∃ r, 0 < b ∧ i = b - 1 ∧ (wflat j)[i]? = some r ∧ passR lo hi w r = true)) := by
  obtain ⟨s, v, l, m, rfl, st, d⟩ := h
  unfold StBR at st
  obtain ⟨hwf, hb, hc, _⟩ := st
  obtain ⟨s1, s2, s3, s4, s5, s6⟩ := rw_setBackward_facts j s false
  have mkSt : ∀ i, wIdx j s = i → StR lo hi j w false (rSetBackward s false) false l i := by
    intro i hi'
    unfold StR
    exact ⟨s1 hwf, s5, by rw [s3, hi'], (by intro h; cases h), (by intro h; cases h), (by intro _ h; cases h)⟩
  rcases d with ⟨h0, hci⟩ | ⟨r, hpos, hr, hk, hon⟩
  · have h1 : wIdx j s = wflatIdx j ⟨s.cid, s.idx⟩ := by unfold wIdx rEffPos; rw [hci]; rfl
    have h2 : wbCount j s = wflatIdx j ⟨s.cid, s.idx + 1⟩ := by unfold wbCount; rw [hci]
    have h3 := rw_wflatIdx_mono j s.cid s.idx
    have hz : wIdx j s = 0 := by rw [h2] at hc; omega
    exact ⟨0, ⟨_, _, _, _, rp_curSetBackward .., mkSt 0 hz⟩, Or.inl ⟨h0, rfl⟩⟩
  · obtain ⟨hbc, _⟩ := rw_wbCount_on hs hwf hon
    have hz : wIdx j s = b - 1 := by omega
    exact ⟨b - 1, ⟨_, _, _, _, rp_curSetBackward .., mkSt _ hz⟩, Or.inr ⟨r, hpos, rfl, hr, hk⟩⟩

end switches

/-! ## `Offset` with a negative argument -/

theorem rob_iter_id (lo hi : Option Int) (name j s w v l m) (pos : PosId) :
    iterateToPos (curR lo hi name j s w v l m) pos = curR lo hi name j s w v l m := by
  simp [iterateToPos, curR]

theorem rob_FL_suffix (lo hi : Option Int) (j : Journal) (w : Bool) (b : Nat) :
    FLR lo hi j w b = (FLR lo hi j w 0).drop (BLR lo hi j w b).length ∧
    (FLR lo hi j w 0).length = (BLR lo hi j w b).length + (FLR lo hi j w b).length := by
  have h : FLR lo hi j w 0 = ((wflat j).take b).filter (passR lo hi w) ++ FLR lo hi j w b := by
    unfold FLR
    rw [List.drop_zero, ← List.filter_append, List.take_append_drop]
  have hl : (BLR lo hi j w b).length = (((wflat j).take b).filter (passR lo hi w)).length := by simp [BLR]
  constructor
  · rw [h, hl, List.drop_left]
  · rw [h, hl, List.length_append]

section neg
variable (lo hi : Option Int) (HG : RGetFwdSpec) (HN : RNextFwdSpec) (HGB : RGetBwdSpec) (HNB : RNextBwdSpec)
include HG HN HGB HNB

theorem rob_finish {name j w c b} (hs : Sorted j) (h : PostBR lo hi name j w c b) (pos : PosId) :
    ∃ i, AbsR lo hi name j w false (iterateToPos (curSetBackward c false) pos) i ∧
      FLR lo hi j w i = (FLR lo hi j w 0).drop ((BLR lo hi j w b).length - 1) := by
  obtain ⟨i, ha, hd⟩ := rob_switch_fwd lo hi HG HN hs h
  have hid : iterateToPos (curSetBackward c false) pos = curSetBackward c false := by
    obtain ⟨s, v, l, m, e, _⟩ := ha
    rw [e, rob_iter_id]
  rw [hid]
  refine ⟨i, ha, ?_⟩
  rcases hd with ⟨h0, hi0⟩ | ⟨r, hpos, hi', hr, hk⟩
  · subst h0; subst hi0; simp [rob_BL_zero]
  · have hb : BLR lo hi j w b = r :: BLR lo hi j w (b - 1) := by
      rw [hi'] at hr; rw [rob_BL_some lo hi hpos hr]; simp [hk]
    rw [hb, hi', (rob_FL_suffix lo hi j w (b - 1)).1]; simp

/-- **Offset(−k)** from any forward state of the ranged cursor -/
theorem rob_offset_neg {name j w c i} (hs : Sorted j) (hp : PosIds j) (hcb : bw_ChunkBound j) (k : Nat)
    (h : AbsR lo hi name j w false c i) :
    ∃ i', AbsR lo hi name j w false (offset c (-(k : Int))) i' ∧
      FLR lo hi j w i' = (FLR lo hi j w 0).drop (((FLR lo hi j w 0).length - (FLR lo hi j w i).length) - k) := by
  obtain ⟨sfx1, sfx2⟩ := rob_FL_suffix lo hi j w i
  cases k with
  | zero =>
    refine ⟨i, by simpa [offset] using h, ?_⟩
    have : (FLR lo hi j w 0).length - (FLR lo hi j w i).length - 0 = (BLR lo hi j w i).length := by omega
    rw [this]; exact sfx1
  | succ k =>
    obtain ⟨hsome, hnone⟩ := rob_switch_back lo hi HG HN hs h
    cases hx : (curGet c).2 with
    | some x =>
      obtain ⟨i1, hpost, f1, hget, hkx⟩ := hsome x hx
      rw [ob_offset_unfold_some c k x hx]
      have hid : iterateToPos (curSetBackward (curGet c).1 true) (curPos (curGet c).1) = curSetBackward (curGet c).1 true := by
        obtain ⟨s, v, l, m, e, _⟩ := hpost
        rw [e, rob_iter_id]
      rw [hid]
      obtain ⟨b', hp', hb'⟩ := rob_steps lo hi HGB HNB hs hp hcb (k + 1) _ (i1 + 1) (curPos (curGet c).1) hpost
      obtain ⟨i', ha', hf'⟩ := rob_finish lo hi HG HN HGB HNB hs hp'
        (offsetSteps (k + 1) (curSetBackward (curGet c).1 true) (curPos (curGet c).1)).2
      refine ⟨i', ha', ?_⟩
      rw [hf', hb']
      have hbl : BLR lo hi j w (i1 + 1) = x :: BLR lo hi j w i1 := by
        rw [rob_BL_some lo hi (Nat.succ_pos _) (by simpa using hget)]; simp [hkx]
      obtain ⟨_, s2⟩ := rob_FL_suffix lo hi j w i1
      rw [f1] at s2
      rw [hbl, List.length_drop, List.length_cons]
      congr 1; omega
    | none =>
      obtain ⟨habs, hnil⟩ := hnone hx
      rw [ob_offset_unfold_none c k hx]
      obtain ⟨b1, hp1, fb1, _, _⟩ := rob_curGet lo hi HGB HNB hs hp hcb habs
      obtain ⟨b', hp', hb'⟩ := rob_steps lo hi HGB HNB hs hp hcb k _ b1
        (curPos (curGet (curSetBackward (curGet c).1 true)).1) hp1
      obtain ⟨i', ha', hf'⟩ := rob_finish lo hi HG HN HGB HNB hs hp'
        (offsetSteps k (curGet (curSetBackward (curGet c).1 true)).1 (curPos (curGet (curSetBackward (curGet c).1 true)).1)).2
      refine ⟨i', ha', ?_⟩
      rw [hf', hb', fb1, List.length_drop]
      obtain ⟨_, s3⟩ := rob_FL_suffix lo hi j w (wflat j).length
      rw [ro_FL_len] at s3
      rw [hnil]
      congr 1
      simp only [List.length_nil] at s3 ⊢
      omega

end neg

/-! ## the three laws for a one-source ranged cursor -/

theorem rob_wflatIdx_tail {j : Journal} (h : IdsBelowTail j) (k : Nat) : wflatIdx j ⟨tailCid, k⟩ = (wflat j).length := by
  apply wflatIdx_eq_len
  intro c hc
  simp only [wfiTerm, h c hc, if_true]

section lawsC16
variable (lo hi : Option Int) (HG : RGetFwdSpec) (HN : RNextFwdSpec) (HGB : RGetBwdSpec) (HNB : RNextBwdSpec)
include HG HN

theorem rob_readN {name j w c i} (hs : Sorted j) (n : Nat) (h : AbsR lo hi name j w false c i) :
    readN n c = (FLR lo hi j w i).take n := by
  have := (rp_readLoop_abs lo hi HG HN hs n c i [] h).1
  simpa [readN] using this

include HGB HNB

theorem rob_tail_minus_k (name : Nat) (j : Journal) (w : Bool) (k n : Nat) (hs : Sorted j) (hp : PosIds j)
    (hcb : bw_ChunkBound j) (ht : IdsBelowTail j) :
    readN n (offset (applyCorner (mkR lo hi name j w) true) (-(k : Int))) =
      (((wflat j).filter (passR lo hi w)).drop (((wflat j).filter (passR lo hi w)).length - k)).take n := by
  have h0 := rp_corner_abs lo hi name j w true false
  simp only [if_true] at h0
  rw [rob_wflatIdx_tail ht] at h0
  obtain ⟨i', a', f'⟩ := rob_offset_neg lo hi HG HN HGB HNB hs hp hcb k h0
  rw [rob_readN lo hi HG HN hs n a', f', ro_FL_len]; simp [FLR]

theorem rob_plus_minus_k (name : Nat) (j : Journal) (w : Bool) (m k n : Nat) (hs : Sorted j) (hp : PosIds j)
    (hcb : bw_ChunkBound j) (hk : m + k ≤ ((wflat j).filter (passR lo hi w)).length) :
    readN n (offset (offset (readLoop m (applyCorner (mkR lo hi name j w) false) []).1 (k : Int)) (-(k : Int))) =
      readN n (readLoop m (applyCorner (mkR lo hi name j w) false) []).1 := by
  have h0 := rp_corner_abs lo hi name j w false false
  simp only [Bool.false_eq_true, if_false] at h0
  rw [show wflatIdx j ({} : Pos) = 0 from rw_wflatIdx_zero j] at h0
  obtain ⟨_, i1, a1, f1⟩ := rp_readLoop_abs lo hi HG HN hs m _ 0 [] h0
  obtain ⟨i2, a2, f2⟩ := ro_offset_pos lo hi HG HN hs k a1
  obtain ⟨i3, a3, f3⟩ := rob_offset_neg lo hi HG HN HGB HNB hs hp hcb k a2
  rw [rob_readN lo hi HG HN hs n a3, rob_readN lo hi HG HN hs n a1, f3, f2, f1]
  have hfl : FLR lo hi j w 0 = (wflat j).filter (passR lo hi w) := by simp [FLR]
  rw [hfl] at *
  simp only [List.length_drop, List.drop_drop]
  congr 2
  omega

end lawsC16
end Logrange.Rd
