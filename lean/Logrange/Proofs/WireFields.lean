import Logrange.Model.WireFields
import Logrange.Proofs.Wire
/-! Lemmas about binary field lists (C13): the readers are total on well-formed lists; what the ingestion paths build is
well-formed unless unquoting makes an item longer than 255 bytes. -/
namespace Logrange.WireFields
open Go Logrange Outcome

theorem lenByte (v : Bytes) (h : v.length ≤ 255) : (UInt8.ofNat v.length).toNat = v.length := by
  simp [UInt8.toNat_ofNat']; omega

theorem slice_prefix (v r : Bytes) : Go.slice (v ++ r) 0 v.length = .ok v := by
  have hb : (0 : Int) ≤ 0 ∧ (0 : Int) ≤ (v.length : Int) ∧ ((v.length : Nat) : Int) ≤ ((v ++ r).length : Int) := by
    simp only [List.length_append]; omega
  rw [slice_ok_of hb]
  simp

theorem encodeItems_length_cons (v : Bytes) (r : List Bytes) :
    (encodeItems (v :: r)).length = 1 + v.length + (encodeItems r).length := by
  simp [encodeItems]; omega

/-- `AsKVString`'s walk over a well-formed list returns exactly its items -/
theorem itemsGo_encode : ∀ (its : List Bytes) (fuel : Nat), (∀ v ∈ its, v.length ≤ 255) →
    (encodeItems its).length < fuel → itemsGo fuel (encodeItems its) = .ok its
  | [], fuel, _, hf => by
    cases fuel with
    | zero => simp [encodeItems] at hf
    | succ f => rfl
  | v :: r, fuel, hv, hf => by
    cases fuel with
    | zero => omega
    | succ f =>
      have hvl : v.length ≤ 255 := hv v (by simp)
      rw [encodeItems_length_cons] at hf
      simp only [encodeItems, itemsGo]
      rw [lenByte v hvl, slice_prefix, bind_ok]
      have hd : (v ++ encodeItems r).drop v.length = encodeItems r := by simp
      rw [hd, itemsGo_encode r f (fun x hx => hv x (by simp [hx])) (by omega), bind_ok]

/-- `Fields.Value` on a well-formed list: `even` tells whether the next item is a key; a key is always followed by a value -/
theorem valueGo_encode (name : Bytes) : ∀ (its : List Bytes) (fuel : Nat) (even : Bool), (∀ v ∈ its, v.length ≤ 255) →
    its.length % 2 = (if even then 0 else 1) → (encodeItems its).length < fuel →
    (valueGo name fuel (encodeItems its) even).isPanic = false ∧ (valueGo name fuel (encodeItems its) even).isOutOfFuel = false
  | [], fuel, _, _, _, hf => by
    cases fuel with
    | zero => simp [encodeItems] at hf
    | succ f => exact ⟨rfl, rfl⟩
  | v :: r, fuel, even, hv, hp, hf => by
    cases fuel with
    | zero => omega
    | succ f =>
      have hvl : v.length ≤ 255 := hv v (by simp)
      have hr : ∀ x ∈ r, x.length ≤ 255 := fun x hx => hv x (by simp [hx])
      rw [encodeItems_length_cons] at hf
      have hd : (v ++ encodeItems r).drop v.length = encodeItems r := by simp
      have hpar : r.length % 2 = (if (!even) then 0 else 1) := by
        simp only [List.length_cons] at hp
        cases even <;> simp at hp ⊢ <;> omega
      have hrec := valueGo_encode name r f (!even) hr hpar (by omega)
      simp only [encodeItems, valueGo]
      rw [lenByte v hvl, hd]
      split
      · rename_i hc
        rw [slice_prefix, bind_ok]
        split
        · -- the key matches: the value item exists because the number of remaining items is odd
          have he : even = true := hc.1
          subst he
          cases r with
          | nil => simp at hp
          | cons w r' =>
            have hwl : w.length ≤ 255 := hr w (by simp)
            have hi : Go.index (encodeItems (w :: r')) 0 = .ok (UInt8.ofNat w.length) := rfl
            rw [hi, bind_ok, lenByte w hwl]
            have hd1 : (encodeItems (w :: r')).drop 1 = w ++ encodeItems r' := rfl
            rw [hd1, slice_prefix]
            exact ⟨rfl, rfl⟩
        · exact hrec
      · exact hrec

theorem concat_WF (a b : Bytes) (ha : WF a) (hb : WF b) : WF (concat a b) := by
  obtain ⟨ia, ha1, ha2, rfl⟩ := ha
  obtain ⟨ib, hb1, hb2, rfl⟩ := hb
  refine ⟨ia ++ ib, ?_, ?_, ?_⟩
  · intro v hv
    rcases List.mem_append.mp hv with h | h
    · exact ha1 v h
    · exact hb1 v h
  · simp only [List.length_append]; omega
  · unfold concat
    clear ha1 ha2 hb1 hb2
    induction ia with
    | nil => rfl
    | cons v r ih => simp [encodeItems, ih]

theorem WF_nil : WF [] := ⟨[], by simp, rfl, rfl⟩


theorem encodeItems_append (a : List Bytes) (v : Bytes) :
    encodeItems (a ++ [v]) = encodeItems a ++ UInt8.ofNat v.length :: v := by
  induction a with
  | nil => simp [encodeItems]
  | cons x r ih => simp [encodeItems, ih]

/-- the builder loop keeps "the buffer is the encoding of items of at most 255 bytes": an unquoted item is at most 255
bytes long because the code tests it (commit 72eac47; regenerated facts) — or, for the code before that commit, under the
hypothesis that unquoting does not produce a longer item -/
theorem buildGo_items (trim : Bytes → Bytes) (unq : Bytes → Option Bytes)
    (htrim : ∀ v, (trim v).length ≤ v.length)
    (hmax : Generated.C13.fieldMaxLen ≤ 255)
    (hunq : (Generated.C13.fieldLenTestedAfterUnquote = true ∧ Generated.C13.fieldMaxLenAfterUnquote ≤ 255) ∨
      ∀ v w, unq v = some w → w.length ≤ 255) :
    ∀ (parts : List Bytes) (i : Nat) (acc : List Bytes) (f : Bytes), (∀ v ∈ acc, v.length ≤ 255) →
      buildGo trim unq parts i (encodeItems acc) = some f →
      ∃ its, f = encodeItems its ∧ (∀ v ∈ its, v.length ≤ 255) ∧ its.length = acc.length + parts.length
  | [], _, acc, f, hacc, h => by
    simp only [buildGo] at h
    cases h
    exact ⟨acc, rfl, hacc, by simp⟩
  | p :: rest, i, acc, f, hacc, h => by
    unfold buildGo at h
    split at h
    · cases h
    · rename_i hlen
      simp only [] at h
      split at h
      · cases h
      · split at h
        · cases h
        · rename_i w hw
          have hwl : w.length ≤ 255 := by
            have hp : (trim p).length ≤ 255 := by have := htrim p; omega
            split at hw
            · rename_i c tl heq
              split at hw
              · -- quoted: the unquoted value
                split at hw
                · cases hw
                · rename_i u hu
                  split at hw
                  · cases hw
                  · rename_i htest
                    cases hw
                    rcases hunq with ⟨ht, hm⟩ | hun
                    · simp only [ht, true_and, Nat.not_lt] at htest; omega
                    · exact hun _ _ hu
              · cases hw
                first | exact hp | (rw [heq] at hp; exact hp) | (rw [← heq]; exact hp)
            · cases hw
              first | exact hp | (rename_i heq; rw [heq]; simp)
          rw [← encodeItems_append] at h
          obtain ⟨its, h1, h2, h3⟩ := buildGo_items trim unq htrim hmax hunq rest (i + 1) (acc ++ [w]) f
            (by intro v hv; rcases List.mem_append.mp hv with hv | hv
                · exact hacc v hv
                · simp at hv; subst hv; exact hwl) h
          exact ⟨its, h1, h2, by simp at h3 ⊢; omega⟩

/-- **what `NewFieldsFromKVString` builds is well-formed** -/
theorem build_WF (trim : Bytes → Bytes) (unq : Bytes → Option Bytes)
    (htrim : ∀ v, (trim v).length ≤ v.length)
    (hmax : Generated.C13.fieldMaxLen ≤ 255)
    (hunq : (Generated.C13.fieldLenTestedAfterUnquote = true ∧ Generated.C13.fieldMaxLenAfterUnquote ≤ 255) ∨
      ∀ v w, unq v = some w → w.length ≤ 255)
    (parts : List Bytes) (f : Bytes) (h : build trim unq parts = some f) : WF f := by
  unfold build at h
  split at h
  · cases h
  · rename_i hpar
    obtain ⟨its, h1, h2, h3⟩ := buildGo_items trim unq htrim hmax hunq parts 0 [] f (by simp) h
    exact ⟨its, h2, by simp at h3; omega, h1⟩

theorem fromKV_WF (split : Bytes → Option (List Bytes)) (trim : Bytes → Bytes) (unq : Bytes → Option Bytes)
    (htrim : ∀ v, (trim v).length ≤ v.length)
    (hmax : Generated.C13.fieldMaxLen ≤ 255)
    (hunq : (Generated.C13.fieldLenTestedAfterUnquote = true ∧ Generated.C13.fieldMaxLenAfterUnquote ≤ 255) ∨
      ∀ v w, unq v = some w → w.length ≤ 255)
    (s f : Bytes) (h : fromKV split trim unq s = some f) : WF f := by
  unfold fromKV at h
  split at h
  · cases h
  · exact build_WF trim unq htrim hmax hunq _ f h

/-! ### the write packet iterator stores well-formed field lists -/
open Logrange.Wire

def FInv (it : WpIter) : Prop := WF it.flds ∧ (it.read = true → WF it.lge.fields)

theorem wpInit_FInv (kv : Bytes → Option Bytes) (hkv : ∀ s f, kv s = some f → WF f) (buf : Bytes) (it : WpIter)
    (h : wpInit kv buf = .ok it) : FInv it := by
  have h := wpInit_core kv buf it h
  unfold wpInitCore at h
  obtain ⟨n1, tags, _, _, h⟩ := next_eq_ok h
  obtain ⟨n2, flds, _, _, h⟩ := next_eq_ok h
  obtain ⟨n3, ln, _, _, h⟩ := next_eq_ok h
  split at h
  · cases h
  · rename_i wf hwf
    cases h
    exact ⟨hkv _ _ hwf, by intro hr; cases hr⟩

theorem wpGet_FInv (kv : Bytes → Option Bytes) (hkv : ∀ s f, kv s = some f → WF f) (it it' : WpIter) (r : Option Event)
    (hi : FInv it) (h : wpGet kv it = .ok (it', r)) : FInv it' ∧ ∀ e, r = some e → WF e.fields := by
  unfold wpGet at h
  split at h
  · rename_i hr
    cases h
    exact ⟨hi, by intro e he; cases he; exact hi.2 hr⟩
  · rename_i hnr
    split at h
    · cases h; exact ⟨hi, by intro e he; cases he⟩
    · simp only [] at h
      obtain ⟨b, _, h⟩ := bind_eq_ok h
      split at h
      · rename_i n le _
        cases h
        have hw : WF (it.flds ++ (kv le.fields).getD []) := by
          apply concat_WF _ _ hi.1
          cases hk : kv le.fields with
          | none => exact WF_nil
          | some f => exact hkv _ _ hk
        exact ⟨⟨hi.1, fun _ => hw⟩, by intro e he; cases he; exact hw⟩
      · cases h
        exact ⟨⟨hi.1, by intro hr; exact absurd hr hnr⟩, by intro e he; cases he⟩
      · cases h
      · cases h

theorem wpDrain_WF (kv : Bytes → Option Bytes) (hkv : ∀ s f, kv s = some f → WF f) :
    ∀ (fuel : Nat) (it : WpIter) (acc evs : List Event), FInv it → (∀ e ∈ acc, WF e.fields) →
      wpDrain kv fuel it acc = .ok evs → ∀ e ∈ evs, WF e.fields
  | 0, _, _, _, _, _, h => by simp [wpDrain] at h
  | f + 1, it, acc, evs, hi, hacc, h => by
    unfold wpDrain at h
    obtain ⟨r, hr, h⟩ := bind_eq_ok h
    obtain ⟨it', e⟩ := r
    have := wpGet_FInv kv hkv it it' e hi hr
    cases e with
    | none =>
      simp only [] at h
      cases h
      intro e he
      exact hacc e (List.mem_reverse.mp he)
    | some ev =>
      simp only [] at h
      refine wpDrain_WF kv hkv f (wpNext it') (ev :: acc) evs ?_ ?_ h
      · exact ⟨this.1.1, by intro hr'; simp [wpNext] at hr'⟩
      · intro e he
        rcases List.mem_cons.mp he with rfl | he
        · exact this.2 _ rfl
        · exact hacc e he

end Logrange.WireFields
