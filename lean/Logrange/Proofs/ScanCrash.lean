import Logrange.Model.ScanCrash
import Logrange.Proofs.ScanWorker
/-! Invariants of the scanner worker LTS with the two-step save (`Model/ScanCrash.lean`). -/
namespace Logrange.ScanCrash
open Logrange.ScanWorker

/-! ## facts about single worker steps -/

/-- every step keeps `start`, only appends to `ends` and never lowers the confirmed end -/
theorem step_grow (c : Cfg) (s s' : S) (l : L) (hs : step c s l = some s') :
    s'.start = s.start ∧ (s'.ends = s.ends ∨ s'.ends = s.ends ++ [s.pos]) ∧ confEnd s ≤ confEnd s' := by
  cases l <;> simp only [step] at hs <;> (repeat' split at hs) <;>
    first
    | (obtain rfl := Option.some.inj hs
       refine ⟨rfl, ?_, ?_⟩
       · first
         | exact Or.inl rfl
         | exact Or.inr rfl
       · simp only [confEnd, finish, bytesOf_append]; omega)
    | cases hs

theorem step_ends_mono (c : Cfg) (s s' : S) (l : L) (hs : step c s l = some s') :
    ∀ e ∈ s.ends, e ∈ s'.ends := by
  intro e he
  rcases (step_grow c s s' l hs).2.1 with h | h
  · rw [h]; exact he
  · rw [h]; exact List.mem_append_left _ he

/-- (a) a label that is not a persist keeps what the state file holds -/
theorem step_nonpersist (c : Cfg) (s s' : S) (l : L) (hl : isPersistLabel l = false)
    (hs : step c s l = some s') :
    s'.persisted = s.persisted ∧ s'.confAtPersist = s.confAtPersist ∧
    s'.persistInWindow = s.persistInWindow := by
  cases l <;> simp only [isPersistLabel] at hl <;> (try cases hl) <;> simp only [step] at hs <;>
    (repeat' split at hs) <;>
    first
    | (obtain rfl := Option.some.inj hs; exact ⟨rfl, rfl, rfl⟩)
    | cases hs

/-- (b) the two persist labels, when enabled, do the same: they store the offset -/
theorem step_persist (c : Cfg) (s s' : S) (l : L) (hl : isPersistLabel l = true)
    (hs : step c s l = some s') :
    s' = { s with persisted := s.offset, confAtPersist := confEnd s, persistInWindow := isSetting s.pc } := by
  cases l <;> simp only [isPersistLabel] at hl <;> (try cases hl) <;> simp only [step] at hs
  · exact (Option.some.inj hs).symm
  · split at hs
    · exact (Option.some.inj hs).symm
    · cases hs

theorem isPersistLabel_sel (final : Bool) :
    isPersistLabel (if final then L.finalPersist else L.persist) = true := by
  cases final <;> rfl

/-- after the worker has left its loop only `stopOnEOF` and `cancel` are enabled (besides the persists);
they change neither the program counter nor any offset -/
theorem step_done (c : Cfg) (s s' : S) (l : L) (hpc : s.pc = .done) (hl : isPersistLabel l = false)
    (hs : step c s l = some s') :
    s'.pc = .done ∧ s'.start = s.start ∧ s'.confirmed = s.confirmed ∧ s'.persisted = s.persisted := by
  cases l <;> simp only [isPersistLabel] at hl <;> (try cases hl) <;> simp only [step, hpc] at hs <;>
    (repeat' split at hs) <;>
    first
    | (obtain rfl := Option.some.inj hs; exact ⟨rfl, rfl, rfl, rfl⟩)
    | (obtain rfl := Option.some.inj hs; exact ⟨hpc, rfl, rfl, rfl⟩)
    | cases hs

/-! ## the wrapper invariant -/

/-- what `scanner.json` holds, at every point, also between the write of the temporary file and its rename -/
structure CInv (x : CS) : Prop where
  winv : WInv x.s
  idle : x.saving = false →
    x.disk = x.s.persisted ∧ x.diskConf = x.s.confAtPersist ∧ x.diskWin = x.s.persistInWindow
  busy : x.saving = true → x.disk ≤ x.s.persisted
  diskMem : x.disk ∈ x.s.start :: x.s.ends
  diskLe : x.disk ≤ x.s.offset
  confLe : x.diskConf ≤ confEnd x.s
  noRace : x.diskWin = false → x.disk = x.diskConf

theorem cinv_init (start : Nat) : CInv (cinit start) := by
  refine ⟨winv_init start, ?_, ?_, ?_, ?_, ?_, ?_⟩ <;> simp [cinit, init, confEnd]

theorem cinv_step (c : Cfg) (x x' : CS) (l : CL) (h : CInv x) (hs : cstep c x l = some x') : CInv x' := by
  obtain ⟨hw, h1, h2, h3, h4, h5, h6⟩ := h
  cases l with
  | w l =>
    simp only [cstep] at hs
    split at hs
    · cases hs
    · rename_i hl
      have hl : isPersistLabel l = false := by simpa using hl
      split at hs
      · rename_i s' hst
        obtain rfl := Option.some.inj hs
        have hw' : WInv s' := winv_step c x.s s' l hw hst
        obtain ⟨e1, e2, e3⟩ := step_nonpersist c x.s s' l hl hst
        obtain ⟨g1, _, g3⟩ := step_grow c x.s s' l hst
        have hmono := step_ends_mono c x.s s' l hst
        have hb : x.saving = true → x.disk ≤ s'.persisted := by
          intro hsv; rw [e1]; exact h2 hsv
        have hi : x.saving = false →
            x.disk = s'.persisted ∧ x.diskConf = s'.confAtPersist ∧ x.diskWin = s'.persistInWindow := by
          intro hsv; rw [e1, e2, e3]; exact h1 hsv
        refine ⟨hw', hi, hb, ?_, ?_, ?_, h6⟩
        · show x.disk ∈ s'.start :: s'.ends
          rw [g1]
          rcases List.mem_cons.1 h3 with h | h
          · exact List.mem_cons.2 (Or.inl h)
          · exact List.mem_cons.2 (Or.inr (hmono _ h))
        · show x.disk ≤ s'.offset
          have := hw'.perLe
          cases hsv : x.saving with
          | false => have := (hi hsv).1; omega
          | true => have := hb hsv; omega
        · show x.diskConf ≤ confEnd s'
          omega
      · cases hs
  | saveBegin final =>
    simp only [cstep] at hs
    split at hs
    · cases hs
    · split at hs
      · rename_i s' hst
        obtain rfl := Option.some.inj hs
        have hw' : WInv s' := winv_step c x.s s' _ hw hst
        have e := step_persist c x.s s' _ (isPersistLabel_sel final) hst
        subst e
        refine ⟨hw', ?_, ?_, h3, h4, h5, h6⟩
        · intro hsv; cases hsv
        · intro _; exact h4
      · cases hs
  | saveRename =>
    simp only [cstep] at hs
    split at hs
    · obtain rfl := Option.some.inj hs
      refine ⟨hw, ?_, ?_, hw.perMem, hw.perLe, hw.confMono, hw.noRace⟩
      · intro _; exact ⟨rfl, rfl, rfl⟩
      · intro hsv; cases hsv
    · cases hs

theorem cinv_run (c : Cfg) : ∀ (tr : List CL) (x : CS), CInv x → CInv (crun c x tr)
  | [], x, h => by simpa [crun] using h
  | l :: ls, x, h => by
    simp only [crun]
    cases hs : cstep c x l with
    | none => exact cinv_run c ls x h
    | some x' => exact cinv_run c ls x' (cinv_step c x x' l h hs)

/-! ## `start` is constant -/

theorem cstep_start (c : Cfg) (x x' : CS) (l : CL) (hs : cstep c x l = some x') : x'.s.start = x.s.start := by
  cases l <;> simp only [cstep] at hs <;> (repeat' split at hs) <;>
    first
    | (rename_i s' hst; obtain rfl := Option.some.inj hs; exact (step_grow c _ _ _ hst).1)
    | (obtain rfl := Option.some.inj hs; rfl)
    | cases hs

theorem crun_start (c : Cfg) : ∀ (tr : List CL) (x : CS), (crun c x tr).s.start = x.s.start
  | [], x => rfl
  | l :: ls, x => by
    simp only [crun]
    cases hs : cstep c x l with
    | none => exact crun_start c ls x
    | some x' => rw [crun_start c ls x', cstep_start c x x' l hs]

/-! ## the final save (configurations whose final persist waits for the worker) -/

structure GInv (x : CS) : Prop where
  tmp : x.saving = true → x.tmpFinal = true → x.s.pc = .done ∧ x.s.persisted = confEnd x.s
  fin : x.diskFinal = true → x.s.pc = .done ∧ x.disk = confEnd x.s

theorem ginv_init (start : Nat) : GInv (cinit start) := by
  constructor <;> simp [cinit]

theorem ginv_step (c : Cfg) (hc : c.finalAfterWorkers = true) (x x' : CS) (l : CL) (hi : CInv x) (h : GInv x)
    (hs : cstep c x l = some x') : GInv x' := by
  obtain ⟨g1, g2⟩ := h
  cases l with
  | w l =>
    simp only [cstep] at hs
    split at hs
    · cases hs
    · rename_i hl
      have hl : isPersistLabel l = false := by simpa using hl
      split at hs
      · rename_i s' hst
        obtain rfl := Option.some.inj hs
        have key : x.s.pc = .done → s'.pc = .done ∧ confEnd s' = confEnd x.s ∧ s'.persisted = x.s.persisted := by
          intro hpc
          obtain ⟨a, b, d, e⟩ := step_done c x.s s' l hpc hl hst
          exact ⟨a, by simp only [confEnd, b, d], e⟩
        constructor
        · intro hsv htf
          obtain ⟨p, q⟩ := g1 hsv htf
          obtain ⟨a, b, d⟩ := key p
          exact ⟨a, by show s'.persisted = confEnd s'; rw [b, d]; exact q⟩
        · intro hdf
          obtain ⟨p, q⟩ := g2 hdf
          obtain ⟨a, b, _⟩ := key p
          exact ⟨a, by show x.disk = confEnd s'; rw [b]; exact q⟩
      · cases hs
  | saveBegin final =>
    simp only [cstep] at hs
    split at hs
    · cases hs
    · split at hs
      · rename_i s' hst
        obtain rfl := Option.some.inj hs
        have e := step_persist c x.s s' _ (isPersistLabel_sel final) hst
        constructor
        · intro _ htf
          have htf : final = true := htf
          subst htf
          simp only [if_true, step, hc, Bool.not_true, Bool.false_or] at hst
          split at hst
          · rename_i hcond
            simp only [Bool.and_eq_true, beq_iff_eq] at hcond
            have hoff := hi.winv.offEq
            simp only [hcond.2, isSetting] at hoff
            subst e
            exact ⟨hcond.2, by show x.s.offset = confEnd x.s; simpa using hoff⟩
          · cases hst
        · intro hdf
          subst e
          exact g2 hdf
      · cases hs
  | saveRename =>
    simp only [cstep] at hs
    split at hs
    · rename_i hsv
      obtain rfl := Option.some.inj hs
      constructor
      · intro h; cases h
      · intro hdf
        exact g1 hsv hdf
    · cases hs

theorem ginv_run (c : Cfg) (hc : c.finalAfterWorkers = true) :
    ∀ (tr : List CL) (x : CS), CInv x → GInv x → GInv (crun c x tr)
  | [], x, _, h => by simpa [crun] using h
  | l :: ls, x, hi, h => by
    simp only [crun]
    cases hs : cstep c x l with
    | none => exact ginv_run c hc ls x hi h
    | some x' => exact ginv_run c hc ls x' (cinv_step c x x' l hi hs) (ginv_step c hc x x' l hi h hs)

/-! ## the inner system stays inside the one-step-save LTS -/

theorem run_append (c : Cfg) : ∀ (a b : List L) (s : S), run c s (a ++ b) = run c (run c s a) b
  | [], b, s => rfl
  | l :: ls, b, s => by
    simp only [List.cons_append, run]
    cases step c s l with
    | none => exact run_append c ls b s
    | some s' => exact run_append c ls b s'

theorem run_single (c : Cfg) (s s' : S) (l : L) (hs : step c s l = some s') : run c s [l] = s' := by
  simp only [run, hs]

/-- a step of the split-save system is no step or one step of the worker LTS on the inner state -/
theorem cstep_inner (c : Cfg) (x x' : CS) (l : CL) (hs : cstep c x l = some x') :
    x'.s = x.s ∨ ∃ l', step c x.s l' = some x'.s := by
  cases l with
  | w l =>
    simp only [cstep] at hs
    split at hs
    · cases hs
    · split at hs
      · rename_i s' hst
        obtain rfl := Option.some.inj hs
        exact Or.inr ⟨l, hst⟩
      · cases hs
  | saveBegin final =>
    simp only [cstep] at hs
    split at hs
    · cases hs
    · split at hs
      · rename_i s' hst
        obtain rfl := Option.some.inj hs
        exact Or.inr ⟨_, hst⟩
      · cases hs
  | saveRename =>
    simp only [cstep] at hs
    split at hs
    · obtain rfl := Option.some.inj hs
      exact Or.inl rfl
    · cases hs

theorem crun_inner (c : Cfg) (s0 : S) :
    ∀ (tr : List CL) (x : CS) (tr0 : List L), x.s = run c s0 tr0 → ∃ tr', (crun c x tr).s = run c s0 tr'
  | [], x, tr0, h => ⟨tr0, h⟩
  | l :: ls, x, tr0, h => by
    simp only [crun]
    cases hs : cstep c x l with
    | none => exact crun_inner c s0 ls x tr0 h
    | some x' =>
      rcases cstep_inner c x x' l hs with e | ⟨l', hl'⟩
      · exact crun_inner c s0 ls x' tr0 (by rw [e]; exact h)
      · refine crun_inner c s0 ls x' (tr0 ++ [l']) ?_
        rw [run_append, ← h, run_single c x.s x'.s l' hl']

end Logrange.ScanCrash
