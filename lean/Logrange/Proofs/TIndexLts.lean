import Logrange.Model.TIndexLts
/-! Lemmas behind the C14 property theorems: token counting, the core invariant and its preservation by the
primitive transformations every label is composed of. -/
namespace Logrange.TIndexLts

/-! ### counting tokens -/

theorem nTok_cons (s : Nat) (t : Tok) (h : List Tok) :
    nTok s (t :: h) = nTok s h + (if t.src = s then 1 else 0) := by
  unfold nTok
  rw [List.countP_cons]
  by_cases e : t.src = s <;> simp [e]

theorem nTok_erase (s : Nat) (t : Tok) (h : List Tok) (hm : t ∈ h) :
    nTok s (h.erase t) + (if t.src = s then 1 else 0) = nTok s h := by
  have hp : h.Perm (t :: h.erase t) := List.perm_cons_erase hm
  have : nTok s h = nTok s (t :: h.erase t) := by unfold nTok; exact hp.countP_eq _
  rw [this, nTok_cons]

theorem nTok_pos (s : Nat) (t : Tok) (h : List Tok) (hm : t ∈ h) (hs : t.src = s) : 1 ≤ nTok s h := by
  have := nTok_erase s t h hm
  simp [hs] at this; omega

theorem nTok_two (s : Nat) (t1 t2 : Tok) (h : List Tok) (h1 : t1 ∈ h) (h2 : t2 ∈ h) (hne : t1 ≠ t2)
    (e1 : t1.src = s) (e2 : t2.src = s) : 2 ≤ nTok s h := by
  have a := nTok_erase s t1 h h1
  have m2 : t2 ∈ h.erase t1 := (List.mem_erase_of_ne (Ne.symm hne)).mpr h2
  have b := nTok_pos s t2 _ m2 e2
  simp [e1] at a; omega

theorem upd_same {α : Type} (f : Nat → α) (k : Nat) (v : α) : upd f k v k = v := by simp [upd]
theorem upd_other {α : Type} (f : Nat → α) (k x : Nat) (v : α) (h : x ≠ k) : upd f k v x = f x := by simp [upd, h]

/-! ### the core invariant -/

structure CoreInv (c : Core) : Prop where
  /-- readers = Σ over actors of outstanding acquisitions -/
  cnt : ∀ s p, c.parts s = some p → p.readers = (nTok s c.holds : Int)
  /-- exclusive ⇒ exactly one reader, and it is the locker's -/
  excl : ∀ s p, c.parts s = some p → p.exclusive = true →
    p.readers = 1 ∧ ∃ a au, c.locker s = some a ∧ (⟨a, s, au⟩ : Tok) ∈ c.holds
  /-- a locker only on live, exclusively locked sources -/
  lck : ∀ s a, c.locker s = some a → ∃ p, c.parts s = some p ∧ p.exclusive = true
  /-- sources are handed out in increasing order and never re-used -/
  fresh : ∀ s, c.next ≤ s → c.parts s = none
  tokLt : ∀ t, t ∈ c.holds → t.src < c.next

/-- acquire: `readers++` on a live, not exclusively locked descriptor -/
theorem inv_acq (c : Core) (h : CoreInv c) (a : Nat) (s : Nat) (au : Bool) (p : Part)
    (hp : c.parts s = some p) (hx : p.exclusive = false) :
    CoreInv { c with parts := incDesc c.parts s p, holds := ⟨a, s, au⟩ :: c.holds } := by
  have hlt : s < c.next := by
    rcases Nat.lt_or_ge s c.next with h1 | h1
    · exact h1
    · rw [h.fresh s h1] at hp; cases hp
  refine ⟨?_, ?_, ?_, ?_, ?_⟩
  · intro s' p' h'
    by_cases e : s' = s
    · subst e
      simp only [incDesc, upd_same, Option.some.injEq] at h'; subst h'
      have := h.cnt s' p hp
      simp only [nTok_cons]; simp; omega
    · simp only [incDesc, upd_other _ _ _ _ e] at h'
      have := h.cnt s' p' h'
      simp only [nTok_cons]; simp [Ne.symm e]; exact this
  · intro s' p' h' hx'
    by_cases e : s' = s
    · subst e
      simp only [incDesc, upd_same, Option.some.injEq] at h'; subst h'
      simp [hx] at hx'
    · simp only [incDesc, upd_other _ _ _ _ e] at h'
      obtain ⟨r1, b, bu, hb, hm⟩ := h.excl s' p' h' hx'
      exact ⟨r1, b, bu, hb, List.mem_cons_of_mem _ hm⟩
  · intro s' b hb
    obtain ⟨p', h', hx'⟩ := h.lck s' b hb
    by_cases e : s' = s
    · subst e; rw [hp] at h'; cases h'; simp [hx] at hx'
    · exact ⟨p', by simp only [incDesc, upd_other _ _ _ _ e]; exact h', hx'⟩
  · intro s' hs'
    have hs'' : c.next ≤ s' := hs'
    have e : s' ≠ s := by omega
    simp only [incDesc, upd_other _ _ _ _ e]; exact h.fresh s' hs'
  · intro t ht
    simp only [List.mem_cons] at ht
    rcases ht with ht | ht
    · subst ht; exact hlt
    · exact h.tokLt t ht

/-- give back: the descriptor's `readers--` (if it is still in the maps) together with the token -/
theorem inv_rel (c : Core) (h : CoreInv c) (a : Nat) (s : Nat) (au : Bool)
    (hm : (⟨a, s, au⟩ : Tok) ∈ c.holds) (hmay : mayRelease c a s = true) :
    CoreInv { c with parts := decDesc c.parts s, holds := c.holds.erase ⟨a, s, au⟩ } := by
  have key := fun s' => nTok_erase s' ⟨a, s, au⟩ c.holds hm
  -- the source is not exclusively locked (else the only token would be the locker's, and `a` is not the locker)
  have notx : ∀ p, c.parts s = some p → p.exclusive = false := by
    intro p hp
    cases hx : p.exclusive with
    | false => rfl
    | true =>
      obtain ⟨r1, b, bu, hb, hbm⟩ := h.excl s p hp hx
      have hab : a ≠ b := by
        intro e; subst e
        simp [mayRelease, hp, hb] at hmay
      have two := nTok_two s ⟨a, s, au⟩ ⟨b, s, bu⟩ c.holds hm hbm (by simp [hab]) rfl rfl
      have := h.cnt s p hp
      omega
  refine ⟨?_, ?_, ?_, ?_, ?_⟩
  · intro s' p' h'
    by_cases e : s' = s
    · subst e
      cases hp : c.parts s' with
      | none => simp [decDesc, hp] at h'
      | some p =>
        simp only [decDesc, hp, upd_same, Option.some.injEq] at h'; subst h'
        have := h.cnt s' p hp
        have k := key s'
        simp at k ⊢; omega
    · have h'' : c.parts s' = some p' := by
        unfold decDesc at h'
        cases hp : c.parts s with
        | none => simpa [hp] using h'
        | some p => simp only [hp, upd_other _ _ _ _ e] at h'; exact h'
      have := h.cnt s' p' h''
      have k := key s'
      simp [Ne.symm e] at k; simp only []; rw [k]; exact this
  · intro s' p' h' hx'
    by_cases e : s' = s
    · subst e
      cases hp : c.parts s' with
      | none => simp [decDesc, hp] at h'
      | some p =>
        simp only [decDesc, hp, upd_same, Option.some.injEq] at h'; subst h'
        simp [notx p hp] at hx'
    · have h'' : c.parts s' = some p' := by
        unfold decDesc at h'
        cases hp : c.parts s with
        | none => simpa [hp] using h'
        | some p => simp only [hp, upd_other _ _ _ _ e] at h'; exact h'
      obtain ⟨r1, b, bu, hb, hbm⟩ := h.excl s' p' h'' hx'
      refine ⟨r1, b, bu, hb, ?_⟩
      exact (List.mem_erase_of_ne (by simp; intro _ e2; exact absurd e2 e)).mpr hbm
  · intro s' b hb
    obtain ⟨p', h', hx'⟩ := h.lck s' b hb
    by_cases e : s' = s
    · subst e; rw [notx p' h'] at hx'; cases hx'
    · refine ⟨p', ?_, hx'⟩
      unfold decDesc
      cases hp : c.parts s with
      | none => simpa using h'
      | some p => simp only [upd_other _ _ _ _ e]; exact h'
  · intro s' hs'
    have := h.fresh s' hs'
    unfold decDesc
    cases hp : c.parts s with
    | none => simpa using this
    | some p =>
      have e : s' ≠ s := by
        intro e; subst e; rw [this] at hp; cases hp
      simp only [upd_other _ _ _ _ e]; exact this
  · intro t ht
    exact h.tokLt t (List.mem_of_mem_erase ht)

/-- `VF_DO_NOT_RELEASE`: the visit's own acquisition becomes the client's -/
theorem inv_conv (c : Core) (h : CoreInv c) (a : Nat) (s : Nat) (hm : (⟨a, s, true⟩ : Tok) ∈ c.holds) :
    CoreInv { c with holds := ⟨a, s, false⟩ :: c.holds.erase ⟨a, s, true⟩ } := by
  have key := fun s' => nTok_erase s' ⟨a, s, true⟩ c.holds hm
  refine ⟨?_, ?_, h.lck, h.fresh, ?_⟩
  · intro s' p' h'
    have := h.cnt s' p' h'
    have k := key s'
    simp only [nTok_cons]
    by_cases e : s = s' <;> simp [e] at k ⊢ <;> omega
  · intro s' p' h' hx'
    obtain ⟨r1, b, bu, hb, hbm⟩ := h.excl s' p' h' hx'
    by_cases e : (⟨b, s', bu⟩ : Tok) = ⟨a, s, true⟩
    · simp only [Tok.mk.injEq] at e
      obtain ⟨e1, e2, _⟩ := e; subst e1; subst e2
      exact ⟨r1, b, false, hb, List.mem_cons_self⟩
    · exact ⟨r1, b, bu, hb, List.mem_cons_of_mem _ ((List.mem_erase_of_ne e).mpr hbm)⟩
  · intro t ht
    simp only [List.mem_cons] at ht
    rcases ht with ht | ht
    · subst ht; exact h.tokLt ⟨a, s, true⟩ hm
    · exact h.tokLt t (List.mem_of_mem_erase ht)

theorem inv_lock (c : Core) (h : CoreInv c) (a : Nat) (s : Nat) (au : Bool) (p : Part)
    (hp : c.parts s = some p) (hr : p.readers = 1) (hm : (⟨a, s, au⟩ : Tok) ∈ c.holds) :
    CoreInv { c with parts := upd c.parts s (some { p with exclusive := true }), locker := upd c.locker s (some a) } := by
  refine ⟨?_, ?_, ?_, ?_, h.tokLt⟩
  · intro s' p' h'
    by_cases e : s' = s
    · subst e; simp only [upd_same, Option.some.injEq] at h'; subst h'; exact h.cnt s' p hp
    · simp only [upd_other _ _ _ _ e] at h'; exact h.cnt s' p' h'
  · intro s' p' h' hx'
    by_cases e : s' = s
    · subst e; simp only [upd_same, Option.some.injEq] at h'; subst h'
      exact ⟨hr, a, au, by simp [upd_same], hm⟩
    · simp only [upd_other _ _ _ _ e] at h' ⊢; exact h.excl s' p' h' hx'
  · intro s' b hb
    by_cases e : s' = s
    · subst e; exact ⟨{ p with exclusive := true }, by simp [upd_same], rfl⟩
    · simp only [upd_other _ _ _ _ e] at hb ⊢; exact h.lck s' b hb
  · intro s' hs'
    have := h.fresh s' hs'
    have e : s' ≠ s := by intro e; subst e; rw [this] at hp; cases hp
    simp only [upd_other _ _ _ _ e]; exact this

theorem inv_unlock (c : Core) (h : CoreInv c) (s : Nat) (p : Part) (hp : c.parts s = some p) :
    CoreInv { c with parts := upd c.parts s (some { p with exclusive := false }), locker := upd c.locker s none } := by
  refine ⟨?_, ?_, ?_, ?_, h.tokLt⟩
  · intro s' p' h'
    by_cases e : s' = s
    · subst e; simp only [upd_same, Option.some.injEq] at h'; subst h'; exact h.cnt s' p hp
    · simp only [upd_other _ _ _ _ e] at h'; exact h.cnt s' p' h'
  · intro s' p' h' hx'
    by_cases e : s' = s
    · subst e; simp only [upd_same, Option.some.injEq] at h'; subst h'; simp at hx'
    · simp only [upd_other _ _ _ _ e] at h' ⊢; exact h.excl s' p' h' hx'
  · intro s' b hb
    by_cases e : s' = s
    · subst e; simp [upd_same] at hb
    · simp only [upd_other _ _ _ _ e] at hb ⊢; exact h.lck s' b hb
  · intro s' hs'
    have := h.fresh s' hs'
    have e : s' ≠ s := by intro e; subst e; rw [this] at hp; cases hp
    simp only [upd_other _ _ _ _ e]; exact this

theorem inv_delete (c : Core) (h : CoreInv c) (s : Nat) :
    CoreInv { c with parts := upd c.parts s none, locker := upd c.locker s none } := by
  refine ⟨?_, ?_, ?_, ?_, h.tokLt⟩
  · intro s' p' h'
    by_cases e : s' = s
    · subst e; simp [upd_same] at h'
    · simp only [upd_other _ _ _ _ e] at h'; exact h.cnt s' p' h'
  · intro s' p' h' hx'
    by_cases e : s' = s
    · subst e; simp [upd_same] at h'
    · simp only [upd_other _ _ _ _ e] at h' ⊢; exact h.excl s' p' h' hx'
  · intro s' b hb
    by_cases e : s' = s
    · subst e; simp [upd_same] at hb
    · simp only [upd_other _ _ _ _ e] at hb ⊢; exact h.lck s' b hb
  · intro s' hs'
    by_cases e : s' = s
    · subst e; simp [upd_same]
    · simp only [upd_other _ _ _ _ e]; exact h.fresh s' hs'

theorem inv_create (c : Core) (h : CoreInv c) (a : Nat) (tags : Nat) :
    CoreInv { c with parts := upd c.parts c.next (some ⟨tags, 1, false⟩), holds := ⟨a, c.next, false⟩ :: c.holds,
                     next := c.next + 1 } := by
  have zero : nTok c.next c.holds = 0 := by
    unfold nTok
    rw [List.countP_eq_zero]
    intro t ht
    have := h.tokLt t ht
    have : t.src ≠ c.next := by omega
    simpa using this
  have nolock : c.locker c.next = none := by
    cases hl : c.locker c.next with
    | none => rfl
    | some b =>
      obtain ⟨p, hp, _⟩ := h.lck _ _ hl
      rw [h.fresh _ (Nat.le_refl _)] at hp; cases hp
  refine ⟨?_, ?_, ?_, ?_, ?_⟩
  · intro s' p' h'
    by_cases e : s' = c.next
    · subst e; simp only [upd_same, Option.some.injEq] at h'; subst h'
      simp only [nTok_cons]; simp [zero]
    · simp only [upd_other _ _ _ _ e] at h'
      have := h.cnt s' p' h'
      simp only [nTok_cons]; simp [Ne.symm e]; exact this
  · intro s' p' h' hx'
    by_cases e : s' = c.next
    · subst e; simp only [upd_same, Option.some.injEq] at h'; subst h'; simp at hx'
    · simp only [upd_other _ _ _ _ e] at h'
      obtain ⟨r1, b, bu, hb, hbm⟩ := h.excl s' p' h' hx'
      exact ⟨r1, b, bu, hb, List.mem_cons_of_mem _ hbm⟩
  · intro s' b hb
    by_cases e : s' = c.next
    · subst e; simp only [] at hb; rw [nolock] at hb; cases hb
    · simp only [upd_other _ _ _ _ e]; exact h.lck s' b hb
  · intro s' hs'
    have hs'' : c.next + 1 ≤ s' := hs'
    have e : s' ≠ c.next := by omega
    simp only [upd_other _ _ _ _ e]; exact h.fresh s' (by omega)
  · intro t ht
    simp only [List.mem_cons] at ht
    rcases ht with ht | ht
    · subst ht; show c.next < c.next + 1; omega
    · have := h.tokLt t ht; show t.src < c.next + 1; omega

/-! ### the raw critical sections in states that satisfy the invariant -/

/-- a holder that is not the exclusive locker finds the source not exclusively locked -/
theorem not_excl_of_mayRelease (c : Core) (h : CoreInv c) (a s : Nat) (au : Bool)
    (hm : (⟨a, s, au⟩ : Tok) ∈ c.holds) (hmay : mayRelease c a s = true) (p : Part) (hp : c.parts s = some p) :
    p.exclusive = false := by
  cases hx : p.exclusive with
  | false => rfl
  | true =>
    obtain ⟨r1, b, bu, hb, hbm⟩ := h.excl s p hp hx
    have hab : a ≠ b := by
      intro e; subst e
      simp [mayRelease, hp, hb] at hmay
    have two := nTok_two s ⟨a, s, au⟩ ⟨b, s, bu⟩ c.holds hm hbm (by simp [hab]) rfl rfl
    have := h.cnt s p hp
    omega

/-- **Release never panics** for a holder that follows the protocol, and it does what `decDesc` does -/
theorem relRaw_of_inv (c : Core) (h : CoreInv c) (a s : Nat) (au : Bool)
    (hm : (⟨a, s, au⟩ : Tok) ∈ c.holds) (hmay : mayRelease c a s = true) :
    relRaw c.parts s = (decDesc c.parts s, .ok) ∨ (c.parts s = none ∧ relRaw c.parts s = (c.parts, .absent)) := by
  cases hp : c.parts s with
  | none => right; simp [relRaw, hp]
  | some p =>
    left
    have hx := not_excl_of_mayRelease c h a s au hm hmay p hp
    have hc := h.cnt s p hp
    have hpos := nTok_pos s ⟨a, s, au⟩ c.holds hm rfl
    have : ¬ p.readers ≤ 0 := by omega
    simp [relRaw, decDesc, hp, hx, this]

theorem decDesc_none (parts : Nat → Option Part) (s : Nat) (hp : parts s = none) : decDesc parts s = parts := by
  simp [decDesc, hp]

theorem decDesc_isNone (parts : Nat → Option Part) (s s' : Nat) : (decDesc parts s s').isNone = (parts s').isNone := by
  unfold decDesc
  cases hp : parts s with
  | none => rfl
  | some p =>
    by_cases e : s' = s
    · subst e; simp [upd_same, hp]
    · simp [upd_other _ _ _ _ e]

/-! ### the visit-owes-tokens invariant -/

def VisTok (vis : Nat → Option Visit) (holds : List Tok) : Prop :=
  ∀ a v, vis a = some v → ∀ s, v.owed.count s ≤ holds.count ⟨a, s, true⟩

theorem visTok_mono (vis : Nat → Option Visit) (holds holds' : List Tok) (hv : VisTok vis holds)
    (hm : ∀ a s, holds.count (⟨a, s, true⟩ : Tok) ≤ holds'.count ⟨a, s, true⟩) : VisTok vis holds' := by
  intro a v hva s
  exact Nat.le_trans (hv a v hva s) (hm a s)

theorem count_cons_false (holds : List Tok) (a b s s' : Nat) :
    (((⟨b, s', false⟩ : Tok)) :: holds).count ⟨a, s, true⟩ = holds.count ⟨a, s, true⟩ := by
  rw [List.count_cons_of_ne]; simp

theorem count_erase_false (holds : List Tok) (a b s s' : Nat) :
    (holds.erase (⟨b, s', false⟩ : Tok)).count ⟨a, s, true⟩ = holds.count ⟨a, s, true⟩ := by
  rw [List.count_erase_of_ne]; simp

/-! ### the first locked section of a visit -/

theorem snap_inv (a : Nat) (sel : List Nat) (acq : Bool) (next : Nat) (locker : Nat → Option Nat) :
    ∀ (l : List Nat) (parts : Nat → Option Part) (holds : List Tok),
      CoreInv ⟨parts, next, holds, locker⟩ →
      CoreInv ⟨(snap a sel acq l parts holds).1, next, (snap a sel acq l parts holds).2.1, locker⟩ ∧
      (∀ t, holds.count t ≤ (snap a sel acq l parts holds).2.1.count t) ∧
      (acq = true → ∀ s, (snap a sel acq l parts holds).2.2.count s + holds.count ⟨a, s, true⟩
          ≤ (snap a sel acq l parts holds).2.1.count ⟨a, s, true⟩) := by
  intro l
  induction l with
  | nil => intro parts holds h; simp [snap, h]
  | cons s ss ih =>
    intro parts holds h
    unfold snap
    cases hp : parts s with
    | none => simpa [hp] using ih parts holds h
    | some p =>
      simp only []
      by_cases hc : (sel.contains p.tags && !p.exclusive) = true
      · simp only [hc, if_true]
        cases acq with
        | false =>
          simp only [Bool.false_eq_true, if_false]
          obtain ⟨i1, i2, _⟩ := ih parts holds h
          exact ⟨i1, i2, by intro hh; cases hh⟩
        | true =>
          simp only [if_true]
          have hx : p.exclusive = false := by
            cases hxx : p.exclusive with
            | false => rfl
            | true => simp [hxx] at hc
          have h1 := inv_acq ⟨parts, next, holds, locker⟩ h a s true p hp hx
          obtain ⟨i1, i2, i3⟩ := ih (incDesc parts s p) (⟨a, s, true⟩ :: holds) h1
          refine ⟨i1, ?_, ?_⟩
          · intro t; exact Nat.le_trans List.count_le_count_cons (i2 t)
          · intro _ s'
            have := i3 rfl s'
            rw [List.count_cons] at this ⊢
            by_cases e : s = s'
            · subst e; simp at this ⊢; omega
            · have e2 : ¬ ((⟨a, s, true⟩ : Tok) == ⟨a, s', true⟩) = true := by simp [e]
              simp [e] at this ⊢; omega
      · simp only [hc, Bool.false_eq_true, if_false]
        exact ih parts holds h

/-! ### the final locked section of a visit -/

theorem relAll_inv (a : Nat) (next : Nat) (locker : Nat → Option Nat) :
    ∀ (l : List Nat) (parts : Nat → Option Part) (holds : List Tok),
      CoreInv ⟨parts, next, holds, locker⟩ →
      (∀ s, s ∈ l → mayRelease ⟨parts, next, holds, locker⟩ a s = true) →
      (∀ s, l.count s ≤ holds.count ⟨a, s, true⟩) →
      CoreInv ⟨(relAll a l parts holds).1, next, (relAll a l parts holds).2, locker⟩ ∧
      (∀ t : Tok, (t.actor ≠ a ∨ t.auto = false) → (relAll a l parts holds).2.count t = holds.count t) ∧
      (∀ s, (relAll a l parts holds).2.count ⟨a, s, true⟩ + l.count s = holds.count ⟨a, s, true⟩) := by
  intro l
  induction l with
  | nil => intro parts holds h _ _; simp [relAll, h]
  | cons s ss ih =>
    intro parts holds h hmay hcnt
    unfold relAll
    have hm : (⟨a, s, true⟩ : Tok) ∈ holds := by
      have := hcnt s
      rw [List.count_cons_self] at this
      exact List.one_le_count_iff.mp (by omega)
    have h1 := inv_rel ⟨parts, next, holds, locker⟩ h a s true hm (hmay s List.mem_cons_self)
    have hmay' : ∀ s', s' ∈ ss → mayRelease ⟨decDesc parts s, next, holds.erase ⟨a, s, true⟩, locker⟩ a s' = true := by
      intro s' hs'
      have := hmay s' (List.mem_cons_of_mem _ hs')
      simp only [mayRelease] at this ⊢
      rw [decDesc_isNone]; exact this
    have hcnt' : ∀ s', ss.count s' ≤ (holds.erase ⟨a, s, true⟩).count ⟨a, s', true⟩ := by
      intro s'
      have := hcnt s'
      by_cases e : s = s'
      · subst e
        rw [List.count_cons_self] at this
        rw [List.count_erase_self]; omega
      · rw [List.count_cons_of_ne e] at this
        rw [List.count_erase_of_ne (by simp [Ne.symm e])]; exact this
    obtain ⟨i1, i2, i3⟩ := ih (decDesc parts s) (holds.erase ⟨a, s, true⟩) h1 hmay' hcnt'
    refine ⟨i1, ?_, ?_⟩
    · intro t ht
      rw [i2 t ht]
      apply List.count_erase_of_ne
      intro e; subst e
      rcases ht with ht | ht
      · exact ht rfl
      · cases ht
    · intro s'
      have := i3 s'
      by_cases e : s = s'
      · subst e
        rw [List.count_cons_self]
        rw [List.count_erase_self] at this
        have := List.one_le_count_iff.mpr hm
        omega
      · rw [List.count_cons_of_ne e]
        rw [List.count_erase_of_ne (by simp [Ne.symm e])] at this
        exact this

/-! ### the invariant of the transition system and its preservation by every label -/

structure StInv (st : St) : Prop where
  core : CoreInv st.c
  visTok : VisTok st.vis st.c.holds
  noPanic : st.panicked = false

theorem inv_init : StInv init := by
  refine ⟨⟨?_, ?_, ?_, ?_, ?_⟩, ?_, rfl⟩
  · intro s p h; simp [init] at h
  · intro s p h; simp [init] at h
  · intro s a h; simp [init] at h
  · intro s _; rfl
  · intro t h; simp [init] at h
  · intro a v h; simp [init] at h

theorem holdsAny_mem (h : List Tok) (a s : Nat) (hh : holdsAny h a s = true) : ∃ au, (⟨a, s, au⟩ : Tok) ∈ h := by
  simp only [holdsAny, Bool.or_eq_true, List.contains_iff_mem] at hh
  rcases hh with hh | hh
  · exact ⟨false, hh⟩
  · exact ⟨true, hh⟩

theorem visTok_upd_other (vis : Nat → Option Visit) (holds : List Tok) (a : Nat) (nv : Option Visit)
    (hv : VisTok vis holds)
    (ha : ∀ v, nv = some v → ∀ s, v.owed.count s ≤ holds.count ⟨a, s, true⟩) : VisTok (upd vis a nv) holds := by
  intro b v hb s
  by_cases e : b = a
  · subst e; rw [upd_same] at hb; exact ha v hb s
  · rw [upd_other _ _ _ _ e] at hb; exact hv b v hb s

theorem step_inv (st st' : St) (l : Lbl) (hi : StInv st) (hs : step st l = some st') : StInv st' := by
  obtain ⟨hc, hv, hnp⟩ := hi
  cases l with
  | getOrCreate a tags create =>
    simp only [step] at hs
    split at hs
    · simp at hs; subst hs; exact ⟨hc, hv, hnp⟩
    split at hs
    · rename_i s hf
      split at hs
      · rename_i p hp
        split at hs
        · simp at hs; subst hs; exact ⟨hc, hv, hnp⟩
        · rename_i hx
          simp at hs; subst hs
          refine ⟨inv_acq st.c hc a s false p hp (by simpa using hx), ?_, hnp⟩
          exact visTok_mono _ _ _ hv (fun b s' => by simp only []; rw [count_cons_false]; exact Nat.le_refl _)
      · simp at hs; subst hs; exact ⟨hc, hv, hnp⟩
    · split at hs
      · simp at hs; subst hs
        refine ⟨inv_create st.c hc a tags, ?_, hnp⟩
        exact visTok_mono _ _ _ hv (fun b s' => by simp only []; rw [count_cons_false]; exact Nat.le_refl _)
      · simp at hs; subst hs; exact ⟨hc, hv, hnp⟩
  | getTags a s lock =>
    simp only [step] at hs
    split at hs
    · simp at hs; subst hs; exact ⟨hc, hv, hnp⟩
    split at hs
    · simp at hs; subst hs; exact ⟨hc, hv, hnp⟩
    · rename_i p hp
      split at hs
      · simp at hs; subst hs; exact ⟨hc, hv, hnp⟩
      · rename_i hx
        split at hs
        · simp at hs; subst hs
          refine ⟨inv_acq st.c hc a s false p hp (by simpa using hx), ?_, hnp⟩
          exact visTok_mono _ _ _ hv (fun b s' => by simp only []; rw [count_cons_false]; exact Nat.le_refl _)
        · simp at hs; subst hs; exact ⟨hc, hv, hnp⟩
  | release a s =>
    simp only [step] at hs
    split at hs
    · rename_i hcond
      simp only [Bool.and_eq_true, List.contains_iff_mem] at hcond
      obtain ⟨hm, hmay⟩ := hcond
      have hv' : VisTok st.vis (st.c.holds.erase ⟨a, s, false⟩) :=
        visTok_mono _ _ _ hv (fun b s' => by rw [count_erase_false]; exact Nat.le_refl _)
      rcases relRaw_of_inv st.c hc a s false hm hmay with hr | ⟨hn, hr⟩
      · rw [hr] at hs
        simp at hs; subst hs
        exact ⟨inv_rel st.c hc a s false hm hmay, hv', hnp⟩
      · rw [hr] at hs
        simp at hs; subst hs
        have := inv_rel st.c hc a s false hm hmay
        rw [decDesc_none _ _ hn] at this
        exact ⟨this, hv', hnp⟩
    · simp at hs
  | lockX a s =>
    simp only [step] at hs
    split at hs
    · rename_i hh
      obtain ⟨au, hm⟩ := holdsAny_mem _ _ _ hh
      split at hs
      · rename_i parts' hl
        simp at hs; subst hs
        unfold lockRaw at hl
        cases hp : st.c.parts s with
        | none => simp [hp] at hl
        | some p =>
          simp only [hp] at hl
          split at hl
          · rename_i hcnd
            simp only [Bool.and_eq_true, Bool.not_eq_true', beq_iff_eq] at hcnd
            simp only [Prod.mk.injEq, and_true] at hl; subst hl
            exact ⟨inv_lock st.c hc a s au p hp hcnd.2 hm, hv, hnp⟩
          · simp at hl
      · simp at hs; subst hs; exact ⟨hc, hv, hnp⟩
    · simp at hs
  | unlockX a s =>
    simp only [step] at hs
    split at hs
    · simp at hs; subst hs; exact ⟨hc, hv, hnp⟩
    · rename_i p0 hp0
      split at hs
      · rename_i hl
        have hl' : st.c.locker s = some a := by simpa using hl
        obtain ⟨p, hp, hx⟩ := hc.lck s a hl'
        obtain ⟨hr1, _⟩ := hc.excl s p hp hx
        have hu : unlockRaw st.c.parts s = (upd st.c.parts s (some { p with exclusive := false }), .ok) := by
          simp [unlockRaw, hp, hx, hr1]
        rw [hu] at hs
        simp at hs; subst hs
        exact ⟨inv_unlock st.c hc s p hp, hv, hnp⟩
      · simp at hs
  | delete a s =>
    simp only [step] at hs
    split at hs
    · simp at hs; subst hs; exact ⟨hc, hv, hnp⟩
    · rename_i p hp
      split at hs
      · simp at hs; subst hs; exact ⟨hc, hv, hnp⟩
      · rename_i hx
        split at hs
        · simp at hs; subst hs
          have hx' : p.exclusive = true := by simpa using hx
          have : (deleteRaw st.c.parts s).1 = upd st.c.parts s none := by simp [deleteRaw, hp, hx']
          rw [this]
          exact ⟨inv_delete st.c hc s, hv, hnp⟩
        · simp at hs
  | visitBegin a sel skipping noRelease =>
    simp only [step] at hs
    split at hs
    · simp at hs
    · rename_i hva
      split at hs
      · simp at hs; subst hs; exact ⟨hc, hv, hnp⟩
      simp at hs; subst hs
      obtain ⟨i1, i2, i3⟩ := snap_inv a sel skipping st.c.next st.c.locker (List.range st.c.next) st.c.parts st.c.holds hc
      refine ⟨i1, ?_, hnp⟩
      apply visTok_upd_other
      · exact visTok_mono _ _ _ hv (fun b s' => i2 _)
      · intro v hv' s'
        simp only [Option.some.injEq] at hv'; subst hv'
        cases skipping with
        | false => simp
        | true => have := i3 rfl s'; simp only [if_true]; omega
  | visitTry a s =>
    simp only [step] at hs
    split at hs
    · simp at hs
    · rename_i v hva
      split at hs
      · simp at hs
      · split at hs
        · simp at hs; subst hs
          refine ⟨hc, ?_, hnp⟩
          apply visTok_upd_other _ _ _ _ hv
          intro v' hv'; cases hv'
        split at hs
        · simp at hs; subst hs
          refine ⟨hc, ?_, hnp⟩
          apply visTok_upd_other _ _ _ _ hv
          intro v' hv' s'
          simp only [Option.some.injEq] at hv'; subst hv'
          exact hv a v hva s'
        · rename_i p hp
          split at hs
          · simp at hs; subst hs; exact ⟨hc, hv, hnp⟩
          · rename_i hx
            simp at hs; subst hs
            refine ⟨inv_acq st.c hc a s true p hp (by simpa using hx), ?_, hnp⟩
            apply visTok_upd_other
            · exact visTok_mono _ _ _ hv (fun b s' => List.count_le_count_cons)
            · intro v' hv' s'
              simp only [Option.some.injEq] at hv'; subst hv'
              have := hv a v hva s'
              simp only [List.count_cons]
              by_cases e : s = s'
              · subst e; simp; omega
              · simp [e]; omega
  | visitCb a s cont =>
    simp only [step] at hs
    split at hs
    · simp at hs
    · rename_i v hva
      split at hs
      · rename_i hcond
        have hso : s ∈ v.owed := by
          simp only [cbOk, Bool.and_eq_true, List.contains_iff_mem] at hcond
          exact hcond.2
        have hm : (⟨a, s, true⟩ : Tok) ∈ st.c.holds := by
          have := hv a v hva s
          have h1 := List.one_le_count_iff.mpr hso
          exact List.one_le_count_iff.mp (by omega)
        split at hs
        · simp at hs; subst hs
          refine ⟨inv_conv st.c hc a s hm, ?_, hnp⟩
          intro b v' hb s'
          by_cases e : b = a
          · subst e
            simp only [upd_same, Option.some.injEq] at hb; subst hb
            have := hv b v hva s'
            show List.count s' (v.owed.erase s) ≤ List.count ⟨b, s', true⟩ (⟨b, s, false⟩ :: st.c.holds.erase ⟨b, s, true⟩)
            rw [count_cons_false]
            by_cases e2 : s' = s
            · subst e2
              rw [List.count_erase_self, List.count_erase_self]; omega
            · rw [List.count_erase_of_ne e2, List.count_erase_of_ne (by simp [e2])]; exact this
          · simp only [upd_other _ _ _ _ e] at hb
            have := hv b v' hb s'
            show List.count s' v'.owed ≤ List.count ⟨b, s', true⟩ (⟨a, s, false⟩ :: st.c.holds.erase ⟨a, s, true⟩)
            rw [count_cons_false, List.count_erase_of_ne (by simp [e])]; exact this
        · simp at hs; subst hs
          refine ⟨hc, ?_, hnp⟩
          apply visTok_upd_other _ _ _ _ hv
          intro v' hv' s'
          simp only [Option.some.injEq] at hv'; subst hv'
          exact hv a v hva s'
      · simp at hs
  | visitEnd a =>
    simp only [step] at hs
    split at hs
    · simp at hs
    · rename_i v hva
      split at hs
      · rename_i hcond
        simp only [Bool.and_eq_true, List.all_eq_true] at hcond
        simp at hs; subst hs
        obtain ⟨i1, i2, _⟩ := relAll_inv a st.c.next st.c.locker v.owed st.c.parts st.c.holds hc
          (fun s hs' => hcond.2 s hs') (hv a v hva)
        refine ⟨i1, ?_, hnp⟩
        intro b v' hb s'
        by_cases e : b = a
        · subst e
          have hb' : upd st.vis b none b = some v' := hb
          rw [upd_same] at hb'; cases hb'
        · have hb' : upd st.vis a none b = some v' := hb
          rw [upd_other _ _ _ _ e] at hb'
          have := hv b v' hb' s'
          show List.count s' v'.owed ≤ List.count ⟨b, s', true⟩ (relAll a v.owed st.c.parts st.c.holds).2
          rw [i2 ⟨b, s', true⟩ (Or.inl e)]; exact this
      · simp at hs
  | shutdown =>
    simp only [step] at hs
    simp at hs; subst hs; exact ⟨hc, hv, hnp⟩

theorem run_inv (ls : List Lbl) : ∀ st, StInv st → StInv (run st ls) := by
  induction ls with
  | nil => intro st h; exact h
  | cons l ls ih =>
    intro st h
    simp only [run]
    cases hs : step st l with
    | none => exact ih st h
    | some st' => exact ih st' (step_inv st st' l h hs)

end Logrange.TIndexLts
