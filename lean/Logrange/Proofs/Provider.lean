import Logrange.Model.Provider
/-!
# Lemmas about the cursor provider model

* the labelled transition system of the provider (`Label`, `stepL`, `run`): every step of the model, with
  **unconstrained arguments** — split `lookup`/`create`/`insert` steps of any number of requests interleaved in
  any order, releases of anything, clock advances, both sweeps;
* the accounting invariant `CurOK` (`closed ≤ acquired ≤ 1` for every cursor object) and its preservation by
  every step and by the two sweep loops.
-/
namespace Logrange.Provider
open Logrange.Ring

inductive Label where
  | lookup (id query pos : Nat) (posOk : Bool)
  | create (id query pos : Nat) (kind : CreateKind) (newCur newId : Nat)
  | insert (c : Nat)
  | get (id query pos : Nat) (posOk : Bool) (kind : CreateKind) (cache : Bool) (newCur newId : Nat)
  | release (c : Nat) (commitPos : Nat)
  | age (d : Int)
  | sweepT
  | sweepS

/-- one step; `chk`/`byId` are the two code-shape facts (`insertChecksExisting`, `releaseLooksUpById`) -/
def stepL (chk byId : Bool) (s : St) : Label → St
  | .lookup id q p ok => (lookup s id q p ok).1
  | .create id q p k c n => (create s id q p k c n).1
  | .insert c => (insert chk s c).1
  | .get id q p ok k cache c n => (getOrCreate chk s id q p ok k cache c n).1
  | .release c cp => (release byId s c cp).1
  | .age d => age s d
  | .sweepT => sweepByTime s
  | .sweepS => sweepBySize s

def run (chk byId : Bool) (s : St) (tr : List Label) : St := tr.foldl (stepL chk byId) s

/-- accounting of one cursor object: what was given back never exceeds what was taken, one partition set per cursor -/
def CurOKf (f : Nat → CurI) : Prop := ∀ c, (f c).closed ≤ (f c).acquired ∧ (f c).acquired ≤ 1
def CurOK (s : St) : Prop := CurOKf s.cursors

theorem curOK_init (m : Nat) (i b : Int) : CurOK (init m i b) := by
  intro c; simp [init]

theorem curOK_setCur {s : St} {c : Nat} {i : CurI} (h : CurOK s) (h1 : i.closed ≤ i.acquired) (h2 : i.acquired ≤ 1) :
    CurOK (setCur s c i) := by
  intro x
  by_cases hx : x = c
  · simp [setCur, hx, h1, h2]
  · simpa [setCur, hx] using h x

theorem curOK_closeCur {s : St} (c : Nat) (h : CurOK s) : CurOK (closeCur s c) := by
  unfold closeCur
  exact curOK_setCur h (by simp) (by simpa using (h c).2)

theorem curOK_congr {s s' : St} (e : s'.cursors = s.cursors) (h : CurOK s) : CurOK s' := by
  unfold CurOK; rw [e]; exact h

theorem curOK_lookup {s : St} (id q p : Nat) (ok : Bool) (h : CurOK s) : CurOK (lookup s id q p ok).1 := by
  unfold lookup
  simp only []
  split
  · split
    · split
      · exact h
      · split
        · exact curOK_congr rfl h
        · rename_i c _
          split
          · exact h
          · refine curOK_congr (s := setCur s c _) rfl ?_
            exact curOK_setCur h (by simpa using (h c).1) (by simpa using (h c).2)
    · exact h
  · exact h

theorem curOK_create {s : St} (id q p : Nat) (k : CreateKind) (c n : Nat) (h : CurOK s) :
    CurOK (create s id q p k c n).1 := by
  unfold create
  cases k
  · exact curOK_setCur h (by simp) (by simp)
  · exact curOK_setCur h (by simp) (by simp)
  · exact h

theorem curOK_insert {s : St} (chk : Bool) (c : Nat) (h : CurOK s) : CurOK (insert chk s c).1 := by
  unfold insert
  simp only []
  split
  · exact curOK_closeCur _ (curOK_setCur h (by simpa using (h c).1) (by simpa using (h c).2))
  · split <;> exact curOK_congr rfl h

theorem curOK_getOrCreate {s : St} (chk : Bool) (id q p : Nat) (ok : Bool) (k : CreateKind) (cache : Bool) (c n : Nat)
    (h : CurOK s) : CurOK (getOrCreate chk s id q p ok k cache c n).1 := by
  have hl := curOK_lookup id q p ok h
  unfold getOrCreate
  split
  · rename_i e; rw [e] at hl; exact hl
  · rename_i e; rw [e] at hl; exact hl
  · rename_i e; rw [e] at hl; exact hl
  · rename_i s1 r id' _ _ _ e
    rw [e] at hl
    have hc := curOK_create id' q p k c n hl
    split
    · rename_i e2; rw [e2] at hc; exact hc
    · rename_i e2; rw [e2] at hc; exact hc
    · rename_i s2 c2 e2
      rw [e2] at hc
      split
      · exact hc
      · have hi := curOK_insert chk c2 hc
        split
        · rename_i e3; rw [e3] at hi; exact hi
        · rename_i e3; rw [e3] at hi; exact hi

theorem curOK_release {s : St} (byId : Bool) (c cp : Nat) (h : CurOK s) : CurOK (release byId s c cp).1 := by
  have h1 : CurOK (setCur s c { s.cursors c with held := false, pos := cp }) :=
    curOK_setCur h (by simpa using (h c).1) (by simpa using (h c).2)
  unfold release
  simp only []
  split
  · exact curOK_closeCur _ h1
  · split
    · exact curOK_closeCur _ h1
    · split
      · exact curOK_congr rfl h1
      · exact curOK_congr rfl h1

theorem curOK_evict {s : St} (e : Nat) (r : Bool) (h : CurOK s) : CurOK (evict s e r) := by
  unfold evict
  simp only []
  split
  · exact curOK_congr rfl h
  · rename_i c _
    repeat' split
    all_goals first | exact curOK_congr rfl h | exact curOK_congr rfl (curOK_closeCur c h)

theorem curOK_sweepBySizeLoop (fuel : Nat) : ∀ {s : St}, CurOK s → CurOK (sweepBySizeLoop fuel s) := by
  induction fuel with
  | zero => intro s h; exact h
  | succ n ih =>
    intro s h
    unfold sweepBySizeLoop
    split
    · split
      · exact curOK_congr rfl h
      · rename_i e _
        have he := curOK_evict e false h
        simp only []
        split
        · exact he
        · exact ih he
    · exact h

theorem curOK_sweepByTimeLoop (cnt : Nat) : ∀ {s : St} (e : Nat), CurOK s → CurOK (sweepByTimeLoop cnt s e) := by
  induction cnt with
  | zero => intro s e h; exact h
  | succ n ih =>
    intro s e h
    unfold sweepByTimeLoop
    simp only []
    split
    · have he := curOK_evict (prev s.ring e) true h
      split
      · exact he
      · exact ih _ he
    · split
      · exact h
      · exact ih _ h

theorem curOK_step (chk byId : Bool) {s : St} (l : Label) (h : CurOK s) : CurOK (stepL chk byId s l) := by
  cases l with
  | lookup id q p ok => exact curOK_lookup id q p ok h
  | create id q p k c n => exact curOK_create id q p k c n h
  | insert c => exact curOK_insert chk c h
  | get id q p ok k cache c n => exact curOK_getOrCreate chk id q p ok k cache c n h
  | release c cp => exact curOK_release byId c cp h
  | age d => exact curOK_congr rfl h
  | sweepT =>
    show CurOK (sweepByTime s)
    unfold sweepByTime
    split
    · exact h
    · exact curOK_sweepByTimeLoop _ _ h
  | sweepS => exact curOK_sweepBySizeLoop _ h

theorem curOK_run (chk byId : Bool) (tr : List Label) : ∀ {s : St}, CurOK s → CurOK (run chk byId s tr) := by
  induction tr with
  | nil => intro s h; exact h
  | cons l tr ih => intro s h; exact ih (curOK_step chk byId l h)

/-! ## the invariant of the repaired provider (`insert` re-checks the map, `Release` compares the cursor object) -/

structure JJ (R F : List Nat) (n : Nat) (H : Nat → Holder) (G : Nat → Option Nat) (C : Nat → CurI) : Prop where
  a : R.Nodup
  b1 : F.Nodup
  b2 : ∀ e ∈ R, e ∉ F
  c : ∀ e, (e ∈ R ∨ e ∈ F) → e < n
  d : ∀ e, e ∉ R → (H e).cur = none
  e : ∀ e ∈ R, ∃ c, (H e).cur = some c ∧ G (C c).id = some e ∧
        (C c).acquired = 1 ∧ (C c).closed = 0 ∧ (C c).held = (H e).busy
  f : ∀ id e, G id = some e → e ∈ R ∧ ∃ c, (H e).cur = some c ∧ (C c).id = id
  h : ∀ c, ((C c).acquired = 0 → (C c).held = false ∧ (C c).closed = 0) ∧
        (C c).acquired ≤ 1 ∧
        ((C c).acquired = 1 → ((C c).closed = 1 ↔ ((C c).held = false ∧ ∀ e ∈ R, (H e).cur ≠ some c))) ∧
        (C c).closed ≤ 1

theorem JJ_evict {R F n H G C} (j : JJ R F n H G C) (e c : Nat) (hc : (H e).cur = some c) (hx : Holder) (hxc : hx.cur = none)
    (F' : List Nat) (hF : F' = F ∨ F' = e :: F) (C' : Nat → CurI)
    (hC : (C' = C ∧ (H e).busy = true) ∨
          ((H e).busy = false ∧ ∃ i : CurI, i.id = (C c).id ∧ i.acquired = (C c).acquired ∧ i.closed = (C c).acquired ∧ i.held = (C c).held ∧
              C' = fun x => if x = c then i else C x)) :
    JJ (R.erase e) F' n (fun x => if x = e then hx else H x) (fun x => if x = (C c).id then none else G x) C' := by
  have he : e ∈ R := by
    apply Classical.byContradiction; intro hn; have := j.d e hn; simp [this] at hc
  obtain ⟨ja, jb1, jb2, jc, jd, je, jf, jh⟩ := j
  constructor
  · exact ja.erase e
  · grind
  · grind [List.Nodup.mem_erase_iff]
  · grind [List.Nodup.mem_erase_iff]
  · grind [List.Nodup.mem_erase_iff]
  · intro e' he'
    have hne : e' ≠ e := by grind [List.Nodup.mem_erase_iff]
    have he'R : e' ∈ R := List.mem_of_mem_erase he'
    obtain ⟨c', h1, h2, h3, h4, h5⟩ := je e' he'R
    obtain ⟨c0, g1, g2, g3, g4, g5⟩ := je e he
    refine ⟨c', ?_⟩
    grind
  · intro id e' hg
    grind [List.Nodup.mem_erase_iff]
  · intro c'
    obtain ⟨c0, g1, g2, g3, g4, g5⟩ := je e he
    have hc0 : c0 = c := by grind
    subst hc0
    have hh := jh c'
    have huniq : ∀ e' ∈ R, (H e').cur = some c0 → e' = e := by
      intro e' he' hcur
      obtain ⟨c1, k1, k2, _⟩ := je e' he'
      grind
    have hmem : ∀ x, x ∈ R.erase e ↔ (x ≠ e ∧ x ∈ R) := fun x => List.Nodup.mem_erase_iff ja
    by_cases hcc : c' = c0
    · subst hcc
      rcases hC with ⟨rfl, hb⟩ | ⟨hb, i, i1, i2, i3, i4, rfl⟩
      · refine ⟨hh.1, hh.2.1, ?_, hh.2.2.2⟩
        intro _; grind
      · simp only [if_true]
        refine ⟨by grind, by grind, ?_, by grind⟩
        intro _
        constructor
        · intro _; refine ⟨by grind, ?_⟩
          intro x hx; grind
        · grind
    · have hCc : C' c' = C c' := by
        rcases hC with ⟨rfl, hb⟩ | ⟨hb, i, i1, i2, i3, i4, rfl⟩ <;> simp [hcc]
      rw [hCc]
      refine ⟨hh.1, hh.2.1, ?_, hh.2.2.2⟩
      intro hacq
      rw [hh.2.2.1 hacq]
      constructor
      · rintro ⟨k1, k2⟩; refine ⟨k1, ?_⟩; intro x hx; have := k2 x ((hmem x).1 hx).2; grind
      · rintro ⟨k1, k2⟩; refine ⟨k1, ?_⟩; intro x hx
        by_cases hxe : x = e
        · subst hxe; grind
        · have := k2 x ((hmem x).2 ⟨hxe, hx⟩); grind

theorem JJ_setCur {R F n H G C} (j : JJ R F n H G C) (c : Nat) (i : CurI)
    (hnc : ∀ e ∈ R, (H e).cur ≠ some c)
    (h1 : i.acquired ≤ 1) (h2 : i.acquired = 0 → i.held = false ∧ i.closed = 0)
    (h3 : i.acquired = 1 → (i.closed = 1 ↔ i.held = false)) (h4 : i.closed ≤ 1) :
    JJ R F n H G (fun x => if x = c then i else C x) := by
  obtain ⟨ja, jb1, jb2, jc, jd, je, jf, jh⟩ := j
  refine ⟨ja, jb1, jb2, jc, jd, ?_, ?_, ?_⟩
  · intro e he
    obtain ⟨c', k1, k2, k3, k4, k5⟩ := je e he
    have : c' ≠ c := by intro h; subst h; exact hnc e he k1
    exact ⟨c', k1, by simp [this, k2], by simp [this, k3], by simp [this, k4], by simp [this, k5]⟩
  · intro id e hg
    obtain ⟨k0, c', k1, k2⟩ := jf id e hg
    have : c' ≠ c := by intro h; subst h; exact hnc e k0 k1
    exact ⟨k0, c', k1, by simp [this, k2]⟩
  · intro c'
    by_cases hcc : c' = c
    · subst hcc; simp only [if_true]
      refine ⟨h2, h1, ?_, h4⟩
      intro ha; rw [h3 ha]; constructor
      · intro k; exact ⟨k, hnc⟩
      · intro k; exact k.1
    · simp only [hcc, if_false]; exact jh c'

theorem JJ_touch {R F n H G C} (j : JJ R F n H G C) (e c : Nat) (he : e ∈ R) (hc : (H e).cur = some c)
    (i : CurI) (hx : Holder) (b : Bool)
    (i1 : i.id = (C c).id) (i2 : i.acquired = (C c).acquired) (i3 : i.closed = (C c).closed) (i4 : i.held = b)
    (x1 : hx.cur = some c) (x2 : hx.busy = b) :
    JJ (e :: R.erase e) F n (fun x => if x = e then hx else H x) G (fun x => if x = c then i else C x) := by
  obtain ⟨ja, jb1, jb2, jc, jd, je, jf, jh⟩ := j
  have hmem : ∀ x, x ∈ e :: R.erase e ↔ x ∈ R := by
    intro x; simp only [List.mem_cons, List.Nodup.mem_erase_iff ja]
    constructor
    · rintro (rfl | ⟨_, h⟩); exact he; exact h
    · intro h; by_cases hxe : x = e; exact Or.inl hxe; exact Or.inr ⟨hxe, h⟩
  obtain ⟨c0, g1, g2, g3, g4, g5⟩ := je e he
  have hc0 : c0 = c := by grind
  subst hc0
  have huniq : ∀ e' ∈ R, (H e').cur = some c0 → e' = e := by
    intro e' he' hcur
    obtain ⟨c1, k1, k2, _⟩ := je e' he'
    grind
  constructor
  · exact List.nodup_cons.2 ⟨by simp [List.Nodup.mem_erase_iff ja], ja.erase e⟩
  · exact jb1
  · intro x hx'; exact jb2 x ((hmem x).1 hx')
  · intro x hx'; apply jc; rcases hx' with h | h; exact Or.inl ((hmem x).1 h); exact Or.inr h
  · intro x hx'; have : x ∉ R := fun h => hx' ((hmem x).2 h)
    have hne : x ≠ e := by intro h; subst h; exact this he
    simp only [hne, if_false]; exact jd x this
  · intro x hx'
    have hxR := (hmem x).1 hx'
    by_cases hxe : x = e
    · subst hxe; simp only [if_true]
      exact ⟨c0, x1, by simp [i1, g2], by simp [i2, g3], by simp [i3, g4], by simp [i4, x2]⟩
    · obtain ⟨c', k1, k2, k3, k4, k5⟩ := je x hxR
      have : c' ≠ c0 := by intro h; subst h; exact hxe (huniq x hxR k1)
      simp only [hxe, if_false]
      exact ⟨c', k1, by simp [this, k2], by simp [this, k3], by simp [this, k4], by simp [this, k5]⟩
  · intro id x hg
    obtain ⟨k0, c', k1, k2⟩ := jf id x hg
    refine ⟨(hmem x).2 k0, ?_⟩
    by_cases hxe : x = e
    · subst hxe; simp only [if_true]; refine ⟨c0, x1, ?_⟩; simp only [if_true]; grind
    · have : c' ≠ c0 := by intro h; subst h; exact hxe (huniq x k0 k1)
      simp only [hxe, if_false]; exact ⟨c', k1, by simp [this, k2]⟩
  · intro c'
    by_cases hcc : c' = c0
    · subst hcc; simp only [if_true]
      have hh := jh c'
      refine ⟨by grind, by grind, ?_, by grind⟩
      intro _
      constructor
      · intro k; grind
      · rintro ⟨_, k2⟩; exact absurd (by simp [x1]) (k2 e ((hmem e).2 he))
    · simp only [hcc, if_false]
      have hh := jh c'
      refine ⟨hh.1, hh.2.1, ?_, hh.2.2.2⟩
      intro hacq; rw [hh.2.2.1 hacq]
      constructor
      · rintro ⟨k1, k2⟩; refine ⟨k1, ?_⟩; intro x hx'
        by_cases hxe : x = e
        · subst hxe; simp only [if_true, x1]; intro h; exact hcc (Option.some.inj h).symm
        · simp only [hxe, if_false]; exact k2 x ((hmem x).1 hx')
      · rintro ⟨k1, k2⟩; refine ⟨k1, ?_⟩; intro x hx'
        by_cases hxe : x = e
        · subst hxe; rw [g1]; intro h; exact hcc (Option.some.inj h).symm
        · have := k2 x ((hmem x).2 hx'); simpa [hxe] using this

theorem JJ_insert {R F n H G C} (j : JJ R F n H G C) (e c : Nat) (F' : List Nat) (n' : Nat)
    (hF : (F = e :: F' ∧ n' = n) ∨ (F' = F ∧ e = n ∧ n' = n + 1))
    (hheld : (C c).held = true) (hacq : (C c).acquired = 1) (hnc : ∀ x ∈ R, (H x).cur ≠ some c)
    (hg : G (C c).id = none) (hx : Holder) (x1 : hx.cur = some c) (x2 : hx.busy = true) :
    JJ (e :: R) F' n' (fun x => if x = e then hx else H x) (fun x => if x = (C c).id then some e else G x) C := by
  obtain ⟨ja, jb1, jb2, jc, jd, je, jf, jh⟩ := j
  have heR : e ∉ R := by
    rcases hF with ⟨h, _⟩ | ⟨_, h, _⟩
    · intro k; exact jb2 e k (by simp [h])
    · intro k; have := jc e (Or.inl k); omega
  have hcl : (C c).closed = 0 := by
    have hh := jh c
    have := hh.2.2.1 hacq
    have h1 : ¬ (C c).closed = 1 := by intro k; have := (this.1 k).1; simp [hheld] at this
    have := hh.2.2.2; omega
  constructor
  · exact List.nodup_cons.2 ⟨heR, ja⟩
  · rcases hF with ⟨h, _⟩ | ⟨h, _, _⟩
    · rw [h] at jb1; exact (List.nodup_cons.1 jb1).2
    · rw [h]; exact jb1
  · intro x hx'
    rcases hF with ⟨h, _⟩ | ⟨h, h2, _⟩
    · rw [h] at jb1 jb2
      rcases List.mem_cons.1 hx' with rfl | k
      · exact (List.nodup_cons.1 jb1).1
      · intro k2; exact jb2 x k (List.mem_cons_of_mem _ k2)
    · rw [h]
      rcases List.mem_cons.1 hx' with rfl | k
      · intro k2; have := jc x (Or.inr k2); omega
      · exact jb2 x k
  · intro x hx'
    rcases hF with ⟨h, h2⟩ | ⟨h, h2, h3⟩
    · rw [h2]; apply jc
      rcases hx' with k | k
      · rcases List.mem_cons.1 k with rfl | k; right; simp [h]; left; exact k
      · right; rw [h]; exact List.mem_cons_of_mem _ k
    · rw [h3]
      rcases hx' with k | k
      · rcases List.mem_cons.1 k with rfl | k; omega; have := jc x (Or.inl k); omega
      · rw [h] at k; have := jc x (Or.inr k); omega
  · intro x hx'
    have hne : x ≠ e := by intro h; subst h; exact hx' (List.mem_cons_self ..)
    simp only [hne, if_false]; exact jd x (fun k => hx' (List.mem_cons_of_mem _ k))
  · intro x hx'
    by_cases hxe : x = e
    · subst hxe; simp only [if_true]
      exact ⟨c, x1, by simp, hacq, hcl, by rw [hheld, x2]⟩
    · have hxR : x ∈ R := by rcases List.mem_cons.1 hx' with h | h; exact absurd h hxe; exact h
      obtain ⟨c', k1, k2, k3, k4, k5⟩ := je x hxR
      simp only [hxe, if_false]
      have : (C c').id ≠ (C c).id := by intro h; rw [h, hg] at k2; cases k2
      exact ⟨c', k1, by simp [this, k2], k3, k4, k5⟩
  · intro id x hgx
    by_cases hid : id = (C c).id
    · subst hid; simp only [if_true] at hgx; cases hgx
      exact ⟨List.mem_cons_self .., c, by simp [x1], rfl⟩
    · simp only [hid, if_false] at hgx
      obtain ⟨k0, c', k1, k2⟩ := jf id x hgx
      have hxe : x ≠ e := by intro h; subst h; exact heR k0
      exact ⟨List.mem_cons_of_mem _ k0, c', by simp [hxe, k1], k2⟩
  · intro c'
    have hh := jh c'
    refine ⟨hh.1, hh.2.1, ?_, hh.2.2.2⟩
    intro ha; rw [hh.2.2.1 ha]
    constructor
    · rintro ⟨k1, k2⟩; refine ⟨k1, ?_⟩; intro x hx'
      by_cases hxe : x = e
      · subst hxe; simp only [if_true, x1]; intro h; have := Option.some.inj h; subst this; simp [hheld] at k1
      · simp only [hxe, if_false]; apply k2; rcases List.mem_cons.1 hx' with h | h; exact absurd h hxe; exact h
    · rintro ⟨k1, k2⟩; refine ⟨k1, ?_⟩; intro x hx'
      have hxe : x ≠ e := by intro h; subst h; exact heR hx'
      have := k2 x (List.mem_cons_of_mem _ hx'); simpa [hxe] using this

/-- the invariant of the repaired provider -/
def J (s : St) : Prop := JJ s.ring s.free s.nextElem s.holders s.curs.get s.cursors

theorem append_single (e : Nat) (x : List Nat) : append [e] x = e :: x := by
  cases x <;> simp [append]

theorem J_init (m : Nat) (i b : Int) : J (init m i b) := by
  unfold J init
  refine ⟨List.nodup_nil, List.nodup_nil, ?_, ?_, ?_, ?_, ?_, ?_⟩ <;> simp

theorem J_cached_acq {s : St} (j : J s) {e c : Nat} (he : e ∈ s.ring) (hc : (s.holders e).cur = some c) :
    s.curs.get (s.cursors c).id = some e ∧ (s.cursors c).acquired = 1 ∧ (s.cursors c).closed = 0 ∧
    (s.cursors c).held = (s.holders e).busy := by
  obtain ⟨c', k1, k2⟩ := j.e e he
  have : c' = c := by rw [hc] at k1; exact (Option.some.inj k1).symm
  subst this; exact k2

theorem J_held_acq {s : St} (j : J s) {c : Nat} (hh : (s.cursors c).held = true) : (s.cursors c).acquired = 1 := by
  have h := j.h c
  have h1 : (s.cursors c).acquired ≠ 0 := by intro k; have := (h.1 k).1; simp [hh] at this
  have := h.2.1; omega

theorem J_create {s : St} (id q p : Nat) (k : CreateKind) (c n : Nat) (j : J s)
    (hfresh : (s.cursors c).acquired = 0) : J (create s id q p k c n).1 := by
  have hnc : ∀ e ∈ s.ring, (s.holders e).cur ≠ some c := by
    intro e he hc; have := (J_cached_acq j he hc).2.1; omega
  unfold create
  cases k
  · exact JJ_setCur j c _ hnc (by simp) (by simp) (by simp) (by simp)
  · exact JJ_setCur j c _ hnc (by simp) (by simp) (by simp) (by simp)
  · exact j

theorem J_lookup {s : St} (id q p : Nat) (ok : Bool) (j : J s) : J (lookup s id q p ok).1 := by
  unfold lookup
  simp only []
  split
  · split
    · rename_i e hg
      split
      · exact j
      · split
        · exact j
        · rename_i c hc
          split
          · exact j
          · have he := (j.f id e hg).1
            have key := JJ_touch j e c he hc
              { s.cursors c with pos := p, held := true }
              { s.holders e with busy := true, exp := s.now + s.busyTo } true rfl rfl rfl rfl hc rfl
            unfold J
            simp only [toHead, hset, setCur, tearOff, append_single]
            exact key
    · exact j
  · exact j

theorem J_insert {s : St} (c : Nat) (j : J s) (hheld : (s.cursors c).held = true)
    (hnc : ∀ e ∈ s.ring, (s.holders e).cur ≠ some c) : J (insert true s c).1 := by
  have hacq := J_held_acq j hheld
  unfold insert
  simp only [Bool.true_and]
  split
  · have e1 : (closeCur (setCur s c { s.cursors c with held := false }) c).cursors =
        fun x => if x = c then { s.cursors c with held := false, closed := (s.cursors c).acquired, closeCalls := (s.cursors c).closeCalls + 1 } else s.cursors x := by
      funext x; by_cases hx : x = c <;> simp [closeCur, setCur, hx]
    unfold J
    rw [e1]
    exact JJ_setCur j c _ hnc (by simp [hacq]) (by simp [hacq]) (by simp [hacq]) (by simp [hacq])
  · rename_i hg
    have hg' : s.curs.get (s.cursors c).id = none := by
      cases h : s.curs.get (s.cursors c).id <;> simp [h] at hg ⊢
    cases hf : s.free with
    | cons f rest =>
      have key := JJ_insert j f c rest s.nextElem (Or.inl ⟨hf, rfl⟩) hheld hacq hnc hg'
        { busy := true, cur := some c, exp := s.now + s.busyTo } rfl rfl
      unfold J
      simp only [hset, append_single, IdMap.set]
      exact key
    | nil =>
      have key := JJ_insert j s.nextElem c s.free (s.nextElem + 1) (Or.inr ⟨rfl, rfl, rfl⟩) hheld hacq hnc hg'
        { busy := true, cur := some c, exp := s.now + s.busyTo } rfl rfl
      unfold J
      simp only [hset, append_single, IdMap.set]
      rw [hf] at key
      exact key

theorem release_close_cursors (s : St) (c cp : Nat) :
    (closeCur (setCur s c { s.cursors c with held := false, pos := cp }) c).cursors =
      fun x => if x = c then { s.cursors c with held := false, pos := cp, closed := (s.cursors c).acquired, closeCalls := (s.cursors c).closeCalls + 1 } else s.cursors x := by
  funext x; by_cases hx : x = c <;> simp [closeCur, setCur, hx]

theorem J_release {s : St} (c cp : Nat) (j : J s) (hheld : (s.cursors c).held = true) :
    J (release false s c cp).1 ∧ (release false s c cp).2 ≠ .panic := by
  have hacq := J_held_acq j hheld
  have hclose : (∀ e ∈ s.ring, (s.holders e).cur ≠ some c) →
      J (closeCur (setCur s c { s.cursors c with held := false, pos := cp }) c) := by
    intro hnc
    unfold J
    rw [release_close_cursors]
    exact JJ_setCur j c _ hnc (by simp [hacq]) (by simp [hacq]) (by simp [hacq]) (by simp [hacq])
  unfold release
  simp only [Bool.not_false, Bool.true_and]
  have hget : (setCur s c { s.cursors c with held := false, pos := cp }).curs.get (s.cursors c).id =
      s.curs.get (s.cursors c).id := rfl
  split
  · rename_i hm
    rw [hget] at hm
    refine ⟨hclose ?_, by simp⟩
    intro e he hc; have := (J_cached_acq j he hc).1; rw [hm] at this; cases this
  · rename_i e hm
    rw [hget] at hm
    have he := (j.f _ e hm).1
    have hh : (setCur s c { s.cursors c with held := false, pos := cp }).holders e = s.holders e := rfl
    simp only [hh]
    split
    · rename_i hne
      refine ⟨hclose ?_, by simp⟩
      intro e' he' hc
      have := (J_cached_acq j he' hc).1; rw [hm] at this
      have : e' = e := (Option.some.inj this).symm
      subst this; simp [hc] at hne
    · rename_i hcur
      have hc : (s.holders e).cur = some c := by
        cases h : decide ((s.holders e).cur ≠ some c) <;> simp_all
      have hbusy : (s.holders e).busy = true := by rw [← (J_cached_acq j he hc).2.2.2]; exact hheld
      simp only [hbusy, Bool.not_true, Bool.false_eq_true, if_false]
      refine ⟨?_, by simp⟩
      have key := JJ_touch j e c he hc
        { s.cursors c with held := false, pos := cp }
        { s.holders e with busy := false, exp := s.now + s.idleTo } false rfl rfl rfl rfl hc rfl
      unfold J
      simp only [toHead, hset, setCur, tearOff, append_single]
      exact key

theorem J_evict {s : St} (e : Nat) (r : Bool) (j : J s) : J (evict s e r) := by
  unfold evict
  simp only []
  split
  · exact j
  · rename_i c hc
    by_cases hb : (s.holders e).busy = true
    · have key := fun hx hxc F' hF => JJ_evict j e c hc hx hxc F' hF s.cursors (Or.inl ⟨rfl, hb⟩)
      simp only [hb, Bool.not_true, Bool.false_eq_true, if_false]
      split
      · unfold J; simp only [hset, tearOff, append_single, IdMap.del]; exact key _ rfl _ (Or.inr rfl)
      · unfold J; simp only [hset, tearOff, IdMap.del]; exact key _ rfl _ (Or.inl rfl)
    · have hb' : (s.holders e).busy = false := by simpa using hb
      have key := fun hx hxc F' hF => JJ_evict j e c hc hx hxc F' hF
        (fun x => if x = c then { s.cursors c with closed := (s.cursors c).acquired, closeCalls := (s.cursors c).closeCalls + 1 } else s.cursors x)
        (Or.inr ⟨hb', { s.cursors c with closed := (s.cursors c).acquired, closeCalls := (s.cursors c).closeCalls + 1 }, rfl, rfl, rfl, rfl, rfl⟩)
      simp only [hb', Bool.not_false, if_true]
      split
      · unfold J; simp only [hset, tearOff, append_single, IdMap.del, closeCur, setCur, if_true]; exact key _ rfl _ (Or.inr rfl)
      · unfold J; simp only [hset, tearOff, IdMap.del, closeCur, setCur, if_true]; exact key _ rfl _ (Or.inl rfl)

theorem J_sweepBySizeLoop (fuel : Nat) : ∀ {s : St}, J s → J (sweepBySizeLoop fuel s) := by
  induction fuel with
  | zero => intro s h; exact h
  | succ n ih =>
    intro s h
    unfold sweepBySizeLoop
    split
    · split
      · exact h
      · rename_i e _
        have he := J_evict e false h
        simp only []
        split
        · exact he
        · exact ih he
    · exact h

theorem J_sweepByTimeLoop (cnt : Nat) : ∀ {s : St} (e : Nat), J s → J (sweepByTimeLoop cnt s e) := by
  induction cnt with
  | zero => intro s e h; exact h
  | succ n ih =>
    intro s e h
    unfold sweepByTimeLoop
    simp only []
    split
    · have he := J_evict (prev s.ring e) true h
      split
      · exact he
      · exact ih _ he
    · split
      · exact h
      · exact ih _ h

theorem J_sweepByTime {s : St} (j : J s) : J (sweepByTime s) := by
  unfold sweepByTime
  split
  · exact j
  · exact J_sweepByTimeLoop _ _ j

theorem J_sweepBySize {s : St} (j : J s) : J (sweepBySize s) := J_sweepBySizeLoop _ j


/-! ## the composite `get` step as a refinement of its split parts -/

/-- the split steps a composite `GetOrCreate` consists of, for the given state and arguments -/
def getParts (s : St) (id q p : Nat) (ok : Bool) (k : CreateKind) (cache : Bool) (c n : Nat) : List Label :=
  match lookup s id q p ok with
  | (_, .refused, _) => [.lookup id q p ok]
  | (_, .nilDeref, _) => [.lookup id q p ok]
  | (_, .hit _, _) => [.lookup id q p ok]
  | (s1, _, id') =>
    match create s1 id' q p k c n with
    | (_, .cur c2) => if cache then [.lookup id q p ok, .create id' q p k c n, .insert c2]
                      else [.lookup id q p ok, .create id' q p k c n]
    | _ => [.lookup id q p ok, .create id' q p k c n]

/-- the composite `get` step is exactly the run of its split parts (both code shapes) -/
theorem get_refines_split (chk byId : Bool) (s : St) (id q p : Nat) (ok : Bool) (k : CreateKind) (cache : Bool) (c n : Nat) :
    run chk byId s (getParts s id q p ok k cache c n) = stepL chk byId s (.get id q p ok k cache c n) := by
  simp only [stepL, getOrCreate, getParts]
  split
  · rename_i e; simp [run, stepL, e]
  · rename_i e; simp [run, stepL, e]
  · rename_i e; simp [run, stepL, e]
  · rename_i s1 r id' h1 h2 h3 e
    split
    · rename_i s2 c2 e2
      cases cache
      · simp [run, stepL, e, e2]
      · simp only [run, stepL, e, e2, List.foldl, if_true]
        rcases hin : insert chk s2 c2 with ⟨s3, ir⟩
        cases ir <;> simp
    · rename_i hne
      rcases hcr : create s1 id' q p k c n with ⟨s2, cr⟩
      cases cr with
      | cur c2 => exact absurd hcr (hne s2 c2)
      | empty => simp [run, stepL, e, hcr]
      | error => simp [run, stepL, e, hcr]

/-- a label is one of the split steps (not the composite) -/
def Label.isSplit : Label → Bool
  | .get .. => false
  | _ => true

theorem getParts_split (s : St) (id q p : Nat) (ok : Bool) (k : CreateKind) (cache : Bool) (c n : Nat) :
    ∀ l ∈ getParts s id q p ok k cache c n, l.isSplit = true := by
  intro l hl
  unfold getParts at hl
  repeat' split at hl
  all_goals (simp at hl; rcases hl with h | h | h <;> (try subst h) <;> simp_all [Label.isSplit])

/-- protocol well-formedness of a label (NOT an id hypothesis): a created cursor object is fresh (also for the
    composite `get`); `insert c` only for a held, not yet cached cursor; `release c` only for a held cursor.
    Ids, new ids, interleaving, clock, knobs are arbitrary. -/
def wfLabel (s : St) : Label → Prop
  | .create _ _ _ _ c _ => (s.cursors c).acquired = 0
  | .insert c => (s.cursors c).held = true ∧ ∀ e ∈ s.ring, (s.holders e).cur ≠ some c
  | .release c _ => (s.cursors c).held = true
  | .get _ _ _ _ _ _ c _ => (s.cursors c).acquired = 0
  | _ => True

def WF : St → List Label → Prop
  | _, [] => True
  | s, l :: tr => wfLabel s l ∧ WF (stepL true false s l) tr

theorem lookup_fallthrough {s s1 : St} {id q p : Nat} {ok : Bool} {r : LookupRes} {id' : Nat}
    (e : lookup s id q p ok = (s1, r, id')) (h1 : r ≠ .refused) (h2 : r ≠ .nilDeref) (h3 : ∀ c, r ≠ .hit c) : s1 = s := by
  unfold lookup at e
  simp only [] at e
  repeat' split at e
  all_goals (simp only [Prod.mk.injEq] at e; obtain ⟨e1, e2, e3⟩ := e; subst e2; first | exact e1.symm | exact absurd rfl h1 | exact absurd rfl h2 | exact absurd rfl (h3 _))

/-- the parts of a well-formed composite `get` form a well-formed trace of split steps -/
theorem get_parts_wf {s : St} (j : J s) (id q p : Nat) (ok : Bool) (k : CreateKind) (cache : Bool) (c n : Nat)
    (hfresh : (s.cursors c).acquired = 0) : WF s (getParts s id q p ok k cache c n) := by
  have hnc : ∀ e ∈ s.ring, (s.holders e).cur ≠ some c := by
    intro e he hc; have := (J_cached_acq j he hc).2.1; omega
  unfold getParts
  split
  · simp [WF, wfLabel]
  · simp [WF, wfLabel]
  · simp [WF, wfLabel]
  · rename_i s1 r id' h1 h2 h3 e
    have hs1 : s1 = s := lookup_fallthrough e (fun h => h1 h) (fun h => h2 h) (fun c h => h3 c h)
    subst hs1
    have hst : stepL true false s1 (.lookup id q p ok) = s1 := by simp [stepL, e]
    split
    · rename_i s2 c2 e2
      have hc2 : c2 = c ∧ s2 = setCur s1 c { id := if id' = 0 then n else id', query := q, pos := p, acquired := 1, held := true, handed := true } := by
        unfold create at e2
        cases k <;> simp at e2
        exact ⟨e2.2.symm, e2.1.symm⟩
      obtain ⟨rfl, hs2⟩ := hc2
      have hst2 : stepL true false s1 (.create id' q p k c2 n) = s2 := by simp [stepL, e2]
      cases cache
      · simp [WF, wfLabel, hst, hfresh]
      · simp only [WF, wfLabel, hst, hst2, if_true, and_true, true_and]
        refine ⟨hfresh, ?_, ?_⟩
        · rw [hs2]; simp [setCur]
        · rw [hs2]; exact hnc
    · simp [WF, wfLabel, hst, hfresh]

/-! ## second invariant: `close()` calls, map size = ring length, no panic -/

/-- per cursor object: `close()` was called at most once, only a closed cursor had it called, and a cursor that was
    ever handed to a request and is closed had it called -/
def Mrec (i : CurI) : Prop :=
  i.closeCalls ≤ 1 ∧ (i.closeCalls = 1 → i.closed = 1) ∧ (i.handed = true → i.closed = 1 → i.closeCalls = 1)
def MOKf (f : Nat → CurI) : Prop := ∀ c, Mrec (f c)

theorem MOKf_upd {f : Nat → CurI} (h : MOKf f) (c : Nat) (i : CurI) (hi : Mrec i) :
    MOKf (fun x => if x = c then i else f x) := by
  intro x; by_cases hx : x = c
  · simp [hx, hi]
  · simpa [hx] using h x

structure Rest (s : St) : Prop where
  m : MOKf s.cursors
  sz : s.curs.size = s.ring.length
  np : s.panicked = false

theorem closeCalls0 {f : Nat → CurI} (h : MOKf f) {c : Nat} (hc : (f c).closed = 0) : (f c).closeCalls = 0 := by
  have := h c
  have h1 : ¬ (f c).closeCalls = 1 := fun k => by have := this.2.1 k; omega
  have := this.1; omega

theorem J_held_closed0 {s : St} (j : J s) {c : Nat} (hh : (s.cursors c).held = true) : (s.cursors c).closed = 0 := by
  have ha := J_held_acq j hh
  have h := j.h c
  have h1 : ¬ (s.cursors c).closed = 1 := by
    intro k; have := ((h.2.2.1 ha).1 k).1; rw [hh] at this; cases this
  have := h.2.2.2; omega

theorem toHead_len {r : List Nat} {e : Nat} (he : e ∈ r) : (e :: r.erase e).length = r.length := by
  have := List.length_pos_of_mem he
  simp [List.length_erase_of_mem he]; omega

theorem Rest_init (m : Nat) (i b : Int) : Rest (init m i b) := by
  refine ⟨?_, rfl, rfl⟩
  intro c; simp [init, Mrec]

theorem Rest_lookup {s : St} (id q p : Nat) (ok : Bool) (j : J s) (r : Rest s) : Rest (lookup s id q p ok).1 := by
  unfold lookup
  simp only []
  split
  · split
    · rename_i e hg
      split
      · exact r
      · split
        · rename_i hnone
          obtain ⟨_, c, hc, _⟩ := j.f id e hg
          rw [hnone] at hc; cases hc
        · rename_i c hc
          split
          · exact r
          · have he := (j.f id e hg).1
            refine ⟨?_, ?_, r.np⟩
            · simp only [toHead, hset, setCur]
              exact MOKf_upd r.m c _ (by simpa [Mrec] using r.m c)
            · simp only [toHead, hset, setCur, tearOff, append_single]
              rw [toHead_len he]; exact r.sz
    · exact r
  · exact r

theorem Rest_create {s : St} (id q p : Nat) (k : CreateKind) (c n : Nat) (r : Rest s) : Rest (create s id q p k c n).1 := by
  unfold create
  cases k
  · exact ⟨MOKf_upd r.m c _ (by simp [Mrec]), r.sz, r.np⟩
  · exact ⟨MOKf_upd r.m c _ (by simp [Mrec]), r.sz, r.np⟩
  · exact r

theorem Rest_insert {s : St} (c : Nat) (j : J s) (r : Rest s) (hheld : (s.cursors c).held = true) :
    Rest (insert true s c).1 := by
  have hacq := J_held_acq j hheld
  have hcc := closeCalls0 r.m (J_held_closed0 j hheld)
  unfold insert
  simp only [Bool.true_and]
  split
  · have e1 : (closeCur (setCur s c { s.cursors c with held := false }) c).cursors =
        fun x => if x = c then { s.cursors c with held := false, closed := (s.cursors c).acquired, closeCalls := (s.cursors c).closeCalls + 1 } else s.cursors x := by
      funext x; by_cases hx : x = c <;> simp [closeCur, setCur, hx]
    refine ⟨?_, r.sz, r.np⟩
    rw [e1]
    exact MOKf_upd r.m c _ (by simp [Mrec, hacq, hcc])
  · rename_i hg
    have hg' : (s.curs.get (s.cursors c).id).isSome = false := by simpa using hg
    cases hf : s.free with
    | cons f rest =>
      refine ⟨r.m, ?_, r.np⟩
      simp only [hset, append_single, IdMap.set, hg', List.length_cons]
      simp [r.sz]
    | nil =>
      refine ⟨r.m, ?_, r.np⟩
      simp only [hset, append_single, IdMap.set, hg', List.length_cons]
      simp [r.sz]

theorem Rest_release {s : St} (c cp : Nat) (j : J s) (r : Rest s) (hheld : (s.cursors c).held = true) :
    Rest (release false s c cp).1 := by
  have hacq := J_held_acq j hheld
  have hcc := closeCalls0 r.m (J_held_closed0 j hheld)
  have hclose : Rest (closeCur (setCur s c { s.cursors c with held := false, pos := cp }) c) := by
    refine ⟨?_, r.sz, r.np⟩
    rw [release_close_cursors]
    exact MOKf_upd r.m c _ (by simp [Mrec, hacq, hcc])
  unfold release
  simp only [Bool.not_false, Bool.true_and]
  have hget : (setCur s c { s.cursors c with held := false, pos := cp }).curs.get (s.cursors c).id =
      s.curs.get (s.cursors c).id := rfl
  split
  · exact hclose
  · rename_i e hm
    rw [hget] at hm
    have he := (j.f _ e hm).1
    have hh : (setCur s c { s.cursors c with held := false, pos := cp }).holders e = s.holders e := rfl
    simp only [hh]
    split
    · exact hclose
    · rename_i hcur
      have hc : (s.holders e).cur = some c := by
        cases h : decide ((s.holders e).cur ≠ some c) <;> simp_all
      have hbusy : (s.holders e).busy = true := by rw [← (J_cached_acq j he hc).2.2.2]; exact hheld
      simp only [hbusy, Bool.not_true, Bool.false_eq_true, if_false]
      refine ⟨?_, ?_, r.np⟩
      · simp only [toHead, hset, setCur]
        exact MOKf_upd r.m c _ (by simpa [Mrec] using r.m c)
      · simp only [toHead, hset, setCur, tearOff, append_single]
        rw [toHead_len he]; exact r.sz

/-- evicting a ring member: the invariants hold and nothing panics -/
theorem Rest_evict {s : St} (e : Nat) (rc : Bool) (j : J s) (r : Rest s) (he : e ∈ s.ring) :
    Rest (evict s e rc) ∧ (evict s e rc).ring = s.ring.erase e := by
  obtain ⟨c, hc, hm, hacq, hcl, hheld⟩ := j.e e he
  have hcc := closeCalls0 r.m hcl
  have hsome : (s.curs.get (s.cursors c).id).isSome = true := by simp [hm]
  have hlen : (s.ring.erase e).length = s.ring.length - 1 := List.length_erase_of_mem he
  unfold evict
  simp only [hc]
  by_cases hb : (s.holders e).busy = true
  · simp only [hb, Bool.not_true, Bool.false_eq_true, if_false]
    split
    · refine ⟨⟨r.m, ?_, r.np⟩, rfl⟩
      simp only [hset, tearOff, IdMap.del, hsome, if_true, hlen, r.sz]
    · refine ⟨⟨r.m, ?_, r.np⟩, rfl⟩
      simp only [hset, tearOff, IdMap.del, hsome, if_true, hlen, r.sz]
  · have hb' : (s.holders e).busy = false := by simpa using hb
    have hm' : MOKf (closeCur s c).cursors := by
      simp only [closeCur, setCur]
      exact MOKf_upd r.m c _ (by simp [Mrec, hacq, hcc])
    have hid : ((closeCur s c).cursors c).id = (s.cursors c).id := by simp [closeCur, setCur]
    simp only [hb', Bool.not_false, if_true]
    split
    · refine ⟨⟨hm', ?_, r.np⟩, rfl⟩
      simp only [hset, tearOff, IdMap.del, hid]
      show (if ((closeCur s c).curs.get (s.cursors c).id).isSome = true then _ else _) = _
      have : (closeCur s c).curs = s.curs := rfl
      rw [this]; simp only [hsome, if_true]
      show s.curs.size - 1 = (s.ring.erase e).length
      rw [hlen, r.sz]
    · refine ⟨⟨hm', ?_, r.np⟩, rfl⟩
      simp only [hset, tearOff, IdMap.del, hid]
      show (if ((closeCur s c).curs.get (s.cursors c).id).isSome = true then _ else _) = _
      have : (closeCur s c).curs = s.curs := rfl
      rw [this]; simp only [hsome, if_true]
      show s.curs.size - 1 = (s.ring.erase e).length
      rw [hlen, r.sz]

/-! ### `Prev()` on a ring -/

theorem prevAux_mem (e : Nat) : ∀ (l : Nat) (xs : List Nat), e ∈ xs → prevAux l xs e = l ∨ prevAux l xs e ∈ xs := by
  intro l xs
  induction xs generalizing l with
  | nil => intro h; cases h
  | cons x xs ih =>
    intro h
    unfold prevAux
    by_cases hx : x = e
    · simp [hx]
    · simp only [hx, if_false]
      have he : e ∈ xs := by rcases List.mem_cons.1 h with h | h; exact absurd h.symm hx; exact h
      rcases ih x he with h | h
      · right; rw [h]; exact List.mem_cons_self ..
      · right; exact List.mem_cons_of_mem _ h

theorem prev_mem {r : List Nat} {e : Nat} (he : e ∈ r) : prev r e ∈ r := by
  unfold prev
  cases hl : r.getLast? with
  | none => rw [List.getLast?_eq_none_iff] at hl; subst hl; cases he
  | some l =>
    have hlm : l ∈ r := List.mem_of_mem_getLast? (by simp [hl])
    simp only []
    rcases prevAux_mem e l r he with h | h
    · rw [h]; exact hlm
    · exact h

/-- the predecessor is either `l` (when `e` heads the list) or a different member -/
theorem prevAux_ne (e : Nat) : ∀ (l : Nat) (xs : List Nat), e ∈ xs → xs.Nodup →
    (xs.head? = some e ∧ prevAux l xs e = l) ∨ prevAux l xs e ≠ e := by
  intro l xs
  induction xs generalizing l with
  | nil => intro h; cases h
  | cons x xs ih =>
    intro h hn
    unfold prevAux
    by_cases hx : x = e
    · left; simp [hx]
    · right
      simp only [hx, if_false]
      have he : e ∈ xs := by rcases List.mem_cons.1 h with h | h; exact absurd h.symm hx; exact h
      rcases ih x he (List.nodup_cons.1 hn).2 with ⟨_, h2⟩ | h
      · rw [h2]; exact hx
      · exact h

theorem prev_ne {r : List Nat} {e : Nat} (he : e ∈ r) (hn : r.Nodup) (hlen : 2 ≤ r.length) : prev r e ≠ e := by
  unfold prev
  match r, he, hn, hlen with
  | x :: y :: ys, he, hn, _ =>
    have hl : (x :: y :: ys).getLast? = some ((y :: ys).getLast (by simp)) := by
      rw [List.getLast?_cons_cons, List.getLast?_eq_some_getLast (by simp)]
    simp only [hl]
    rcases prevAux_ne e _ (x :: y :: ys) he hn with ⟨h1, h2⟩ | h
    · rw [h2]
      simp at h1; subst h1
      intro k
      have : x ∈ y :: ys := by rw [← k]; exact List.getLast_mem _
      exact (List.nodup_cons.1 hn).1 this
    · exact h

/-! ### the invariant of the repaired provider, complete -/

structure K (s : St) : Prop where
  j : J s
  r : Rest s

theorem K_evict {s : St} (e : Nat) (rc : Bool) (k : K s) (he : e ∈ s.ring) : K (evict s e rc) :=
  ⟨J_evict e rc k.j, (Rest_evict e rc k.j k.r he).1⟩

theorem K_sweepBySizeLoop (fuel : Nat) : ∀ {s : St}, K s → K (sweepBySizeLoop fuel s) := by
  induction fuel with
  | zero => intro s h; exact h
  | succ n ih =>
    intro s h
    unfold sweepBySizeLoop
    split
    · rename_i hgt
      split
      · rename_i hnone
        rw [List.getLast?_eq_none_iff] at hnone
        have := h.r.sz; rw [hnone] at this; simp at this; omega
      · rename_i e hl
        have he : e ∈ s.ring := List.mem_of_mem_getLast? (by simp [hl])
        have hk := K_evict e false h he
        simp only []
        split
        · exact hk
        · exact ih hk
    · exact h

theorem K_sweepByTimeLoop (cnt : Nat) : ∀ {s : St} (e : Nat), K s → cnt ≤ s.ring.length → (0 < cnt → e ∈ s.ring) →
    K (sweepByTimeLoop cnt s e) := by
  induction cnt with
  | zero => intro s e h _ _; exact h
  | succ n ih =>
    intro s e h hlen hmem
    have he : e ∈ s.ring := hmem (Nat.succ_pos n)
    have he' : prev s.ring e ∈ s.ring := prev_mem he
    unfold sweepByTimeLoop
    simp only []
    split
    · have hk := K_evict (prev s.ring e) true h he'
      have hring := (Rest_evict (prev s.ring e) true h.j h.r he').2
      split
      · exact hk
      · apply ih _ hk
        · rw [hring, List.length_erase_of_mem he']; omega
        · intro hpos
          rw [hring]
          have h2 : 2 ≤ s.ring.length := by omega
          have hne : prev s.ring (prev s.ring e) ≠ prev s.ring e := prev_ne he' h.j.a h2
          exact (List.Nodup.mem_erase_iff h.j.a).2 ⟨hne, prev_mem he'⟩
    · split
      · exact h
      · exact ih _ h (by omega) (fun _ => he')

theorem K_sweepByTime {s : St} (k : K s) : K (sweepByTime s) := by
  unfold sweepByTime
  split
  · exact k
  · rename_i head tl hr
    apply K_sweepByTimeLoop _ _ k
    · rw [k.r.sz]; exact Nat.le_refl _
    · intro _; rw [hr]; exact List.mem_cons_self ..

theorem K_init (m : Nat) (i b : Int) : K (init m i b) := ⟨J_init m i b, Rest_init m i b⟩

/-- one split step preserves the invariant -/
theorem K_step_split {s : St} (l : Label) (hs : l.isSplit = true) (k : K s) (wf : wfLabel s l) :
    K (stepL true false s l) := by
  cases l with
  | lookup id q p ok => exact ⟨J_lookup id q p ok k.j, Rest_lookup id q p ok k.j k.r⟩
  | create id q p kd c n => exact ⟨J_create id q p kd c n k.j wf, Rest_create id q p kd c n k.r⟩
  | insert c => exact ⟨J_insert c k.j wf.1 wf.2, Rest_insert c k.j k.r wf.1⟩
  | get id q p ok kd cache c n => simp [Label.isSplit] at hs
  | release c cp => exact ⟨(J_release c cp k.j wf).1, Rest_release c cp k.j k.r wf⟩
  | age d => exact ⟨k.j, k.r.m, k.r.sz, k.r.np⟩
  | sweepT => exact K_sweepByTime k
  | sweepS => exact K_sweepBySizeLoop _ k

theorem K_run_split (tr : List Label) : ∀ {s : St}, K s → (∀ l ∈ tr, l.isSplit = true) → WF s tr →
    K (run true false s tr) := by
  induction tr with
  | nil => intro s k _ _; exact k
  | cons l tr ih =>
    intro s k hs wf
    exact ih (K_step_split l (hs l (List.mem_cons_self ..)) k wf.1) (fun x hx => hs x (List.mem_cons_of_mem _ hx)) wf.2

/-- every step, the composite `get` included (through its parts) -/
theorem K_step {s : St} (l : Label) (k : K s) (wf : wfLabel s l) : K (stepL true false s l) := by
  cases hl : l.isSplit
  · cases l with
    | get id q p ok kd cache c n =>
      rw [← get_refines_split]
      exact K_run_split _ k (getParts_split s id q p ok kd cache c n) (get_parts_wf k.j id q p ok kd cache c n wf)
    | _ => simp [Label.isSplit] at hl
  · exact K_step_split l hl k wf

theorem K_run (tr : List Label) : ∀ {s : St}, K s → WF s tr → K (run true false s tr) := by
  induction tr with
  | nil => intro s k _; exact k
  | cons l tr ih => intro s k wf; exact ih (K_step l k wf.1) wf.2

theorem J_run (tr : List Label) {s : St} (j : K s) (wf : WF s tr) : J (run true false s tr) := (K_run tr j wf).j

end Logrange.Provider
