import Logrange.Model.Provider
/-!
# Lemmas about the cursor provider model

* the labelled transition system of the provider (`Label`, `stepL`, `run`): every step of the model, with
  **unconstrained arguments** — split `lookup`/`create`/`insert` steps of any number of requests interleaved in
  any order, releases of anything, clock advances, both sweeps;
* the accounting invariant `CurOK` (`closed ≤ acquired ≤ 1` for every cursor object) and its preservation by
  every step and by the two sweep loops.
-/
namespace Logrange.Provider
open Logrange.Ring

inductive Label where
  | lookup (id query pos : Nat) (posOk : Bool)
  | create (id query pos : Nat) (kind : CreateKind) (newCur newId : Nat)
  | insert (c : Nat)
  | get (id query pos : Nat) (posOk : Bool) (kind : CreateKind) (cache : Bool) (newCur newId : Nat)
  | release (c : Nat) (commitPos : Nat)
  | age (d : Int)
  | sweepT
  | sweepS

/-- one step; `chk`/`byId` are the two code-shape facts (`insertChecksExisting`, `releaseLooksUpById`) -/
def stepL (chk byId : Bool) (s : St) : Label → St
  | .lookup id q p ok => (lookup s id q p ok).1
  | .create id q p k c n => (create s id q p k c n).1
  | .insert c => (insert chk s c).1
  | .get id q p ok k cache c n => (getOrCreate chk s id q p ok k cache c n).1
  | .release c cp => (release byId s c cp).1
  | .age d => age s d
  | .sweepT => sweepByTime s
  | .sweepS => sweepBySize s

def run (chk byId : Bool) (s : St) (tr : List Label) : St := tr.foldl (stepL chk byId) s

/-- accounting of one cursor object: what was given back never exceeds what was taken, one partition set per cursor -/
def CurOKf (f : Nat → CurI) : Prop := ∀ c, (f c).closed ≤ (f c).acquired ∧ (f c).acquired ≤ 1
def CurOK (s : St) : Prop := CurOKf s.cursors

theorem curOK_init (m : Nat) (i b : Int) : CurOK (init m i b) := by
  intro c; simp [init]

theorem curOK_setCur {s : St} {c : Nat} {i : CurI} (h : CurOK s) (h1 : i.closed ≤ i.acquired) (h2 : i.acquired ≤ 1) :
    CurOK (setCur s c i) := by
  intro x
  by_cases hx : x = c
  · simp [setCur, hx, h1, h2]
  · simpa [setCur, hx] using h x

theorem curOK_closeCur {s : St} (c : Nat) (h : CurOK s) : CurOK (closeCur s c) := by
  unfold closeCur
  exact curOK_setCur h (by simp) (by simpa using (h c).2)

theorem curOK_congr {s s' : St} (e : s'.cursors = s.cursors) (h : CurOK s) : CurOK s' := by
  unfold CurOK; rw [e]; exact h

theorem curOK_lookup {s : St} (id q p : Nat) (ok : Bool) (h : CurOK s) : CurOK (lookup s id q p ok).1 := by
  unfold lookup
  simp only []
  split
  · split
    · split
      · exact h
      · split
        · exact curOK_congr rfl h
        · rename_i c _
          split
          · exact h
          · refine curOK_congr (s := setCur s c _) rfl ?_
            exact curOK_setCur h (by simpa using (h c).1) (by simpa using (h c).2)
    · exact h
  · exact h

theorem curOK_create {s : St} (id q p : Nat) (k : CreateKind) (c n : Nat) (h : CurOK s) :
    CurOK (create s id q p k c n).1 := by
  unfold create
  cases k
  · exact curOK_setCur h (by simp) (by simp)
  · exact curOK_setCur h (by simp) (by simp)
  · exact h

theorem curOK_insert {s : St} (chk : Bool) (c : Nat) (h : CurOK s) : CurOK (insert chk s c).1 := by
  unfold insert
  simp only []
  split
  · exact curOK_closeCur _ (curOK_setCur h (by simpa using (h c).1) (by simpa using (h c).2))
  · split <;> exact curOK_congr rfl h

theorem curOK_getOrCreate {s : St} (chk : Bool) (id q p : Nat) (ok : Bool) (k : CreateKind) (cache : Bool) (c n : Nat)
    (h : CurOK s) : CurOK (getOrCreate chk s id q p ok k cache c n).1 := by
  have hl := curOK_lookup id q p ok h
  unfold getOrCreate
  split
  · rename_i e; rw [e] at hl; exact hl
  · rename_i e; rw [e] at hl; exact hl
  · rename_i e; rw [e] at hl; exact hl
  · rename_i s1 r id' _ _ _ e
    rw [e] at hl
    have hc := curOK_create id' q p k c n hl
    split
    · rename_i e2; rw [e2] at hc; exact hc
    · rename_i e2; rw [e2] at hc; exact hc
    · rename_i s2 c2 e2
      rw [e2] at hc
      split
      · exact hc
      · have hi := curOK_insert chk c2 hc
        split
        · rename_i e3; rw [e3] at hi; exact hi
        · rename_i e3; rw [e3] at hi; exact hi

theorem curOK_release {s : St} (byId : Bool) (c cp : Nat) (h : CurOK s) : CurOK (release byId s c cp).1 := by
  have h1 : CurOK (setCur s c { s.cursors c with held := false, pos := cp }) :=
    curOK_setCur h (by simpa using (h c).1) (by simpa using (h c).2)
  unfold release
  simp only []
  split
  · exact curOK_closeCur _ h1
  · split
    · exact curOK_closeCur _ h1
    · split
      · exact curOK_congr rfl h1
      · exact curOK_congr rfl h1

theorem curOK_evict {s : St} (e : Nat) (r : Bool) (h : CurOK s) : CurOK (evict s e r) := by
  unfold evict
  simp only []
  split
  · exact curOK_congr rfl h
  · rename_i c _
    repeat' split
    all_goals first | exact curOK_congr rfl h | exact curOK_congr rfl (curOK_closeCur c h)

theorem curOK_sweepBySizeLoop (fuel : Nat) : ∀ {s : St}, CurOK s → CurOK (sweepBySizeLoop fuel s) := by
  induction fuel with
  | zero => intro s h; exact h
  | succ n ih =>
    intro s h
    unfold sweepBySizeLoop
    split
    · split
      · exact curOK_congr rfl h
      · rename_i e _
        have he := curOK_evict e false h
        simp only []
        split
        · exact he
        · exact ih he
    · exact h

theorem curOK_sweepByTimeLoop (cnt : Nat) : ∀ {s : St} (e : Nat), CurOK s → CurOK (sweepByTimeLoop cnt s e) := by
  induction cnt with
  | zero => intro s e h; exact h
  | succ n ih =>
    intro s e h
    unfold sweepByTimeLoop
    simp only []
    split
    · have he := curOK_evict (prev s.ring e) true h
      split
      · exact he
      · exact ih _ he
    · split
      · exact h
      · exact ih _ h

theorem curOK_step (chk byId : Bool) {s : St} (l : Label) (h : CurOK s) : CurOK (stepL chk byId s l) := by
  cases l with
  | lookup id q p ok => exact curOK_lookup id q p ok h
  | create id q p k c n => exact curOK_create id q p k c n h
  | insert c => exact curOK_insert chk c h
  | get id q p ok k cache c n => exact curOK_getOrCreate chk id q p ok k cache c n h
  | release c cp => exact curOK_release byId c cp h
  | age d => exact curOK_congr rfl h
  | sweepT =>
    show CurOK (sweepByTime s)
    unfold sweepByTime
    split
    · exact h
    · exact curOK_sweepByTimeLoop _ _ h
  | sweepS => exact curOK_sweepBySizeLoop _ h

theorem curOK_run (chk byId : Bool) (tr : List Label) : ∀ {s : St}, CurOK s → CurOK (run chk byId s tr) := by
  induction tr with
  | nil => intro s h; exact h
  | cons l tr ih => intro s h; exact ih (curOK_step chk byId l h)

end Logrange.Provider
