import Logrange.Model.LineReader
/-! Lemmas about the line reader model: byte conservation, line shape, fuel sufficiency. -/
namespace Logrange.LineReader

/-! ## splitNL -/

theorem splitNL_some : ∀ (b l r : Bytes), splitNL b = some (l, r) →
    l ++ r = b ∧ l.getLast? = some 10 ∧ (10 : UInt8) ∉ l.dropLast
  | [], l, r, h => by simp [splitNL] at h
  | x :: xs, l, r, h => by
    simp only [splitNL] at h
    by_cases hx : x = 10
    · simp only [hx, if_true, Option.some.injEq, Prod.mk.injEq] at h
      obtain ⟨h1, h2⟩ := h
      subst h1; subst h2; subst hx
      simp
    · simp only [hx, if_false] at h
      cases hs : splitNL xs with
      | none => simp [hs] at h
      | some lr =>
        obtain ⟨l', r'⟩ := lr
        simp only [hs, Option.some.injEq, Prod.mk.injEq] at h
        obtain ⟨h1, h2⟩ := h
        subst h1; subst h2
        obtain ⟨a, b, c⟩ := splitNL_some xs l' r' hs
        have hne : l' ≠ [] := by intro e; subst e; simp at b
        refine ⟨by simp [a], ?_, ?_⟩
        · rw [List.getLast?_cons_of_ne_nil hne]; exact b
        · cases l' with
          | nil => exact absurd rfl hne
          | cons y ys =>
            simp only [List.dropLast_cons_cons, List.mem_cons, not_or]
            exact ⟨fun e => hx e.symm, c⟩

theorem splitNL_none : ∀ (b : Bytes), splitNL b = none → (10 : UInt8) ∉ b
  | [], _ => by simp
  | x :: xs, h => by
    simp only [splitNL] at h
    by_cases hx : x = 10
    · simp [hx] at h
    · simp only [hx, if_false] at h
      cases hs : splitNL xs with
      | none =>
        have := splitNL_none xs hs
        simp only [List.mem_cons, not_or]
        exact ⟨fun e => hx e.symm, this⟩
      | some lr => simp [hs] at h

/-! ## readSlice -/

/-- **byte conservation of one `ReadSlice`**: what it hands out, what stays buffered and what the source still
holds are together exactly what was buffered and held before. -/
theorem readSlice_conserve (B : Nat) : ∀ (fuel : Nat) (s : St),
    (readSlice B fuel s).2.out ++ (readSlice B fuel s).1.buf ++ flat (readSlice B fuel s).1.pieces
      = s.buf ++ flat s.pieces
  | 0, s => by simp [readSlice, RS.out]
  | fuel+1, s => by
    simp only [readSlice]
    cases hs : splitNL s.buf with
    | some lr =>
      obtain ⟨l, r⟩ := lr
      have := (splitNL_some _ _ _ hs).1
      simp [RS.out, this]
    | none =>
      simp only []
      by_cases hB : B ≤ s.buf.length
      · simp [hB, RS.out]
      · simp only [hB, if_false]
        cases hp : s.pieces with
        | nil => simp [RS.out, flat]
        | cons p ps =>
          cases p with
          | eof => simp [RS.out, flat]
          | cancel =>
            simp only []
            rw [readSlice_conserve B fuel]; simp [flat]
          | data d =>
            simp only []
            by_cases hd : d.length ≤ B - s.buf.length
            · simp only [hd, if_true]
              rw [readSlice_conserve B fuel]; simp [flat]
            · simp only [hd, if_false]
              rw [readSlice_conserve B fuel]
              simp [flat]
              rw [← List.append_assoc (List.take _ d), List.take_append_drop]

/-- shape of what one `ReadSlice` hands out -/
def RS.shape (B : Nat) : RS → Prop
  | .line l => l.getLast? = some 10 ∧ (10 : UInt8) ∉ l.dropLast
  | .full l => B ≤ l.length ∧ (10 : UInt8) ∉ l
  | .eof l => (10 : UInt8) ∉ l
  | .oof => True

theorem readSlice_shape (B : Nat) : ∀ (fuel : Nat) (s : St), ((readSlice B fuel s).2).shape B
  | 0, s => by simp [readSlice, RS.shape]
  | fuel+1, s => by
    simp only [readSlice]
    cases hs : splitNL s.buf with
    | some lr =>
      obtain ⟨l, r⟩ := lr
      have := splitNL_some _ _ _ hs
      exact ⟨this.2.1, this.2.2⟩
    | none =>
      have hn := splitNL_none _ hs
      simp only []
      by_cases hB : B ≤ s.buf.length
      · simp only [hB, if_true]; exact ⟨hB, hn⟩
      · simp only [hB, if_false]
        cases hp : s.pieces with
        | nil => exact hn
        | cons p ps =>
          cases p with
          | eof => exact hn
          | cancel => exact readSlice_shape B fuel _
          | data d =>
            simp only []
            by_cases hd : d.length ≤ B - s.buf.length
            · simp only [hd, if_true]; exact readSlice_shape B fuel _
            · simp only [hd, if_false]; exact readSlice_shape B fuel _

/-- after an EOF result the buffer is empty (bufio hands out everything it had) -/
theorem readSlice_eof_buf (B : Nat) : ∀ (fuel : Nat) (s : St) (l : Bytes),
    (readSlice B fuel s).2 = .eof l → (readSlice B fuel s).1.buf = []
  | 0, s, l, h => by simp [readSlice] at h
  | fuel+1, s, l, h => by
    simp only [readSlice] at h ⊢
    cases hs : splitNL s.buf with
    | some lr => simp [hs] at h
    | none =>
      simp only [hs] at h ⊢
      by_cases hB : B ≤ s.buf.length
      · simp [hB] at h
      · simp only [hB, if_false] at h ⊢
        cases hp : s.pieces with
        | nil => simp
        | cons p ps =>
          simp only [hp] at h
          cases p with
          | eof => simp
          | cancel => exact readSlice_eof_buf B fuel _ l h
          | data d =>
            simp only [] at h ⊢
            by_cases hd : d.length ≤ B - s.buf.length
            · simp only [hd, if_true] at h ⊢; exact readSlice_eof_buf B fuel _ l h
            · simp only [hd, if_false] at h ⊢; exact readSlice_eof_buf B fuel _ l h

/-- the fuel `sliceFuel` is sufficient: `ReadSlice` always answers -/
theorem readSlice_fuel (B : Nat) : ∀ (fuel : Nat) (s : St), measure s.pieces < fuel →
    (readSlice B fuel s).2 ≠ .oof
  | 0, s, h => by omega
  | fuel+1, s, h => by
    simp only [readSlice]
    cases hs : splitNL s.buf with
    | some lr => simp
    | none =>
      simp only []
      by_cases hB : B ≤ s.buf.length
      · simp [hB]
      · simp only [hB, if_false]
        cases hp : s.pieces with
        | nil => simp
        | cons p ps =>
          rw [hp] at h
          cases p with
          | eof => simp
          | cancel =>
            apply readSlice_fuel B fuel
            simp only [measure] at h ⊢; omega
          | data d =>
            simp only []
            by_cases hd : d.length ≤ B - s.buf.length
            · simp only [hd, if_true]
              apply readSlice_fuel B fuel
              simp only [measure] at h ⊢; omega
            · simp only [hd, if_false]
              apply readSlice_fuel B fuel
              simp only [measure, List.length_drop] at h ⊢; omega

/-- `ReadSlice` does not touch the reader's pending partial line -/
theorem readSlice_pend (B : Nat) : ∀ (fuel : Nat) (s : St), (readSlice B fuel s).1.pend = s.pend
  | 0, s => by simp [readSlice]
  | fuel+1, s => by
    simp only [readSlice]
    cases hs : splitNL s.buf with
    | some lr => rfl
    | none =>
      simp only []
      by_cases hB : B ≤ s.buf.length
      · simp [hB]
      · simp only [hB, if_false]
        cases hp : s.pieces with
        | nil => rfl
        | cons p ps =>
          cases p with
          | eof => rfl
          | cancel => simp only []; rw [readSlice_pend B fuel]
          | data d =>
            simp only []
            by_cases hd : d.length ≤ B - s.buf.length
            · simp only [hd, if_true]; rw [readSlice_pend B fuel]
            · simp only [hd, if_false]; rw [readSlice_pend B fuel]

/-! ## readLine -/

/-- **byte conservation of `readLine`**: what the call hands out, the pending partial line, bufio's buffer and
what the source still holds are together exactly what they were before the call. -/
theorem readLine_conserve (B : Nat) (s : St) :
    (readLine B s).2.out ++ (readLine B s).1.pend ++ (readLine B s).1.buf ++ flat (readLine B s).1.pieces
      = s.pend ++ s.buf ++ flat s.pieces := by
  unfold readLine
  by_cases hc : s.cancelled = true
  · simp [hc, RL.out]
  · simp only [hc, Bool.false_eq_true, if_false]
    have hcons := readSlice_conserve B (sliceFuel s) s
    have hpend := readSlice_pend B (sliceFuel s) s
    cases hr : readSlice B (sliceFuel s) s with
    | mk s' r =>
      rw [hr] at hcons hpend
      simp only [] at hcons hpend
      cases r with
      | line l =>
        simp only [RL.out, RS.out] at hcons ⊢
        simp only [List.append_assoc, List.nil_append, List.append_nil] at hcons ⊢
        rw [hcons]
      | full l =>
        simp only [RL.out, RS.out] at hcons ⊢
        simp only [List.append_assoc, List.nil_append, List.append_nil] at hcons ⊢
        rw [hcons]
      | eof l =>
        simp only [RL.out, RS.out] at hcons ⊢
        simp only [List.append_assoc, List.nil_append, List.append_nil] at hcons ⊢
        rw [hcons]
      | oof =>
        simp only [RL.out, RS.out] at hcons ⊢
        simp only [List.append_assoc, List.nil_append, List.append_nil] at hcons ⊢
        rw [hcons, hpend]

/-- shape of a returned line: it ends with the newline, or it is at least one buffer long (a split, nothing
dropped); and no newline occurs before its last byte (lines are cut at the *first* newline) -/
def lineOk (B : Nat) (l : Bytes) : Prop :=
  (l.getLast? = some 10 ∨ B ≤ l.length) ∧ (10 : UInt8) ∉ l.dropLast

/-- the pending partial line holds no newline -/
def PendOk (s : St) : Prop := (10 : UInt8) ∉ s.pend

theorem readLine_pendOk (B : Nat) (s : St) (h : PendOk s) : PendOk (readLine B s).1 := by
  unfold readLine
  by_cases hc : s.cancelled = true
  · simpa [hc] using h
  · simp only [hc, Bool.false_eq_true, if_false]
    have hsh := readSlice_shape B (sliceFuel s) s
    have hpend := readSlice_pend B (sliceFuel s) s
    cases hr : readSlice B (sliceFuel s) s with
    | mk s' r =>
      rw [hr] at hsh hpend
      simp only [] at hsh hpend
      cases r with
      | line l => simp [PendOk]
      | full l => simp [PendOk]
      | eof l =>
        simp only [PendOk, List.mem_append, not_or]
        exact ⟨h, hsh⟩
      | oof => simp only [PendOk]; rw [hpend]; exact h

theorem readLine_shape (B : Nat) (s : St) (h : PendOk s) (l : Bytes) (hl : (readLine B s).2 = .line l) :
    lineOk B l := by
  unfold readLine at hl
  by_cases hc : s.cancelled = true
  · simp [hc] at hl
  · simp only [hc, Bool.false_eq_true, if_false] at hl
    have hsh := readSlice_shape B (sliceFuel s) s
    cases hr : readSlice B (sliceFuel s) s with
    | mk s' r =>
      rw [hr] at hsh hl
      simp only [] at hsh hl
      cases r with
      | line l0 =>
        simp only [RL.line.injEq] at hl; subst hl
        obtain ⟨h1, h2⟩ := hsh
        have hne : l0 ≠ [] := by intro e; subst e; simp at h1
        refine ⟨Or.inl ?_, ?_⟩
        · rw [List.getLast?_append, h1]; simp
        · rw [List.dropLast_append_of_ne_nil hne]
          simp only [List.mem_append, not_or]; exact ⟨h, h2⟩
      | full l0 =>
        simp only [RL.line.injEq] at hl; subst hl
        obtain ⟨h1, h2⟩ := hsh
        refine ⟨Or.inr (by simp; omega), ?_⟩
        intro hm
        have : (10 : UInt8) ∈ s.pend ++ l0 := List.dropLast_subset _ hm
        simp only [List.mem_append] at this
        rcases this with h' | h'
        · exact h h'
        · exact h2 h'
      | eof l0 => simp at hl
      | oof => simp at hl

/-- with nothing buffered and the source reporting EOF for now, one call answers EOF at once and keeps the
pending partial line as it is (the worker's "one more poll") -/
theorem readLine_at_source_eof (B : Nat) (s : St) (ps : List Piece) (hc : s.cancelled = false) (hb : s.buf = [])
    (hB : 0 < B) (hp : s.pieces = .eof :: ps) :
    readLine B s = ({ s with pieces := ps, buf := [], pend := s.pend }, .eof) := by
  unfold readLine
  simp [hc, sliceFuel, hp, measure, readSlice, hb, splitNL, Nat.not_le.mpr hB]

/-! ## several calls -/

theorem readLines_conserve (B : Nat) : ∀ (n : Nat) (s : St),
    (readLines B n s).1.flatten ++ (readLines B n s).2.pend ++ (readLines B n s).2.buf
        ++ flat (readLines B n s).2.pieces
      = s.pend ++ s.buf ++ flat s.pieces
  | 0, s => by simp [readLines]
  | n+1, s => by
    simp only [readLines]
    have hc := readLine_conserve B s
    cases hr : readLine B s with
    | mk s' r =>
      rw [hr] at hc
      simp only [] at hc
      have ih := readLines_conserve B n s'
      cases r with
      | line l =>
        simp only [List.flatten_cons, RL.out] at hc ⊢
        rw [← hc]
        simp only [List.append_assoc] at ih ⊢
        rw [ih]
      | eof => simp only [RL.out, List.nil_append] at hc ⊢; rw [ih, hc]
      | closed => simp only [RL.out, List.nil_append] at hc ⊢; rw [ih, hc]
      | oof => simp only [RL.out, List.nil_append] at hc ⊢; rw [ih, hc]

theorem readLines_shape (B : Nat) : ∀ (n : Nat) (s : St), PendOk s →
    ∀ l ∈ (readLines B n s).1, lineOk B l
  | 0, s, _ => by simp [readLines]
  | n+1, s, hp => by
    intro l hl
    simp only [readLines] at hl
    have hp' := readLine_pendOk B s hp
    cases hr : readLine B s with
    | mk s' r =>
      rw [hr] at hl hp'
      cases r with
      | line l0 =>
        simp only [List.mem_cons] at hl
        rcases hl with hl | hl
        · subst hl; exact readLine_shape B s hp l (by rw [hr])
        · exact readLines_shape B n s' hp' l hl
      | eof => exact readLines_shape B n s' hp' l hl
      | closed => exact readLines_shape B n s' hp' l hl
      | oof => exact readLines_shape B n s' hp' l hl

/-! ## parser offsets -/

theorem nextRecord_lr (B : Nat) (p : Parser) : (nextRecord B p).1.lr = (readLine B p.lr).1 := by
  unfold nextRecord
  cases hl : readLine B p.lr with
  | mk s' rl => cases rl <;> rfl

theorem nextRecord_pos (B : Nat) (p : Parser) :
    (nextRecord B p).1.pos = p.pos + (match (nextRecord B p).2 with | .record l => l.length | _ => 0) := by
  unfold nextRecord
  cases hl : readLine B p.lr with
  | mk s' rl => cases rl <;> simp

theorem nextRecords_pos (B : Nat) : ∀ (n : Nat) (p : Parser),
    (nextRecords B n p).2.pos = p.pos + (nextRecords B n p).1.flatten.length
  | 0, p => by simp [nextRecords]
  | n+1, p => by
    simp only [nextRecords]
    have hpos := nextRecord_pos B p
    cases hr : nextRecord B p with
    | mk p' r =>
      rw [hr] at hpos
      simp only [] at hpos
      cases r with
      | record l =>
        simp only [List.flatten_cons, List.length_append]
        rw [nextRecords_pos B n p']; simp only [] at hpos; omega
      | eof => simp only []; rw [nextRecords_pos B n p']; simp only [] at hpos; omega
      | err => simp only []; rw [nextRecords_pos B n p']; simp only [] at hpos; omega

/-- the records a parser returns are exactly the lines its reader returns -/
theorem nextRecords_lines (B : Nat) : ∀ (n : Nat) (p : Parser),
    (nextRecords B n p).1 = (readLines B n p.lr).1 ∧ (nextRecords B n p).2.lr = (readLines B n p.lr).2
  | 0, p => by simp [nextRecords, readLines]
  | n+1, p => by
    simp only [nextRecords, readLines, nextRecord]
    cases hl : readLine B p.lr with
    | mk s' rl =>
      cases rl with
      | line l =>
        simp only []
        have := nextRecords_lines B n { lr := s', pos := p.pos + l.length }
        simp only [] at this
        exact ⟨by rw [this.1], this.2⟩
      | eof => simp only []; exact nextRecords_lines B n { p with lr := s' }
      | closed => simp only []; exact nextRecords_lines B n { p with lr := s' }
      | oof => simp only []; exact nextRecords_lines B n { p with lr := s' }

end Logrange.LineReader
