import Logrange.Model.LineReader
/-! Lemmas about the line reader model: byte conservation, line shape, fuel sufficiency. -/
namespace Logrange.LineReader

/-! ## splitNL -/

theorem splitNL_some : ∀ (b l r : Bytes), splitNL b = some (l, r) →
    l ++ r = b ∧ l.getLast? = some 10 ∧ (10 : UInt8) ∉ l.dropLast
  | [], l, r, h => by simp [splitNL] at h
  | x :: xs, l, r, h => by
    simp only [splitNL] at h
    by_cases hx : x = 10
    · simp only [hx, if_true, Option.some.injEq, Prod.mk.injEq] at h
      obtain ⟨h1, h2⟩ := h
      subst h1; subst h2; subst hx
      simp
    · simp only [hx, if_false] at h
      cases hs : splitNL xs with
      | none => simp [hs] at h
      | some lr =>
        obtain ⟨l', r'⟩ := lr
        simp only [hs, Option.some.injEq, Prod.mk.injEq] at h
        obtain ⟨h1, h2⟩ := h
        subst h1; subst h2
        obtain ⟨a, b, c⟩ := splitNL_some xs l' r' hs
        have hne : l' ≠ [] := by intro e; subst e; simp at b
        refine ⟨by simp [a], ?_, ?_⟩
        · rw [List.getLast?_cons_of_ne_nil hne]; exact b
        · cases l' with
          | nil => exact absurd rfl hne
          | cons y ys =>
            simp only [List.dropLast_cons_cons, List.mem_cons, not_or]
            exact ⟨fun e => hx e.symm, c⟩

theorem splitNL_none : ∀ (b : Bytes), splitNL b = none → (10 : UInt8) ∉ b
  | [], _ => by simp
  | x :: xs, h => by
    simp only [splitNL] at h
    by_cases hx : x = 10
    · simp [hx] at h
    · simp only [hx, if_false] at h
      cases hs : splitNL xs with
      | none =>
        have := splitNL_none xs hs
        simp only [List.mem_cons, not_or]
        exact ⟨fun e => hx e.symm, this⟩
      | some lr => simp [hs] at h

/-! ## readSlice -/

/-- **byte conservation of one `ReadSlice`**: what it hands out, what stays buffered and what the source still
holds are together exactly what was buffered and held before. -/
theorem readSlice_conserve (B : Nat) : ∀ (fuel : Nat) (s : St),
    (readSlice B fuel s).2.out ++ (readSlice B fuel s).1.buf ++ flat (readSlice B fuel s).1.pieces
      = s.buf ++ flat s.pieces
  | 0, s => by simp [readSlice, RS.out]
  | fuel+1, s => by
    simp only [readSlice]
    cases hs : splitNL s.buf with
    | some lr =>
      obtain ⟨l, r⟩ := lr
      have := (splitNL_some _ _ _ hs).1
      simp [RS.out, this]
    | none =>
      simp only []
      by_cases hB : B ≤ s.buf.length
      · simp [hB, RS.out]
      · simp only [hB, if_false]
        cases hp : s.pieces with
        | nil => simp [RS.out, flat]
        | cons p ps =>
          cases p with
          | eof => simp [RS.out, flat]
          | cancel =>
            simp only []
            rw [readSlice_conserve B fuel]; simp [flat]
          | data d =>
            simp only []
            by_cases hd : d.length ≤ B - s.buf.length
            · simp only [hd, if_true]
              rw [readSlice_conserve B fuel]; simp [flat]
            · simp only [hd, if_false]
              rw [readSlice_conserve B fuel]
              simp [flat]
              rw [← List.append_assoc (List.take _ d), List.take_append_drop]

/-- shape of what one `ReadSlice` hands out -/
def RS.shape (B : Nat) : RS → Prop
  | .line l => l.getLast? = some 10 ∧ (10 : UInt8) ∉ l.dropLast
  | .full l => B ≤ l.length ∧ (10 : UInt8) ∉ l
  | .eof l => (10 : UInt8) ∉ l
  | .oof => True

theorem readSlice_shape (B : Nat) : ∀ (fuel : Nat) (s : St), ((readSlice B fuel s).2).shape B
  | 0, s => by simp [readSlice, RS.shape]
  | fuel+1, s => by
    simp only [readSlice]
    cases hs : splitNL s.buf with
    | some lr =>
      obtain ⟨l, r⟩ := lr
      have := splitNL_some _ _ _ hs
      exact ⟨this.2.1, this.2.2⟩
    | none =>
      have hn := splitNL_none _ hs
      simp only []
      by_cases hB : B ≤ s.buf.length
      · simp only [hB, if_true]; exact ⟨hB, hn⟩
      · simp only [hB, if_false]
        cases hp : s.pieces with
        | nil => exact hn
        | cons p ps =>
          cases p with
          | eof => exact hn
          | cancel => exact readSlice_shape B fuel _
          | data d =>
            simp only []
            by_cases hd : d.length ≤ B - s.buf.length
            · simp only [hd, if_true]; exact readSlice_shape B fuel _
            · simp only [hd, if_false]; exact readSlice_shape B fuel _

/-- after an EOF result the buffer is empty (bufio hands out everything it had) -/
theorem readSlice_eof_buf (B : Nat) : ∀ (fuel : Nat) (s : St) (l : Bytes),
    (readSlice B fuel s).2 = .eof l → (readSlice B fuel s).1.buf = []
  | 0, s, l, h => by simp [readSlice] at h
  | fuel+1, s, l, h => by
    simp only [readSlice] at h ⊢
    cases hs : splitNL s.buf with
    | some lr => simp [hs] at h
    | none =>
      simp only [hs] at h ⊢
      by_cases hB : B ≤ s.buf.length
      · simp [hB] at h
      · simp only [hB, if_false] at h ⊢
        cases hp : s.pieces with
        | nil => simp
        | cons p ps =>
          simp only [hp] at h
          cases p with
          | eof => simp
          | cancel => exact readSlice_eof_buf B fuel _ l h
          | data d =>
            simp only [] at h ⊢
            by_cases hd : d.length ≤ B - s.buf.length
            · simp only [hd, if_true] at h ⊢; exact readSlice_eof_buf B fuel _ l h
            · simp only [hd, if_false] at h ⊢; exact readSlice_eof_buf B fuel _ l h

/-- the fuel `sliceFuel` is sufficient: `ReadSlice` always answers -/
theorem readSlice_fuel (B : Nat) : ∀ (fuel : Nat) (s : St), measure s.pieces < fuel →
    (readSlice B fuel s).2 ≠ .oof
  | 0, s, h => by omega
  | fuel+1, s, h => by
    simp only [readSlice]
    cases hs : splitNL s.buf with
    | some lr => simp
    | none =>
      simp only []
      by_cases hB : B ≤ s.buf.length
      · simp [hB]
      · simp only [hB, if_false]
        cases hp : s.pieces with
        | nil => simp
        | cons p ps =>
          rw [hp] at h
          cases p with
          | eof => simp
          | cancel =>
            apply readSlice_fuel B fuel
            simp only [measure] at h ⊢; omega
          | data d =>
            simp only []
            by_cases hd : d.length ≤ B - s.buf.length
            · simp only [hd, if_true]
              apply readSlice_fuel B fuel
              simp only [measure] at h ⊢; omega
            · simp only [hd, if_false]
              apply readSlice_fuel B fuel
              simp only [measure, List.length_drop] at h ⊢; omega

/-! ## readLine -/

def RL.out : RL → Bytes
  | .line l => l
  | .eof => []
  | .closed p => p
  | .oof p => p

/-- **byte conservation of `readLine`** (with its accumulated partial line `acc`) -/
theorem readLineGo_conserve (B : Nat) : ∀ (fuel : Nat) (s : St) (acc : Bytes),
    (readLineGo B fuel s acc).2.out ++ (readLineGo B fuel s acc).1.buf ++ flat (readLineGo B fuel s acc).1.pieces
      = acc ++ (s.buf ++ flat s.pieces)
  | 0, s, acc => by simp [readLineGo, RL.out]
  | fuel+1, s, acc => by
    simp only [readLineGo]
    by_cases hc : s.cancelled = true
    · simp [hc, RL.out]
    · simp only [hc, Bool.false_eq_true, if_false]
      have hcons := readSlice_conserve B (sliceFuel s) s
      cases hr : readSlice B (sliceFuel s) s with
      | mk s' r =>
        rw [hr] at hcons
        simp only [] at hcons
        cases r with
        | line l =>
          simp only [RL.out]; rw [← hcons]; simp [RS.out]
        | full l =>
          simp only [RL.out]; rw [← hcons]; simp [RS.out]
        | eof l =>
          simp only []
          by_cases he : (acc ++ l).isEmpty = true
          · simp only [he, if_true, RL.out]
            rw [← hcons]
            have : acc = [] ∧ l = [] := by simpa using he
            simp [RS.out, this.1, this.2]
          · simp only [he, Bool.false_eq_true, if_false]
            rw [readLineGo_conserve B fuel s' (acc ++ l), ← hcons]
            simp [RS.out]
        | oof =>
          simp only [RL.out]; rw [← hcons]; simp [RS.out]

/-- shape of a returned line: it ends with the newline, or it is at least one buffer long (a split, nothing
dropped); and no newline occurs before its last byte (lines are cut at the *first* newline) -/
def lineOk (B : Nat) (l : Bytes) : Prop :=
  (l.getLast? = some 10 ∨ B ≤ l.length) ∧ (10 : UInt8) ∉ l.dropLast

theorem dropLast_append_of_ne_nil (a l : Bytes) (h : l ≠ []) : (a ++ l).dropLast = a ++ l.dropLast := by
  exact List.dropLast_append_of_ne_nil h

theorem readLineGo_shape (B : Nat) : ∀ (fuel : Nat) (s : St) (acc : Bytes) (l : Bytes), (10 : UInt8) ∉ acc →
    (readLineGo B fuel s acc).2 = .line l → lineOk B l
  | 0, s, acc, l, _, h => by simp [readLineGo] at h
  | fuel+1, s, acc, l, hacc, h => by
    simp only [readLineGo] at h
    by_cases hc : s.cancelled = true
    · simp [hc] at h
    · simp only [hc, Bool.false_eq_true, if_false] at h
      have hsh := readSlice_shape B (sliceFuel s) s
      cases hr : readSlice B (sliceFuel s) s with
      | mk s' r =>
        rw [hr] at hsh h
        simp only [] at hsh h
        cases r with
        | line l0 =>
          simp only [RL.line.injEq] at h; subst h
          obtain ⟨h1, h2⟩ := hsh
          have hne : l0 ≠ [] := by intro e; subst e; simp at h1
          refine ⟨Or.inl ?_, ?_⟩
          · rw [List.getLast?_append, h1]; simp
          · rw [List.dropLast_append_of_ne_nil hne]
            simp only [List.mem_append, not_or]; exact ⟨hacc, h2⟩
        | full l0 =>
          simp only [RL.line.injEq] at h; subst h
          obtain ⟨h1, h2⟩ := hsh
          refine ⟨Or.inr (by simp; omega), ?_⟩
          intro hm
          have : (10 : UInt8) ∈ acc ++ l0 := List.dropLast_subset _ hm
          simp only [List.mem_append] at this
          rcases this with h | h
          · exact hacc h
          · exact h2 h
        | eof l0 =>
          simp only [] at h
          by_cases he : (acc ++ l0).isEmpty = true
          · simp [he] at h
          · simp only [he, Bool.false_eq_true, if_false] at h
            apply readLineGo_shape B fuel s' (acc ++ l0) l _ h
            simp only [List.mem_append, not_or]; exact ⟨hacc, hsh⟩
        | oof => simp at h

/-! ## several calls -/

theorem readLines_conserve (B : Nat) : ∀ (n : Nat) (s : St),
    (readLines B n s).1.flatten ++ pendingOf (readLines B n s).2.2 ++ (readLines B n s).2.1.buf
        ++ flat (readLines B n s).2.1.pieces
      = s.buf ++ flat s.pieces
  | 0, s => by simp [readLines, pendingOf]
  | n+1, s => by
    simp only [readLines]
    have hc := readLineGo_conserve B (s.pieces.length + 2) s []
    cases hr : readLine B s with
    | mk s' r =>
      unfold readLine at hr
      rw [hr] at hc
      simp only [List.nil_append] at hc
      cases r with
      | line l =>
        simp only [List.flatten_cons]
        have ih := readLines_conserve B n s'
        simp only [RL.out] at hc
        rw [← hc]
        simp only [List.append_assoc] at ih ⊢
        rw [ih]
      | eof => simp only [RL.out] at hc; simp [pendingOf, RL.pending, ← hc]
      | closed p => simp only [RL.out] at hc; simp [pendingOf, RL.pending, ← hc]
      | oof p => simp only [RL.out] at hc; simp [pendingOf, RL.pending, ← hc]

theorem readLines_shape (B : Nat) : ∀ (n : Nat) (s : St) (l : Bytes), l ∈ (readLines B n s).1 → lineOk B l
  | 0, s, l, h => by simp [readLines] at h
  | n+1, s, l, h => by
    simp only [readLines] at h
    cases hr : readLine B s with
    | mk s' r =>
      rw [hr] at h
      cases r with
      | line l0 =>
        simp only [List.mem_cons] at h
        rcases h with h | h
        · subst h
          unfold readLine at hr
          exact readLineGo_shape B _ s [] l (by simp) (by rw [hr])
        · exact readLines_shape B n s' l h
      | eof => simp at h
      | closed p => simp at h
      | oof p => simp at h

/-! ## parser offsets -/

theorem nextRecords_pos (B : Nat) : ∀ (n : Nat) (p : Parser),
    (nextRecords B n p).2.1.pos = p.pos + (nextRecords B n p).1.flatten.length
  | 0, p => by simp [nextRecords]
  | n+1, p => by
    simp only [nextRecords]
    cases hr : nextRecord B p with
    | mk p' r =>
      cases r with
      | record l =>
        simp only [List.flatten_cons, List.length_append]
        rw [nextRecords_pos B n p']
        have : p'.pos = p.pos + l.length := by
          unfold nextRecord at hr
          cases hl : readLine B p.lr with
          | mk s' rl =>
            rw [hl] at hr
            cases rl <;> simp at hr
            obtain ⟨h1, h2⟩ := hr
            subst h2; rw [← h1]
        omega
      | eof =>
        simp
        unfold nextRecord at hr
        cases hl : readLine B p.lr with
        | mk s' rl =>
          rw [hl] at hr
          cases rl <;> simp at hr <;> (try (rw [← hr]))
      | err =>
        simp
        unfold nextRecord at hr
        cases hl : readLine B p.lr with
        | mk s' rl =>
          rw [hl] at hr
          cases rl <;> simp at hr <;> (try (rw [← hr.1])) <;> (try (rw [← hr]))

/-- the records a parser returns are exactly the lines its reader returns -/
theorem nextRecords_lines (B : Nat) : ∀ (n : Nat) (p : Parser),
    (nextRecords B n p).1 = (readLines B n p.lr).1 ∧ (nextRecords B n p).2.1.lr = (readLines B n p.lr).2.1
  | 0, p => by simp [nextRecords, readLines]
  | n+1, p => by
    simp only [nextRecords, readLines, nextRecord]
    cases hl : readLine B p.lr with
    | mk s' rl =>
      cases rl with
      | line l =>
        simp only []
        have := nextRecords_lines B n { lr := s', pos := p.pos + l.length }
        simp only [] at this
        exact ⟨by rw [this.1], this.2⟩
      | eof => simp
      | closed q => simp
      | oof q => simp

end Logrange.LineReader

namespace Logrange.LineReader

/-- while a partial line is pending, `readLine` never reports EOF (it keeps polling until a newline, a full buffer
or the cancellation) -/
theorem readLineGo_pending_never_eof (B : Nat) : ∀ (fuel : Nat) (s : St) (acc : Bytes), acc ≠ [] →
    (readLineGo B fuel s acc).2 ≠ .eof
  | 0, s, acc, _ => by simp [readLineGo]
  | fuel+1, s, acc, h => by
    simp only [readLineGo]
    by_cases hc : s.cancelled = true
    · simp [hc]
    · simp only [hc, Bool.false_eq_true, if_false]
      cases hr : readSlice B (sliceFuel s) s with
      | mk s' r =>
        cases r with
        | line l => simp
        | full l => simp
        | oof => simp
        | eof l =>
          simp only []
          have hne : (acc ++ l).isEmpty = false := by
            cases acc with
            | nil => exact absurd rfl h
            | cons a as => rfl
          simp only [hne, Bool.false_eq_true, if_false]
          exact readLineGo_pending_never_eof B fuel s' (acc ++ l) (by
            intro e; rw [e] at hne; simp at hne)

end Logrange.LineReader
