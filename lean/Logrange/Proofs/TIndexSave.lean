import Logrange.Model.TIndexSave
import Logrange.Proofs.TIndexRun
/-!
# `getOrCreateJournal` with a failing index save: `tmap` and `smap` stay consistent

Under the roll-back discipline of the code (`GoodFacts`) every sequence of critical sections — with any pattern of failed
saves — keeps `tmap` and `smap` on the same source ids, a refused write leaves no trace, an acknowledged write names a
partition registered in both maps, and the `Visit` that skips unregistered descriptors is the plain filter of `TIndexId`.
-/
namespace Logrange.Proofs.TIndexSave
open Go Logrange.KV Logrange.Tags Logrange.TagsEval Logrange.TIndexId Logrange.TIndexSave Logrange.Proofs.TIndexId
  Logrange.Proofs.TIndexRun

/-- `tmap` and `smap` hold the same source ids -/
def SInv (s : StS) : Prop :=
  (∀ e ∈ s.base.tmap, e.2.src ∈ s.smap) ∧ (∀ i ∈ s.smap, ∃ e ∈ s.base.tmap, e.2.src = i)

/-- the roll-back discipline under which a failed save leaves the two maps consistent: the `tmap` entry is removed, and if
`smap` was written before the save that entry is removed too -/
def GoodFacts (F : Facts) : Prop := F.rollbackTmap = true ∧ (F.smapBeforeSave = true → F.rollbackSmap = true)

theorem codeFacts_good : GoodFacts codeFacts := by
  unfold GoodFacts codeFacts
  decide

theorem sinv_init : SInv {} := by
  refine ⟨?_, ?_⟩
  · intro e he; cases he
  · intro i hi; cases hi

/-! ## the base model: an acknowledged id is the id of a stored entry -/

theorem ok_has_entry (s : St) (raw : Bytes) (create : Bool) (i : Nat) (h : (getOrCreate s raw create).2 = .ok i) :
    ∃ e ∈ (getOrCreate s raw create).1.tmap, e.2.src = i := by
  cases h1 : lookup s.tmap raw with
  | some td =>
    have hg : getOrCreate s raw create = (s, .ok td.src) := by unfold getOrCreate; rw [h1]
    rw [hg] at h ⊢
    obtain ⟨e, he, _, hed⟩ := lookup_some h1
    refine ⟨e, he, ?_⟩
    have hi : td.src = i := by simpa using h
    rw [hed, hi]
  | none =>
    cases h2 : parse raw with
    | none =>
      have hg : getOrCreate s raw create = (s, .badTags) := by unfold getOrCreate; simp only [h1, h2]
      rw [hg] at h
      simp at h
    | some tgs =>
      by_cases h3 : tgs.isEmpty = true
      · have hg : getOrCreate s raw create = (s, .empty) := by
          unfold getOrCreate; simp only [h1, h2, h3, if_true]
        rw [hg] at h
        simp at h
      · cases h4 : lookup s.tmap (line tgs) with
        | some td2 =>
          have hg : getOrCreate s raw create = (s, .ok td2.src) := by
            unfold getOrCreate; simp only [h1, h2, h3, h4, Bool.false_eq_true, if_false]
          rw [hg] at h ⊢
          obtain ⟨e, he, _, hed⟩ := lookup_some h4
          refine ⟨e, he, ?_⟩
          have hi : td2.src = i := by simpa using h
          rw [hed, hi]
        | none =>
          cases create with
          | false =>
            have hg : getOrCreate s raw false = (s, .notFound) := by
              unfold getOrCreate
              simp only [h1, h2, h3, h4, Bool.false_eq_true, if_false, Bool.not_false, if_true]
            rw [hg] at h
            simp at h
          | true =>
            have hg : getOrCreate s raw true =
                ({ tmap := (line tgs, ⟨s.next, tgs⟩) :: s.tmap, next := s.next + 1 }, .ok s.next) := by
              unfold getOrCreate
              simp only [h1, h2, h3, h4, Bool.false_eq_true, if_false, Bool.not_true]
            rw [hg] at h ⊢
            have hi : s.next = i := by simpa using h
            exact ⟨_, List.mem_cons_self, hi⟩

/-- `next` tells whether a descriptor was created -/
theorem getOrCreate_next (s : St) (raw : Bytes) (create : Bool) :
    ((getOrCreate s raw create).1 = s ∧ (getOrCreate s raw create).1.next = s.next) ∨
    ((getOrCreate s raw create).1.next = s.next + 1 ∧
      ∃ tgs, (getOrCreate s raw create).1.tmap = (line tgs, ⟨s.next, tgs⟩) :: s.tmap ∧
        (getOrCreate s raw create).2 = .ok s.next) := by
  rcases getOrCreate_cases s raw create with e | ⟨tgs, _, _, _, _, e⟩
  · left; exact ⟨e, by rw [e]⟩
  · right; rw [e]; exact ⟨rfl, tgs, rfl, rfl⟩

theorem getOrCreate_next_iff (s : St) (raw : Bytes) (create : Bool) :
    (getOrCreate s raw create).1.next = s.next ↔ (getOrCreate s raw create).1 = s := by
  constructor
  · intro h
    rcases getOrCreate_next s raw create with ⟨e, _⟩ | ⟨e, _⟩
    · exact e
    · rw [e] at h; omega
  · intro h; rw [h]

/-! ## one critical section with the save outcome -/

theorem getOrCreateS_unfold (F : Facts) (s : StS) (raw : Bytes) (create saveOK : Bool) :
    getOrCreateS F s raw create saveOK =
      if (getOrCreate s.base raw create).1.next = s.base.next then
        (⟨(getOrCreate s.base raw create).1, s.smap⟩, .res (getOrCreate s.base raw create).2)
      else if saveOK then
        (⟨(getOrCreate s.base raw create).1, s.base.next :: s.smap⟩, .res (getOrCreate s.base raw create).2)
      else
        (⟨if F.rollbackTmap then s.base else (getOrCreate s.base raw create).1,
          if F.smapBeforeSave && !F.rollbackSmap then s.base.next :: s.smap else s.smap⟩, .saveFailed) := by
  unfold getOrCreateS
  cases getOrCreate s.base raw create with
  | mk b r => rfl

/-- the three outcomes of a critical section: nothing created; created and saved; created and the save failed -/
theorem getOrCreateS_cases (F : Facts) (s : StS) (raw : Bytes) (create saveOK : Bool) :
    ((getOrCreate s.base raw create).1 = s.base ∧
      getOrCreateS F s raw create saveOK = (s, .res (getOrCreate s.base raw create).2)) ∨
    (∃ tgs, parse raw = some tgs ∧ tgs ≠ [] ∧ lookup s.base.tmap (line tgs) = none ∧
      getOrCreate s.base raw create =
        (⟨(line tgs, ⟨s.base.next, tgs⟩) :: s.base.tmap, s.base.next + 1⟩, .ok s.base.next) ∧
      ((saveOK = true ∧ getOrCreateS F s raw create saveOK =
          (⟨⟨(line tgs, ⟨s.base.next, tgs⟩) :: s.base.tmap, s.base.next + 1⟩, s.base.next :: s.smap⟩,
            .res (.ok s.base.next))) ∨
       (saveOK = false ∧ getOrCreateS F s raw create saveOK =
          (⟨if F.rollbackTmap then s.base else ⟨(line tgs, ⟨s.base.next, tgs⟩) :: s.base.tmap, s.base.next + 1⟩,
            if F.smapBeforeSave && !F.rollbackSmap then s.base.next :: s.smap else s.smap⟩, .saveFailed)))) := by
  rw [getOrCreateS_unfold]
  rcases getOrCreate_cases s.base raw create with e | ⟨tgs, hp, hne, _, hl, e⟩
  · left
    refine ⟨e, ?_⟩
    rw [e, if_pos rfl]
  · right
    refine ⟨tgs, hp, hne, hl, e, ?_⟩
    have hn : ¬ (s.base.next + 1 = s.base.next) := by omega
    cases saveOK with
    | true => left; refine ⟨rfl, ?_⟩; simp only [e, hn, if_false, if_true]
    | false => right; refine ⟨rfl, ?_⟩; simp only [e, hn, if_false, Bool.false_eq_true]

/-- with the good roll-back a failed save restores the state -/
theorem good_rollback (F : Facts) (hF : GoodFacts F) (s : StS) (b : St) (i : Nat) :
    (⟨if F.rollbackTmap then s.base else b,
      if F.smapBeforeSave && !F.rollbackSmap then i :: s.smap else s.smap⟩ : StS) = s := by
  obtain ⟨h1, h2⟩ := hF
  have h3 : (F.smapBeforeSave && !F.rollbackSmap) = false := by
    cases hb : F.smapBeforeSave with
    | false => rfl
    | true => rw [h2 hb]; rfl
  rw [h1, h3]
  rfl

theorem getOrCreateS_base (F : Facts) (s : StS) (raw : Bytes) (create saveOK : Bool) :
    (getOrCreateS F s raw create saveOK).1.base = (getOrCreate s.base raw create).1 ∨
    ((getOrCreateS F s raw create saveOK).2 = .saveFailed ∧ F.rollbackTmap = true ∧
      (getOrCreateS F s raw create saveOK).1.base = s.base)
    ∨ ((getOrCreateS F s raw create saveOK).2 = .saveFailed ∧ F.rollbackTmap = false) := by
  rcases getOrCreateS_cases F s raw create saveOK with ⟨e, hS⟩ | ⟨tgs, _, _, _, e, ⟨_, hS⟩ | ⟨_, hS⟩⟩
  · left; rw [hS, e]
  · left; rw [hS, e]
  · right
    rw [hS]
    cases hb : F.rollbackTmap with
    | true => left; exact ⟨rfl, rfl, rfl⟩
    | false => right; exact ⟨rfl, rfl⟩

theorem sinv_step (F : Facts) (hF : GoodFacts F) (s : StS) (raw : Bytes) (create saveOK : Bool) (h : SInv s) :
    SInv (getOrCreateS F s raw create saveOK).1 := by
  rcases getOrCreateS_cases F s raw create saveOK with ⟨_, hS⟩ | ⟨tgs, _, _, _, _, ⟨_, hS⟩ | ⟨_, hS⟩⟩
  · rw [hS]; exact h
  · rw [hS]
    obtain ⟨h1, h2⟩ := h
    refine ⟨?_, ?_⟩
    · intro x hx
      rcases List.mem_cons.mp hx with hx | hx
      · subst hx; exact List.mem_cons_self
      · exact List.mem_cons_of_mem _ (h1 x hx)
    · intro i hi
      rcases List.mem_cons.mp hi with hi | hi
      · subst hi; exact ⟨_, List.mem_cons_self, rfl⟩
      · obtain ⟨x, hx, hxi⟩ := h2 i hi
        exact ⟨x, List.mem_cons_of_mem _ hx, hxi⟩
  · rw [hS, good_rollback F hF]; exact h

theorem tinv_stepS (F : Facts) (hF : GoodFacts F) (s : StS) (raw : Bytes) (create saveOK : Bool) (h : TInv s.base) :
    TInv (getOrCreateS F s raw create saveOK).1.base := by
  rcases getOrCreateS_cases F s raw create saveOK with ⟨_, hS⟩ | ⟨tgs, _, _, _, e, ⟨_, hS⟩ | ⟨_, hS⟩⟩
  · rw [hS]; exact h
  · have := tinv_step s.base raw create h
    rw [e] at this
    rw [hS]; exact this
  · rw [hS, good_rollback F hF]; exact h

theorem inv_runS_from (F : Facts) (hF : GoodFacts F) (ops : List (Bytes × Bool × Bool)) (s : StS)
    (ht : TInv s.base) (hs : SInv s) : TInv (runS F s ops).base ∧ SInv (runS F s ops) := by
  induction ops generalizing s with
  | nil => exact ⟨ht, hs⟩
  | cons op ops ih =>
    obtain ⟨raw, create, ok⟩ := op
    simp only [runS]
    exact ih _ (tinv_stepS F hF s raw create ok ht) (sinv_step F hF s raw create ok hs)

/-- every sequence, including any pattern of failed saves -/
theorem inv_runS (F : Facts) (hF : GoodFacts F) (ops : List (Bytes × Bool × Bool)) :
    TInv (runS F {} ops).base ∧ SInv (runS F {} ops) :=
  inv_runS_from F hF ops {} tinv_init sinv_init

/-- a failed save changes nothing (with the good roll-back): the refused write leaves no trace -/
theorem save_failed_no_trace (F : Facts) (hF : GoodFacts F) (s : StS) (raw : Bytes) (create saveOK : Bool)
    (h : (getOrCreateS F s raw create saveOK).2 = .saveFailed) :
    (getOrCreateS F s raw create saveOK).1.base = s.base ∧ (getOrCreateS F s raw create saveOK).1.smap = s.smap := by
  rcases getOrCreateS_cases F s raw create saveOK with ⟨_, hS⟩ | ⟨tgs, _, _, _, _, ⟨_, hS⟩ | ⟨_, hS⟩⟩
  · rw [hS] at h; simp at h
  · rw [hS] at h; simp at h
  · rw [hS, good_rollback F hF]; exact ⟨rfl, rfl⟩

/-- an acknowledged call names a partition that is in both maps -/
theorem acknowledged_registered (F : Facts) (hF : GoodFacts F) (s : StS) (h : SInv s) (raw : Bytes)
    (create saveOK : Bool) (i : Nat) (hr : (getOrCreateS F s raw create saveOK).2 = .res (.ok i)) :
    let s' := (getOrCreateS F s raw create saveOK).1
    (∃ e ∈ s'.base.tmap, e.2.src = i) ∧ i ∈ s'.smap := by
  intro s'
  have _ := hF  -- not needed: an acknowledged call never went through the failure path
  rcases getOrCreateS_cases F s raw create saveOK with ⟨e, hS⟩ | ⟨tgs, _, _, _, _, ⟨_, hS⟩ | ⟨_, hS⟩⟩
  · have hs' : s' = s := by show (getOrCreateS F s raw create saveOK).1 = s; rw [hS]
    rw [hS] at hr
    have hr' : (getOrCreate s.base raw create).2 = .ok i := by simpa using hr
    obtain ⟨x, hx, hxi⟩ := ok_has_entry s.base raw create i hr'
    rw [e] at hx
    rw [hs']
    exact ⟨⟨x, hx, hxi⟩, hxi ▸ h.1 x hx⟩
  · have hs' : s' = ⟨⟨(line tgs, ⟨s.base.next, tgs⟩) :: s.base.tmap, s.base.next + 1⟩, s.base.next :: s.smap⟩ := by
      show (getOrCreateS F s raw create saveOK).1 = _; rw [hS]
    rw [hS] at hr
    have hi : s.base.next = i := by simpa using hr
    rw [hs']
    exact ⟨⟨_, List.mem_cons_self, hi⟩, hi ▸ List.mem_cons_self⟩
  · rw [hS] at hr; simp at hr

/-- under `SInv` the `Visit` that skips unregistered descriptors is the plain filter: all the FROM theorems apply -/
theorem visitS_eq_visit (so : StrOps) (s : StS) (h : SInv s) (src : Source) :
    visitS so s src = visit so s.base src := by
  unfold visitS visit
  cases buildSource so src with
  | none => rfl
  | some tef =>
    show some _ = some _
    congr 1
    apply List.filter_congr
    intro d hd
    obtain ⟨e, he, hed⟩ := List.mem_map.mp hd
    have hm : d.src ∈ s.smap := by rw [← hed]; exact h.1 e he
    have hc : s.smap.contains d.src = true := by simpa using hm
    rw [hc, Bool.and_true]

/-- hence every acknowledged partition is selected by an empty FROM -/
theorem acknowledged_selectable (so : StrOps) (F : Facts) (hF : GoodFacts F) (s : StS) (h : SInv s) (raw : Bytes)
    (create saveOK : Bool) (i : Nat) (hr : (getOrCreateS F s raw create saveOK).2 = .res (.ok i)) :
    ∃ ds, visitS so (getOrCreateS F s raw create saveOK).1 .none = some ds ∧ ∃ d ∈ ds, d.src = i := by
  have hs' := sinv_step F hF s raw create saveOK h
  obtain ⟨⟨e, he, hei⟩, _⟩ := acknowledged_registered F hF s h raw create saveOK i hr
  refine ⟨_, ?_, e.2, List.mem_map_of_mem he, hei⟩
  rw [visitS_eq_visit so _ hs', from_empty]

/-! ## the seeded defect: `smap` registered only after a successful save, no roll-back -/

/-- a failed first write, then the retry is acknowledged with an id that is not in `smap`, and the empty FROM misses it -/
theorem cex_half_registered :
    let F : Facts := ⟨false, false, false⟩
    let s1 := (getOrCreateS F {} [97,61,49] true false)
    let s2 := getOrCreateS F s1.1 [97,61,49] true true
    s1.2 = .saveFailed ∧ s2.2 = .res (.ok 0) ∧ s2.1.smap = [] ∧
    (visitS ⟨id, id, fun _ _ => some false⟩ s2.1 .none).map (fun l => l.map (·.src)) = some [] := by
  decide +kernel

end Logrange.Proofs.TIndexSave
