import Logrange.Proofs.ScanWorker
/-! Bounded progress of the scanner worker LTS: the schedule the system follows when the file has stopped growing
and the consumer takes and confirms every event at once (`drain`), and what it reaches. -/
namespace Logrange.ScanWorker
open Logrange.LineReader

theorem run_append (c : Cfg) : ∀ (a b : List L) (s : S), run c s (a ++ b) = run c (run c s a) b
  | [], b, s => rfl
  | l :: ls, b, s => by
    simp only [List.cons_append, run]
    cases step c s l with
    | none => exact run_append c ls b s
    | some s' => exact run_append c ls b s'

/-- The labels of a quiet period: `NextRecord` answers the pending complete lines one by one and then EOF, the
consumer takes every event and confirms it at once, nobody cancels, stops or persists. `cur` = records already
collected in the current batch. One loop iteration per line (4 labels, or 7 when the line completes a batch) and a
last iteration that meets EOF (7 labels when a partial batch is flushed, 5 when there is nothing to send). -/
def drain (k : Nat) : Nat → List Bytes → List L
  | cur, [] =>
    if cur = 0 then [.step, .next .eof, .step, .wake, .step]
    else [.step, .next .eof, .step, .send, .confirm, .setOffset, .step]
  | cur, l :: ls =>
    if cur + 1 = k then [.step, .next (.record l), .step, .send, .confirm, .setOffset, .step] ++ drain k 0 ls
    else [.step, .next (.record l), .step, .step] ++ drain k (cur + 1) ls

/-- the explicit bound: at most 7 labels per pending line plus 7 -/
theorem drain_length (k : Nat) : ∀ (lines : List Bytes) (cur : Nat), (drain k cur lines).length ≤ 7 * lines.length + 7
  | [], cur => by simp only [drain]; split <;> simp
  | l :: ls, cur => by
    simp only [drain]
    split
    · simp only [List.length_append, List.length_cons, List.length_nil]
      have := drain_length k ls 0; omega
    · simp only [List.length_append, List.length_cons, List.length_nil]
      have := drain_length k ls (cur + 1); omega

/-- a quiet loop head -/
structure Quiet (s : S) : Prop where
  pc : s.pc = .top
  nc : s.cancelled = false
  ws : s.wstate = .running

/-- what a quiet period preserves / produces, relative to the state it started in -/
structure Drained (s s' : S) (lines : List Bytes) : Prop where
  quiet : Quiet s'
  recs : s'.recs = []
  confirmed : s'.confirmed = s.confirmed ++ s.recs ++ lines
  pos : s'.pos = s.pos + bytesOf lines
  offset : s'.offset = s'.pos
  start : s'.start = s.start
  dropped : s'.dropped = s.dropped
  readLog : s'.readLog = s.readLog ++ lines

theorem iter_nofull (c : Cfg) (s : S) (l : Bytes) (h1 : s.pc = .top) (h2 : s.cancelled = false)
    (hk : s.recs.length + 1 ≠ c.recsPerEvent) :
    run c s [.step, .next (.record l), .step, .step] =
      { s with pc := .top, recs := s.recs ++ [l], pos := s.pos + l.length, readLog := s.readLog ++ [l] } := by
  simp [run, step, h1, h2, hk]

theorem iter_full (c : Cfg) (s : S) (l : Bytes) (h1 : s.pc = .top) (h2 : s.cancelled = false)
    (hk : s.recs.length + 1 = c.recsPerEvent) :
    run c s [.step, .next (.record l), .step, .send, .confirm, .setOffset, .step] =
      { s with pc := .top, recs := [], pos := s.pos + l.length, offset := s.pos + l.length,
               readLog := s.readLog ++ [l], confirmed := s.confirmed ++ (s.recs ++ [l]),
               ends := s.ends ++ [s.pos + l.length] } := by
  simp [run, step, h1, h2, hk]

theorem iter_eof_empty (c : Cfg) (s : S) (h : Quiet s) (hr : s.recs = []) :
    run c s [.step, .next .eof, .step, .wake, .step] = { s with pc := .top } := by
  obtain ⟨h1, h2, h3⟩ := h
  simp [run, step, h1, h2, h3, hr]

theorem iter_eof_nonempty (c : Cfg) (s : S) (h : Quiet s) (hr : s.recs ≠ []) :
    run c s [.step, .next .eof, .step, .send, .confirm, .setOffset, .step] =
      { s with pc := .top, recs := [], offset := s.pos, confirmed := s.confirmed ++ s.recs,
               ends := s.ends ++ [s.pos] } := by
  obtain ⟨h1, h2, h3⟩ := h
  have : s.recs.isEmpty = false := by cases hs : s.recs with
    | nil => exact absurd hs hr
    | cons a b => rfl
  simp [run, step, h1, h2, h3, this]

/-- **the quiet period drains the pending lines** -/
theorem drain_drains (c : Cfg) (hk : 1 ≤ c.recsPerEvent) : ∀ (lines : List Bytes) (s : S), Quiet s →
    s.recs.length < c.recsPerEvent → s.offset + bytesOf s.recs = s.pos →
    Drained s (run c s (drain c.recsPerEvent s.recs.length lines)) lines
  | [], s, hq, hlt, hoff => by
    simp only [drain]
    by_cases hr : s.recs = []
    · have : s.recs.length = 0 := by simp [hr]
      rw [if_pos this, iter_eof_empty c s hq hr]
      obtain ⟨h1, h2, h3⟩ := hq
      refine ⟨⟨rfl, h2, h3⟩, hr, by simp [hr], by simp, ?_, rfl, rfl, by simp⟩
      simp only []; rw [hr] at hoff; simpa using hoff
    · have : ¬ s.recs.length = 0 := by
        intro h0; exact hr (List.eq_nil_of_length_eq_zero h0)
      rw [if_neg this, iter_eof_nonempty c s hq hr]
      obtain ⟨h1, h2, h3⟩ := hq
      exact ⟨⟨rfl, h2, h3⟩, rfl, by simp, by simp, rfl, rfl, rfl, by simp⟩
  | l :: ls, s, hq, hlt, hoff => by
    simp only [drain]
    by_cases hfull : s.recs.length + 1 = c.recsPerEvent
    · rw [if_pos hfull, run_append, iter_full c s l hq.pc hq.nc hfull]
      obtain ⟨h1, h2, h3⟩ := hq
      have ih := drain_drains c hk ls
        { s with pc := .top, recs := [], pos := s.pos + l.length, offset := s.pos + l.length,
                 readLog := s.readLog ++ [l], confirmed := s.confirmed ++ (s.recs ++ [l]),
                 ends := s.ends ++ [s.pos + l.length] }
        ⟨rfl, h2, h3⟩ (by simp only [List.length_nil]; omega) (by simp)
      simp only [List.length_nil] at ih
      obtain ⟨i1, i2, i3, i4, i5, i6, i7, i8⟩ := ih
      refine ⟨i1, i2, ?_, ?_, i5, i6, i7, ?_⟩
      · rw [i3]; simp [List.append_assoc]
      · rw [i4]; simp [bytesOf, Nat.add_assoc]
      · rw [i8]; simp [List.append_assoc]
    · rw [if_neg hfull, run_append, iter_nofull c s l hq.pc hq.nc hfull]
      obtain ⟨h1, h2, h3⟩ := hq
      have ih := drain_drains c hk ls
        { s with pc := .top, recs := s.recs ++ [l], pos := s.pos + l.length, readLog := s.readLog ++ [l] }
        ⟨rfl, h2, h3⟩ (by simp only [List.length_append, List.length_cons, List.length_nil]; omega)
        (by simp only [bytesOf_append, bytesOf_single]; omega)
      simp only [List.length_append, List.length_cons, List.length_nil, Nat.zero_add] at ih
      obtain ⟨i1, i2, i3, i4, i5, i6, i7, i8⟩ := ih
      refine ⟨i1, i2, ?_, ?_, i5, i6, i7, ?_⟩
      · rw [i3]; simp [List.append_assoc]
      · rw [i4]; simp [bytesOf, Nat.add_assoc]
      · rw [i8]; simp [List.append_assoc]

/-! ## the same quiet period for a worker that was told to run until EOF (its file was rotated or replaced) -/

/-- a loop head of a worker told to run until EOF -/
structure QuietU (s : S) : Prop where
  pc : s.pc = .top
  nc : s.cancelled = false
  ws : s.wstate = .untilEof

/-- the worker has ended through the "EOF reached" rule having shipped the pending lines -/
structure Stopped (s s' : S) (lines : List Bytes) : Prop where
  pc : s'.pc = .done
  byEof : s'.stoppedByEof = true
  ws : s'.wstate = .stopped
  recs : s'.recs = []
  confirmed : s'.confirmed = s.confirmed ++ s.recs ++ lines
  pos : s'.pos = s.pos + bytesOf lines
  offset : s'.offset = s'.pos
  start : s'.start = s.start
  dropped : s'.dropped = s.dropped

theorem iter_eof_empty_u (c : Cfg) (s : S) (h : QuietU s) (hr : s.recs = []) :
    Stopped s (run c s [.step, .next .eof, .step, .wake, .step]) [] ∨ s.offset ≠ s.pos := by
  obtain ⟨h1, h2, h3⟩ := h
  by_cases ho : s.offset = s.pos
  · left
    cases hsb : c.sampleBefore <;>
      (constructor <;> simp [run, step, finish, h1, h2, h3, hr, hsb, ho])
  · exact Or.inr ho

theorem iter_eof_nonempty_u (c : Cfg) (s : S) (h : QuietU s) (hr : s.recs ≠ []) :
    Stopped s (run c s [.step, .next .eof, .step, .send, .confirm, .setOffset, .step]) [] := by
  obtain ⟨h1, h2, h3⟩ := h
  have : s.recs.isEmpty = false := by cases hs : s.recs with
    | nil => exact absurd hs hr
    | cons a b => rfl
  cases hsb : c.sampleBefore <;>
    (constructor <;> simp [run, step, finish, h1, h2, h3, this, hsb])

/-- **a worker told to run until EOF ships the pending complete lines and stops at the first EOF** -/
theorem drain_stops (c : Cfg) (hk : 1 ≤ c.recsPerEvent) : ∀ (lines : List Bytes) (s : S), QuietU s →
    s.recs.length < c.recsPerEvent → s.offset + bytesOf s.recs = s.pos →
    Stopped s (run c s (drain c.recsPerEvent s.recs.length lines)) lines
  | [], s, hq, hlt, hoff => by
    simp only [drain]
    by_cases hr : s.recs = []
    · have h0 : s.recs.length = 0 := by simp [hr]
      rw [if_pos h0]
      rcases iter_eof_empty_u c s hq hr with h | h
      · exact h
      · exfalso; apply h; rw [hr] at hoff; simpa using hoff
    · have h0 : ¬ s.recs.length = 0 := by
        intro h0; exact hr (List.eq_nil_of_length_eq_zero h0)
      rw [if_neg h0]
      exact iter_eof_nonempty_u c s hq hr
  | l :: ls, s, hq, hlt, hoff => by
    simp only [drain]
    obtain ⟨h1, h2, h3⟩ := hq
    by_cases hfull : s.recs.length + 1 = c.recsPerEvent
    · rw [if_pos hfull, run_append, iter_full c s l h1 h2 hfull]
      have ih := drain_stops c hk ls
        { s with pc := .top, recs := [], pos := s.pos + l.length, offset := s.pos + l.length,
                 readLog := s.readLog ++ [l], confirmed := s.confirmed ++ (s.recs ++ [l]),
                 ends := s.ends ++ [s.pos + l.length] }
        ⟨rfl, h2, h3⟩ (by simp only [List.length_nil]; omega) (by simp)
      simp only [List.length_nil] at ih
      obtain ⟨i1, i2, i3, i4, i5, i6, i7, i8, i9⟩ := ih
      refine ⟨i1, i2, i3, i4, ?_, ?_, i7, i8, i9⟩
      · rw [i5]; simp [List.append_assoc]
      · rw [i6]; simp [bytesOf, Nat.add_assoc]
    · rw [if_neg hfull, run_append, iter_nofull c s l h1 h2 hfull]
      have ih := drain_stops c hk ls
        { s with pc := .top, recs := s.recs ++ [l], pos := s.pos + l.length, readLog := s.readLog ++ [l] }
        ⟨rfl, h2, h3⟩ (by simp only [List.length_append, List.length_cons, List.length_nil]; omega)
        (by simp only [bytesOf_append, bytesOf_single]; omega)
      simp only [List.length_append, List.length_cons, List.length_nil, Nat.zero_add] at ih
      obtain ⟨i1, i2, i3, i4, i5, i6, i7, i8, i9⟩ := ih
      refine ⟨i1, i2, i3, i4, ?_, ?_, i7, i8, i9⟩
      · rw [i5]; simp [List.append_assoc]
      · rw [i6]; simp [bytesOf, Nat.add_assoc]

end Logrange.ScanWorker

namespace Logrange.ScanWorker

/-- the batch being collected is shorter than `recsPerEvent` at the loop head (and never longer than it) -/
def lenOk (k : Nat) (s : S) : Prop :=
  match s.pc with
  | .top => s.recs.length < k
  | .sampled _ => s.recs.length < k
  | .tail _ _ _ => s.recs.length < k
  | .sleeping _ _ => s.recs = []
  | .got _ _ _ => s.recs.length ≤ k
  | _ => True

theorem lenOk_init (k start : Nat) (hk : 1 ≤ k) : lenOk k (init start) := by
  simp [lenOk, init]; omega

theorem lenOk_step (c : Cfg) (hk : 1 ≤ c.recsPerEvent) (s s' : S) (l : L) (h : lenOk c.recsPerEvent s)
    (hs : step c s l = some s') : lenOk c.recsPerEvent s' := by
  cases l <;> simp only [step] at hs <;> (repeat' split at hs) <;>
    first
    | cases hs; done
    | (obtain rfl := Option.some.inj hs
       simp_all [lenOk, finish]
       try omega)

theorem lenOk_run (c : Cfg) (hk : 1 ≤ c.recsPerEvent) : ∀ (tr : List L) (s : S), lenOk c.recsPerEvent s →
    lenOk c.recsPerEvent (run c s tr)
  | [], s, h => by simpa [run] using h
  | l :: ls, s, h => by
    simp only [run]
    cases hs : step c s l with
    | none => exact lenOk_run c hk ls s h
    | some s' => exact lenOk_run c hk ls s' (lenOk_step c hk s s' l h hs)

end Logrange.ScanWorker
