import Logrange.Proofs.RdRngDefs
import Logrange.Proofs.RdPaging
/-!
Paging over ONE partition with a RANGE (C03): the one-source cursor whose leaf is the ranged iterator
(`partition.JIterator`) under the `fiterator` (`newCursor` wraps the iterator whenever the query has WHERE or RANGE;
`fitInRange` re-checks every event against the range, which matters because a chunk window may be wider than the range).
Same structure as `RdPaging.lean`, over `wflat j` (the admitted records) instead of `flat j`; the iterator laws are
hypotheses (`RGetFwdSpec`, `RNextFwdSpec`, proved in `RdRngFwd.lean`). Fixed journal only.
-/
set_option linter.unusedSectionVars false
set_option linter.unusedVariables false
namespace Logrange.Rd

/-- a one-source RANGED cursor in explicit form -/
def curR (lo hi : Option Int) (name : Nat) (j : Journal) (s : RIt) (w v : Bool) (l : Option Rec) (m : Array MixSt) : Cur :=
  { srcs := #[{ name := name, jrnl := j, it := .rng s }], nodes := #[.leaf 0], mix := m, root := 0,
    useF := true, fValid := v, fLe := l, where_ := w, minTs := lo, maxTs := hi }

/-- WHERE (when `w`) and the range re-check of `fiterator.Get` -/
def passR (lo hi : Option Int) (w : Bool) (r : Rec) : Bool := (!w || r.keep) && inRange lo hi r

/-- what a ranged cursor standing at index `i` of `wflat j` still has to deliver -/
def FLR (lo hi : Option Int) (j : Journal) (w : Bool) (i : Nat) : List Rec :=
  ((wflat j).drop i).filter (passR lo hi w)

section basics
variable (lo hi : Option Int)

theorem rp_mkCur (name : Nat) (j : Journal) (w : Bool) :
    mkCur [{ name := name, jrnl := j, it := .rng {} }] w lo hi true = curR lo hi name j {} w false none #[{}] := by
  simp [mkCur, curR, reduceTree]

theorem rp_nodeGet (name j s w v l m) :
    nodeGet 3 (curR lo hi name j s w v l m) 0 = (curR lo hi name j (rGet j s).1 w v l m, (rGet j s).2) := by
  simp [nodeGet, curR, Src.get, setSrc]

theorem rp_curNext (name j s w v l m) :
    curNext (curR lo hi name j s w v l m) = curR lo hi name j (rNext j s) w false l m := by
  simp [curNext, nodeNext, curR, Src.next, setSrc, Cur.depth]

theorem rp_curRelease (name j s w v l m) :
    curRelease (curR lo hi name j s w v l m) = curR lo hi name j (rRelease s) w v l m := by
  simp [curRelease, nodeRelease, curR, Src.release, setSrc, Cur.depth]

theorem rp_curSetBackward (name j s w v l m b) :
    curSetBackward (curR lo hi name j s w v l m) b = curR lo hi name j (rSetBackward s b) w false l m := by
  simp [curSetBackward, nodeSetBackward, curR, Src.setBackward, setSrc, Cur.depth]

theorem rp_curPos (name j s w v l m) :
    curPos (curR lo hi name j s w v l m) = some (0, s.cid, s.idx) := by
  simp [curPos, nodePos, curR, Src.pos, RIt.pos, Cur.depth]

theorem rp_collectPos (name j s w v l m) :
    collectPos (curR lo hi name j s w v l m) = [(name, s.pos)] := by
  simp [collectPos, curR, Src.pos]

theorem rp_applyStatePos (name j s w v l m p) :
    applyStatePos (curR lo hi name j s w v l m) [(name, p)] = curR lo hi name j (rSetPos j s p) w v l m := by
  simp [applyStatePos, curR, Src.setPos]

theorem rp_applyCorner (name j s w v l m t) :
    applyCorner (curR lo hi name j s w v l m) t
      = curR lo hi name j (rSetPos j s (if t then ⟨tailCid, maxU32⟩ else {})) w v l m := by
  simp [applyCorner, curR, Src.setPos]

theorem rp_setJournals (name j j' s w v l m) :
    setJournals (curR lo hi name j s w v l m) [(name, j')] = curR lo hi name j' s w v l m := by
  simp [setJournals, curR]

theorem rp_passes (name j s w v l m r) : passes (curR lo hi name j s w v l m) r = passR lo hi w r := by
  cases lo <;> cases hi <;> simp [passes, curR, passR, inRange, Bool.and_assoc]

theorem rp_fGetLoop_succ (f name j s w v l m) :
    fGetLoop (f + 1) (curR lo hi name j s w v l m) =
      if v then (curR lo hi name j s w v l m, l) else
      match (rGet j s).2 with
      | none => (curR lo hi name j (rGet j s).1 w v l m, none)
      | some x =>
        if passR lo hi w x then (curR lo hi name j (rGet j s).1 w true (some x) m, some x)
        else fGetLoop f (curR lo hi name j (rNext j (rGet j s).1) w false (some x) m) := by
  rw [fGetLoop]
  have hd : (curR lo hi name j s w v l m).depth = 3 := by simp [Cur.depth, curR]
  have hr : (curR lo hi name j s w v l m).root = 0 := rfl
  have hv : (curR lo hi name j s w v l m).fValid = v := rfl
  have hl : (curR lo hi name j s w v l m).fLe = l := rfl
  rw [hd, hr, hv, hl, rp_nodeGet]
  cases v with
  | true => simp
  | false =>
    simp only [Bool.false_eq_true, if_false]
    cases h : (rGet j s).2 with
    | none => simp
    | some x =>
      simp only []
      rw [rp_passes]
      by_cases hk : passR lo hi w x = true
      · simp [hk, curR]
      · simp only [hk, if_false, Bool.false_eq_true]
        have : ({ curR lo hi name j (rGet j s).1 w false l m with fLe := some x } : Cur)
            = curR lo hi name j (rGet j s).1 w false (some x) m := rfl
        rw [this, rp_curNext]

theorem rp_FLR_some {j : Journal} {w : Bool} {i : Nat} {r : Rec} (h : (wflat j)[i]? = some r) :
    FLR lo hi j w i = if passR lo hi w r then r :: FLR lo hi j w (i + 1) else FLR lo hi j w (i + 1) := by
  obtain ⟨hi', e⟩ := List.getElem?_eq_some_iff.mp h
  unfold FLR
  rw [List.drop_eq_getElem_cons hi', e, List.filter_cons]

theorem rp_FLR_none {j : Journal} {w : Bool} {i : Nat} (h : (wflat j)[i]? = none) : FLR lo hi j w i = [] := by
  unfold FLR
  rw [List.drop_eq_nil_of_le (List.getElem?_eq_none_iff.mp h)]; rfl

/-- facts about the components of a one-source ranged cursor standing (forward) at index `i` of `wflat j` -/
def StR (j : Journal) (w sy : Bool) (s : RIt) (v : Bool) (l : Option Rec) (i : Nat) : Prop :=
  RWF j s ∧ s.bkwd = false ∧ wIdx j s = i ∧
  (v = true → ∃ r, l = some r ∧ (wflat j)[i]? = some r ∧ passR lo hi w r = true) ∧
  (sy = true → RSynced s) ∧
  (sy = false → v = true → ROnRecord j s)

/-- `c` is a one-source ranged cursor over `j` standing (forward) at index `i` of `wflat j` -/
def AbsR (name : Nat) (j : Journal) (w sy : Bool) (c : Cur) (i : Nat) : Prop :=
  ∃ s v l m, c = curR lo hi name j s w v l m ∧ StR lo hi j w sy s v l i

/-- post-condition of a `Get` from index `i` -/
def GetPostR (name : Nat) (j : Journal) (w sy : Bool) (c' : Cur) (res : Option Rec) (i : Nat) : Prop :=
  ∃ i' s' v' l' m', c' = curR lo hi name j s' w v' l' m' ∧ StR lo hi j w sy s' v' l' i' ∧
    (sy = false → (res.isSome → ROnRecord j s') ∧ (res = none → s'.ci = none)) ∧
    FLR lo hi j w i' = FLR lo hi j w i ∧ res = (FLR lo hi j w i).head? ∧
    ((res = none ∧ i' = (wflat j).length) ∨
      (∃ r, res = some r ∧ (wflat j)[i']? = some r ∧ passR lo hi w r = true))

/-- state of a cursor after `commit`: standing at `i`, reporting position `p` -/
def PCR (name : Nat) (j : Journal) (w : Bool) (c : Cur) (i : Nat) (p : Pos) : Prop :=
  ∃ s v l m, c = curR lo hi name j s w v l m ∧ StR lo hi j w true s v l i ∧ s.pos = p

end basics

theorem rp_wflat_length_le (j : Journal) : (wflat j).length ≤ (flat j).length := by
  induction j with
  | nil => simp [wflat, flat]
  | cons c r ih =>
    rw [rw_wflat_cons, flat_cons, List.length_append, List.length_append, rw_wrecs_length]
    have : c.wlen ≤ c.recs.length := by unfold Chunk.wlen Chunk.hi Chunk.cnt; omega
    omega

section laws
variable (lo hi : Option Int) (HG : RGetFwdSpec) (HN : RNextFwdSpec)
include HG HN

theorem rp_abs_le {name j w sy c i} (h : AbsR lo hi name j w sy c i) : i ≤ (wflat j).length := by
  obtain ⟨s, v, l, m, _, hst⟩ := h
  unfold StR at hst
  obtain ⟨_, _, hi', _⟩ := hst
  rw [← hi']; exact rw_wIdx_le _ _

theorem rp_curNext_abs {name j w sy c i} (hs : Sorted j) (h : AbsR lo hi name j w sy c i) :
    AbsR lo hi name j w sy (curNext c) (min (i + 1) (wflat j).length) := by
  obtain ⟨s, v, l, m, rfl, hst⟩ := h
  unfold StR at hst
  obtain ⟨hwf, hb, hi', _, _, _⟩ := hst
  obtain ⟨h1, h2, h3, h4⟩ := HN j s hs hwf hb
  refine ⟨rNext j s, false, l, m, rp_curNext .., ?_⟩
  unfold StR
  refine ⟨h1, h2, by rw [h4, hi'], ?_, fun _ => h3, ?_⟩
  · intro hv; cases hv
  · intro _ hv; cases hv

theorem rp_fGetLoop_abs {name j w sy} (hs : Sorted j) : ∀ (fuel : Nat) (c : Cur) (i : Nat),
    AbsR lo hi name j w sy c i → (wflat j).length - i < fuel →
    GetPostR lo hi name j w sy (fGetLoop fuel c).1 (fGetLoop fuel c).2 i := by
  intro fuel
  induction fuel with
  | zero => intro c i _ hf; omega
  | succ f ih =>
    intro c i h hf
    have hle := rp_abs_le lo hi HG HN h
    obtain ⟨s, v, l, m, rfl, hst⟩ := h
    unfold StR at hst
    obtain ⟨hwf, hb, hi', hv, hsy, hon0⟩ := hst
    rw [rp_fGetLoop_succ]
    cases v with
    | true =>
      obtain ⟨r, hl, hr, hk⟩ := hv rfl
      simp only [if_true]
      have hst : StR lo hi j w sy s true l i := by unfold StR; exact ⟨hwf, hb, hi', hv, hsy, hon0⟩
      refine ⟨i, s, true, l, m, rfl, hst, ?_, rfl, ?_, Or.inr ⟨r, hl, hr, hk⟩⟩
      · intro h0; exact ⟨fun _ => hon0 h0 rfl, (by intro h; rw [hl] at h; cases h)⟩
      · rw [rp_FLR_some lo hi hr]; simp [hk, hl]
    | false =>
      simp only [Bool.false_eq_true, if_false]
      obtain ⟨g1, g2, g3, g4, g5, g6, g7⟩ := HG j s hs hwf hb
      rw [hi'] at g1 g4
      cases hg : (rGet j s).2 with
      | none =>
        simp only []
        rw [hg] at g1
        have hge : (wflat j).length ≤ i := List.getElem?_eq_none_iff.mp g1.symm
        have hst : StR lo hi j w sy (rGet j s).1 false l i := by
          unfold StR
          refine ⟨g2, g3, g4, ?_, ?_, ?_⟩
          · intro h; cases h
          · intro h1; exact g5 (hsy h1)
          · intro _ h; cases h
        refine ⟨i, (rGet j s).1, false, l, m, rfl, hst, ?_, rfl, ?_, Or.inl ⟨rfl, by omega⟩⟩
        · intro _; exact ⟨(by intro h; cases h), fun _ => g7 hg⟩
        · rw [rp_FLR_none lo hi g1.symm]; rfl
      | some x =>
        simp only []
        rw [hg] at g1
        have hon : ROnRecord j (rGet j s).1 := g6 (by rw [hg]; rfl)
        by_cases hk : passR lo hi w x = true
        · simp only [hk, if_true]
          have hst : StR lo hi j w sy (rGet j s).1 true (some x) i := by
            unfold StR
            refine ⟨g2, g3, g4, ?_, ?_, ?_⟩
            · intro _; exact ⟨x, rfl, g1.symm, hk⟩
            · intro h1; exact g5 (hsy h1)
            · intro _ _; exact hon
          refine ⟨i, (rGet j s).1, true, some x, m, rfl, hst, ?_, rfl, ?_, Or.inr ⟨x, rfl, g1.symm, hk⟩⟩
          · intro _; exact ⟨fun _ => hon, (by intro h; cases h)⟩
          · rw [rp_FLR_some lo hi g1.symm]; simp [hk]
        · simp only [hk, if_false, Bool.false_eq_true]
          have hk' : passR lo hi w x = false := by simpa using hk
          obtain ⟨n1, n2, n3, n4⟩ := HN j (rGet j s).1 hs g2 g3
          rw [g4] at n4
          have hlt : i < (wflat j).length := (List.getElem?_eq_some_iff.mp g1.symm).1
          have hmin : min (i + 1) (wflat j).length = i + 1 := by omega
          rw [hmin] at n4
          have habs : AbsR lo hi name j w sy (curR lo hi name j (rNext j (rGet j s).1) w false (some x) m) (i + 1) :=
            ⟨_, _, _, _, rfl, by
              unfold StR
              exact ⟨n1, n2, n4, (by intro h; cases h), fun _ => n3, (by intro _ h; cases h)⟩⟩
          obtain ⟨i', s', v', l', m', a0, a1, a1'', a2, a3, a4⟩ := ih _ (i + 1) habs (by omega)
          have hFL : FLR lo hi j w (i + 1) = FLR lo hi j w i := by rw [rp_FLR_some lo hi g1.symm]; simp [hk']
          exact ⟨i', s', v', l', m', a0, a1, a1'', by rw [a2, hFL], by rw [a3, hFL], a4⟩

theorem rp_curGet_abs {name j w sy c i} (hs : Sorted j) (h : AbsR lo hi name j w sy c i) :
    GetPostR lo hi name j w sy (curGet c).1 (curGet c).2 i := by
  obtain ⟨s, v, l, m, rfl, hst⟩ := h
  have : curGet (curR lo hi name j s w v l m) = fGetLoop ((flat j).length + 2) (curR lo hi name j s w v l m) := by
    simp [curGet, curR, Cur.size]
  rw [this]
  exact rp_fGetLoop_abs lo hi HG HN hs _ _ i ⟨s, v, l, m, rfl, hst⟩ (by have := rp_wflat_length_le j; omega)

theorem rp_readLoop_abs {name j w sy} (hs : Sorted j) : ∀ (k : Nat) (c : Cur) (i : Nat) (acc : List Rec),
    AbsR lo hi name j w sy c i →
    (readLoop k c acc).2 = acc.reverse ++ (FLR lo hi j w i).take k ∧
    ∃ i', AbsR lo hi name j w sy (readLoop k c acc).1 i' ∧ FLR lo hi j w i' = (FLR lo hi j w i).drop k := by
  intro k
  induction k with
  | zero => intro c i acc h; exact ⟨by simp [readLoop], i, by simpa [readLoop] using h, by simp⟩
  | succ k ih =>
    intro c i acc h
    obtain ⟨i1, s1, v1, l1, m1, e1, st1, _, f1, r1, d1⟩ := rp_curGet_abs lo hi HG HN hs h
    have habs1 : AbsR lo hi name j w sy (curGet c).1 i1 := ⟨s1, v1, l1, m1, e1, st1⟩
    rw [readLoop]
    rcases d1 with ⟨hn, _⟩ | ⟨r, hr, hget, hk⟩
    · have hnil : FLR lo hi j w i = [] := by
        rw [hn] at r1; exact List.head?_eq_none_iff.mp r1.symm
      simp only [hn]
      exact ⟨by simp [hnil], i1, habs1, by rw [f1, hnil]; simp⟩
    · have hcons : FLR lo hi j w i1 = r :: FLR lo hi j w (i1 + 1) := by rw [rp_FLR_some lo hi hget]; simp [hk]
      have hlt : i1 < (wflat j).length := (List.getElem?_eq_some_iff.mp hget).1
      have hnext := rp_curNext_abs lo hi HG HN hs habs1
      have hmin : min (i1 + 1) (wflat j).length = i1 + 1 := by omega
      rw [hmin] at hnext
      obtain ⟨q1, i', q2, q3⟩ := ih (curNext (curGet c).1) (i1 + 1) (r :: acc) hnext
      simp only [hr]
      refine ⟨?_, i', q2, ?_⟩
      · rw [q1, ← f1, hcons]; simp
      · rw [q3, ← f1, hcons]; simp

theorem rp_commit_abs {name j w c i} (hs : Sorted j) (h : AbsR lo hi name j w true c i) :
    ∃ i' p, PCR lo hi name j w (commit c).1 i' p ∧ FLR lo hi j w i' = FLR lo hi j w i ∧
      (commit c).2 = [(name, p)] ∧ wflatIdx j p = i' := by
  obtain ⟨i1, s1, v1, l1, m1, e1, st1, _, f1, _, _⟩ := rp_curGet_abs lo hi HG HN hs h
  unfold StR at st1
  obtain ⟨hwf, hb, hi', hv, hsy, hon0⟩ := st1
  have hsync := hsy rfl
  obtain ⟨r1, r2, r3, r4, r5, _⟩ := rw_release_facts j s1
  have hc : commit c = (curR lo hi name j (rRelease s1) w v1 l1 m1, [(name, s1.pos)]) := by
    simp only [commit, curState, e1, rp_collectPos, rp_curRelease]
  rw [hc]
  refine ⟨i1, s1.pos, ⟨rRelease s1, v1, l1, m1, rfl, ?_, r5⟩, f1, rfl, ?_⟩
  · unfold StR
    exact ⟨r1 hwf, by rw [r3, hb], by unfold wIdx at hi' ⊢; rw [r2, hi'], hv, fun _ => r4 hsync, by intro h; cases h⟩
  · rw [← rw_effPos_eq_pos hwf hsync]; exact hi'

theorem rp_pageOn_abs {name j w c i} (hs : Sorted j) (lim : Nat) (h : AbsR lo hi name j w true c i) :
    (pageOn lim c).2.1 = (FLR lo hi j w i).take lim ∧
    ∃ i' p, PCR lo hi name j w (pageOn lim c).1 i' p ∧ FLR lo hi j w i' = (FLR lo hi j w i).drop lim ∧
      (pageOn lim c).2.2 = [(name, p)] ∧ wflatIdx j p = i' := by
  obtain ⟨q1, i1, q2, q3⟩ := rp_readLoop_abs lo hi HG HN hs lim c i [] h
  obtain ⟨i', p, c1, c2, c3, c4⟩ := rp_commit_abs lo hi HG HN hs q2
  exact ⟨by simpa [pageOn] using q1, i', p, c1, by rw [c2, q3], c3, c4⟩

end laws

/-! ## chains of pages -/
section chains
variable (lo hi : Option Int)

def mkR (name : Nat) (j : Journal) (w : Bool) : Cur :=
  mkCur [{ name := name, jrnl := j, it := .rng {} }] w lo hi true

def resumeR (name : Nat) (w : Bool) (c : Cur) (pm : List (Nat × Pos)) (st : PStep) : Cur :=
  match st.choice with
  | .same => setJournals c [(name, st.jrnl)]
  | .fresh => applyStatePos (mkR lo hi name st.jrnl w) pm

def chainR (name : Nat) (w : Bool) : Cur → List (Nat × Pos) → List PStep → List (List Rec)
  | _, _, [] => []
  | c, pm, st :: rest =>
    (pageOn st.limit (resumeR lo hi name w c pm st)).2.1 ::
      chainR name w (pageOn st.limit (resumeR lo hi name w c pm st)).1 (pageOn st.limit (resumeR lo hi name w c pm st)).2.2 rest

/-- a whole paged read of one partition under a RANGE, first request from `head` -/
def pagesR (name : Nat) (w : Bool) (j0 : Journal) (l0 : Nat) (steps : List PStep) : List (List Rec) :=
  (pageOn l0 (applyCorner (mkR lo hi name j0 w) false)).2.1 ::
    chainR lo hi name w (pageOn l0 (applyCorner (mkR lo hi name j0 w) false)).1
      (pageOn l0 (applyCorner (mkR lo hi name j0 w) false)).2.2 steps

theorem rp_fresh_abs (name : Nat) (j : Journal) (w : Bool) (p : Pos) :
    AbsR lo hi name j w true (applyStatePos (mkR lo hi name j w) [(name, p)]) (wflatIdx j p) := by
  obtain ⟨h1, h2, h3, h4⟩ := rw_setPos_fresh j p
  refine ⟨rSetPos j {} p, false, none, #[{}], by rw [mkR, rp_mkCur, rp_applyStatePos], ?_⟩
  unfold StR
  refine ⟨by unfold RWF; rw [h1]; simp only; exact Or.inl h4, h3, by unfold wIdx rEffPos; rw [h1]; simp [h2], ?_, ?_, ?_⟩
  · intro h; cases h
  · intro _; unfold RSynced; rw [h1]; trivial
  · intro h; cases h

theorem rp_corner_abs (name : Nat) (j : Journal) (w t sy : Bool) :
    AbsR lo hi name j w sy (applyCorner (mkR lo hi name j w) t) (wflatIdx j (if t then ⟨tailCid, maxU32⟩ else {})) := by
  obtain ⟨h1, h2, h3, h4⟩ := rw_setPos_fresh j (if t then ⟨tailCid, maxU32⟩ else {})
  refine ⟨rSetPos j {} (if t then ⟨tailCid, maxU32⟩ else {}), false, none, #[{}], by rw [mkR, rp_mkCur, rp_applyCorner], ?_⟩
  unfold StR
  refine ⟨by unfold RWF; rw [h1]; simp only; exact Or.inl h4, h3, by unfold wIdx rEffPos; rw [h1]; simp [h2], ?_, ?_, ?_⟩
  · intro h; cases h
  · intro _; unfold RSynced; rw [h1]; trivial
  · intro _ h; cases h

theorem rp_head_abs (name : Nat) (j : Journal) (w : Bool) :
    AbsR lo hi name j w true (applyCorner (mkR lo hi name j w) false) 0 := by
  have h := rp_corner_abs lo hi name j w false true
  simp only [Bool.false_eq_true, if_false] at h
  rw [show wflatIdx j ({} : Pos) = 0 from rw_wflatIdx_zero j] at h
  exact h

theorem rp_pc_idx {name j w c i p} (h : PCR lo hi name j w c i p) : wflatIdx j p = i := by
  obtain ⟨s, v, l, m, _, st, hp⟩ := h
  unfold StR at st
  obtain ⟨hwf, _, hi', _, hsy, _⟩ := st
  rw [← hp, ← rw_effPos_eq_pos hwf (hsy rfl)]; exact hi'

/-- resuming on the unchanged journal keeps the index, whatever the environment chooses -/
theorem rp_resume_fixed {name j w c i p} (h : PCR lo hi name j w c i p) (st : PStep) (hj : st.jrnl = j) :
    AbsR lo hi name j w true (resumeR lo hi name w c [(name, p)] st) i := by
  unfold resumeR
  cases hc : st.choice with
  | same =>
    obtain ⟨s, v, l, m, rfl, hst, _⟩ := h
    simp only [hj, rp_setJournals]
    exact ⟨s, v, l, m, rfl, hst⟩
  | fresh =>
    simp only [hj]
    have := rp_fresh_abs lo hi name j w p
    rw [rp_pc_idx lo hi h] at this; exact this

end chains

section laws3
variable (lo hi : Option Int) (HG : RGetFwdSpec) (HN : RNextFwdSpec)
include HG HN

theorem rp_chain_fixed {name j w} (hs : Sorted j) : ∀ (steps : List PStep) (c : Cur) (i : Nat) (p : Pos),
    PCR lo hi name j w c i p → (∀ st ∈ steps, st.jrnl = j) →
    (chainR lo hi name w c [(name, p)] steps).flatten = (FLR lo hi j w i).take (steps.map (·.limit)).sum := by
  intro steps
  induction steps with
  | nil => intro c i p _ _; simp [chainR]
  | cons st rest ih =>
    intro c i p h hall
    have habs := rp_resume_fixed lo hi h st (hall st (List.mem_cons_self ..))
    obtain ⟨e1, i', p', pc', f', pm', _⟩ := rp_pageOn_abs lo hi HG HN hs st.limit habs
    rw [chainR, List.flatten_cons, pm', ih _ i' p' pc' (fun s hs' => hall s (List.mem_cons_of_mem _ hs')), e1, f']
    simp only [List.map_cons, List.sum_cons]
    rw [List.take_add]

/-- **paging with RANGE**, one partition, fixed journal: whatever the limits and whatever the environment chooses -/
theorem rp_paging {name j w} (hs : Sorted j) (l0 : Nat) (steps : List PStep) (hall : ∀ st ∈ steps, st.jrnl = j) :
    (pagesR lo hi name w j l0 steps).flatten =
      ((wflat j).filter (passR lo hi w)).take (l0 + (steps.map (·.limit)).sum) := by
  obtain ⟨e1, i', p', pc', f', pm', _⟩ := rp_pageOn_abs lo hi HG HN hs l0 (rp_head_abs lo hi name j w)
  rw [pagesR, List.flatten_cons, pm', rp_chain_fixed lo hi HG HN hs steps _ i' p' pc' hall, e1, f', List.take_add]
  simp [FLR]

end laws3
end Logrange.Rd
