import Logrange.Proofs.Lql
import Logrange.Model.LqlStmt
/-!
# Token-level round trip for every statement kind: `directLql ∘ toksLql = id` on the parser's image
-/
namespace Logrange.Lql

/-! ### lists that are empty or start with one of a set of clause keywords -/

def headKwIn (K : List Bytes) : List Tok → Bool
  | [] => true
  | t :: _ => K.any (fun k => t == tKw k)

/-- no keyword of `K` is matched by the literal `kw` -/
def notLit (K : List Bytes) (kw : Bytes) : Bool := K.all (fun k => !litMatch (tKw k) kw)

theorem headNot_of_headKwIn (K : List Bytes) (kw : Bytes) (l : List Tok) (h : headKwIn K l = true)
    (hn : notLit K kw = true) : headNot kw l = true := by
  cases l with
  | nil => simp [headNot]
  | cons t r =>
    simp only [headKwIn, List.any_eq_true, beq_iff_eq] at h
    obtain ⟨k, hk, rfl⟩ := h
    simp only [notLit, List.all_eq_true, Bool.not_eq_true'] at hn
    simp [headNot, hn k hk]

theorem headKwIn_mono (K K' : List Bytes) (l : List Tok) (h : headKwIn K l = true) (hs : ∀ k ∈ K, k ∈ K') :
    headKwIn K' l = true := by
  cases l with
  | nil => simp [headKwIn]
  | cons t r =>
    simp only [headKwIn, List.any_eq_true, beq_iff_eq] at h ⊢
    obtain ⟨k, hk, rfl⟩ := h
    exact ⟨k, hs k hk, rfl⟩

theorem headKwIn_clause {α : Type} (K : List Bytes) (kw : Bytes) (bt : α → List Tok) (o : Option α) (rest : List Tok)
    (h : headKwIn K rest = true) : headKwIn (kw :: K) (kwClauseToks kw bt o ++ rest) = true := by
  cases o with
  | none => simpa [kwClauseToks] using headKwIn_mono K (kw :: K) rest h (fun k hk => List.mem_cons_of_mem _ hk)
  | some a => simp [kwClauseToks, headKwIn]

theorem head_keyword_of_headKwIn (K : List Bytes) (t : Tok) (r : List Tok) (h : headKwIn K (t :: r) = true) :
    t.t = .keyword := by
  simp only [headKwIn, List.any_eq_true, beq_iff_eq] at h
  obtain ⟨k, _, rfl⟩ := h
  rfl

/-! ### the generic guarded clause -/

theorem dKwClause_toks {α : Type} (kw : Bytes) (hk : litMatch (tKw kw) kw = true) (body : List Tok → Option (α × List Tok))
    (bt : α → List Tok) (o : Option α) (rest : List Tok)
    (hb : ∀ a, o = some a → body (bt a ++ rest) = some (a, rest)) (hr : o = none → headNot kw rest = true) :
    dKwClause kw body (kwClauseToks kw bt o ++ rest) = some (o, rest) := by
  cases o with
  | none =>
    cases rest with
    | nil => simp [kwClauseToks, dKwClause]
    | cons t r =>
      have : litMatch t kw = false := by simpa [headNot] using hr rfl
      simp [kwClauseToks, dKwClause, this]
  | some a => simp [kwClauseToks, dKwClause, hk, hb a rfl]

/-! ### clause bodies -/

/-- an int64 the printer's decimal text is read back to by `strconv.ParseInt(s, 0, 64)`, and that text is not mistaken
for an operator or a parenthesis (true for every int64; evaluated on every parsed statement by the harness) -/
def intOK (i : Int) : Bool :=
  parseInt0 (decInt i) == some i && !isOpTok ⟨.number, decInt i⟩ && !litMatch ⟨.number, decInt i⟩ LP

theorem dIntTok_toks (i : Int) (rest : List Tok) (h : intOK i = true) : dIntTok (intTokToks i ++ rest) = some (i, rest) := by
  have hp : parseInt0 (decInt i) = some i := by
    simp only [intOK, Bool.and_eq_true, beq_iff_eq] at h; exact h.1.1
  simp [intTokToks, dIntTok, hp]

theorem dPosTok_toks (p : Bytes) (rest : List Tok) : dPosTok (posTokToks p ++ rest) = some (p, rest) := by
  simp [posTokToks, dPosTok]

/-- the parser's image of `Range` (after `ParseLql`'s post-check): at least one time point; the printed instant is not
mistaken for the bracket -/
def wfRange (rd : Int → Bytes) (r : Range) : Bool :=
  (r.p1.isSome || r.p2.isSome) && optAll (fun v => !litMatch (dateTok rd v) kwLBR) r.p1

def RangeContract (dp : Bytes → Option Int) (rd : Int → Bytes) (r : Range) : Prop :=
  (∀ v, r.p1 = some v → dp (rd v) = some v) ∧ (∀ v, r.p2 = some v → dp (rd v) = some v)

theorem dOptLit_toks (kw : Bytes) (hk : litMatch (tKw kw) kw = true) (b : Bool) (rest : List Tok)
    (h : b = true ∨ headNot kw rest = true) : dOptLit kw ((if b then [tKw kw] else []) ++ rest) = (b, rest) := by
  cases b with
  | true => simp [dOptLit, hk]
  | false =>
    have h' : headNot kw rest = true := by rcases h with h | h; cases h; exact h
    cases rest with
    | nil => simp [dOptLit]
    | cons t r =>
      have : litMatch t kw = false := by simpa [headNot] using h'
      simp [dOptLit, this]

theorem dOptDate_toks (dp : Bytes → Option Int) (rd : Int → Bytes) (o : Option Int) (rest : List Tok)
    (hc : ∀ v, o = some v → dp (rd v) = some v) (hr : o = none → ∀ t r, rest = t :: r → t.t ≠ .string) :
    dOptDate dp (optDateToks rd o ++ rest) = some (o, rest) := by
  cases o with
  | none =>
    cases rest with
    | nil => simp [optDateToks, dOptDate]
    | cons t r =>
      have : (t.t == TT.string) = false := by simpa using hr rfl t r rfl
      simp [optDateToks, dOptDate, this]
  | some v => simp [optDateToks, dOptDate, dateTok, hc v rfl]

theorem dRangeTail_toks (dp : Bytes → Option Int) (rd : Int → Bytes) (o : Option Int) (rest : List Tok)
    (hc : ∀ v, o = some v → dp (rd v) = some v) (hr : o = none → headNot kwCOLON rest = true) :
    dRangeTail dp (rangeTailToks rd o ++ rest) = some (o, rest) := by
  cases o with
  | none =>
    cases rest with
    | nil => simp [rangeTailToks, dRangeTail]
    | cons t r =>
      have : litMatch t kwCOLON = false := by simpa [headNot] using hr rfl
      simp [rangeTailToks, dRangeTail, this]
  | some v =>
    have h1 : litMatch (tKw kwCOLON) kwCOLON = true := by decide
    have h2 : litMatch (tKw kwRBR) kwRBR = true := by decide
    simp [rangeTailToks, dRangeTail, h1, h2, dateTok, hc v rfl]

theorem dRangeBody_toks (dp : Bytes → Option Int) (rd : Int → Bytes) (r : Range) (rest : List Tok)
    (hw : wfRange rd r = true) (hc : RangeContract dp rd r) (K : List Bytes) (hK : headKwIn K rest = true)
    (hn2 : notLit K kwCOLON = true) :
    dRangeBody dp (rangeToks rd r ++ rest) = some (r, rest) := by
  obtain ⟨r1, r2⟩ := r
  simp only [wfRange, Bool.and_eq_true, Bool.or_eq_true] at hw
  obtain ⟨hsome, hlb⟩ := hw
  have hLB : litMatch (tKw kwLBR) kwLBR = true := by decide
  have hf : Logrange.Generated.C12.parseLqlRejectsEmptyRange = true := by decide
  have hcol : headNot kwCOLON rest = true := headNot_of_headKwIn K kwCOLON rest hK hn2
  -- stage 1: the optional bracket
  have s1 := dOptLit_toks kwLBR hLB r2.isSome (optDateToks rd r1 ++ (rangeTailToks rd r2 ++ rest)) (by
    cases r2 with
    | some v => left; rfl
    | none =>
      right
      cases r1 with
      | none => simp at hsome
      | some v1 =>
        have : litMatch (dateTok rd v1) kwLBR = false := by simpa [optAll] using hlb
        simp [optDateToks, headNot, this])
  -- stage 2: the first instant
  have s2 := dOptDate_toks dp rd r1 (rangeTailToks rd r2 ++ rest) hc.1 (by
    intro h1 t r ht
    cases r2 with
    | none => subst h1; simp at hsome
    | some v2 =>
      simp only [rangeTailToks, List.cons_append, List.cons.injEq] at ht
      rw [← ht.1]; simp [tKw])
  -- stage 3: `: instant ]`
  have s3 := dRangeTail_toks dp rd r2 rest hc.2 (fun _ => hcol)
  have hshape : rangeToks rd ⟨r1, r2⟩ ++ rest = (if r2.isSome then [tKw kwLBR] else []) ++ (optDateToks rd r1 ++ (rangeTailToks rd r2 ++ rest)) := by
    simp [rangeToks, List.append_assoc]
  rw [hshape, dRangeBody, s1]
  simp only [s2, s3, hf, Bool.true_and]
  cases r1 <;> cases r2 <;> simp at hsome ⊢


/-! ### SELECT -/

theorem dSource_toks_rest (s : Source) (f : Nat) (rest : List Tok)
    (hf : (match s with | .tags _ => 0 | .expr e => szExpr e) ≤ f) (hw : wfSource s = true)
    (ho : headNot kwOR rest = true) (ha : headNot kwAND rest = true) :
    dSource f (toksSource s ++ rest) = some (s, rest) := by
  cases s with
  | tags m =>
    have : KV.tagParse (KV.LB :: (KV.line m ++ [KV.RB])) = some m := by simpa [wfSource] using hw
    simp [toksSource, dSource, this]
  | expr e =>
    have hw' : wfExpr e = true := by simpa [wfSource] using hw
    have he := dExpr_toks e f rest hf hw' ho ha
    obtain ⟨t, r, h1, h2⟩ := toksExpr_head e hw'
    have h2' : (t.t == TT.tags) = false := by simpa using h2
    have hshape : toksSource (.expr e) ++ rest = t :: (r ++ rest) := by simp [toksSource, h1]
    rw [hshape, dSource]
    simp only [h2', Bool.false_eq_true, if_false]
    rw [← List.cons_append, ← h1, he]; rfl

def fmtOK : Option Bytes → Bool
  | none => true
  | some f => !f.isEmpty

theorem dOptFormat_toks (fmt : Option Bytes) (rest : List Tok) (hf : fmtOK fmt = true)
    (hr : fmt = none → ∀ t r, rest = t :: r → t.t ≠ .string) : dOptFormat (formatToks fmt ++ rest) = (fmt, rest) := by
  cases fmt with
  | none =>
    cases rest with
    | nil => simp [formatToks, dOptFormat]
    | cons t r =>
      have : (t.t == TT.string) = false := by simpa using hr rfl t r rfl
      simp [formatToks, dOptFormat, this]
  | some f =>
    have : f.isEmpty = false := by simpa [fmtOK] using hf
    simp [formatToks, dOptFormat, this]

/-- the parser's image of `Select` minus the open class F12e (a SELECT that prints only its keyword) and up to the
meaning-preserving normal form `Format = ""` ≡ nil -/
def wfSelect (rd : Int → Bytes) (s : Select) : Bool :=
  !isEmptySelect s && fmtOK s.format && optAll wfSource s.source && optAll (wfRange rd) s.range && optAll wfExpr s.where_
  && optAll intOK s.offset && optAll intOK s.limit

def SelectContract (dp : Bytes → Option Int) (rd : Int → Bytes) (s : Select) : Prop :=
  ∀ r, s.range = some r → RangeContract dp rd r

def srcSz : Option Source → Nat
  | some (.expr e) => szExpr e
  | _ => 0
def exprSz : Option Expr → Nat
  | some e => szExpr e
  | none => 0

theorem dSelectBody_toks (dp : Bytes → Option Int) (rd : Int → Bytes) (s : Select) (f : Nat)
    (hf : srcSz s.source + exprSz s.where_ ≤ f) (hw : wfSelect rd s = true) (hc : SelectContract dp rd s) :
    dSelectBody dp f (toksSelect rd s) = some s := by
  obtain ⟨fmt, src, rng, wh, pos, off, lim⟩ := s
  simp only [wfSelect, Bool.and_eq_true] at hw
  obtain ⟨⟨⟨⟨⟨⟨_, hfmt⟩, hsrc⟩, hrng⟩, hwh⟩, hoff⟩, hlim⟩ := hw
  simp only [srcSz, exprSz] at hf
  -- the suffixes after each clause and the keywords they can start with
  let c6 := kwClauseToks kwLIMIT intTokToks lim
  let c5 := kwClauseToks kwOFFSET intTokToks off ++ c6
  let c4 := kwClauseToks kwPOSITION posTokToks pos ++ c5
  let c3 := kwClauseToks kwWHERE toksExpr wh ++ c4
  let c2 := kwClauseToks kwRANGE (rangeToks rd) rng ++ c3
  let c1 := kwClauseToks kwFROM toksSource src ++ c2
  have h6 : headKwIn [kwLIMIT] c6 = true := by
    have := headKwIn_clause [] kwLIMIT intTokToks lim [] (by simp [headKwIn]); simpa using this
  have h5 : headKwIn [kwOFFSET, kwLIMIT] c5 = true := headKwIn_clause _ kwOFFSET intTokToks off c6 h6
  have h4 : headKwIn [kwPOSITION, kwOFFSET, kwLIMIT] c4 = true := headKwIn_clause _ kwPOSITION posTokToks pos c5 h5
  have h3 : headKwIn [kwWHERE, kwPOSITION, kwOFFSET, kwLIMIT] c3 = true := headKwIn_clause _ kwWHERE toksExpr wh c4 h4
  have h2 : headKwIn [kwRANGE, kwWHERE, kwPOSITION, kwOFFSET, kwLIMIT] c2 = true := headKwIn_clause _ kwRANGE (rangeToks rd) rng c3 h3
  have h1 : headKwIn [kwFROM, kwRANGE, kwWHERE, kwPOSITION, kwOFFSET, kwLIMIT] c1 = true := headKwIn_clause _ kwFROM toksSource src c2 h2
  -- the six guarded clauses, last to first
  have l6 : dKwClause kwLIMIT dIntTok c6 = some (lim, []) := by
    have := dKwClause_toks kwLIMIT (by decide) dIntTok intTokToks lim []
      (fun a ha => dIntTok_toks a [] (by subst ha; simpa [optAll] using hlim)) (fun _ => by simp [headNot])
    simpa using this
  have l5 : dKwClause kwOFFSET dIntTok c5 = some (off, c6) :=
    dKwClause_toks kwOFFSET (by decide) dIntTok intTokToks off c6
      (fun a ha => dIntTok_toks a c6 (by subst ha; simpa [optAll] using hoff))
      (fun _ => headNot_of_headKwIn _ kwOFFSET c6 h6 (by decide))
  have l4 : dKwClause kwPOSITION dPosTok c4 = some (pos, c5) :=
    dKwClause_toks kwPOSITION (by decide) dPosTok posTokToks pos c5 (fun a _ => dPosTok_toks a c5)
      (fun _ => headNot_of_headKwIn _ kwPOSITION c5 h5 (by decide))
  have l3 : dKwClause kwWHERE (dExpr f) c3 = some (wh, c4) :=
    dKwClause_toks kwWHERE (by decide) (dExpr f) toksExpr wh c4
      (fun e he => dExpr_toks e f c4 (by subst he; simp only at hf; omega) (by subst he; simpa [optAll] using hwh)
        (headNot_of_headKwIn _ kwOR c4 h4 (by decide)) (headNot_of_headKwIn _ kwAND c4 h4 (by decide)))
      (fun _ => headNot_of_headKwIn _ kwWHERE c4 h4 (by decide))
  have l2 : dKwClause kwRANGE (dRangeBody dp) c2 = some (rng, c3) :=
    dKwClause_toks kwRANGE (by decide) (dRangeBody dp) (rangeToks rd) rng c3
      (fun r hr => dRangeBody_toks dp rd r c3 (by subst hr; simpa [optAll] using hrng) (hc r (by subst hr; rfl)) _ h3 (by decide))
      (fun _ => headNot_of_headKwIn _ kwRANGE c3 h3 (by decide))
  have l1 : dKwClause kwFROM (dSource f) c1 = some (src, c2) :=
    dKwClause_toks kwFROM (by decide) (dSource f) toksSource src c2
      (fun a ha => dSource_toks_rest a f c2 (by subst ha; cases a <;> simp only at hf ⊢ <;> omega) (by subst ha; simpa [optAll] using hsrc)
        (headNot_of_headKwIn _ kwOR c2 h2 (by decide)) (headNot_of_headKwIn _ kwAND c2 h2 (by decide)))
      (fun _ => headNot_of_headKwIn _ kwFROM c2 h2 (by decide))
  have l0 : dOptFormat (formatToks fmt ++ c1) = (fmt, c1) :=
    dOptFormat_toks fmt c1 hfmt (fun _ t r ht => by
      have := head_keyword_of_headKwIn _ t r (ht ▸ h1); rw [this]; simp)
  have hshape : toksSelect rd ⟨fmt, src, rng, wh, pos, off, lim⟩ = formatToks fmt ++ c1 := by
    simp [toksSelect, selectTail4, c1, c2, c3, c4, c5, c6]
  rw [hshape, dSelectBody, l0]
  simp only [l1, l2, l3, l4, l5, l6]


/-! ### SHOW PARTITIONS / SHOW PIPES, CREATE PIPE -/

/-- `dOptSource_toks` with the facts about the clause keyword given directly -/
theorem dOptSource_toks_gen (f : Nat) (src : Option Source) (c : List Tok) (hf : srcSz src ≤ f)
    (hw : optAll wfSource src = true)
    (hc : c = [] ∨ ∃ k x r, c = tKw k :: x :: r ∧ litMatch (tKw k) kwNOT = false ∧ litMatch (tKw k) kwOR = false
      ∧ litMatch (tKw k) kwAND = false ∧ litMatch x LP = false ∧ isOpTok x = false) :
    dOptSource f (optSourceToks src ++ c) = some (src, c) := by
  have hOR : headNot kwOR c = true ∧ headNot kwAND c = true := by
    rcases hc with rfl | ⟨k, x, r, rfl, _, h2, h3, _, _⟩
    · simp [headNot]
    · simp [headNot, h2, h3]
  cases src with
  | none =>
    rcases hc with rfl | ⟨k, x, r, rfl, h1, _, _, hl, ho⟩
    · simp [optSourceToks, dOptSource]
    · have ht : ((tKw k).t == TT.tags) = false := by simp [tKw]
      simp [optSourceToks, dOptSource, ht, dExpr_clause_none f k x r h1 hl ho]
  | some s =>
    have h := dSource_toks_rest s f c (by cases s <;> simpa [srcSz] using hf) (by simpa [optAll] using hw) hOR.1 hOR.2
    cases s with
    | tags m =>
      have : KV.tagParse (KV.LB :: (KV.line m ++ [KV.RB])) = some m := by simpa [optAll, wfSource] using hw
      simp [optSourceToks, toksSource, dOptSource, this]
    | expr e =>
      have hw' : wfExpr e = true := by simpa [optAll, wfSource] using hw
      obtain ⟨t, r, h1, h2⟩ := toksExpr_head e hw'
      have h2' : (t.t == TT.tags) = false := by simpa using h2
      have he := dExpr_toks e f c (by simpa [srcSz] using hf) hw' hOR.1 hOR.2
      have hshape : optSourceToks (some (.expr e)) ++ c = t :: (r ++ c) := by simp [optSourceToks, toksSource, h1]
      rw [hshape, dOptSource]
      simp only [h2', Bool.false_eq_true, if_false]
      rw [← List.cons_append, ← h1, he]

theorem offLim_shape (off lim : Option Int) (ho : optAll intOK off = true) (hl : optAll intOK lim = true) :
    offLimToks off lim = [] ∨ ∃ k x r, offLimToks off lim = tKw k :: x :: r ∧ litMatch (tKw k) kwNOT = false
      ∧ litMatch (tKw k) kwOR = false ∧ litMatch (tKw k) kwAND = false ∧ litMatch x LP = false ∧ isOpTok x = false := by
  have iz : ∀ i, intOK i = true → litMatch ⟨.number, decInt i⟩ LP = false ∧ isOpTok ⟨.number, decInt i⟩ = false := by
    intro i h; simp only [intOK, Bool.and_eq_true, Bool.not_eq_true'] at h; exact ⟨h.2, h.1.2⟩
  cases off with
  | some i =>
    right
    exact ⟨kwOFFSET, ⟨.number, decInt i⟩, kwClauseToks kwLIMIT intTokToks lim, rfl, by decide, by decide, by decide,
      (iz i (by simpa [optAll] using ho)).1, (iz i (by simpa [optAll] using ho)).2⟩
  | none =>
    cases lim with
    | some i =>
      right
      exact ⟨kwLIMIT, ⟨.number, decInt i⟩, [], rfl, by decide, by decide, by decide,
        (iz i (by simpa [optAll] using hl)).1, (iz i (by simpa [optAll] using hl)).2⟩
    | none => left; rfl

theorem dSrcOffLim_toks (f : Nat) (src : Option Source) (off lim : Option Int) (hf : srcSz src ≤ f)
    (hs : optAll wfSource src = true) (ho : optAll intOK off = true) (hl : optAll intOK lim = true) :
    dSrcOffLim f (optSourceToks src ++ offLimToks off lim) = some (src, off, lim) := by
  have h0 := dOptSource_toks_gen f src (offLimToks off lim) hf hs (offLim_shape off lim ho hl)
  let c2 := kwClauseToks kwLIMIT intTokToks lim
  have h2 : headKwIn [kwLIMIT] c2 = true := by
    have := headKwIn_clause [] kwLIMIT intTokToks lim [] (by simp [headKwIn]); simpa using this
  have l2 : dKwClause kwLIMIT dIntTok c2 = some (lim, []) := by
    have := dKwClause_toks kwLIMIT (by decide) dIntTok intTokToks lim []
      (fun a ha => dIntTok_toks a [] (by subst ha; simpa [optAll] using hl)) (fun _ => by simp [headNot])
    simpa using this
  have l1 : dKwClause kwOFFSET dIntTok (offLimToks off lim) = some (off, c2) :=
    dKwClause_toks kwOFFSET (by decide) dIntTok intTokToks off c2
      (fun a ha => dIntTok_toks a c2 (by subst ha; simpa [optAll] using ho))
      (fun _ => headNot_of_headKwIn _ kwOFFSET c2 h2 (by decide))
  simp only [dSrcOffLim, h0, l1, l2]

theorem dPipeBody_toks (f : Nat) (p : Pipe) (hf : srcSz p.from_ + exprSz p.where_ ≤ f)
    (hs : optAll wfSource p.from_ = true) (hw : optAll wfExpr p.where_ = true) :
    dPipeBody f (toksPipe p) = some p := by
  obtain ⟨name, src, wh⟩ := p
  simp only [srcSz, exprSz] at hf
  have h2 : headKwIn [kwWHERE] (kwClauseToks kwWHERE toksExpr wh) = true := by
    have := headKwIn_clause [] kwWHERE toksExpr wh [] (by simp [headKwIn]); simpa using this
  have l2 : dKwClause kwWHERE (dExpr f) (kwClauseToks kwWHERE toksExpr wh) = some (wh, []) := by
    have := dKwClause_toks kwWHERE (by decide) (dExpr f) toksExpr wh []
      (fun e he => dExpr_toks e f [] (by subst he; simp only at hf; omega) (by subst he; simpa [optAll] using hw)
        (by simp [headNot]) (by simp [headNot])) (fun _ => by simp [headNot])
    simpa using this
  have l1 : dKwClause kwFROM (dSource f) (kwClauseToks kwFROM toksSource src ++ (kwClauseToks kwWHERE toksExpr wh)) = some (src, (kwClauseToks kwWHERE toksExpr wh)) :=
    dKwClause_toks kwFROM (by decide) (dSource f) toksSource src (kwClauseToks kwWHERE toksExpr wh)
      (fun a ha => dSource_toks_rest a f (kwClauseToks kwWHERE toksExpr wh) (by subst ha; cases a <;> simp only at hf ⊢ <;> omega) (by subst ha; simpa [optAll] using hs)
        (headNot_of_headKwIn _ kwOR (kwClauseToks kwWHERE toksExpr wh) h2 (by decide)) (headNot_of_headKwIn _ kwAND (kwClauseToks kwWHERE toksExpr wh) h2 (by decide)))
      (fun _ => headNot_of_headKwIn _ kwFROM (kwClauseToks kwWHERE toksExpr wh) h2 (by decide))
  have hP : litMatch (tKw kwPIPE) kwPIPE = true := by decide
  simp only [toksPipe, dPipeBody, hP, Bool.true_and, beq_self_eq_true, if_true, l1, l2]

/-! ### every statement kind -/

def wfDescribe (d : Describe) : Bool :=
  match d.partition, d.pipe with
  | some m, none => KV.tagParse (KV.LB :: (KV.line m ++ [KV.RB])) == some m
  | none, some _ => true
  | _, _ => false

def wfShow (s : ShowS) : Bool :=
  match s.partitions, s.pipes with
  | some p, none => optAll wfSource p.source && optAll intOK p.offset && optAll intOK p.limit
  | none, some p => p.void.isNone && optAll intOK p.offset && optAll intOK p.limit
  | _, _ => false

def wfCreate (c : Create) : Bool :=
  match c.pipe with
  | none => true
  | some p => optAll wfSource p.from_ && optAll wfExpr p.where_

/-- **the parser's image of `Lql`, minus the open classes**: exactly one statement struct (F12e: none), a SELECT that
prints more than its keyword (F12e), `{…}` sources / partitions whose printed tag line `tag.Parse` reads back (F12b),
`Format` not the empty string and `Pipes.Void` absent (meaning-preserving normal form: neither is printed), sizes /
integers whose decimal text is read back (`sizeOK`, `intOK`), a Range with a time point. F12a is a lexer matter and
does not exist at token level. Decidable. -/
def wfLql (rd : Int → Bytes) (l : Lql) : Bool :=
  match l.select, l.describe, l.truncate, l.show_, l.create, l.delete with
  | some s, none, none, none, none, none => wfSelect rd s
  | none, some d, none, none, none, none => wfDescribe d
  | none, none, some t, none, none, none => wfTruncate rd t
  | none, none, none, some s, none, none => wfShow s
  | none, none, none, none, some c, none => wfCreate c
  | none, none, none, none, none, some _ => true
  | _, _, _, _, _, _ => false

/-- the date contract for every instant the statement prints (RANGE bounds, BEFORE) -/
def LqlContract (dp : Bytes → Option Int) (rd : Int → Bytes) (l : Lql) : Prop :=
  (∀ s, l.select = some s → SelectContract dp rd s) ∧ (∀ t, l.truncate = some t → DateContract dp rd t)

/-- fuel that suffices: the sizes of the statement's expressions -/
def lqlSz (l : Lql) : Nat :=
  (match l.select with | some s => srcSz s.source + exprSz s.where_ | none => 0)
  + (match l.truncate with | some t => srcSz t.source | none => 0)
  + (match l.show_ with | some s => (match s.partitions with | some p => srcSz p.source | none => 0) | none => 0)
  + (match l.create with | some c => (match c.pipe with | some p => srcSz p.from_ + exprSz p.where_ | none => 0) | none => 0)

theorem directLql_toks (dp : Bytes → Option Int) (rd : Int → Bytes) (l : Lql) (f : Nat) (hf : lqlSz l ≤ f)
    (hw : wfLql rd l = true) (hc : LqlContract dp rd l) : directLqlFuel dp f (toksLql rd l) = some l := by
  obtain ⟨sel, desc, tr, sh, cr, de⟩ := l
  simp only [wfLql] at hw
  have kS : litMatch (tKw kwSELECT) kwSELECT = true := by decide
  have kD : litMatch (tKw kwDESCRIBE) kwDESCRIBE = true := by decide
  have kT : litMatch (tKw kwTRUNCATE) kwTRUNCATE = true := by decide
  have kH : litMatch (tKw kwSHOW) kwSHOW = true := by decide
  have kC : litMatch (tKw kwCREATE) kwCREATE = true := by decide
  have kX : litMatch (tKw kwDELETE) kwDELETE = true := by decide
  split at hw
  · -- SELECT
    rename_i s
    have hne : isEmptySelect s = false := by
      simp only [wfSelect, Bool.and_eq_true, Bool.not_eq_true'] at hw; exact hw.1.1.1.1.1.1
    have h := dSelectBody_toks dp rd s f (by simpa [lqlSz] using hf) hw (hc.1 s rfl)
    simp [toksLql, directLqlFuel, dSelectRest, kS, h, hne]
  · -- DESCRIBE
    rename_i d
    obtain ⟨part, pipe⟩ := d
    have n1 : litMatch (tKw kwDESCRIBE) kwSELECT = false := by decide
    simp only [wfDescribe] at hw
    split at hw
    · rename_i m
      have hm : KV.tagParse (KV.LB :: (KV.line m ++ [KV.RB])) = some m := by simpa using hw
      have hP : litMatch (tKw kwPARTITION) kwPARTITION = true := by decide
      simp_all [toksLql, toksDescribe, directLqlFuel, dDescribeRest, tagsTok]
    · rename_i n
      have hP : litMatch (tKw kwPARTITION) kwPARTITION = true := by decide
      have hP2 : litMatch (tKw kwPIPE) kwPARTITION = false := by decide
      have hP3 : litMatch (tKw kwPIPE) kwPIPE = true := by decide
      simp_all [toksLql, toksDescribe, directLqlFuel, dDescribeRest]
    · cases hw
  · -- TRUNCATE
    rename_i t
    have n1 : litMatch (tKw kwTRUNCATE) kwSELECT = false := by decide
    have n2 : litMatch (tKw kwTRUNCATE) kwDESCRIBE = false := by decide
    have hf' : srcSz t.source ≤ f := by simpa [lqlSz] using hf
    have h := dTruncate_toks dp rd t f (by
      cases hs : t.source with
      | none => simp
      | some s => cases s <;> simp_all [srcSz]) hw (hc.2 t rfl)
    simp only [toksTruncate, directTruncateFuel, kT, if_true] at h
    simp [toksLql, toksTruncate, directLqlFuel, dTruncateRest, n1, n2, kT, h]
  · -- SHOW
    rename_i s
    obtain ⟨pa, pi⟩ := s
    have n1 : litMatch (tKw kwSHOW) kwSELECT = false := by decide
    have n2 : litMatch (tKw kwSHOW) kwDESCRIBE = false := by decide
    have n3 : litMatch (tKw kwSHOW) kwTRUNCATE = false := by decide
    simp only [wfShow] at hw
    split at hw
    · rename_i p
      obtain ⟨src, off, lim⟩ := p
      simp only [Bool.and_eq_true] at hw
      have h := dSrcOffLim_toks f src off lim (by simpa [lqlSz] using hf) hw.1.1 hw.1.2 hw.2
      have hP : litMatch (tKw kwPARTITIONS) kwPARTITIONS = true := by decide
      simp_all [toksLql, toksShow, directLqlFuel, dShowRest]
    · rename_i p
      obtain ⟨void, off, lim⟩ := p
      simp only [Bool.and_eq_true, Option.isNone_iff_eq_none] at hw
      obtain ⟨⟨hv, ho⟩, hl⟩ := hw
      subst hv
      have h := dSrcOffLim_toks f none off lim (by simp [srcSz]) (by simp [optAll]) ho hl
      simp only [optSourceToks, List.nil_append] at h
      have hP : litMatch (tKw kwPIPES) kwPARTITIONS = false := by decide
      have hP2 : litMatch (tKw kwPIPES) kwPIPES = true := by decide
      simp_all [toksLql, toksShow, directLqlFuel, dShowRest]
    · cases hw
  · -- CREATE
    rename_i c
    obtain ⟨pipe⟩ := c
    have n1 : litMatch (tKw kwCREATE) kwSELECT = false := by decide
    have n2 : litMatch (tKw kwCREATE) kwDESCRIBE = false := by decide
    have n3 : litMatch (tKw kwCREATE) kwTRUNCATE = false := by decide
    have n4 : litMatch (tKw kwCREATE) kwSHOW = false := by decide
    cases pipe with
    | none => simp [toksLql, directLqlFuel, dCreateRest, n1, n2, n3, n4, kC]
    | some p =>
      simp only [wfCreate, Bool.and_eq_true] at hw
      have h := dPipeBody_toks f p (by simpa [lqlSz] using hf) hw.1 hw.2
      have hs : ∃ a b r, toksPipe p = a :: b :: r := ⟨_, _, _, rfl⟩
      obtain ⟨a, b, r, hab⟩ := hs
      simp only [toksLql, directLqlFuel, n1, n2, n3, n4, kC, List.nil_append, List.append_nil, if_true, Bool.false_eq_true, if_false]
      rw [hab] at h ⊢
      simp [dCreateRest, h]
  · -- DELETE
    rename_i d
    obtain ⟨pn⟩ := d
    have n1 : litMatch (tKw kwDELETE) kwSELECT = false := by decide
    have n2 : litMatch (tKw kwDELETE) kwDESCRIBE = false := by decide
    have n3 : litMatch (tKw kwDELETE) kwTRUNCATE = false := by decide
    have n4 : litMatch (tKw kwDELETE) kwSHOW = false := by decide
    have n5 : litMatch (tKw kwDELETE) kwCREATE = false := by decide
    have hP : litMatch (tKw kwPIPE) kwPIPE = true := by decide
    cases pn with
    | none => simp [toksLql, directLqlFuel, dDeleteRest, n1, n2, n3, n4, n5, kX]
    | some n => simp [toksLql, directLqlFuel, dDeleteRest, n1, n2, n3, n4, n5, kX, hP]
  · cases hw

end Logrange.Lql
