import Logrange.Proofs.RdRngDefs
import Logrange.Proofs.PipeHist
/-!
# C02 → C03/C16: the window contract of the `Rd` iterator models, from the pipeline model

`Rd.WinSound` (every in-range record of a chunk lies inside the chunk's window) and the body of `Rd.WinMonotone`
(Props/C03Ranged: what the paging theorems need across appends) for the `Rd` journal read off a pipeline state (`rdJournal`:
chunk ids ×10, windows = what a fresh selector's `updatePoss` answers), for every monotone history and every continuation.
-/
set_option linter.unusedVariables false
namespace Logrange.PipeWin
open Logrange Logrange.Rd Logrange.PipeHist Logrange.PartHist

theorem grows_mem_partner : ∀ (r r' : Journal), Grows r r' → ∀ c ∈ r, ∃ c2 ∈ r', c.id = c2.id := by
  intro r r' hg
  induction hg with
  | nil _ => intro c hc; simp at hc
  | cons a a' t t' ha _ _ _ ih =>
    intro c hc
    rcases List.mem_cons.mp hc with q | q
    · subst q; exact ⟨a', List.mem_cons_self, ha⟩
    · obtain ⟨x, hx, ex⟩ := ih c q; exact ⟨x, List.mem_cons_of_mem _ hx, ex⟩

/-- the partner of a chunk of `j` in the grown journal `j'` (unique ids) -/
theorem grows_partner : ∀ (j j' : Journal), Grows j j' → Sorted j' → ∀ c ∈ j, ∀ c' ∈ j', c.id = c'.id → c.recs <+: c'.recs := by
  intro j j' hg
  induction hg with
  | nil j' => intro _ c hc; simp at hc
  | cons c0 c0' r r' hid hpre _ hgr ih =>
    intro hs c hc c' hc' e
    have hs' := List.pairwise_cons.mp hs
    rcases List.mem_cons.mp hc with h | h
    · subst h
      rcases List.mem_cons.mp hc' with h' | h'
      · subst h'; exact hpre
      · -- c' in the tail has a greater id than c0' = id of c
        have := hs'.1 c' h'
        omega
    · rcases List.mem_cons.mp hc' with h' | h'
      · subst h'
        -- c in r has a partner in r' with the same id, which is greater than c'.id
        obtain ⟨c2, hc2, e2⟩ := grows_mem_partner r r' hgr c h
        have := hs'.1 c2 hc2
        omega
      · exact ih hs'.2 c h c' h' e

/-- **WinMonotone is window soundness before and after** (body of `Rd.WinMonotone j j' lo hi`, Props/C03Ranged): when the journal
only grows (`Grows`) and the chunk ids of the grown journal are distinct (`Sorted`), the two extra clauses follow from
`WinSound` of both journals — an old in-range record keeps its index (prefix) and is in range, so the NEW window contains
it; a record of the old part below the OLD window start cannot be in range. -/
theorem winMonotone_of_winSound (j j' : Journal) (lo hi : Option Int) (hg : Grows j j') (hs : Sorted j')
    (h1 : WinSound j lo hi) (h2 : WinSound j' lo hi) :
    Grows j j' ∧ WinSound j lo hi ∧ WinSound j' lo hi ∧
    ∀ c ∈ j, ∀ c' ∈ j', c.id = c'.id →
      (∀ (k : Nat) (r : Rec), c.recs[k]? = some r → inRange lo hi r = true → c'.minPos ≤ k ∧ k ≤ c'.maxPos) ∧
      (∀ (k : Nat) (r : Rec), c'.recs[k]? = some r → c'.minPos ≤ k → k < c.minPos → k < c.cnt → inRange lo hi r = false) := by
  refine ⟨hg, h1, h2, ?_⟩
  intro c hc c' hc' e
  have hpre := grows_partner j j' hg hs c hc c' hc' e
  obtain ⟨t, ht⟩ := hpre
  constructor
  · intro k r hr hin
    apply h2 c' hc' k r _ hin
    rw [← ht, List.getElem?_append_left (by
      have := List.getElem?_eq_some_iff.mp hr
      obtain ⟨h, _⟩ := this; exact h)]
    exact hr
  · intro k r hr _ hlt hk
    cases hin : inRange lo hi r with
    | false => rfl
    | true =>
      have hr' : c.recs[k]? = some r := by
        rw [← ht, List.getElem?_append_left hk] at hr; exact hr
      have := (h1 c hc k r hr' hin).1
      omega

/-- the records per chunk only grow: chunk by chunk a prefix, only the last chunk of the old list can be longer, new
chunks at the end -/
def GrowsL (a b : List (List Int)) : Prop :=
  a.length ≤ b.length ∧ ∀ k (h1 : k < a.length) (h2 : k < b.length), a[k] <+: b[k] ∧ (k + 1 < a.length → a[k] = b[k])

theorem growsL_refl (a : List (List Int)) : GrowsL a a :=
  ⟨Nat.le_refl _, fun k _ _ => ⟨List.prefix_refl _, fun _ => rfl⟩⟩

theorem growsL_trans {a b c : List (List Int)} (h1 : GrowsL a b) (h2 : GrowsL b c) : GrowsL a c := by
  refine ⟨Nat.le_trans h1.1 h2.1, ?_⟩
  intro k ha hc
  have hb : k < b.length := by have := h1.1; omega
  obtain ⟨p1, q1⟩ := h1.2 k ha hb
  obtain ⟨p2, q2⟩ := h2.2 k hb hc
  refine ⟨List.IsPrefix.trans p1 p2, ?_⟩
  intro hk
  rw [q1 hk, q2 (by have := h1.1; omega)]

theorem growsL_snoc (a : List (List Int)) (l : List Int) : GrowsL a (a ++ [l]) := by
  refine ⟨by simp, ?_⟩
  intro k h1 h2
  rw [List.getElem_append_left h1]
  exact ⟨List.prefix_refl _, fun _ => rfl⟩

theorem growsL_extendLast (front : List (List Int)) (base l : List Int) : GrowsL (front ++ [base]) (front ++ [base ++ l]) := by
  refine ⟨by simp, ?_⟩
  intro k h1 h2
  by_cases hk : k < front.length
  · rw [List.getElem_append_left hk, List.getElem_append_left hk]
    exact ⟨List.prefix_refl _, fun _ => rfl⟩
  · have : k = front.length := by simp at h1; omega
    subst this
    simp only [List.getElem_append_right (Nat.le_refl _), Nat.sub_self, List.getElem_cons_zero]
    exact ⟨List.prefix_append _ _, fun h => by simp at h⟩

theorem pieceStep_growsL (st : PSt × WriteLoop.IW) (pc : Piece) : GrowsL st.1.tss (pieceStep st pc).1.tss := by
  unfold pieceStep
  cases hb : pc.newChunk with
  | true => simp only [if_true, List.nil_append]; exact growsL_snoc _ _
  | false =>
    simp only [Bool.false_eq_true, if_false]
    by_cases hne : st.1.tss = []
    · rw [hne]; exact ⟨by simp, fun k h1 _ => by simp at h1⟩
    · obtain ⟨front, base, e⟩ : ∃ front base, st.1.tss = front ++ [base] :=
        ⟨st.1.tss.dropLast, st.1.tss.getLast hne, (List.dropLast_concat_getLast hne).symm⟩
      rw [e]
      simp only [List.dropLast_concat, List.getLast?_concat, Option.getD_some]
      exact growsL_extendLast front base pc.l

theorem pieces_growsL : ∀ (pieces : List Piece) (st : PSt × WriteLoop.IW), GrowsL st.1.tss (pieces.foldl pieceStep st).1.tss := by
  intro pieces
  induction pieces with
  | nil => intro st; exact growsL_refl _
  | cons pc r ih => intro st; exact growsL_trans (pieceStep_growsL st pc) (ih _)

theorem step_growsL (st : PSt) (ev : Ev) : GrowsL st.tss (step st ev).tss := by
  cases ev with
  | call c => exact pieces_growsL c (st, {})
  | rebuild k m => exact growsL_refl _

theorem steps_growsL : ∀ (evs : List Ev) (st : PSt), GrowsL st.tss (evs.foldl step st).tss := by
  intro evs
  induction evs with
  | nil => intro st; exact growsL_refl _
  | cons ev r ih => intro st; exact growsL_trans (step_growsL st ev) (ih _)

theorem run_append (evs evs' : List Ev) : run (evs ++ evs') = evs'.foldl step (run evs) := by
  simp [run, List.foldl_append]

/-- the pipeline state as the `Rd` journal the iterator models of C03/C16 read: chunk ids ×10, records labelled by `mk`
(chunk index, position, timestamp), window = what a fresh selector's `updatePoss` answers for the range -/
def rdJournal (mk : Nat → Nat → Int → Rec) (st : PSt) (rmin rmax : Int) : Journal :=
  (List.range st.tss.length).map (fun k =>
    { id := (k + 1) * 10,
      recs := (List.range (st.tss.getD k []).length).map (fun i => mk k i ((st.tss.getD k []).getD i 0)),
      minPos := (RangedIter.updatePoss (toSt st rmin rmax) ((k + 1) * 10) { count := (st.tss.getD k []).length }).1.minPos,
      maxPos := (RangedIter.updatePoss (toSt st rmin rmax) ((k + 1) * 10) { count := (st.tss.getD k []).length }).1.maxPos })

theorem rdJournal_sorted (mk : Nat → Nat → Int → Rec) (st : PSt) (rmin rmax : Int) : Sorted (rdJournal mk st rmin rmax) := by
  unfold Sorted rdJournal
  rw [List.pairwise_map]
  have : (List.range st.tss.length).Pairwise (· < ·) := List.pairwise_lt_range
  exact this.imp (fun h => by simp only; omega)

theorem grows_of_index : ∀ (j j' : Journal), j.length ≤ j'.length →
    (∀ k (h1 : k < j.length) (h2 : k < j'.length), (j[k]).id = (j'[k]).id ∧ (j[k]).recs <+: (j'[k]).recs ∧
      (k + 1 < j.length → (j[k]).recs = (j'[k]).recs)) → Grows j j' := by
  intro j
  induction j with
  | nil => intro j' _ _; exact Grows.nil j'
  | cons c r ih =>
    intro j' hl h
    cases j' with
    | nil => simp at hl
    | cons c' r' =>
      obtain ⟨e1, e2, e3⟩ := h 0 (by simp) (by simp)
      refine Grows.cons c c' r r' e1 e2 ?_ (ih r' (by simpa using hl) ?_)
      · intro hne
        apply e3
        have : 0 < r.length := List.length_pos_iff.mpr hne
        simp; omega
      · intro k h1 h2
        have := h (k + 1) (by simp; omega) (by simp; omega)
        simp only [List.getElem_cons_succ] at this
        refine ⟨this.1, this.2.1, fun hk => this.2.2 (by simp; omega)⟩

theorem recs_prefix (mk : Nat → Nat → Int → Rec) (k : Nat) {a b : List Int} (h : a <+: b) :
    (List.range a.length).map (fun i => mk k i (a.getD i 0)) <+: (List.range b.length).map (fun i => mk k i (b.getD i 0)) := by
  obtain ⟨t, rfl⟩ := h
  rw [List.prefix_iff_eq_take]
  apply List.ext_getElem
  · simp
  · intro i h1 h2
    simp at h1
    simp [List.getElem_take, List.getElem?_append_left h1]

/-- the `Rd` journal of a pipeline state grows when the history is continued -/
theorem rdJournal_grows (mk : Nat → Nat → Int → Rec) (evs evs' : List Ev) (rmin rmax : Int) :
    Grows (rdJournal mk (run evs) rmin rmax) (rdJournal mk (run (evs ++ evs')) rmin rmax) := by
  have hg : GrowsL (run evs).tss (run (evs ++ evs')).tss := by rw [run_append]; exact steps_growsL evs' _
  apply grows_of_index
  · simp [rdJournal]; exact hg.1
  · intro k h1 h2
    simp [rdJournal] at h1 h2
    obtain ⟨p, q⟩ := hg.2 k h1 h2
    simp only [rdJournal, List.getElem_map, List.getElem_range]
    have ea : (run evs).tss.getD k [] = (run evs).tss[k] := by simp [h1]
    have eb : (run (evs ++ evs')).tss.getD k [] = (run (evs ++ evs')).tss[k] := by simp [h2]
    rw [ea, eb]
    refine ⟨trivial, recs_prefix mk k p, ?_⟩
    intro hk
    simp at hk
    rw [q hk]


theorem mem_flatten_of_getD (tss : List (List Int)) (k q : Nat) (hk : k < tss.length) (hq : q < (tss.getD k []).length) :
    (tss.getD k []).getD q 0 ∈ tss.flatten := by
  have e : tss.getD k [] = tss[k] := by simp [hk]
  rw [e] at hq ⊢
  have e2 : (tss[k]).getD q 0 = (tss[k])[q] := by simp [hq]
  rw [e2]
  exact List.mem_flatten.mpr ⟨tss[k], List.getElem_mem hk, List.getElem_mem hq⟩

/-- **window soundness of the pipeline's `Rd` journal**: after every monotone history, for every RANGE (missing bounds = the
regenerated defaults) -/
theorem rdJournal_winSound (mk : Nat → Nat → Int → Rec) (hmk : ∀ k i t, (mk k i t).ts = t) (evs : List Ev)
    (hs : (allTs evs).Pairwise (· ≤ ·)) (hb : ∀ t ∈ allTs evs, Points.minI64 ≤ t ∧ t ≤ RebuildHist.maxI64) (hok : HistOK {} evs)
    (hsmall : ∀ l ∈ (run evs).tss, l.length ≤ 4294967295) (lo hi : Option Int) :
    WinSound (rdJournal mk (run evs) (RangedIter.rangeOf lo hi).1 (RangedIter.rangeOf lo hi).2) lo hi := by
  have f1 : Generated.C02.rangeDefaultLower = Points.minI64 := by decide
  have f2 : Generated.C02.rangeDefaultUpper = RebuildHist.maxI64 := by decide
  have hflat := (run_read_eq_filter evs hs hb hok hsmall 0 0).2
  intro c hc k' r hr hin
  simp only [rdJournal, List.mem_map, List.mem_range] at hc
  obtain ⟨k, hk, rfl⟩ := hc
  simp only [List.getElem?_map] at hr
  have hk' : k' < ((run evs).tss.getD k []).length := by
    cases h : (List.range ((run evs).tss.getD k []).length)[k']? with
    | none => rw [h] at hr; simp at hr
    | some v =>
      have := List.getElem?_eq_some_iff.mp h
      obtain ⟨hh, _⟩ := this
      simpa using hh
  have hr' : r = mk k k' (((run evs).tss.getD k []).getD k' 0) := by
    rw [List.getElem?_range hk'] at hr
    simp at hr
    exact hr.symm
  have hts : r.ts = tsAt (run evs).tss (k, k') := by rw [hr', hmk]; rfl
  have hmem : tsAt (run evs).tss (k, k') ∈ allTs evs := by
    rw [← hflat]; exact mem_flatten_of_getD _ k k' hk hk'
  obtain ⟨b1, b2⟩ := hb _ hmem
  apply run_chunk_window evs hs hb hok hsmall _ _ k _ k' hk'
  unfold Rd.inRange at hin
  simp only [Bool.and_eq_true] at hin
  obtain ⟨i1, i2⟩ := hin
  rw [← hts]
  constructor
  · cases lo with
    | none => simp only [RangedIter.rangeOf, Option.getD_none, f1]; rw [hts]; exact b1
    | some m => simpa [RangedIter.rangeOf] using i1
  · cases hi with
    | none => simp only [RangedIter.rangeOf, Option.getD_none, f2]; rw [hts]; exact b2
    | some m => simpa [RangedIter.rangeOf] using i2

/-- **`WinMonotone` from the pipeline model** (the body of `Rd.WinMonotone j j' lo hi` of Props/C03Ranged with `j` = the journal
after a monotone history `evs` and `j'` = the journal after ANY continuation `evs'` of it — further Write calls, rebuilds —
that keeps the whole history monotone): true, and it needs nothing beyond window soundness of both journals. -/
theorem winMonotone_pipeline (mk : Nat → Nat → Int → Rec) (hmk : ∀ k i t, (mk k i t).ts = t) (evs evs' : List Ev)
    (hs : (allTs (evs ++ evs')).Pairwise (· ≤ ·)) (hb : ∀ t ∈ allTs (evs ++ evs'), Points.minI64 ≤ t ∧ t ≤ RebuildHist.maxI64)
    (hok1 : HistOK {} evs) (hok : HistOK {} (evs ++ evs'))
    (hs1 : (allTs evs).Pairwise (· ≤ ·)) (hb1 : ∀ t ∈ allTs evs, Points.minI64 ≤ t ∧ t ≤ RebuildHist.maxI64)
    (hsmall : ∀ l ∈ (run (evs ++ evs')).tss, l.length ≤ 4294967295)
    (hsmall1 : ∀ l ∈ (run evs).tss, l.length ≤ 4294967295) (lo hi : Option Int) :
    let j := rdJournal mk (run evs) (RangedIter.rangeOf lo hi).1 (RangedIter.rangeOf lo hi).2
    let j' := rdJournal mk (run (evs ++ evs')) (RangedIter.rangeOf lo hi).1 (RangedIter.rangeOf lo hi).2
    Grows j j' ∧ WinSound j lo hi ∧ WinSound j' lo hi ∧
    ∀ c ∈ j, ∀ c' ∈ j', c.id = c'.id →
      (∀ (k : Nat) (r : Rec), c.recs[k]? = some r → inRange lo hi r = true → c'.minPos ≤ k ∧ k ≤ c'.maxPos) ∧
      (∀ (k : Nat) (r : Rec), c'.recs[k]? = some r → c'.minPos ≤ k → k < c.minPos → k < c.cnt → inRange lo hi r = false) :=
  winMonotone_of_winSound _ _ lo hi (rdJournal_grows mk evs evs' _ _) (rdJournal_sorted mk _ _ _)
    (rdJournal_winSound mk hmk evs hs1 hb1 hok1 hsmall1 lo hi) (rdJournal_winSound mk hmk (evs ++ evs') hs hb hok hsmall lo hi)

end Logrange.PipeWin
