import Logrange.Model.RebuildHist
import Logrange.Proofs.ChunkHist
import Logrange.Proofs.PointsMerge
/-!
# Soundness of the rebuilt time index and of write histories that contain rebuilds

* (a) the two look-ups are sound for every index with `LookupSound` (no sortedness needed);
* (b) `window_complete_of_lookup`: the selector's window is complete from `HullSound` + `LookupSound`;
* (c) `IndexSound → LookupSound`;
* (d) `rebuild_sound`: the Points-level `rebuildIndexInt` over a confirmed prefix of monotone data is `LookupSound`;
* (e) `SoundL` is preserved by writes and rebuilds on monotone data; `window_complete_with_rebuilds`;
* (f) concrete instances.
-/
namespace Logrange.RebuildHist
open Logrange.Points Logrange.ChunkHist

/-- the model's segment test is the code's (`pos1 - pos0 < sparseSpace` → `continue`) -/
example : Generated.C02.rebuildSegmentIsStrictLess = true := by decide

/-! ## (a) look-ups from `LookupSound` -/

/-- the answer of `less` is the index of a point with `ts > t` -/
theorem lessPos_mem (t : Int) : ∀ (pts : List Pt) (m : Nat), lessPos pts t = some m → ∃ p ∈ pts, p.idx = m ∧ t < p.ts := by
  intro pts
  induction pts with
  | nil => intro m hm; simp [lessPos, cntLE] at hm
  | cons a r ih =>
    intro m hm
    by_cases ha : a.ts ≤ t
    · have hm' : lessPos r t = some m := by
        simpa [lessPos, cntLE_cons_le ha] using hm
      obtain ⟨p, hp, h1, h2⟩ := ih m hm'
      exact ⟨p, List.mem_cons_of_mem _ hp, h1, h2⟩
    · have : m = a.idx := by
        simp [lessPos, cntLE_cons_gt ha] at hm; exact hm.symm
      exact ⟨a, List.mem_cons_self, this.symm, by omega⟩

/-- the answer of `grEq` is 0 or the index of a point with `ts ≤ t` -/
theorem grEqPos_mem (t : Int) : ∀ (pts : List Pt), grEqPos pts t = 0 ∨ ∃ p ∈ pts, p.ts ≤ t ∧ grEqPos pts t = p.idx := by
  intro pts
  induction pts with
  | nil => left; simp [grEqPos, cntLE]
  | cons a r ih =>
    by_cases ha : a.ts ≤ t
    · cases r with
      | nil => right; exact ⟨a, List.mem_cons_self, ha, grEqPos_single_le ha⟩
      | cons b r' =>
        by_cases hb : b.ts ≤ t
        · rw [grEqPos_cons_cons_le ha hb]
          rcases ih with h | ⟨p, hp, h1, h2⟩
          · left; exact h
          · right; exact ⟨p, List.mem_cons_of_mem _ hp, h1, h2⟩
        · right; exact ⟨a, List.mem_cons_self, ha, grEqPos_cons_le_gt ha hb⟩
    · left; exact grEqPos_cons_gt ha

/-- `less`: a position beyond the answer cannot have `ts ≤ t` -/
theorem less_upper_of_lookup {tsOf : Nat → Int} {n : Nat} {pts : List Pt} (hl : LookupSound tsOf n pts) {t : Int} {m : Nat}
    (hm : lessPos pts t = some m) {q : Nat} (hq : m < q) (hqn : q < n) : t < tsOf q := by
  obtain ⟨p, hp, h1, h2⟩ := lessPos_mem t pts m hm
  have := hl.2 p hp q (by omega) hqn
  omega

/-- `grEq` asked for `t − 1` answers a position at or before every record with `ts ≥ t` -/
theorem grEq_lower_of_lookup {tsOf : Nat → Int} {n : Nat} {pts : List Pt} (hl : LookupSound tsOf n pts) {t : Int} {q : Nat}
    (hq : t ≤ tsOf q) (hqn : q < n) : grEqPos pts (t - 1) ≤ q := by
  rcases grEqPos_mem (t - 1) pts with h | ⟨p, hp, h1, h2⟩
  · omega
  · rw [h2]
    apply Nat.le_of_not_lt
    intro hlt
    have := hl.1 p hp q hlt hqn
    omega

/-! ## (b) completeness of the window from `LookupSound` -/

/-- **the index may only skip events outside the range** — from `LookupSound` instead of `IndexSound` -/
theorem window_complete_of_lookup {tsOf : Nat → Int} {n : Nat} (h : Hull) (idx : Option (List Pt)) (r : TmRange)
    (hh : HullSound h tsOf n) (hi : ∀ pts, idx = some pts → LookupSound tsOf n pts) (hn : n ≤ maxU32)
    (hmin : minI64 ≤ h.minTs) (p : Nat) (hp : p < n) (hr : inRange r (tsOf p)) : inWindow (window h idx r) p := by
  have hfact : Generated.C02.lowerAskMinusOne = true := by decide
  obtain ⟨h1, h2⟩ := hh p hp
  obtain ⟨r1, r2⟩ := hr
  have hpm : p ≤ maxU32 := by omega
  unfold window
  have hc : ¬ (r.maxTs < h.minTs ∨ r.minTs > h.maxTs) := by omega
  simp only [hc, if_false]
  constructor
  · -- lower side
    show (if r.minTs ≥ h.minTs then ciGrEq h idx (lowerAsk r.minTs) else 0) ≤ p
    split
    · unfold ciGrEq
      split
      · omega
      · split
        · omega
        · cases idx with
          | none => simp
          | some pts =>
            simp only []
            have hs := hi pts rfl
            unfold lowerAsk lowerAskWith
            rw [hfact]
            by_cases hm : r.minTs > minI64
            · simp only [Bool.true_and, hm, decide_true, if_true]
              exact grEq_lower_of_lookup hs r1 hp
            · -- r.minTs = minI64 ≤ h.minTs ≤ r.minTs: the hull short-cut has already fired
              rename_i hx hy
              unfold lowerAsk lowerAskWith at hy
              rw [hfact] at hy
              simp only [Bool.true_and, hm, decide_false] at hy
              omega
    · omega
  · -- upper side
    show p ≤ (if r.maxTs ≤ h.maxTs then ciLess h idx r.maxTs else maxU32)
    split
    · unfold ciLess
      split
      · exact hpm
      · split
        · exact hpm
        · cases idx with
          | none => exact hpm
          | some pts =>
            simp only []
            have hs := hi pts rfl
            cases hl : lessPos pts r.maxTs with
            | none => simpa using hpm
            | some m =>
              simp only [Option.getD_some]
              apply Nat.le_of_not_lt
              intro hlt
              have := less_upper_of_lookup hs hl hlt hp
              omega
    · exact hpm

/-! ## (c) `IndexSound` implies `LookupSound` -/

theorem upper_mem_aux (tsOf : Nat → Int) : ∀ (r : List Pt) (a : Pt), SortedTs (a :: r) → Claims tsOf (a :: r) →
    (∀ q, q ≤ a.idx → tsOf q ≤ a.ts) → ∀ p ∈ a :: r, ∀ q, q ≤ p.idx → tsOf q ≤ p.ts := by
  intro r
  induction r with
  | nil =>
    intro a _ _ H p hp q hq
    simp at hp; subst hp; exact H q hq
  | cons b r' ih =>
    intro a hs hc H p hp q hq
    cases hp with
    | head => exact H q hq
    | tail _ hp' =>
      refine ih b hs.2 hc.2 ?_ p hp' q hq
      intro q' hq'
      by_cases h1 : q' ≤ a.idx
      · have := H q' h1; have := hs.1; omega
      · exact (hc.1 q' (by omega) hq').2

theorem lookupSound_of_indexSound {tsOf : Nat → Int} {n : Nat} {pts : List Pt} (hs : IndexSound tsOf n pts) :
    LookupSound tsOf n pts := by
  constructor
  · match pts, hs with
    | [], _ => intro p hp; simp at hp
    | [a], hs => exact absurd rfl hs.len
    | a :: b :: r, hs =>
      have hh := hs.head
      simp only [HeadOk] at hh
      intro p hp q hq _
      cases hp with
      | head => omega
      | tail _ hp' =>
        refine upper_mem_aux tsOf r b hs.sortedTs.2 hs.claims.2 ?_ p hp' q (by omega)
        intro q' hq'
        by_cases h0 : q' = 0
        · subst h0; exact hh.2.2
        · exact (hs.claims.1 q' (by omega) hq').2
  · intro p hp q h1 h2
    have hne : pts ≠ [] := by intro h; subst h; simp at hp
    exact after_ge_mem tsOf n pts hs.sortedTs hs.claims (hs.tail hne) p hp q h1 h2

/-! ## (d) the rebuilt index on monotone data -/

/-- a point of the index rebuilt from the first `m` records: it carries the timestamp of the record just before its
(exclusive) position; the two root points `(t0, 0)` fit with `0 - 1 = 0` -/
def RbPt (tsOf : Nat → Int) (m : Nat) (p : Pt) : Prop := p.idx ≤ m ∧ 0 < m ∧ p.ts = tsOf (p.idx - 1)

theorem writeSeg_append {pts : List Pt} {segMin segMax : Int} {pos0 pos1 : Nat} (hne : pts ≠ []) (hlt : pos0 ≠ pos1)
    (hall : ∀ p ∈ pts, p.ts ≤ segMin) : writeSeg pts segMin segMax pos0 pos1 = pts ++ [⟨segMax, pos1⟩] := by
  unfold writeSeg
  rw [if_neg hlt]
  cases pts with
  | nil => exact absurd rfl hne
  | cons a r =>
    simp only [add]
    rw [if_pos (cntLE_eq_length_of_all_le segMin (a :: r) hall)]

/-- invariant of the scanning loop on monotone data: every `addInterval` is an append of `(tsOf (pos1-1), pos1)` -/
theorem scan_inv {tsOf : Nat → Int} {m sparse : Nat} {segMax0 : Int} (hmono : Monotone tsOf m)
    (hs0 : ∀ q, q < m → segMax0 ≤ tsOf q) (hhi : ∀ q, q < m → tsOf q ≤ maxI64) :
    ∀ (k : Nat) (pts : List Pt) (pos0 pos1 : Nat) (segMin segMax : Int), pos1 + k = m → pos0 ≤ pos1 → 0 < m →
      pts ≠ [] → (∀ p ∈ pts, RbPt tsOf m p ∧ p.idx ≤ pos0) →
      (pos0 < pos1 → segMin = tsOf pos0 ∧ segMax = tsOf (pos1 - 1)) →
      (pos0 = pos1 → segMin = maxI64 ∧ segMax = segMax0) →
      ∀ p ∈ scan sparse segMax0 ((List.range' pos1 k).map tsOf) pts pos0 pos1 segMin segMax, RbPt tsOf m p := by
  intro k
  induction k with
  | zero =>
    intro pts pos0 pos1 segMin segMax hk hle hm0 hne H Hlt Heq p hp
    simp only [List.range'_zero, List.map_nil, scan] at hp
    by_cases he : pos0 = pos1
    · unfold writeSeg at hp
      rw [if_pos he] at hp
      exact (H p hp).1
    · obtain ⟨e1, e2⟩ := Hlt (by omega)
      have hall : ∀ p ∈ pts, p.ts ≤ segMin := by
        intro p' hp'
        obtain ⟨⟨h1, _, h3⟩, h4⟩ := H p' hp'
        have := hmono (p'.idx - 1) pos0 (by omega) (by omega)
        omega
      rw [writeSeg_append hne he hall, List.mem_append] at hp
      rcases hp with hp | hp
      · exact (H p hp).1
      · simp at hp; subst hp
        exact ⟨by dsimp only; omega, hm0, e2⟩
  | succ k ih =>
    intro pts pos0 pos1 segMin segMax hk hle hm0 hne H Hlt Heq p hp
    rw [List.range'_succ, List.map_cons] at hp
    have hp1 : pos1 < m := by omega
    have hmin : min segMin (tsOf pos1) = tsOf pos0 := by
      by_cases he : pos0 = pos1
      · obtain ⟨e1, _⟩ := Heq he
        have := hhi pos1 hp1
        rw [e1, he]; omega
      · obtain ⟨e1, _⟩ := Hlt (by omega)
        have := hmono pos0 pos1 hle hp1
        rw [e1]; omega
    have hmax : max segMax (tsOf pos1) = tsOf pos1 := by
      by_cases he : pos0 = pos1
      · obtain ⟨_, e2⟩ := Heq he
        have := hs0 pos1 hp1
        rw [e2]; omega
      · obtain ⟨_, e2⟩ := Hlt (by omega)
        have := hmono (pos1 - 1) pos1 (by omega) hp1
        rw [e2]; omega
    simp only [scan] at hp
    rw [hmin, hmax] at hp
    split at hp
    · refine ih pts pos0 (pos1 + 1) _ _ (by omega) (by omega) hm0 hne H ?_ ?_ p hp
      · intro _; exact ⟨rfl, by simp⟩
      · intro h; omega
    · have hall : ∀ p ∈ pts, p.ts ≤ tsOf pos0 := by
        intro p' hp'
        obtain ⟨⟨h1, _, h3⟩, h4⟩ := H p' hp'
        have := hmono (p'.idx - 1) pos0 (by omega) (by omega)
        omega
      rw [writeSeg_append hne (by omega) hall] at hp
      refine ih _ (pos1 + 1) (pos1 + 1) _ _ (by omega) (Nat.le_refl _) hm0 (by simp) ?_ ?_ ?_ p hp
      · intro p' hp'
        rw [List.mem_append] at hp'
        rcases hp' with hp' | hp'
        · obtain ⟨h1, h4⟩ := H p' hp'
          exact ⟨h1, by omega⟩
        · simp at hp'; subst hp'
          exact ⟨⟨by dsimp only; omega, hm0, by simp⟩, by simp⟩
      · intro h; omega
      · intro _; exact ⟨rfl, rfl⟩

theorem lookupSound_of_rbPt {tsOf : Nat → Int} {n m : Nat} {pts : List Pt} (hmono : Monotone tsOf n) (hmn : m ≤ n)
    (H : ∀ p ∈ pts, RbPt tsOf m p) : LookupSound tsOf n pts := by
  constructor
  · intro p hp q h1 _
    obtain ⟨e1, _, e3⟩ := H p hp
    rw [e3]
    exact hmono q (p.idx - 1) (by omega) (by omega)
  · intro p hp q h1 h2
    obtain ⟨e1, _, e3⟩ := H p hp
    rw [e3]
    exact hmono (p.idx - 1) q (by omega) h2

theorem map_range_succ_eq (tsOf : Nat → Int) (k : Nat) :
    (List.range (k + 1)).map tsOf = tsOf 0 :: (List.range' 1 k).map tsOf := by
  rw [List.range_eq_range', List.range'_succ]
  rfl

/-- every point of the index rebuilt from the first `m` records of monotone data is an `RbPt` -/
theorem rebuildPts_rbPt {tsOf : Nat → Int} {m : Nat} (sparse : Nat) {segMax0 : Int} (hmono : Monotone tsOf m)
    (hs0 : ∀ q, q < m → segMax0 ≤ tsOf q) (hhi : ∀ q, q < m → tsOf q ≤ maxI64) :
    ∀ p ∈ rebuildPts sparse segMax0 ((List.range m).map tsOf), RbPt tsOf m p := by
  cases m with
  | zero => intro p hp; simp [rebuildPts] at hp
  | succ k =>
    intro p hp
    have e : rebuildPts sparse segMax0 ((List.range (k + 1)).map tsOf) =
        scan sparse segMax0 ((List.range' 0 (k + 1)).map tsOf) [⟨tsOf 0, 0⟩, ⟨tsOf 0, 0⟩] 0 0 maxI64 segMax0 := by
      rw [← List.range_eq_range']
      rw [map_range_succ_eq]
      rfl
    rw [e] at hp
    refine scan_inv hmono hs0 hhi (k + 1) _ 0 0 _ _ (by omega) (Nat.le_refl _) (by omega) (by simp) ?_ ?_ ?_ p hp
    · intro p' hp'
      simp at hp'
      subst hp'
      exact ⟨⟨by simp, by omega, rfl⟩, by simp⟩
    · intro h; omega
    · intro _; exact ⟨rfl, rfl⟩

/-- **(d)** the index `rebuildIndexInt` builds from the first `m` (confirmed) records of a chunk with `n` monotone
records is sound for both look-ups over ALL `n` records (`segMax0 = MinInt64` satisfies `hs0`; `0 < sparse` is not
needed) -/
theorem rebuild_sound {tsOf : Nat → Int} {n m : Nat} (sparse : Nat) {segMax0 : Int} (hmono : Monotone tsOf n) (hmn : m ≤ n)
    (hs0 : ∀ q, q < n → segMax0 ≤ tsOf q) (hhi : ∀ q, q < n → tsOf q ≤ maxI64) :
    LookupSound tsOf n (rebuildPts sparse segMax0 ((List.range m).map tsOf)) :=
  lookupSound_of_rbPt hmono hmn
    (rebuildPts_rbPt sparse (monotone_mono hmono hmn) (fun q hq => hs0 q (by omega)) (fun q hq => hhi q (by omega)))

/-! ### the scanned hull is exact on monotone data -/

theorem foldl_min_range (tsOf : Nat → Int) : ∀ m, Monotone tsOf m →
    ((List.range m).map tsOf).foldl min (tsOf 0) = tsOf 0 := by
  intro m
  induction m with
  | zero => intro _; rfl
  | succ k ih =>
    intro hm
    rw [List.range_succ, List.map_append, List.foldl_append, ih (monotone_mono hm (by omega))]
    simp only [List.map_cons, List.map_nil, List.foldl_cons, List.foldl_nil]
    have := hm 0 k (by omega) (by omega)
    omega

theorem foldl_max_range (tsOf : Nat → Int) : ∀ m, Monotone tsOf m →
    ((List.range m).map tsOf).foldl max (tsOf 0) = tsOf (m - 1) := by
  intro m
  induction m with
  | zero => intro _; rfl
  | succ k ih =>
    intro hm
    rw [List.range_succ, List.map_append, List.foldl_append, ih (monotone_mono hm (by omega))]
    simp only [List.map_cons, List.map_nil, List.foldl_cons, List.foldl_nil]
    have := hm (k - 1) k (by omega) (by omega)
    show max (tsOf (k - 1)) (tsOf k) = tsOf k
    omega

/-- `rInfo` of `rebuildIndexInt` over the first `m > 0` records of monotone data is their exact hull -/
theorem scannedHull_exact {tsOf : Nat → Int} {m : Nat} (hm0 : 0 < m) (hmono : Monotone tsOf m) :
    scannedHull ((List.range m).map tsOf) = ⟨tsOf 0, tsOf (m - 1)⟩ := by
  cases m with
  | zero => omega
  | succ k =>
    have e : scannedHull ((List.range (k + 1)).map tsOf) =
        ⟨((List.range (k + 1)).map tsOf).foldl min (tsOf 0), ((List.range (k + 1)).map tsOf).foldl max (tsOf 0)⟩ := by
      rw [map_range_succ_eq]
      rfl
    rw [e, foldl_min_range tsOf (k + 1) hmono, foldl_max_range tsOf (k + 1) hmono]

theorem scannedHull_nil : scannedHull [] = ⟨0, 0⟩ := rfl

/-! ## (e) histories of writes and rebuilds on monotone data -/

/-- the invariant of one chunk's index state w.r.t. the records `tsOf 0 … tsOf (c.n - 1)`, with `LookupSound` in the
place of `IndexSound` -/
structure SoundL (tsOf : Nat → Int) (c : ChunkIdx) : Prop where
  hullSome : c.n > 0 → c.hull ≠ none
  hullOk : ∀ h, c.hull = some h → HullSound h tsOf c.n ∧ minI64 ≤ h.minTs
  lookup : c.corrupted = false → LookupSound tsOf c.n c.pts
  attained : c.corrupted = false → ∀ p ∈ c.pts, ∃ q, q < c.n ∧ p.ts ≤ tsOf q
  idxLe : c.corrupted = false → ∀ p ∈ c.pts, p.idx ≤ c.n

theorem SoundL.hull_pos {tsOf : Nat → Int} {c : ChunkIdx} (hs : SoundL tsOf c) (hn : c.n > 0) :
    ∃ h, c.hull = some h ∧ HullSound h tsOf c.n ∧ minI64 ≤ h.minTs := by
  cases hh : c.hull with
  | none => exact absurd hh (hs.hullSome hn)
  | some h => exact ⟨h, rfl, hs.hullOk h hh⟩

theorem soundL_init (tsOf : Nat → Int) : SoundL tsOf {} := by
  refine ⟨?_, ?_, ?_, ?_, ?_⟩
  · intro h; exact absurd h (by decide)
  · intro h hh; exact absurd hh (by simp)
  · intro _; exact ⟨fun p hp => by simp at hp, fun p hp => by simp at hp⟩
  · intro _ p hp; simp at hp
  · intro _ p hp; simp at hp

theorem rollHull_of_exactHull {tsOf : Nat → Int} {a k : Nat} {mn mx : Int} (he : ExactHull tsOf a k mn mx)
    (hlow : ∀ q, minI64 ≤ tsOf q) : RollHull tsOf a k mn mx := by
  obtain ⟨h1, h2, ⟨q, hq1, hq2, hq3⟩⟩ := he
  refine ⟨h1, h2, Or.inr ⟨q, hq1, hq2, hq3⟩, ?_⟩
  rw [← hq3]; exact hlow q

/-- `LookupSound` survives the growth of the chunk on monotone data when every point's timestamp is attained inside the
old chunk and no point lies beyond the old end -/
theorem lookup_grow {tsOf : Nat → Int} {n n' : Nat} {pts : List Pt} (hl : LookupSound tsOf n pts)
    (hm : Monotone tsOf n') (hatt : ∀ p ∈ pts, ∃ q, q < n ∧ p.ts ≤ tsOf q) (hidx : ∀ p ∈ pts, p.idx ≤ n) :
    LookupSound tsOf n' pts := by
  constructor
  · intro p hp q h1 _
    have := hidx p hp
    exact hl.1 p hp q h1 (by omega)
  · intro p hp q h1 h2
    by_cases hq : q < n
    · exact hl.2 p hp q h1 hq
    · obtain ⟨q0, hq0, hle⟩ := hatt p hp
      have := hm q0 q (by omega) h2
      omega

/-- the hull part of one write -/
theorem hullL_step {tsOf : Nat → Int} {c : ChunkIdx} {k : Nat} {mn mx : Int} (hs : SoundL tsOf c)
    (he : RollHull tsOf c.n k mn mx) :
    HullSound (newHull c.hull mn mx) tsOf (c.n + k) ∧ minI64 ≤ (newHull c.hull mn mx).minTs := by
  obtain ⟨hin, _, _, hmn⟩ := he
  cases hh : c.hull with
  | none =>
    simp only [newHull]
    refine ⟨?_, hmn⟩
    intro p hp
    by_cases hn : c.n > 0
    · exact absurd hh (hs.hullSome hn)
    · exact hin p (by omega) hp
  | some h =>
    obtain ⟨hsound, hmin⟩ := hs.hullOk h hh
    simp only [newHull]
    constructor
    · intro p hp
      show min h.minTs mn ≤ tsOf p ∧ tsOf p ≤ max h.maxTs mx
      by_cases hpn : p < c.n
      · have := hsound p hpn
        omega
      · have := hin p (by omega) hp
        omega
    · show minI64 ≤ min h.minTs mn
      omega

/-- **one `onWrite` preserves `SoundL`** on a monotone stream when the notification carries a `RollHull` -/
theorem onWrite_preservesL {tsOf : Nat → Int} {c : ChunkIdx} (sparse bigGap k : Nat) (mn mx : Int) (hs : SoundL tsOf c)
    (hk : 0 < k) (hm : Monotone tsOf (c.n + k)) (he : RollHull tsOf c.n k mn mx) :
    SoundL tsOf (onWrite sparse bigGap c k mn mx) := by
  have hh := hullL_step hs he
  have hhull : ∀ h, some (newHull c.hull mn mx) = some h → HullSound h tsOf (c.n + k) ∧ minI64 ≤ h.minTs := by
    intro h e
    simp only [Option.some.injEq] at e
    rw [← e]; exact hh
  obtain ⟨hin, ⟨qx, hqx1, hqx2, hqx3⟩, hroll, _⟩ := he
  unfold onWrite
  dsimp only
  split
  · -- already corrupted: only the hull and the record count change
    rename_i hc
    refine ⟨?_, ?_, ?_, ?_, ?_⟩
    · intro _; simp
    · exact hhull
    all_goals (intro h; dsimp only at h; rw [hc] at h; exact absurd h (by decide))
  · rename_i hc
    have hc' : c.corrupted = false := by simpa using hc
    split
    · -- skipped batch
      refine ⟨?_, ?_, ?_, ?_, ?_⟩
      · intro _; simp
      · exact hhull
      · intro _
        exact lookup_grow (n' := c.n + k) (hs.lookup hc') hm (hs.attained hc') (hs.idxLe hc')
      · intro _ p hp
        obtain ⟨q, hq, hle⟩ := hs.attained hc' p hp
        refine ⟨q, ?_, hle⟩
        show q < c.n + k
        omega
      · intro _ p hp
        have := hs.idxLe hc' p hp
        show p.idx ≤ c.n + k
        omega
    · split
      · -- first notification arrives too late: the index is dropped
        refine ⟨?_, ?_, ?_, ?_, ?_⟩
        · intro _; simp
        · exact hhull
        all_goals (intro h; exact Bool.noConfusion h)
      · -- the interval of the batch is appended
        have hall : ∀ p ∈ c.pts, p.ts ≤ mn := by
          intro p hp
          obtain ⟨q, hq, hle⟩ := hs.attained hc' p hp
          rcases hroll with h0 | ⟨qn, hqn1, hqn2, hqn3⟩
          · omega
          · have := hm q qn (by omega) hqn2
            omega
        have hcase : cntLE c.pts (Iv.mk ⟨mn, c.n⟩ ⟨mx, c.n + k - 1⟩).p0.ts = c.pts.length :=
          cntLE_eq_length_of_all_le mn c.pts hall
        refine ⟨?_, ?_, ?_, ?_, ?_⟩
        · intro _; simp
        · exact hhull
        · intro _
          have hold := lookup_grow (n' := c.n + k) (hs.lookup hc') hm (hs.attained hc') (hs.idxLe hc')
          constructor
          · intro p hp q h1 h2
            dsimp only at hp h2
            rcases mem_add_append hcase hp with hp | hp | hp
            · exact hold.1 p hp q h1 h2
            · subst hp
              dsimp only at h1 ⊢
              rcases hroll with h0 | ⟨qn, hqn1, hqn2, hqn3⟩
              · omega
              · have := hm q qn (by omega) hqn2
                omega
            · subst hp
              dsimp only at h1 ⊢
              have h3 := hm q (c.n + k - 1) (by omega) (by omega)
              have h4 := hin (c.n + k - 1) (by omega) (by omega)
              omega
          · intro p hp q h1 h2
            dsimp only at hp h2
            rcases mem_add_append hcase hp with hp | hp | hp
            · exact hold.2 p hp q h1 h2
            · subst hp
              dsimp only at h1 ⊢
              exact (hin q (by omega) h2).1
            · subst hp
              dsimp only at h1
              omega
        · intro _ p hp
          dsimp only at hp ⊢
          rcases mem_add_append hcase hp with hp | hp | hp
          · obtain ⟨q, hq, hle⟩ := hs.attained hc' p hp
            exact ⟨q, by omega, hle⟩
          · subst hp; exact ⟨c.n, by omega, (hin c.n (Nat.le_refl _) (by omega)).1⟩
          · subst hp; exact ⟨qx, hqx2, by dsimp only; omega⟩
        · intro _ p hp
          dsimp only at hp ⊢
          rcases mem_add_append hcase hp with hp | hp | hp
          · have := hs.idxLe hc' p hp; omega
          · subst hp; dsimp only; omega
          · subst hp; dsimp only; omega

theorem rebuild_n (sparse : Nat) (segMax0 : Int) (c : ChunkIdx) (tss : List Int) : (rebuild sparse segMax0 c tss).n = c.n := by
  unfold rebuild
  split <;> rfl

/-- **one rebuild of a confirmed prefix preserves `SoundL`** on monotone data -/
theorem rebuild_preservesL {tsOf : Nat → Int} {c : ChunkIdx} (sparse : Nat) {segMax0 : Int} (m : Nat) (hs : SoundL tsOf c)
    (hmn : m ≤ c.n) (hm : Monotone tsOf c.n) (hlow : ∀ q, q < c.n → minI64 ≤ tsOf q)
    (hhi : ∀ q, q < c.n → tsOf q ≤ maxI64) (hs0 : ∀ q, q < c.n → segMax0 ≤ tsOf q) :
    SoundL tsOf (rebuild sparse segMax0 c ((List.range m).map tsOf)) := by
  have hrb := rebuildPts_rbPt sparse (segMax0 := segMax0) (monotone_mono hm hmn) (fun q hq => hs0 q (by omega))
    (fun q hq => hhi q (by omega))
  unfold rebuild
  split
  · exact hs
  · rename_i h hh
    obtain ⟨hsound, hmin⟩ := hs.hullOk h hh
    have hsmin : minI64 ≤ (scannedHull ((List.range m).map tsOf)).minTs := by
      by_cases hm0 : 0 < m
      · rw [scannedHull_exact hm0 (monotone_mono hm hmn)]
        exact hlow 0 (by omega)
      · have : m = 0 := by omega
        subst this
        show minI64 ≤ (0 : Int)
        decide
    refine ⟨?_, ?_, ?_, ?_, ?_⟩
    · intro _; simp
    · intro h' e
      simp only [Option.some.injEq] at e
      rw [← e]
      constructor
      · intro p hp
        have := hsound p hp
        dsimp only
        omega
      · dsimp only
        omega
    · intro _
      exact lookupSound_of_rbPt hm hmn hrb
    · intro _ p hp
      obtain ⟨e1, e2, e3⟩ := hrb p hp
      exact ⟨p.idx - 1, by show p.idx - 1 < c.n; omega, by rw [e3]; exact Int.le_refl _⟩
    · intro _ p hp
      obtain ⟨e1, _, _⟩ := hrb p hp
      show p.idx ≤ c.n
      omega

/-! ### histories -/

theorem step_n (sparse bigGap : Nat) (segMax0 : Int) (tsOf : Nat → Int) (c : ChunkIdx) (op : Op) :
    (step sparse bigGap segMax0 tsOf c op).n = c.n + op.recs := by
  cases op with
  | write k mn mx => exact onWrite_n sparse bigGap c k mn mx
  | rebuild m => exact rebuild_n sparse segMax0 c _

/-- **one event preserves the invariant** -/
theorem step_preserves {tsOf : Nat → Int} {c : ChunkIdx} (sparse bigGap : Nat) {segMax0 : Int} (op : Op) (hs : SoundL tsOf c)
    (hok : OpOk tsOf c.n op) (hm : Monotone tsOf (c.n + op.recs)) (hlow : ∀ q, q < c.n + op.recs → minI64 ≤ tsOf q)
    (hhi : ∀ q, q < c.n + op.recs → tsOf q ≤ maxI64) (hs0 : ∀ q, q < c.n + op.recs → segMax0 ≤ tsOf q) :
    SoundL tsOf (step sparse bigGap segMax0 tsOf c op) := by
  cases op with
  | write k mn mx => exact onWrite_preservesL sparse bigGap k mn mx hs hok.1 hm hok.2
  | rebuild m =>
    exact rebuild_preservesL sparse (min m c.n) hs (Nat.min_le_right _ _) hm hlow hhi hs0

theorem runOpsFrom_sound {tsOf : Nat → Int} (sparse bigGap : Nat) (segMax0 : Int) : ∀ (ops : List Op) (c : ChunkIdx),
    SoundL tsOf c → Monotone tsOf (c.n + totalOps ops) → OpsExact tsOf c.n ops →
    (∀ q, q < c.n + totalOps ops → minI64 ≤ tsOf q) → (∀ q, q < c.n + totalOps ops → tsOf q ≤ maxI64) →
    (∀ q, q < c.n + totalOps ops → segMax0 ≤ tsOf q) →
    SoundL tsOf (runOpsFrom sparse bigGap segMax0 tsOf c ops) ∧
      (runOpsFrom sparse bigGap segMax0 tsOf c ops).n = c.n + totalOps ops := by
  intro ops
  induction ops with
  | nil => intro c hs _ _ _ _ _; exact ⟨hs, by simp [runOpsFrom, totalOps]⟩
  | cons op r ih =>
    intro c hs hm he hlow hhi hs0
    obtain ⟨hok, hrest⟩ := he
    have ht : totalOps (op :: r) = op.recs + totalOps r := rfl
    rw [ht] at hm hlow hhi hs0
    have hstep := step_preserves sparse bigGap (segMax0 := segMax0) op hs hok (monotone_mono hm (by omega))
      (fun q hq => hlow q (by omega)) (fun q hq => hhi q (by omega)) (fun q hq => hs0 q (by omega))
    have hn := step_n sparse bigGap segMax0 tsOf c op
    have := ih (step sparse bigGap segMax0 tsOf c op) hstep (by rw [hn]; exact monotone_mono hm (by omega))
      (by rw [hn]; exact hrest) (by rw [hn]; intro q hq; exact hlow q (by omega))
      (by rw [hn]; intro q hq; exact hhi q (by omega)) (by rw [hn]; intro q hq; exact hs0 q (by omega))
    refine ⟨this.1, ?_⟩
    show (runOpsFrom sparse bigGap segMax0 tsOf (step sparse bigGap segMax0 tsOf c op) r).n = _
    rw [this.2, hn, ht]
    omega

/-- **a monotone history of writes and rebuilds leaves a chunk index that is sound for the look-ups** -/
theorem runOps_sound {tsOf : Nat → Int} (sparse bigGap : Nat) (segMax0 : Int) (ops : List Op)
    (hm : Monotone tsOf (totalOps ops)) (he : OpsExact tsOf 0 ops)
    (hlow : ∀ q, q < totalOps ops → minI64 ≤ tsOf q) (hhi : ∀ q, q < totalOps ops → tsOf q ≤ maxI64)
    (hs0 : ∀ q, q < totalOps ops → segMax0 ≤ tsOf q) :
    SoundL tsOf (runOps sparse bigGap segMax0 tsOf ops) ∧ (runOps sparse bigGap segMax0 tsOf ops).n = totalOps ops := by
  have e : (({} : ChunkIdx).n + totalOps ops) = totalOps ops := by show 0 + totalOps ops = totalOps ops; omega
  have := runOpsFrom_sound (tsOf := tsOf) sparse bigGap segMax0 ops {} (soundL_init tsOf)
    (by rw [e]; exact hm) he (by rw [e]; exact hlow) (by rw [e]; exact hhi) (by rw [e]; exact hs0)
  refine ⟨this.1, ?_⟩
  show (runOpsFrom sparse bigGap segMax0 tsOf {} ops).n = totalOps ops
  rw [this.2, e]

/-- **the payoff**: after any history of writes and rebuilds (of confirmed prefixes) on monotone data, the selector's
window of the chunk offers every position whose timestamp lies in the asked range -/
theorem window_complete_with_rebuilds {tsOf : Nat → Int} (sparse bigGap : Nat) (segMax0 : Int) (ops : List Op)
    (hm : Monotone tsOf (totalOps ops)) (he : OpsExact tsOf 0 ops) (hn : totalOps ops ≤ maxU32)
    (hlow : ∀ q, q < totalOps ops → minI64 ≤ tsOf q) (hhi : ∀ q, q < totalOps ops → tsOf q ≤ maxI64)
    (hs0 : ∀ q, q < totalOps ops → segMax0 ≤ tsOf q) (r : TmRange) (p : Nat) (hp : p < totalOps ops)
    (hr : inRange r (tsOf p)) :
    ∃ h, (runOps sparse bigGap segMax0 tsOf ops).hull = some h ∧
      inWindow (window h (idxOf (runOps sparse bigGap segMax0 tsOf ops)) r) p := by
  obtain ⟨hs, hnn⟩ := runOps_sound (tsOf := tsOf) sparse bigGap segMax0 ops hm he hlow hhi hs0
  obtain ⟨h, hh, hsound, hmin⟩ := hs.hull_pos (by omega)
  rw [hnn] at hsound
  refine ⟨h, hh, ?_⟩
  apply window_complete_of_lookup (tsOf := tsOf) (n := totalOps ops) h _ r hsound ?_ hn hmin p hp hr
  intro pts hpts
  unfold idxOf at hpts
  by_cases hc : (runOps sparse bigGap segMax0 tsOf ops).corrupted = true
  · rw [if_pos hc] at hpts; exact absurd hpts (by simp)
  · rw [if_neg hc] at hpts
    have hc' : (runOps sparse bigGap segMax0 tsOf ops).corrupted = false := by simpa using hc
    have := hs.lookup hc'
    rw [hnn] at this
    simp only [Option.some.injEq] at hpts
    rw [← hpts]; exact this

/-- the payoff with the constants of the code (`sparseSpace`, `20·sparseSpace`, segment maximum starting at MinInt64):
`hs0` is then the int64 lower bound -/
theorem window_complete_with_rebuilds_code {tsOf : Nat → Int} (ops : List Op)
    (hm : Monotone tsOf (totalOps ops)) (he : OpsExact tsOf 0 ops) (hn : totalOps ops ≤ maxU32)
    (hlow : ∀ q, q < totalOps ops → minI64 ≤ tsOf q) (hhi : ∀ q, q < totalOps ops → tsOf q ≤ maxI64)
    (r : TmRange) (p : Nat) (hp : p < totalOps ops) (hr : inRange r (tsOf p)) :
    ∃ h, (runOps Generated.C02.sparseSpace (Generated.C02.sparseSpace * Generated.C02.bigGapFactor)
          Generated.C02.rebuildSegmentMaxInit tsOf ops).hull = some h ∧
      inWindow (window h (idxOf (runOps Generated.C02.sparseSpace
        (Generated.C02.sparseSpace * Generated.C02.bigGapFactor) Generated.C02.rebuildSegmentMaxInit tsOf ops)) r) p := by
  have f : Generated.C02.rebuildSegmentMaxInit = minI64 := by decide
  exact window_complete_with_rebuilds _ _ _ ops hm he hn hlow hhi (by rw [f]; exact hlow) r p hp hr

/-! ## (f) concrete instances -/

section Instances
set_option maxRecDepth 100000

/-- 600 monotone records, `sparseSpace = 250`: the two root points, then one point per segment at its EXCLUSIVE end -/
example : rebuildPts 250 minI64 ((List.range 600).map (fun (i : Nat) => (i : Int))) =
    [⟨0, 0⟩, ⟨0, 0⟩, ⟨249, 250⟩, ⟨499, 500⟩, ⟨599, 600⟩] := by decide

/-- the point `(249, 250)` breaks `IndexSound`'s closed-right claim (position 250 carries 250 > 249) … -/
example : ¬ Claims (fun (i : Nat) => (i : Int)) [⟨0, 0⟩, ⟨0, 0⟩, ⟨249, 250⟩] := by
  intro h
  have := (h.2.1 250 (by decide) (by decide)).2
  dsimp only at this
  omega

/-- a write after a rebuild of a confirmed prefix: 300 records written, the first 260 rebuilt, 300 more written -/
example : (runOps 250 5000 minI64 (fun (i : Nat) => (i : Int)) [.write 300 0 299, .rebuild 260, .write 300 300 599]).pts =
    [⟨0, 0⟩, ⟨0, 0⟩, ⟨249, 250⟩, ⟨259, 260⟩, ⟨599, 599⟩] := by decide

example : (runOps 250 5000 minI64 (fun (i : Nat) => (i : Int)) [.write 300 0 299, .rebuild 260, .write 300 300 599]).hull =
    some ⟨0, 599⟩ ∧
    (runOps 250 5000 minI64 (fun (i : Nat) => (i : Int)) [.write 300 0 299, .rebuild 260, .write 300 300 599]).lastRec = 599 ∧
    (runOps 250 5000 minI64 (fun (i : Nat) => (i : Int)) [.write 300 0 299, .rebuild 260, .write 300 300 599]).n = 600 := by decide

/-- a rebuild before anything is confirmed leaves no tree and merges `{0,0}` into the hull; the next write starts the
index at `first > 0` -/
example : (runOps 250 5000 minI64 (fun (i : Nat) => (i : Int) + 100) [.write 10 100 109, .rebuild 0, .write 300 110 409]).pts =
    [⟨110, 10⟩, ⟨409, 309⟩] ∧
    (runOps 250 5000 minI64 (fun (i : Nat) => (i : Int) + 100) [.write 10 100 109, .rebuild 0, .write 300 110 409]).hull =
      some ⟨0, 409⟩ := by decide

/-- a rebuild of a chunk the index has not been told about changes nothing -/
example : runOps 250 5000 minI64 (fun (i : Nat) => (i : Int)) [.rebuild 5] = {} := by decide

/-- `hs0` is needed: with the segment maximum starting at 0 (the code before fix db44772) and negative timestamps the
point `(0, 2)` rebuilt from the first two of four records claims `0 ≤ tsOf 3 = -5` -/
example : rebuildPts 2 0 [-30, -20] = [⟨-30, 0⟩, ⟨-30, 0⟩, ⟨0, 2⟩] ∧
    ¬ LookupSound (fun q => [-30, -20, -10, -5].getD q 0) 4 (rebuildPts 2 0 [-30, -20]) := by
  refine ⟨by decide, ?_⟩
  intro h
  have := h.2 ⟨0, 2⟩ (by decide) 3 (by decide) (by decide)
  revert this
  decide

end Instances

end Logrange.RebuildHist
