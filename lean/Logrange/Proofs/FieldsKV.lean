import Logrange.Model.FieldsKV
/-! Lemmas about the binary field encoding (`FieldsKV`): decode ∘ encode, evenness of what `fromKV` writes. -/
namespace Logrange.Proofs.FieldsKV
open Go Logrange.Quote Logrange.KV Logrange.Tags Logrange.FieldsKV

theorem toNat_ofNat_le (n : Nat) (h : n ≤ 255) : (UInt8.ofNat n).toNat = n := by
  simp [UInt8.toNat_ofNat']
  omega

theorem decode_item (f : Nat) (k rest : Bytes) (hk : k.length ≤ 255) :
    decodeItems (f+1) (UInt8.ofNat k.length :: (k ++ rest)) = (decodeItems f rest).map (fun xs => k :: xs) := by
  simp [decodeItems, toNat_ofNat_le _ hk]
  omega

theorem encodeItems_length (items : List Bytes) : items.length ≤ (encodeItems items).length := by
  induction items with
  | nil => simp [encodeItems]
  | cons x xs ih =>
    simp only [encodeItems, List.flatMap_cons, encPiece, List.length_append, List.length_cons] at *
    omega

theorem decode_encode (items : List Bytes) (h : ∀ p ∈ items, p.length ≤ 255) (f : Nat) (hf : items.length ≤ f) :
    decodeItems f (encodeItems items) = some items := by
  induction items generalizing f with
  | nil => cases f <;> simp [encodeItems, decodeItems]
  | cons p ps ih =>
    have hp := h p (by simp)
    match f, hf with
    | f+1, hf =>
      have := ih (fun q hq => h q (by simp [hq])) f (by simp at hf; omega)
      simp only [encodeItems, List.flatMap_cons] at *
      have e : encPiece p ++ List.flatMap encPiece ps
          = UInt8.ofNat p.length :: (p ++ List.flatMap encPiece ps) := by simp [encPiece]
      rw [e, decode_item _ _ _ hp, this]
      simp

theorem fromKVLoop_length (res : List Bytes) (even : Bool) (items : List Bytes)
    (h : fromKVLoop res even = some items) : items.length = res.length := by
  induction res generalizing even items with
  | nil => simp [fromKVLoop] at h; subst h; rfl
  | cons v rest ih =>
    simp only [fromKVLoop] at h
    split at h
    · simp at h
    · split at h
      · simp at h
      · split at h
        · simp at h
        · split at h
          · simp at h
          · rename_i r hr
            simp at h; subst h
            simp [ih _ _ hr]

theorem fromKVItems_even (t : Bytes) (items : List Bytes) (h : fromKVItems t = some items) :
    items.length % 2 = 0 := by
  unfold fromKVItems at h
  split at h
  · simp at h; subst h; rfl
  · split at h
    · simp at h
    · split at h
      · simp at h; subst h; rfl
      · split at h
        · simp at h
        · rename_i res _
          split at h
          · simp at h
          · rename_i hodd
            rw [fromKVLoop_length _ _ _ h]
            simp at hodd
            omega

end Logrange.Proofs.FieldsKV
