import Logrange.Model.FieldsKV
/-! Lemmas about the binary field encoding (`FieldsKV`): decode ∘ encode, evenness of what `fromKV` writes. -/
namespace Logrange.Proofs.FieldsKV
open Go Logrange.Quote Logrange.KV Logrange.Tags Logrange.FieldsKV

theorem toNat_ofNat_le (n : Nat) (h : n ≤ 255) : (UInt8.ofNat n).toNat = n := by
  simp [UInt8.toNat_ofNat']
  omega

theorem decode_item (f : Nat) (k rest : Bytes) (hk : k.length ≤ 255) :
    decodeItems (f+1) (UInt8.ofNat k.length :: (k ++ rest)) = (decodeItems f rest).map (fun xs => k :: xs) := by
  simp [decodeItems, toNat_ofNat_le _ hk]
  omega

theorem encodeItems_length (items : List Bytes) : items.length ≤ (encodeItems items).length := by
  induction items with
  | nil => simp [encodeItems]
  | cons x xs ih =>
    simp only [encodeItems, List.flatMap_cons, encPiece, List.length_append, List.length_cons] at *
    omega

theorem decode_encode (items : List Bytes) (h : ∀ p ∈ items, p.length ≤ 255) (f : Nat) (hf : items.length ≤ f) :
    decodeItems f (encodeItems items) = some items := by
  induction items generalizing f with
  | nil => cases f <;> simp [encodeItems, decodeItems]
  | cons p ps ih =>
    have hp := h p (by simp)
    match f, hf with
    | f+1, hf =>
      have := ih (fun q hq => h q (by simp [hq])) f (by simp at hf; omega)
      simp only [encodeItems, List.flatMap_cons] at *
      have e : encPiece p ++ List.flatMap encPiece ps
          = UInt8.ofNat p.length :: (p ++ List.flatMap encPiece ps) := by simp [encPiece]
      rw [e, decode_item _ _ _ hp, this]
      simp

/-- one step of the loop, as an equation on the successful outcome -/
theorem fromKVLoop_cons (v : Bytes) (rest : List Bytes) (even : Bool) (items : List Bytes)
    (h : fromKVLoop (v :: rest) even = some items) :
    ∃ v' r, items = v' :: r ∧ fromKVLoop rest (!even) = some r ∧ decodeValue (trimSpaces v) = some v' ∧
      ¬ (Logrange.Generated.C08.fieldLimitBeforeUnquote && decide (v.length > maxLen)) = true ∧
      ¬ (Logrange.Generated.C08.fieldLimitAfterUnquote && startsQuoted (trimSpaces v) && decide (v'.length > maxLen)) = true := by
  simp only [fromKVLoop] at h
  split at h
  · simp at h
  · rename_i h1
    split at h
    · simp at h
    · split at h
      · simp at h
      · rename_i v' hd
        split at h
        · simp at h
        · rename_i h2
          split at h
          · simp at h
          · rename_i r hr
            simp at h; subst h
            exact ⟨v', r, rfl, hr, hd, h1, h2⟩

theorem fromKVLoop_length (res : List Bytes) (even : Bool) (items : List Bytes)
    (h : fromKVLoop res even = some items) : items.length = res.length := by
  induction res generalizing even items with
  | nil => simp [fromKVLoop] at h; subst h; rfl
  | cons v rest ih =>
    obtain ⟨v', r, he, hr, _, _, _⟩ := fromKVLoop_cons v rest even items h
    subst he
    simp [ih _ _ hr]

theorem trimSpaces_length_le (s : Bytes) : (trimSpaces s).length ≤ s.length := by
  unfold trimSpaces
  rw [List.length_reverse]
  refine Nat.le_trans (List.dropWhile_sublist _).length_le ?_
  rw [List.length_reverse]
  exact (List.dropWhile_sublist _).length_le

theorem decodeValue_unquoted (v v' : Bytes) (hq : startsQuoted v = false) (h : decodeValue v = some v') : v' = v := by
  cases v with
  | nil => simp [decodeValue] at h; exact h
  | cons c t =>
    simp [startsQuoted] at hq
    simp [decodeValue, hq.1, hq.2] at h
    exact h.symm

/-- with the limit tested on the raw piece and again on the unquoted value, every stored piece fits the limit -/
theorem fromKVLoop_items_le (hB : Logrange.Generated.C08.fieldLimitBeforeUnquote = true)
    (hA : Logrange.Generated.C08.fieldLimitAfterUnquote = true) (res : List Bytes) (even : Bool) (items : List Bytes)
    (h : fromKVLoop res even = some items) : ∀ p ∈ items, p.length ≤ maxLen := by
  induction res generalizing even items with
  | nil => simp [fromKVLoop] at h; subst h; simp
  | cons v rest ih =>
    obtain ⟨v', r, he, hr, hd, h1, h2⟩ := fromKVLoop_cons v rest even items h
    subst he
    intro p hp
    rcases List.mem_cons.mp hp with rfl | hp
    · simp [hB] at h1
      simp [hA] at h2
      cases hq : startsQuoted (trimSpaces v) with
      | true => exact h2 hq
      | false =>
        rw [decodeValue_unquoted _ _ hq hd]
        exact Nat.le_trans (trimSpaces_length_le v) h1
    · exact ih _ _ hr p hp

theorem fromKVItems_items_le (hB : Logrange.Generated.C08.fieldLimitBeforeUnquote = true)
    (hA : Logrange.Generated.C08.fieldLimitAfterUnquote = true) (t : Bytes) (items : List Bytes)
    (h : fromKVItems t = some items) : ∀ p ∈ items, p.length ≤ maxLen := by
  unfold fromKVItems at h
  split at h
  · simp at h; subst h; simp
  · split at h
    · simp at h
    · split at h
      · simp at h; subst h; simp
      · split at h
        · simp at h
        · split at h
          · simp at h
          · exact fromKVLoop_items_le hB hA _ _ _ h

theorem fromKVItems_even (t : Bytes) (items : List Bytes) (h : fromKVItems t = some items) :
    items.length % 2 = 0 := by
  unfold fromKVItems at h
  split at h
  · simp at h; subst h; rfl
  · split at h
    · simp at h
    · split at h
      · simp at h; subst h; rfl
      · split at h
        · simp at h
        · rename_i res _
          split at h
          · simp at h
          · rename_i hodd
            rw [fromKVLoop_length _ _ _ h]
            simp at hodd
            omega

end Logrange.Proofs.FieldsKV
