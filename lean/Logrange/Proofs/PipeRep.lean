import Logrange.Model.PipeLtsRep
import Logrange.Proofs.PipeLts
/-!
# Lemmas for the repaired pipe LTS (C10): `stepR` is `step` without the repairs; it keeps the copy invariant with them
-/
namespace Logrange.PipeLts

theorem stepR_unrepaired (cfg : Cfg) (st : State) (l : Label) : stepR cfg unrepaired st l = step cfg st l := by
  cases l with
  | write s b => simp [stepR, unrepaired]
  | notify => simp only [stepR, unrepaired]; cases step cfg st .notify <;> simp
  | restart => simp only [stepR, unrepaired]; cases step cfg st .restart <;> simp
  | _ => rfl

theorem runR_unrepaired (cfg : Cfg) (st : State) (ls : List Label) : runR cfg unrepaired st ls = run cfg st ls := by
  induction ls generalizing st with
  | nil => rfl
  | cons l ls ih =>
    simp only [runR, run, stepR_unrepaired]
    cases step cfg st l <;> exact ih _

/-- writing the whole map to the positions file keeps the invariant -/
theorem ginv_resaveAll (cfg : Cfg) (st : State) (h : GInv cfg st) : GInv cfg (resaveAll st) := by
  obtain ⟨g1, g2, g3, g4⟩ := h
  refine ⟨?_, ?_, ?_, ?_⟩
  · intro s
    exact sinv_resave cfg st.flt (st.srcs s) _ (sinvw_of_sinv _ _ _ _ (g1 s))
  · intro we hw
    obtain ⟨b1, b2, b3⟩ := g2 we hw
    exact ⟨b1, b2, b3⟩
  · intro s hs; exact g3 s hs
  · intro hd s; exact g4 hd s

/-- `catchUp` of one source keeps the per-source invariant -/
theorem sinv_catchUpSrc (cfg : Cfg) (flt : Ev → Bool) (σ : SrcSt) (P : List Ev) (h : SInv cfg flt σ P) :
    SInv cfg flt (catchUpSrc σ) P := by
  unfold catchUpSrc
  cases hd : σ.desc with
  | none => simpa [hd] using h
  | some d =>
    simp only
    apply dinv_startWorker
    obtain ⟨a1, a2, a3, a4, a5, a6, a7, a8⟩ := h.2 d hd
    exact ⟨a1, a2, a3, a4, a5, a6, a7, a8⟩

theorem catchUpSrc_log (σ : SrcSt) : (catchUpSrc σ).log = σ.log := by
  unfold catchUpSrc; split
  · rfl
  · unfold startWorker; split <;> rfl

theorem catchUpSrc_desc_none (σ : SrcSt) (h : σ.desc = none) : (catchUpSrc σ).desc = none := by
  unfold catchUpSrc; simp [h]

theorem ginv_catchUp (cfg : Cfg) (st : State) (h : GInv cfg st) (hdn : st.down = false) :
    GInv cfg { st with srcs := fun s => catchUpSrc (st.srcs s) } := by
  obtain ⟨g1, g2, g3, g4⟩ := h
  refine ⟨?_, ?_, ?_, ?_⟩
  · intro s; exact sinv_catchUpSrc cfg st.flt (st.srcs s) _ (g1 s)
  · intro we hw
    obtain ⟨b1, b2, b3⟩ := g2 we hw
    refine ⟨b1, b2, ?_⟩
    show we.endPos ≤ (catchUpSrc (st.srcs we.src)).log.length
    rw [catchUpSrc_log]; exact b3
  · intro s hs; exact catchUpSrc_desc_none _ (g3 s hs)
  · intro hd; rw [hdn] at hd; cases hd

/-- the repaired LTS keeps the copy invariant, whichever repairs are switched on -/
theorem stepR_ginv (cfg : Cfg) (rc : RCfg) (st st' : State) (l : Label) (h : GInv cfg st)
    (hs : stepR cfg rc st l = some st') : GInv cfg st' := by
  cases l with
  | write s b =>
    simp only [stepR] at hs
    split at hs
    · cases hs
    · exact step_ginv cfg st st' _ h hs
  | notify =>
    simp only [stepR] at hs
    cases hst : step cfg st .notify with
    | none => simp [hst] at hs
    | some s1 =>
      have h1 := step_ginv cfg st s1 .notify h hst
      simp only [hst] at hs
      split at hs
      · simp only [Option.some.injEq] at hs; subst hs; exact ginv_resaveAll cfg s1 h1
      · simp only [Option.some.injEq] at hs; subst hs; exact h1
  | restart =>
    simp only [stepR] at hs
    cases hst : step cfg st .restart with
    | none => simp [hst] at hs
    | some s1 =>
      have h1 := step_ginv cfg st s1 .restart h hst
      have hdn : s1.down = false := by
        simp only [step] at hst
        split at hst
        · simp only [Option.some.injEq] at hst; subst hst; rfl
        · cases hst
      simp only [hst] at hs
      split at hs
      · simp only [Option.some.injEq] at hs; subst hs; exact ginv_catchUp cfg s1 h1 hdn
      · simp only [Option.some.injEq] at hs; subst hs; exact h1
  | enqueue i => exact step_ginv cfg st st' (.enqueue i) h hs
  | wopen s => exact step_ginv cfg st st' (.wopen s) h hs
  | wcopy s k => exact step_ginv cfg st st' (.wcopy s k) h hs
  | wsave s => exact step_ginv cfg st st' (.wsave s) h hs
  | wtimeout s => exact step_ginv cfg st st' (.wtimeout s) h hs
  | wdone s => exact step_ginv cfg st st' (.wdone s) h hs
  | create => exact step_ginv cfg st st' (.create) h hs
  | delete => exact step_ginv cfg st st' (.delete) h hs
  | shutdown => exact step_ginv cfg st st' (.shutdown) h hs
  | halt => exact step_ginv cfg st st' (.halt) h hs

theorem runR_ginv (cfg : Cfg) (rc : RCfg) (st : State) (ls : List Label) (h : GInv cfg st) : GInv cfg (runR cfg rc st ls) := by
  induction ls generalizing st with
  | nil => simpa [runR] using h
  | cons l ls ih =>
    simp only [runR]
    cases hs : stepR cfg rc st l with
    | none => exact ih st h
    | some st' => exact ih st' (stepR_ginv cfg rc st st' l h hs)

/-! ### publication order (repair of F10) -/

/-- events of one source appear in storage order -/
def SameSrcOrdered (l : List WE) : Prop := l.Pairwise (fun a b => a.src = b.src → a.endPos ≤ b.startPos)
/-- at most one unpublished event per source -/
def OnePending (l : List WE) : Prop := l.Pairwise (fun a b => a.src ≠ b.src)

def PubInv (st : State) : Prop := SameSrcOrdered (st.chan ++ st.pend) ∧ OnePending st.pend

theorem pubinv_frame (st st' : State) (h : PubInv st) (e1 : st'.chan = st.chan) (e2 : st'.pend = st.pend) : PubInv st' := by
  unfold PubInv at *; rw [e1, e2]; exact h

theorem pubinv_init (n : Nat) (l : Nat → Bool) (p : Nat → Bytes) (f : Ev → Bool) (o : Bool) : PubInv (init n l p f o) := by
  simp [PubInv, SameSrcOrdered, OnePending, init]

/-- the labels whose step changes the channel or the unpublished events -/
def touchesQueue : Label → Bool
  | .write _ _ => true
  | .enqueue _ => true
  | .notify => true
  | .halt => true
  | _ => false

/-- steps that touch neither the channel nor the unpublished events -/
theorem step_chan_pend (cfg : Cfg) (st st' : State) (l : Label) (hs : step cfg st l = some st')
    (hl : touchesQueue l = false) : st'.chan = st.chan ∧ st'.pend = st.pend := by
  cases l <;> first
    | (cases hl; done)
    | (simp only [step] at hs
       repeat' (split at hs)
       all_goals first
         | (simp only [Option.some.injEq] at hs; subst hs; exact ⟨rfl, rfl⟩)
         | cases hs)

/-- **with the write lock, publication keeps storage order**: one step of the repaired LTS -/
theorem stepR_pubinv (cfg : Cfg) (rc : RCfg) (hw : rc.writeLock = true) (st st' : State) (l : Label)
    (hg : GInv cfg st) (h : PubInv st) (hs : stepR cfg rc st l = some st') : PubInv st' := by
  obtain ⟨ho, hp⟩ := h
  cases l with
  | write s b =>
    simp only [stepR, hw, Bool.true_and] at hs
    split at hs
    · cases hs
    · rename_i hany
      simp only [Bool.not_eq_true, List.any_eq_false, beq_iff_eq] at hany
      simp only [step] at hs
      split at hs
      · cases hs
      · simp only [Option.some.injEq] at hs; subst hs
        by_cases hb : b.isEmpty
        · simp only [hb, if_true]; exact ⟨ho, hp⟩
        · simp only [hb, Bool.false_eq_true, if_false]
          constructor
          · show SameSrcOrdered (st.chan ++ (st.pend ++ [_]))
            rw [← List.append_assoc]
            unfold SameSrcOrdered
            rw [List.pairwise_append]
            refine ⟨ho, by simp, ?_⟩
            intro a ha b' hb'
            simp only [List.mem_singleton] at hb'
            subst hb'
            intro hsrc
            have := (hg.2.1 a ha).2.2
            simp only at hsrc
            rw [hsrc] at this
            exact this
          · unfold OnePending
            rw [List.pairwise_append]
            refine ⟨hp, by simp, ?_⟩
            intro a ha b' hb'
            simp only [List.mem_singleton] at hb'
            subst hb'
            exact hany a ha
  | enqueue i =>
    have hs' : step cfg st (.enqueue i) = some st' := hs
    simp only [step] at hs'
    cases hpi : st.pend[i]? with
    | none => simp [hpi] at hs'
    | some we =>
      simp only [hpi] at hs'
      split at hs'
      · cases hs'
      · simp only [Option.some.injEq] at hs'; subst hs'
        have hlt : i < st.pend.length := by
          rcases Nat.lt_or_ge i st.pend.length with h | h
          · exact h
          · rw [List.getElem?_eq_none h] at hpi; cases hpi
        have hget : st.pend[i] = we := by
          rw [List.getElem?_eq_getElem hlt] at hpi; exact Option.some.inj hpi
        have hsplit : st.pend = st.pend.take i ++ we :: st.pend.drop (i + 1) := by
          rw [← hget]; exact (List.take_append_drop i st.pend).symm.trans (by rw [List.drop_eq_getElem_cons hlt])
        have herase : st.pend.eraseIdx i = st.pend.take i ++ st.pend.drop (i + 1) := List.eraseIdx_eq_take_drop_succ _ _
        -- the unpublished events: `we` differs in source from all the others
        have hp' := hp
        unfold OnePending at hp'
        rw [hsplit, List.pairwise_append] at hp'
        obtain ⟨p1, p2, p3⟩ := hp'
        rw [List.pairwise_cons] at p2
        obtain ⟨p2a, p2b⟩ := p2
        have ho' := ho
        unfold SameSrcOrdered at ho'
        rw [hsplit, List.pairwise_append] at ho'
        obtain ⟨o1, o2, o3⟩ := ho'
        rw [List.pairwise_append] at o2
        obtain ⟨o2a, o2b, o2c⟩ := o2
        rw [List.pairwise_cons] at o2b
        obtain ⟨o2b1, o2b2⟩ := o2b
        constructor
        · show SameSrcOrdered ((st.chan ++ [we]) ++ st.pend.eraseIdx i)
          rw [herase]
          unfold SameSrcOrdered
          rw [List.pairwise_append]
          refine ⟨?_, ?_, ?_⟩
          · rw [List.pairwise_append]
            refine ⟨o1, by simp, ?_⟩
            intro a ha b hb
            simp only [List.mem_singleton] at hb; subst hb
            exact o3 a ha b (by simp)
          · rw [List.pairwise_append]
            refine ⟨o2a, o2b2, ?_⟩
            intro a ha b hb
            exact o2c a ha b (List.mem_cons_of_mem _ hb)
          · intro a ha b hb
            rw [List.mem_append] at ha hb
            rcases ha with ha | ha
            · rcases hb with hb | hb
              · exact o3 a ha b (by simp [hb])
              · exact o3 a ha b (by simp [hb])
            · simp only [List.mem_singleton] at ha; subst ha
              rcases hb with hb | hb
              · intro hsrc; exact absurd hsrc.symm (p3 b hb a (by simp))
              · intro hsrc; exact absurd hsrc (p2a b hb)
        · show OnePending (st.pend.eraseIdx i)
          rw [herase]
          unfold OnePending
          rw [List.pairwise_append]
          refine ⟨p1, p2b, ?_⟩
          intro a ha b hb
          exact p3 a ha b (List.mem_cons_of_mem _ hb)
  | notify =>
    simp only [stepR] at hs
    cases hst : step cfg st .notify with
    | none => simp [hst] at hs
    | some s1 =>
      have hc : ∃ we, st.chan = we :: s1.chan ∧ s1.pend = st.pend := by
        simp only [step] at hst
        split at hst
        · cases hst
        · cases hch : st.chan with
          | nil => simp [hch] at hst
          | cons we rest =>
            simp only [hch] at hst
            split at hst <;> (simp only [Option.some.injEq] at hst; subst hst; exact ⟨we, rfl, rfl⟩)
      obtain ⟨we, hc1, hc2⟩ := hc
      have h1 : PubInv s1 := by
        constructor
        · unfold SameSrcOrdered at *
          rw [hc1, List.cons_append, List.pairwise_cons] at ho
          rw [hc2]; exact ho.2
        · rw [hc2]; exact hp
      simp only [hst] at hs
      split at hs
      · simp only [Option.some.injEq] at hs; subst hs; exact pubinv_frame _ _ h1 rfl rfl
      · simp only [Option.some.injEq] at hs; subst hs; exact h1
  | restart =>
    simp only [stepR] at hs
    cases hst : step cfg st .restart with
    | none => simp [hst] at hs
    | some s1 =>
      obtain ⟨e1, e2⟩ := step_chan_pend cfg st s1 .restart hst rfl
      have h1 : PubInv s1 := pubinv_frame _ _ ⟨ho, hp⟩ e1 e2
      simp only [hst] at hs
      split at hs
      · simp only [Option.some.injEq] at hs; subst hs; exact pubinv_frame _ _ h1 rfl rfl
      · simp only [Option.some.injEq] at hs; subst hs; exact h1
  | halt =>
    have hs' : step cfg st .halt = some st' := hs
    simp only [step] at hs'
    split at hs'
    · simp only [Option.some.injEq] at hs'; subst hs'
      simp [PubInv, SameSrcOrdered, OnePending]
    · cases hs'
  | wopen s => obtain ⟨e1, e2⟩ := step_chan_pend cfg st st' (.wopen s) hs rfl; exact pubinv_frame _ _ ⟨ho, hp⟩ e1 e2
  | wcopy s k => obtain ⟨e1, e2⟩ := step_chan_pend cfg st st' (.wcopy s k) hs rfl; exact pubinv_frame _ _ ⟨ho, hp⟩ e1 e2
  | wsave s => obtain ⟨e1, e2⟩ := step_chan_pend cfg st st' (.wsave s) hs rfl; exact pubinv_frame _ _ ⟨ho, hp⟩ e1 e2
  | wtimeout s => obtain ⟨e1, e2⟩ := step_chan_pend cfg st st' (.wtimeout s) hs rfl; exact pubinv_frame _ _ ⟨ho, hp⟩ e1 e2
  | wdone s => obtain ⟨e1, e2⟩ := step_chan_pend cfg st st' (.wdone s) hs rfl; exact pubinv_frame _ _ ⟨ho, hp⟩ e1 e2
  | create => obtain ⟨e1, e2⟩ := step_chan_pend cfg st st' .create hs rfl; exact pubinv_frame _ _ ⟨ho, hp⟩ e1 e2
  | delete => obtain ⟨e1, e2⟩ := step_chan_pend cfg st st' .delete hs rfl; exact pubinv_frame _ _ ⟨ho, hp⟩ e1 e2
  | shutdown => obtain ⟨e1, e2⟩ := step_chan_pend cfg st st' .shutdown hs rfl; exact pubinv_frame _ _ ⟨ho, hp⟩ e1 e2

theorem runR_pubinv (cfg : Cfg) (rc : RCfg) (hw : rc.writeLock = true) (st : State) (ls : List Label)
    (hg : GInv cfg st) (h : PubInv st) : PubInv (runR cfg rc st ls) := by
  induction ls generalizing st with
  | nil => simpa [runR] using h
  | cons l ls ih =>
    simp only [runR]
    cases hs : stepR cfg rc st l with
    | none => exact ih st hg h
    | some st' => exact ih st' (stepR_ginv cfg rc st st' l hg hs) (stepR_pubinv cfg rc hw st st' l hg h hs)

end Logrange.PipeLts
