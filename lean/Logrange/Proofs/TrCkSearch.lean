import Logrange.Translated.Ckindex
import Logrange.Model.Points
/-!
# The binary search of `(*block).findIntervalIdx` / `findIntervalInsertIdx` (pkg/tmindex/ckindex.go), as translated

On a ts-sorted record list the translated search returns `cntLE pts t - 1` (number of records with `ts ≤ t`, minus one);
`findIntervalInsertIdx` then applies the level-dependent adjustment. Loop invariant: `0 ≤ i ≤ cntLE ≤ j ≤ len`,
fuel `> j - i`; the probe index is `(i + j) / 2` (`half_eq`: Go's `int(uint(i+j) >> 1)`).
-/
set_option linter.unusedSimpArgs false
namespace Logrange.Proofs.TrCkSearch
open Go Go.Sem Logrange Logrange.Points Logrange.Translated.Ckindex

theorem half_eq (n : Int) (h0 : 0 ≤ n) (h1 : n < 9223372036854775808) :
    ((UInt64.ofInt n) >>> (1 : UInt64)).toInt64.toInt = n / 2 := by
  obtain ⟨m, rfl⟩ := Int.eq_ofNat_of_zero_le h0
  have hm : m < 9223372036854775808 := by omega
  have e64 : (2:Nat) ^ 64 = 18446744073709551616 := by decide
  have e64i : (2:Int) ^ 64 = 18446744073709551616 := by decide
  have hof : (UInt64.ofInt (m : Int)).toNat = m := by
    unfold UInt64.ofInt
    rw [UInt64.toNat_ofNat', e64, e64i]
    omega
  have hsh : ((UInt64.ofInt (m : Int)) >>> (1 : UInt64)).toNat = m / 2 := by
    rw [UInt64.toNat_shiftRight, hof]
    have : (1 : UInt64).toNat % 64 = 1 := by decide
    rw [this, Nat.shiftRight_eq_div_pow]
  unfold Int64.toInt
  rw [UInt64.toBitVec_toInt64, BitVec.toInt_eq_toNat_of_lt, UInt64.toNat_toBitVec, hsh]
  · omega
  · rw [UInt64.toNat_toBitVec, hsh, e64]; omega

theorem cntLE_nil (t : Int) : cntLE [] t = 0 := rfl

theorem cntLE_cons (a : Pt) (r : List Pt) (t : Int) :
    cntLE (a :: r) t = if a.ts ≤ t then cntLE r t + 1 else 0 := by
  unfold cntLE
  by_cases h : a.ts ≤ t <;> simp [h]

theorem cntLE_le (pts : List Pt) (t : Int) : cntLE pts t ≤ pts.length := by
  induction pts with
  | nil => simp [cntLE_nil]
  | cons a r ih =>
    rw [cntLE_cons]
    by_cases h : a.ts ≤ t <;> simp [h, ih]

theorem sorted_tail {a : Pt} {r : List Pt} (hs : SortedTs (a :: r)) : SortedTs r := by
  cases r with
  | nil => trivial
  | cons b r => exact hs.2

theorem sorted_head_le {a : Pt} {r : List Pt} (hs : SortedTs (a :: r)) (k : Nat) (hk : k < r.length) :
    a.ts ≤ r[k].ts := by
  induction r generalizing a k with
  | nil => simp at hk
  | cons b r ih =>
    cases k with
    | zero => exact hs.1
    | succ k =>
      have := ih hs.2 k (by simpa using hk)
      have h1 := hs.1
      simp only [List.getElem_cons_succ]
      omega

/-- on a ts-sorted list the records with `ts ≤ t` are exactly the first `cntLE pts t` ones -/
theorem le_iff_lt_cntLE (pts : List Pt) (hs : SortedTs pts) (t : Int) (h : Nat) (hh : h < pts.length) :
    pts[h].ts ≤ t ↔ h < cntLE pts t := by
  induction pts generalizing h with
  | nil => simp at hh
  | cons a r ih =>
    rw [cntLE_cons]
    cases h with
    | zero =>
      by_cases ha : a.ts ≤ t <;> simp [ha]
    | succ k =>
      have hk : k < r.length := by simpa using hh
      simp only [List.getElem_cons_succ]
      by_cases ha : a.ts ≤ t
      · simp only [ha, if_true]
        rw [ih (sorted_tail hs) k hk]
        omega
      · simp only [ha, if_false]
        have := sorted_head_le hs k hk
        omega


/-- one probe of the binary search: the midpoint lies in `[i, j)` and the comparison decides `h < cntLE` -/
theorem probe (pts : List Pt) (hs : SortedTs pts) (hn : pts.length < 256)
    (rr : Int → record) (hrr : ∀ (h : Nat) (hh : h < pts.length), (rr (h : Int)).ts.toInt = pts[h].ts) (ts : Int64)
    (i j : Int) (hi : 0 ≤ i) (hij : i < j) (hjl : j ≤ pts.length) :
    ((UInt64.ofInt (i + j)) >>> (1 : UInt64)).toInt64.toInt = (i + j) / 2 ∧
      i ≤ (i + j) / 2 ∧ (i + j) / 2 < j ∧
      ((rr ((i + j) / 2)).ts ≤ ts ↔ (i + j) / 2 < (cntLE pts ts.toInt : Int)) := by
  refine ⟨half_eq (i + j) (by omega) (by omega), by omega, by omega, ?_⟩
  obtain ⟨m, hm⟩ := Int.eq_ofNat_of_zero_le (show 0 ≤ (i + j) / 2 by omega)
  have hml : m < pts.length := by omega
  rw [hm, Int64.le_iff_toInt_le, hrr m hml, le_iff_lt_cntLE pts hs ts.toInt m hml]
  omega

theorem loop1_eq (pts : List Pt) (hs : SortedTs pts) (hn : pts.length < 256)
    (rr : Int → record) (hrr : ∀ (h : Nat) (hh : h < pts.length), (rr (h : Int)).ts.toInt = pts[h].ts) (ts : Int64)
    (fuel : Nat) : ∀ (i j : Int), 0 ≤ i → i ≤ (cntLE pts ts.toInt : Int) → (cntLE pts ts.toInt : Int) ≤ j →
      j ≤ pts.length → j - i < fuel →
      block_findIntervalIdx_loop1 ts rr fuel i j = .ok ((cntLE pts ts.toInt : Int) - 1) := by
  induction fuel with
  | zero => intro i j _ _ _ _ hf; omega
  | succ f ih =>
    intro i j hi hic hcj hjl hf
    simp only [block_findIntervalIdx_loop1]
    by_cases hij : i < j
    · obtain ⟨e, h1, h2, h3⟩ := probe pts hs hn rr hrr ts i j hi hij hjl
      simp only [hij, decide_true, if_true]
      rw [e]
      by_cases hc : (rr ((i + j) / 2)).ts ≤ ts
      · have hlt := h3.mp hc
        -- `hg`: the same script covers the source spelled with the branches swapped (`if r.ts > ts { j = h } else { i = h+1 }`)
        have hg : ¬ (ts < (rr ((i + j) / 2)).ts) := Int64.not_lt.mpr hc
        simp only [hc, hg, gt_iff_lt, decide_true, decide_false, Bool.false_eq_true, if_true, if_false]
        exact ih _ _ (by omega) (by omega) hcj hjl (by omega)
      · have hge : ¬ (i + j) / 2 < (cntLE pts ts.toInt : Int) := fun x => hc (h3.mpr x)
        have hg : ts < (rr ((i + j) / 2)).ts := Int64.not_le.mp hc
        simp only [hc, hg, gt_iff_lt, decide_true, decide_false, Bool.false_eq_true, if_true, if_false]
        exact ih _ _ hi hic (by omega) (by omega) (by omega)
    · simp only [hij, decide_false, Bool.false_eq_true, if_false, block_findIntervalIdx_after1]
      have : i = (cntLE pts ts.toInt : Int) := by omega
      rw [this]


theorem loop1_ins_eq (pts : List Pt) (hs : SortedTs pts) (hn : pts.length < 256)
    (rr : Int → record) (hrr : ∀ (h : Nat) (hh : h < pts.length), (rr (h : Int)).ts.toInt = pts[h].ts) (ts : Int64)
    (b : block_findIntervalInsertIdx_b) (recs : Int)
    (fuel : Nat) : ∀ (i j : Int), 0 ≤ i → i ≤ (cntLE pts ts.toInt : Int) → (cntLE pts ts.toInt : Int) ≤ j →
      j ≤ pts.length → j - i < fuel →
      block_findIntervalInsertIdx_loop1 b ts rr recs fuel i j =
        block_findIntervalInsertIdx_after1 b recs (cntLE pts ts.toInt : Int) := by
  induction fuel with
  | zero => intro i j _ _ _ _ hf; omega
  | succ f ih =>
    intro i j hi hic hcj hjl hf
    simp only [block_findIntervalInsertIdx_loop1]
    by_cases hij : i < j
    · obtain ⟨e, h1, h2, h3⟩ := probe pts hs hn rr hrr ts i j hi hij hjl
      simp only [hij, decide_true, if_true]
      rw [e]
      by_cases hc : (rr ((i + j) / 2)).ts ≤ ts
      · have hlt := h3.mp hc
        -- `hg`: the same script covers the source spelled with the branches swapped (`if r.ts > ts { j = h } else { i = h+1 }`)
        have hg : ¬ (ts < (rr ((i + j) / 2)).ts) := Int64.not_lt.mpr hc
        simp only [hc, hg, gt_iff_lt, decide_true, decide_false, Bool.false_eq_true, if_true, if_false]
        exact ih _ _ (by omega) (by omega) hcj hjl (by omega)
      · have hge : ¬ (i + j) / 2 < (cntLE pts ts.toInt : Int) := fun x => hc (h3.mpr x)
        have hg : ts < (rr ((i + j) / 2)).ts := Int64.not_le.mp hc
        simp only [hc, hg, gt_iff_lt, decide_true, decide_false, Bool.false_eq_true, if_true, if_false]
        exact ih _ _ hi hic (by omega) (by omega) (by omega)
    · simp only [hij, decide_false, Bool.false_eq_true, if_false]
      have : i = (cntLE pts ts.toInt : Int) := by omega
      rw [this]

theorem records_eq (n : Nat) (hn : n < 256) (rest : Bytes) :
    block_records { buf := UInt8.ofNat n :: rest } = .ok (n : Int) := by
  unfold block_records
  have h := index_ok (UInt8.ofNat n :: rest) 0 (by simp)
  simp only [Int.natCast_zero] at h
  rw [h]
  simp only [Go.Sem.bind, List.getElem_cons_zero, UInt8.toNat_ofNat']
  have : n % 2 ^ 8 = n := Nat.mod_eq_of_lt (by omega)
  rw [this]

theorem level_eq (x lvl : UInt8) (rest : Bytes) :
    block_level { buf := x :: lvl :: rest } = .ok (lvl.toNat : Int) := by
  unfold block_level
  have h := index_ok (x :: lvl :: rest) 1 (by simp)
  simp only [Int.natCast_one] at h
  rw [h]
  simp only [Go.Sem.bind, List.getElem_cons_succ, List.getElem_cons_zero]

theorem findIntervalIdx_eq (pts : List Pt) (hs : SortedTs pts) (hn : pts.length < 256) (rest : Bytes)
    (rr : Int → record) (hrr : ∀ (h : Nat) (hh : h < pts.length), (rr (h : Int)).ts.toInt = pts[h].ts) (ts : Int64) :
    block_findIntervalIdx { buf := UInt8.ofNat pts.length :: rest } ts rr =
      .ok (if pts.length = 0 then 0 else (cntLE pts ts.toInt : Int) - 1) := by
  unfold block_findIntervalIdx
  simp only [records_eq pts.length hn rest, Go.Sem.bind]
  by_cases h0 : pts.length = 0
  · simp [h0]
  · have h0' : ¬ ((pts.length : Int) = 0) := by omega
    have hle := cntLE_le pts ts.toInt
    simp only [h0, h0', beq_iff_eq, if_false]
    exact loop1_eq pts hs hn rr hrr ts _ 0 (pts.length : Int) (by omega) (by omega) (by omega) (by omega)
      (by unfold dist; omega)

theorem findIntervalInsertIdx_eq (pts : List Pt) (hs : SortedTs pts) (hn : pts.length < 256) (lvl : UInt8) (rest : Bytes)
    (rr : Int → record) (hrr : ∀ (h : Nat) (hh : h < pts.length), (rr (h : Int)).ts.toInt = pts[h].ts) (ts : Int64) :
    block_findIntervalInsertIdx { buf := UInt8.ofNat pts.length :: lvl :: rest } ts rr =
      .ok (if pts.length = 0 then 0
           else if lvl = 0 then (cntLE pts ts.toInt : Int) - 1
           else if cntLE pts ts.toInt = pts.length then (pts.length : Int) - 2
           else max 0 ((cntLE pts ts.toInt : Int) - 1)) := by
  unfold block_findIntervalInsertIdx
  simp only [records_eq pts.length hn (lvl :: rest), Go.Sem.bind]
  by_cases h0 : pts.length = 0
  · simp [h0]
  · have h0' : ¬ ((pts.length : Int) = 0) := by omega
    have hle := cntLE_le pts ts.toInt
    simp only [h0, h0', beq_iff_eq, if_false]
    rw [loop1_ins_eq pts hs hn rr hrr ts _ _ _ 0 (pts.length : Int) (by omega) (by omega) (by omega) (by omega)
      (by unfold dist; omega)]
    unfold block_findIntervalInsertIdx_after1
    simp only [level_eq, Go.Sem.bind, beq_iff_eq]
    have hl : ((lvl.toNat : Int) = 0) ↔ lvl = 0 := by
      constructor
      · intro h
        apply UInt8.toNat_inj.mp
        simp only [UInt8.toNat_zero]
        omega
      · intro h; rw [h]; rfl
    by_cases hlv : lvl = 0
    · have := hl.mpr hlv
      rw [if_pos this, if_pos hlv]
    · have hlv' : ¬ ((lvl.toNat : Int) = 0) := fun x => hlv (hl.mp x)
      simp only [hlv, hlv', if_false]
      by_cases hc : cntLE pts ts.toInt = pts.length
      · simp only [hc, if_true]
      · have hc' : ¬ ((cntLE pts ts.toInt : Int) = (pts.length : Int)) := by omega
        simp only [hc, hc', if_false, maxInt]
        by_cases hm : (0 : Int) > (cntLE pts ts.toInt : Int) - 1
        · simp only [hm, decide_true, if_true]
          congr 1; omega
        · simp only [hm, decide_false, Bool.false_eq_true, if_false]
          congr 1; omega

end Logrange.Proofs.TrCkSearch
